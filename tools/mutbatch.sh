#!/bin/bash
# tools/mutbatch.sh <tier> <ID>... : evaluate /tmp/mut/<ID>/out/{1,2}/patch.diff with that property's check
tier=$1; shift
cd "$(dirname "$0")/.."
mkdir -p ${MUTROOT:-/tmp/mut2}/results
for id in "$@"; do for n in 1 2; do
  p=${MUTROOT:-/tmp/mut2}/$id/out/$n/patch.diff
  [ -f "$p" ] || continue
  ( tools/trymutant.sh "$p" "$tier" "$id" > ${MUTROOT:-/tmp/mut2}/results/$id-$n.$tier.log 2>&1 ) &
  while [ $(jobs -r | wc -l) -ge 4 ]; do sleep 1; done
done; done
wait
for id in "$@"; do for n in 1 2; do f=${MUTROOT:-/tmp/mut2}/results/$id-$n.$tier.log; [ -f $f ] && echo "$id-$n: $(grep '^== ' $f | cut -c1-150)"; done; done
