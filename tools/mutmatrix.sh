#!/bin/bash
# tools/mutmatrix.sh <tier> <parallel> : every seeded change under /verif/seeded against the check of its own property
tier=$1; par=${2:-2}; glob=${3:-C*}
cd "$(dirname "$0")/.."
mkdir -p .work/mutmatrix
for d in seeded/$glob/; do
  s=$(basename $d); id=${s%-*}
  ( tools/trymutant.sh $d/patch.diff "$tier" "$id" > .work/mutmatrix/$s.$tier.log 2>&1 ) &
  while [ $(jobs -r | wc -l) -ge $par ]; do sleep 1; done
done; wait
for d in seeded/$glob/; do s=$(basename $d); echo "$s: $(grep '^== ' .work/mutmatrix/$s.$tier.log | cut -c1-140) $(grep -m1 -A1 '^VIOLATION' .work/mutmatrix/$s.$tier.log | tail -1 | cut -c1-110)"; done
