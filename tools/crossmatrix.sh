#!/bin/bash
# tools/crossmatrix.sh <parallel> [seed-dir-glob] : every seeded change against the quick checks of ALL
# properties (looking for alarms of checks whose property the change does not break). One line per
# (seed, check) in .work/cross/summary.txt; full logs in .work/cross/<seed>.log
par=${1:-3}; glob=${2:-C*}
cd "$(dirname "$0")/.."
mkdir -p .work/cross
ALL="C01 C02 C03 C04 C05 C06 C07 C08 C09 C10 C11 C12 C13 C14 C15 C16 C17 C18 C19 C20"
for d in seeded/$glob/; do
  s=$(basename $d)
  [ -f $d/patch.diff ] || continue
  ( tools/trymutant.sh $d/patch.diff quick $ALL > .work/cross/$s.log 2>&1 ) &
  while [ $(jobs -r | wc -l) -ge $par ]; do sleep 2; done
done; wait
: > .work/cross/summary.txt
for d in seeded/$glob/; do s=$(basename $d); own=${s%-*}
  grep '^== ' .work/cross/$s.log | while read -r _ id rc rest; do
    r=${rc#rc=}; mark=" "; [ "$r" != 0 ] && mark="!"; [ "$id" = "$own" ] && mark="*$mark"
    sig=$(grep -A1 "^VIOLATION property=$id " .work/cross/$s.log | grep '^  \[' | head -1 | cut -c1-120)
    echo "$s $id rc=$r $mark $sig" >> .work/cross/summary.txt
  done
done
grep -c . .work/cross/summary.txt
grep ' ! ' .work/cross/summary.txt | grep -v '\*' 
