#!/bin/bash
# confirm every seeded change under /tmp/mut in parallel (3 at a time)
cd "$(dirname "$0")/.."
mkdir -p ${MUTROOT:-/tmp/mut2}/confirm
for i in $(seq -w 1 20); do for n in 1 2; do
  [ -f ${MUTROOT:-/tmp/mut2}/C$i/out/$n/patch.diff ] || continue
  ( python3 tools/confirmseed.py C$i $n > ${MUTROOT:-/tmp/mut2}/confirm/C$i-$n.json 2>${MUTROOT:-/tmp/mut2}/confirm/C$i-$n.err ) &
  while [ $(jobs -r | wc -l) -ge 3 ]; do sleep 2; done
done; done; wait
