#!/usr/bin/env python3
"""Confirm a seeded change in a scratch worktree of /repo and store it under /verif/seeded/<Cxx>-<n>/.

usage: confirmseed.py Cxx n
Steps (all in a fresh worktree of /repo HEAD, removed afterwards): apply the patch (fuzz allowed,
the patch is re-generated against the current HEAD), build with and without -tags verif, run the
existing test suite, run the demonstration with the patch (must fail) and without it (must pass).
"""
import json, os, re, shutil, subprocess, sys, tempfile
ROOT = os.environ.get("MUTROOT", "/tmp/mut2")
OFF = int(os.environ.get("SEEDOFF", "2"))
ENV = dict(os.environ, GOFLAGS="-mod=mod", GOPROXY="off", GOSUMDB="off", GOTOOLCHAIN="local")

def sh(cmd, cwd, timeout=900):
    try:
        p = subprocess.run(cmd, shell=True, cwd=cwd, env=ENV, capture_output=True, text=True, timeout=timeout)
        return p.returncode, (p.stdout + p.stderr)
    except subprocess.TimeoutExpired as e:
        return 124, "TIMEOUT\n" + ((e.stdout or b"").decode(errors="replace") if isinstance(e.stdout, bytes) else (e.stdout or ""))

def main():
    cid, n = sys.argv[1], sys.argv[2]
    dn = str(int(n) + OFF)
    src = f"{ROOT}/{cid}/out/{n}"
    meta = json.load(open(f"{src}/meta.json"))
    wt = tempfile.mkdtemp(prefix="seedwt.")
    os.rmdir(wt)
    rc, out = sh(f"git -C /repo worktree add -q --detach {wt} HEAD", "/")
    assert rc == 0, out
    res = {"property": cid, "seed": f"{cid}-{dn}"}
    try:
        rc, out = sh(f"git apply {src}/patch.diff || patch -p1 -F3 -s < {src}/patch.diff", wt)
        res["patch_applies"] = rc == 0
        if rc != 0:
            res["error"] = out[-2000:]
            return res
        rc, newpatch = sh("git add -A -N . && git diff -- . ':!go.mod' ':!go.sum'", wt)   # -N: files the change adds are part of the patch
        sh("git reset -q", wt)
        added = re.findall(r"(?m)^diff --git a/(\S+) b/\S+\nnew file", newpatch)
        rc, out = sh("go build ./... && go build -tags verif ./...", wt)
        res["builds"] = rc == 0
        if rc != 0:
            res["error"] = out[-2000:]
            return res
        rc, out = sh("go test -vet=off -count=1 ./... 2>&1", wt)
        fails = [l for l in out.splitlines() if l.startswith("--- FAIL")]
        res["existing_tests_pass"] = rc == 0 or all("Test_ReuseConnTransport" in l and "DialErr" not in l for l in fails)
        res["existing_test_failures"] = fails
        # demonstration
        cmd = meta.get("demo_cmd", "")
        cmd = re.sub(r"cd /tmp/mut\d?/C\d+\s*&&\s*", "", cmd)
        cmd = re.sub(r"git apply out/\d+/patch\.diff\s*&&\s*", "", cmd)
        cmd = re.sub(r"export GOFLAGS=\S+ GOPROXY=\S+ GOSUMDB=\S+ GOTOOLCHAIN=\S+\s*&&\s*", "", cmd)
        cmd = cmd.replace(" out/", f" {ROOT}/{cid}/out/").replace(f"/tmp/mut3/{cid}/out/", f"{ROOT}/{cid}/out/").rstrip("; ")
        res["demo_cmd"] = cmd
        rc1, out1 = sh(cmd + " 2>&1", wt, timeout=600)
        res["demo_with_patch_exit"] = rc1
        res["demo_with_patch_tail"] = out1[-1200:]
        sh("git checkout -- . ", wt)   # removes the patch, keeps the (untracked) demo file
        for f in added:
            os.remove(os.path.join(wt, f))
        rc2, out2 = sh(cmd + " 2>&1", wt, timeout=900)
        res["demo_without_patch_exit"] = rc2
        res["demo_without_patch_tail"] = out2[-600:]
        failed = lambda rc, out: rc != 0 or re.search(r"(?m)^(--- FAIL|FAIL\b|panic:|fatal error:)", out) is not None
        passed = lambda rc, out: (not failed(rc, out)) and re.search(r"(?m)^(ok\s|PASS)", out) is not None
        res["demo_fails_with_patch"] = failed(rc1, out1)
        res["demo_passes_without_patch"] = passed(rc2, out2)
        res["confirmed"] = bool(res["builds"] and res["existing_tests_pass"] and res["demo_fails_with_patch"] and res["demo_passes_without_patch"])
        if res["confirmed"]:
            dst = f"/verif/seeded/{cid}-{dn}"
            shutil.rmtree(dst, ignore_errors=True)
            os.makedirs(dst)
            open(f"{dst}/patch.diff", "w").write(newpatch)
            shutil.copytree(f"{src}/demo", f"{dst}/demo")
            m = {"property": cid, "summary": meta.get("summary"), "breaks": meta.get("breaks"), "needs_to_manifest": meta.get("needs_to_manifest"),
                 "files_changed": meta.get("files_changed"), "demo_cmd_in_a_worktree_of_repo": cmd.replace(f"{ROOT}/{cid}/out/{n}/", f"/verif/seeded/{cid}-{dn}/"),
                 "confirmed_by": {"applies_to_repo_head": True, "go_build_and_build_tags_verif": True, "existing_suite": "pass (flaky Test_ReuseConnTransport ignored)",
                                  "demo_with_patch": "fails", "demo_without_patch": "passes"}}
            json.dump(m, open(f"{dst}/meta.json", "w"), indent=1)
        return res
    finally:
        sh(f"git -C /repo worktree remove --force {wt}", "/")
        print(json.dumps(res))

if __name__ == "__main__":
    main()
