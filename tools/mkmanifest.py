#!/usr/bin/env python3
"""Regenerates /verif/MANIFEST.json from the table below (single source of truth)."""
import json, os, subprocess
ROOT = os.path.dirname(os.path.dirname(os.path.abspath(__file__)))

# id: (level, technique, level text, level note, design ref)
CHECKS = {
 "C11": ("exploration", "differential runtime monitor (in-process): MixMatcher vs declarative set reference over permuted entry lists, monotonicity probe after every Add",
         "Every generated entry list is loaded in all permutations (<=4 entries, <=5 in thorough) or 8 sampled orders plus duplicates and through the file loader; every probe name is compared with a set-based reference written from the property text. Held on the sampled lists only.",
         "Trusts Go's regexp package and the 40-line reference; entry alphabet excludes bytes the line format cannot carry (newline, '#', ':', '.')", "C11"),
 "C03": ("fault_enumeration", "offline history checker over client-side event logs (exactly-once, header/rcode reference) against the real binary, all listener kinds x upstream transports x scripted upstream faults",
         "Every query of the matrix listener x upstream transport x upstream outcome (reply, rcodes, silence, garbage, close, reset, half frame, HTTP 500) and of the query-shape list is sent to the instrumented proxy binary; the recorded responses are matched to queries and judged by exactly-once, deadline, header and rcode rules. Missing/late responses are re-run alone three times before they count.",
         "Trusts miekg/dns as the client-side codec, the fake upstreams, loopback networking; lateness is judged with 3 s slack on a 6 s deadline", "C03"),
 "C04": ("exploration", "online keyed-answer oracle on every response of a concurrent end-to-end stress run, joined offline with the fake upstreams' serial logs",
         "Fake upstreams derive every RDATA byte from (question, upstream tag, reply serial); each of the tens of thousands of responses received over all listeners under reordering, caching and eviction pressure is recomputed from its own question and compared record by record, and every serial is joined with the upstream log. Held on the interleavings the run produced.",
         "Trusts the fake upstreams and miekg/dns; SERVFAIL responses under load are counted, not judged (C03 judges them)", "C04"),
 "C20": ("exploration", "Go race detector + checkptr, pool sanitizer (poison/quarantine/canary, hook H1) and ownership hooks (H3, H5) observing hostile end-to-end and in-process transport workloads; reports parsed and de-duplicated from race logs",
         "Any data race with a mosproxy frame, any double release / write-after-release report, any poisoned byte reaching a keyed answer fails the check. Reach: all listeners and upstream transports, abandoned client connections, cancellation storms with 0-2.5 ms deadlines, cache eviction with injected delays, quarantine on and off.",
         "Race detector only sees races that happen on the executed schedules; foreign (dependency-only) races are listed but do not fail the check", "C20"),
 "C07": ("exploration", "offline history checker over client RESP / upstream FETCH events joined by reply serial (key integrity, group isolation, equality modulo TTL, hit-required), sequential key-component pairs, porcupine linearizability check of MemoryCache histories against a bag-register model under injected delay, differential range-table lookups",
         "Real binary with an ip-marker file: every response's serial is joined with the upstream log and the reference group lookup; MemoryCache Store/Get histories under eviction pressure with the H2 delay point are checked by porcupine. Held on the histories produced.",
         "Trusts the fake upstream's serial log, porcupine, the 10-line reference group lookup; Redis second level not exercised", "C07"),
 "C08": ("exploration", "offline history checker with one-sided real-time bounds (ageing, expiry, never-cached, no-displacement) over probe responses and upstream fetch logs of the real binary",
         "Keys with generated TTL vectors/rcodes are probed at scheduled ages before and after their reference lifetime under two maximum_ttl settings; bounds stay sound under arbitrary scheduling delay (store time bracketed by upstream send stamp and first client receipt).",
         "Real time: default 6 h cap and 30 s lifetimes only in the thorough tier; 3 s expiry grace absorbs cache clock granularity", "C08"),
 "C10": ("exploration", "differential runtime monitor: reference first-match rule evaluator vs client rcodes and per-upstream query logs of the real binary started with generated YAML; start-up rejection of bad configurations observed by exit status",
         "Each generated configuration is run by the instrumented binary and probed with unique names; the deciding rule, rcode, selected upstream, lower-casing, RD and absence of contact with other upstreams are checked; bad configurations must exit non-zero without a crash.",
         "Rules with both reject and forward, reverse without domain, reject>15 are not generated (undefined by the statement)", "C10"),
 "C12": ("exploration", "runtime monitor on client responses and upstream-side wire bytes (raw OPT/option scanner + reference ECS encoder) against the real binary, ECS on/off, cached and uncached paths",
         "Every probe response and the matching upstream query are scanned for OPT records and options; ECS content is compared byte-exact with a reference encoder for v4, v6, v4-mapped and unknown client addresses.",
         "Client addresses via loopback sockets and the DoH client-address header; abstract-unix listeners not exercised", "C12"),
 "C13": ("exploration", "strict frame parser + ID multiset + keyed-answer oracle on the byte stream read back from tcp/gnet/tls listeners under generated segmentations, pacing and out-of-order completion; limit scenario joined with the upstream log",
         "k pipelined frames are written in generated segmentations; the returned stream must be exactly k well-formed frames with the sent ID multiset and correct answers; with max_concurrent_queries=4 all queries are answered, REFUSED ones never reach the upstream, at most 4 are outstanding upstream.",
         "TLS record boundaries are not controlled; missing responses are re-run alone 3x before they count", "C13"),
 "C15": ("exploration", "virtual-time runtime monitor of ClientLimiter.AllowN (conservation bound, metamorphic isolation replay, sharing probe) + end-to-end flood/victim scenario on the real binary",
         "Generated arrival histories and option sets (incl. omitted masks) are fed through AllowN with caller-supplied time; E2E: flooders exhaust their subnets, victims on other subnets (UDP/TCP/gnet/DoT/DoQ sockets, DoH header for v6 and v4-mapped) must be served, refused queries are REFUSED/503 and never forwarded.",
         "Limiter GC (real time, 1 min) avoided by short histories; E2E cost bound uses the minimum per-query cost", "C15"),
 "C17": ("fault_enumeration", "exhaustive matrices: dial destination observed through the socket Control callback / UDP sniffers vs a reference address resolver; upstream certificate matrix and client-certificate matrix through the real binary",
         "All (scheme x host form x port x dial_addr) cells, all (TLS upstream kind x server certificate x tls option) cells and all (TLS listener x client certificate) cells are enumerated; outcome compared with the reference (success iff chain+name+validity or skip-verify; served iff valid client certificate).",
         "quic/h3 destinations only observable for loopback; system-roots option means 'no configured CA' (the harness CA is never in the system pool)", "C17"),
 "C18": ("fault_enumeration", "child-process runtime monitors with watchdog: Close raced against idle/in-flight/pending-dial states for every upstream kind with a /proc/self/fd socket census; router start/close and failing listener at every position through hook H4; exit status of the real binary",
         "Every (upstream kind x race point) cell and every (server count x failing position x failure kind) cell runs in its own process: Close must return within 5 s, be idempotent, release in-flight exchanges, leave no socket; failed start-up must be an error with earlier listeners released.",
         "Socket census counts the harness's fake servers too (they close when the peer does); promptness thresholds are seconds", "C18"),
 "C19": ("exploration", "offline history checker over burst hits and upstream fetch intervals (background vs request-path classification) on the real binary in real time",
         "Bursts of 1-200 concurrent hits in the last quarter of a 12 s entry while refreshes take 1.5 s or fail: hits must show the cached reply quickly, background refresh intervals must be disjoint, the renewed entry must be visible after a successful refresh and the old one after a failed one.",
         "Latency verdict needs a quarter of the burst to be slow; keepalive traffic keeps pooled upstream connections from idling out", "C19"),
 "C01": ("exploration", "crash/hang/sanitizer monitor: decoder driven in child processes under the race detector, checkptr and the pool sanitizer with a last-input log and watchdog; hostile inputs on all listeners and hostile upstream replies against the real binary, each followed by liveness probes",
         "200k (quick) mutated byte strings through UnpackMsg/Pack/ToReadable/ReadMsgFromTCP in children (crash, race, pool/ownership report or hang names its input); hostile datagrams/frames/DoH requests on 8 listeners and hostile replies on 6 upstream transports of the real binary, the process must stay alive and answer valid probes.",
         "All byte strings is sampled by structure-aware mutators, not enumerated; HTTP status expectation uses the proxy's own decoder as the definition of 'decodable'", "C01"),
 "C02": ("exploration", "differential runtime monitor (in-process): reference encoder/decoder (refmsg), miekg/dns and x/net dnsmessage vs Msg.Unpack/Pack on generated messages with hostile label alphabets and label-boundary mimicry",
         "Each generated message is reference-encoded (optionally with legal pointer chains), decoded by mosproxy and re-encoded with and without compression; both encodings must decode (mosproxy, reference, miekg, x/net) to the same content, Len() must equal the uncompressed size, re-encoding must be a fixpoint.",
         "Trusts the 600-line reference model and the two independent decoders; the reserved Z header bit is masked; RDATA of types miekg expands but mosproxy keeps opaque is skipped for miekg", "C02"),
 "C05": ("fault_enumeration", "offline join of scripted-server logs (conn, wire ID, nonce) with caller-side call/return logs over many short concurrent histories; ID-exhaustion run",
         "Scripted servers reorder, delay, duplicate, drop, inject unsolicited and late replies; rules R1-R6 (reply was sent, for this exchange's wire ID on that connection, caller ID restored, at most one exchange per reply, wire IDs pairwise distinct per connection) are checked offline; 140k exchanges through one transport must never reuse an ID.",
         "Histories are short and many; a missing return is inconclusive here (C14 judges termination)", "C05"),
 "C06": ("fault_enumeration", "server-side online assertion (outstanding queries per connection <= 1) + nonce join under a cancellation / idle-timeout sweep against ReuseConnTransport and the UDP upstream's TCP fallback",
         "Caller deadlines are swept across the scripted server's reply schedule (before write, between write and reply, mid-reply, after) and idle timers around reuse instants; every returned message must carry its own query's nonce and ID and no connection may ever carry two outstanding queries.",
         "Scripted server sends exactly one reply per query", "C06"),
 "C09": ("exploration", "runtime monitor on Msg.Pack output (size bound, decodability by three decoders, subsequence/OPT/question retention, TC iff omitted) over generated messages x limits; end-to-end size check on every listener for large keyed answers",
         "20k (quick) (message, limit, compression, convention) tuples incl. every boundary +-1 around Len() and record ends; E2E: answers of 300 B-60 kB fetched over UDP with advertised sizes and over stream/DoH/DoQ listeners, every received datagram/frame/body checked against the limit and the upstream's original.",
         "OPT records fed carry at most 64 option octets; header id/flags other than TC are not judged here", "C09"),
 "C14": ("fault_enumeration", "return-time and dial-count rules over the matrix transport x fault kind x protocol step with scripted faulty servers and fault-injecting dialers; candidates re-run 3x",
         "Every (transport, fault, step) cell: refuse, hanging dial, TLS stall, silent, half frame, garbage, FIN, RST at dial / after write / mid reply / while idle; T1 return <= deadline+1.5 s, T2 stale pooled connections survived with bounded dials, T3 waiters on a dead connection released promptly, T4 fresh-connection failure reported with <= 8 dials.",
         "Wall clock with seconds of gap between correct and violating behaviour; h3 skipped", "C14"),
 "C16": ("fault_enumeration", "per-leg marker rules over the matrix UDP outcome x TCP outcome with a scripted server on one UDP+TCP port",
         "All cells {udp: tc|ok|silent} x {tcp: ok|refuse|silent|garbage|close}: a returned message never carries TC from the UDP leg, TC => same question arrives over TCP and its outcome is returned, no TC => no TCP connection at all.",
         "Leg markers and nonces embedded in AAAA RDATA by the scripted server", "C16"),
}
NOT_YET = {}

def main():
    props = [json.loads(l) for l in open(os.path.join(ROOT, "properties.jsonl"))]
    hooks = subprocess.run(["git", "-C", "/repo", "log", "--format=%H %s"], capture_output=True, text=True).stdout.splitlines()
    hook_commits = [l.split()[0] for l in hooks if " verif hook" in l]
    checks = []
    na = []
    for p in props:
        pid = p["id"]
        if pid in CHECKS:
            level, tech, text, note, ref = CHECKS[pid]
            checks.append({
                "property_id": pid,
                "quick_cmd": f"./check {pid} quick",
                "thorough_cmd": f"./check {pid} thorough",
                "evidence_file": f"/verif/evidence/{pid}.json",
                "replay_cmd_template": f"./check {pid} --replay {{path}}",
                "engine": "vharness",
                "level_claimed": {"category": level, "text": text, "design_ref": f"DESIGN.md section 4, {ref}"},
                "level_note": note,
                "technique": tech,
            })
        else:
            na.append({"property_id": pid, "reason": NOT_YET.get(pid, "check not built yet (runtime monitor planned in DESIGN.md section 4); not claimed until it runs clean")})
    m = {
        "version": 1,
        "setup_cmd": "./check build",
        "hooks": {
            "guard": "verif",
            "enable": "go build -race -tags verif (harness module /verif with replace github.com/IrineSistiana/mosproxy => /repo)",
            "baseline_off_cmd": "cd /repo && cp go.mod /tmp/verif_base.mod && cp go.sum /tmp/verif_base.sum && GOFLAGS= go test -modfile=/tmp/verif_base.mod -json -vet=off -count=1 -timeout 25m ./...",
            "source_commits": hook_commits,
            "add_only": True,
        },
        "engines": [{"name": "vharness", "path": "/verif/cmd/vharness", "serves_properties": sorted(CHECKS), "kind_free_text": "Go program built with -race -tags verif against /repo's working tree: runtime monitors (online assertions, offline history checkers, differential reference models), drives the real packages in-process and the real binary end-to-end"}],
        "checks": checks,
        "not_applicable": na,
        "notes": "Technique family: runtime monitoring and sanitizers. Every check rebuilds bin/vharness (and bin/mosproxy.race for end-to-end checks) from /repo's working tree with hooks enabled. Known findings: /verif/known_findings.json.",
    }
    json.dump(m, open(os.path.join(ROOT, "MANIFEST.json"), "w"), indent=1)
    print("checks:", len(checks), "not_applicable:", len(na))

if __name__ == "__main__":
    main()
