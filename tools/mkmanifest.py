#!/usr/bin/env python3
"""Regenerates /verif/MANIFEST.json from the table below (single source of truth)."""
import json, os, subprocess
ROOT = os.path.dirname(os.path.dirname(os.path.abspath(__file__)))

# id: (level, technique, level text, level note, design ref)
CHECKS = {
 "C11": ("exploration", "differential runtime monitor (in-process): MixMatcher vs declarative set reference over permuted entry lists, monotonicity probe after every Add",
         "Every generated entry list is loaded in all permutations (<=4 entries, <=5 in thorough) or 8 sampled orders plus duplicates and through the file loader; every probe name is compared with a set-based reference written from the property text. Held on the sampled lists only.",
         "Trusts Go's regexp package and the 40-line reference; entry alphabet excludes bytes the line format cannot carry (newline, '#', ':', '.')", "C11"),
 "C03": ("fault_enumeration", "offline history checker over client-side event logs (exactly-once, header/rcode reference) against the real binary, all listener kinds x upstream transports x scripted upstream faults",
         "Every query of the matrix listener x upstream transport x upstream outcome (reply, rcodes, silence, garbage, close, reset, half frame, HTTP 500) and of the query-shape list is sent to the instrumented proxy binary; the recorded responses are matched to queries and judged by exactly-once, deadline, header and rcode rules. Missing/late responses are re-run alone three times before they count.",
         "Trusts miekg/dns as the client-side codec, the fake upstreams, loopback networking; lateness is judged with 3 s slack on a 6 s deadline", "C03"),
 "C04": ("exploration", "online keyed-answer oracle on every response of a concurrent end-to-end stress run, joined offline with the fake upstreams' serial logs",
         "Fake upstreams derive every RDATA byte from (question, upstream tag, reply serial); each of the tens of thousands of responses received over all listeners under reordering, caching and eviction pressure is recomputed from its own question and compared record by record, and every serial is joined with the upstream log. Held on the interleavings the run produced.",
         "Trusts the fake upstreams and miekg/dns; SERVFAIL responses under load are counted, not judged (C03 judges them)", "C04"),
 "C20": ("exploration", "Go race detector + checkptr, pool sanitizer (poison/quarantine/canary, hook H1) and ownership hooks (H3, H5) observing hostile end-to-end and in-process transport workloads; reports parsed and de-duplicated from race logs",
         "Any data race with a mosproxy frame, any double release / write-after-release report, any poisoned byte reaching a keyed answer fails the check. Reach: all listeners and upstream transports, abandoned client connections, cancellation storms with 0-2.5 ms deadlines, cache eviction with injected delays, quarantine on and off.",
         "Race detector only sees races that happen on the executed schedules; foreign (dependency-only) races are listed but do not fail the check", "C20"),
}
NOT_YET = {}

def main():
    props = [json.loads(l) for l in open(os.path.join(ROOT, "properties.jsonl"))]
    hooks = subprocess.run(["git", "-C", "/repo", "log", "--format=%H %s"], capture_output=True, text=True).stdout.splitlines()
    hook_commits = [l.split()[0] for l in hooks if " verif hook" in l]
    checks = []
    na = []
    for p in props:
        pid = p["id"]
        if pid in CHECKS:
            level, tech, text, note, ref = CHECKS[pid]
            checks.append({
                "property_id": pid,
                "quick_cmd": f"./check {pid} quick",
                "thorough_cmd": f"./check {pid} thorough",
                "evidence_file": f"/verif/evidence/{pid}.json",
                "replay_cmd_template": f"./check {pid} --replay {{path}}",
                "engine": "vharness",
                "level_claimed": {"category": level, "text": text, "design_ref": f"DESIGN.md section 4, {ref}"},
                "level_note": note,
                "technique": tech,
            })
        else:
            na.append({"property_id": pid, "reason": NOT_YET.get(pid, "check not built yet (runtime monitor planned in DESIGN.md section 4); not claimed until it runs clean")})
    m = {
        "version": 1,
        "setup_cmd": "./check build",
        "hooks": {
            "guard": "verif",
            "enable": "go build -race -tags verif (harness module /verif with replace github.com/IrineSistiana/mosproxy => /repo)",
            "baseline_off_cmd": "cd /repo && cp go.mod /tmp/verif_base.mod && cp go.sum /tmp/verif_base.sum && GOFLAGS= go test -modfile=/tmp/verif_base.mod -json -vet=off -count=1 -timeout 25m ./...",
            "source_commits": hook_commits,
            "add_only": True,
        },
        "engines": [{"name": "vharness", "path": "/verif/cmd/vharness", "serves_properties": sorted(CHECKS), "kind_free_text": "Go program built with -race -tags verif against /repo's working tree: runtime monitors (online assertions, offline history checkers, differential reference models), drives the real packages in-process and the real binary end-to-end"}],
        "checks": checks,
        "not_applicable": na,
        "notes": "Technique family: runtime monitoring and sanitizers. Every check rebuilds bin/vharness (and bin/mosproxy.race for end-to-end checks) from /repo's working tree with hooks enabled. Known findings: /verif/known_findings.json.",
    }
    json.dump(m, open(os.path.join(ROOT, "MANIFEST.json"), "w"), indent=1)
    print("checks:", len(checks), "not_applicable:", len(na))

if __name__ == "__main__":
    main()
