#!/bin/bash
# tools/trymutant.sh <patch.diff> <tier> <ID...> : apply a seeded change to a scratch worktree of /repo
# (never to /repo itself while other runs use it), run the given checks against it, remove the worktree.
set -u
patch=$(realpath "$1"); tier=$2; shift 2
cd "$(dirname "$0")/.."
wt=$(mktemp -d /tmp/mutwt.XXXXXX)
git -C /repo worktree add -q --detach "$wt" HEAD || exit 3
if ! git -C "$wt" apply "$patch" 2>/dev/null; then
  # the seeded change was written against an earlier /repo HEAD (before later hook lines): allow fuzz
  if ! (cd "$wt" && patch -p1 -F3 -s < "$patch"); then echo "PATCH DOES NOT APPLY"; git -C /repo worktree remove --force "$wt"; exit 3; fi
fi
tag=$(echo -n "$wt" | md5sum | cut -c1-10)
for id in "$@"; do
  out=$(VERIF_REPO="$wt" ./check "$id" "$tier" 2>&1); rc=$?
  echo "== $id rc=$rc $(echo "$out" | grep '^check ' | tail -1)"
  echo "$out" | grep -A1 '^VIOLATION' | grep -v '^--' | cut -c1-300 | head -8
done
git -C /repo worktree remove --force "$wt"
rm -rf "bin/alt-$tag" ".work/alt/$tag"
