#!/bin/bash
# tools/sweep.sh <tier> <seeds...> : run every check at the given seeds, print one line per run
tier=$1; shift
cd "$(dirname "$0")/.."
./check build >/dev/null 2>&1
for s in "$@"; do
  for id in C01 C02 C03 C04 C05 C06 C07 C08 C09 C10 C11 C12 C13 C14 C15 C16 C17 C18 C19 C20; do
    out=$(VERIF_SEED=$s ./check $id $tier 2>&1); rc=$?
    echo "seed=$s rc=$rc $(echo "$out" | grep '^check ' | tail -1)"
    if [ $rc -ne 0 ]; then echo "$out" | grep -A2 'VIOLATION\|INCONCLUSIVE\|BUILD' | head -20 | cut -c1-400; fi
  done
done
