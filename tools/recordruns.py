#!/usr/bin/env python3
"""Fill "checks_run" of every seeded/<id>/meta.json from the logs of tools/mutmatrix.sh
(.work/mutmatrix/<id>.<tier>.log) and print the rows of the DESIGN.md table.
usage: recordruns.py <tier> [first-suffix]   (rows are printed for seeds whose -n >= first-suffix)"""
import json, os, re, sys, glob
tier = sys.argv[1]; first = int(sys.argv[2]) if len(sys.argv) > 2 else 1
os.chdir(os.path.join(os.path.dirname(__file__), ".."))
for d in sorted(glob.glob("seeded/C*/")):
    s = os.path.basename(d.rstrip("/")); own, n = s.split("-")
    log = f".work/mutmatrix/{s}.{tier}.log"
    if not os.path.exists(log):
        continue
    txt = open(log, errors="replace").read()
    m = re.search(r"^== (\S+) rc=(\d+)", txt, re.M)
    if not m:
        continue
    sig = re.search(r"^  \[([^\]]+)\]", txt, re.M)
    meta = json.load(open(d + "meta.json"))
    meta["checks_run"] = {
        "command": f"tools/trymutant.sh seeded/{s}/patch.diff {tier} {own}  (scratch worktree of /repo HEAD + patch, VERIF_SEED=1)",
        "result": "VIOLATION" if m.group(2) == "1" else ("no violation" if m.group(2) == "0" else "exit " + m.group(2)),
        "first_signature": sig.group(1) if sig else "",
    }
    json.dump(meta, open(d + "meta.json", "w"), indent=1)
    if int(n) >= first:
        what = meta["summary"].replace("|", "/").replace("\n", " ")[:170]
        ok = "✔" if m.group(2) == "1" else "✘"
        print(f"| {s} | {what} | {own} {ok} | `{(sig.group(1) if sig else '')[:70]}` |")
