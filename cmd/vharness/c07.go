package main

// C07 — cached answers go only to the same question and client group, unchanged;
// a repeat inside the guaranteed lifetime is a hit.

import (
	"bytes"
	"encoding/hex"
	"fmt"
	"net/netip"
	"os"
	"strings"
	"sync"
	"sync/atomic"
	"time"

	"github.com/IrineSistiana/mosproxy/internal/cache"
	"github.com/IrineSistiana/mosproxy/internal/pool"
	"github.com/IrineSistiana/mosproxy/internal/verifhook"

	"github.com/IrineSistiana/mosproxy/verif/internal/clock"
	"github.com/IrineSistiana/mosproxy/verif/internal/fakeredis"
	"github.com/IrineSistiana/mosproxy/verif/internal/gen"
	"github.com/IrineSistiana/mosproxy/verif/internal/racelog"
	"github.com/miekg/dns"
)

func init() {
	register(&Check{ID: "C07", Level: "exploration",
		Rule: "(a) concurrent E2E history on few keys x client groups (ip ranges incl. same label on two ranges, boundary addresses, v6 via DoH header) over several lifetimes, checked for key integrity, group isolation, equality modulo TTL/ID and hit-required; (b) sequential key-component pairs (one component changed => miss, equivalent => hit); (c) MemoryCache histories under eviction with injected delay checked by porcupine against a bag-register model; (d) range tables vs linear scan; (e) in-process overwrite stress and concurrent lookups of live entries (all must hit), keys and values passed to Store in pooled buffers that are overwritten and released right afterwards; two proxies sharing a redis that takes writes slowly (the second one is asked every question the first one stored in a burst); pairs include replies beyond 64 KiB uncompressed compared with their first relay; " +
			"one evaluation = one response / one history / one table; distinct non-trivial = distinct (part, key or variant kind, group, cached?) combinations",
		Run: runC07})
}

var c07Ranges = []chRange{
	{netip.MustParseAddr("127.1.0.0"), netip.MustParseAddr("127.1.0.255"), "A"},
	{netip.MustParseAddr("127.1.1.0"), netip.MustParseAddr("127.1.1.0"), "B"}, // adjacent single address
	{netip.MustParseAddr("127.2.0.0"), netip.MustParseAddr("127.2.255.255"), "B"},
	{netip.MustParseAddr("127.3.0.0"), netip.MustParseAddr("127.3.0.9"), "A"}, // same label, other range
	{netip.MustParseAddr("2001:db8::"), netip.MustParseAddr("2001:db8::ffff"), "C"},
	{netip.MustParseAddr("2001:db8::1:0"), netip.MustParseAddr("2001:db8::1:ffff"), "A"},
}

func runC07(c *Ctx) {
	if only := os.Getenv("VERIF_C07_ONLY"); only != "" { // development knob: run a single part
		switch only {
		case "stress":
			c07Stress(c)
		case "rediskeys":
			c07RedisKeys(c)
		case "callerbufs":
			c07CallerBuffers(c)
		case "hits":
			c07ConcurrentHits(c)
		case "late":
			c07LateRepeat(c)
		case "porcupine":
			c07Porcupine(c)
		case "pairs":
			c07Pairs(c)
		case "labels":
			c07ManyLabels(c)
		case "history":
			c07History(c)
		}
		return
	}
	var wg sync.WaitGroup
	wg.Add(4)
	go func() { defer wg.Done(); c07ManyLabels(c) }()
	go func() { defer wg.Done(); c07Pairs(c) }()
	go func() { defer wg.Done(); c07History(c) }()
	go func() { defer wg.Done(); c07LateRepeat(c); c07RedisKeys(c) }()
	wg.Wait()
	c07Porcupine(c)
	c07Stress(c)
	c07CallerBuffers(c)
	c07ConcurrentHits(c)
	c07RangeTable(c)
}

type c07Client struct {
	Listener, LocalIP, Hdr string
}

func (cl c07Client) addr() string {
	if cl.Hdr != "" {
		return cl.Hdr
	}
	return cl.LocalIP
}

// ---------------------------------------------------------------- (b) key-component pairs

func c07Pairs(c *Ctx) {
	b, err := NewBed(c, "pairs", BedOpts{Upstreams: []string{"pipe"}, MemSize: 32 << 20, IpMarker: chRangeFile(c07Ranges), ClientAddrHeader: "X-Client-Addr",
		Listeners: []string{"udp", "tcp", "gnet", "http", "fasthttp"}})
	if err != nil {
		c.startFailure(err, "c07-pairs")
		return
	}
	h := &chHist{}
	n := c.N(60, 1500)
	parallelFor(n, 8, func() bool { return c.ViolationCount() >= 10 || !b.Proxy.Alive() }, func(i int) {
		r := gen.New(c.Seed, "c07pairs", i)
		base := c07Client{Listener: gen.Pick(r, []string{"udp", "tcp", "gnet"}), LocalIP: fmt.Sprintf("127.1.0.%d", r.Range(0, 255))}
		if r.P(0.3) {
			base = c07Client{Listener: gen.Pick(r, []string{"http", "fasthttp"}), Hdr: fmt.Sprintf("2001:db8::%x", r.Range(0, 0xffff))}
		}
		baseGroup := chGroup(c07Ranges, base.addr())
		// letters up to z in the name (spelled in another case by the "case" variant); every third
		// upstream reply is authoritative / validated (AA, AD): the cached copy keeps those flags; every
		// third reply comes without a question section (the cached copy is relayed like the first)
		name := fmt.Sprintf("ok-n3-ttl300%s-kzy%dx%d.pipe.test.", []string{"", "-aa", "-aa-ad", "-noq", "", "-aa-noq"}[i%6], i, r.Intn(1<<20))
		qt, qc := gen.Pick(r, []uint16{dns.TypeA, dns.TypeAAAA, dns.TypeTXT, dns.TypeMX}), uint16(dns.ClassINET)
		if i%5 == 2 {
			// a reply that fits the 64 KiB of a stream transport only thanks to name compression
			// (more than 65535 bytes uncompressed): the cache must hand it back unchanged all the same
			name = fmt.Sprintf("ok-n1-ttl300-deep%d-k%dx%d.pipe.test.", r.Range(1300, 2200), i, r.Intn(1<<20))
			qt = dns.TypeA
			if base.Listener == "udp" {
				base.Listener = "tcp"
			}
		}
		first := h.query(b, base.Listener, base.LocalIP, base.Hdr, name, qt, qc, "store", baseGroup)
		c.Ev.Eval(1)
		if first.Err != "" || first.Serial == 0 {
			c.Inconclusive("pair base query failed: " + first.Err)
			return
		}
		type variant struct {
			kind    string
			cl      c07Client
			name    string
			qt, qc  uint16
			wantHit bool
		}
		otherType := uint16(dns.TypeSRV)
		vs := []variant{
			{"same", base, name, qt, qc, true},
			{"case", base, map[bool]string{true: strings.ToUpper(name), false: c03RandCase(r, strings.ToUpper(name[:4])+name[4:])}[i%2 == 0], qt, qc, true},
			{"type", base, name, otherType, qc, false},
			{"class", base, name, qt, dns.ClassCHAOS, false},
			{"name", base, "x" + name, qt, qc, false},
		}
		// group variants
		if base.Hdr == "" {
			vs = append(vs,
				variant{"same-range-other-addr", c07Client{Listener: base.Listener, LocalIP: fmt.Sprintf("127.1.0.%d", r.Range(0, 255))}, name, qt, qc, true},
				variant{"same-label-other-range", c07Client{Listener: base.Listener, LocalIP: fmt.Sprintf("127.3.0.%d", r.Range(0, 9))}, name, qt, qc, true},
				variant{"same-label-v6-range", c07Client{Listener: "http", Hdr: fmt.Sprintf("2001:db8::1:%x", r.Range(0, 0xffff))}, name, qt, qc, true},
				variant{"other-group", c07Client{Listener: base.Listener, LocalIP: fmt.Sprintf("127.2.%d.%d", r.Intn(256), r.Range(1, 254))}, name, qt, qc, false},
				variant{"adjacent-single-addr-group", c07Client{Listener: base.Listener, LocalIP: "127.1.1.0"}, name, qt, qc, false},
				variant{"just-outside-range", c07Client{Listener: base.Listener, LocalIP: "127.3.0.10"}, name, qt, qc, false},
				variant{"no-group", c07Client{Listener: base.Listener, LocalIP: fmt.Sprintf("127.9.%d.%d", r.Intn(256), r.Range(1, 254))}, name, qt, qc, false},
				variant{"other-listener-same-group", c07Client{Listener: gen.Pick(r, []string{"udp", "tcp", "gnet"}), LocalIP: base.LocalIP}, name, qt, qc, true},
			)
		} else {
			vs = append(vs,
				variant{"same-range-other-addr", c07Client{Listener: base.Listener, Hdr: fmt.Sprintf("2001:db8::%x", r.Range(0, 0xffff))}, name, qt, qc, true},
				variant{"other-group", c07Client{Listener: base.Listener, Hdr: fmt.Sprintf("2001:db8::1:%x", r.Range(0, 0xffff))}, name, qt, qc, false},
				variant{"just-outside-range", c07Client{Listener: base.Listener, Hdr: "2001:db8::2:0"}, name, qt, qc, false},
				variant{"no-group", c07Client{Listener: base.Listener, Hdr: fmt.Sprintf("2001:dead::%x", r.Range(1, 0xffff))}, name, qt, qc, false},
				variant{"header-absent", c07Client{Listener: base.Listener}, name, qt, qc, false},
			)
		}
		r.Shuffle(len(vs), func(a, b int) { vs[a], vs[b] = vs[b], vs[a] })
		seenSerial := map[string]uint32{} // variant key+group -> serial, so two "miss" variants landing in one (key, group) are told apart
		seenSerial[first.Key+"|"+baseGroup] = first.Serial
		for _, v := range vs {
			g := chGroup(c07Ranges, v.cl.addr())
			rsp := h.query(b, v.cl.Listener, v.cl.LocalIP, v.cl.Hdr, v.name, v.qt, v.qc, v.kind, g)
			c.Ev.Eval(1)
			if rsp.Err != "" || rsp.Serial == 0 {
				c.Inconclusive("variant query failed: " + rsp.Err)
				continue
			}
			cs := map[string]any{"variant": v.kind, "base_client": base.addr(), "base_group": baseGroup, "client": v.cl.addr(), "group": g, "name": v.name, "qtype": v.qt, "qclass": v.qc, "listener": v.cl.Listener, "base_serial": first.Serial, "serial": rsp.Serial}
			if _, err := CheckKeyed(dns.Question{Name: v.name, Qtype: v.qt, Qclass: v.qc}, "pipe", rsp.Msg); err != nil {
				c.Violation("pairs:wrong-answer:"+v.kind, fmt.Sprintf("variant %s: %v", v.kind, err), cs)
				continue
			}
			k := rsp.Key + "|" + g
			prev, known := seenSerial[k]
			if !known {
				seenSerial[k] = rsp.Serial
			}
			hit := known && prev == rsp.Serial
			wantHit := known // a (key, group) seen before in this sequence must hit, an unseen one must miss
			if wantHit != v.wantHit && v.kind != "same-label-v6-range" && v.kind != "other-listener-same-group" {
				// the static expectation and the sequence bookkeeping must agree (sanity of the scenario)
				if v.wantHit && !known {
					wantHit = false
				}
			}
			switch {
			case wantHit && !hit:
				c.Violation("pairs:miss-on-equivalent:"+v.kind, fmt.Sprintf("variant %q (client %s group %q) is equivalent to a stored (key, group) but was answered with new upstream reply %d instead of %d", v.kind, v.cl.addr(), g, rsp.Serial, prev), cs)
			case !wantHit && known:
				// cannot happen
			case !known && rsp.Serial == first.Serial:
				c.Violation("pairs:hit-on-different-key:"+v.kind, fmt.Sprintf("variant %q (client %s group %q, %s type %d class %d) differs from the stored (key, group) but was served the cached reply %d", v.kind, v.cl.addr(), g, v.name, v.qt, v.qc, first.Serial), cs)
			case hit && v.cl.Listener != "udp" && base.Listener != "udp" && chSameModuloTTL(first.Msg, rsp.Msg) != nil && k == first.Key+"|"+baseGroup:
				c.Violation("pairs:cached-response-changed:"+v.kind, fmt.Sprintf("variant %q was served the cached reply %d, but not as it was first relayed (%d answer records then, %d now, tc %v -> %v): %v", v.kind, rsp.Serial, len(first.Msg.Answer), len(rsp.Msg.Answer), first.Msg.Truncated, rsp.Msg.Truncated, chSameModuloTTL(first.Msg, rsp.Msg)), cs)
			default:
				if hit && len(first.Msg.Answer) > 300 {
					c.Ev.Count(fmt.Sprintf("pairs_large_reply_hits_compared_tc=%v", first.Msg.Truncated), 1)
					c.Ev.Distinct("pairs-large", len(first.Msg.Answer)/200, first.Msg.Truncated)
				}
				c.Ev.Distinct("pairs", v.kind, hit)
				c.Ev.Count(fmt.Sprintf("pairs_%s_hit=%v", v.kind, hit), 1)
			}
		}
		if i < 2 {
			c.Ev.Sample(map[string]any{"part": "pairs", "base": base.addr(), "group": baseGroup, "name": name, "variants": len(vs)})
		}
	})
	alive := b.Proxy.Alive()
	res := b.Stop()
	if !alive {
		c.Violation("proxy-died", "the proxy died in the pairs scenario: "+res.Panic, map[string]any{"panic": res.Panic})
	}
}

// ---------------------------------------------------------------- (a) concurrent history

func c07History(c *Ctx) {
	b, err := NewBed(c, "hist", BedOpts{Upstreams: []string{"pipe", "udp"}, MemSize: 64 << 20, IpMarker: chRangeFile(c07Ranges), ClientAddrHeader: "X-Client-Addr",
		// a background refresh starts after its request has been answered and recycled; released buffers
		// go straight back to the pool (no quarantine), so whatever still points into them sees the
		// next request's data, as in production
		Env:       map[string]string{"VERIF_POINTS": "prefetch.start=sleep(2ms,100.0%)", "VERIF_POOL_QUARANTINE": "0"},
		Listeners: []string{"udp", "tcp", "gnet", "tls", "http", "fasthttp", "https", "quic"}, UdpRcvBuf: 8 << 20})
	if err != nil {
		c.startFailure(err, "c07-hist")
		return
	}
	h := &chHist{}
	const ttl = 6 // lifetime 6 s; the run spans about 2 lifetimes; hits in the last 1.5 s start background refreshes
	nKeys := c.N(12, 40)
	dur := time.Duration(c.N(13, 40)) * time.Second
	type key struct {
		name   string
		qt, qc uint16
		up     string
	}
	var keys []key
	r0 := gen.New(c.Seed, "c07hist", 0)
	for i := 0; i < nKeys; i++ {
		up := gen.Pick(r0, []string{"pipe", "udp"})
		keys = append(keys, key{fmt.Sprintf("ok-n%d-ttl%d-h%dx%d.%s.test.", r0.Range(1, 6), ttl, i, r0.Intn(1<<16), up), gen.Pick(r0, []uint16{dns.TypeA, dns.TypeTXT, dns.TypeMX}), dns.ClassINET, up})
	}
	clients := []c07Client{}
	sockL := []string{"udp", "tcp", "gnet", "tls", "quic"} // listeners that take the client address from the socket
	for i := 0; i < 4; i++ {
		clients = append(clients,
			c07Client{Listener: sockL[i%5], LocalIP: fmt.Sprintf("127.1.0.%d", 10+i)},                                // A
			c07Client{Listener: sockL[(i+1)%5], LocalIP: fmt.Sprintf("127.2.7.%d", 10+i)},                            // B
			c07Client{Listener: sockL[(i+2)%5], LocalIP: fmt.Sprintf("127.3.0.%d", i)},                               // A (other range)
			c07Client{Listener: sockL[(i+3)%5], LocalIP: fmt.Sprintf("127.77.0.%d", 1+i)},                            // none
			c07Client{Listener: []string{"http", "fasthttp", "https"}[i%3], Hdr: fmt.Sprintf("2001:db8::%x", 100+i)}, // C
		)
	}
	lag := startLagMonitor()
	stop := time.Now().Add(dur)
	var wg sync.WaitGroup
	for ci, cl := range clients {
		wg.Add(1)
		go func(ci int, cl c07Client) {
			defer wg.Done()
			r := gen.New(c.Seed, "c07hist/client", ci)
			g := chGroup(c07Ranges, cl.addr())
			for time.Now().Before(stop) && b.Proxy.Alive() {
				k := gen.Pick(r, keys)
				name := k.name
				if r.P(0.3) {
					name = c03RandCase(r, name)
				}
				h.query(b, cl.Listener, cl.LocalIP, cl.Hdr, name, k.qt, k.qc, "hist", g)
				time.Sleep(time.Duration(r.Range(5, 60)) * time.Millisecond)
			}
		}(ci, cl)
	}
	wg.Wait()
	fetches := map[string][]*chFetch{}
	for _, up := range []string{"pipe", "udp"} {
		for k, v := range fetchesOf(b, up) {
			fetches[k] = append(fetches[k], v...)
		}
	}
	// what is stored is stored under the question that was asked upstream: every question the
	// upstreams received (first fetches and background refreshes) is one of the keys of this history
	asked := map[string]bool{}
	for _, k := range keys {
		asked[chKey(k.name, k.qt, k.qc)] = true
	}
	for _, up := range []string{"pipe", "udp"} {
		for _, ql := range b.Up[up].Log() {
			c.Ev.Eval(1)
			if ql.BadQuery != "" || !asked[chKey(ql.Name, ql.Qtype, ql.Qclass)] {
				c.Violation("hist:fetch-for-unasked-question", fmt.Sprintf("upstream %s received the question %q type %d class %d %s which no client asked: its answer is stored under a key nobody queried, or under another question's key", up, ql.Name, ql.Qtype, ql.Qclass, ql.BadQuery),
					map[string]any{"upstream": up, "name": ql.Name, "qtype": ql.Qtype, "qclass": ql.Qclass, "bad": ql.BadQuery})
				break
			}
		}
	}
	alive := b.Proxy.Alive()
	res := b.Stop()
	if !alive {
		c.Violation("proxy-died", "the proxy died in the history scenario: "+res.Panic, map[string]any{"panic": res.Panic})
		return
	}
	lag.Stop()
	c.Ev.Set("hist_max_timer_lag_ms", lag.Max().Milliseconds())
	c07JudgeHistory(c, h, fetches, ttl, lag.overloaded())
}

func c07JudgeHistory(c *Ctx, h *chHist, fetches map[string][]*chFetch, ttl int, overloaded bool) {
	if overloaded {
		c.Inconclusive("machine overloaded during the history scenario: the hit-required rule (which relies on the cache clock) is not applied")
	}
	fetchBySerial := map[string]*chFetch{} // key|serial
	for k, fs := range fetches {
		for _, f := range fs {
			if f.Serial != 0 {
				fetchBySerial[fmt.Sprintf("%s|%d", k, f.Serial)] = f
			}
		}
	}
	type sinfo struct {
		groups  map[string]bool
		first   *chResp // earliest received response showing the serial
		resps   []*chResp
		storeUB int64
		fetch   *chFetch
	}
	serials := map[string]*sinfo{}
	var hits, misses, failed int64
	for _, r := range h.Resps {
		c.Ev.Eval(1)
		if r.Err != "" {
			failed++
			continue
		}
		if r.Rcode == dns.RcodeServerFailure {
			continue
		}
		cs := map[string]any{"client": r.Client, "group": r.Group, "name": r.Name, "qtype": r.Qtype, "listener": r.Listener, "serial": r.Serial}
		tag := "pipe"
		if strings.Contains(strings.ToLower(r.Name), ".udp.test") {
			tag = "udp"
		}
		// R1 key integrity
		if _, err := CheckKeyed(dns.Question{Name: r.Name, Qtype: r.Qtype, Qclass: r.Qclass}, tag, r.Msg); err != nil {
			c.Violation("hist:wrong-answer", err.Error(), cs)
			continue
		}
		sk := fmt.Sprintf("%s|%d", r.Key, r.Serial)
		f := fetchBySerial[sk]
		if f == nil {
			c.Violation("hist:unknown-serial", fmt.Sprintf("response shows reply %d which the upstream never sent for %s", r.Serial, r.Key), cs)
			continue
		}
		// R2 causality
		if f.TSend == 0 || f.TSend > r.TRecv {
			c.Violation("hist:causality", fmt.Sprintf("response received at %d shows reply %d that the upstream sent at %d", r.TRecv, r.Serial, f.TSend), cs)
			continue
		}
		si := serials[sk]
		if si == nil {
			si = &sinfo{groups: map[string]bool{}, fetch: f}
			serials[sk] = si
		}
		si.groups[r.Group] = true
		si.resps = append(si.resps, r)
		if si.first == nil || r.TRecv < si.first.TRecv {
			si.first = r
		}
		if chTriggered(r, f) {
			misses++
		} else {
			hits++
		}
	}
	// R3 group isolation, R4 equality
	for sk, si := range serials {
		if len(si.groups) > 1 {
			gs := []string{}
			for g := range si.groups {
				gs = append(gs, "\""+g+"\"")
			}
			c.Violation("hist:group-leak", fmt.Sprintf("upstream reply %s was shown to clients of different groups: %v", sk, gs), map[string]any{"serial": sk, "groups": gs})
		}
		for _, r := range si.resps[1:] {
			if err := chSameModuloTTL(si.resps[0].Msg, r.Msg); err != nil {
				c.Violation("hist:cached-differs", fmt.Sprintf("two responses showing reply %s differ beyond TTL/ID: %v", sk, err), map[string]any{"serial": sk})
				break
			}
		}
		si.storeUB = si.first.TRecv
		c.Ev.Distinct("hist", strings.SplitN(sk, "|", 2)[0], len(si.resps) > 1)
	}
	// R6 hit-required: r triggered its own fetch although a reply G for the same (key, group) was
	// certainly stored before r was sent and certainly alive (age upper bound < lifetime - 1.3 s)
	lifetime := int64(ttl) * int64(time.Second)
	var lost int64
	for _, r := range h.Resps {
		if r.Err != "" || r.Serial == 0 || r.TC {
			continue
		}
		f := fetchBySerial[fmt.Sprintf("%s|%d", r.Key, r.Serial)]
		if f == nil || !chTriggered(r, f) {
			continue
		}
		for sk, si := range serials {
			if !strings.HasPrefix(sk, r.Key+"|") || si.fetch.Serial == r.Serial || !si.groups[r.Group] || len(si.groups) != 1 {
				continue
			}
			if !overloaded && si.storeUB <= r.TSend && r.TRecv-si.fetch.TSend < lifetime-int64(2300*time.Millisecond) {
				lost++
				c.Violation("hist:miss-inside-lifetime", fmt.Sprintf("query for %s from group %q went upstream (reply %d) although reply %d for the same (key, group) was stored %v before and at most %v old (lifetime %ds)",
					r.Key, r.Group, r.Serial, si.fetch.Serial, time.Duration(r.TSend-si.storeUB), time.Duration(r.TRecv-si.fetch.TSend), ttl),
					map[string]any{"key": r.Key, "group": r.Group, "serial": r.Serial, "stored_serial": si.fetch.Serial, "client": r.Client})
				break
			}
		}
	}
	c.Ev.Count("hist_responses_from_cache", hits)
	c.Ev.Count("hist_responses_that_triggered_a_fetch", misses)
	c.Ev.Count("hist_failed_queries", failed)
	c.Ev.Count("hist_upstream_replies_seen", int64(len(serials)))
	c.Ev.Sample(map[string]any{"part": "history", "responses": len(h.Resps), "cache_hits": hits, "fetch_triggering": misses, "ttl": ttl})
	if hits == 0 && c.ViolationCount() == 0 {
		c.Inconclusive("history scenario observed no cache hit")
	}
}

// ---------------------------------------------------------------- (e) value integrity under overwrite / eviction stress

// c07Stress: writers overwrite a few keys with large values whose every byte is a function of
// (key, version); readers verify that whatever Get returns is entirely one value of that key.
// Large values widen the window between looking an entry up and copying its value.
func c07Stress(c *Ctx) {
	pool.VerifTakeReports()
	verifhook.TakeReports()
	mc, err := cache.NewMemoryCache(c.N(1<<20, 1<<20))
	if err != nil {
		c.Inconclusive("NewMemoryCache: " + err.Error())
		return
	}
	defer mc.Close()
	// A reader may be descheduled between finding an entry and copying its value: make that likely
	// (delay inside the buffer allocation of large copies). otter reports deletions in batches of 64
	// write operations, so small hot keys are hammered as well to keep those batches coming.
	verifhook.Set("pool.get.large", "sleep(5ms,30.0%)")
	defer verifhook.Set("pool.get.large", "off")
	const nKeys = 4
	getsPerReader := c.N(1200, 30000)
	var stop atomic.Bool
	var wg sync.WaitGroup
	mkVal := func(key, ver, size int) []byte {
		b := byte(key*29 + ver*7 + 1)
		v := bytes.Repeat([]byte{b}, size)
		v[0], v[1] = byte(key), byte(ver)
		v[size-2], v[size-1] = byte(key), byte(ver)
		return v
	}
	for w := 0; w < 2; w++ { // big-value writers
		wg.Add(1)
		go func(w int) {
			defer wg.Done()
			r := gen.New(c.Seed, "c07stress/w", w)
			for ver := 0; !stop.Load(); ver++ {
				k := r.Intn(nKeys)
				size := gen.Pick(r, []int{3000, 9000, 20000, 48000})
				now := time.Now()
				mcStore(mc, []byte(fmt.Sprintf("stress-key-%d", k)), now, now.Add(time.Minute), mkVal(k, ver&0xff, size), false)
			}
		}(w)
	}
	for w := 0; w < 2; w++ { // small hot keys: no delay point on their path (values < 2048 bytes)
		wg.Add(1)
		go func(w int) {
			defer wg.Done()
			r := gen.New(c.Seed, "c07stress/s", w)
			small := bytes.Repeat([]byte{0x55}, 64)
			for !stop.Load() {
				now := time.Now()
				mcStore(mc, []byte(fmt.Sprintf("small-%d", r.Intn(64))), now, now.Add(time.Minute), small, false)
			}
		}(w)
	}
	var hits, misses, bad atomic.Int64
	var rg sync.WaitGroup
	for rd := 0; rd < 8; rd++ {
		rg.Add(1)
		go func(rd int) {
			defer rg.Done()
			r := gen.New(c.Seed, "c07stress/r", rd)
			for i := 0; i < getsPerReader && bad.Load() == 0; i++ {
				k := r.Intn(nKeys)
				v, _, _ := mc.Get([]byte(fmt.Sprintf("stress-key-%d", k)))
				if v == nil {
					misses.Add(1)
					continue
				}
				hits.Add(1)
				ok := len(v) >= 4 && int(v[0]) == k && int(v[len(v)-2]) == k && v[1] == v[len(v)-1]
				if ok {
					b := byte(k*29 + int(v[1])*7 + 1)
					ok = bytes.Count(v[2:len(v)-2], []byte{b}) == len(v)-4
				}
				if !ok {
					if bad.Add(1) == 1 {
						c.Violation("memcache-foreign-or-torn-value", fmt.Sprintf("MemoryCache.Get(stress-key-%d) returned %d bytes that are not (entirely) a value stored under that key: first bytes %x ... last bytes %x", k, len(v), v[:min(8, len(v))], v[max(0, len(v)-8):]),
							map[string]any{"fn": "c07Stress", "key": k, "len": len(v)})
					}
				}
				pool.ReleaseBuf(v)
			}
		}(rd)
	}
	rg.Wait()
	stop.Store(true)
	wg.Wait()
	c.Ev.Eval(int(hits.Load() + misses.Load()))
	st := pool.VerifGetStats()
	c.Ev.Count("stress_pool_gets", int64(st.Gets))
	c.Ev.Count("stress_pool_releases", int64(st.Releases))
	if _, fired := verifhook.Hits("pool.get.large"); true {
		c.Ev.Count("stress_delay_point_fired", int64(fired))
	}
	n1, n2 := cache.VerifEntryCounters()
	c.Ev.Count("stress_entries_created", int64(n1))
	c.Ev.Count("stress_entries_released", int64(n2))
	c.Ev.Count("stress_gets_hit", hits.Load())
	c.Ev.Count("stress_gets_miss", misses.Load())
	c.Ev.Distinct("stress", hits.Load() > 0, misses.Load() > 0)
	for _, rp := range pool.VerifTakeReports() {
		c.Violation("sanitizer-report:pool-"+rp.Kind, "pool sanitizer during the cache stress: "+rp.Kind+" at "+rp.Site+" first released at "+rp.Site0, map[string]any{"fn": "c07Stress", "report": rp})
	}
	for _, rp := range verifhook.TakeReports() {
		c.Violation("sanitizer-report:"+rp.Kind, "ownership hook during the cache stress: "+rp.Detail+" "+rp.Stack, map[string]any{"fn": "c07Stress"})
	}
	// the race detector sees an unsynchronised lookup/release pair even when the two accesses are far
	// apart in time (happens-before based), so it decides "holds under concurrent stores, lookups and
	// evictions" for the cache code much more reliably than waiting for a torn value
	for key, rs := range racelog.Dedup(selfRaces("/internal/cache.", "router.(*cacheCtl)", "router.cacheKey", "router.packCacheMsg", "router.unpackCacheMsg")) {
		c.Violation("data-race:cache:"+c20ShortEntry(rs[0]), fmt.Sprintf("data race in the cache code during concurrent Store/Get/eviction (%d reports):\n%s", len(rs), rs[0].Text), map[string]any{"fn": "c07Stress", "key": key, "report": rs[0].Text})
	}
}

// c07CallerBuffers: the caller of Store owns the key and the value it passes in and recycles both
// as soon as Store returns (the router builds the key in a pooled buffer). Keys and values live in
// pooled buffers here that are overwritten and released right after the Store; with ample
// capacity and an hour of lifetime every key must then be found again, with exactly the value
// stored under it.
func c07CallerBuffers(c *Ctx) {
	mc, err := cache.NewMemoryCache(64 << 20)
	if err != nil {
		c.Inconclusive("NewMemoryCache: " + err.Error())
		return
	}
	defer mc.Close()
	n := c.N(600, 6000)
	keyOf := func(i int) string { return fmt.Sprintf("caller-buffer-key-%06d/%s", i, strings.Repeat("k", i%40)) }
	valOf := func(i int) []byte {
		v := bytes.Repeat([]byte{byte(i*13 + 1)}, 40+i%900)
		v[0], v[1] = byte(i), byte(i>>8)
		return v
	}
	now := time.Now()
	for i := 0; i < n; i++ {
		ks, vs := keyOf(i), valOf(i)
		kb, vb := pool.GetBuf(len(ks)), pool.GetBuf(len(vs))
		copy(kb, ks)
		copy(vb, vs)
		mcStore(mc, kb, now, now.Add(time.Hour), vb, i%5 == 0)
		for j := range kb {
			kb[j] = 'Z'
		}
		for j := range vb {
			vb[j] = 0xEE
		}
		pool.ReleaseBuf(kb)
		pool.ReleaseBuf(vb)
	}
	missing, wrong := 0, 0
	first := ""
	for i := 0; i < n; i++ {
		kb := pool.GetBuf(len(keyOf(i)))
		copy(kb, keyOf(i))
		v, _, _ := mc.Get(kb)
		pool.ReleaseBuf(kb)
		switch {
		case v == nil:
			missing++
			if first == "" {
				first = fmt.Sprintf("key %q stored with one hour of lifetime in a 64 MiB cache is not found", keyOf(i))
			}
		case !bytes.Equal(v, valOf(i)):
			wrong++
			if first == "" {
				first = fmt.Sprintf("key %q: the value found (%d octets, begins %x) is not the value stored (%d octets, begins %x)", keyOf(i), len(v), v[:min(8, len(v))], len(valOf(i)), valOf(i)[:8])
			}
		}
		if v != nil {
			pool.ReleaseBuf(v)
		}
	}
	c.Ev.Eval(n)
	c.Ev.Count("caller_buffers_keys", int64(n))
	c.Ev.Count("caller_buffers_found_intact", int64(n-missing-wrong))
	c.Ev.Distinct("caller-buffers", missing == 0, wrong == 0)
	if missing+wrong > 0 {
		c.Violation("memcache-depends-on-callers-buffers", fmt.Sprintf("%d of %d keys lost and %d changed after the caller recycled the key and value buffers it had passed to Store (Store must keep private copies): %s", missing, n, wrong, first),
			map[string]any{"fn": "c07CallerBuffers", "keys": n, "missing": missing, "wrong": wrong})
	}
}

// c07ConcurrentHits: a handful of large values stored once in an amply sized cache, then many
// readers looking the same keys up at the same time, each lookup slowed down inside its copy
// (delay point pool.get.large). Nothing is stored, evicted or expired meanwhile, so every lookup
// must hit: concurrent lookups of one entry must not get in each other's way.
func c07ConcurrentHits(c *Ctx) {
	mc, err := cache.NewMemoryCache(64 << 20)
	if err != nil {
		c.Inconclusive("NewMemoryCache: " + err.Error())
		return
	}
	defer mc.Close()
	const nKeys = 3
	now := time.Now()
	for k := 0; k < nKeys; k++ {
		mcStore(mc, []byte(fmt.Sprintf("hot-key-%d", k)), now, now.Add(time.Hour), bytes.Repeat([]byte{byte(k + 1)}, 5000), false)
	}
	time.Sleep(50 * time.Millisecond)
	verifhook.Set("pool.get.large", "sleep(1ms,50.0%)")
	defer verifhook.Set("pool.get.large", "off")
	var hits, misses, wrong atomic.Int64
	var wg sync.WaitGroup
	per := c.N(300, 5000)
	for rd := 0; rd < 8; rd++ {
		wg.Add(1)
		go func(rd int) {
			defer wg.Done()
			r := gen.New(c.Seed, "c07hits/r", rd)
			for i := 0; i < per; i++ {
				k := r.Intn(nKeys)
				v, _, _ := mc.Get([]byte(fmt.Sprintf("hot-key-%d", k)))
				switch {
				case v == nil:
					misses.Add(1)
				case len(v) != 5000 || v[0] != byte(k+1) || v[4999] != byte(k+1):
					wrong.Add(1)
					pool.ReleaseBuf(v)
				default:
					hits.Add(1)
					pool.ReleaseBuf(v)
				}
			}
		}(rd)
	}
	wg.Wait()
	c.Ev.Eval(int(hits.Load() + misses.Load() + wrong.Load()))
	c.Ev.Count("concurrent_lookups_hit", hits.Load())
	_, fired := verifhook.Hits("pool.get.large")
	c.Ev.Count("concurrent_lookups_delayed_inside_copy", int64(fired))
	switch {
	case wrong.Load() > 0:
		c.Violation("concurrent-lookups:wrong-value", fmt.Sprintf("%d of %d concurrent lookups returned a value that is not the one stored under the key", wrong.Load(), hits.Load()+misses.Load()+wrong.Load()), map[string]any{"fn": "c07ConcurrentHits"})
	case misses.Load() > 0:
		c.Violation("concurrent-lookups:miss-on-live-entry", fmt.Sprintf("%d of %d lookups of %d entries stored once (lifetime 1 h, cache 64 MiB, nothing stored or evicted meanwhile) missed while other lookups of the same entry were in progress: the query would go upstream although the entry is alive", misses.Load(), hits.Load()+misses.Load(), nKeys), map[string]any{"fn": "c07ConcurrentHits", "misses": misses.Load(), "hits": hits.Load()})
	default:
		c.Ev.Distinct("concurrent-lookups", "all-hit", fired > 0)
	}
}

// c07LateRepeat: the converse clause at its edge. Ten questions with a 6 s lifetime, each repeated
// 4.5 s after its answer arrived - 1.5 s of the lifetime remain, more than the cache clock's
// one-second granularity - must be answered from the cache (same upstream reply, no new fetch).
func c07LateRepeat(c *Ctx) {
	b, err := NewBed(c, "late", BedOpts{Upstreams: []string{"pipe"}, MemSize: 16 << 20, Listeners: []string{"tcp", "udp"}})
	if err != nil {
		c.startFailure(err, "c07-late")
		return
	}
	lag := startLagMonitor()
	h := &chHist{}
	type res struct {
		name          string
		first, second *chResp
	}
	out := make([]res, c.N(10, 40))
	var wg sync.WaitGroup
	for i := range out {
		wg.Add(1)
		go func(i int) {
			defer wg.Done()
			time.Sleep(time.Duration(i*137) * time.Millisecond) // spread over the phases of the cache clock
			name := fmt.Sprintf("ok-n2-ttl6-late%dx%d.pipe.test.", i, c.Seed)
			first := h.query(b, "tcp", "", "", name, dns.TypeA, dns.ClassINET, "store", "")
			if first.Err != "" || first.Serial == 0 {
				return
			}
			time.Sleep(4500*time.Millisecond - time.Duration(clock.Now()-first.TRecv))
			second := h.query(b, []string{"tcp", "udp"}[i%2], "", "", name, dns.TypeA, dns.ClassINET, "late-repeat", "")
			out[i] = res{name, first, second}
		}(i)
	}
	wg.Wait()
	fetches := fetchesOf(b, "pipe")
	lag.Stop()
	b.Stop()
	var missed []string
	checked := 0
	for _, r := range out {
		if r.first == nil || r.second == nil || r.second.Err != "" {
			continue
		}
		c.Ev.Eval(1)
		age := time.Duration(r.second.TSend - r.first.TRecv)
		if age > 4800*time.Millisecond { // scheduling pushed the repeat too close to the end
			continue
		}
		checked++
		// (a second upstream fetch alone is no miss: a hit this late starts a background refresh)
		if r.second.Serial != r.first.Serial {
			missed = append(missed, fmt.Sprintf("%s (repeat at age %v: reply %d, first reply %d, upstream fetches %d)", r.name, age, r.second.Serial, r.first.Serial, len(fetches[chKey(r.name, dns.TypeA, dns.ClassINET)])))
		}
	}
	c.Ev.Count("late_repeats_checked", int64(checked))
	switch {
	case len(missed) >= 2 && lag.overloaded():
		c.Inconclusive(fmt.Sprintf("late repeats: %d misses on an overloaded machine (timer lag %v)", len(missed), lag.Max()))
	case len(missed) >= 2:
		c.Violation("late-repeat:miss-inside-lifetime", fmt.Sprintf("%d of %d repeats sent 4.5 s after the answer to a question with a 6 s lifetime (1.5 s remaining, the cache clock's granularity is 1 s) went upstream again: %s", len(missed), checked, strings.Join(missed[:min(len(missed), 3)], "; ")), map[string]any{"fn": "c07LateRepeat", "missed": missed})
	case len(missed) == 1:
		c.Inconclusive("late repeats: a single miss: " + missed[0])
	case checked > 0:
		c.Ev.Distinct("late-repeat", "all-hit", checked >= 8)
	}
}

// c07ManyLabels: an ip_marker file with 70 000 ranges, every one with a label of its own (clients
// labelled per customer / AS number) - more labels than fit 16 bits. One question is asked by a
// client under label #k, then by a client under label #(k+65536), a client under label #(k+1)
// and again by the first client: the two other groups must not be served the first group's entry,
// the first client's repeat must be.
func c07ManyLabels(c *Ctx) {
	const nRanges = 70000
	rangeAddr := func(i, host int) string {
		return fmt.Sprintf("127.%d.%d.%d", 16+i>>9, (i>>1)&0xff, (i&1)*128+host)
	}
	var sb strings.Builder
	for i := 0; i < nRanges; i++ {
		fmt.Fprintf(&sb, "%s,%s,as%d\n", rangeAddr(i, 0), rangeAddr(i, 127), 4200000000+i)
	}
	b, err := NewBed(c, "labels", BedOpts{Upstreams: []string{"pipe"}, MemSize: 32 << 20, IpMarker: sb.String(), Listeners: []string{"udp", "tcp"}})
	if err != nil {
		c.startFailure(err, "c07-labels")
		return
	}
	h := &chHist{}
	n := c.N(24, 400)
	parallelFor(n, 8, func() bool { return c.ViolationCount() >= 5 || !b.Proxy.Alive() }, func(i int) {
		r := gen.New(c.Seed, "c07labels", i)
		k := r.Intn(nRanges - 65536)
		if i < 2 {
			k = i * (nRanges - 65536 - 1) // the first and the last label that has a twin 65536 further on
		}
		listener := gen.Pick(r, []string{"udp", "tcp"})
		name := fmt.Sprintf("ok-n2-ttl300-lbl%dx%d.pipe.test.", i, c.Seed)
		ask := func(rng int, tag string) *chResp {
			return h.query(b, listener, rangeAddr(rng, r.Range(1, 126)), "", name, dns.TypeA, dns.ClassINET, tag, fmt.Sprint("as", rng))
		}
		first := ask(k, "store")
		twin := ask(k+65536, "label+65536")
		next := ask(k+1, "label+1")
		again := ask(k, "repeat")
		c.Ev.Eval(4)
		for _, x := range []*chResp{first, twin, next, again} {
			if x.Err != "" || x.Serial == 0 {
				c.Inconclusive("many-labels query failed: " + x.Err)
				return
			}
		}
		cs := map[string]any{"fn": "c07ManyLabels", "label_index": k, "name": name, "listener": listener, "serials": []uint32{first.Serial, twin.Serial, next.Serial, again.Serial}}
		switch {
		case twin.Serial == first.Serial:
			c.Violation("labels:hit-across-client-groups:label+65536", fmt.Sprintf("marker file with %d labels: a client under label #%d was served the entry cached for a client under label #%d (upstream reply %d, no exchange of its own)", nRanges, k+65536, k, first.Serial), cs)
		case next.Serial == first.Serial || next.Serial == twin.Serial:
			c.Violation("labels:hit-across-client-groups:label+1", fmt.Sprintf("marker file with %d labels: a client under label #%d was served an entry cached for another label (upstream reply %d)", nRanges, k+1, next.Serial), cs)
		case again.Serial != first.Serial:
			c.Violation("labels:miss-on-equivalent:repeat", fmt.Sprintf("marker file with %d labels: the repeat by a client under label #%d was answered with upstream reply %d instead of the cached %d", nRanges, k, again.Serial, first.Serial), cs)
		default:
			c.Ev.Count("many_labels_quadruples", 1)
			c.Ev.Distinct("many-labels", listener, k/1000)
		}
	})
	alive := b.Proxy.Alive()
	res := b.Stop()
	if !alive {
		c.Violation("proxy-died", "the proxy died in the many-labels scenario: "+res.Panic, map[string]any{"panic": res.Panic})
	}
}

// c07RedisKeys: a second-level cache (redis) that is slow to take writes. Proxy A answers a burst of
// 24 different questions (its stores queue up behind SETs that take 120 ms each); a second proxy B
// with an empty memory cache and the same redis is then asked every question: whatever B serves - from
// redis or fetched anew - must be the keyed answer to that very question. An entry stored under
// another question's key shows up as a foreign answer here.
func c07RedisKeys(c *Ctx) {
	rs, err := fakeredis.Start()
	if err != nil {
		c.Inconclusive("fake redis: " + err.Error())
		return
	}
	defer rs.Close()
	mk := func(name string) (*Bed, error) {
		return NewBed(c, name, BedOpts{Upstreams: []string{"pipe"}, MemSize: 8 << 20, Redis: rs.Addr(), Listeners: []string{"udp", "tcp"}})
	}
	a, err := mk("rkeysA")
	if err != nil {
		c.startFailure(err, "c07-rediskeys-A")
		return
	}
	defer a.Stop()
	b, err := mk("rkeysB")
	if err != nil {
		c.startFailure(err, "c07-rediskeys-B")
		return
	}
	defer b.Stop()
	b.Up["pipe"].SetSerialBase(1 << 20)
	time.Sleep(1800 * time.Millisecond) // the proxies connect to redis in the background
	rs.SetDelayMs.Store(120)
	const n = 24
	names := make([]string, n)
	var wg sync.WaitGroup
	for i := 0; i < n; i++ {
		// names of one length (the keys have one size), nx and positive answers alternating
		names[i] = fmt.Sprintf("%s-n2-ttl300-rk%02dx%d.pipe.test.", []string{"ok", "nx"}[i%2], i, c.Seed%10)
		wg.Add(1)
		go func(i int) {
			defer wg.Done()
			a.Exchange("tcp", mkQuery(uint16(i+1), names[i], dns.TypeA, dns.ClassINET, false), xOpts{Timeout: 5 * time.Second})
		}(i)
	}
	wg.Wait()
	time.Sleep(time.Duration(n*120+600) * time.Millisecond) // every queued SET has been taken
	rs.SetDelayMs.Store(0)
	fromRedis := 0
	for i := 0; i < n; i++ {
		x := b.Exchange("tcp", mkQuery(uint16(100+i), names[i], dns.TypeA, dns.ClassINET, false), xOpts{Timeout: 5 * time.Second})
		c.Ev.Eval(1)
		m := new(dns.Msg)
		if x.Err != nil || m.Unpack(x.Resp) != nil {
			c.Inconclusive("redis keys: no response from the second proxy")
			continue
		}
		serial, err := CheckKeyed(dns.Question{Name: names[i], Qtype: dns.TypeA, Qclass: dns.ClassINET}, "pipe", m)
		if err != nil {
			c.Violation("redis:answer-stored-under-another-key", fmt.Sprintf("question %s asked at the second proxy (shared redis, empty memory cache) was answered with something else: %v - the first proxy had stored another question's answer under this question's key while redis was slow to take writes", names[i], err),
				map[string]any{"fn": "c07RedisKeys", "name": names[i], "response_hex": hex.EncodeToString(x.Resp[:min(len(x.Resp), 160)])})
			return
		}
		if serial < 1<<20 {
			fromRedis++
		}
		c.Ev.Distinct("redis-keys", i%2, serial < 1<<20)
	}
	c.Ev.Count("redis_keys_served_from_the_shared_cache", int64(fromRedis))
	c.Ev.Count("redis_keys_sets", rs.Sets.Load())
	c.Ev.Count("redis_keys_gets", rs.Gets.Load())
	switch {
	case fromRedis == 0 && rs.Sets.Load() >= 20 && rs.Gets.Load() >= 20:
		// the first proxy wrote 24 entries with 300 s of lifetime, the second looked 24 keys up: not one was found
		c.Violation("redis:stored-entries-not-found", fmt.Sprintf("the first proxy stored %d answers (ttl 300) in the shared redis, the second proxy looked %d keys up for the same questions seconds later and found none of them: the entries were not stored under the keys of their questions", rs.Sets.Load(), rs.Gets.Load()),
			map[string]any{"fn": "c07RedisKeys", "sets": rs.Sets.Load(), "gets": rs.Gets.Load()})
	case fromRedis == 0:
		c.Inconclusive("redis keys: nothing was served from the shared cache")
	}
}
