package main

// C20 — recycled memory is exclusively owned.
// Oracle: Go race detector (+checkptr) and the pool / ownership sanitizers (hooks H1, H3, H5)
// observing (A) the hostile end-to-end workload and (B) in-process transport runs under
// cancellation storms, in child processes whose race logs are parsed afterwards.

import (
	"context"
	"crypto/tls"
	"fmt"
	"os"
	"os/exec"
	"path/filepath"
	"strconv"
	"strings"
	"sync"
	"sync/atomic"
	"time"

	"github.com/IrineSistiana/mosproxy/internal/dnsmsg"
	"github.com/IrineSistiana/mosproxy/internal/pool"
	"github.com/IrineSistiana/mosproxy/internal/upstream"
	"github.com/IrineSistiana/mosproxy/internal/verifhook"
	"github.com/IrineSistiana/mosproxy/verif/internal/dnsclient"
	"github.com/IrineSistiana/mosproxy/verif/internal/fakeup"
	"github.com/IrineSistiana/mosproxy/verif/internal/gen"
	"github.com/IrineSistiana/mosproxy/verif/internal/pki"
	"github.com/IrineSistiana/mosproxy/verif/internal/proxyproc"
	"github.com/IrineSistiana/mosproxy/verif/internal/racelog"
	"github.com/miekg/dns"
)

func init() {
	register(&Check{ID: "C20", Level: "exploration",
		Rule: "race detector + pool/ownership sanitizers over (A) end-to-end stress on all listeners/upstreams with abandoned client connections, failing upstreams, tiny cache with injected delays, quarantine on and off, and (B) in-process exchanges on every upstream transport with context deadlines of 0-2.5 ms against a 0-3 ms server that closes 15% of the connections after a reply (retries on reused connections; the server must only ever receive well-formed queries that were asked), (C) the in-process cache stress, (D) the hostile-decoder workload of C01 judged for ownership reports only (its inputs count as distinct cases), (E) keys and values whose buffers the caller overwrites and releases right after MemoryCache.Store (every key must be found again, unchanged), (F) a proxy with a small client limit flooded over UDP, TCP and gnet (the refusal paths recycle buffers too); " +
			"one evaluation = one request/exchange executed under the sanitizers; distinct non-trivial = distinct (workload, listener-or-transport, outcome) cells exercised",
		Run: runC20})
	children["c20tr"] = c20TransportChild
}

func c20ReportSanitizers(c *Ctx, where string, races []racelog.Report, poolReps, hookReps []string) {
	for key, rs := range racelog.Dedup(races) {
		r := rs[0]
		if !r.Mosproxy {
			c.Ev.Count("foreign_race_reports", int64(len(rs)))
			continue
		}
		c.Ev.Count("mosproxy_race_reports", int64(len(rs)))
		sig := "data-race:" + c20ShortEntry(r)
		c.Violation(sig, fmt.Sprintf("[%s] data race in mosproxy code (%d reports with this stack pair):\n%s", where, len(rs), r.Text), map[string]any{"where": where, "key": key, "report": r.Text})
	}
	for _, l := range poolReps {
		kind := "pool-report"
		if strings.Contains(l, "double-release") {
			kind = "pool-double-release"
		} else if strings.Contains(l, "write-after-release") {
			kind = "pool-write-after-release"
		}
		c.Violation(kind+":"+c20Site(l), "["+where+"] pool sanitizer: "+l, map[string]any{"where": where, "report": l})
	}
	for _, l := range hookReps {
		what := "ownership"
		if strings.Contains(l, "cacheEntry") {
			what = "cache-entry-double-release"
		} else if strings.Contains(l, "dnsmsg.Msg") {
			what = "msg-double-release"
		}
		c.Violation(what+":"+c20Site(l), "["+where+"] ownership hook: "+l, map[string]any{"where": where, "report": l})
	}
}

// first mosproxy function in the report (stable across runs)
func c20ShortEntry(r racelog.Report) string {
	var fs []string
	for _, f := range r.Frames {
		if strings.Contains(f, "github.com/IrineSistiana/mosproxy/") && !strings.Contains(f, "verif") {
			f = f[strings.LastIndex(f, "/")+1:]
			dup := false
			for _, x := range fs {
				if x == f {
					dup = true
				}
			}
			if !dup {
				fs = append(fs, f)
			}
			if len(fs) == 2 {
				break
			}
		}
	}
	return strings.Join(fs, "+")
}

func c20Site(l string) string {
	// first mosproxy frame that is not the hook itself
	for _, f := range strings.Split(l, ";") {
		if i := strings.Index(f, "github.com/IrineSistiana/mosproxy/"); i >= 0 {
			f = f[i:]
			if strings.Contains(f, "/pool.") || strings.Contains(f, "verif") || strings.Contains(f, "ReleaseMsg") || strings.Contains(f, "releaseEntry") {
				continue
			}
			if j := strings.LastIndex(f, ":"); j > 0 {
				f = f[:j]
			}
			return f[strings.LastIndex(f, "/")+1:]
		}
	}
	return "unknown-site"
}

func runC20(c *Ctx) {
	// ---- (A) end-to-end
	type cfg struct {
		name string
		bed  BedOpts
	}
	cfgs := []cfg{
		{"e2e-quarantine", BedOpts{UdpRcvBuf: 8 << 20, MemSize: 48 * 1024, Env: map[string]string{"VERIF_POINTS": "memcache.get=sleep(300us,25.0%);pool.get.large=sleep(2ms,3.0%)"}}},
		{"e2e-recycle", BedOpts{UdpRcvBuf: 8 << 20, MemSize: 48 * 1024, Env: map[string]string{"VERIF_POOL_QUARANTINE": "0", "VERIF_POINTS": "memcache.get=sleep(200us,10.0%)"}}},
	}
	reps := c.N(2, 6)
	var wg sync.WaitGroup
	var mu sync.Mutex
	for rep := 0; rep < reps; rep++ {
		for _, cf := range cfgs {
			wg.Add(1)
			go func(cf cfg, rep int) {
				defer wg.Done()
				res := runStress(c, stressOpts{Name: fmt.Sprintf("%s-%d", cf.name, rep), Bed: cf.bed, Workers: c.N(5, 10), PerWorker: c.N(200, 800),
					HotNames: 12, UniqueFrac: 0.4, MaxDelayMs: 30, Abandon: 0.08, Seed: c.Seed*31 + int64(rep)})
				mu.Lock()
				defer mu.Unlock()
				if res.StartErr != nil {
					c.startFailure(res.StartErr, cf.name)
					return
				}
				c.Ev.Eval(int(res.Sent))
				c.Ev.Count(cf.name+"_requests", res.Sent)
				c.Ev.Count(cf.name+"_answered", res.Answered)
				c.Ev.Count(cf.name+"_abandoned_by_client", res.Abandoned)
				c.Ev.Count(cf.name+"_cache_served", res.CacheHits)
				for cell := range res.Cells {
					c.Ev.Distinct(cf.name, cell)
				}
				for _, v := range res.Violations { // poison in a client-visible answer shows up here
					c.Violation("e2e:"+v.Sig, "["+cf.name+"] "+v.What, v.Case)
				}
				if res.Proc != nil {
					c.procFailures(res.Proc, cf.name)
					c20ReportSanitizers(c, cf.name, res.Proc.Races, res.Proc.PoolReports, res.Proc.HookReports)
					for k, v := range res.Proc.PoolStats {
						if f, ok := v.(float64); ok {
							c.Ev.Count(cf.name+"_pool_"+k, int64(f))
						}
					}
				}
			}(cf, rep)
		}
		wg.Wait()
	}
	// ---- (B) in-process transports under cancellation, child process with its own race log
	for rep := 0; rep < c.N(1, 4); rep++ {
		dir := filepath.Join(c.Work, fmt.Sprintf("tr-%d", rep))
		os.MkdirAll(dir, 0755)
		exe, _ := os.Executable()
		cmd := exec.Command("timeout", "-s", "QUIT", "300", exe, "child", "c20tr", strconv.FormatInt(c.Seed+int64(rep), 10), strconv.Itoa(c.N(3000, 8000)), dir)
		cmd.Env = append(os.Environ(),
			"GORACE=halt_on_error=0 exitcode=0 log_path="+filepath.Join(dir, "race"),
			"VERIF_POOL_LOG="+filepath.Join(dir, "pool.log"), "VERIF_HOOK_LOG="+filepath.Join(dir, "hook.log"))
		out, _ := os.Create(filepath.Join(dir, "child.out"))
		cmd.Stdout, cmd.Stderr = out, out
		err := cmd.Run()
		out.Close()
		b, _ := os.ReadFile(filepath.Join(dir, "child.out"))
		if err != nil {
			txt := string(b)
			if len(txt) > 3000 {
				txt = txt[:3000]
			}
			if strings.Contains(txt, "panic:") || strings.Contains(txt, "fatal error:") {
				c.Violation("transport-child-crash", "in-process transport workload crashed: "+txt, map[string]any{"output": txt})
			} else {
				c.Inconclusive("transport child failed: " + err.Error())
			}
		}
		// counters printed by the child: "COUNT key n"
		for _, l := range strings.Split(string(b), "\n") {
			var k string
			var n int64
			if strings.HasPrefix(l, "VIOL ") {
				parts := strings.SplitN(l, " ", 3)
				if len(parts) == 3 {
					c.Violation("transports:"+parts[1], parts[2], map[string]any{"seed": c.Seed + int64(rep), "output": filepath.Join(dir, "child.out")})
				}
				continue
			}
			if _, e := fmt.Sscanf(l, "COUNT %s %d", &k, &n); e == nil {
				c.Ev.Count("transport_"+k, n)
				if strings.HasPrefix(k, "exchanges_") {
					c.Ev.Eval(int(n))
				}
				c.Ev.Distinct("transport", k)
			}
		}
		races := racelog.ParseFiles(filepath.Join(dir, "race.*"))
		c20ReportSanitizers(c, "transports", races, readLinesFile(filepath.Join(dir, "pool.log")), readLinesFile(filepath.Join(dir, "hook.log")))
	}
	// ---- (D) hostile input: the error paths of the decoder release what they had taken from the
	// pool; the decoder monitor of C01 runs here with only ownership reports judged (double release,
	// write after release, races), crashes and hangs are C01's
	c.sigFilter = func(sig string) bool {
		return strings.Contains(sig, "-report:") || strings.HasPrefix(sig, "data-race") || strings.HasPrefix(sig, "checkptr")
	}
	c01Decoder(c)
	c.sigFilter = nil
	// ---- (C) in-process cache: large values overwritten while readers are delayed between lookup and copy
	c07Stress(c)
	// ---- (F) refusal paths under a flood
	c20LimiterFlood(c)
	// ---- (E) the cache keeps nothing that belongs to its caller: key and value buffers are recycled right after Store
	c07CallerBuffers(c)
	c.Ev.Sample(map[string]any{"workload": "e2e-quarantine", "listeners": allListeners, "abandon_probability": 0.08, "cache_bytes": 48 * 1024, "delay_point": "memcache.get=sleep(300us,25%)"})
	c.Ev.Sample(map[string]any{"workload": "transports", "deadline_ms": "0-2.5", "server_delay_ms": "0-3", "schemes": c20Schemes})
	_ = proxyproc.FreePorts
}

func readLinesFile(p string) []string {
	b, err := os.ReadFile(p)
	if err != nil {
		return nil
	}
	var out []string
	for _, l := range strings.Split(string(b), "\n") {
		if strings.TrimSpace(l) != "" {
			out = append(out, l)
		}
	}
	return out
}

var c20Schemes = []string{"udp", "udp-notcp", "tcp", "tcp+pipeline", "tls", "tls+pipeline", "http", "https", "quic"}

// child: vharness child c20tr <seed> <exchanges per scheme> <dir>
func c20TransportChild(args []string) int {
	seed, _ := strconv.ParseInt(args[0], 10, 64)
	n, _ := strconv.Atoi(args[1])
	ca, _ := pki.NewCA("c20")
	leaf, _ := ca.Leaf(pki.LeafOpt{Names: []string{"up.test", "127.0.0.1"}})
	stls := &tls.Config{Certificates: []tls.Certificate{leaf.TLS}}
	ctls := &tls.Config{RootCAs: ca.Pool(), ServerName: "up.test"}
	var wgAll sync.WaitGroup
	for si, scheme := range c20Schemes {
		wgAll.Add(1)
		go func(si int, scheme string) {
			defer wgAll.Done()
			s := fakeup.NewServer("t" + strconv.Itoa(si))
			defer s.Close()
			var addr string
			var err error
			switch scheme {
			case "udp":
				s.Close()
				s, err = listenBoth(s.Tag)
				if err == nil {
					addr = "udp://" + s.Addr["udp"]
				}
			case "udp-notcp": // nothing listens on the TCP side: the retry of a truncated reply is refused
				err = s.ListenUDPRefuseTCP()
				addr = "udp://" + s.Addr["udp"]
			case "tcp", "tcp+pipeline":
				err = s.ListenTCP("127.0.0.1:0")
				addr = scheme + "://" + s.Addr["tcp"]
			case "tls", "tls+pipeline":
				err = s.ListenTLS("127.0.0.1:0", stls)
				addr = scheme + "://" + s.Addr["tls"]
			case "http":
				err = s.ListenHTTP("127.0.0.1:0")
				addr = "http://" + s.Addr["http"] + "/dns-query"
			case "https":
				err = s.ListenHTTPS("127.0.0.1:0", stls)
				addr = "https://" + s.Addr["https"] + "/dns-query"
			case "quic":
				err = s.ListenQUIC("127.0.0.1:0", stls)
				addr = "quic://" + s.Addr["quic"]
			}
			if err != nil {
				fmt.Println("listen", scheme, err)
				return
			}
			// every upstream gets its own tls.Config, like in the router (NewUpstream may modify it)
			u, err := upstream.NewUpstream(addr, upstream.Opt{TLSConfig: ctls.Clone(), IdleTimeout: 2 * time.Second})
			if err != nil {
				fmt.Println("upstream", scheme, err)
				return
			}
			var ok, cancelled, failed, wrong atomic.Int64
			var wg sync.WaitGroup
			workers := 8
			for w := 0; w < workers; w++ {
				wg.Add(1)
				go func(w int) {
					defer wg.Done()
					r := gen.New(seed, "c20tr/"+scheme, w)
					for i := 0; i < n/workers; i++ {
						name := fmt.Sprintf("ok-n%d-d%d-u%dx%d.x.test.", r.Range(1, 8), r.Intn(4), w, i)
						if r.P(0.1) {
							name = "tc-" + name[3:] // udp: forces the TCP fallback
						} else if r.P(0.15) {
							// the server closes the connection after this reply: the next exchange that
							// picks it from the pool fails on a reused connection and is retried
							name = "ok-fin-" + name[3:]
						} else if r.P(0.06) {
							// a "reply" with the QR bit clear (a gateway echoing the request): whatever the
							// transport makes of it, it owns the message exactly once
							name = "ok-qr0-" + name[3:]
						}
						id := uint16(r.Intn(65536))
						q := mkQuery(id, name, 1, 1, true)
						qb := pool.GetBuf(len(q)) // like the router: a pooled buffer released right after the exchange returns
						copy(qb, q)
						dl := time.Duration(r.Intn(2500)) * time.Microsecond
						if r.P(0.3) {
							dl = 500 * time.Millisecond
						}
						ctx, cancel := context.WithTimeout(context.Background(), dl)
						resp, err := u.ExchangeContext(ctx, qb)
						cancel()
						pool.ReleaseBuf(qb)
						switch {
						case err == nil:
							if qn, _, _, okq := upQuestion(resp); resp.Header.ID != id || len(resp.Questions) != 1 || !okq || !strings.EqualFold(qn, name) {
								wrong.Add(1) // a reply that belongs to another exchange (its id is rewritten to the caller's, its question is not)
							}
							ok.Add(1)
							dnsmsg.ReleaseMsg(resp)
						case ctx.Err() != nil:
							cancelled.Add(1)
						default:
							failed.Add(1)
						}
					}
				}(w)
			}
			wg.Wait()
			time.Sleep(300 * time.Millisecond) // let abandoned workers finish under the sanitizers
			u.Close()
			// what the server received must be the queries that were asked, as they were asked
			malformed, foreign := 0, 0
			for _, ql := range s.Log() {
				if ql.BadQuery != "" {
					if malformed++; malformed == 1 {
						fmt.Printf("VIOL upstream-received-malformed-query:%s the %s server received a frame that is not a query (%s): a buffer was written to the connection after it had been released\n", scheme, scheme, ql.BadQuery)
					}
				} else if !strings.HasSuffix(ql.Name, ".x.test.") {
					if foreign++; foreign == 1 {
						fmt.Printf("VIOL upstream-received-unasked-query:%s the %s server received a query for %q which nobody asked\n", scheme, scheme, ql.Name)
					}
				}
			}
			if wrong.Load() > 0 {
				fmt.Printf("VIOL wrong-message-returned:%s %d exchanges over %s returned a message with a foreign id or another exchange's question\n", scheme, wrong.Load(), scheme)
			}
			fmt.Printf("COUNT server_queries_%s %d\n", scheme, len(s.Log()))
			fmt.Printf("COUNT exchanges_%s %d\nCOUNT ok_%s %d\nCOUNT cancelled_%s %d\nCOUNT failed_%s %d\nCOUNT wrong_%s %d\n",
				scheme, ok.Load()+cancelled.Load()+failed.Load(), scheme, ok.Load(), scheme, cancelled.Load(), scheme, failed.Load(), scheme, wrong.Load())
		}(si, scheme)
	}
	wgAll.Wait()
	pool.VerifDrain()
	st := pool.VerifGetStats()
	fmt.Printf("COUNT pool_gets %d\nCOUNT pool_releases %d\nCOUNT pool_quarantine_exits %d\nCOUNT pool_reports %d\nCOUNT hook_reports %d\n", st.Gets, st.Releases, st.QuarantineExit, st.Reports, verifhook.ReportCount())
	return 0
}

// c20LimiterFlood: the refusal paths own pooled buffers too. A proxy with a small client limit is
// flooded over UDP and TCP by one address (most queries are answered REFUSED by the limiter) while a
// second address keeps asking ordinary questions; the pool and ownership sanitizers and the race
// detector watch.
func c20LimiterFlood(c *Ctx) {
	b, err := NewBed(c, "limiter-flood", BedOpts{Upstreams: []string{"pipe"}, Listeners: []string{"udp", "tcp", "gnet"}, MemSize: 1 << 20,
		Limiter: "  client:\n    limit: 5\n    burst: 10\n"})
	if err != nil {
		c.startFailure(err, "c20-limiter-flood")
		return
	}
	uc, err := dnsclient.DialUDP("127.66.6.1", b.L["udp"])
	if err == nil {
		for i := 0; i < 300; i++ {
			uc.Send(mkQuery(uint16(i+1), fmt.Sprintf("ok-lf%d.pipe.test.", i), dns.TypeA, dns.ClassINET, i%2 == 0))
			if i%10 == 9 {
				time.Sleep(time.Millisecond)
				b.Exchange("udp", mkQuery(uint16(1000+i), fmt.Sprintf("ok-lfq%d.pipe.test.", i), dns.TypeA, dns.ClassINET, false), xOpts{LocalIP: fmt.Sprintf("127.66.%d.1", 7+i%100), Timeout: 2 * time.Second})
			}
		}
		time.Sleep(300 * time.Millisecond)
		c.Ev.Count("limiter_flood_udp_responses", int64(len(uc.Received())))
		uc.Close()
	}
	for _, l := range []string{"tcp", "gnet"} {
		if sc, err := dnsclient.DialStream("127.66.6.2", b.L[l], nil); err == nil {
			for i := 0; i < 60; i++ {
				sc.SendFrame(mkQuery(uint16(i+1), fmt.Sprintf("ok-lfs%d%s.pipe.test.", i, l), dns.TypeA, dns.ClassINET, false))
			}
			sc.WaitFrames(60, 3*time.Second)
			c.Ev.Count("limiter_flood_stream_responses", int64(len(sc.Frames())))
			sc.Close()
		}
	}
	c.Ev.Eval(420)
	alive := b.Proxy.Alive()
	res := b.Stop()
	if !alive {
		c.Violation("e2e:proxy-crash:limiter-flood", "the proxy died while refusing a flood: "+res.Panic, map[string]any{"panic": res.Panic})
		return
	}
	c20ReportSanitizers(c, "limiter-flood", res.Races, res.PoolReports, res.HookReports)
	c.Ev.Distinct("limiter-flood", len(res.PoolReports) == 0)
}
