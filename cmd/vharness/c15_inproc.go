package main

// C15 oracle (a) — the client limiter is a per-client-subnet token bucket
// that isolates subnets. In-process, virtual time:
// limiter.NewClientLimiter(opts).AllowN(addr, now, n).
//
// Rules checked on every generated (options, arrival history):
//
//	CONSERVATION  for every spec subnet (addr.Unmap() masked with the spec
//	              mask: v4 default /24, v6 default /48) and every pair of
//	              admitted events i<=j of that subnet:
//	              sum cost[i..j] <= burst + rate*(t_j-t_i) + eps.
//	              (A correct bucket holds at most `burst` tokens just before
//	              event i, gains at most rate*(t_j-t_i) until event j, pays
//	              every admitted cost i..j out of that, and never goes below
//	              zero; nothing tighter is demanded.)
//	ISOLATION     (metamorphic, exact) the allow/deny decisions of subnet S in
//	              the mixed history equal the decisions of S's events replayed
//	              alone on a fresh limiter with the same options.
//	SHARING       directed probe on a fresh limiter: after address A was
//	              admitted with cost = burst, address B of the same spec subnet
//	              is refused cost 1 at the same instant, while address C of a
//	              different spec subnet is admitted cost 1 at that instant.

import (
	"encoding/binary"
	"encoding/json"
	"fmt"
	"math"
	"net/netip"
	"sort"
	"sync"
	"sync/atomic"
	"time"

	"github.com/IrineSistiana/mosproxy/internal/limiter"
	"github.com/IrineSistiana/mosproxy/verif/internal/gen"
)

const c15RuleText = "generated (limiter options, arrival history) pairs driven through ClientLimiter.AllowN in virtual time: options with omitted/explicit v4 mask (8..32), v6 mask (16..128) and burst; " +
	"1..200 client subnets (v4, v6, v4-mapped presentation, adjacent subnets, 1..4 addresses each), Poisson hot/quiet arrivals, same-instant bursts and exact refill-boundary arrivals, costs 1..15; " +
	"each history is one evaluation (conservation per spec subnet, exact isolation replay per subnet, directed sharing probe); a history is non-trivial when the limiter both admitted and refused events in it, " +
	"distinct by the hash of (options, every event's offset, address and cost)"

type c15Opts struct {
	Limit  float64 `json:"limit"`
	Burst  int     `json:"burst"`   // 0 = omitted
	V4Mask int     `json:"v4_mask"` // 0 = omitted
	V6Mask int     `json:"v6_mask"` // 0 = omitted
}

func (o c15Opts) lim() limiter.ClientLimiterOpts {
	return limiter.ClientLimiterOpts{Limit: o.Limit, Burst: o.Burst, V4Mask: o.V4Mask, V6Mask: o.V6Mask}
}

// the statement's defaults
func (o c15Opts) spec() (rate float64, burst, v4, v6 int) {
	rate = o.Limit
	burst = o.Burst
	if burst <= 0 {
		burst = int(o.Limit)
	}
	v4, v6 = o.V4Mask, o.V6Mask
	if v4 == 0 {
		v4 = 24
	}
	if v6 == 0 {
		v6 = 48
	}
	return
}

func (o c15Opts) maskClass() string {
	switch {
	case o.V6Mask == 0:
		return "v6mask-omitted" // with or without v4 mask
	case o.V4Mask == 0:
		return "v4mask-omitted"
	}
	return "explicit-masks"
}

type c15Event struct {
	Off  time.Duration
	Addr netip.Addr
	Cost int
	sub  int // index of the spec subnet
}

type c15EventJSON struct {
	OffNs int64  `json:"off_ns"`
	Addr  string `json:"addr"`
	Cost  int    `json:"cost"`
	Sub   string `json:"spec_subnet"`
	Mixed *bool  `json:"admitted_mixed,omitempty"`
	Alone *bool  `json:"admitted_alone,omitempty"`
}

type c15Case struct {
	Fn           string         `json:"fn"`
	HistoryIndex int            `json:"history_index"`
	Rule         string         `json:"rule"`
	Opts         c15Opts        `json:"opts"`
	SpecRate     float64        `json:"spec_rate"`
	SpecBurst    int            `json:"spec_burst"`
	SpecV4       int            `json:"spec_v4_mask"`
	SpecV6       int            `json:"spec_v6_mask"`
	Subnet       string         `json:"subnet"`
	Events       []c15EventJSON `json:"events_of_subnet"`
	Note         string         `json:"note"`
	Subnets      int            `json:"subnets_in_history"`
	TotalEvents  int            `json:"events_in_history"`
}

func c15SpecSubnet(a netip.Addr, v4, v6 int) netip.Prefix {
	a = a.Unmap()
	if a.Is4() {
		p, _ := a.Prefix(v4)
		return p
	}
	p, _ := a.Prefix(v6)
	return p
}

// random address inside prefix p (host bits random; sometimes all zeros / all ones)
func c15AddrIn(r *gen.R, p netip.Prefix) netip.Addr {
	b := p.Addr().AsSlice()
	bits := p.Bits()
	mode := r.Intn(6) // 0: zeros, 1: ones, else random
	for i := bits; i < len(b)*8; i++ {
		var bit byte
		switch mode {
		case 0:
			bit = 0
		case 1:
			bit = 1
		default:
			bit = byte(r.Intn(2))
		}
		if bit == 1 {
			b[i/8] |= 1 << (7 - uint(i%8))
		} else {
			b[i/8] &^= 1 << (7 - uint(i%8))
		}
	}
	a, _ := netip.AddrFromSlice(b)
	return a
}

func c15FlipBit(a netip.Addr, bit int) netip.Addr {
	b := a.AsSlice()
	b[bit/8] ^= 1 << (7 - uint(bit%8))
	o, _ := netip.AddrFromSlice(b)
	return o
}

var c15Costs = []int{1, 1, 1, 2, 2, 3, 3, 15, 15}

func c15Cost(r *gen.R) int {
	if r.P(0.5) {
		return gen.Pick(r, c15Costs)
	}
	return r.Range(1, 15)
}

type c15Subnet struct {
	p     netip.Prefix
	addrs []netip.Addr // presentation forms (may be v4-mapped)
	fam   string
}

type c15History struct {
	opts    c15Opts
	subs    []c15Subnet
	evs     []c15Event
	nBound  int
	nMapped int
}

func c15Gen(r *gen.R) *c15History {
	h := &c15History{}
	// ---- options
	o := c15Opts{}
	switch r.Intn(4) {
	case 0:
		o.Limit = float64(gen.Pick(r, []int{1, 2, 5, 10, 20, 50, 100, 1000}))
	case 1:
		o.Limit = float64(r.Range(1, 200))
	case 2:
		o.Limit = float64(r.Range(3, 40))
	default:
		o.Limit = float64(r.Range(10, 2000)) / 10 // fractional, >= 1
	}
	if !r.P(0.4) {
		if r.P(0.5) {
			o.Burst = r.Range(1, 30)
		} else {
			o.Burst = r.Range(1, int(3*o.Limit)+1)
		}
	}
	switch r.Intn(5) {
	case 0, 1: // the documented default configuration
	case 2:
		o.V4Mask = r.Range(8, 32)
	case 3:
		o.V6Mask = r.Range(16, 128)
	default:
		o.V4Mask = r.Range(8, 32)
		o.V6Mask = r.Range(16, 128)
	}
	if (o.V4Mask != 0 || o.V6Mask != 0) && r.P(0.3) { // common explicit values
		if o.V4Mask != 0 {
			o.V4Mask = gen.Pick(r, []int{8, 16, 24, 25, 31, 32})
		}
		if o.V6Mask != 0 {
			o.V6Mask = gen.Pick(r, []int{16, 32, 48, 56, 64, 127, 128})
		}
	}
	h.opts = o
	rate, burst, v4, v6 := o.spec()

	// ---- subnets
	var nSub int
	switch r.Intn(10) {
	case 0, 1, 2, 3:
		nSub = r.Range(1, 4)
	case 4, 5, 6, 7:
		nSub = r.Range(5, 20)
	default:
		nSub = r.Range(21, 200)
	}
	seen := map[netip.Prefix]bool{}
	famMode := r.Intn(4) // 0: mixed, 1: v4 only, 2: v6 only, 3: mixed
	for len(h.subs) < nSub {
		var p netip.Prefix
		if len(h.subs) > 0 && r.P(0.3) {
			// neighbour of an earlier subnet: lowest network bit flipped
			q := h.subs[r.Intn(len(h.subs))].p
			if q.Bits() == 0 {
				continue
			}
			p, _ = c15FlipBit(q.Addr(), q.Bits()-1).Prefix(q.Bits())
		} else {
			is4 := r.Bool()
			if famMode == 1 {
				is4 = true
			} else if famMode == 2 {
				is4 = false
			}
			if is4 {
				var b [4]byte
				binary.BigEndian.PutUint32(b[:], r.Uint32())
				if r.P(0.5) { // a small universe makes neighbours likely
					b[0], b[1] = 10, byte(r.Intn(2))
				}
				p, _ = netip.AddrFrom4(b).Prefix(v4)
			} else {
				var b [16]byte
				r.Read(b[:])
				if r.P(0.5) {
					copy(b[:], []byte{0x20, 0x01, 0x0d, 0xb8, 0, byte(r.Intn(2))})
				}
				a := netip.AddrFrom16(b)
				if a.Is4In6() {
					continue
				}
				p, _ = a.Prefix(v6)
			}
		}
		if seen[p] || p.Addr().Is4In6() {
			continue
		}
		seen[p] = true
		s := c15Subnet{p: p, fam: "v6"}
		if p.Addr().Is4() {
			s.fam = "v4"
		}
		nAddr := r.Range(1, 4)
		if p.Bits() == p.Addr().BitLen() {
			nAddr = 1
		}
		for k := 0; k < nAddr; k++ {
			a := c15AddrIn(r, p)
			if k == 1 && p.Bits() < p.Addr().BitLen() {
				// differs from the first address in the top host bit (catches a mask one bit too long)
				first := s.addrs[0].Unmap().AsSlice()
				bb := a.AsSlice()
				m := byte(1) << (7 - uint(p.Bits()%8))
				bb[p.Bits()/8] = bb[p.Bits()/8]&^m | (^first[p.Bits()/8] & m)
				a, _ = netip.AddrFromSlice(bb)
			}
			if a.Is4() && r.P(0.25) { // v4-mapped presentation of the same client
				a = netip.AddrFrom16(a.As16())
			}
			s.addrs = append(s.addrs, a)
		}
		h.subs = append(h.subs, s)
	}

	// ---- arrivals
	horizon := gen.Pick(r, []time.Duration{500 * time.Millisecond, 5 * time.Second, 50 * time.Second})
	budget := r.Range(150, 600)
	perSub := budget / nSub
	if perSub < 2 {
		perSub = 2
	}
	const maxOff = 55 * time.Second
	secToDur := func(s float64) time.Duration {
		if s > 60 {
			s = 60
		}
		return time.Duration(s * float64(time.Second))
	}
	for si := range h.subs {
		s := &h.subs[si]
		pick := func() netip.Addr {
			a := s.addrs[r.Intn(len(s.addrs))]
			if a.Is4In6() {
				h.nMapped++
			}
			return a
		}
		add := func(off time.Duration, cost int) {
			if off < 0 {
				off = 0
			}
			if off > maxOff {
				off = maxOff
			}
			h.evs = append(h.evs, c15Event{Off: off, Addr: pick(), Cost: cost, sub: si})
		}
		n := r.Range(1, perSub)
		switch r.Intn(6) {
		case 0, 1: // hot Poisson: offered cost rate 1.5..6 x the refill rate
			load := 1.5 + r.Float64()*4.5
			t := time.Duration(r.Int63n(int64(horizon)/4 + 1))
			for k := 0; k < n; k++ {
				c := c15Cost(r)
				add(t, c)
				t += secToDur(r.ExpFloat64() * 5 / (rate * load))
			}
		case 2: // quiet Poisson: well inside the budget
			load := 0.1 + r.Float64()*0.5
			t := time.Duration(r.Int63n(int64(horizon) + 1))
			for k := 0; k < n; k++ {
				add(t, r.Range(1, 3))
				t += secToDur(r.ExpFloat64() * 2 / (rate * load))
			}
		case 3: // same-instant bursts
			t := time.Duration(r.Int63n(int64(horizon) + 1))
			for k := 0; k < n; {
				m := r.Range(2, 12)
				for j := 0; j < m && k < n; j++ {
					add(t, c15Cost(r))
					k++
				}
				t += secToDur(r.Float64() * float64(burst+1) / rate * 1.5)
			}
		case 4: // drain the burst exactly, then arrive exactly at refill boundaries
			t := time.Duration(r.Int63n(int64(horizon)/2 + 1))
			left := burst
			for left > 0 && n > 0 {
				c := left
				if c > 15 {
					c = r.Range(1, 15)
				}
				add(t, c)
				left -= c
				n--
			}
			for k := 0; k < n; k++ {
				c := c15Cost(r)
				exact := float64(c) / rate * float64(time.Second)
				d := time.Duration(exact)
				switch r.Intn(4) {
				case 0: // a nanosecond early
					d = time.Duration(math.Floor(exact)) - 1
				case 1:
					d = time.Duration(math.Floor(exact))
				case 2:
					d = time.Duration(math.Ceil(exact))
				case 3:
					d = time.Duration(math.Ceil(exact)) + 1
				}
				t += d
				add(t, c)
				h.nBound++
			}
		default: // one or two isolated events (the quiet victim)
			add(time.Duration(r.Int63n(int64(horizon)+1)), r.Range(1, 3))
			if r.Bool() {
				add(time.Duration(r.Int63n(int64(horizon)+1)), c15Cost(r))
			}
		}
	}
	sort.SliceStable(h.evs, func(i, j int) bool { return h.evs[i].Off < h.evs[j].Off })
	return h
}

func c15Run(o c15Opts, base time.Time, evs []c15Event) []bool {
	cl := limiter.NewClientLimiter(o.lim())
	defer cl.Close()
	dec := make([]bool, len(evs))
	for i, e := range evs {
		dec[i] = cl.AllowN(e.Addr, base.Add(e.Off), e.Cost)
		// hook H7: a pass of the limiter's garbage collector in the middle of the history. Every
		// bucket was used less than a minute ago (base is the present, offsets are not negative), so
		// the pass must not forget any of them - a forgotten bucket comes back full.
		if i%37 == 17 {
			cl.VerifGC()
		}
	}
	return dec
}

func c15SubEvents(h *c15History, si int, mixed, alone []bool, idxs []int) []c15EventJSON {
	_, _, v4, v6 := h.opts.spec()
	var out []c15EventJSON
	for k, i := range idxs {
		e := h.evs[i]
		j := c15EventJSON{OffNs: int64(e.Off), Addr: e.Addr.String(), Cost: e.Cost, Sub: c15SpecSubnet(e.Addr, v4, v6).String()}
		if mixed != nil {
			m := mixed[i]
			j.Mixed = &m
		}
		if alone != nil {
			a := alone[k]
			j.Alone = &a
		}
		out = append(out, j)
	}
	return out
}

func c15InProcess(c *Ctx) {
	if c.Replay != nil {
		var cs c15Case
		if json.Unmarshal(c.Replay.Case, &cs) == nil && cs.Fn == "c15ManySubnets" {
			c15ManySubnets(c)
			return
		}
		if json.Unmarshal(c.Replay.Case, &cs) == nil && cs.Fn == "c15AfterGC" {
			c15AfterGC(c)
			return
		}
		if json.Unmarshal(c.Replay.Case, &cs) != nil || cs.Fn != "c15InProcess" {
			return
		}
		c15One(c, cs.HistoryIndex)
		return
	}
	n := c.N(2000, 100000)
	parallelFor(n, 0, func() bool { return c.ViolationCount() >= 20 }, func(idx int) { c15One(c, idx) })
	c15Concurrent(c)
	c15ManySubnets(c)
	c15AfterGC(c)
}

func c15One(c *Ctx, idx int) {
	r := gen.New(c.Seed, "c15-inproc", idx)
	h := c15Gen(r)
	rate, burst, v4, v6 := h.opts.spec()
	base := time.Now()
	mkCase := func(rule string, si int, note string) c15Case {
		cs := c15Case{Fn: "c15InProcess", HistoryIndex: idx, Rule: rule, Opts: h.opts, SpecRate: rate, SpecBurst: burst, SpecV4: v4, SpecV6: v6,
			Note: note, Subnets: len(h.subs), TotalEvents: len(h.evs)}
		if si >= 0 {
			cs.Subnet = h.subs[si].p.String()
		}
		return cs
	}

	// sanity of the generator itself: every event's spec subnet is the subnet it was generated for
	for _, e := range h.evs {
		if c15SpecSubnet(e.Addr, v4, v6) != h.subs[e.sub].p {
			c.Inconclusive(fmt.Sprintf("c15 generator: %v not in %v (history %d)", e.Addr, h.subs[e.sub].p, idx))
			return
		}
	}

	mixed := c15Run(h.opts, base, h.evs)

	bySub := make([][]int, len(h.subs))
	for i, e := range h.evs {
		bySub[e.sub] = append(bySub[e.sub], i)
	}
	var nAdm, nDen int64
	for _, d := range mixed {
		if d {
			nAdm++
		} else {
			nDen++
		}
	}

	// ---- CONSERVATION per spec subnet, O(n): with P_k = sum of admitted costs up to and including k,
	// the pair condition sum[i..j] <= burst + rate*(t_j-t_i) is (P_j - rate*t_j) - (P_{i-1} - rate*t_i) <= burst.
	var nearBound int64
	for si, idxs := range bySub {
		var P float64
		minV := math.Inf(1)
		minI := -1
		tight := false
		for _, i := range idxs {
			if !mixed[i] {
				continue
			}
			e := h.evs[i]
			t := e.Off.Seconds()
			if v := P - rate*t; v < minV { // P here is P_{i-1}
				minV, minI = v, i
			}
			P += float64(e.Cost)
			excess := (P - rate*t) - minV - float64(burst)
			window := t - h.evs[minI].Off.Seconds()
			bound := float64(burst) + rate*window
			if excess > 1e-6*(1+bound) {
				sig := "conservation:" + h.subs[si].fam + ":" + h.opts.maskClass()
				if !c.Seen(sig) {
					cs := mkCase("conservation", si, fmt.Sprintf("admitted events from offset %v to %v", h.evs[minI].Off, e.Off))
					cs.Events = c15SubEvents(h, si, mixed, nil, idxs)
					c.Violation(sig, fmt.Sprintf("subnet %v admitted cost %.0f within %.9fs (events at +%v..+%v) > burst %d + rate %g x window = %.6f; options %+v (history %d)",
						h.subs[si].p, bound+excess, window, h.evs[minI].Off, e.Off, burst, rate, bound, h.opts, idx), cs)
				}
				break
			}
			if excess > -0.05*bound-1 {
				tight = true
			}
		}
		if tight {
			nearBound++
		}
	}

	// ---- ISOLATION: replay each subnet alone (all subnets when few, a sample otherwise)
	order := r.Perm(len(h.subs))
	maxIso := 12
	var nIso, nIsoDenied int64
	for k, si := range order {
		if k >= maxIso {
			break
		}
		idxs := bySub[si]
		if len(idxs) == 0 {
			continue
		}
		evs := make([]c15Event, len(idxs))
		for k, i := range idxs {
			evs[k] = h.evs[i]
		}
		alone := c15Run(h.opts, base, evs)
		nIso++
		anyDenied := false
		for k, i := range idxs {
			if !alone[k] {
				anyDenied = true
			}
			if alone[k] != mixed[i] {
				dir := "refused-because-of-others"
				if mixed[i] {
					dir = "admitted-only-with-others"
				}
				sig := "isolation:" + h.subs[si].fam + ":" + h.opts.maskClass()
				if !c.Seen(sig) {
					cs := mkCase("isolation", si, fmt.Sprintf("first differing event: #%d of the subnet at +%v (%s)", k, h.evs[i].Off, dir))
					cs.Events = c15SubEvents(h, si, mixed, alone, idxs)
					c.Violation(sig, fmt.Sprintf("subnet %v (%s): event #%d at +%v addr %v cost %d is %s in the mixed history of %d subnets but %s when the subnet's %d events are replayed alone on a fresh limiter; options %+v (spec masks /%d /%d, burst %d) (history %d)",
						h.subs[si].p, h.subs[si].fam, k, h.evs[i].Off, h.evs[i].Addr, h.evs[i].Cost, c15Word(mixed[i]), len(h.subs), c15Word(alone[k]), len(idxs), h.opts, v4, v6, burst, idx), cs)
				}
				break
			}
		}
		if anyDenied {
			nIsoDenied++
		}
	}

	// ---- SHARING / directed isolation probe on a fresh limiter
	var nShare, nShareSkipped, nOther int64
	if burst >= 1 {
		si := order[0]
		s := h.subs[si]
		a := s.addrs[0]
		var b netip.Addr
		if len(s.addrs) > 1 {
			b = s.addrs[1]
		} else if s.p.Bits() < s.p.Addr().BitLen() {
			b = c15FlipBit(a.Unmap(), s.p.Addr().BitLen()-1)
		}
		cl := limiter.NewClientLimiter(h.opts.lim())
		okA := cl.AllowN(a, base, burst)
		if !okA {
			nShareSkipped++ // not demanded by the statement; nothing to conclude
		} else {
			if b.IsValid() && c15SpecSubnet(b, v4, v6) == s.p {
				nShare++
				if cl.AllowN(b, base, 1) {
					sig := "sharing:" + s.fam + ":" + h.opts.maskClass()
					cs := mkCase("sharing", si, fmt.Sprintf("fresh limiter: AllowN(%v, t0, %d)=true then AllowN(%v, t0, 1)=true", a, burst, b))
					c.Violation(sig, fmt.Sprintf("addresses %v and %v are both in spec subnet %v but draw from different budgets: after %v was admitted cost %d (= burst) %v was admitted cost 1 at the same instant; options %+v (history %d)",
						a, b, s.p, a, burst, b, h.opts, idx), cs)
				}
			}
			if len(h.subs) > 1 {
				o := h.subs[order[1]]
				nOther++
				if !cl.AllowN(o.addrs[0], base, 1) {
					sig := "isolation:" + o.fam + ":" + h.opts.maskClass()
					if !c.Seen(sig) {
						cs := mkCase("isolation-probe", order[1], fmt.Sprintf("fresh limiter: AllowN(%v, t0, %d)=true then AllowN(%v, t0, 1)=false", a, burst, o.addrs[0]))
						c.Violation(sig, fmt.Sprintf("fresh limiter: after %v (subnet %v) was admitted cost %d (= burst), the first query ever of %v (subnet %v) with cost 1 was refused at the same instant; options %+v (history %d)",
							a, s.p, burst, o.addrs[0], o.p, h.opts, idx), cs)
					}
				}
			}
		}
		cl.Close()
	}

	// ---- evidence
	c.Ev.Eval(1)
	c.Ev.Count("histories", 1)
	c.Ev.Count("decisions_admitted", nAdm)
	c.Ev.Count("decisions_refused", nDen)
	if nDen > 0 {
		c.Ev.Count("histories_with_refused_events", 1)
	}
	c.Ev.Count("subnets", int64(len(h.subs)))
	for _, s := range h.subs {
		c.Ev.Count("subnets_"+s.fam, 1)
	}
	c.Ev.Count("events_v4mapped_presentation", int64(h.nMapped))
	c.Ev.Count("events_at_refill_boundary", int64(h.nBound))
	c.Ev.Count("subnets_within_5pct_of_conservation_bound", nearBound)
	c.Ev.Count("isolation_subnets_replayed_alone", nIso)
	c.Ev.Count("isolation_subnets_with_refusals_alone", nIsoDenied)
	c.Ev.Count("sharing_probes_same_subnet", nShare)
	c.Ev.Count("sharing_probes_other_subnet", nOther)
	c.Ev.Count("sharing_probes_first_cost_not_admitted", nShareSkipped)
	c.Ev.Count("opts_masks:"+h.opts.maskClass(), 1)
	if h.opts.Burst == 0 {
		c.Ev.Count("opts_burst_omitted", 1)
	}
	if nAdm > 0 && nDen > 0 {
		buf := []byte(fmt.Sprintf("%+v|", h.opts))
		for _, e := range h.evs {
			buf = binary.LittleEndian.AppendUint64(buf, uint64(e.Off))
			buf = append(buf, e.Addr.AsSlice()...)
			buf = append(buf, byte(e.Cost))
		}
		c.Ev.DistinctBytes(buf)
	}
	if idx < 4 {
		c.Ev.Sample(map[string]any{"history": idx, "opts": h.opts, "spec_burst": burst, "spec_masks": []int{v4, v6}, "subnets": len(h.subs), "events": len(h.evs),
			"admitted": nAdm, "refused": nDen, "first_subnet": h.subs[0].p.String(), "span": h.evs[len(h.evs)-1].Off.String()})
	}
}

func c15Word(b bool) string {
	if b {
		return "ADMITTED"
	}
	return "REFUSED"
}

// c15Concurrent: first contact of a not-yet-tracked subnet from several goroutines at the same
// instant (same virtual time): the admitted cost must not exceed the burst - every goroutine must
// draw from one bucket.
func c15Concurrent(c *Ctx) {
	rounds := c.N(4000, 100000)
	var admittedTotal, refusedTotal int64
	var mu sync.Mutex
	parallelFor(rounds/50, 4, func() bool { return c.ViolationCount() >= 5 }, func(batch int) {
		r := gen.New(c.Seed, "c15conc", batch)
		burst := r.Range(1, 12)
		opts := limiter.ClientLimiterOpts{Limit: float64(r.Range(1, 50)), Burst: burst}
		if r.Bool() {
			opts.V4Mask, opts.V6Mask = 24, 48
		}
		lim := limiter.NewClientLimiter(opts)
		defer lim.Close()
		now := time.Now()
		for k := 0; k < 50; k++ {
			var base netip.Addr
			v6 := r.P(0.3)
			if v6 {
				var b [16]byte
				r.Read(b[:])
				b[0] = 0x20
				base = netip.AddrFrom16(b)
			} else {
				base = netip.AddrFrom4([4]byte{byte(r.Range(1, 223)), byte(batch), byte(batch >> 8), byte(k)})
				// every (batch, k) is a fresh /24
				base = netip.AddrFrom4([4]byte{byte(1 + (batch*50+k)>>16&0x7f), byte((batch*50 + k) >> 8), byte(batch*50 + k), 1})
			}
			g := r.Range(4, 16)
			var wg, ready sync.WaitGroup
			start := make(chan struct{})
			var admitted atomic.Int64
			for i := 0; i < g; i++ {
				wg.Add(1)
				ready.Add(1)
				addr := base
				if !v6 {
					a4 := base.As4()
					a4[3] = byte(1 + i)
					addr = netip.AddrFrom4(a4)
				}
				go func() {
					defer wg.Done()
					ready.Done()
					<-start
					if lim.AllowN(addr, now, 1) {
						admitted.Add(1)
					}
				}()
			}
			ready.Wait()
			close(start)
			wg.Wait()
			a := admitted.Load()
			mu.Lock()
			admittedTotal += a
			refusedTotal += int64(g) - a
			mu.Unlock()
			if a > int64(burst) {
				c.Violation("concurrent-first-contact", fmt.Sprintf("%d goroutines queried a fresh subnet (%s) at the same instant: %d queries of cost 1 were admitted with burst %d (several buckets were created for one subnet)", g, base, a, burst),
					map[string]any{"fn": "c15Concurrent", "goroutines": g, "admitted": a, "burst": burst, "subnet": base.String()})
				return
			}
		}
	})
	c.Ev.Eval(rounds)
	c.Ev.Count("concurrent_first_contact_rounds", int64(rounds))
	c.Ev.Count("concurrent_first_contact_admitted", admittedTotal)
	c.Ev.Count("concurrent_first_contact_refused", refusedTotal)
	c.Ev.Distinct("concurrent-first-contact", refusedTotal > 0)
}

// c15ManySubnets: a subnet spends its whole burst; within the same second tens of thousands of other
// subnets are seen once each (forged UDP sources look like that) - with passes of the garbage
// collector in between; then the first subnet asks again. Over the window from its first to its last
// query the admitted cost is bounded by burst + rate x window, however large the table has grown.
func c15ManySubnets(c *Ctx) {
	for rep := 0; rep < c.N(2, 12); rep++ {
		r := gen.New(c.Seed, "c15many", rep)
		burst := r.Range(5, 40)
		rate := float64(r.Range(1, 20))
		others := gen.Pick(r, []int{20000, 40000, 70000})
		v6 := rep%3 == 2
		lim := limiter.NewClientLimiter(limiter.ClientLimiterOpts{Limit: rate, Burst: burst})
		base := time.Now()
		victim := netip.MustParseAddr("10.99.1.7")
		if v6 {
			victim = netip.MustParseAddr("2001:db8:99::7")
		}
		admitted := 0
		for i := 0; i < burst+3; i++ { // spends the burst, the rest is refused
			if lim.AllowN(victim, base, 1) {
				admitted++
			}
		}
		first := admitted
		span := 200 * time.Millisecond
		for i := 0; i < others; i++ {
			var a netip.Addr
			if v6 {
				a = netip.AddrFrom16([16]byte{0x20, 0x01, byte(i >> 16), byte(i >> 8), byte(i), 0, 15: 1}) // one /48 each
			} else {
				a = netip.AddrFrom4([4]byte{byte(11 + i>>16), byte(i >> 8), byte(i), 1})
			}
			lim.AllowN(a, base.Add(span*time.Duration(i)/time.Duration(others)), 1)
			if i%9973 == 5000 {
				lim.VerifGC()
			}
		}
		for i := 0; i < burst+3; i++ {
			if lim.AllowN(victim, base.Add(span), 1) {
				admitted++
			}
		}
		lim.Close()
		c.Ev.Eval(1)
		bound := float64(burst) + rate*span.Seconds() + 1e-6
		c.Ev.Count("many_subnets_histories", 1)
		c.Ev.Count("many_subnets_other_subnets_seen", int64(others))
		if float64(admitted) > bound {
			c.Violation("conservation:table-growth", fmt.Sprintf("limit %.0f burst %d: subnet of %s was admitted cost %d at t0 and %d more %v later (bound %.1f for the whole window) after %d other subnets had been seen once each in between: its spent bucket was forgotten", rate, burst, victim, first, admitted-first, span, bound, others),
				map[string]any{"fn": "c15ManySubnets", "rep": rep, "burst": burst, "rate": rate, "other_subnets": others, "admitted": admitted})
			return
		}
		c.Ev.Distinct("many-subnets", others, v6)
	}
}

// c15AfterGC: a slow-refill configuration (limit 1, burst 1000: a bucket takes 1000 s to fill). Fifty
// subnets spend their burst two minutes ago (virtual time: the history begins 120 s in the past), a
// pass of the garbage collector removes their idle entries, then fifty subnets nobody has ever seen
// ask for 600 each, now. A fresh subnet has a full bucket - whatever was left over by subnets that
// are long gone is none of its business.
func c15AfterGC(c *Ctx) {
	for rep := 0; rep < c.N(2, 10); rep++ {
		lim := limiter.NewClientLimiter(limiter.ClientLimiterOpts{Limit: 1, Burst: 1000})
		past := time.Now().Add(-120 * time.Second)
		for i := 0; i < 50; i++ {
			a := netip.AddrFrom4([4]byte{10, 200, byte(i), 1})
			for k := 0; k < 10; k++ {
				lim.AllowN(a, past, 100) // 1000 spent
			}
		}
		lim.VerifGC()
		now := time.Now()
		short, first := 0, ""
		for i := 0; i < 50; i++ {
			a := netip.AddrFrom4([4]byte{10, byte(100 + rep), byte(i), 7})
			admitted := 0
			for k := 0; k < 6; k++ {
				if lim.AllowN(a, now, 100) {
					admitted += 100
				}
			}
			c.Ev.Eval(1)
			if admitted < 600 {
				short++
				if first == "" {
					first = fmt.Sprintf("%s was admitted %d of the 600 it asked for", a, admitted)
				}
			}
		}
		lim.Close()
		c.Ev.Count("after_gc_fresh_subnets", 50)
		if short > 0 {
			c.Violation("isolation:fresh-subnet-after-gc", fmt.Sprintf("limit 1 burst 1000: fifty subnets spent their burst 120 s ago and were removed by the garbage collector; of fifty subnets never seen before, %d were refused below their burst at first contact (%s): they inherited what other subnets had left", short, first),
				map[string]any{"fn": "c15AfterGC", "rep": rep, "short": short})
			return
		}
		c.Ev.Distinct("after-gc", rep)
	}
}
