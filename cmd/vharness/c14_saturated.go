package main

// C14 addition: the multiplexing capacity of an upstream connection is used up by exchanges the
// server never answers; one more exchange with a short deadline must still return by that deadline.

import (
	"context"
	"crypto/tls"
	"fmt"
	"sync"
	"time"

	"github.com/IrineSistiana/mosproxy/internal/dnsmsg"
	"github.com/IrineSistiana/mosproxy/internal/upstream"
	"github.com/IrineSistiana/mosproxy/verif/internal/fakeup"
	"github.com/IrineSistiana/mosproxy/verif/internal/pki"
	"github.com/miekg/dns"
)

func c14Saturated(c *Ctx) {
	ca, _ := pki.NewCA("c14")
	leaf, _ := ca.Leaf(pki.LeafOpt{Names: []string{"up.test", "127.0.0.1"}})
	stls := &tls.Config{Certificates: []tls.Certificate{leaf.TLS}}
	type cell struct {
		scheme  string
		hold    int // silent exchanges that occupy the connection
		streams int64
	}
	cells := []cell{{"quic", 4, 4}, {"quic", 9, 8}, {"tcp+pipeline", 64, 0}, {"tls+pipeline", 64, 0}, {"https", 20, 0}}
	var wg sync.WaitGroup
	for ci, cl := range cells {
		wg.Add(1)
		go func(ci int, cl cell) {
			defer wg.Done()
			s := fakeup.NewServer(fmt.Sprintf("sat%d", ci))
			s.QUICMaxStreams = cl.streams
			defer s.Close()
			var addr string
			var err error
			switch cl.scheme {
			case "quic":
				err = s.ListenQUIC("127.0.0.1:0", stls)
				addr = "quic://" + s.Addr["quic"]
			case "tcp+pipeline":
				err = s.ListenTCP("127.0.0.1:0")
				addr = "tcp+pipeline://" + s.Addr["tcp"]
			case "tls+pipeline":
				err = s.ListenTLS("127.0.0.1:0", stls)
				addr = "tls+pipeline://" + s.Addr["tls"]
			case "https":
				err = s.ListenHTTPS("127.0.0.1:0", stls)
				addr = "https://" + s.Addr["https"] + "/dns-query"
			}
			if err != nil {
				c.Inconclusive("listen: " + err.Error())
				return
			}
			u, err := upstream.NewUpstream(addr, upstream.Opt{TLSConfig: &tls.Config{RootCAs: ca.Pool(), ServerName: "up.test"}})
			if err != nil {
				c.Inconclusive("NewUpstream: " + err.Error())
				return
			}
			defer u.Close()
			exchange := func(name string, deadline time.Duration) (time.Duration, error) {
				ctx, cancel := context.WithTimeout(context.Background(), deadline)
				defer cancel()
				t0 := time.Now()
				m, err := u.ExchangeContext(ctx, mkQuery(7, name, dns.TypeA, dns.ClassINET, true))
				if err == nil {
					dnsmsg.ReleaseMsg(m)
				}
				return time.Since(t0), err
			}
			for i := 0; i < 3; i++ {
				if _, err := exchange(fmt.Sprintf("ok-w%d.c14.test.", i), 3*time.Second); err != nil {
					c.Inconclusive("warm-up exchange failed: " + err.Error())
					return
				}
			}
			var hw sync.WaitGroup
			for i := 0; i < cl.hold; i++ {
				hw.Add(1)
				go func(i int) {
					defer hw.Done()
					exchange(fmt.Sprintf("silent-h%d.c14.test.", i), 4*time.Second)
				}(i)
			}
			time.Sleep(400 * time.Millisecond) // the holders are now waiting for replies that never come
			const deadline = 500 * time.Millisecond
			done := make(chan time.Duration, 1)
			go func() {
				d, _ := exchange("ok-extra.c14.test.", deadline)
				done <- d
			}()
			c.Ev.Eval(1)
			cs := map[string]any{"fn": "c14Saturated", "scheme": cl.scheme, "held_exchanges": cl.hold, "server_stream_limit": cl.streams}
			select {
			case d := <-done:
				if d > deadline+1500*time.Millisecond {
					c.Violation("T1:late-return:saturated:"+cl.scheme, fmt.Sprintf("%s upstream with %d unanswered exchanges in flight: one more exchange with a %v deadline returned after %v", cl.scheme, cl.hold, deadline, d), cs)
				} else {
					c.Ev.Distinct("saturated", cl.scheme, cl.hold)
					c.Ev.Count("saturated_cells_ok", 1)
				}
			case <-time.After(deadline + 6*time.Second):
				c.Violation("T1:late-return:saturated:"+cl.scheme, fmt.Sprintf("%s upstream with %d unanswered exchanges in flight (server stream limit %d): one more exchange with a %v deadline had not returned %v after its deadline", cl.scheme, cl.hold, cl.streams, deadline, 6*time.Second), cs)
			}
			hw.Wait()
		}(ci, cl)
	}
	wg.Wait()
}
