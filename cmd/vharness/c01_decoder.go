package main

// C01 (a) — decoder monitor: hostile inputs are decoded in child processes.
//
//	parent:  generates batches (valid seeds from internal/refmsg + mutators), writes each batch to a file and runs
//	         `timeout -s QUIT <n> vharness child c01dec <batchfile> <logfile> <start> <resultfile>` with output to a file
//	child:   for every input: append its index to the log file, then UnpackMsg (+ Len, Pack x4, ToReadable and
//	         NameScanner over every name, ReleaseMsg when accepted) and ReadMsgFromTCP with correct / lying prefixes;
//	         pool-sanitizer and ownership-hook reports are attributed to the input being processed
//
// c01Decoder(c) is called by the C01 check; c01DecoderReplay(c) re-runs a recorded decoder witness.

import (
	"bufio"
	"bytes"
	"encoding/binary"
	"encoding/hex"
	"encoding/json"
	"errors"
	"fmt"
	"os"
	"os/exec"
	"path/filepath"
	"regexp"
	"sort"
	"strconv"
	"strings"
	"sync"
	"sync/atomic"
	"time"

	"github.com/IrineSistiana/mosproxy/internal/dnsmsg"
	"github.com/IrineSistiana/mosproxy/internal/dnsutils"
	"github.com/IrineSistiana/mosproxy/internal/pool"
	"github.com/IrineSistiana/mosproxy/internal/verifhook"
	"github.com/IrineSistiana/mosproxy/verif/internal/gen"
	"github.com/IrineSistiana/mosproxy/verif/internal/refmsg"
)

func init() { children["c01dec"] = c01decChild }

// ---------------------------------------------------------------- child

type c01decReport struct {
	Idx    int    `json:"idx"` // -1: found when the quarantine was drained at the end
	Source string `json:"source"`
	Kind   string `json:"kind"`
	Site   string `json:"site"`
}

type c01decResult struct {
	Done      bool           `json:"done"`
	Processed int            `json:"processed"`
	DecodedOK int            `json:"decoded_ok"`
	PackOK    int            `json:"pack_ok"`
	PackErr   int            `json:"pack_err"`
	Names     int            `json:"names_scanned"`
	TCPOK     int            `json:"tcp_decoded_ok"`
	Errors    map[string]int `json:"errors"`
	TCPErrors map[string]int `json:"tcp_errors"`
	Reports   []c01decReport `json:"reports"`
}

func c01decReadBatch(path string) ([][]byte, error) {
	b, err := os.ReadFile(path)
	if err != nil {
		return nil, err
	}
	var out [][]byte
	for off := 0; off < len(b); {
		if off+4 > len(b) {
			return nil, errors.New("corrupt batch file")
		}
		n := int(binary.BigEndian.Uint32(b[off:]))
		off += 4
		if off+n > len(b) {
			return nil, errors.New("corrupt batch file")
		}
		out = append(out, b[off:off+n:off+n])
		off += n
	}
	return out, nil
}

func c01decWriteBatch(path string, inputs [][]byte) error {
	f, err := os.Create(path)
	if err != nil {
		return err
	}
	w := bufio.NewWriterSize(f, 1<<20)
	var l [4]byte
	for _, in := range inputs {
		binary.BigEndian.PutUint32(l[:], uint32(len(in)))
		w.Write(l[:])
		w.Write(in)
	}
	if err := w.Flush(); err != nil {
		f.Close()
		return err
	}
	return f.Close()
}

func c01decScanName(n []byte, res *c01decResult) {
	res.Names++
	if rb, err := dnsmsg.ToReadable(n); err == nil {
		pool.ReleaseBuf(rb)
	}
	sc := dnsmsg.NewNameScanner(n)
	for sc.Scan() {
		_ = sc.Label()
		_ = sc.LabelOff()
	}
	_ = sc.Err()
}

func c01decExercise(m *dnsmsg.Msg, res *c01decResult) {
	L := m.Len()
	for _, mode := range [4]struct {
		compress bool
		size     int
	}{{false, 0}, {true, 0}, {false, 512}, {true, 512}} {
		b := pool.GetBuf(L)
		if _, err := m.Pack(b, mode.compress, mode.size); err != nil {
			res.PackErr++
		} else {
			res.PackOK++
		}
		pool.ReleaseBuf(b)
	}
	for _, q := range m.Questions {
		c01decScanName(q.Name, res)
	}
	for _, sec := range [3][]dnsmsg.Resource{m.Answers, m.Authorities, m.Additionals} {
		for _, rr := range sec {
			c01decScanName(rr.Hdr().Name, res)
			switch rr := rr.(type) {
			case *dnsmsg.NAMEResource:
				c01decScanName(rr.NameData, res)
			case *dnsmsg.SOA:
				c01decScanName(rr.NS, res)
				c01decScanName(rr.MBox, res)
			case *dnsmsg.MX:
				c01decScanName(rr.MX, res)
			case *dnsmsg.SRV:
				c01decScanName(rr.Target, res)
			}
		}
	}
}

func c01decOne(in []byte, idx int, res *c01decResult) {
	m, err := dnsmsg.UnpackMsg(in)
	if err != nil {
		res.Errors[err.Error()]++
	} else {
		res.DecodedOK++
		c01decExercise(m, res)
		dnsmsg.ReleaseMsg(m)
	}
	if len(in) > 65535 {
		return
	}
	// stream framing: correct length prefix, then one lying prefix
	declared := []int{len(in)}
	switch idx % 6 {
	case 0:
		declared = append(declared, 0)
	case 1:
		declared = append(declared, 1)
	case 2:
		declared = append(declared, len(in)-1)
	case 3:
		declared = append(declared, len(in)+1)
	case 4:
		if idx%24 == 4 {
			declared = append(declared, 65535)
		} else {
			declared = append(declared, len(in)+2+idx%300)
		}
	}
	for _, d := range declared {
		if d < 0 || d > 65535 {
			continue
		}
		framed := make([]byte, 2+len(in))
		binary.BigEndian.PutUint16(framed, uint16(d))
		copy(framed[2:], in)
		m, _, err := dnsutils.ReadMsgFromTCP(bytes.NewReader(framed))
		if err != nil {
			res.TCPErrors[err.Error()]++
		} else {
			res.TCPOK++
		}
		if m != nil {
			dnsmsg.ReleaseMsg(m)
		}
	}
}

func c01decTopSite(site string) string {
	for _, f := range strings.Split(site, ";") {
		if strings.Contains(f, "mosproxy/") && !strings.Contains(f, "/internal/pool.") && !strings.Contains(f, "/verifhook.") && !strings.Contains(f, "/verif/") {
			if i := strings.LastIndex(f, ":"); i > 0 {
				f = f[:i]
			}
			return f[strings.LastIndex(f, "/")+1:]
		}
	}
	return "?"
}

// vharness child c01dec <batchfile> <logfile> <start> <resultfile> [<end>]
func c01decChild(args []string) int {
	if len(args) < 4 {
		fmt.Fprintln(os.Stderr, "usage: child c01dec <batchfile> <logfile> <start> <resultfile> [<end>]")
		return 3
	}
	inputs, err := c01decReadBatch(args[0])
	if err != nil {
		fmt.Fprintln(os.Stderr, "c01dec:", err)
		return 3
	}
	start, _ := strconv.Atoi(args[2])
	if len(args) >= 5 {
		if end, err := strconv.Atoi(args[4]); err == nil && end < len(inputs) {
			inputs = inputs[:end]
		}
	}
	logf, err := os.OpenFile(args[1], os.O_APPEND|os.O_CREATE|os.O_WRONLY, 0644)
	if err != nil {
		fmt.Fprintln(os.Stderr, "c01dec:", err)
		return 3
	}
	res := &c01decResult{Errors: map[string]int{}, TCPErrors: map[string]int{}}
	var seenPool, seenHook uint64
	collect := func(idx int) {
		if n := pool.VerifGetStats().Reports; n != seenPool {
			seenPool = n
			for _, r := range pool.VerifTakeReports() {
				site := r.Site
				if r.Kind == "write-after-release" {
					site = r.Site0
				}
				res.Reports = append(res.Reports, c01decReport{Idx: idx, Source: "pool", Kind: r.Kind, Site: c01decTopSite(site)})
			}
		}
		if n := verifhook.ReportCount(); n != seenHook {
			seenHook = n
			for _, r := range verifhook.TakeReports() {
				res.Reports = append(res.Reports, c01decReport{Idx: idx, Source: "hook", Kind: r.Kind, Site: c01decTopSite(r.Stack)})
			}
		}
	}
	// self-test of the monitor (never set by the checks): VERIF_C01DEC_SELFTEST=panic@<idx> | hang@<idx> | doublerelease@<idx>
	stKind, stIdx := "", -1
	if k, v, ok := strings.Cut(os.Getenv("VERIF_C01DEC_SELFTEST"), "@"); ok {
		stKind = k
		stIdx, _ = strconv.Atoi(v)
	}
	// progress monitor: decoding one input takes microseconds; an input on which the loop below does not
	// advance for 5 s is a hang. Exit with status 9 at once instead of waiting for the batch watchdog.
	var progress atomic.Int64
	progress.Store(-1)
	go func() {
		last, stuck := int64(-2), 0
		for {
			time.Sleep(500 * time.Millisecond)
			p := progress.Load()
			if p == last {
				stuck++
			} else {
				last, stuck = p, 0
			}
			if stuck >= 10 && p >= 0 {
				fmt.Fprintf(os.Stderr, "STUCK: no progress for 5 s at input %d\n", p)
				os.Exit(9)
			}
		}
	}()
	var line []byte
	for i := start; i < len(inputs); i++ {
		progress.Store(int64(i))
		line = strconv.AppendInt(line[:0], int64(i), 10)
		line = append(line, '\n')
		logf.Write(line) // before processing: a crash or a hang is attributed to this input
		if i == stIdx {
			switch stKind {
			case "panic":
				var a []int
				_ = a[i]
			case "hang":
				for {
				}
			case "doublerelease":
				b := pool.GetBuf(10)
				pool.ReleaseBuf(b)
				pool.ReleaseBuf(b)
			}
		}
		c01decOne(inputs[i], i, res)
		res.Processed++
		collect(i)
	}
	pool.VerifDrain()
	collect(-1)
	res.Done = true
	b, _ := json.Marshal(res)
	if err := os.WriteFile(args[3]+".tmp", b, 0644); err != nil {
		fmt.Fprintln(os.Stderr, "c01dec:", err)
		return 3
	}
	os.Rename(args[3]+".tmp", args[3])
	if len(res.Reports) > 0 {
		return 4
	}
	return 0
}

// ---------------------------------------------------------------- parent

type c01decCase struct {
	Input   string `json:"decoder_input_hex"`
	Mutator string `json:"mutator,omitempty"`
	Batch   int    `json:"batch"`
	Index   int    `json:"index"`
	Output  string `json:"child_output_file,omitempty"`
	Excerpt string `json:"child_output_excerpt,omitempty"`
}

// c01decGenBatch builds batch bi: valid seeds and their mutants.
func c01decGenBatch(seed int64, bi, size int) (inputs [][]byte, kinds []string) {
	r := gen.New(seed, "c01dec", bi)
	add := func(b []byte, kind string) {
		if len(inputs) < size && len(b) <= 65535 {
			inputs = append(inputs, b)
			kinds = append(kinds, kind)
		}
	}
	prev := refmsg.NewSeed(r)
	add([]byte{}, "empty")
	for len(inputs) < size {
		s := refmsg.NewSeed(r)
		add(s.W, "valid-compressed")
		add(s.PW, "valid-plain")
		if len(s.W) <= 320 && r.P(0.15) {
			for _, t := range refmsg.Truncations(s.W) { // every prefix
				add(t, "truncate-exhaustive")
			}
		}
		if len(s.PW) <= 320 && r.P(0.05) {
			for _, t := range refmsg.Truncations(s.PW) {
				add(t, "truncate-exhaustive")
			}
		}
		for k := 0; k < 40; k++ {
			b, kind := refmsg.Mutate(r, s, prev)
			add(b, kind)
		}
		prev = s
	}
	return
}

var c01decNumRe = regexp.MustCompile(`0x[0-9a-f]+|\d+`)

// classify the output of a child that did not finish cleanly
func c01decClassify(out string) (sig, excerpt string) {
	lines := strings.Split(out, "\n")
	first := func(prefix string) (int, string) {
		for i, l := range lines {
			if strings.HasPrefix(l, prefix) {
				return i, l
			}
		}
		return -1, ""
	}
	frame := func(from int) string {
		for _, l := range lines[max(from, 0):] {
			l = strings.TrimSpace(l)
			if strings.HasPrefix(l, "github.com/IrineSistiana/mosproxy/") && !strings.Contains(l, "/verif/") {
				if i := strings.Index(l, "("); i > 0 {
					l = l[:i]
				}
				return l[strings.LastIndex(l, "/")+1:]
			}
		}
		return "?"
	}
	ex := func(i int) string {
		return strings.Join(lines[i:min(len(lines), i+25)], "\n")
	}
	if i, _ := first("fatal error: checkptr"); i >= 0 {
		return "checkptr@" + frame(i), ex(i)
	}
	if i, l := first("panic: "); i >= 0 {
		return "panic:" + c01decNumRe.ReplaceAllString(strings.TrimPrefix(l, "panic: "), "N") + "@" + frame(i), ex(i)
	}
	if i, l := first("fatal error: "); i >= 0 {
		return "fatal:" + c01decNumRe.ReplaceAllString(strings.TrimPrefix(l, "fatal error: "), "N") + "@" + frame(i), ex(i)
	}
	if i, _ := first("WARNING: DATA RACE"); i >= 0 {
		return "data-race@" + frame(i), ex(i)
	}
	return "", ""
}

type c01decRun struct {
	exit     int
	timedOut bool
	out      string
	outPath  string
	res      *c01decResult
	last     int // last logged input index, -1 if none
}

// c01decExec runs one child over inputs[start:] of a batch file.
func c01decExec(dir, tag, batchFile string, start, end int, watchdog int) (*c01decRun, error) {
	exe, err := os.Executable()
	if err != nil {
		return nil, err
	}
	logPath := filepath.Join(dir, tag+".log")
	outPath := filepath.Join(dir, tag+".out")
	resPath := filepath.Join(dir, tag+".result.json")
	os.Remove(logPath)
	os.Remove(resPath)
	outf, err := os.Create(outPath)
	if err != nil {
		return nil, err
	}
	cmd := exec.Command("timeout", "-s", "QUIT", "-k", "15", strconv.Itoa(watchdog), exe, "child", "c01dec", batchFile, logPath, strconv.Itoa(start), resPath, strconv.Itoa(end))
	cmd.Stdout = outf
	cmd.Stderr = outf
	env := []string{}
	for _, e := range os.Environ() {
		if !strings.HasPrefix(e, "GORACE=") && !strings.HasPrefix(e, "VERIF_POOL_") && !strings.HasPrefix(e, "VERIF_POINTS=") && !strings.HasPrefix(e, "VERIF_HOOK_LOG=") {
			env = append(env, e)
		}
	}
	cmd.Env = append(env, "GORACE=halt_on_error=0 exitcode=66", "GOTRACEBACK=all")
	t0 := time.Now()
	err = cmd.Run()
	outf.Close()
	run := &c01decRun{outPath: outPath, last: -1}
	if err != nil {
		var ee *exec.ExitError
		if !errors.As(err, &ee) {
			return nil, err
		}
		run.exit = ee.ExitCode()
	}
	// timeout(1): 124 = timed out; 137 = had to send KILL
	run.timedOut = ((run.exit == 124 || run.exit == 137) && time.Since(t0) >= time.Duration(watchdog)*time.Second) || run.exit == 9
	if b, err := os.ReadFile(outPath); err == nil {
		if len(b) > 4<<20 {
			b = b[:4<<20]
		}
		run.out = string(b)
	}
	if b, err := os.ReadFile(resPath); err == nil {
		r := new(c01decResult)
		if json.Unmarshal(b, r) == nil {
			run.res = r
		}
	}
	if f, err := os.Open(logPath); err == nil {
		// last complete line
		st, _ := f.Stat()
		sz := st.Size()
		buf := make([]byte, min(sz, 64))
		f.ReadAt(buf, sz-int64(len(buf)))
		f.Close()
		ls := strings.Split(strings.TrimRight(string(buf), "\n"), "\n")
		if len(ls) > 0 {
			if n, err := strconv.Atoi(ls[len(ls)-1]); err == nil {
				run.last = n
			}
		}
	}
	return run, nil
}

type c01decAgg struct {
	mu        sync.Mutex
	errors    map[string]int
	tcpErrors map[string]int
}

// c01decBatch runs a batch to completion (restarting after a crash) and reports violations.
func c01decBatch(c *Ctx, cnt *counterSet, agg *c01decAgg, dir string, bi int, inputs [][]byte, kinds []string, startAt, watchdog int) {
	if c.Seen("hang") {
		return
	}
	batchFile := filepath.Join(dir, fmt.Sprintf("batch-%d.bin", bi))
	if err := c01decWriteBatch(batchFile, inputs); err != nil {
		c.Inconclusive("cannot write batch file: " + err.Error())
		return
	}
	keep := false
	defer func() {
		if !keep {
			os.Remove(batchFile)
		}
	}()
	witness := func(idx int, run *c01decRun, excerpt string) c01decCase {
		cs := c01decCase{Batch: bi, Index: idx, Output: run.outPath, Excerpt: excerpt}
		if idx >= 0 && idx < len(inputs) {
			cs.Input = hex.EncodeToString(inputs[idx])
			cs.Mutator = kinds[idx]
		}
		return cs
	}
	desc := func(idx int) string {
		if idx < 0 || idx >= len(inputs) {
			return fmt.Sprintf("batch %d (no input logged)", bi)
		}
		in := inputs[idx]
		return fmt.Sprintf("input #%d of batch %d (%s, %d octets) %s", idx, bi, kinds[idx], len(in), hex.EncodeToString(in[:min(len(in), 96)]))
	}
	start := startAt
	for attempt := 0; start < len(inputs); attempt++ {
		if attempt > 12 {
			c.Inconclusive(fmt.Sprintf("batch %d: too many child restarts, %d inputs not run", bi, len(inputs)-start))
			return
		}
		tag := fmt.Sprintf("batch-%d-run%d", bi, attempt)
		run, err := c01decExec(dir, tag, batchFile, start, len(inputs), watchdog)
		if err != nil {
			c.Inconclusive("cannot run child: " + err.Error())
			return
		}
		local := map[string]int64{"children": 1}
		if run.res != nil { // finished (exit 0, or 4 = finished with sanitizer/hook reports)
			r := run.res
			local["inputs"] += int64(r.Processed)
			local["decoded_ok"] += int64(r.DecodedOK)
			local["pack_calls_ok"] += int64(r.PackOK)
			local["pack_calls_error"] += int64(r.PackErr)
			local["names_scanned"] += int64(r.Names)
			local["tcp_framed_decoded_ok"] += int64(r.TCPOK)
			agg.mu.Lock()
			for k, v := range r.Errors {
				agg.errors[k] += v
			}
			for k, v := range r.TCPErrors {
				agg.tcpErrors[k] += v
			}
			agg.mu.Unlock()
			for _, rep := range r.Reports {
				keep = true
				c.Violation(rep.Source+"-report:"+rep.Kind+"@"+rep.Site,
					fmt.Sprintf("%s sanitizer reported %s (%s) while decoding %s", rep.Source, rep.Kind, rep.Site, desc(rep.Idx)), witness(rep.Idx, run, ""))
			}
			if sig, ex := c01decClassify(run.out); sig != "" {
				// e.g. a race report: the process ran to the end
				keep = true
				c.Violation(sig, fmt.Sprintf("child reported %s while decoding batch %d (inputs %d..%d); output in %s", sig, bi, start, len(inputs)-1, run.outPath), witness(-1, run, ex))
			} else if run.exit != 0 && run.exit != 4 {
				keep = true
				c.Violation(fmt.Sprintf("child-exit-%d", run.exit), fmt.Sprintf("decoder child finished batch %d but exited with status %d; output in %s", bi, run.exit, run.outPath), witness(-1, run, ""))
			}
			cnt.merge(local)
			return
		}
		// did not finish: crash, watchdog, or harness trouble
		done := run.last - start // inputs before the suspect one completed
		if done > 0 {
			local["inputs"] += int64(done)
		}
		cnt.merge(local)
		if run.last < 0 {
			c.Inconclusive(fmt.Sprintf("batch %d: child exited with status %d before logging any input; output in %s", bi, run.exit, run.outPath))
			keep = true
			return
		}
		if sig, ex := c01decClassify(run.out); sig != "" && !run.timedOut {
			keep = true
			c.Violation(sig, fmt.Sprintf("decoder child died (exit %d, %s) on %s", run.exit, sig, desc(run.last)), witness(run.last, run, ex))
			cnt.merge(map[string]int64{"inputs": 1, "child_crashes": 1})
			start = run.last + 1
			continue
		}
		if !run.timedOut {
			// died without a recognisable report (e.g. killed by the kernel): judge the input alone
			rerun, err := c01decExec(dir, fmt.Sprintf("batch-%d-suspect-%d", bi, run.last), batchFile, run.last, run.last+1, 60)
			if err == nil && rerun.res == nil && !rerun.timedOut {
				keep = true
				sig, ex := c01decClassify(rerun.out)
				if sig == "" {
					sig, ex = fmt.Sprintf("child-exit-%d", rerun.exit), rerun.out[:min(len(rerun.out), 3000)]
				}
				c.Violation(sig, fmt.Sprintf("decoder child died twice (exit %d, then %d alone) on %s; output in %s", run.exit, rerun.exit, desc(run.last), rerun.outPath), witness(run.last, rerun, ex))
			} else {
				c.Inconclusive(fmt.Sprintf("batch %d: child exited with status %d at input %d without a report; not reproduced when the input was run alone (output in %s)", bi, run.exit, run.last, run.outPath))
			}
			cnt.merge(map[string]int64{"inputs": 1})
			start = run.last + 1
			continue
		}
		{
			// suspect: re-run alone with a 60 s watchdog, report only if it hangs again
			rerun, err := c01decExec(dir, fmt.Sprintf("batch-%d-suspect-%d", bi, run.last), batchFile, run.last, run.last+1, 60)
			cnt.merge(map[string]int64{"watchdog_fired": 1})
			if err == nil && rerun.res == nil && rerun.timedOut {
				keep = true
				_, ex := c01decClassify(rerun.out)
				if ex == "" {
					ex = rerun.out[:min(len(rerun.out), 3000)]
				}
				c.Violation("hang", fmt.Sprintf("decoding does not return (no progress for 5 s, twice) for %s", desc(run.last)), witness(run.last, rerun, ex))
				return // one witness is enough; every further hanging input would cost seconds
			} else if err == nil && rerun.res == nil {
				if sig, ex := c01decClassify(rerun.out); sig != "" {
					keep = true
					c.Violation(sig, fmt.Sprintf("decoder child died (%s) on %s", sig, desc(run.last)), witness(run.last, rerun, ex))
				} else {
					c.Inconclusive(fmt.Sprintf("batch %d: watchdog fired at input %d; alone it neither finished nor hung (exit %d)", bi, run.last, rerun.exit))
				}
			} else {
				c.Inconclusive(fmt.Sprintf("batch %d: watchdog (%d s) fired at input %d, not reproduced when run alone", bi, watchdog, run.last))
			}
			cnt.merge(map[string]int64{"inputs": 1})
			start = run.last + 1
			continue
		}
	}
}

// c01Decoder is oracle (a) of C01: the decoder monitor.
func c01Decoder(c *Ctx) {
	total := c.N(200000, 10000000)
	if c.ID != "C01" {
		total = c.N(100000, 1000000)
	}
	par := c.N(8, 16) // children running at a time
	batchSize := min(50000, total/par)
	nBatches := (total + batchSize - 1) / batchSize
	watchdog := 60 + batchSize/100 // seconds; about 100x the time a batch takes on the unchanged tree
	if v, err := strconv.Atoi(os.Getenv("VERIF_C01DEC_WATCHDOG")); err == nil && v > 0 {
		watchdog = v
	}
	dir := filepath.Join(c.Work, "dec")
	os.MkdirAll(dir, 0755)
	var cnt counterSet
	agg := &c01decAgg{errors: map[string]int{}, tcpErrors: map[string]int{}}
	parallelFor(nBatches, par, func() bool { return c.ViolationCount() >= 20 }, func(bi int) {
		inputs, kinds := c01decGenBatch(c.Seed, bi, batchSize)
		local := map[string]int64{}
		for i, k := range kinds {
			local["generated:"+k]++
			if total <= 1000000 || i%10 == 0 {
				c.Ev.DistinctBytes(inputs[i])
			}
		}
		cnt.merge(local)
		c01decBatch(c, &cnt, agg, dir, bi, inputs, kinds, 0, watchdog)
	})
	c.Ev.Eval(int(cnt.get("inputs")))
	cnt.flush(c)
	agg.mu.Lock()
	defer agg.mu.Unlock()
	c.Ev.Set("decoder_distinct_error_strings", len(agg.errors))
	c.Ev.Set("decoder_errors", c01decTop(agg.errors, 60))
	c.Ev.Set("tcp_framing_errors", c01decTop(agg.tcpErrors, 20))
	c.Ev.Sample(map[string]any{"decoder_children": c.Ev.Counter("children"), "inputs": c.Ev.Counter("inputs"), "decoded_ok": c.Ev.Counter("decoded_ok"), "distinct_error_strings": len(agg.errors)})
}

func c01decTop(m map[string]int, n int) map[string]int {
	keys := make([]string, 0, len(m))
	for k := range m {
		keys = append(keys, k)
	}
	sort.Slice(keys, func(i, j int) bool { return m[keys[i]] > m[keys[j]] || m[keys[i]] == m[keys[j]] && keys[i] < keys[j] })
	out := map[string]int{}
	for i, k := range keys {
		if i >= n {
			break
		}
		out[k] = m[k]
	}
	return out
}

// c01DecoderReplay re-runs a decoder witness. It returns false when the
// replay case is not a decoder case (then the caller handles it).
func c01DecoderReplay(c *Ctx) bool {
	if c.Replay == nil {
		return false
	}
	var cs c01decCase
	if err := json.Unmarshal(c.Replay.Case, &cs); err != nil || (cs.Input == "" && !bytes.Contains(c.Replay.Case, []byte("decoder_input_hex"))) {
		return false
	}
	in, err := hex.DecodeString(cs.Input)
	if err != nil {
		c.Inconclusive("bad replay input: " + err.Error())
		return true
	}
	dir := filepath.Join(c.Work, "dec")
	os.MkdirAll(dir, 0755)
	var cnt counterSet
	agg := &c01decAgg{errors: map[string]int{}, tcpErrors: map[string]int{}}
	// same index as in the original batch so that the same lying length prefix is chosen
	inputs := make([][]byte, cs.Index+1)
	kinds := make([]string, cs.Index+1)
	for i := range inputs {
		inputs[i] = []byte{}
		kinds[i] = "padding"
	}
	if cs.Index < 0 {
		inputs, kinds = [][]byte{in}, []string{cs.Mutator}
	} else {
		inputs[cs.Index], kinds[cs.Index] = in, cs.Mutator
	}
	c01decBatch(c, &cnt, agg, dir, cs.Batch, inputs, kinds, max(cs.Index, 0), 60)
	c.Ev.Eval(int(cnt.get("inputs")))
	cnt.flush(c)
	return true
}
