package main

// Shared concurrent end-to-end workload (used by C04 and C20): many clients over
// all listener kinds, hot + unique names, delayed/reordered upstream replies,
// every response checked against the keyed-answer oracle.

import (
	"encoding/hex"
	"fmt"
	"net/http"
	"strings"
	"sync"
	"sync/atomic"
	"time"

	"github.com/IrineSistiana/mosproxy/verif/internal/dnsclient"
	"github.com/IrineSistiana/mosproxy/verif/internal/fakeup"
	"github.com/IrineSistiana/mosproxy/verif/internal/gen"
	"github.com/IrineSistiana/mosproxy/verif/internal/proxyproc"
	"github.com/miekg/dns"
)

type stressOpts struct {
	Name        string
	Bed         BedOpts
	Workers     int // per listener kind
	PerWorker   int // queries per worker
	HotNames    int
	UniqueFrac  float64
	MaxDelayMs  int
	Abandon     float64 // probability that a client abandons (closes) its connection mid-request
	Seed        int64
	LateReplies int           // number of queries (per pipelined upstream) whose reply arrives after the 6 s request deadline
	MinDuration time.Duration // keep the workload running at least this long (so that late replies meet live traffic)
	asked       *sync.Map
}

type stressViolation struct {
	Sig, What string
	Case      map[string]any
}

type stressResult struct {
	asked                                                *sync.Map
	Sent, Answered, Keyed, ServFail, Timeouts, Abandoned int64
	LateAnswers                                          int64 // stream answers that arrived after the harness had moved on to the next batch
	CacheHits                                            int64 // responses whose serial was issued before the query was sent... (approx: serial seen before)
	Violations                                           []stressViolation
	Proc                                                 *proxyproc.Result
	Cells                                                map[string]int64
	Reordered                                            int64
	UpstreamQueries                                      int64
	StartErr                                             error
	Samples                                              []any
}

var stressTypes = []uint16{dns.TypeA, dns.TypeAAAA, dns.TypeMX, dns.TypeTXT}

type stressQ struct {
	wire  []byte
	q     dns.Question
	tag   string
	id    uint16
	kind  string // directive kind: ok | nx | empty | rc9
	tSend int64
}

func stressMkQuery(r *gen.R, o *stressOpts, ups []string, worker, seq int) *stressQ {
	sq := stressMkQuery0(r, o, ups, worker, seq)
	if o.asked != nil {
		o.asked.Store(fmt.Sprintf("%s|%s/%d/%d", sq.tag, strings.ToLower(sq.q.Name), sq.q.Qtype, sq.q.Qclass), true)
	}
	return sq
}

func stressMkQuery0(r *gen.R, o *stressOpts, ups []string, worker, seq int) *stressQ {
	up := gen.Pick(r, ups)
	var first string
	kind := "ok"
	switch x := r.Intn(20); {
	case x == 0:
		kind = "nx"
	case x == 1:
		kind = "empty"
	case x == 2:
		kind = "rc9"
	case x == 3 && up == "udp" && r.P(0.3):
		kind = "half" // the datagram is cut in the middle while its header still announces every record
	case x <= 6 && up == "udpx":
		kind = "tc" // truncated over UDP, and nothing accepts the TCP retry: the exchange fails
	case x == 4 && r.P(0.5):
		kind = "rd0" // RD=0: not supported, answered NOTIMP from the query message itself
	}
	delay := 0
	if o.MaxDelayMs > 0 && r.P(0.7) {
		delay = r.Intn(o.MaxDelayMs + 1)
	}
	// a label with octets above 0x7f (raw 8-bit / UTF-8 names are legal on the wire): names that differ
	// only in such an octet - here in the bit that separates 'A' from 'a' - are different names
	extra := ""
	forceEdns := false
	if r.P(o.UniqueFrac) {
		first = fmt.Sprintf("%s-n%d-d%d-ttl%d-u%dx%d", kind, r.Range(1, 30), delay, r.Range(1, 600), worker, seq)
		if r.P(0.1) {
			extra = fmt.Sprintf(".x\\%03d\\%03d", 0xc1+r.Intn(26)|r.Intn(2)<<5, 0x80+r.Intn(128))
		}
		if kind == "ok" && up != "udp" && up != "udpx" && r.P(0.012) {
			// a reply of 65525..65535 octets without OPT to a client that sent one: too large for any
			// transport once the proxy has added its own OPT record
			first = fmt.Sprintf("ok-n1-exact%d-u%dx%d", 65525+r.Intn(11), worker, seq)
			forceEdns = true
		}
	} else {
		h := r.Intn(o.HotNames)
		first = fmt.Sprintf("%s-n%d-d%d-ttl%d-hot%d", kind, 1+h%30, (h*7)%(o.MaxDelayMs+1), 2+h%5, h)
		if h%4 == 3 {
			extra = fmt.Sprintf(".y\\%03d", 0xc1+h%26|r.Intn(2)<<5)
		}
	}
	name := first + extra + "." + up + ".test."
	if r.P(0.3) {
		name = c03RandCase(r, name)
	}
	qt := gen.Pick(r, stressTypes)
	qc := uint16(dns.ClassINET)
	if r.P(0.25) {
		qc = dns.ClassCHAOS
	}
	id := uint16(r.Intn(65536))
	wire := mkQuery(id, name, qt, qc, r.P(0.4) || forceEdns)
	if kind == "rd0" {
		wire[2] &^= 0x01
	}
	return &stressQ{wire: wire, q: dns.Question{Name: name, Qtype: qt, Qclass: qc}, tag: up, id: id, kind: kind}
}

func runStress(c *Ctx, o stressOpts) *stressResult {
	res := &stressResult{Cells: map[string]int64{}}
	b, err := NewBed(c, o.Name, o.Bed)
	if err != nil {
		res.StartErr = err
		if b != nil && b.Proxy != nil {
			res.Proc = b.Stop()
		}
		return res
	}
	ups := o.Bed.Upstreams
	if len(ups) == 0 {
		for _, u := range bedUpstreams {
			ups = append(ups, u.Tag)
		}
	}
	listeners := o.Bed.Listeners
	if len(listeners) == 0 {
		listeners = allListeners
	}
	var mu sync.Mutex
	viol := func(sig, what string, cs map[string]any) {
		mu.Lock()
		if len(res.Violations) < 30 {
			res.Violations = append(res.Violations, stressViolation{sig, what, cs})
		}
		mu.Unlock()
	}
	asked := &sync.Map{} // tag|lower(name)/type/class of every question any client sent
	res.asked = asked
	o.asked = asked
	serialSeen := sync.Map{} // tag/serial -> question string of first sighting
	judge := func(listener string, sq *stressQ, data []byte, tRecv int64) {
		atomic.AddInt64(&res.Answered, 1)
		m := new(dns.Msg)
		cs := map[string]any{"listener": listener, "query_hex": hex.EncodeToString(sq.wire), "response_hex": hex.EncodeToString(data), "upstream": sq.tag}
		if err := m.Unpack(data); err != nil {
			viol("undecodable-response:"+listener, fmt.Sprintf("response on %s does not decode: %v", listener, err), cs)
			return
		}
		if m.Id != sq.id || len(m.Question) != 1 || !strings.EqualFold(m.Question[0].Name, sq.q.Name) || m.Question[0].Qtype != sq.q.Qtype || m.Question[0].Qclass != sq.q.Qclass {
			viol("foreign-response:"+listener, fmt.Sprintf("%s: response id=%d question=%v for query id=%d %v", listener, m.Id, m.Question, sq.id, sq.q), cs)
			return
		}
		if m.Rcode == dns.RcodeServerFailure {
			atomic.AddInt64(&res.ServFail, 1)
			return
		}
		switch sq.kind {
		case "tc":
			// only reachable with a response that is not SERVFAIL
			viol("answer-after-failed-tcp-retry:"+listener, fmt.Sprintf("%s: the UDP reply to %s was truncated and the upstream's TCP side refuses connections, yet a response with rcode %d, tc=%v and %d answer records was returned", listener, sq.q.Name, m.Rcode, m.Truncated, len(m.Answer)), cs)
			return
		case "rd0":
			if m.Rcode != dns.RcodeNotImplemented || len(m.Answer)+len(m.Ns)+len(noOpt(m.Extra)) != 0 {
				viol("mixed-up-answer:"+listener, fmt.Sprintf("%s: NOTIMP without records expected for a query with RD=0, got rcode %d with %d/%d/%d records", listener, m.Rcode, len(m.Answer), len(m.Ns), len(m.Extra)), cs)
			}
			return
		case "half":
			// nothing decodable was sent for this query: whatever the response is made of, it is not
			// the upstream's answer to it
			viol("answer-from-cut-reply:"+listener, fmt.Sprintf("%s: the upstream's only reply to %s was a datagram cut in the middle, yet a response with rcode %d and %d/%d/%d records was returned (made of what the receive buffer held before)", listener, sq.q.Name, m.Rcode, len(m.Answer), len(m.Ns), len(m.Extra)), cs)
			return
		case "ok", "nx":
			serial, err := CheckKeyed(sq.q, sq.tag, m)
			if err != nil {
				viol("mixed-up-answer:"+listener, fmt.Sprintf("%s: %v", listener, err), cs)
				return
			}
			atomic.AddInt64(&res.Keyed, 1)
			key := fmt.Sprintf("%s/%d", sq.tag, serial)
			qs := fmt.Sprintf("%s/%d/%d", strings.ToLower(sq.q.Name), sq.q.Qtype, sq.q.Qclass)
			if prev, loaded := serialSeen.LoadOrStore(key, qs); loaded {
				atomic.AddInt64(&res.CacheHits, 1)
				if prev.(string) != qs {
					viol("serial-shared-between-questions", fmt.Sprintf("upstream reply %s shown for %s and for %s", key, prev, qs), cs)
				}
			}
		case "empty":
			if m.Rcode != 0 || len(m.Answer)+len(m.Ns)+len(noOpt(m.Extra)) != 0 {
				viol("mixed-up-answer:"+listener, fmt.Sprintf("%s: record-less NOERROR expected, got rcode %d with %d/%d/%d records", listener, m.Rcode, len(m.Answer), len(m.Ns), len(m.Extra)), cs)
			}
		case "rc9":
			if m.Rcode != 9 || len(m.Answer)+len(m.Ns)+len(noOpt(m.Extra)) != 0 {
				viol("mixed-up-answer:"+listener, fmt.Sprintf("%s: bare rcode 9 expected, got rcode %d with %d/%d/%d records", listener, m.Rcode, len(m.Answer), len(m.Ns), len(m.Extra)), cs)
			}
		}
		mu.Lock()
		res.Cells[listener+"/"+sq.tag]++
		if len(res.Samples) < 4 {
			res.Samples = append(res.Samples, map[string]any{"listener": listener, "question": sq.q.Name, "qtype": sq.q.Qtype, "upstream": sq.tag, "rcode": m.Rcode, "answers": len(m.Answer)})
		}
		mu.Unlock()
	}

	var wg sync.WaitGroup
	started := time.Now()
	if o.LateReplies > 0 {
		// replies that arrive after the 6 s request deadline, on the multiplexed and the one-at-a-time stream transports,
		// while the rest of the workload keeps those connections busy: whatever they carry must never
		// surface in anybody's answer
		for _, up := range ups {
			if up != "udp" && up != "pipe" && up != "dotp" && up != "tcp" && up != "dot" {
				// (tcp, dot: one query at a time per connection - a reply that comes after the transport's
				// own time-out must find its connection gone, not waiting in the pool for the next query)
				continue
			}
			for k := 0; k < o.LateReplies; k++ {
				wg.Add(1)
				go func(up string, k int) {
					defer wg.Done()
					name := fmt.Sprintf("ok-n3-d%d-late%dx%d.%s.test.", 6300+k*150, k, o.Seed, up)
					q := dns.Question{Name: name, Qtype: dns.TypeA, Qclass: dns.ClassINET}
					asked.Store(fmt.Sprintf("%s|%s/%d/%d", up, name, q.Qtype, q.Qclass), true)
					atomic.AddInt64(&res.Sent, 1)
					x := b.Exchange("tcp", mkQuery(uint16(9000+k), name, dns.TypeA, dns.ClassINET, false), xOpts{Timeout: 9 * time.Second})
					if x.Err == nil && len(x.Resp) > 0 {
						judge("tcp", &stressQ{wire: nil, q: q, tag: up, id: uint16(9000 + k), kind: "ok"}, x.Resp, x.TRecv)
					}
				}(up, k)
			}
		}
	}
	for _, listener := range listeners {
		for w := 0; w < o.Workers; w++ {
			wg.Add(1)
			go func(listener string, w int) {
				defer wg.Done()
				r := gen.New(o.Seed, "stress/"+o.Name+"/"+listener, w)
				stressWorker(b, listener, w, r, &o, ups, res, judge)
				for round := 1; time.Since(started) < o.MinDuration && b.Proxy.Alive(); round++ {
					r2 := gen.New(o.Seed, fmt.Sprintf("stress/%s/%s/extra%d", o.Name, listener, round), w)
					o2 := o
					o2.PerWorker = 40
					stressWorker(b, listener, w+1000*round, r2, &o2, ups, res, judge)
				}
			}(listener, w)
		}
	}
	wg.Wait()
	alive := b.Proxy.Alive()
	// join with the upstream logs: every serial shown to a client was issued for exactly that question
	upLogs := map[string]map[uint32]fakeup.QueryLog{}
	for tag, s := range b.Up {
		m := map[uint32]fakeup.QueryLog{}
		var last int64
		for _, ql := range s.Log() {
			res.UpstreamQueries++
			if ql.BadQuery != "" && !strings.HasPrefix(ql.BadQuery, "pack:") {
				viol("upstream-got-malformed-query", fmt.Sprintf("upstream %s received a query that is not a single well-formed question: %s", tag, ql.BadQuery), map[string]any{"upstream": tag, "raw_hex": hex.EncodeToString(ql.Raw)})
			} else if _, ok := asked.Load(fmt.Sprintf("%s|%s/%d/%d", tag, strings.ToLower(ql.Name), ql.Qtype, ql.Qclass)); !ok {
				viol("upstream-got-unasked-question", fmt.Sprintf("upstream %s received the question %s type %d class %d which no client asked (a recycled or corrupted question reached the wire)", tag, ql.Name, ql.Qtype, ql.Qclass), map[string]any{"upstream": tag, "name": ql.Name, "qtype": ql.Qtype, "qclass": ql.Qclass})
			}
			if ql.Serial != 0 {
				m[ql.Serial] = ql
			}
			if ql.TSend != 0 && ql.TSend < last {
				res.Reordered++
			}
			if ql.TSend > last {
				last = ql.TSend
			}
		}
		upLogs[tag] = m
	}
	serialSeen.Range(func(k, v any) bool {
		tag, ser, _ := strings.Cut(k.(string), "/")
		var n uint32
		fmt.Sscan(ser, &n)
		ql, ok := upLogs[tag][n]
		qs := fmt.Sprintf("%s/%d/%d", strings.ToLower(ql.Name), ql.Qtype, ql.Qclass)
		if !ok {
			viol("unknown-serial", fmt.Sprintf("a client saw reply %s which upstream %s never sent", k, tag), map[string]any{"serial": k})
		} else if qs != v.(string) {
			viol("serial-for-other-question", fmt.Sprintf("reply %s was produced for %s but shown for %s", k, qs, v), map[string]any{"serial": k})
		}
		return true
	})
	res.Proc = b.Stop()
	if !alive {
		viol("proxy-died", "the proxy process died during the workload: "+res.Proc.Panic, map[string]any{"panic": res.Proc.Panic})
	}
	return res
}

func stressWorker(b *Bed, listener string, w int, r *gen.R, o *stressOpts, ups []string, res *stressResult, judge func(string, *stressQ, []byte, int64)) {
	const window = 6 // pipelined queries in flight per stream connection / udp socket
	timeout := 9 * time.Second
	switch listener {
	case "udp":
		c, err := dnsclient.DialUDP("", b.L["udp"])
		if err != nil {
			return
		}
		defer c.Close()
		seen := 0
		pending := map[uint16]*stressQ{} // sent on this socket, not answered within the harness' wait
		for i := 0; i < o.PerWorker; i += window {
			var batch []*stressQ
			for k := 0; k < window && i+k < o.PerWorker; k++ {
				sq := stressMkQuery(r, o, ups, w, i+k)
				sq.id = uint16(i + k + 1) // unique per socket
				sq.wire[0], sq.wire[1] = byte(sq.id>>8), byte(sq.id)
				sq.tSend, _ = c.Send(sq.wire)
				atomic.AddInt64(&res.Sent, 1)
				batch = append(batch, sq)
			}
			dl := time.Now().Add(timeout)
			for time.Now().Before(dl) && len(c.Received())-seen < len(batch) {
				time.Sleep(time.Millisecond)
			}
			pk := c.Received()
			got := map[uint16]bool{}
			for _, p := range pk[seen:] {
				matched := false
				for _, sq := range batch {
					if len(p.Data) >= 2 && uint16(p.Data[0])<<8|uint16(p.Data[1]) == sq.id && !got[sq.id] {
						got[sq.id] = true
						matched = true
						judge(listener, sq, p.Data, p.T)
						break
					}
				}
				if !matched && len(p.Data) >= 2 {
					if old := pending[uint16(p.Data[0])<<8|uint16(p.Data[1])]; old != nil { // late, not foreign
						delete(pending, old.id)
						judge(listener, old, p.Data, p.T)
						atomic.AddInt64(&res.LateAnswers, 1)
						continue
					}
				}
				if !matched {
					judge(listener, &stressQ{q: dns.Question{Name: "<no matching query in flight>"}, id: 0xFFFF, wire: nil}, p.Data, p.T)
				}
			}
			for _, sq := range batch {
				if !got[sq.id] {
					pending[sq.id] = sq
				}
			}
			seen = len(pk)
			atomic.AddInt64(&res.Timeouts, int64(len(batch)-len(got)))
		}
	case "tcp", "gnet", "tls":
		var tc = b.ProxyTLS
		if listener != "tls" {
			tc = nil
		}
		var c *dnsclient.StreamClient
		seen := 0
		defer func() {
			if c != nil {
				c.Close()
			}
		}()
		silentBatches := 0
		pending := map[uint16]*stressQ{} // sent on the current connection, not answered within the harness' wait
		for i := 0; i < o.PerWorker; i += window {
			if silentBatches >= 3 { // three batches in a row without a single matching response: the 9 s waits add nothing
				break
			}
			if c == nil {
				var err error
				c, err = dnsclient.DialStream("", b.L[listener], tc)
				if err != nil {
					time.Sleep(20 * time.Millisecond)
					continue
				}
				seen = 0
				pending = map[uint16]*stressQ{}
			}
			var batch []*stressQ
			for k := 0; k < window && i+k < o.PerWorker; k++ {
				sq := stressMkQuery(r, o, ups, w, i+k)
				sq.id = uint16(i + k + 1)
				sq.wire[0], sq.wire[1] = byte(sq.id>>8), byte(sq.id)
				sq.tSend, _ = c.SendFrame(sq.wire)
				atomic.AddInt64(&res.Sent, 1)
				batch = append(batch, sq)
			}
			if r.P(o.Abandon) { // walk away mid-request
				time.Sleep(time.Duration(r.Intn(3000)) * time.Microsecond)
				c.Close()
				c = nil
				atomic.AddInt64(&res.Abandoned, int64(len(batch)))
				continue
			}
			c.WaitFrames(seen+len(batch), timeout)
			fr := c.Frames()
			got := map[uint16]bool{}
			for _, p := range fr[seen:] {
				matched := false
				for _, sq := range batch {
					if len(p.Data) >= 2 && uint16(p.Data[0])<<8|uint16(p.Data[1]) == sq.id && !got[sq.id] {
						got[sq.id] = true
						matched = true
						judge(listener, sq, p.Data, p.T)
						break
					}
				}
				if !matched && len(p.Data) >= 2 {
					// the answer to a query of an earlier batch on this connection that the harness had
					// stopped waiting for (the client kept its connection open; late is not foreign)
					if old := pending[uint16(p.Data[0])<<8|uint16(p.Data[1])]; old != nil {
						delete(pending, old.id)
						judge(listener, old, p.Data, p.T)
						atomic.AddInt64(&res.LateAnswers, 1)
						continue
					}
				}
				if !matched {
					judge(listener, &stressQ{q: dns.Question{Name: "<no matching query in flight>"}, id: 0xFFFF}, p.Data, p.T)
				}
			}
			for _, sq := range batch {
				if !got[sq.id] {
					pending[sq.id] = sq
				}
			}
			seen = len(fr)
			atomic.AddInt64(&res.Timeouts, int64(len(batch)-len(got)))
			if len(got) == 0 {
				silentBatches++
			} else {
				silentBatches = 0
			}
			if e, _, _ := c.State(); e != nil {
				c.Close()
				c = nil
			}
		}
	case "http", "fasthttp", "https":
		url, mode := "http://"+b.L[listener]+"/dns-query", "h1"
		tc := b.ProxyTLS
		if listener == "https" {
			url, mode = "https://"+b.L[listener]+"/dns-query", "h2"
		} else {
			tc = nil
		}
		hc := dnsclient.NewDoH(url, tc, mode, "")
		defer hc.Close()
		for i := 0; i < o.PerWorker; i++ {
			sq := stressMkQuery(r, o, ups, w, i)
			method := http.MethodPost
			if i%2 == 0 {
				method = http.MethodGet
			}
			atomic.AddInt64(&res.Sent, 1)
			hr := hc.Do(method, sq.wire, nil)
			if hr.Err != nil || hr.Status != 200 {
				atomic.AddInt64(&res.Timeouts, 1)
				continue
			}
			judge(listener, sq, hr.Body, hr.TRecv)
		}
	case "quic":
		c, err := dnsclient.DialDoQ("", b.L["quic"], b.ProxyTLS)
		if err != nil {
			return
		}
		defer c.Close()
		for i := 0; i < o.PerWorker; i += window {
			var wg sync.WaitGroup
			for k := 0; k < window && i+k < o.PerWorker; k++ {
				sq := stressMkQuery(r, o, ups, w, i+k)
				wg.Add(1)
				atomic.AddInt64(&res.Sent, 1)
				go func() {
					defer wg.Done()
					qr := c.Exchange(dnsclient.Frame(sq.wire), timeout)
					if len(qr.Frames) == 0 {
						atomic.AddInt64(&res.Timeouts, 1)
						return
					}
					for _, f := range qr.Frames {
						judge(listener, sq, f.Data, f.T)
					}
				}()
			}
			wg.Wait()
			if !c.Alive() {
				return
			}
		}
	}
}
