package main

// Shared event model for the cache properties (C07, C08, C19): RESP events at clients,
// FETCH events at the fake upstreams, joined by the reply serial embedded in keyed answers.

import (
	"fmt"
	"net/netip"
	"sort"
	"strings"
	"sync"
	"time"

	"github.com/IrineSistiana/mosproxy/verif/internal/fakeup"
	"github.com/miekg/dns"
)

type chResp struct {
	Listener string
	Client   string // client address as the proxy sees it ("" unknown)
	Group    string // reference group label
	Name     string // as sent
	Key      string // lower(name)/type/class
	Qtype    uint16
	Qclass   uint16
	TSend    int64
	TRecv    int64
	Rcode    int
	TC       bool
	Serial   uint32 // 0 = response carries no keyed meta record
	Msg      *dns.Msg
	Err      string
	Tag      string // label given by the scenario
}

type chFetch struct {
	Key     string
	Serial  uint32
	TRecv   int64 // query arrived at the upstream
	TSend   int64 // reply handed to the socket (0 = none)
	Rcode   int
	TC      bool
	Kind    string
	ConnEnd int64 // when the proxy closed the connection this query arrived on (0 = not closed)
}

type chHist struct {
	mu    sync.Mutex
	Resps []*chResp
}

func chKey(name string, qtype, qclass uint16) string {
	return fmt.Sprintf("%s/%d/%d", strings.ToLower(dns.Fqdn(name)), qtype, qclass)
}

func (h *chHist) add(r *chResp) {
	h.mu.Lock()
	h.Resps = append(h.Resps, r)
	h.mu.Unlock()
}

// chQuery sends one query and records the RESP event.
func (h *chHist) query(b *Bed, listener, localIP, hdrAddr, name string, qtype, qclass uint16, tag string, group string) *chResp {
	xo := xOpts{LocalIP: localIP, Timeout: 12 * time.Second}
	client := localIP
	if hdrAddr != "" {
		xo.Header = map[string]string{"X-Client-Addr": hdrAddr}
		client = hdrAddr
	}
	wire := mkQuery(uint16(time.Now().UnixNano()), name, qtype, qclass, false)
	x := b.Exchange(listener, wire, xo)
	r := &chResp{Listener: listener, Client: client, Group: group, Name: name, Key: chKey(name, qtype, qclass), Qtype: qtype, Qclass: qclass, TSend: x.TSend, TRecv: x.TRecv, Tag: tag}
	if x.Err != nil || len(x.Resp) == 0 {
		r.Err = fmt.Sprintf("no response: %v (status %d)", x.Err, x.Status)
		h.add(r)
		return r
	}
	m := new(dns.Msg)
	if err := m.Unpack(x.Resp); err != nil {
		r.Err = "undecodable: " + err.Error()
		h.add(r)
		return r
	}
	r.Msg, r.Rcode, r.TC = m, m.Rcode, m.Truncated
	if mt, ok := fakeup.FindMeta(m); ok {
		r.Serial = mt.Serial
	}
	h.add(r)
	return r
}

// fetchesOf collects FETCH events per key from the upstream log of tag.
func fetchesOf(b *Bed, tag string) map[string][]*chFetch {
	out := map[string][]*chFetch{}
	for _, ql := range b.Up[tag].Log() {
		if ql.BadQuery != "" {
			continue
		}
		k := chKey(ql.Name, ql.Qtype, ql.Qclass)
		out[k] = append(out[k], &chFetch{Key: k, Serial: ql.Serial, TRecv: ql.TRecv, TSend: ql.TSend, Rcode: ql.Rcode, TC: ql.TC, Kind: ql.Kind, ConnEnd: b.Up[tag].ConnEndedAt(ql.Conn)})
	}
	for _, fs := range out {
		sort.Slice(fs, func(i, j int) bool { return fs[i].TRecv < fs[j].TRecv })
	}
	return out
}

// triggered: did response r trigger fetch f on the request path?
// (r shows f's serial and was sent before the fetch reached the upstream)
func chTriggered(r *chResp, f *chFetch) bool {
	return r.Serial != 0 && r.Serial == f.Serial && r.TSend <= f.TRecv
}

// ---- reference group lookup (linear scan of the range file)

type chRange struct {
	Start, End netip.Addr
	Label      string
}

func chGroup(ranges []chRange, client string) string {
	a, err := netip.ParseAddr(client)
	if err != nil {
		return ""
	}
	a16 := netip.AddrFrom16(a.As16())
	for _, rg := range ranges {
		s, e := netip.AddrFrom16(rg.Start.As16()), netip.AddrFrom16(rg.End.As16())
		if s.Compare(a16) <= 0 && a16.Compare(e) <= 0 {
			return rg.Label
		}
	}
	return ""
}

func chRangeFile(ranges []chRange) string {
	var sb strings.Builder
	sb.WriteString("# start,end,label\n")
	for _, r := range ranges {
		fmt.Fprintf(&sb, "%s,%s,%s\n", r.Start, r.End, r.Label)
	}
	return sb.String()
}

// normalised comparison of two responses that show the same serial: equal apart from ID and TTLs
func chSameModuloTTL(a, b *dns.Msg) error {
	if a.Rcode != b.Rcode {
		return fmt.Errorf("rcode %d vs %d", a.Rcode, b.Rcode)
	}
	fa := fmt.Sprint(a.Authoritative, a.Truncated, a.RecursionDesired, a.RecursionAvailable, a.AuthenticatedData, a.CheckingDisabled, a.Opcode)
	fb := fmt.Sprint(b.Authoritative, b.Truncated, b.RecursionDesired, b.RecursionAvailable, b.AuthenticatedData, b.CheckingDisabled, b.Opcode)
	if fa != fb {
		return fmt.Errorf("flags %s vs %s", fa, fb)
	}
	if len(a.Question) != len(b.Question) {
		return fmt.Errorf("%d question(s) vs %d", len(a.Question), len(b.Question))
	}
	if err := sameRRs("answer", a.Answer, b.Answer, true); err != nil && !strings.Contains(err.Error(), "ttl") {
		return err
	}
	if err := sameRRs("authority", a.Ns, b.Ns, true); err != nil && !strings.Contains(err.Error(), "ttl") {
		return err
	}
	if err := sameRRs("additional", noOpt(a.Extra), noOpt(b.Extra), false); err != nil {
		return err
	}
	return nil
}
