package main

// Keep every third-party module the harness may use pinned in go.mod
// (all are dependencies of mosproxy itself or cached in the sandbox).
import (
	_ "github.com/anishathalye/porcupine"
	_ "github.com/klauspost/compress/s2"
	_ "github.com/miekg/dns"
	_ "github.com/quic-go/quic-go"
	_ "github.com/quic-go/quic-go/http3"
	_ "github.com/valyala/fasthttp"
	_ "golang.org/x/net/dns/dnsmessage"
	_ "golang.org/x/net/http2"
	_ "gopkg.in/yaml.v3"
)
