package main

import (
	"context"
	"encoding/binary"
	"fmt"
	"io"
	"net"
	"sync"
	"time"

	"github.com/IrineSistiana/mosproxy/internal/dnsmsg"
	"github.com/IrineSistiana/mosproxy/internal/upstream/transport"
	"github.com/IrineSistiana/mosproxy/verif/internal/gen"
	"github.com/IrineSistiana/mosproxy/verif/internal/scripted"
)

// c05Stall: a pipelined stream connection on which the server stalls in the middle of a reply
// frame for longer than the connection's idle timeout while a second exchange is waiting. The
// rest of that frame (TXT data of the genuine reply) holds, at the place where the stall
// happened, a well-formed length-prefixed DNS message with the wire id and question of the waiting
// exchange. The server never sent that as a reply. Whatever the transport does about the stall
// (fail, retry on a fresh connection, wait), no exchange may return those octets.
//
// Oracle (server side, no clock): every message an exchange returns carries a nonce the server
// issued for a reply frame it wrote for that question; the nonce inside the TXT data is not one.
func c05Stall(c *Ctx) {
	n := c.N(6, 48)
	parallelFor(n, 6, func() bool { return c.ViolationCount() >= 3 }, func(idx int) {
		r := gen.New(c.Seed, "c05stall", idx)
		// where the first write of the genuine frame ends, relative to the start of the embedded frame
		cutRel := gen.Pick(r, []int{0, 0, 0, -1, 1, 2})
		if idx == 0 {
			cutRel = 0
		}
		idle := time.Duration(r.Range(150, 300)) * time.Millisecond
		c05StallOne(c, idx, cutRel, idle)
	})
}

const c05ForgedNonce = 0xF00DF00DF00D

func c05StallOne(c *Ctx, idx, cutRel int, idle time.Duration) {
	l, err := net.Listen("tcp4", "127.0.0.1:0")
	if err != nil {
		c.Inconclusive("c05 stall: listen: " + err.Error())
		return
	}
	defer l.Close()

	var mu sync.Mutex
	issued := map[uint64]string{} // nonce -> question name it was issued for
	var nonceCtr uint64 = uint64(idx+1) << 20
	newNonce := func(name string) uint64 {
		mu.Lock()
		defer mu.Unlock()
		nonceCtr++
		issued[nonceCtr] = name
		return nonceCtr
	}
	var stalled, firstConnBoth bool
	var connN int

	frame := func(m []byte) []byte {
		return append(binary.BigEndian.AppendUint16(nil, uint16(len(m))), m...)
	}
	type rq struct {
		id   uint16
		name string
		q    []byte // question octets
	}
	serve := func(conn net.Conn, first bool) {
		defer conn.Close()
		var held []rq
		for {
			var h [2]byte
			if _, err := io.ReadFull(conn, h[:]); err != nil {
				return
			}
			m := make([]byte, binary.BigEndian.Uint16(h[:]))
			if _, err := io.ReadFull(conn, m); err != nil {
				return
			}
			id, name, _, _, qend, ok := scripted.ParseQuery(m)
			if !ok {
				continue
			}
			q := rq{id, name, append([]byte(nil), m[12:qend]...)}
			if !first {
				conn.Write(frame(scripted.BuildReply(q.id, q.q, newNonce(q.name), 'T', false)))
				continue
			}
			held = append(held, q)
			if len(held) < 2 {
				continue
			}
			if len(held) > 2 {
				conn.Write(frame(scripted.BuildReply(q.id, q.q, newNonce(q.name), 'T', false)))
				continue
			}
			a, b := held[0], held[1]
			mu.Lock()
			firstConnBoth = true
			mu.Unlock()
			// the embedded octets: what a reply to b would look like
			emb := frame(scripted.BuildReply(b.id, b.q, c05ForgedNonce, 'T', false))
			// the genuine reply to a: header, question, one TXT answer whose single character-string is emb,
			// then the genuine AAAA with the nonce
			gn := newNonce(a.name)
			full := scripted.BuildReply(a.id, a.q, gn, 'T', false)
			rep := append([]byte(nil), full[:12+len(a.q)]...)
			binary.BigEndian.PutUint16(rep[6:], 2)
			rep = append(rep, 0xc0, 12, 0, 16, 0, 1, 0, 0, 0, 60)
			rep = binary.BigEndian.AppendUint16(rep, uint16(1+len(emb)))
			rep = append(rep, byte(len(emb)))
			embAt := len(rep)
			rep = append(rep, emb...)
			rep = append(rep, full[12+len(a.q):]...)
			fr := frame(rep)
			cut := 2 + embAt + cutRel
			go func() {
				if _, err := conn.Write(fr[:cut]); err != nil {
					return
				}
				mu.Lock()
				stalled = true
				mu.Unlock()
				time.Sleep(3*idle + 100*time.Millisecond)
				if _, err := conn.Write(fr[cut:]); err != nil {
					return
				}
				time.Sleep(50 * time.Millisecond)
				conn.Write(frame(scripted.BuildReply(b.id, b.q, newNonce(b.name), 'T', false)))
			}()
		}
	}
	go func() {
		for {
			conn, err := l.Accept()
			if err != nil {
				return
			}
			mu.Lock()
			first := connN == 0
			connN++
			mu.Unlock()
			go serve(conn, first)
		}
	}()

	d := &net.Dialer{}
	addr := l.Addr().String()
	tr := transport.NewPipelineTransport(transport.PipelineOpts{
		DialContext: func(ctx context.Context) (net.Conn, error) {
			return d.DialContext(ctx, "tcp", addr)
		},
		IsTCP:              true,
		MaxConcurrentQuery: 8,
		IdleTimeout:        idle,
	})
	defer tr.Close()

	type res struct {
		name     string
		returned bool
		nonce    uint64
		hasNonce bool
		qname    string
		err      string
	}
	names := []string{fmt.Sprintf("stall-a-%d.vh.", idx), fmt.Sprintf("stall-b-%d.vh.", idx)}
	out := make([]res, len(names))
	var wg sync.WaitGroup
	for i, name := range names {
		wg.Add(1)
		go func(i int, name string) {
			defer wg.Done()
			time.Sleep(time.Duration(i) * 30 * time.Millisecond)
			ctx, cancel := context.WithTimeout(context.Background(), 4*idle+2*time.Second)
			defer cancel()
			m, err := tr.ExchangeContext(ctx, scripted.BuildQuery(uint16(0x1000+i), name, 28, 1))
			out[i] = res{name: name, err: upShort(err)}
			if m != nil {
				out[i].returned = true
				out[i].nonce, _, out[i].hasNonce = upNonce(m)
				out[i].qname, _, _, _ = upQuestion(m)
				dnsmsg.ReleaseMsg(m)
			}
		}(i, name)
	}
	wg.Wait()
	mu.Lock()
	defer mu.Unlock()
	c.Ev.Eval(len(out))
	if !firstConnBoth || !stalled {
		c.Ev.Count("stall_not_exercised(exchanges on different connections)", 1)
		return
	}
	c.Ev.Count("stall_mid_frame_cases", 1)
	c.Ev.Distinct("stall", cutRel)
	for _, o := range out {
		switch {
		case !o.returned:
			c.Ev.Count("stall_exchange_failed", 1)
		case o.hasNonce && o.nonce == c05ForgedNonce:
			c.Violation("smuggled-reply:mid-frame-stall", fmt.Sprintf("exchange for %q returned a message the server never sent as a reply: its octets are TXT data inside the reply to another question, written after the server stalled mid-frame for %v (idle timeout %v, cut %+d octets from the start of the embedded data)", o.name, 3*idle+100*time.Millisecond, idle, cutRel),
				map[string]any{"idx": idx, "cut_rel": cutRel, "idle_ms": idle.Milliseconds()})
		case !o.hasNonce || issued[o.nonce] != o.name || o.qname != o.name:
			c.Violation("foreign-reply:mid-frame-stall", fmt.Sprintf("exchange for %q returned a message (question %q, nonce %x issued for %q) that the server did not send as a reply to it", o.name, o.qname, o.nonce, issued[o.nonce]),
				map[string]any{"idx": idx, "cut_rel": cutRel, "idle_ms": idle.Milliseconds()})
		default:
			c.Ev.Count("stall_exchange_returned_genuine_reply", 1)
		}
	}
}
