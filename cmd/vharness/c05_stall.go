package main

import (
	"context"
	"encoding/binary"
	"fmt"
	"io"
	"net"
	"sync"
	"time"

	"github.com/IrineSistiana/mosproxy/internal/dnsmsg"
	"github.com/IrineSistiana/mosproxy/internal/upstream"
	"github.com/IrineSistiana/mosproxy/internal/upstream/transport"
	"github.com/IrineSistiana/mosproxy/verif/internal/gen"
	"github.com/IrineSistiana/mosproxy/verif/internal/scripted"
)

// c05Stall: a pipelined stream connection on which the server stalls in the middle of a reply
// frame for longer than the connection's idle timeout while a second exchange is waiting. The
// rest of that frame (TXT data of the genuine reply) holds, at the place where the stall
// happened, a well-formed length-prefixed DNS message with the wire id and question of the waiting
// exchange. The server never sent that as a reply. Whatever the transport does about the stall
// (fail, retry on a fresh connection, wait), no exchange may return those octets.
//
// Oracle (server side, no clock): every message an exchange returns carries a nonce the server
// issued for a reply frame it wrote for that question; the nonce inside the TXT data is not one.
func c05Stall(c *Ctx) {
	n := c.N(6, 48)
	parallelFor(n, 6, func() bool { return c.ViolationCount() >= 3 }, func(idx int) {
		r := gen.New(c.Seed, "c05stall", idx)
		// where the first write of the genuine frame ends, relative to the start of the embedded frame
		cutRel := gen.Pick(r, []int{0, 0, 0, -1, 1, 2})
		if idx == 0 {
			cutRel = 0
		}
		idle := time.Duration(r.Range(150, 300)) * time.Millisecond
		c05StallOne(c, idx, cutRel, idle)
	})
}

const c05ForgedNonce = 0xF00DF00DF00D

func c05StallOne(c *Ctx, idx, cutRel int, idle time.Duration) {
	l, err := net.Listen("tcp4", "127.0.0.1:0")
	if err != nil {
		c.Inconclusive("c05 stall: listen: " + err.Error())
		return
	}
	defer l.Close()

	var mu sync.Mutex
	issued := map[uint64]string{} // nonce -> question name it was issued for
	var nonceCtr uint64 = uint64(idx+1) << 20
	newNonce := func(name string) uint64 {
		mu.Lock()
		defer mu.Unlock()
		nonceCtr++
		issued[nonceCtr] = name
		return nonceCtr
	}
	var stalled, firstConnBoth bool
	var connN int

	frame := func(m []byte) []byte {
		return append(binary.BigEndian.AppendUint16(nil, uint16(len(m))), m...)
	}
	type rq struct {
		id   uint16
		name string
		q    []byte // question octets
	}
	serve := func(conn net.Conn, first bool) {
		defer conn.Close()
		var held []rq
		for {
			var h [2]byte
			if _, err := io.ReadFull(conn, h[:]); err != nil {
				return
			}
			m := make([]byte, binary.BigEndian.Uint16(h[:]))
			if _, err := io.ReadFull(conn, m); err != nil {
				return
			}
			id, name, _, _, qend, ok := scripted.ParseQuery(m)
			if !ok {
				continue
			}
			q := rq{id, name, append([]byte(nil), m[12:qend]...)}
			if !first {
				conn.Write(frame(scripted.BuildReply(q.id, q.q, newNonce(q.name), 'T', false)))
				continue
			}
			held = append(held, q)
			if len(held) < 2 {
				continue
			}
			if len(held) > 2 {
				conn.Write(frame(scripted.BuildReply(q.id, q.q, newNonce(q.name), 'T', false)))
				continue
			}
			a, b := held[0], held[1]
			mu.Lock()
			firstConnBoth = true
			mu.Unlock()
			// the embedded octets: what a reply to b would look like
			emb := frame(scripted.BuildReply(b.id, b.q, c05ForgedNonce, 'T', false))
			// the genuine reply to a: header, question, one TXT answer whose single character-string is emb,
			// then the genuine AAAA with the nonce
			gn := newNonce(a.name)
			full := scripted.BuildReply(a.id, a.q, gn, 'T', false)
			rep := append([]byte(nil), full[:12+len(a.q)]...)
			binary.BigEndian.PutUint16(rep[6:], 2)
			rep = append(rep, 0xc0, 12, 0, 16, 0, 1, 0, 0, 0, 60)
			rep = binary.BigEndian.AppendUint16(rep, uint16(1+len(emb)))
			rep = append(rep, byte(len(emb)))
			embAt := len(rep)
			rep = append(rep, emb...)
			rep = append(rep, full[12+len(a.q):]...)
			fr := frame(rep)
			cut := 2 + embAt + cutRel
			go func() {
				if _, err := conn.Write(fr[:cut]); err != nil {
					return
				}
				mu.Lock()
				stalled = true
				mu.Unlock()
				time.Sleep(3*idle + 100*time.Millisecond)
				if _, err := conn.Write(fr[cut:]); err != nil {
					return
				}
				time.Sleep(50 * time.Millisecond)
				conn.Write(frame(scripted.BuildReply(b.id, b.q, newNonce(b.name), 'T', false)))
			}()
		}
	}
	go func() {
		for {
			conn, err := l.Accept()
			if err != nil {
				return
			}
			mu.Lock()
			first := connN == 0
			connN++
			mu.Unlock()
			go serve(conn, first)
		}
	}()

	d := &net.Dialer{}
	addr := l.Addr().String()
	tr := transport.NewPipelineTransport(transport.PipelineOpts{
		DialContext: func(ctx context.Context) (net.Conn, error) {
			return d.DialContext(ctx, "tcp", addr)
		},
		IsTCP:              true,
		MaxConcurrentQuery: 8,
		IdleTimeout:        idle,
	})
	defer tr.Close()

	type res struct {
		name     string
		returned bool
		nonce    uint64
		hasNonce bool
		qname    string
		err      string
	}
	names := []string{fmt.Sprintf("stall-a-%d.vh.", idx), fmt.Sprintf("stall-b-%d.vh.", idx)}
	out := make([]res, len(names))
	var wg sync.WaitGroup
	for i, name := range names {
		wg.Add(1)
		go func(i int, name string) {
			defer wg.Done()
			time.Sleep(time.Duration(i) * 30 * time.Millisecond)
			ctx, cancel := context.WithTimeout(context.Background(), 4*idle+2*time.Second)
			defer cancel()
			m, err := tr.ExchangeContext(ctx, scripted.BuildQuery(uint16(0x1000+i), name, 28, 1))
			out[i] = res{name: name, err: upShort(err)}
			if m != nil {
				out[i].returned = true
				out[i].nonce, _, out[i].hasNonce = upNonce(m)
				out[i].qname, _, _, _ = upQuestion(m)
				dnsmsg.ReleaseMsg(m)
			}
		}(i, name)
	}
	wg.Wait()
	mu.Lock()
	defer mu.Unlock()
	c.Ev.Eval(len(out))
	if !firstConnBoth || !stalled {
		c.Ev.Count("stall_not_exercised(exchanges on different connections)", 1)
		return
	}
	c.Ev.Count("stall_mid_frame_cases", 1)
	c.Ev.Distinct("stall", cutRel)
	for _, o := range out {
		switch {
		case !o.returned:
			c.Ev.Count("stall_exchange_failed", 1)
		case o.hasNonce && o.nonce == c05ForgedNonce:
			c.Violation("smuggled-reply:mid-frame-stall", fmt.Sprintf("exchange for %q returned a message the server never sent as a reply: its octets are TXT data inside the reply to another question, written after the server stalled mid-frame for %v (idle timeout %v, cut %+d octets from the start of the embedded data)", o.name, 3*idle+100*time.Millisecond, idle, cutRel),
				map[string]any{"idx": idx, "cut_rel": cutRel, "idle_ms": idle.Milliseconds()})
		case !o.hasNonce || issued[o.nonce] != o.name || o.qname != o.name:
			c.Violation("foreign-reply:mid-frame-stall", fmt.Sprintf("exchange for %q returned a message (question %q, nonce %x issued for %q) that the server did not send as a reply to it", o.name, o.qname, o.nonce, issued[o.nonce]),
				map[string]any{"idx": idx, "cut_rel": cutRel, "idle_ms": idle.Milliseconds()})
		default:
			c.Ev.Count("stall_exchange_returned_genuine_reply", 1)
		}
	}
}

// c05Fallback: the shared UDP socket of a udp:// upstream (UDP with TCP retry) under concurrent
// callers, a third of whose replies are truncated while nothing accepts the TCP retry (refused,
// or accepted and reset). Whatever an exchange returns - C16 says what it may return - the message
// is the caller's own: it carries the caller's id and question and the nonce of a reply the server
// sent for that question, and it stays like that while the caller holds it (a message that the
// transport released as well is overwritten by the next reply read from the socket).
func c05Fallback(c *Ctx) {
	for variant := 0; variant < 2; variant++ {
		var l net.Listener
		var u *net.UDPConn
		var port int
		var err error
		if variant == 0 {
			// connection refused: the TCP twin of the port is bound and never listens (a closed listener's
			// port could be handed to somebody else meanwhile)
			var rp *scripted.RefusePort
			rp, u, port, err = scripted.RefuseTCPWithUDP()
			if err == nil {
				defer rp.Close()
			}
		} else {
			l, u, port, err = scripted.ListenTCPUDP()
		}
		if err != nil {
			c.Inconclusive("c05 fallback: listen: " + err.Error())
			return
		}
		u.SetReadBuffer(2 << 20)
		if variant == 0 {
		} else {
			go func() { // accepted, then reset
				for {
					cn, err := l.Accept()
					if err != nil {
						return
					}
					cn.(*net.TCPConn).SetLinger(0)
					cn.Close()
				}
			}()
		}
		srv := scripted.NewServer(func(q *scripted.Query) scripted.Action {
			if len(q.Name) > 2 && q.Name[:2] == "tc" {
				return scripted.Action{Tag: "udp-tc", TC: true, Leg: scripted.LegUDP}
			}
			return scripted.Action{Tag: "udp-ok", Leg: scripted.LegUDP}
		})
		srv.ServePacket(u)
		up, err := upstream.NewUpstream(fmt.Sprintf("udp://127.0.0.1:%d", port), upstream.Opt{})
		if err != nil {
			c.Inconclusive("c05 fallback: NewUpstream: " + err.Error())
			srv.Close()
			if l != nil {
				l.Close()
			}
			return
		}
		type held struct {
			name          string
			id, gotID     uint16
			qname, qname2 string
			nonce, nonce2 uint64
			gotID2        uint16
			tc            bool
		}
		var mu sync.Mutex
		var got []held
		var failed int
		var wg sync.WaitGroup
		per := c.N(60, 400)
		for g := 0; g < 8; g++ {
			wg.Add(1)
			go func(g int) {
				defer wg.Done()
				r := gen.New(c.Seed, fmt.Sprintf("c05fb/%d", variant), g)
				for k := 0; k < per; k++ {
					kind := "ok"
					if r.P(0.35) {
						kind = "tc"
					}
					name := fmt.Sprintf("%s-%d-%d-%d.vh.", kind, variant, g, k)
					id := uint16(r.Intn(65536))
					ctx, cancel := context.WithTimeout(context.Background(), 2*time.Second)
					m, err := up.ExchangeContext(ctx, scripted.BuildQuery(id, name, 28, 1))
					cancel()
					if m == nil || err != nil {
						mu.Lock()
						failed++
						mu.Unlock()
						if m != nil {
							dnsmsg.ReleaseMsg(m)
						}
						continue
					}
					// reading a message that somebody else resets at the same time may trip over a nil
					// record: that is an observation (the message changed), not a harness failure
					inspect := func() (mid uint16, qn string, nonce uint64) {
						defer func() {
							if recover() != nil {
								mid, qn, nonce = 0, "<message torn while read>", 0
							}
						}()
						mid = m.Header.ID
						nonce, _, _ = upNonce(m)
						qn, _, _, _ = upQuestion(m)
						return
					}
					h := held{name: name, id: id, tc: m.Header.Truncated}
					h.gotID, h.qname, h.nonce = inspect()
					time.Sleep(time.Duration(r.Range(100, 1500)) * time.Microsecond)
					h.gotID2, h.qname2, h.nonce2 = inspect()
					func() {
						defer func() { recover() }()
						dnsmsg.ReleaseMsg(m)
					}()
					mu.Lock()
					got = append(got, h)
					mu.Unlock()
				}
			}(g)
		}
		wg.Wait()
		time.Sleep(5 * time.Millisecond)
		snap := srv.Snapshot()
		up.Close()
		srv.Close()
		if l != nil {
			l.Close()
		}
		nonceFor := map[uint64]string{}
		for i := range snap.Replies {
			rp := &snap.Replies[i]
			if rp.Query >= 0 && rp.Query < len(snap.Queries) {
				nonceFor[rp.Nonce] = snap.Queries[rp.Query].Name
			}
		}
		vname := []string{"refused", "reset"}[variant]
		c.Ev.Eval(len(got) + failed)
		c.Ev.Count("fallback_exchanges_failed:"+vname, int64(failed))
		c.Ev.Count("fallback_exchanges_returned_a_message:"+vname, int64(len(got)))
		c.Ev.Distinct("fallback", vname, failed > 0, len(got) > 0)
		for _, h := range got {
			cs := map[string]any{"fn": "c05Fallback", "variant": vname, "name": h.name}
			switch {
			case h.gotID != h.id || h.qname != h.name || nonceFor[h.nonce] != h.name:
				c.Violation("fallback:returned-message-not-own-reply:"+vname, fmt.Sprintf("udp upstream whose TCP side is %s: the exchange for %q (id %d) returned a message with id %d, question %q and a nonce the server issued for %q (truncated flag %v)", vname, h.name, h.id, h.gotID, h.qname, nonceFor[h.nonce], h.tc), cs)
				return
			case h.gotID2 != h.gotID || h.qname2 != h.qname || h.nonce2 != h.nonce:
				c.Violation("fallback:returned-message-changed-while-held:"+vname, fmt.Sprintf("udp upstream whose TCP side is %s: the message returned for %q changed while the caller held it (id %d -> %d, question %q -> %q): it is owned by somebody else as well", vname, h.name, h.gotID, h.gotID2, h.qname, h.qname2), cs)
				return
			}
		}
	}
}
