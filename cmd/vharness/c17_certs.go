package main

func c17Certs(c *Ctx) {}
