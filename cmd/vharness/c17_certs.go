package main

// C17 (b) upstream certificate matrix and (c) client-certificate matrix, through the real
// binary and its configuration path. Both matrices are enumerated completely.

import (
	"crypto/tls"
	"fmt"
	"os"
	"path/filepath"
	"strings"
	"time"

	"github.com/IrineSistiana/mosproxy/verif/internal/dnsclient"
	"github.com/IrineSistiana/mosproxy/verif/internal/fakeup"
	"github.com/IrineSistiana/mosproxy/verif/internal/pki"
	"github.com/IrineSistiana/mosproxy/verif/internal/proxyproc"
	"github.com/miekg/dns"
)

func c17Certs(c *Ctx) {
	c17UpstreamCerts(c)
	c17ClientCerts(c)
}

func c17UpstreamCerts(c *Ctx) {
	dir := filepath.Join(c.Work, "certs")
	os.MkdirAll(dir, 0755)
	ca1, _ := pki.NewCA("verif-ca1")
	ca2, _ := pki.NewCA("verif-ca2")
	ca1Path := filepath.Join(dir, "ca1.pem")
	ca1.WriteFile(ca1Path)
	// the proxy's system trust store consists of ca2 alone (SSL_CERT_FILE / SSL_CERT_DIR): "system
	// roots" can then be told apart from "the configured ca" in both directions
	ca2Path := filepath.Join(dir, "system-roots.pem")
	ca2.WriteFile(ca2Path)
	emptyDir := filepath.Join(dir, "no-certs")
	os.MkdirAll(emptyDir, 0755)
	kinds := []struct{ scheme, transport string }{{"tls", "tls"}, {"tls+pipeline", "tls"}, {"https", "https"}, {"h3", "h3"}, {"quic", "quic"}}
	certs := []string{"valid", "wrong-name", "unknown-ca", "expired", "self-signed"}
	options := []string{"ca", "system-roots", "skip-verify"}
	// every server has its own host name (upstreams with identical tls settings but different URL
	// hosts must each present and verify their own name)
	mkLeaf := func(kind, host string) *pki.Leaf {
		var l *pki.Leaf
		switch kind {
		case "valid":
			l, _ = ca1.Leaf(pki.LeafOpt{Names: []string{host}})
		case "wrong-name":
			l, _ = ca1.Leaf(pki.LeafOpt{Names: []string{"other.test", "up0.test"}}) // also valid for the first server's name, not for this one
		case "unknown-ca":
			l, _ = ca2.Leaf(pki.LeafOpt{Names: []string{host}})
		case "expired":
			l, _ = ca1.Leaf(pki.LeafOpt{Names: []string{host}, Expired: true})
		case "self-signed":
			l, _ = ca1.Leaf(pki.LeafOpt{Names: []string{host}, SelfSigned: true})
		}
		return l
	}
	type cell struct {
		tag, scheme, cert, option string
		srv                       *fakeup.Server
		port, host                string
		want                      bool
	}
	var cells []*cell
	var servers []*fakeup.Server
	defer func() {
		for _, s := range servers {
			s.Close()
		}
	}()
	var y strings.Builder
	y.WriteString("upstreams:\n")
	var sets, rules strings.Builder
	sets.WriteString("domain_sets:\n")
	rules.WriteString("rules:\n")
	n := 0
	for _, k := range kinds {
		for _, ct := range certs {
			host := fmt.Sprintf("up%d.test", len(servers))
			leaf := mkLeaf(ct, host)
			s := fakeup.NewServer(fmt.Sprintf("srv-%s-%s", k.scheme, ct))
			cfg := &tls.Config{Certificates: []tls.Certificate{leaf.TLS}}
			var err error
			switch k.transport {
			case "tls":
				err = s.ListenTLS("127.0.0.1:0", cfg)
			case "https":
				err = s.ListenHTTPS("127.0.0.1:0", cfg)
			case "h3":
				err = s.ListenH3("127.0.0.1:0", cfg)
			case "quic":
				err = s.ListenQUIC("127.0.0.1:0", cfg)
			}
			if err != nil {
				c.Inconclusive("fake TLS server: " + err.Error())
				return
			}
			servers = append(servers, s)
			addr := s.Addr[k.transport]
			_, port, _ := strings.Cut(addr, ":")
			for _, op := range options {
				tag := fmt.Sprintf("c%d", n)
				n++
				cl := &cell{tag: tag, scheme: k.scheme, cert: ct, option: op, srv: s, port: port, host: host}
				cl.want = op == "skip-verify" || (op == "ca" && ct == "valid") || (op == "system-roots" && ct == "unknown-ca")
				cells = append(cells, cl)
				path := ""
				if k.transport == "https" || k.transport == "h3" {
					path = "/dns-query"
				}
				fmt.Fprintf(&y, "  - tag: %s\n    addr: \"%s://%s:%s%s\"\n    dial_addr: \"%s\"\n", tag, k.scheme, host, port, path, addr)
				switch op {
				case "ca":
					fmt.Fprintf(&y, "    tls:\n      ca: \"%s\"\n", ca1Path)
				case "skip-verify":
					y.WriteString("    tls:\n      insecure_skip_verify: true\n")
				}
				fp := filepath.Join(dir, "set_"+tag+".txt")
				os.WriteFile(fp, []byte("domain:"+tag+".test\n"), 0644)
				fmt.Fprintf(&sets, "  - tag: set_%s\n    files: [\"%s\"]\n", tag, fp)
				fmt.Fprintf(&rules, "  - domain: set_%s\n    forward: %s\n", tag, tag)
			}
		}
	}
	var p *proxyproc.Proxy
	var listen string
	for attempt := 0; ; attempt++ {
		ports, err := proxyproc.FreePorts("127.0.0.1", 1)
		if err != nil {
			c.Inconclusive("ports")
			return
		}
		listen = fmt.Sprintf("127.0.0.1:%d", ports[0])
		cfgText := y.String() + sets.String() + rules.String() + fmt.Sprintf("servers:\n  - protocol: tcp\n    listen: \"%s\"\n", listen)
		p, err = proxyproc.Start(proxyproc.Opts{Bin: proxyBin(), Dir: filepath.Join(dir, fmt.Sprintf("proxy%d", attempt)), YAML: cfgText, Env: map[string]string{"SSL_CERT_FILE": ca2Path, "SSL_CERT_DIR": emptyDir}})
		if err == nil {
			break
		}
		clash := p != nil && p.LogContains("address already in use")
		if p != nil {
			p.Stop()
		}
		if clash && attempt < 4 {
			continue
		}
		c.Violation("certs:proxy-start-failed", "the proxy did not start with the certificate matrix configuration: "+err.Error(), map[string]any{"err": err.Error()})
		return
	}
	defer func() {
		alive := p.Alive()
		res := p.Stop()
		if !alive {
			c.Violation("proxy-died", "the proxy died in the certificate matrix: "+res.Panic, map[string]any{"panic": res.Panic})
		}
	}()
	// Several passes, one after the other: in a later pass the cells that failed dial again, now
	// after other upstreams (same server name, different trust settings) have completed handshakes
	// with the same server, so state shared between upstreams (a TLS session cache, a connection
	// pool keyed too coarsely) has its chance to let an untrusted certificate through.
	reps := c.N(2, 4)
	all := make([]c17CertCell, len(cells))
	for i, cl := range cells {
		all[i] = c17CertCell{cl.tag, cl.scheme, cl.cert, cl.option, cl.srv, cl.port, cl.host, cl.want}
	}
	// Directed sequences first, strictly one query at a time: on each server the upstreams that
	// differ only in their trust settings take turns (ca, system-roots, skip-verify, system-roots,
	// ca), so every failing upstream dials directly after a differently configured one completed
	// a handshake with the very same server.
	seq := 0
	for base := 0; base+2 < len(all); base += 3 {
		for _, k := range []int{0, 1, 2, 1, 0} {
			c17CertQuery(c, all[base+k], 100000+seq, "sequence", listen)
			seq++
		}
	}
	for rep := 0; rep < reps; rep++ {
		parallelFor(len(all), 12, nil, func(k int) {
			c17CertQuery(c, all[k], rep*len(all)+k, fmt.Sprintf("pass%d", rep), listen)
		})
	}
	c.Ev.Set("certificate_matrix_cells", len(cells))
	c.Ev.Set("certificate_matrix_passes", reps)
	c.Ev.Set("certificate_sequence_queries", seq)
	c.Ev.Sample(map[string]any{"part": "certs", "cell": "quic/expired/ca", "expected": "SERVFAIL", "cells": len(cells)})
}

type c17CertCell struct {
	tag, scheme, cert, option string
	srv                       *fakeup.Server
	port, host                string
	want                      bool
}

func c17CertQuery(c *Ctx, cl c17CertCell, i int, rep string, listen string) {
	{
		name := fmt.Sprintf("ok-cert%d%s.%s.test.", i, rep, cl.tag)
		sc, err := dnsclient.DialStream("", listen, nil)
		if err != nil {
			c.Inconclusive("dial proxy: " + err.Error())
			return
		}
		defer sc.Close()
		sc.SendFrame(mkQuery(uint16(i), name, dns.TypeA, dns.ClassINET, false))
		c.Ev.Eval(1)
		cs := map[string]any{"scheme": cl.scheme, "server_certificate": cl.cert, "tls_option": cl.option, "expected_success": cl.want}
		cellName := cl.scheme + "/" + cl.cert + "/" + cl.option + " (" + rep + ")"
		if !sc.WaitFrames(1, 10*time.Second) {
			c.Inconclusive("no response for cell " + cellName)
			return
		}
		m := new(dns.Msg)
		if m.Unpack(sc.Frames()[0].Data) != nil {
			c.Inconclusive("undecodable response")
			return
		}
		got := m.Rcode == dns.RcodeSuccess
		if got {
			if _, err := CheckKeyed(dns.Question{Name: name, Qtype: dns.TypeA, Qclass: dns.ClassINET}, cl.srv.Tag, m); err != nil {
				c.Violation("certs:wrong-answer", cellName+": "+err.Error(), cs)
				return
			}
		}
		switch {
		case got && !cl.want:
			c.Violation("certs:accepted-bad-certificate:"+cl.cert+":"+cl.option, fmt.Sprintf("%s upstream with a %s server certificate and tls option %q: the exchange succeeded although the certificate must be rejected", cl.scheme, cl.cert, cl.option), cs)
		case !got && cl.want:
			c.Violation("certs:rejected-good-certificate:"+cl.cert+":"+cl.option, fmt.Sprintf("%s upstream with a %s server certificate and tls option %q: the exchange failed (rcode %d) although it must succeed", cl.scheme, cl.cert, cl.option, m.Rcode), cs)
		default:
			// SNI / Host seen by the server for successful exchanges
			if got {
				for _, ql := range cl.srv.Log() {
					if !strings.EqualFold(ql.Name, name) {
						continue
					}
					if ql.SNI != "" && ql.SNI != cl.host {
						c.Violation("certs:sni", fmt.Sprintf("%s: server name %q presented, the URL host is %s", cellName, ql.SNI, cl.host), cs)
					}
					if ql.Host != "" && ql.Host != cl.host+":"+cl.port {
						c.Violation("certs:http-host", fmt.Sprintf("%s: Host %q, the URL host is %s:%s", cellName, ql.Host, cl.host, cl.port), cs)
					}
				}
			}
			c.Ev.Distinct("certs", cl.scheme, cl.cert, cl.option, rep)
			c.Ev.Count(fmt.Sprintf("certs_success=%v", got), 1)
		}
	}
}

func c17ClientCerts(c *Ctx) {
	// "other-ca" is the one CA in the proxy's system trust store: a client certificate it signed is
	// publicly trusted but does not chain to the configured ca
	ca2, _ := pki.NewCA("other-ca")
	ca2Path := filepath.Join(c.Work, "mtls-system-roots.pem")
	ca2.WriteFile(ca2Path)
	emptyDir := filepath.Join(c.Work, "mtls-no-certs")
	os.MkdirAll(emptyDir, 0755)
	b, err := NewBed(c, "mtls", BedOpts{Upstreams: []string{"pipe"}, Listeners: []string{"tls", "https", "quic", "tcp"}, VerifyClientCert: true,
		Env: map[string]string{"SSL_CERT_FILE": ca2Path, "SSL_CERT_DIR": emptyDir}})
	if err != nil {
		c.startFailure(err, "c17-mtls")
		return
	}
	defer func() {
		alive := b.Proxy.Alive()
		res := b.Stop()
		if !alive {
			c.Violation("proxy-died", "the proxy died in the client certificate matrix: "+res.Panic, map[string]any{"panic": res.Panic})
		}
	}()
	mk := func(kind string) *tls.Config {
		cfg := b.ProxyTLS.Clone()
		var l *pki.Leaf
		switch kind {
		case "none":
			return cfg
		case "other-ca":
			l, _ = ca2.Leaf(pki.LeafOpt{Names: []string{"client"}, Client: true})
		case "self-signed":
			l, _ = b.CA.Leaf(pki.LeafOpt{Names: []string{"client"}, Client: true, SelfSigned: true})
		case "expired":
			l, _ = b.CA.Leaf(pki.LeafOpt{Names: []string{"client"}, Client: true, Expired: true})
		case "valid":
			l, _ = b.CA.Leaf(pki.LeafOpt{Names: []string{"client"}, Client: true})
		}
		cfg.Certificates = []tls.Certificate{l.TLS}
		return cfg
	}
	i := 0
	for rep := 0; rep < c.N(1, 4); rep++ {
		for _, listener := range []string{"tls", "https", "quic"} {
			for _, kind := range []string{"none", "other-ca", "self-signed", "expired", "valid"} {
				i++
				name := fmt.Sprintf("ok-mtls%d.pipe.test.", i)
				x := b.Exchange(listener, mkQuery(uint16(i), name, dns.TypeA, dns.ClassINET, false), xOpts{TLS: mk(kind), Timeout: 5 * time.Second})
				c.Ev.Eval(1)
				served := x.Err == nil && len(x.Resp) >= 12 && (x.Status == 0 || x.Status == 200)
				cs := map[string]any{"listener": listener, "client_certificate": kind, "served": served, "err": fmt.Sprint(x.Err)}
				switch {
				case served && kind != "valid":
					c.Violation("mtls:served-without-valid-client-cert:"+kind, fmt.Sprintf("%s listener with verify_client_cert: a client presenting %q received a DNS response", listener, kind), cs)
				case !served && kind == "valid":
					c.Violation("mtls:rejected-valid-client-cert", fmt.Sprintf("%s listener with verify_client_cert: a client with a valid certificate was not served: %v", listener, x.Err), cs)
				default:
					c.Ev.Distinct("mtls", listener, kind)
					c.Ev.Count(fmt.Sprintf("mtls_served=%v", served), 1)
				}
			}
		}
	}
	c.Ev.Sample(map[string]any{"part": "mtls", "cell": "https/expired", "expected": "handshake refused, no DNS response"})
	c17CrossListenerResumption(c, ca2, ca2Path)
	c17MissingCA(c)
	// ---- verify_client_cert without a configured ca: the system roots (here: "other-ca" alone) decide
	b2, err := NewBed(c, "mtls-sysroots", BedOpts{Upstreams: []string{"pipe"}, Listeners: []string{"tls", "https", "quic", "tcp"}, VerifyClientCert: true, NoClientCA: true,
		Env: map[string]string{"SSL_CERT_FILE": ca2Path, "SSL_CERT_DIR": emptyDir}})
	if err != nil {
		c.startFailure(err, "c17-mtls-sysroots")
		return
	}
	defer b2.Stop()
	mk2 := func(kind string) *tls.Config {
		cfg := b2.ProxyTLS.Clone()
		var l *pki.Leaf
		switch kind {
		case "none":
			return cfg
		case "system-ca":
			l, _ = ca2.Leaf(pki.LeafOpt{Names: []string{"client"}, Client: true})
		case "self-signed":
			l, _ = ca2.Leaf(pki.LeafOpt{Names: []string{"client"}, Client: true, SelfSigned: true})
		case "private-ca": // the CA that signed the proxy's own certificate; not a system root
			l, _ = b2.CA.Leaf(pki.LeafOpt{Names: []string{"client"}, Client: true})
		}
		cfg.Certificates = []tls.Certificate{l.TLS}
		return cfg
	}
	for _, listener := range []string{"tls", "https", "quic"} {
		for _, kind := range []string{"none", "self-signed", "private-ca", "system-ca"} {
			i++
			name := fmt.Sprintf("ok-mtls%d.pipe.test.", i)
			x := b2.Exchange(listener, mkQuery(uint16(i), name, dns.TypeA, dns.ClassINET, false), xOpts{TLS: mk2(kind), Timeout: 5 * time.Second})
			c.Ev.Eval(1)
			served := x.Err == nil && len(x.Resp) >= 12 && (x.Status == 0 || x.Status == 200)
			cs := map[string]any{"listener": listener, "client_certificate": kind, "served": served, "err": fmt.Sprint(x.Err), "configured_ca": "none (system roots)"}
			switch {
			case served && kind != "system-ca":
				c.Violation("mtls:served-without-valid-client-cert:no-ca:"+kind, fmt.Sprintf("%s listener with verify_client_cert and no ca (system roots decide): a client presenting %q received a DNS response", listener, kind), cs)
			case !served && kind == "system-ca":
				c.Violation("mtls:rejected-valid-client-cert:no-ca", fmt.Sprintf("%s listener with verify_client_cert and no ca: a client whose certificate chains to a system root was not served: %v", listener, x.Err), cs)
			default:
				c.Ev.Distinct("mtls-no-ca", listener, kind)
				c.Ev.Count(fmt.Sprintf("mtls_no_ca_served=%v", served), 1)
			}
		}
	}
}

// c17CrossListenerResumption: two DoT and two DoH listeners in one proxy whose client certificates
// must chain to different CAs. A client that holds a certificate of the first CA only is served by
// the first listener (and receives a TLS session ticket there); with the same client configuration
// and session cache - the ticket on offer - it then connects to the second listener, which must not
// serve it: what listener A verified says nothing about listener B's CA.
func c17CrossListenerResumption(c *Ctx, caB *pki.CA, caBPath string) {
	b, err := NewBed(c, "mtls-two-cas", BedOpts{Upstreams: []string{"pipe"}, Listeners: []string{"tls", "https", "tlsB", "httpsB", "tcp"}, VerifyClientCert: true, ClientCAB: caBPath})
	if err != nil {
		c.startFailure(err, "c17-mtls-two-cas")
		return
	}
	defer b.Stop()
	leafA, _ := b.CA.Leaf(pki.LeafOpt{Names: []string{"client"}, Client: true})
	leafB, _ := caB.Leaf(pki.LeafOpt{Names: []string{"client"}, Client: true})
	ask := func(kind string, cfg *tls.Config, id int) (served bool, resumed bool, err error) {
		q := mkQuery(uint16(id), fmt.Sprintf("ok-xl%d.pipe.test.", id), dns.TypeA, dns.ClassINET, false)
		if strings.HasPrefix(kind, "https") {
			hc := dnsclient.NewDoH("https://"+b.L[kind]+"/dns-query", cfg, "h2", "")
			defer hc.Close()
			res := hc.Do("POST", q, nil)
			return res.Err == nil && res.Status == 200 && len(res.Body) >= 12, false, res.Err
		}
		sc, err := dnsclient.DialStream("", b.L[kind], cfg)
		if err != nil {
			return false, false, err
		}
		defer sc.Close()
		sc.SendFrame(q)
		sc.WaitFrames(1, 3*time.Second)
		return len(sc.Frames()) == 1, false, nil
	}
	id := 0
	for rep := 0; rep < c.N(2, 6); rep++ {
		for _, pair := range [][2]string{{"tls", "tlsB"}, {"https", "httpsB"}, {"tlsB", "tls"}, {"httpsB", "https"}, {"tls", "httpsB"}} {
			for _, ver := range []uint16{tls.VersionTLS13, tls.VersionTLS12} {
				first, second := pair[0], pair[1]
				cfg := b.ProxyTLS.Clone()
				cfg.ClientSessionCache = tls.NewLRUClientSessionCache(8)
				cfg.MaxVersion = ver
				leaf, caName := leafA, "the first listener's CA"
				if strings.HasSuffix(first, "B") {
					leaf = leafB
				}
				cfg.Certificates = []tls.Certificate{leaf.TLS}
				id++
				ok1, _, err1 := ask(first, cfg, id)
				c.Ev.Eval(1)
				if !ok1 {
					c.Violation("mtls:rejected-valid-client-cert:two-cas", fmt.Sprintf("%s listener: a client with a certificate of that listener's CA was not served: %v", first, err1), map[string]any{"listener": first})
					return
				}
				// a second connection to the same listener: resumption as such is fine
				id++
				ask(first, cfg, id)
				id++
				ok2, _, _ := ask(second, cfg, id)
				c.Ev.Eval(1)
				vname := map[uint16]string{tls.VersionTLS13: "TLS 1.3", tls.VersionTLS12: "TLS 1.2"}[ver]
				if ok2 {
					c.Violation("mtls:served-without-valid-client-cert:ticket-of-another-listener", fmt.Sprintf("two listeners with verify_client_cert and different ca files: a client holding only a certificate of %s was served by the %s listener and then, offering the session ticket it got there (%s), also by the %s listener, whose ca its certificate does not chain to", caName, first, vname, second),
						map[string]any{"first": first, "second": second, "tls": vname})
					return
				}
				c.Ev.Distinct("mtls-two-cas", first, second, vname)
				c.Ev.Count("mtls_ticket_of_other_listener_refused", 1)
			}
		}
	}
}

// c17MissingCA: the `ca` file named in a tls section does not exist (volume not mounted, wrong
// path). The system trust store of the proxy holds another CA. An upstream whose certificate chains
// to that other CA, and a client with a certificate of it, must not be accepted in place of the
// configured one: either the proxy refuses to start, or the exchange / the handshake fails.
func c17MissingCA(c *Ctx) {
	sysCA, _ := pki.NewCA("system-root")
	dir := filepath.Join(c.Work, "missing-ca")
	os.MkdirAll(dir, 0755)
	sysPath := filepath.Join(dir, "system-roots.pem")
	sysCA.WriteFile(sysPath)
	emptyDir := filepath.Join(dir, "no-certs")
	os.MkdirAll(emptyDir, 0755)
	upLeaf, _ := sysCA.Leaf(pki.LeafOpt{Names: []string{upCertName}})
	srvLeaf, _ := sysCA.Leaf(pki.LeafOpt{Names: []string{proxyCertName}})
	certPath, keyPath := filepath.Join(dir, "srv.pem"), filepath.Join(dir, "srv.key")
	os.WriteFile(certPath, srvLeaf.CertPEM, 0600)
	os.WriteFile(keyPath, srvLeaf.KeyPEM, 0600)
	up := fakeup.NewServer("dot")
	defer up.Close()
	if err := up.ListenTLS("127.0.0.1:0", &tls.Config{Certificates: []tls.Certificate{upLeaf.TLS}}); err != nil {
		c.Inconclusive("missing-ca: fake upstream: " + err.Error())
		return
	}
	_, upPort, _ := strings.Cut(up.Addr["tls"], ":")
	for _, where := range []string{"upstream", "listener"} {
		ports, err := proxyproc.FreePorts("127.0.0.1", 3)
		if err != nil {
			c.Inconclusive("missing-ca: ports: " + err.Error())
			return
		}
		missing := filepath.Join(dir, "not-there", "ca.pem")
		upCA, lCA := "", ""
		if where == "upstream" {
			upCA = fmt.Sprintf("    tls:\n      ca: \"%s\"\n", missing)
		} else {
			// the upstream half is configured properly here; the listener verifies client certificates against a ca file that is not there
			upCA = fmt.Sprintf("    tls:\n      ca: \"%s\"\n", sysPath)
			lCA = fmt.Sprintf("      ca: \"%s\"\n      verify_client_cert: true\n", missing)
		}
		y := fmt.Sprintf("upstreams:\n  - tag: dot\n    addr: \"tls://%s:%s\"\n    dial_addr: \"127.0.0.1\"\n%s", upCertName, upPort, upCA) +
			"rules:\n  - forward: dot\n" +
			fmt.Sprintf("servers:\n  - tag: l_udp\n    protocol: udp\n    listen: \"127.0.0.1:%d\"\n  - tag: l_tls\n    protocol: tls\n    listen: \"127.0.0.1:%d\"\n    tls:\n      cert: \"%s\"\n      key: \"%s\"\n%s", ports[0], ports[1], certPath, keyPath, lCA) +
			fmt.Sprintf("metrics:\n  addr: \"127.0.0.1:%d\"\n", ports[2])
		c.Ev.Eval(1)
		cs := map[string]any{"where": where, "yaml": y}
		p, err := proxyproc.Start(proxyproc.Opts{Bin: proxyBin(), Dir: filepath.Join(dir, "proxy-"+where), YAML: y, ReadyWait: 15 * time.Second,
			Env: map[string]string{"SSL_CERT_FILE": sysPath, "SSL_CERT_DIR": emptyDir}})
		if err != nil {
			if p != nil {
				res := p.Stop()
				if res.Panic != "" {
					c.Violation("missing-ca:crash:"+where, "a tls section whose ca file does not exist ended in a crash: "+res.Panic, cs)
					continue
				}
			}
			c.Ev.Distinct("missing-ca", where, "refused-to-start")
			c.Ev.Count("missing_ca_configurations_refused_at_start", 1)
			continue
		}
		// it runs: nothing may be accepted on the strength of the system roots
		if where == "upstream" {
			uc, e := dnsclient.DialUDP("", fmt.Sprintf("127.0.0.1:%d", ports[0]))
			if e == nil {
				uc.Send(mkQuery(9, "ok-missingca.dot.test.", dns.TypeA, dns.ClassINET, false))
				dl := time.Now().Add(8 * time.Second)
				for time.Now().Before(dl) && len(uc.Received()) == 0 {
					time.Sleep(5 * time.Millisecond)
				}
				m := new(dns.Msg)
				if rc := uc.Received(); len(rc) > 0 && m.Unpack(rc[0].Data) == nil && m.Rcode == dns.RcodeSuccess && len(m.Answer) > 0 {
					c.Violation("certs:accepted-bad-certificate:ca-file-missing", "upstream tls.ca names a file that does not exist; the proxy started all the same and the exchange with a DoT server whose certificate chains to a CA of the system trust store (not to the configured one) succeeded", cs)
				} else {
					c.Ev.Distinct("missing-ca", where, "exchange-failed")
				}
				uc.Close()
			}
		} else {
			leaf, _ := sysCA.Leaf(pki.LeafOpt{Names: []string{"client"}, Client: true})
			cfg := &tls.Config{RootCAs: sysCA.Pool(), ServerName: proxyCertName, Certificates: []tls.Certificate{leaf.TLS}}
			sc, e := dnsclient.DialStream("", fmt.Sprintf("127.0.0.1:%d", ports[1]), cfg)
			served := false
			if e == nil {
				sc.SendFrame(mkQuery(9, "ok-missingca2.dot.test.", dns.TypeA, dns.ClassINET, false))
				served = sc.WaitFrames(1, 4*time.Second)
				sc.Close()
			}
			if served {
				c.Violation("mtls:served-without-valid-client-cert:ca-file-missing", "listener tls.ca (with verify_client_cert) names a file that does not exist; the proxy started all the same and served a client whose certificate chains to a CA of the system trust store", cs)
			} else {
				c.Ev.Distinct("missing-ca", where, "client-refused")
			}
		}
		p.Stop()
	}
}
