package main

// C18 — shutdown and failed start-up are orderly.
// (a) every upstream kind, Close raced against idle connections, in-flight exchanges and pending dials
//     (child process per cell, socket census through /proc/self/fd);
// (b) the router in-process (hook H4): full start / close / close again / addresses free again, and a
//     failing listener at every position;
// (c) the real binary: SIGTERM => exit 0, start-up failure => exit 1 with an error, never a crash.

import (
	"context"
	"crypto/tls"
	"fmt"
	"io"
	"net"
	"os"
	"os/exec"
	"path/filepath"
	"strconv"
	"strings"
	"sync"
	"sync/atomic"
	"syscall"
	"time"

	"github.com/IrineSistiana/mosproxy/app/router"
	"github.com/IrineSistiana/mosproxy/internal/dnsmsg"
	"github.com/IrineSistiana/mosproxy/internal/upstream"
	"github.com/IrineSistiana/mosproxy/internal/upstream/transport"
	"github.com/IrineSistiana/mosproxy/verif/internal/fakeup"
	"github.com/IrineSistiana/mosproxy/verif/internal/gen"
	"github.com/IrineSistiana/mosproxy/verif/internal/pki"
	"github.com/IrineSistiana/mosproxy/verif/internal/proxyproc"
	"github.com/IrineSistiana/mosproxy/verif/internal/racelog"
	"github.com/miekg/dns"
)

func init() {
	register(&Check{ID: "C18", Level: "fault_enumeration",
		Rule: "(a) upstream kinds {udp, tcp, tcp+pipeline, tls, tls+pipeline, http, https, h3, quic} x close race points {idle connection, in-flight exchanges (answered late and never answered), pending dial, never used; pipelined kinds: connection with all 65536 wire ids used and queries still in flight} each in its own child process with a socket census; (b) router start/close with all listener kinds and a failing listener (address in use, unreadable certificate, unknown protocol) at every position of 1-8 servers, directly after every listener kind, repeated in-process; close after the parent context was cancelled; (c) the binary under SIGTERM and with bad configurations; " +
			"one evaluation = one cell (child run); distinct non-trivial = distinct (part, kind, race point / failure kind, position) cells that completed",
		Run: runC18})
	children["c18up"] = c18UpstreamChild
	children["c18rt"] = c18RouterChild
}

var c18Kinds = []string{"udp", "tcp", "tcp+pipeline", "tls", "tls+pipeline", "http", "https", "h3", "quic"}
var c18Points = []string{"idle", "inflight", "pending-dial", "unused"}

// runChild runs `vharness child ...` under a watchdog; returns output and whether it ended normally.
func c18RunChild(c *Ctx, name string, watchdog int, args ...string) (out string, exit int, killed bool) {
	dir := filepath.Join(c.Work, strings.NewReplacer(":", "_", " ", "_", ",", "_").Replace(name)) // the path goes into GORACE, whose separators these are
	os.MkdirAll(dir, 0755)
	exe, _ := os.Executable()
	full := append([]string{"-s", "QUIT", strconv.Itoa(watchdog), exe, "child"}, args...)
	cmd := exec.Command("timeout", full...)
	cmd.Env = append(os.Environ(), "GORACE=halt_on_error=0 exitcode=0 log_path="+filepath.Join(dir, "race"), "MOSPROXY_JSONLOGGER=1",
		"VERIF_POINTS=fasthttp.serve=sleep(30ms,50.0%)", // hook H9: half of the fasthttp listeners start serving late, after whatever comes next in start-up

		"VERIF_POOL_LOG="+filepath.Join(dir, "pool.log"), "VERIF_HOOK_LOG="+filepath.Join(dir, "hook.log"), "C18_DIR="+dir)
	f, _ := os.Create(filepath.Join(dir, "out"))
	cmd.Stdout, cmd.Stderr = f, f
	err := cmd.Run()
	f.Close()
	b, _ := os.ReadFile(filepath.Join(dir, "out"))
	out = string(b)
	if err != nil {
		if ee, ok := err.(*exec.ExitError); ok {
			exit = ee.ExitCode()
		} else {
			exit = -1
		}
	}
	killed = exit == 124 || strings.Contains(out, "SIGQUIT: quit")
	// A data race on the closing path is a crash waiting to happen ("fatal error: concurrent map
	// iteration and map write" cannot be recovered): reports whose stacks go through a Close of the
	// code under test are appended to the child's output as violations.
	for key, rs := range racelog.Dedup(racelog.ParseFiles(filepath.Join(dir, "race.*"))) {
		txt := rs[0].Text
		if strings.Contains(txt, "github.com/IrineSistiana/mosproxy/") && (strings.Contains(txt, ".Close(") || strings.Contains(txt, ".close(") || strings.Contains(txt, ".closeImpl(")) {
			_ = key
			out += fmt.Sprintf("\nVIOL data-race-on-close-path:%s a data race whose stacks go through Close (%d reports): %s\n", c20ShortEntry(rs[0]), len(rs), strings.ReplaceAll(txt[:min(len(txt), 1200)], "\n", " | "))
		}
	}
	return
}

func c18Judge(c *Ctx, part, cell string, out string, exit int, killed bool, cs map[string]any) {
	c.Ev.Eval(1)
	// signature class: the cell without positions / counts (fail/<failure>/n5/pos4 -> fail/<failure>)
	class := cell
	if strings.HasPrefix(cell, "fail/") {
		class = strings.Join(strings.Split(cell, "/")[:2], "/")
	}
	cut := func(s string) string {
		if len(s) > 2500 {
			return s[:2500]
		}
		return s
	}
	crash := ""
	for _, mark := range []string{"panic:", "fatal error:", "stack overflow", "SIGSEGV"} {
		if i := strings.Index(out, mark); i >= 0 {
			crash = cut(out[i:])
			break
		}
	}
	switch {
	case killed:
		c.Violation(part+":hang:"+class, fmt.Sprintf("%s %s: did not finish (deadlock / hang), killed by the watchdog:\n%s", part, cell, cut(out)), cs)
		return
	case crash != "":
		c.Violation(part+":crash:"+class, fmt.Sprintf("%s %s: crashed: %s", part, cell, crash), cs)
		return
	}
	viol := false
	for _, l := range strings.Split(out, "\n") {
		if strings.HasPrefix(l, "VIOL ") {
			sig, text, _ := strings.Cut(l[5:], " ")
			c.Violation(part+":"+sig, fmt.Sprintf("%s %s: %s", part, cell, text), cs)
			viol = true
		} else if strings.HasPrefix(l, "COUNT ") {
			var k string
			var n int64
			if _, e := fmt.Sscanf(l, "COUNT %s %d", &k, &n); e == nil {
				c.Ev.Count(part+"_"+k, n)
			}
		} else if strings.HasPrefix(l, "INCONCLUSIVE ") {
			c.Inconclusive(part + " " + cell + ": " + l[13:])
			return
		}
	}
	if exit != 0 && !viol {
		c.Violation(part+":child-failed:"+class, fmt.Sprintf("%s %s: child exited with status %d:\n%s", part, cell, exit, cut(out)), cs)
		return
	}
	if !viol && !strings.Contains(out, "\nCOUNT ") && !strings.HasPrefix(out, "COUNT ") {
		// the child ended without reporting a single observation: nothing was checked
		c.Inconclusive(fmt.Sprintf("%s %s: child ended without any observation: %s", part, cell, cut(out)))
		return
	}
	if !viol {
		c.Ev.Distinct(part, cell)
	}
}

func runC18(c *Ctx) {
	reps := c.N(1, 6)
	// (a)
	type cell struct {
		kind, point string
		rep         int
	}
	var cells []cell
	for rep := 0; rep < reps; rep++ {
		for _, k := range c18Kinds {
			for _, p := range c18Points {
				cells = append(cells, cell{k, p, rep})
			}
		}
	}
	for rep := 0; rep < reps && rep < 2; rep++ {
		// long cells first so that they overlap with everything else
		cells = append([]cell{{"tcp+pipeline", "eol-inflight", rep}, {"tls+pipeline", "eol-inflight", rep}, {"tcp", "idle-timer-race", rep}, {"tls", "idle-timer-race", rep}, {"udp", "idle-timer-race", rep},
			{"tcp", "abandoned-dial", rep}, {"tls", "abandoned-dial", rep}, {"tls", "handshake-stall", rep}, {"tls+pipeline", "handshake-stall", rep},
			{"ctor-reuse", "late-dial", rep}, {"ctor-pipeline", "late-dial", rep}, {"ctor-reuse", "idle", rep}, {"ctor-pipeline", "inflight", rep}}, cells...)
	}
	parallelFor(len(cells), 12, nil, func(i int) {
		cl := cells[i]
		name := fmt.Sprintf("up-%s-%s-%d", strings.ReplaceAll(cl.kind, "+", "_"), cl.point, cl.rep)
		watchdog := 60
		if cl.point == "eol-inflight" {
			watchdog = 300
		}
		out, exit, killed := c18RunChild(c, name, watchdog, "c18up", cl.kind, cl.point, strconv.FormatInt(c.Seed+int64(cl.rep), 10))
		c18Judge(c, "upstream", cl.kind+"/"+cl.point, out, exit, killed, map[string]any{"kind": cl.kind, "point": cl.point, "seed": c.Seed + int64(cl.rep)})
	})
	// (b)
	type rcell struct {
		scen   string
		n, pos int
		fail   string
	}
	var rcells []rcell
	rcells = append(rcells, rcell{scen: "full"}, rcell{scen: "fullctx"})
	r := gen.New(c.Seed, "c18rt", 0)
	fails := []string{"addr-in-use", "bad-cert", "unknown-protocol"}
	for n := 1; n <= 8; n++ {
		for pos := 0; pos < n; pos++ {
			if c.Quick() && !(pos == 0 || pos == n-1 || r.P(0.25)) {
				continue
			}
			rcells = append(rcells, rcell{scen: "fail", n: n, pos: pos, fail: fails[(n+pos)%3]})
		}
	}
	// a failing server directly after every listener kind (the close then races with the start of
	// the previous server's accept loop)
	for ki, k := range c18ListenerKinds {
		rcells = append(rcells, rcell{scen: "failafter:" + k, n: 2, pos: 1, fail: fails[ki%3]})
	}
	// start-up errors that happen before any listener is started (and before the cache exists)
	for _, k := range c18EarlyKinds {
		rcells = append(rcells, rcell{scen: "early:" + k, fail: k})
	}
	for rep := 1; rep < reps; rep++ {
		rcells = append(rcells, rcell{scen: "full"}, rcell{scen: "fullctx"})
		for ki, k := range c18ListenerKinds {
			rcells = append(rcells, rcell{scen: "failafter:" + k, n: 2, pos: 1, fail: fails[(ki+rep)%3]})
		}
	}
	parallelFor(len(rcells), 8, nil, func(i int) {
		rc := rcells[i]
		name := fmt.Sprintf("rt-%s-%d-%d-%s-%d", rc.scen, rc.n, rc.pos, rc.fail, i)
		out, exit, killed := c18RunChild(c, name, 90, "c18rt", rc.scen, strconv.Itoa(rc.n), strconv.Itoa(rc.pos), rc.fail, strconv.FormatInt(c.Seed+int64(i), 10))
		cellName := rc.scen
		if strings.HasPrefix(rc.scen, "early:") {
			cellName = "fail-early/" + rc.fail
		} else if rc.scen == "fail" {
			cellName = fmt.Sprintf("fail/%s/n%d/pos%d", rc.fail, rc.n, rc.pos)
		} else if strings.HasPrefix(rc.scen, "failafter:") {
			cellName = fmt.Sprintf("fail/%s/after-%s", rc.fail, strings.TrimPrefix(rc.scen, "failafter:"))
		}
		c18Judge(c, "router", cellName, out, exit, killed, map[string]any{"scenario": rc.scen, "servers": rc.n, "failing_position": rc.pos, "failure": rc.fail})
	})
	// (c)
	c18Binary(c)
	c.Ev.Sample(map[string]any{"part": "upstream", "cell": "tls+pipeline/inflight", "what": "8 exchanges against a server that replies after 2 s, Close after 300 ms: exchanges must fail within 3 s, Close must return within 5 s, no socket left after 2 s"})
	c.Ev.Sample(map[string]any{"part": "router", "cell": "fail/addr-in-use/n5/pos4", "what": "5 servers, the 5th address is held by the harness: VerifRun must return an error and the first 4 addresses must be free again"})
}

// ---------------------------------------------------------------- socket census

func socketCount() int {
	ents, err := os.ReadDir("/proc/self/fd")
	if err != nil {
		return -1
	}
	n := 0
	for _, e := range ents {
		if l, err := os.Readlink("/proc/self/fd/" + e.Name()); err == nil && strings.HasPrefix(l, "socket:") {
			n++
		}
	}
	return n
}

func waitSockets(want int, grace time.Duration) int {
	dl := time.Now().Add(grace)
	for {
		n := socketCount()
		if n <= want || time.Now().After(dl) {
			return n
		}
		time.Sleep(50 * time.Millisecond)
	}
}

// ---------------------------------------------------------------- (a) upstream child

// vharness child c18up <kind> <point> <seed>
func c18UpstreamChild(args []string) int {
	kind, point := args[0], args[1]
	seed, _ := strconv.ParseInt(args[2], 10, 64)
	r := gen.New(seed, "c18up/"+kind+"/"+point, 0)
	ca, _ := pki.NewCA("c18")
	leaf, _ := ca.Leaf(pki.LeafOpt{Names: []string{"up.test", "127.0.0.1"}})
	stls := &tls.Config{Certificates: []tls.Certificate{leaf.TLS}}
	s := fakeup.NewServer("c18")
	var addr string
	var err error
	switch kind {
	case "udp":
		s.Close()
		s, err = listenBoth("c18")
		if err == nil {
			addr = "udp://" + s.Addr["udp"]
		}
	case "ctor-reuse", "ctor-pipeline": // transports built with their exported constructors and a DialContext of the harness
		err = s.ListenTCP("127.0.0.1:0")
	case "tcp", "tcp+pipeline":
		err = s.ListenTCP("127.0.0.1:0")
		addr = kind + "://" + s.Addr["tcp"]
	case "tls", "tls+pipeline":
		err = s.ListenTLS("127.0.0.1:0", stls)
		addr = kind + "://" + s.Addr["tls"]
	case "http":
		err = s.ListenHTTP("127.0.0.1:0")
		addr = "http://" + s.Addr["http"] + "/dns-query"
	case "https":
		err = s.ListenHTTPS("127.0.0.1:0", stls)
		addr = "https://" + s.Addr["https"] + "/dns-query"
	case "h3":
		err = s.ListenH3("127.0.0.1:0", stls)
		addr = "h3://" + s.Addr["h3"] + "/dns-query"
	case "quic":
		err = s.ListenQUIC("127.0.0.1:0", stls)
		addr = "quic://" + s.Addr["quic"]
	}
	if err != nil {
		fmt.Println("INCONCLUSIVE listen:", err)
		return 0
	}
	if point == "handshake-stall" {
		// a server that completes the TCP connection, reads whatever comes and never says anything:
		// the TLS handshake of the upstream stalls after its ClientHello
		bl, err := net.Listen("tcp4", "127.0.0.1:0")
		if err != nil {
			fmt.Println("INCONCLUSIVE listen:", err)
			return 0
		}
		go func() {
			for {
				cn, err := bl.Accept()
				if err != nil {
					return
				}
				go func() { io.Copy(io.Discard, cn); cn.Close() }()
			}
		}()
		addr = kind + "://" + bl.Addr().String()
	}
	time.Sleep(50 * time.Millisecond)
	base := socketCount()
	var dialGate atomic.Bool // when set, dials are held back in Control for a while
	var dials atomic.Int64
	opt := upstream.Opt{TLSConfig: &tls.Config{RootCAs: ca.Pool(), ServerName: "up.test"}, IdleTimeout: 20 * time.Second,
		Control: func(network, address string, c syscall.RawConn) error {
			dials.Add(1)
			if dialGate.Load() {
				time.Sleep(700 * time.Millisecond)
			}
			return nil
		}}
	var u upstream.Upstream
	if strings.HasPrefix(kind, "ctor-") {
		// a dialler that takes 400 ms and does not look at its context any more once it has started
		// (a connect that completes in the kernel although the caller has given up)
		dial := func(ctx context.Context) (net.Conn, error) {
			dials.Add(1)
			time.Sleep(400 * time.Millisecond)
			return net.Dial("tcp", s.Addr["tcp"])
		}
		if kind == "ctor-reuse" {
			u = transport.NewReuseConnTransport(transport.ReuseConnOpts{DialContext: dial, IdleTimeout: 20 * time.Second})
		} else {
			u = transport.NewPipelineTransport(transport.PipelineOpts{DialContext: dial, IsTCP: true, MaxConcurrentQuery: 64, IdleTimeout: 20 * time.Second})
		}
	} else {
		u, err = upstream.NewUpstream(addr, opt)
		if err != nil {
			fmt.Println("INCONCLUSIVE NewUpstream:", err)
			return 0
		}
	}
	exchange := func(name string, timeout time.Duration) (time.Duration, error) {
		ctx, cancel := context.WithTimeout(context.Background(), timeout)
		defer cancel()
		t0 := time.Now()
		m, err := u.ExchangeContext(ctx, mkQuery(uint16(r.Intn(65536)), name, dns.TypeA, dns.ClassINET, true))
		if err == nil {
			dnsmsg.ReleaseMsg(m)
		}
		return time.Since(t0), err
	}
	okN := 0
	var inflight sync.WaitGroup
	var slowReturns atomic.Int64
	var lateOK atomic.Int64
	switch point {
	case "unused":
	case "idle":
		for i := 0; i < 3; i++ {
			if _, err := exchange(fmt.Sprintf("ok-i%d.c18.test.", i), 5*time.Second); err == nil {
				okN++
			}
		}
		if okN == 0 {
			fmt.Println("INCONCLUSIVE no exchange succeeded before close")
			return 0
		}
	case "inflight":
		if _, err := exchange("ok-warm.c18.test.", 5*time.Second); err != nil {
			fmt.Println("INCONCLUSIVE warm-up exchange failed:", err)
			return 0
		}
		for i := 0; i < 8; i++ {
			inflight.Add(1)
			go func(i int) {
				defer inflight.Done()
				name := fmt.Sprintf("ok-d2000-f%d.c18.test.", i)
				if i%2 == 1 {
					name = fmt.Sprintf("silent-f%d.c18.test.", i) // never answered: only Close can end it early
				}
				d, err := exchange(name, 10*time.Second)
				if err == nil && d < 1900*time.Millisecond {
					lateOK.Add(1)
				}
				if d > 3300*time.Millisecond { // close happens at ~300 ms; the reply would come at 2 s; the deadline is 10 s
					slowReturns.Add(1)
					fmt.Printf("VIOL inflight-exchange-not-released:%s an exchange in flight during Close returned only after %v (err=%v); Close was called after 300 ms, the reply was due after 2 s, the deadline was 10 s\n", kind, d, err)
				}
			}(i)
		}
		time.Sleep(300 * time.Millisecond)
	case "late-dial":
		// Close while the only dial is in progress; the dial completes 200 ms after Close
		for i := 0; i < 3; i++ {
			inflight.Add(1)
			go func(i int) {
				defer inflight.Done()
				d, err := exchange(fmt.Sprintf("ok-ld%d.c18.test.", i), 8*time.Second)
				if d > 4*time.Second {
					fmt.Printf("VIOL pending-dial-exchange-not-released:%s an exchange waiting for a dial during Close returned only after %v\n", kind, d)
				} else if err == nil {
					fmt.Printf("VIOL exchange-completed-on-connection-dialled-after-close:%s an exchange that was waiting for its connection when Close() was called succeeded %v after it started, on a connection whose dial finished after Close()\n", kind, d)
				}
			}(i)
		}
		time.Sleep(200 * time.Millisecond)
	case "idle-timer-race":
		// Close while the idle timers of many pooled connections are firing: both sides walk the same
		// connections and the same pool; Close has to return, later exchanges have to fail promptly.
		u.Close()
		for round := 0; round < 6; round++ {
			opt2 := opt
			opt2.IdleTimeout = 150 * time.Millisecond
			u2, err := upstream.NewUpstream(addr, opt2)
			if err != nil {
				fmt.Println("INCONCLUSIVE NewUpstream:", err)
				return 0
			}
			var wg sync.WaitGroup
			var done atomic.Int64
			for i := 0; i < 60; i++ {
				wg.Add(1)
				go func(i int) {
					defer wg.Done()
					ctx, cancel := context.WithTimeout(context.Background(), 5*time.Second)
					defer cancel()
					m, err := u2.ExchangeContext(ctx, mkQuery(uint16(i), fmt.Sprintf("ok-d60-t%dr%d.c18.test.", i, round), dns.TypeA, dns.ClassINET, true))
					if err == nil {
						dnsmsg.ReleaseMsg(m)
						done.Add(1)
					}
				}(i)
			}
			wg.Wait()
			// the connections went idle within a few milliseconds of each other; their timers fire 150 ms later
			time.Sleep(time.Duration(140+round*4) * time.Millisecond)
			ret := make(chan struct{})
			go func() { u2.Close(); close(ret) }()
			select {
			case <-ret:
			case <-time.After(5 * time.Second):
				fmt.Printf("VIOL close-hangs:%s Close() of a %s upstream whose %d pooled connections were reaching their idle time-out has not returned after 5 s (round %d)\n", kind, kind, done.Load(), round)
				return 0
			}
			d, err := func() (time.Duration, error) {
				ctx, cancel := context.WithTimeout(context.Background(), 4*time.Second)
				defer cancel()
				t0 := time.Now()
				m, err := u2.ExchangeContext(ctx, mkQuery(9, "ok-after.c18.test.", dns.TypeA, dns.ClassINET, true))
				if err == nil {
					dnsmsg.ReleaseMsg(m)
				}
				return time.Since(t0), err
			}()
			if err == nil {
				fmt.Printf("VIOL exchange-after-close-succeeded:%s an exchange started after Close() succeeded\n", kind)
			} else if d > 3*time.Second {
				fmt.Printf("VIOL exchange-after-close-hangs:%s an exchange started after Close() returned only after %v (%v)\n", kind, d, err)
			}
			okN += int(done.Load())
		}
		if n := waitSockets(base, 4*time.Second); n > base {
			fmt.Printf("VIOL socket-left-open:%s:%s %d socket(s) more than before are still open 4 s after the last Close()\n", kind, point, n-base)
		}
		fmt.Printf("COUNT cells_done 1\nCOUNT exchanges_ok_before_close %d\n", okN)
		s.Close()
		return 0
	case "eol-inflight":
		// a pipelined connection that has used up its 65536 wire ids while its last queries are still
		// outstanding, and a transport that has moved on to a second connection: Close must still
		// reach the first one
		if _, err := exchange("ok-e0.c18.test.", 5*time.Second); err != nil {
			fmt.Println("INCONCLUSIVE exchange failed during the id run:", err)
			return 0
		}
		{
			var next, failed atomic.Int64
			next.Store(1)
			var wg sync.WaitGroup
			for w := 0; w < 8; w++ {
				wg.Add(1)
				go func() {
					defer wg.Done()
					for {
						i := next.Add(1) - 1
						if i >= 65536-6 {
							return
						}
						ctx, cancel := context.WithTimeout(context.Background(), 5*time.Second)
						m, err := u.ExchangeContext(ctx, mkQuery(uint16(i), fmt.Sprintf("ok-e%d.c18.test.", i), dns.TypeA, dns.ClassINET, true))
						cancel()
						if err != nil {
							failed.Add(1)
							return
						}
						dnsmsg.ReleaseMsg(m)
					}
				}()
			}
			wg.Wait()
			if failed.Load() > 0 {
				fmt.Println("INCONCLUSIVE exchange failed during the id run")
				return 0
			}
		}
		if dials.Load() != 1 {
			fmt.Printf("INCONCLUSIVE the id run used %d connections\n", dials.Load())
			return 0
		}
		for i := 0; i < 10; i++ {
			inflight.Add(1)
			go func(i int) {
				defer inflight.Done()
				name := fmt.Sprintf("ok-d2000-g%d.c18.test.", i)
				if i%2 == 0 {
					name = fmt.Sprintf("silent-g%d.c18.test.", i) // never answered
				}
				d, err := exchange(name, 10*time.Second)
				if d > 3300*time.Millisecond {
					fmt.Printf("VIOL inflight-exchange-not-released:%s an exchange in flight on an id-exhausted connection during Close returned only after %v (err=%v)\n", kind, d, err)
				}
			}(i)
		}
		time.Sleep(150 * time.Millisecond)
		for i := 0; i < 4; i++ {
			if _, err := exchange(fmt.Sprintf("ok-n%d.c18.test.", i), 5*time.Second); err == nil {
				okN++
			}
		}
		fmt.Printf("COUNT eol_connections_dialled %d\n", dials.Load())
		time.Sleep(100 * time.Millisecond)
	case "abandoned-dial":
		// the caller gives up (200 ms) while its dial is still under way (held for 700 ms); the dial
		// completes afterwards with nobody waiting for it. Whatever the transport does with that
		// connection, Close must find it.
		dialGate.Store(true)
		if d, err := exchange("ok-abandoned.c18.test.", 200*time.Millisecond); err == nil {
			fmt.Println("INCONCLUSIVE the exchange did not give up before its dial completed:", d)
			return 0
		}
		dialGate.Store(false)
		time.Sleep(900 * time.Millisecond) // the dial has completed by now
		fmt.Printf("COUNT abandoned_dials %d\n", dials.Load())
	case "handshake-stall":
		hsDone := make(chan time.Duration, 1)
		hsStart := time.Now()
		inflight.Add(1)
		go func() {
			defer inflight.Done()
			exchange("ok-stalled.c18.test.", 8*time.Second)
			hsDone <- time.Since(hsStart)
		}()
		time.Sleep(300 * time.Millisecond) // TCP connected, ClientHello sent, nothing comes back
		go func() {
			// judged relative to the Close below (which follows at once)
			tClose := time.Now()
			select {
			case <-hsDone:
				if d := time.Since(tClose); d > 1500*time.Millisecond {
					fmt.Printf("VIOL handshake-stall-exchange-not-released:%s an exchange whose TLS handshake was stalled returned only %v after Close()\n", kind, d)
				}
			case <-time.After(7 * time.Second):
				fmt.Printf("VIOL handshake-stall-exchange-not-released:%s an exchange whose TLS handshake was stalled had not returned 7 s after Close()\n", kind)
			}
			fmt.Println("COUNT handshake_stall_cells 1")
		}()
	case "pending-dial":
		dialGate.Store(true)
		for i := 0; i < 3; i++ {
			inflight.Add(1)
			go func(i int) {
				defer inflight.Done()
				d, _ := exchange(fmt.Sprintf("ok-p%d.c18.test.", i), 8*time.Second)
				if d > 4*time.Second {
					fmt.Printf("VIOL pending-dial-exchange-not-released:%s an exchange waiting for a dial during Close returned only after %v\n", kind, d)
				}
			}(i)
		}
		time.Sleep(200 * time.Millisecond) // the dial is now sleeping in Control
	}
	// Close, timed
	closeRet := make(chan time.Duration, 1)
	go func() {
		t0 := time.Now()
		u.Close()
		closeRet <- time.Since(t0)
	}()
	select {
	case d := <-closeRet:
		fmt.Printf("COUNT close_ms_%s %d\n", strings.ReplaceAll(kind, "+", "_"), d.Milliseconds())
	case <-time.After(5 * time.Second):
		fmt.Printf("VIOL close-hangs:%s Close() of a %s upstream (%s) has not returned after 5 s\n", kind, kind, point)
		return 0
	}
	// second Close
	closeRet2 := make(chan struct{})
	go func() { u.Close(); close(closeRet2) }()
	select {
	case <-closeRet2:
	case <-time.After(5 * time.Second):
		fmt.Printf("VIOL second-close-hangs:%s a second Close() has not returned after 5 s\n", kind)
		return 0
	}
	inflight.Wait()
	// exchange after close must fail, promptly
	d, err := exchange("ok-after.c18.test.", 4*time.Second)
	if err == nil {
		fmt.Printf("VIOL exchange-after-close-succeeded:%s an exchange started after Close() succeeded\n", kind)
	} else if d > 3*time.Second {
		fmt.Printf("VIOL exchange-after-close-hangs:%s an exchange started after Close() returned only after %v (%v)\n", kind, d, err)
	}
	// census: nothing of the upstream may stay open (the fake server closes its side when the peer does)
	n := waitSockets(base, 3*time.Second)
	if n > base {
		time.Sleep(2 * time.Second) // a late dial may still be completing
		n = waitSockets(base, 3*time.Second)
	}
	if n > base {
		fmt.Printf("VIOL socket-left-open:%s:%s %d socket(s) more than before the upstream was created are still open 5 s after Close() (server-side open connections: %d, dials: %d)\n", kind, point, n-base, s.OpenConns(), dials.Load())
	}
	fmt.Printf("COUNT cells_done 1\nCOUNT exchanges_ok_before_close %d\n", okN)
	s.Close()
	return 0
}

// ---------------------------------------------------------------- (b) router child

func c18FreePort() int {
	p, err := proxyproc.FreePorts("127.0.0.1", 1)
	if err != nil {
		return 0
	}
	return p[0]
}

var c18EarlyKinds = []string{"metrics-addr-in-use", "upstream-unknown-scheme", "upstream-unreadable-ca", "dup-upstream-tag", "dup-upstream-tag-quic", "dup-upstream-tag-h3", "missing-domain-file", "rule-unknown-upstream", "rule-unknown-domain-set", "cache-bad-ip-marker"}

var c18ListenerKinds = []string{"udp", "tcp", "gnet", "tls", "http", "fasthttp", "https", "quic"}

func bindable(kind, addr string) error {
	switch kind {
	case "udp", "quic":
		pc, err := net.ListenPacket("udp", addr)
		if err != nil {
			return err
		}
		pc.Close()
	default:
		l, err := net.Listen("tcp", addr)
		if err != nil {
			return err
		}
		l.Close()
	}
	return nil
}

func waitBindable(kind, addr string, grace time.Duration) error {
	dl := time.Now().Add(grace)
	for {
		err := bindable(kind, addr)
		if err == nil || time.Now().After(dl) {
			return err
		}
		time.Sleep(50 * time.Millisecond)
	}
}

// vharness child c18rt <full|fail> <n> <pos> <failure> <seed>
func c18RouterChild(args []string) int {
	scen := args[0]
	forcedFirst := ""
	if strings.HasPrefix(scen, "failafter:") {
		forcedFirst = strings.TrimPrefix(scen, "failafter:")
		scen = "fail"
	}
	// "fullctx": like "full", but the context the router was started with is cancelled first (the
	// shutdown path of the command's `case <-r.ctx.Done()` branch), then the router is closed
	parentCtx, parentCancel := context.WithCancel(context.Background())
	defer parentCancel()
	cancelFirst := scen == "fullctx"
	if cancelFirst {
		scen = "full"
	}
	n, _ := strconv.Atoi(args[1])
	pos, _ := strconv.Atoi(args[2])
	failure := args[3]
	seed, _ := strconv.ParseInt(args[4], 10, 64)
	r := gen.New(seed, "c18rt", 0)
	dir := os.Getenv("C18_DIR")
	ca, _ := pki.NewCA("c18")
	leaf, _ := ca.Leaf(pki.LeafOpt{Names: []string{"proxy.test", "127.0.0.1"}})
	certPath, keyPath, _ := leaf.WriteFiles(filepath.Join(dir, "proxy"))
	caPath := filepath.Join(dir, "ca.pem")
	ca.WriteFile(caPath)
	upLeaf, _ := ca.Leaf(pki.LeafOpt{Names: []string{"up.test", "127.0.0.1"}})
	stls := &tls.Config{Certificates: []tls.Certificate{upLeaf.TLS}}
	// fake upstreams of several kinds
	cfg := &router.Config{}
	var servers []*fakeup.Server
	addUp := func(tag, scheme, transport string) {
		s := fakeup.NewServer(tag)
		var err error
		switch transport {
		case "udp":
			s, err = listenBoth(tag)
		case "tcp":
			err = s.ListenTCP("127.0.0.1:0")
		case "tls":
			err = s.ListenTLS("127.0.0.1:0", stls)
		case "https":
			err = s.ListenHTTPS("127.0.0.1:0", stls)
		case "h3":
			err = s.ListenH3("127.0.0.1:0", stls)
		case "quic":
			err = s.ListenQUIC("127.0.0.1:0", stls)
		}
		if err != nil {
			return
		}
		servers = append(servers, s)
		a := s.Addr[transport]
		_, port, _ := strings.Cut(a, ":")
		uc := router.UpstreamConfig{Tag: tag}
		switch transport {
		case "udp", "tcp":
			uc.Addr = scheme + "://" + a
		default:
			path := ""
			if transport == "https" || transport == "h3" {
				path = "/dns-query"
			}
			uc.Addr = fmt.Sprintf("%s://up.test:%s%s", scheme, port, path)
			uc.DialAddr = a
			uc.Tls.CA = caPath
		}
		cfg.Upstreams = append(cfg.Upstreams, uc)
		setFile := filepath.Join(dir, "set_"+tag+".txt")
		os.WriteFile(setFile, []byte("domain:"+tag+".test\n"), 0644)
		cfg.DomainSets = append(cfg.DomainSets, router.DomainSetConfig{Tag: "set_" + tag, Files: []string{setFile}})
		cfg.Rules = append(cfg.Rules, router.RuleConfig{Domain: "set_" + tag, Forward: tag})
	}
	addUp("udp", "udp", "udp")
	addUp("pipe", "tcp+pipeline", "tcp")
	addUp("dot", "tls", "tls")
	addUp("dohs", "https", "https")
	addUp("h3", "h3", "h3")
	addUp("doq", "quic", "quic")
	cfg.Cache.MemSize = 1 << 20
	cfg.Limiter.Client.Limit = 100000
	type srv struct {
		kind, addr string
	}
	var srvs []srv
	var holders []interface{ Close() error }
	mk := func(kind string) router.ServerConfig {
		addr := fmt.Sprintf("127.0.0.1:%d", c18FreePort())
		sc := router.ServerConfig{Tag: "l_" + kind, Protocol: kind, Listen: addr}
		if kind == "tls" || kind == "https" || kind == "quic" {
			sc.Tls.Cert, sc.Tls.Key = certPath, keyPath
		}
		srvs = append(srvs, srv{kind, addr})
		return sc
	}
	var buildFail func() bool
	early := ""
	if strings.HasPrefix(scen, "early:") {
		early = strings.TrimPrefix(scen, "early:")
		scen = "fail"
		n, pos = 2, 2 // two healthy listeners; the failure is not one of them
		failure = early
	}
	if scen == "full" {
		for _, k := range c18ListenerKinds {
			cfg.Servers = append(cfg.Servers, mk(k))
		}
		cfg.Metrics.Addr = fmt.Sprintf("127.0.0.1:%d", c18FreePort())
	} else {
		// the kinds are fixed per cell; addresses (and what occupies them) are fresh in every round
		kinds := make([]string, n)
		for i := 0; i < n; i++ {
			kinds[i] = gen.Pick(r, c18ListenerKinds)
			if forcedFirst != "" && i == pos-1 {
				kinds[i] = forcedFirst
			}
			if i == pos && failure == "bad-cert" {
				kinds[i] = gen.Pick(r, []string{"tls", "https", "quic"})
			}
		}
		buildFail = func() bool {
			cfg.Servers, srvs, holders = nil, nil, nil
			for i, kind := range kinds {
				sc := mk(kind)
				if i == pos {
					switch failure {
					case "addr-in-use":
						if kind == "udp" || kind == "quic" {
							pc, err := net.ListenPacket("udp", sc.Listen)
							if err != nil {
								fmt.Println("INCONCLUSIVE could not occupy the address:", err)
								return false
							}
							holders = append(holders, pc)
						} else {
							l, err := net.Listen("tcp", sc.Listen)
							if err != nil {
								fmt.Println("INCONCLUSIVE could not occupy the address:", err)
								return false
							}
							holders = append(holders, l)
						}
					case "bad-cert":
						sc.Tls.Cert = filepath.Join(dir, "does-not-exist.crt")
					case "unknown-protocol":
						sc.Protocol = "carrier-pigeon"
					}
				}
				cfg.Servers = append(cfg.Servers, sc)
			}
			return true
		}
		if !buildFail() {
			return 0
		}
	}
	switch early {
	case "metrics-addr-in-use":
		l, err := net.Listen("tcp", "127.0.0.1:0")
		if err != nil {
			fmt.Println("INCONCLUSIVE could not occupy an address:", err)
			return 0
		}
		defer l.Close()
		cfg.Metrics.Addr = l.Addr().String()
	case "upstream-unknown-scheme":
		cfg.Upstreams = append(cfg.Upstreams, router.UpstreamConfig{Tag: "odd", Addr: "gopher://127.0.0.1:70"})
	case "upstream-unreadable-ca":
		uc := router.UpstreamConfig{Tag: "badca", Addr: "tls://127.0.0.1:853"}
		uc.Tls.CA = filepath.Join(dir, "no-such-ca.pem")
		cfg.Upstreams = append(cfg.Upstreams, uc)
	case "dup-upstream-tag":
		cfg.Upstreams = append(cfg.Upstreams, cfg.Upstreams[0])
	case "dup-upstream-tag-quic", "dup-upstream-tag-h3":
		// the upstream kinds that open a (UDP) socket as soon as they are built: whatever was built
		// before the duplicate was noticed has to be closed again
		uc := router.UpstreamConfig{Tag: "twice", Addr: "quic://127.0.0.1:8853"}
		if early == "dup-upstream-tag-h3" {
			uc.Addr = "h3://127.0.0.1:8443/dns-query"
		}
		cfg.Upstreams = append(cfg.Upstreams, uc, uc)
	case "missing-domain-file":
		cfg.DomainSets = append(cfg.DomainSets, router.DomainSetConfig{Tag: "ghost", Files: []string{filepath.Join(dir, "no-such-list.txt")}})
	case "rule-unknown-upstream":
		cfg.Rules = append(cfg.Rules, router.RuleConfig{Forward: "nobody"})
	case "rule-unknown-domain-set":
		cfg.Rules = append(cfg.Rules, router.RuleConfig{Domain: "no-such-set", Forward: cfg.Upstreams[0].Tag})
	case "cache-bad-ip-marker":
		cfg.Cache.IpMarker = filepath.Join(dir, "no-such-marker.txt")
	}
	type runRes struct {
		closeFn func()
		err     error
	}
	round := 0
again:
	time.Sleep(50 * time.Millisecond)
	base := socketCount()
	rc := make(chan runRes, 1)
	go func() {
		fn, err := router.VerifRun(parentCtx, cfg)
		rc <- runRes{fn, err}
	}()
	var rr runRes
	select {
	case rr = <-rc:
	case <-time.After(30 * time.Second):
		fmt.Println("VIOL start-hangs router start has not returned after 30 s")
		return 0
	}
	if scen == "fail" {
		if rr.err == nil {
			fmt.Printf("VIOL start-error-swallowed:%s starting %d servers with a failing server (%s) at position %d returned no error\n", failure, n, failure, pos)
			rr.closeFn()
			return 0
		}
		for i := 0; i < pos; i++ {
			if err := waitBindable(srvs[i].kind, srvs[i].addr, 3*time.Second); err != nil {
				fmt.Printf("VIOL listener-left-after-failed-start:%s server #%d (%s %s) is still bound 3 s after the failed start (failing server #%d: %s): %v\n", srvs[i].kind, i, srvs[i].kind, srvs[i].addr, pos, failure, err)
			}
		}
		for _, h := range holders {
			h.Close()
		}
		time.Sleep(100 * time.Millisecond)
		if nn := waitSockets(base-len(holders), 3*time.Second); nn > base-len(holders) {
			fmt.Printf("VIOL socket-left-after-failed-start %d socket(s) more than before the start are still open 3 s after the failed start\n", nn-(base-len(holders)))
		}
		fmt.Println("COUNT failed_starts_reported_as_error 1")
		// the same failing start again in this process (a close that races with a server's accept
		// loop may behave differently once everything is warm)
		if round++; round < 3 && buildFail() {
			goto again
		}
		return 0
	}
	if rr.err != nil {
		if strings.Contains(rr.err.Error(), "address already in use") {
			// a port the harness had found free was taken by a neighbouring cell before the router bound it
			fmt.Println("INCONCLUSIVE port clash in the harness:", rr.err)
			return 0
		}
		fmt.Println("VIOL good-config-rejected a valid configuration with all listener kinds did not start:", rr.err)
		return 0
	}
	// a few queries through the stream and datagram listeners
	answered := 0
	for i, sv := range srvs {
		if sv.kind != "udp" && sv.kind != "tcp" && sv.kind != "gnet" {
			continue
		}
		tags := []string{"udp", "pipe", "dot", "dohs", "h3", "doq"}
		for j, tag := range tags {
			q := mkQuery(uint16(i*10+j), fmt.Sprintf("ok-r%d%d.%s.test.", i, j, tag), dns.TypeA, dns.ClassINET, false)
			if c18Query(sv.kind, sv.addr, q) {
				answered++
			}
		}
	}
	fmt.Printf("COUNT queries_answered_before_close %d\n", answered)
	if cancelFirst {
		parentCancel()
		time.Sleep(100 * time.Millisecond)
		fmt.Println("COUNT parent_context_cancelled_before_close 1")
	}
	// a client of the metrics endpoint that is stuck in the middle of a request (header sent, the
	// announced body never comes): closing the router does not wait for it
	var mc net.Conn
	if cn, err := net.DialTimeout("tcp", cfg.Metrics.Addr, time.Second); err == nil {
		mc = cn
		mc.Write([]byte("POST /metrics HTTP/1.1\r\nHost: x\r\nContent-Length: 10\r\n\r\n"))
		time.Sleep(50 * time.Millisecond)
		fmt.Println("COUNT stalled_metrics_clients_at_close 1")
	}
	done := make(chan struct{})
	t0 := time.Now()
	go func() { rr.closeFn(); close(done) }()
	select {
	case <-done:
		fmt.Printf("COUNT router_close_ms %d\n", time.Since(t0).Milliseconds())
		if mc != nil {
			mc.Close() // (the harness's own socket must not show up in the census below)
		}
	case <-time.After(5 * time.Second):
		fmt.Println("VIOL router-close-hangs closing the router has not returned after 5 s")
		return 0
	}
	done2 := make(chan struct{})
	go func() { rr.closeFn(); close(done2) }()
	select {
	case <-done2:
	case <-time.After(5 * time.Second):
		fmt.Println("VIOL router-second-close-hangs a second close has not returned after 5 s")
		return 0
	}
	for i, sv := range srvs {
		if err := waitBindable(sv.kind, sv.addr, 3*time.Second); err != nil {
			fmt.Printf("VIOL listener-left-after-close:%s server #%d (%s %s) is still bound 3 s after close: %v\n", sv.kind, i, sv.kind, sv.addr, err)
		}
	}
	if err := waitBindable("tcp", cfg.Metrics.Addr, 3*time.Second); err != nil {
		fmt.Printf("VIOL listener-left-after-close:metrics the metrics endpoint is still bound 3 s after close: %v\n", err)
	}
	if nn := waitSockets(base, 4*time.Second); nn > base {
		fmt.Printf("VIOL socket-left-after-close %d socket(s) more than before the start are still open 4 s after close (upstream connections / listeners)\n", nn-base)
	}
	fmt.Println("COUNT full_cycles 1")
	for _, s := range servers {
		s.Close()
	}
	return 0
}

func c18Query(kind, addr string, q []byte) bool {
	switch kind {
	case "udp":
		c, err := net.Dial("udp", addr)
		if err != nil {
			return false
		}
		defer c.Close()
		c.Write(q)
		c.SetReadDeadline(time.Now().Add(3 * time.Second))
		b := make([]byte, 4096)
		n, err := c.Read(b)
		return err == nil && n >= 12
	default:
		c, err := net.DialTimeout("tcp", addr, 2*time.Second)
		if err != nil {
			return false
		}
		defer c.Close()
		f := make([]byte, 2+len(q))
		f[0], f[1] = byte(len(q)>>8), byte(len(q))
		copy(f[2:], q)
		c.Write(f)
		c.SetReadDeadline(time.Now().Add(3 * time.Second))
		b := make([]byte, 4096)
		n, err := c.Read(b)
		return err == nil && n >= 14
	}
}

// ---------------------------------------------------------------- (c) binary

func c18Binary(c *Ctx) {
	// healthy proxy with every upstream kind: SIGTERM => exit 0 within 5 s
	for rep := 0; rep < c.N(1, 4); rep++ {
		b, err := NewBed(c, fmt.Sprintf("bin%d", rep), BedOpts{MemSize: 1 << 20})
		c.Ev.Eval(1)
		if err != nil {
			c.startFailure(err, "c18-binary")
			continue
		}
		for i, l := range allListeners {
			b.Exchange(l, mkQuery(uint16(i), fmt.Sprintf("ok-s%d.%s.test.", i, bedUpstreams[i%len(bedUpstreams)].Tag), dns.TypeA, dns.ClassINET, false), xOpts{})
		}
		res := b.Stop()
		cs := map[string]any{"exit_code": res.ExitCode, "exit_after_ms": res.ExitAfter.Milliseconds(), "panic": res.Panic}
		switch {
		case res.Panic != "":
			c.Violation("binary:crash-on-shutdown", "SIGTERM on a healthy proxy with every upstream kind ended in a crash: "+res.Panic, cs)
		case res.KilledLate || res.ExitAfter > 5*time.Second:
			c.Violation("binary:shutdown-hangs", fmt.Sprintf("the proxy had not exited %v after SIGTERM", res.ExitAfter), cs)
		case res.ExitCode != 0:
			c.Violation("binary:shutdown-exit-status", fmt.Sprintf("exit status %d after SIGTERM", res.ExitCode), cs)
		default:
			c.Ev.Distinct("binary", "sigterm")
			c.Ev.Count("binary_sigterm_exit0", 1)
		}
	}
	// start-up failures through the CLI: exit status 1, "failed to start router", no crash
	for i, failure := range []string{"addr-in-use", "bad-cert", "unknown-protocol", "addr-in-use-udp"} {
		dir := filepath.Join(c.Work, "binfail"+strconv.Itoa(i))
		os.MkdirAll(dir, 0755)
		ports, err := proxyproc.FreePorts("127.0.0.1", 3)
		if err != nil {
			c.Inconclusive("ports")
			continue
		}
		var y strings.Builder
		y.WriteString("upstreams:\n  - tag: u\n    addr: \"udp://127.0.0.1:9\"\nrules:\n  - forward: u\nservers:\n")
		fmt.Fprintf(&y, "  - protocol: udp\n    listen: \"127.0.0.1:%d\"\n  - protocol: tcp\n    listen: \"127.0.0.1:%d\"\n", ports[0], ports[1])
		var hold interface{ Close() error }
		switch failure {
		case "addr-in-use":
			hold, _ = net.Listen("tcp", fmt.Sprintf("127.0.0.1:%d", ports[2]))
			fmt.Fprintf(&y, "  - protocol: tcp\n    listen: \"127.0.0.1:%d\"\n", ports[2])
		case "addr-in-use-udp":
			hold, _ = net.ListenPacket("udp", fmt.Sprintf("127.0.0.1:%d", ports[2]))
			fmt.Fprintf(&y, "  - protocol: udp\n    listen: \"127.0.0.1:%d\"\n", ports[2])
		case "bad-cert":
			fmt.Fprintf(&y, "  - protocol: tls\n    listen: \"127.0.0.1:%d\"\n    tls:\n      cert: \"/nonexistent.crt\"\n      key: \"/nonexistent.key\"\n", ports[2])
		case "unknown-protocol":
			fmt.Fprintf(&y, "  - protocol: smoke-signals\n    listen: \"127.0.0.1:%d\"\n", ports[2])
		}
		p, err := proxyproc.Start(proxyproc.Opts{Bin: proxyBin(), Dir: dir, YAML: y.String(), ReadyWait: 15 * time.Second})
		c.Ev.Eval(1)
		if hold != nil {
			defer hold.Close()
		}
		if p == nil {
			c.Inconclusive("could not launch the binary")
			continue
		}
		res := p.Stop()
		cs := map[string]any{"failure": failure, "yaml": y.String(), "exit_code": res.ExitCode, "panic": res.Panic}
		switch {
		case err == nil:
			c.Violation("binary:bad-start-accepted:"+failure, "a configuration whose last server cannot start ("+failure+") came up as if nothing happened", cs)
		case res.Panic != "":
			c.Violation("binary:crash-on-failed-start:"+failure, "start-up failure ("+failure+") surfaced as a crash instead of an error: "+res.Panic, cs)
		case res.ExitCode != 1 || !p.LogContains("failed to start router"):
			c.Violation("binary:failed-start-not-reported:"+failure, fmt.Sprintf("start-up failure (%s): exit status %d, 'failed to start router' logged: %v", failure, res.ExitCode, p.LogContains("failed to start router")), cs)
		default:
			c.Ev.Distinct("binary", "failed-start", failure)
			c.Ev.Count("binary_failed_start_reported", 1)
		}
	}
}
