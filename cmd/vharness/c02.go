package main

// C02 — the wire codec preserves message content.
// In-process differential monitor: reference model/encoder/decoder (internal/refmsg),
// miekg/dns and x/net dnsmessage against dnsmsg.UnpackMsg / Msg.Pack / Msg.Len.

import (
	"bytes"
	"encoding/hex"
	"encoding/json"
	"fmt"
	"reflect"
	"runtime/debug"
	"sort"
	"strings"
	"sync"

	"github.com/IrineSistiana/mosproxy/internal/dnsmsg"
	"github.com/IrineSistiana/mosproxy/internal/pool"
	"github.com/IrineSistiana/mosproxy/verif/internal/gen"
	"github.com/IrineSistiana/mosproxy/verif/internal/refmsg"
	"github.com/miekg/dns"
	"golang.org/x/net/dns/dnsmessage"
)

func init() {
	register(&Check{ID: "C02", Level: "exploration",
		Rule: "generated messages (all header flag combinations, 0-4 questions, 0-40 records of A/AAAA/NS/CNAME/PTR/MX/SOA/SRV/OPT/TXT/unknown types, hostile label octets, " +
			"label-boundary mimicry, shared suffixes, reference compression with pointer chains <= 8 and pointers into RDATA) encoded by the reference encoder; one message = one evaluation; " +
			"non-trivial = accepted by dnsmsg.UnpackMsg and holding at least one question or record; distinct by the reference wire bytes",
		Run: runC02})
}

// counterSet batches evidence counters (one lock per case instead of one per counter).
type counterSet struct {
	mu sync.Mutex
	m  map[string]int64
}

func (s *counterSet) merge(local map[string]int64) {
	s.mu.Lock()
	if s.m == nil {
		s.m = map[string]int64{}
	}
	for k, v := range local {
		s.m[k] += v
	}
	s.mu.Unlock()
}

func (s *counterSet) flush(c *Ctx) {
	s.mu.Lock()
	defer s.mu.Unlock()
	for k, v := range s.m {
		c.Ev.Count(k, v)
	}
	s.m = nil
}

func (s *counterSet) get(k string) int64 {
	s.mu.Lock()
	defer s.mu.Unlock()
	return s.m[k]
}

// record types in whose RDATA miekg/dns expands compression pointers although
// mosproxy (correctly, RFC 3597) carries them as opaque bytes: a pointer-looking
// octet pair in such RDATA means something else at a different message offset, so
// miekg's reading of them is not comparable between two encodings.
var miekgNameTypes = func() map[uint16]bool {
	out := map[uint16]bool{}
	var hasName func(rt reflect.Type) bool
	hasName = func(rt reflect.Type) bool {
		for i := 0; i < rt.NumField(); i++ {
			f := rt.Field(i)
			if f.Anonymous && f.Type.Kind() == reflect.Struct { // e.g. HTTPS embeds SVCB
				if hasName(f.Type) {
					return true
				}
				continue
			}
			if f.Name == "Hdr" {
				continue
			}
			tag := f.Tag.Get("dns")
			if strings.Contains(tag, "domain-name") || tag == "ipsechost" || tag == "amtrelayhost" {
				return true
			}
		}
		return false
	}
	for t, fn := range dns.TypeToRR {
		if hasName(reflect.TypeOf(fn()).Elem()) {
			out[t] = true
		}
	}
	for _, t := range []uint16{refmsg.TypeNS, refmsg.TypeCNAME, refmsg.TypePTR, refmsg.TypeMX, refmsg.TypeSOA, refmsg.TypeSRV} {
		delete(out, t)
	}
	return out
}()

func miekgComparable(m *refmsg.Msg) bool {
	for _, sec := range m.Sections() {
		for i := range sec {
			if miekgNameTypes[sec[i].Type] {
				return false
			}
		}
	}
	return true
}

func hasType(m *refmsg.Msg, typ uint16) bool {
	for _, sec := range m.Sections() {
		for i := range sec {
			if sec[i].Type == typ {
				return true
			}
		}
	}
	return false
}

// miekgDiff compares two decodings by the same decoder; "" when equal.
func miekgDiff(a, b *dns.Msg) string {
	ha, hb := a.MsgHdr, b.MsgHdr
	ha.Zero, hb.Zero = false, false // the reserved Z bit is not compared (see c02Check)
	if ha != hb {
		return fmt.Sprintf("header %+v != %+v", a.MsgHdr, b.MsgHdr)
	}
	if len(a.Question) != len(b.Question) {
		return fmt.Sprintf("%d questions != %d", len(a.Question), len(b.Question))
	}
	for i := range a.Question {
		if a.Question[i] != b.Question[i] {
			return fmt.Sprintf("question %d: %+v != %+v", i, a.Question[i], b.Question[i])
		}
	}
	sa := [3][]dns.RR{a.Answer, a.Ns, a.Extra}
	sb := [3][]dns.RR{b.Answer, b.Ns, b.Extra}
	for s := 0; s < 3; s++ {
		if len(sa[s]) != len(sb[s]) {
			return fmt.Sprintf("%d %s != %d", len(sa[s]), refmsg.SectionNames[s], len(sb[s]))
		}
		for i := range sa[s] {
			x, y := sa[s][i], sb[s][i]
			x.Header().Rdlength = 0 // differs legitimately with compression
			y.Header().Rdlength = 0
			if !reflect.DeepEqual(x, y) {
				return fmt.Sprintf("%s[%d]: %q != %q", refmsg.SectionNames[s], i, x.String(), y.String())
			}
		}
	}
	return ""
}

func xnetDiff(a, b *dnsmessage.Message) string {
	if a.Header != b.Header {
		return fmt.Sprintf("header %+v != %+v", a.Header, b.Header)
	}
	if len(a.Questions) != len(b.Questions) {
		return fmt.Sprintf("%d questions != %d", len(a.Questions), len(b.Questions))
	}
	for i := range a.Questions {
		if a.Questions[i] != b.Questions[i] {
			return fmt.Sprintf("question %d: %s != %s", i, a.Questions[i].GoString(), b.Questions[i].GoString())
		}
	}
	sa := [3][]dnsmessage.Resource{a.Answers, a.Authorities, a.Additionals}
	sb := [3][]dnsmessage.Resource{b.Answers, b.Authorities, b.Additionals}
	for s := 0; s < 3; s++ {
		if len(sa[s]) != len(sb[s]) {
			return fmt.Sprintf("%d %s != %d", len(sa[s]), refmsg.SectionNames[s], len(sb[s]))
		}
		for i := range sa[s] {
			x, y := sa[s][i], sb[s][i]
			x.Header.Length, y.Header.Length = 0, 0
			if x.Header != y.Header || !xnetBodyEqual(x.Body, y.Body) {
				return fmt.Sprintf("%s[%d]: %s != %s", refmsg.SectionNames[s], i, x.GoString(), y.GoString())
			}
		}
	}
	return ""
}

// xnetBodyEqual: reflect.DeepEqual semantics without walking the [255]byte name arrays byte by byte through reflection
func xnetBodyEqual(a, b dnsmessage.ResourceBody) bool {
	switch x := a.(type) {
	case *dnsmessage.AResource:
		y, ok := b.(*dnsmessage.AResource)
		return ok && *x == *y
	case *dnsmessage.AAAAResource:
		y, ok := b.(*dnsmessage.AAAAResource)
		return ok && *x == *y
	case *dnsmessage.NSResource:
		y, ok := b.(*dnsmessage.NSResource)
		return ok && *x == *y
	case *dnsmessage.CNAMEResource:
		y, ok := b.(*dnsmessage.CNAMEResource)
		return ok && *x == *y
	case *dnsmessage.PTRResource:
		y, ok := b.(*dnsmessage.PTRResource)
		return ok && *x == *y
	case *dnsmessage.MXResource:
		y, ok := b.(*dnsmessage.MXResource)
		return ok && *x == *y
	case *dnsmessage.SOAResource:
		y, ok := b.(*dnsmessage.SOAResource)
		return ok && *x == *y
	case *dnsmessage.SRVResource:
		y, ok := b.(*dnsmessage.SRVResource)
		return ok && *x == *y
	case *dnsmessage.UnknownResource:
		y, ok := b.(*dnsmessage.UnknownResource)
		return ok && x.Type == y.Type && bytes.Equal(x.Data, y.Data)
	}
	return reflect.DeepEqual(a, b) // TXT, OPT
}

// the race detector makes garbage collection cycles expensive; the codec checks allocate many
// short-lived small objects on a small live heap, so let the heap grow between cycles
func relaxGC() func() {
	old := debug.SetGCPercent(800)
	return func() { debug.SetGCPercent(old) }
}

type c02Case struct {
	Idx  int    `json:"idx"`
	W    string `json:"reference_wire_hex"`
	W0   string `json:"repacked_uncompressed_hex,omitempty"`
	W1   string `json:"repacked_compressed_hex,omitempty"`
	Note string `json:"note,omitempty"`
}

func c02GenOpts(r *gen.R) refmsg.GenOpts {
	o := refmsg.GenOpts{BigP: 0.01, OddAddrP: 0.004, ZBitP: 0.02, LadderP: 0.04}
	if r.P(0.03) {
		o.BigP = 0.5 // names first occurring beyond offset 0x3FFF
	}
	return o
}

func runC02(c *Ctx) {
	pool.VerifSetQuarantine(0)
	defer relaxGC()()
	if c.Replay != nil {
		var cs c02Case
		if err := json.Unmarshal(c.Replay.Case, &cs); err != nil {
			c.Inconclusive("bad replay case: " + err.Error())
			return
		}
		w, _ := hex.DecodeString(cs.W)
		m, err := refmsg.Decode(w)
		if err != nil {
			c.Inconclusive("replay wire is not reference-decodable: " + err.Error())
			return
		}
		var cnt counterSet
		c02Check(c, &cnt, cs.Idx, m, w)
		cnt.flush(c)
		c.Ev.Eval(1)
		return
	}
	n := c.N(30000, 1500000)
	var cnt counterSet
	var errMu sync.Mutex
	rejectErrs := map[string]int{}
	parallelFor(n, 0, func() bool { return c.ViolationCount() >= 20 }, func(idx int) {
		r := gen.New(c.Seed, "c02", idx)
		m, g := refmsg.Gen(r, c02GenOpts(r))
		if idx%100 == 3 {
			// directed: a name that first occurs right at the edge of what a 14-bit compression pointer
			// can address (0x3FFF / 0x4000) and is used again afterwards
			m = c02BoundaryMsg(r, 16376+(idx/100)%17)
			g = &refmsg.NameGen{}
		}
		pc := 0.7
		if r.P(0.15) {
			pc = 0
		}
		if idx%500 == 7 {
			// directed: a message that is a few kB on the wire thanks to name compression and 80-160 kB
			// without it - "no size limit" means exactly that
			m = c09HugeMsg(r)
			g = &refmsg.NameGen{}
			pc = 1
		}
		w, lay := refmsg.Encode(m, r, pc)
		local := map[string]int64{"generated": 1}
		if lay.Pointers > 0 {
			local["ref_wire_with_pointers"] = 1
		}
		if lay.RDataPtrs > 0 {
			local["ref_wire_pointer_into_rdata"] = 1
		}
		local[fmt.Sprintf("ref_wire_max_chain_%d", lay.MaxChain)] = 1
		if g.Mimic > 0 {
			local["with_boundary_mimicry_names"] = 1
		}
		if g.Ladder {
			local["with_ladder_names"] = 1
		}
		if len(w) > 0x3FFF {
			local["ref_wire_beyond_0x3fff"] = 1
		}
		cnt.merge(local)
		// harness self-check: the reference decoder must return M from W
		if d, err := refmsg.Decode(w); err != nil {
			c.Inconclusive(fmt.Sprintf("harness self-check: reference decoder rejects reference wire (idx %d): %v", idx, err))
			return
		} else if f, det := refmsg.Diff(m, d, 0xFFFF); f != "" {
			c.Inconclusive(fmt.Sprintf("harness self-check: reference codec round trip differs (idx %d): %s %s", idx, f, det))
			return
		}
		if rej := c02Check(c, &cnt, idx, m, w); rej != "" {
			errMu.Lock()
			rejectErrs[rej]++
			errMu.Unlock()
		}
		// Rejected messages in between: the decoder's error paths give back what they took from the
		// pools; if one gives something back twice, two names of later accepted messages share an
		// array (the pool sanitizer reports the second release, judged after the run).
		if idx%4 == 1 && len(w) > 14 {
			for k := 0; k < 2; k++ {
				bad := append([]byte{}, w...)
				if k == 0 {
					bad = bad[:12+r.Intn(len(bad)-12)]
				} else {
					bad[len(bad)-1-r.Intn(len(bad)/3+1)] ^= byte(1 + r.Intn(255))
				}
				if pm, err := dnsmsg.UnpackMsg(bad); err == nil {
					dnsmsg.ReleaseMsg(pm)
					cnt.merge(map[string]int64{"damaged_variants_still_accepted": 1})
				} else {
					cnt.merge(map[string]int64{"damaged_variants_rejected": 1})
				}
			}
		}
		if idx < 4 {
			c.Ev.Sample(map[string]any{"idx": idx, "reference_wire_hex": hex.EncodeToString(w[:min(len(w), 160)]), "wire_len": len(w), "questions": len(m.Questions), "records": m.NumRecords(), "pointers": lay.Pointers})
		}
	})
	c.Ev.Eval(int(cnt.get("generated")))
	cnt.flush(c)
	for _, rp := range pool.VerifTakeReports() {
		c.Violation("pool-report:"+rp.Kind+"@"+c01decTopSite(rp.Site), fmt.Sprintf("pool sanitizer: %s at %s while accepted and rejected messages were decoded in turn: a buffer handed out twice lets one accepted message's names overwrite another's", rp.Kind, rp.Site), map[string]any{"report": rp})
	}
	keys := []string{}
	for k := range rejectErrs {
		keys = append(keys, k)
	}
	sort.Strings(keys)
	rej := map[string]int{}
	for _, k := range keys {
		rej[k] = rejectErrs[k]
	}
	c.Ev.Set("mosproxy_rejections_by_error", rej)
	// a run that mostly saw rejected messages did not observe the property
	acc, gen_ := c.Ev.Counter("accepted"), c.Ev.Counter("generated")
	if gen_ > 0 && acc*10 < gen_*9 {
		c.Inconclusive(fmt.Sprintf("only %d of %d reference-valid messages were accepted by dnsmsg.UnpackMsg", acc, gen_))
	}
}

// why may mosproxy legitimately refuse this reference-valid message?
func c02ExpectedReject(m *refmsg.Msg) string {
	for _, sec := range m.Sections() {
		for i := range sec {
			rr := &sec[i]
			if rr.Type == refmsg.TypeA && rr.RDataLen() != 4 || rr.Type == refmsg.TypeAAAA && rr.RDataLen() != 16 {
				return "address_rdlength"
			}
		}
	}
	return ""
}

// c02Check evaluates one message. It returns mosproxy's error string when the message was rejected.
func c02Check(c *Ctx, cnt *counterSet, idx int, m *refmsg.Msg, w []byte) (rejected string) {
	local := map[string]int64{}
	defer func() { cnt.merge(local) }()

	viol := func(sig, what string, w0, w1 []byte) {
		if c.Seen(sig) {
			return
		}
		c.Violation(sig, what, c02Case{Idx: idx, W: hex.EncodeToString(w), W0: hex.EncodeToString(w0), W1: hex.EncodeToString(w1)})
	}

	pm, err := dnsmsg.UnpackMsg(w)
	if err != nil {
		if why := c02ExpectedReject(m); why != "" {
			local["rejected_expected:"+why]++
		} else {
			local["rejected_unexplained"]++
			if local["rejected_unexplained"] == 1 {
				c.Ev.Sample(map[string]any{"rejected_reference_valid_message_hex": hex.EncodeToString(w[:min(len(w), 300)]), "error": err.Error()})
			}
		}
		return err.Error()
	}
	defer dnsmsg.ReleaseMsg(pm)
	local["accepted"]++
	if len(m.Questions)+m.NumRecords() > 0 {
		c.Ev.DistinctBytes(w)
	}

	L := pm.Len()
	pack := func(x *dnsmsg.Msg, compress bool) ([]byte, error) {
		b := make([]byte, x.Len())
		n, err := x.Pack(b, compress, 0)
		if err != nil {
			return nil, err
		}
		return b[:n], nil
	}
	w0, err := pack(pm, false)
	if err != nil {
		viol("pack-error:uncompressed", fmt.Sprintf("Pack(compress=false,size=0) of an accepted message failed: %v", err), nil, nil)
		return
	}
	w1, err := pack(pm, true)
	if err != nil {
		viol("pack-error:compressed", fmt.Sprintf("Pack(compress=true,size=0) of an accepted message failed: %v", err), w0, nil)
		return
	}
	if len(w0) != L {
		viol("len:uncompressed-ne-Len", fmt.Sprintf("uncompressed encoding has %d octets, Len() says %d", len(w0), L), w0, w1)
	}
	if len(w1) > L {
		viol("len:compressed-gt-Len", fmt.Sprintf("compressed encoding has %d octets > Len() %d", len(w1), L), w0, w1)
	}
	if len(w1) < len(w0) {
		local["compression_effective"]++
	}

	// Re-encoding is repeatable: a size-limited (truncating) encoding in between - what the UDP
	// listener does with the very message the cache stores afterwards - leaves no trace in the
	// message, the unlimited encodings that follow equal the first ones.
	optLastOrAbsent := true
	for i, rr := range pm.Additionals {
		if rr.Hdr().Type == dnsmsg.TypeOPT && i != len(pm.Additionals)-1 {
			// a size-limited Pack sets the OPT record aside and appends it last, in the message itself
			// (so that truncation never drops it): by design the order changes for such a message
			optLastOrAbsent = false
		}
	}
	if idx%3 == 0 && L > 40 && optLastOrAbsent {
		tb := make([]byte, L)
		for _, lim := range []int{L / 2, 512} {
			if lim >= L {
				continue
			}
			pm.Pack(tb, idx%2 == 0, lim)
		}
		y0, e0 := pack(pm, false)
		y1, e1 := pack(pm, true)
		switch {
		case e0 != nil || e1 != nil:
			viol("repack-after-limited-pack:error", fmt.Sprintf("after a size-limited Pack the unlimited Pack failed: %v %v", e0, e1), w0, w1)
		case !bytes.Equal(y0, w0):
			viol("repack-after-limited-pack:uncompressed", "after a size-limited (truncating) Pack of the same message, Pack(compress=false,size=0) differs from the encoding made before it", w0, y0)
		case !bytes.Equal(y1, w1):
			viol("repack-after-limited-pack:compressed", "after a size-limited (truncating) Pack of the same message, Pack(compress=true,size=0) differs from the encoding made before it", w1, y1)
		default:
			local["repacked_identically_after_limited_pack"]++
		}
	}

	// ... and so is a Pack that failed half way (destination too small - the caller retries with a
	// larger one, or releases the message and the pooled object serves another message).
	if idx%4 == 1 && L > 40 {
		for _, short := range []int{L / 2, L - 1, 13} {
			if _, err := pm.Pack(make([]byte, short), idx%8 == 1, 0); err == nil && short < len(w1) {
				viol("pack-into-short-buffer-succeeded", fmt.Sprintf("Pack into a %d-octet destination reported success for a message that needs %d (compressed) / %d octets", short, len(w1), L), w0, w1)
			}
		}
		y0, e0 := pack(pm, false)
		y1, e1 := pack(pm, true)
		switch {
		case e0 != nil || e1 != nil:
			viol("repack-after-failed-pack:error", fmt.Sprintf("after a Pack that failed for lack of room the Pack into a sufficient destination failed: %v %v", e0, e1), w0, w1)
		case !bytes.Equal(y0, w0):
			viol("repack-after-failed-pack:uncompressed", "after a Pack of the same message that failed for lack of room, Pack(compress=false,size=0) differs from the encoding made before it", w0, y0)
		case !bytes.Equal(y1, w1):
			viol("repack-after-failed-pack:compressed", "after a Pack of the same message that failed for lack of room, Pack(compress=true,size=0) differs from the encoding made before it", w1, y1)
		default:
			local["repacked_identically_after_failed_pack"]++
		}
	}

	// the Z bit is reserved, mosproxy's Header has no field for it: not compared (counted)
	mask := uint16(0xFFFF) &^ refmsg.BitZ
	if m.Bits&refmsg.BitZ != 0 {
		local["z_bit_set_not_compared"]++
	}
	for k, enc := range [2][]byte{w0, w1} {
		mode := [2]string{"uncompressed", "compressed"}[k]
		d, err := refmsg.Decode(enc)
		if err != nil {
			viol("refdecode-error:"+mode, fmt.Sprintf("the %s re-encoding is not decodable by the reference decoder: %v", mode, err), w0, w1)
			continue
		}
		if f, det := refmsg.Diff(m, d, mask); f != "" {
			viol("mismatch:"+mode+":"+f, fmt.Sprintf("the %s re-encoding decodes to a different message: %s", mode, det), w0, w1)
		}
		// fixpoint: mosproxy decodes its own output and re-encodes it identically
		pm2, err := dnsmsg.UnpackMsg(enc)
		if err != nil {
			sig := "self-reject:" + mode
			if strings.Contains(err.Error(), "too many pointers") {
				sig += ":pointer-chain"
			}
			viol(sig, fmt.Sprintf("mosproxy rejects its own %s re-encoding: %v", mode, err), w0, w1)
			continue
		}
		x0, err0 := pack(pm2, false)
		x1, err1 := pack(pm2, true)
		dnsmsg.ReleaseMsg(pm2)
		if err0 != nil || err1 != nil {
			viol("fixpoint:pack-error:"+mode, fmt.Sprintf("re-packing the decoded %s re-encoding failed: %v %v", mode, err0, err1), w0, w1)
			continue
		}
		if !bytes.Equal(x0, w0) {
			viol("fixpoint:"+mode+":uncompressed", fmt.Sprintf("Unpack(%s re-encoding).Pack(uncompressed) differs from the first uncompressed re-encoding", mode), w0, w1)
		}
		if !bytes.Equal(x1, w1) {
			viol("fixpoint:"+mode+":compressed", fmt.Sprintf("Unpack(%s re-encoding).Pack(compressed) differs from the first compressed re-encoding", mode), w0, w1)
		}
	}

	// miekg/dns: same decoder on W and on the re-encodings
	if !miekgComparable(m) {
		local["miekg_skipped_opaque_type_with_names"]++
	} else {
		var a dns.Msg
		if err := a.Unpack(w); err != nil {
			local["miekg_rejects_reference_wire"]++
		} else {
			local["miekg_compared"]++
			for k, enc := range [2][]byte{w0, w1} {
				mode := [2]string{"uncompressed", "compressed"}[k]
				var b dns.Msg
				if err := b.Unpack(enc); err != nil {
					viol("miekg-rejects:"+mode, fmt.Sprintf("miekg/dns accepts the original but rejects the %s re-encoding: %v", mode, err), w0, w1)
					continue
				}
				if d := miekgDiff(&a, &b); d != "" {
					viol("miekg-differs:"+mode, fmt.Sprintf("miekg/dns decodes the %s re-encoding differently from the original: %s", mode, d), w0, w1)
				}
			}
		}
	}
	// x/net dnsmessage
	{
		var a dnsmessage.Message
		if err := a.Unpack(w); err != nil {
			local["xnet_rejects_reference_wire"]++
		} else {
			local["xnet_compared"]++
			for k, enc := range [2][]byte{w0, w1} {
				mode := [2]string{"uncompressed", "compressed"}[k]
				var b dnsmessage.Message
				if err := b.Unpack(enc); err != nil {
					if k == 1 && hasType(m, refmsg.TypeSRV) && strings.Contains(err.Error(), "compressed name in SRV") {
						// x/net refuses compressed SRV targets as a matter of policy: feature not supported by this decoder
						local["xnet_skipped_compressed_srv"]++
						continue
					}
					sig := "xnet-rejects:" + mode
					if strings.Contains(err.Error(), "too many pointers") {
						sig += ":pointer-chain"
					}
					viol(sig, fmt.Sprintf("x/net dnsmessage accepts the original but rejects the %s re-encoding: %v", mode, err), w0, w1)
					continue
				}
				if d := xnetDiff(&a, &b); d != "" {
					viol("xnet-differs:"+mode, fmt.Sprintf("x/net dnsmessage decodes the %s re-encoding differently from the original: %s", mode, d), w0, w1)
				}
			}
		}
	}
	return ""
}

// c02BoundaryMsg: question, one opaque record sized so that (in mosproxy's compressed encoding) the
// owner name of the next record starts exactly at offset target, then records that use that name
// again as owner and inside RDATA.
func c02BoundaryMsg(r *gen.R, target int) *refmsg.Msg {
	lbl := func(s ...string) [][]byte {
		var out [][]byte
		for _, x := range s {
			out = append(out, []byte(x))
		}
		return out
	}
	m := &refmsg.Msg{ID: uint16(r.Intn(65536)), Bits: refmsg.BitQR | refmsg.BitRD | refmsg.BitRA}
	m.Questions = []refmsg.Question{{Name: lbl("q", "test"), Type: 1, Class: 1}}
	// header 12 + question (8+4) = 24; pad record: root owner (1) + 10 + L
	L := target - 24 - 11
	m.Answers = append(m.Answers, refmsg.RR{Name: nil, Type: 65280, Class: 1, TTL: 1, Data: []refmsg.Part{{Raw: r.Bytes(L)}}})
	edge := lbl(fmt.Sprintf("edge%d", r.Intn(100)), "zone", "example")
	if r.Bool() {
		edge = lbl("e", "x")
	}
	m.Answers = append(m.Answers,
		refmsg.RR{Name: edge, Type: 1, Class: 1, TTL: 60, Data: []refmsg.Part{{Raw: []byte{192, 0, 2, 1}}}},
		refmsg.RR{Name: edge, Type: 28, Class: 1, TTL: 60, Data: []refmsg.Part{{Raw: r.Bytes(16)}}},
		refmsg.RR{Name: append(lbl("www"), edge...), Type: 5, Class: 1, TTL: 60, Data: []refmsg.Part{{IsName: true, Name: edge}}},
	)
	m.Authorities = append(m.Authorities, refmsg.RR{Name: edge[1:], Type: 2, Class: 1, TTL: 60, Data: []refmsg.Part{{IsName: true, Name: append(lbl("ns"), edge...)}}})
	m.Additionals = append(m.Additionals, refmsg.RR{Name: append(lbl("ns"), edge...), Type: 1, Class: 1, TTL: 60, Data: []refmsg.Part{{Raw: []byte{192, 0, 2, 2}}}})
	return m
}
