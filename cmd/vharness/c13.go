package main

// C13 — stream listeners frame correctly under any segmentation and pipelining.

import (
	"encoding/binary"
	"encoding/hex"
	"fmt"
	"sort"
	"strings"
	"sync"
	"sync/atomic"
	"time"

	"github.com/IrineSistiana/mosproxy/verif/internal/dnsclient"
	"github.com/IrineSistiana/mosproxy/verif/internal/gen"
	"github.com/miekg/dns"
)

func init() {
	register(&Check{ID: "C13", Level: "exploration",
		Rule: "k=1..40 length-prefixed queries written to the tcp, gnet and tls listeners as one byte stream cut at generated positions (inside the 2-byte prefix, at frame boundaries, mid-body, 1-byte dribble, many frames per segment) with 0-2 ms pauses, upstream delays 0-40 ms so handlers complete out of order; plus the per-connection limit scenario; " +
			"one evaluation = one connection; distinct non-trivial = distinct (listener, k, cut pattern) with k>=2 or a cut inside a frame",
		Run: runC13})
}

type c13Conn struct {
	Listener string   `json:"listener"`
	K        int      `json:"k"`
	Names    []string `json:"names"`
	Cuts     []int    `json:"cuts"`
	Pauses   []int    `json:"pauses_us"`
	Stream   string   `json:"stream_hex,omitempty"`
}

func c13BuildStream(r *gen.R, listener string, connIdx int, ups []string) (*c13Conn, []byte, []uint16, []dns.Question, []string) {
	k := r.Range(1, 12)
	if r.P(0.25) {
		k = r.Range(13, 40)
	}
	cc := &c13Conn{Listener: listener, K: k}
	var stream []byte
	var ids []uint16
	var qs []dns.Question
	var tags []string
	for i := 0; i < k; i++ {
		up := gen.Pick(r, ups)
		name := fmt.Sprintf("ok-n%d-d%d-c%dq%d.%s.test.", r.Range(1, 6), r.Intn(41), connIdx, i, up)
		id := uint16(i*1009 + connIdx*7 + 1)
		qt := gen.Pick(r, []uint16{dns.TypeA, dns.TypeAAAA, dns.TypeTXT, dns.TypeMX})
		edns := r.P(0.5)
		if connIdx%8 == 3 && i == k/2 {
			// one response that is as large as a frame can be: the upstream's reply has 65524..65535
			// octets and the client used EDNS0 (the proxy's own OPT record makes it exceed 65535)
			up, edns = "pipe", true
			name = fmt.Sprintf("ok-exact%d-c%dq%d.pipe.test.", 65524+(connIdx/8)%12, connIdx, i)
		}
		w := mkQuery(id, name, qt, dns.ClassINET, edns)
		stream = append(stream, dnsclient.Frame(w)...)
		ids = append(ids, id)
		qs = append(qs, dns.Question{Name: name, Qtype: qt, Qclass: dns.ClassINET})
		tags = append(tags, up)
		cc.Names = append(cc.Names, name)
	}
	// cut positions
	n := len(stream)
	cutSet := map[int]bool{}
	switch r.Intn(7) {
	case 5: // every frame is cut one or two octets before its end (and some right after the prefix)
		off := 0
		for off < n {
			l := 2 + int(binary.BigEndian.Uint16(stream[off:]))
			cutSet[off+l-r.Range(1, 2)] = true
			if r.P(0.3) {
				cutSet[off+2] = true
			}
			off += l
		}
	case 0: // one write
	case 1: // 1-byte dribble over a prefix of the stream
		lim := min(n, r.Range(3, 120))
		for i := 1; i < lim; i++ {
			cutSet[i] = true
		}
	case 2: // cuts inside every length prefix
		off := 0
		for off < n {
			cutSet[off+1] = true
			off += 2 + int(binary.BigEndian.Uint16(stream[off:]))
		}
	case 3: // cuts exactly at frame boundaries, several frames per segment
		off := 0
		for off < n {
			off += 2 + int(binary.BigEndian.Uint16(stream[off:]))
			if r.P(0.4) {
				cutSet[off] = true
			}
		}
	case 4: // random small segments
		for p := r.Range(1, 7); p < n; p += r.Range(1, 7) {
			cutSet[p] = true
		}
	default: // random larger segments, mid-body
		for p := r.Range(1, 120); p < n; p += r.Range(1, 120) {
			cutSet[p] = true
		}
	}
	delete(cutSet, 0)
	delete(cutSet, n)
	for p := range cutSet {
		if p > 0 && p < n {
			cc.Cuts = append(cc.Cuts, p)
		}
	}
	sort.Ints(cc.Cuts)
	for range cc.Cuts {
		us := 0
		if r.P(0.5) {
			us = r.Intn(2000)
		}
		cc.Pauses = append(cc.Pauses, us)
	}
	return cc, stream, ids, qs, tags
}

// returns "" or a (signature, text)
func c13RunConn(b *Bed, cc *c13Conn, stream []byte, ids []uint16, qs []dns.Question, tags []string, wait time.Duration) (sig, what string, outOfOrder bool) {
	tc := b.ProxyTLS
	if cc.Listener != "tls" {
		tc = nil
	}
	c, err := dnsclient.DialStream("", b.L[cc.Listener], tc)
	if err != nil {
		return "inconclusive", "dial: " + err.Error(), false
	}
	defer c.Close()
	prev := 0
	for i, p := range cc.Cuts {
		if err := c.WriteRaw(stream[prev:p]); err != nil {
			return "write-failed", fmt.Sprintf("write of segment %d failed: %v", i, err), false
		}
		prev = p
		if cc.Pauses[i] > 0 {
			time.Sleep(time.Duration(cc.Pauses[i]) * time.Microsecond)
		}
	}
	if err := c.WriteRaw(stream[prev:]); err != nil {
		return "write-failed", "write of the last segment failed: " + err.Error(), false
	}
	c.WaitFrames(cc.K, wait)
	time.Sleep(80 * time.Millisecond) // stray bytes / extra frames would arrive here
	frames := c.Frames()
	readErr, trailing, _ := c.State()
	if len(trailing) > 0 {
		return "stray-bytes", fmt.Sprintf("%d bytes after the last complete frame (interleaved or mis-prefixed response): %s", len(trailing), hex.EncodeToString(trailing[:min(len(trailing), 64)])), false
	}
	if len(frames) < cc.K {
		return "missing-response", fmt.Sprintf("%d of %d responses after %v (read state: %v)", len(frames), cc.K, wait, readErr), false
	}
	if len(frames) > cc.K {
		return "extra-response", fmt.Sprintf("%d responses for %d queries", len(frames), cc.K), false
	}
	seen := map[uint16]int{}
	idx := map[uint16]int{}
	for i, id := range ids {
		idx[id] = i
	}
	var order []int
	for fi, f := range frames {
		m := new(dns.Msg)
		if err := m.Unpack(f.Data); err != nil {
			return "undecodable-frame", fmt.Sprintf("frame %d does not decode (prefix/body mismatch or interleaving): %v: %s", fi, err, hex.EncodeToString(f.Data[:min(len(f.Data), 80)])), false
		}
		qi, ok := idx[m.Id]
		if !ok {
			return "unknown-id", fmt.Sprintf("frame %d carries id %d which was never sent on this connection", fi, m.Id), false
		}
		seen[m.Id]++
		if seen[m.Id] > 1 {
			return "duplicate-id", fmt.Sprintf("id %d answered %d times (query decoded more than once)", m.Id, seen[m.Id]), false
		}
		order = append(order, qi)
		if len(m.Question) != 1 || !strings.EqualFold(m.Question[0].Name, qs[qi].Name) {
			return "wrong-question", fmt.Sprintf("frame %d: id %d with question %v, sent %s", fi, m.Id, m.Question, qs[qi].Name), false
		}
		if m.Rcode == dns.RcodeSuccess {
			if _, err := CheckKeyed(qs[qi], tags[qi], m); err != nil {
				return "wrong-answer", fmt.Sprintf("frame %d: %v", fi, err), false
			}
		} else if m.Rcode != dns.RcodeServerFailure {
			return "unexpected-rcode", fmt.Sprintf("frame %d: rcode %d", fi, m.Rcode), false
		}
	}
	for i := 1; i < len(order); i++ {
		if order[i] < order[i-1] {
			outOfOrder = true
		}
	}
	return "", "", outOfOrder
}

func runC13(c *Ctx) {
	ups := []string{"pipe", "tcp", "udp", "dotp"}
	listeners := []string{"tcp", "gnet", "tls"}
	b, err := NewBed(c, "bed", BedOpts{Listeners: listeners, Upstreams: ups, UdpRcvBuf: 8 << 20})
	if err != nil {
		c.startFailure(err, "c13")
		return
	}
	nConn := c.N(220, 6000)
	var ooo, cutPatterns sync.Map
	var oooN int64
	var mu sync.Mutex
	confirmations := 0
	for _, listener := range listeners {
		var broken atomic.Bool // a violation on this listener: further connections would only wait out their time-outs
		parallelFor(nConn, 12, func() bool { return c.ViolationCount() >= 10 || !b.Proxy.Alive() || broken.Load() }, func(i int) {
			r := gen.New(c.Seed, "c13/"+listener, i)
			cc, stream, ids, qs, tags := c13BuildStream(r, listener, i, ups)
			sig, what, out := c13RunConn(b, cc, stream, ids, qs, tags, 10*time.Second)
			c.Ev.Eval(1)
			if sig == "inconclusive" {
				c.Inconclusive(what)
				return
			}
			if sig == "missing-response" { // confirmation: same connection script alone, 3 times
				if c.Seen(sig + ":" + listener) {
					return
				}
				mu.Lock()
				confirmations++
				over := confirmations > 6
				mu.Unlock()
				if over {
					c.Inconclusive("confirmation budget used up: " + what)
					return
				}
				fails := 0
				for k := 0; k < 3; k++ {
					if s2, _, _ := c13RunConn(b, cc, stream, ids, qs, tags, 6*time.Second); s2 == "missing-response" {
						fails++
					}
				}
				if fails < 3 {
					c.Inconclusive("missing response not reproduced alone: " + what)
					return
				}
			}
			if sig != "" {
				broken.Store(true)
				cc.Stream = hex.EncodeToString(stream)
				c.Violation(sig+":"+listener, fmt.Sprintf("%s, k=%d, %d cuts: %s", listener, cc.K, len(cc.Cuts), what), cc)
				return
			}
			if out {
				mu.Lock()
				oooN++
				mu.Unlock()
				ooo.Store(listener, true)
			}
			if cc.K >= 2 || len(cc.Cuts) > 0 {
				key := fmt.Sprint(listener, cc.K, cc.Cuts)
				cutPatterns.Store(key, true)
				c.Ev.Distinct(listener, cc.K, cc.Cuts)
			}
			c.Ev.Count("connections_"+listener, 1)
			c.Ev.Count("frames_"+listener, int64(cc.K))
			if i < 2 {
				c.Ev.Sample(map[string]any{"listener": listener, "k": cc.K, "cuts": cc.Cuts, "first_name": cc.Names[0]})
			}
		})
	}
	c.Ev.Count("connections_with_out_of_order_completion", oooN)
	if b.Proxy.Alive() && c.ViolationCount() == 0 {
		c13Aborted(c, b, listeners)
	}
	slowDone := make(chan struct{})
	go func() { // a bed of its own (listeners with a 16 kB send buffer), mostly waiting: overlaps with the limit part
		defer close(slowDone)
		if c.ViolationCount() > 0 {
			return
		}
		sb, err := NewBed(c, "slow", BedOpts{Listeners: listeners, Upstreams: []string{"pipe"}, TcpSndBuf: 16 << 10, IdleTimeout: 60})
		if err != nil {
			c.startFailure(err, "c13-slow")
			return
		}
		c13SlowReader(c, sb, listeners)
		alive := sb.Proxy.Alive()
		res := sb.Stop()
		if !alive {
			c.Violation("proxy-died", "the proxy process died during the slow-reader workload: "+res.Panic, map[string]any{"panic": res.Panic})
		}
	}()
	defer func() { <-slowDone }()
	alive := b.Proxy.Alive()
	res := b.Stop()
	if !alive {
		c.Violation("proxy-died", "the proxy process died during the workload: "+res.Panic, map[string]any{"panic": res.Panic})
	}
	if oooN == 0 && c.ViolationCount() == 0 {
		c.Inconclusive("no out-of-order completion was observed")
	}

	// ---- per-connection concurrency limit
	c13Limit(c)
	c13IdleMidFrame(c)
}

func c13Limit(c *Ctx) {
	listeners := []string{"tcp", "gnet", "tls"}
	b, err := NewBed(c, "limit", BedOpts{Listeners: listeners, Upstreams: []string{"pipe"}, TcpMaxConc: 4})
	if err != nil {
		c.startFailure(err, "c13-limit")
		return
	}
	defer func() {
		alive := b.Proxy.Alive()
		res := b.Stop()
		if !alive {
			c.Violation("proxy-died", "the proxy process died during the limit scenario: "+res.Panic, map[string]any{"panic": res.Panic})
		}
	}()
	for round := 0; round < c.N(2, 20); round++ {
		for _, listener := range listeners {
			const n = 12
			tc := b.ProxyTLS
			if listener != "tls" {
				tc = nil
			}
			cl, err := dnsclient.DialStream("", b.L[listener], tc)
			if err != nil {
				c.Inconclusive("dial: " + err.Error())
				continue
			}
			names := make([]string, n)
			var stream []byte
			var ends []int
			for i := 0; i < n; i++ {
				names[i] = fmt.Sprintf("ok-d1200-lim%s%dq%d.pipe.test.", listener, round, i)
				stream = append(stream, dnsclient.Frame(mkQuery(uint16(100+i), names[i], dns.TypeA, dns.ClassINET, false))...)
				ends = append(ends, len(stream))
			}
			if round%2 == 1 {
				// the segment that carries the queries beyond the limit ends inside the frame after them
				// (in its length prefix, or in its body); the rest follows 30 ms later
				cut := ends[7] + []int{1, 2, 9}[round/2%3]
				cl.WriteRaw(stream[:cut])
				time.Sleep(30 * time.Millisecond)
				cl.WriteRaw(stream[cut:])
			} else {
				cl.WriteRaw(stream)
			}
			cl.WaitFrames(n, 12*time.Second)
			time.Sleep(100 * time.Millisecond)
			frames := cl.Frames()
			cl.Close()
			c.Ev.Eval(1)
			cs := map[string]any{"listener": listener, "queries": n, "max_concurrent_queries": 4, "responses": len(frames)}
			if len(frames) != n {
				c.Violation("limit:dropped-query:"+listener, fmt.Sprintf("%s with max_concurrent_queries=4: %d responses for %d pipelined queries (queries beyond the limit must be answered REFUSED, not dropped)", listener, len(frames), n), cs)
				continue
			}
			refused := map[string]bool{}
			okN := 0
			bad := false
			for _, f := range frames {
				m := new(dns.Msg)
				if err := m.Unpack(f.Data); err != nil || len(m.Question) != 1 {
					c.Violation("limit:undecodable:"+listener, "undecodable response in the limit scenario", cs)
					bad = true
					break
				}
				switch m.Rcode {
				case dns.RcodeRefused:
					refused[strings.ToLower(m.Question[0].Name)] = true
				case dns.RcodeSuccess:
					okN++
				default:
					c.Violation("limit:unexpected-rcode:"+listener, fmt.Sprintf("rcode %d in the limit scenario", m.Rcode), cs)
					bad = true
				}
			}
			if bad {
				continue
			}
			// upstream side: REFUSED queries were not forwarded; at most 4 outstanding
			type iv struct{ a, b int64 }
			var ivs []iv
			for _, ql := range b.Up["pipe"].Log() {
				ln := strings.ToLower(ql.Name)
				mine := false
				for _, nm := range names {
					if nm == ln {
						mine = true
					}
				}
				if !mine {
					continue
				}
				if refused[ln] {
					c.Violation("limit:refused-but-forwarded:"+listener, "query "+ln+" was answered REFUSED by the limit but reached the upstream", cs)
				}
				end := ql.TSend
				if end == 0 {
					end = ql.TRecv + int64(2*time.Second)
				}
				ivs = append(ivs, iv{ql.TRecv, end})
			}
			maxOut := 0
			for _, x := range ivs {
				n := 0
				for _, y := range ivs {
					if y.a <= x.a && x.a < y.b {
						n++
					}
				}
				maxOut = max(maxOut, n)
			}
			if maxOut > 4 {
				c.Violation("limit:exceeded:"+listener, fmt.Sprintf("%d queries of one connection outstanding at the upstream with max_concurrent_queries=4", maxOut), cs)
			}
			c.Ev.Count("limit_refused_"+listener, int64(len(refused)))
			c.Ev.Count("limit_served_"+listener, int64(okN))
			c.Ev.Distinct("limit", listener, len(refused))
			if len(refused) == 0 {
				c.Ev.Count("limit_never_reached_"+listener, 1)
			}
		}
	}
}

// c13Aborted: connections that die in the middle of a frame (after the length prefix, inside the
// body, after one octet of the prefix) must leave nothing behind: the connections opened next send
// one complete query each and every one of them is decoded and answered.
func c13Aborted(c *Ctx, b *Bed, listeners []string) {
	for _, listener := range listeners {
		var tc = b.ProxyTLS
		if listener != "tls" {
			tc = nil
		}
		for round := 0; round < 3; round++ {
			for k := 0; k < 8; k++ {
				sc, err := dnsclient.DialStream("", b.L[listener], tc)
				if err != nil {
					continue
				}
				frame := dnsclient.Frame(mkQuery(uint16(k), fmt.Sprintf("ok-ab%dr%d.pipe.test.", k, round), dns.TypeA, dns.ClassINET, false))
				cut := []int{2, 1, 2 + (len(frame)-2)/2, len(frame) - 1}[k%4]
				sc.WriteRaw(frame[:cut])
				time.Sleep(5 * time.Millisecond)
				sc.Close()
			}
			time.Sleep(50 * time.Millisecond)
			answered := 0
			var firstErr string
			for k := 0; k < 8; k++ {
				name := fmt.Sprintf("ok-fresh%dr%d%s.pipe.test.", k, round, listener)
				x := b.Exchange(listener, mkQuery(uint16(100+k), name, dns.TypeA, dns.ClassINET, false), xOpts{Timeout: 4 * time.Second})
				c.Ev.Eval(1)
				m := new(dns.Msg)
				if x.Err == nil && m.Unpack(x.Resp) == nil && m.Id == uint16(100+k) && m.Rcode == dns.RcodeSuccess {
					answered++
				} else if firstErr == "" {
					firstErr = fmt.Sprintf("%v (%d octets)", x.Err, len(x.Resp))
				}
			}
			if answered < 8 {
				c.Violation("fresh-connection-not-served-after-aborted-ones:"+listener, fmt.Sprintf("%s: after 8 connections that were closed in the middle of a frame, only %d of 8 new connections with one complete query each were answered (first failure: %s)", listener, answered, firstErr), map[string]any{"listener": listener, "round": round, "answered": answered})
				return
			}
			c.Ev.Distinct("aborted-then-fresh", listener, round)
		}
	}
}

// c13IdleMidFrame: listeners with a 1 s idle time-out; a slow query is in flight while the next
// frame arrives in two segments 1.4 s apart. Whatever the listener does at its deadline (closing
// the connection is fine), it never treats the rest of a frame as a new frame: the second half of
// the cut query holds, inside an EDNS0 option, octets that look like a complete framed query with
// id 0x7777 - an answer with that id is an answer to something that was never sent as a frame.
func c13IdleMidFrame(c *Ctx) {
	listeners := []string{"tcp", "tls", "gnet"}
	b, err := NewBed(c, "idle", BedOpts{Listeners: listeners, Upstreams: []string{"pipe"}, IdleTimeout: 1})
	if err != nil {
		c.startFailure(err, "c13-idle")
		return
	}
	defer b.Stop()
	var wg sync.WaitGroup
	for _, listener := range listeners {
		for rep := 0; rep < c.N(2, 8); rep++ {
			wg.Add(1)
			go func(listener string, rep int) {
				defer wg.Done()
				var tc = b.ProxyTLS
				if listener != "tls" {
					tc = nil
				}
				sc, err := dnsclient.DialStream("", b.L[listener], tc)
				if err != nil {
					return
				}
				defer sc.Close()
				sc.SendFrame(mkQuery(1, fmt.Sprintf("ok-d2500-slow%dr%d.pipe.test.", rep, len(listener)), dns.TypeA, dns.ClassINET, false))
				ghost := dnsclient.Frame(mkQuery(0x7777, fmt.Sprintf("ok-ghost%dr%d.pipe.test.", rep, len(listener)), dns.TypeA, dns.ClassINET, false))
				q2 := new(dns.Msg)
				q2.Id = 2
				q2.RecursionDesired = true
				q2.Question = []dns.Question{{Name: fmt.Sprintf("ok-cut%dr%d.pipe.test.", rep, len(listener)), Qtype: dns.TypeA, Qclass: dns.ClassINET}}
				o := &dns.OPT{Hdr: dns.RR_Header{Name: ".", Rrtype: dns.TypeOPT}}
				o.SetUDPSize(1232)
				o.Option = append(o.Option, &dns.EDNS0_LOCAL{Code: 65001, Data: ghost})
				q2.Extra = append(q2.Extra, o)
				w2, _ := q2.Pack()
				f2 := dnsclient.Frame(w2)
				cut := len(f2) - len(ghost) // the second segment starts exactly where the look-alike frame starts
				sc.WriteRaw(f2[:cut])
				time.Sleep(1400 * time.Millisecond)
				sc.WriteRaw(f2[cut:])
				sc.SendFrame(mkQuery(3, fmt.Sprintf("ok-third%dr%d.pipe.test.", rep, len(listener)), dns.TypeA, dns.ClassINET, false))
				sc.WaitFrames(3, 4*time.Second)
				c.Ev.Eval(1)
				ids := []uint16{}
				for _, f := range sc.Frames() {
					m := new(dns.Msg)
					if m.Unpack(f.Data) != nil {
						c.Violation("idle-mid-frame:undecodable-frame:"+listener, fmt.Sprintf("%s (idle_timeout 1 s): a response frame does not decode after a frame arrived in two segments 1.4 s apart", listener), map[string]any{"listener": listener, "frame_hex": hex.EncodeToString(f.Data[:min(len(f.Data), 80)])})
						return
					}
					ids = append(ids, m.Id)
					if m.Id != 1 && m.Id != 2 && m.Id != 3 {
						c.Violation("idle-mid-frame:answer-to-unsent-query:"+listener, fmt.Sprintf("%s (idle_timeout 1 s): a response with id %#04x for %q arrived; no such query was sent - those octets travelled inside the body of the frame that was cut in two", listener, m.Id, func() string {
							if len(m.Question) > 0 {
								return m.Question[0].Name
							}
							return ""
						}()), map[string]any{"listener": listener, "ids_answered": ids})
						return
					}
				}
				_, trailing, _ := sc.State()
				if len(trailing) > 0 {
					c.Violation("idle-mid-frame:stray-bytes:"+listener, fmt.Sprintf("%s: %d stray octets after the last complete frame", listener, len(trailing)), map[string]any{"listener": listener})
					return
				}
				c.Ev.Distinct("idle-mid-frame", listener, len(ids))
			}(listener, rep)
		}
	}
	// shifted segments: a connection that is never idle for more than 100 ms, in use for more than
	// twice the idle time-out, whose segments never end on a frame boundary: every segment carries the
	// rest of one frame and the first octet of the next frame's length prefix. Every query is answered.
	for _, listener := range listeners {
		wg.Add(1)
		go func(listener string) {
			defer wg.Done()
			var tc = b.ProxyTLS
			if listener != "tls" {
				tc = nil
			}
			sc, err := dnsclient.DialStream("", b.L[listener], tc)
			if err != nil {
				return
			}
			defer sc.Close()
			const nq = 46 // 4.6 s: also longer than any handshake / write time-out a listener might have armed at accept
			var stream []byte
			var ends []int
			for i := 0; i < nq; i++ {
				stream = append(stream, dnsclient.Frame(mkQuery(uint16(100+i), fmt.Sprintf("ok-shift%dr%d.pipe.test.", i, len(listener)), dns.TypeA, dns.ClassINET, false))...)
				ends = append(ends, len(stream))
			}
			off := 0
			for i := 0; i < nq; i++ {
				end := ends[i] + 1 // one octet into the next frame
				if i == nq-1 {
					end = len(stream)
				}
				if sc.WriteRaw(stream[off:end]) != nil {
					break
				}
				off = end
				time.Sleep(100 * time.Millisecond)
			}
			sc.WaitFrames(nq, 5*time.Second)
			c.Ev.Eval(nq)
			got := map[uint16]int{}
			for _, f := range sc.Frames() {
				m := new(dns.Msg)
				if m.Unpack(f.Data) == nil {
					got[m.Id]++
				}
			}
			missing := 0
			for i := 0; i < nq; i++ {
				if got[uint16(100+i)] == 0 {
					missing++
				}
			}
			if missing > 0 {
				st, _, _ := sc.State()
				c.Violation("shifted-segments:missing-response:"+listener, fmt.Sprintf("%s (idle_timeout 1 s): %d of %d queries sent 100 ms apart on one connection got no response (read state of the connection: %v); every segment ended one octet into the next frame, the connection was never idle", listener, missing, nq, st),
					map[string]any{"listener": listener, "queries": nq, "answered_ids": got})
				return
			}
			c.Ev.Distinct("shifted-segments", listener, nq)
			c.Ev.Count("shifted_segment_connections_fully_answered", 1)
		}(listener)
	}
	wg.Wait()
}
