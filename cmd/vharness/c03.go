package main

// C03 — every decodable query gets exactly one matching response whatever the upstream does.
// E2E history checker over all listener kinds x upstream transports x upstream outcomes.

import (
	"encoding/hex"
	"fmt"
	"net/http"
	"strings"
	"sync"
	"time"

	"github.com/IrineSistiana/mosproxy/verif/internal/clock"
	"github.com/IrineSistiana/mosproxy/verif/internal/dnsclient"
	"github.com/IrineSistiana/mosproxy/verif/internal/gen"
	"github.com/miekg/dns"
)

func init() {
	register(&Check{ID: "C03", Level: "fault_enumeration",
		Rule: "matrix listener kind x upstream transport x upstream outcome (ok, nxdomain, rcode N, empty, silent, garbage, close, rst, half frame, http 500) plus query shapes (RD=0, opcode!=0, qdcount 0/2/3, OPT, no matching rule, random-case names, duplicate IDs in flight); " +
			"one evaluation = one query sent to the real proxy binary; distinct non-trivial = distinct (listener, upstream, outcome-or-shape) cells actually answered and checked",
		Run: runC03})
}

type c03Resp struct {
	T    int64
	Data []byte
}

type c03Query struct {
	Listener string
	Method   string      // http listeners: GET | POST | POST-CHUNKED (a POST without Content-Length); "" = by position
	LateFin  bool        // quic: the client sends its STREAM FIN only after reading the response
	Batch    []*c03Query // stream listeners: the queries that shared this query's connection
	Wire     []byte
	ID       uint16
	Name     string // first question as sent ("" if none)
	Qtype    uint16
	Qclass   uint16
	NQ       int
	Opcode   int
	RD       bool
	Shape    string // "" or shape name
	Outcome  string
	UpTag    string
	Expect   int // expected rcode
	Keyed    bool
	TSend    int64
	Resps    []c03Resp
	Status   int
	Note     string
}

var c03Healthy = []string{"ok", "nx", "rc9", "servfail", "empty", "ok-n6", "ok-opt", "ok-n40"}
var c03Failing = []string{"silent", "garbage", "close", "rst", "half", "http500"}

func c03RandCase(r *gen.R, s string) string {
	b := []byte(s)
	for i, c := range b {
		if 'a' <= c && c <= 'z' && r.Bool() {
			b[i] = c - 32
		}
	}
	return string(b)
}

func c03ExpectRcode(outcome string) (rcode int, keyed bool) {
	switch {
	case strings.HasPrefix(outcome, "ok"):
		return 0, true
	case outcome == "nx":
		return 3, false
	case outcome == "rc9":
		return 9, false
	case outcome == "servfail":
		return 2, false
	case outcome == "empty":
		return 0, false
	}
	return 2, false // every failing outcome => SERVFAIL
}

// build one query. shape: "" | rd0 | opcode | qd0 | qd2 | qd3 | opt | norule
func c03Build(r *gen.R, listener, up, outcome, shape string, seq int) *c03Query {
	q := &c03Query{Listener: listener, UpTag: up, Outcome: outcome, Shape: shape, RD: true}
	name := fmt.Sprintf("%s-u%x%04x.%s.test.", outcome, r.Intn(1<<24), seq, up)
	if shape == "norule" {
		name = fmt.Sprintf("ok-u%x%04x.none.test.", r.Intn(1<<24), seq)
	}
	name = c03RandCase(r, name)
	m := new(dns.Msg)
	m.Id = uint16(r.Intn(65536))
	if r.P(0.2) {
		m.Id = 0x1234 // duplicate IDs in flight
	}
	m.RecursionDesired = true
	qt := gen.Pick(r, []uint16{dns.TypeA, dns.TypeAAAA, dns.TypeMX, dns.TypeTXT, dns.TypeSRV, dns.TypeCNAME, dns.TypeNS, dns.TypePTR, dns.TypeSOA, 65, 255, 4242})
	qc := uint16(dns.ClassINET)
	if r.P(0.15) {
		qc = gen.Pick(r, []uint16{dns.ClassCHAOS, dns.ClassANY, 7})
	}
	m.Question = []dns.Question{{Name: name, Qtype: qt, Qclass: qc}}
	q.Expect, q.Keyed = c03ExpectRcode(outcome)
	switch shape {
	case "rd0":
		m.RecursionDesired = false
		q.RD = false
		q.Expect, q.Keyed = 4, false
	case "opcode":
		m.Opcode = gen.Pick(r, []int{1, 2, 4, 5, 15})
		q.Expect, q.Keyed = 4, false
	case "qd0":
		m.Question = nil
		m.Id = uint16(60000 + seq%5000) // unique on its socket
		q.Expect, q.Keyed = 4, false
	case "qd2", "qd3":
		m.Question = append(m.Question, dns.Question{Name: "second-" + name, Qtype: dns.TypeA, Qclass: dns.ClassINET})
		if shape == "qd3" {
			m.Question = append(m.Question, dns.Question{Name: "third-" + name, Qtype: dns.TypeMX, Qclass: dns.ClassINET})
		}
		q.Expect, q.Keyed = 4, false
	case "opt":
		m.SetEdns0(uint16(r.Range(512, 4096)), r.Bool())
	case "norule":
		q.Expect, q.Keyed = 5, false
	}
	if shape != "opt" && r.P(0.3) {
		m.SetEdns0(1232, false)
	}
	if r.P(0.1) { // extra records in other sections of the query
		m.Ns = append(m.Ns, &dns.TXT{Hdr: dns.RR_Header{Name: "x.", Rrtype: dns.TypeTXT, Class: dns.ClassINET, Ttl: 5}, Txt: []string{"extra"}})
	}
	q.ID, q.Opcode, q.NQ = m.Id, m.Opcode, len(m.Question)
	if len(m.Question) > 0 {
		q.Name, q.Qtype, q.Qclass = m.Question[0].Name, m.Question[0].Qtype, m.Question[0].Qclass
	}
	w, err := m.Pack()
	if err != nil {
		panic(err)
	}
	q.Wire = w
	return q
}

// c03Match: does response data belong to query q (ID and first question)?
func c03Match(q *c03Query, data []byte) bool {
	m := new(dns.Msg)
	if err := m.Unpack(data); err != nil {
		return len(data) >= 2 && uint16(data[0])<<8|uint16(data[1]) == q.ID && q.NQ == 0
	}
	if m.Id != q.ID {
		return false
	}
	if q.NQ == 0 {
		return len(m.Question) == 0
	}
	return len(m.Question) >= 1 && strings.EqualFold(m.Question[0].Name, q.Name) && m.Question[0].Qtype == q.Qtype && m.Question[0].Qclass == q.Qclass
}

// send a batch over one listener; fills Resps/TSend. Sockets stay open for `linger` after the last response.
func c03Drive(b *Bed, listener string, qs []*c03Query, wait time.Duration) {
	assign := func(pk []dnsclient.Packet) (unmatched int) {
		used := make([]bool, len(pk))
		for _, q := range qs {
			for i, p := range pk {
				if !used[i] && c03Match(q, p.Data) {
					// a response matches at most one query; queries with identical (ID, question) do not exist
					q.Resps = append(q.Resps, c03Resp{p.T, p.Data})
					used[i] = true
				}
			}
		}
		for _, u := range used {
			if !u {
				unmatched++
			}
		}
		return
	}
	switch listener {
	case "udp", "udpmr":
		c, err := dnsclient.DialUDP("", b.L[listener])
		if err != nil {
			for _, q := range qs {
				q.Note = "dial: " + err.Error()
			}
			return
		}
		for _, q := range qs {
			q.TSend, _ = c.Send(q.Wire)
			time.Sleep(500 * time.Microsecond)
		}
		deadline := time.Now().Add(wait)
		for time.Now().Before(deadline) && len(c.Received()) < len(qs) {
			time.Sleep(5 * time.Millisecond)
		}
		time.Sleep(300 * time.Millisecond) // duplicates would show up here
		if un := assign(c.Received()); un > 0 {
			qs[0].Note += fmt.Sprintf(" unmatched-responses=%d", un)
		}
		c.Close()
	case "tcp", "gnet", "tls":
		// at most 40 pipelined queries per connection (default per-connection limit is 100)
		for off := 0; off < len(qs); off += 40 {
			end := min(off+40, len(qs))
			part := qs[off:end]
			var tc = b.ProxyTLS
			if listener != "tls" {
				tc = nil
			}
			c, err := dnsclient.DialStream("", b.L[listener], tc)
			if err != nil {
				for _, q := range part {
					q.Note = "dial: " + err.Error()
				}
				continue
			}
			// every other connection (by the first query's id, so that a confirmation run of the same
			// connection does the same) sends some frames with their last octets in a segment of their
			// own; the others send all frames back to back
			cutConn := len(part[0].Wire) > 1 && part[0].Wire[1]%2 == 1
			for qi, q := range part {
				q.Batch = part
				if cutConn && qi%3 == 1 {
					// the last one or two octets of this frame travel in a segment of their own
					f := dnsclient.Frame(q.Wire)
					cut := len(f) - 1 - qi%2
					q.TSend = clock.Now()
					if c.WriteRaw(f[:cut]) == nil {
						time.Sleep(2 * time.Millisecond)
						c.WriteRaw(f[cut:])
					}
					continue
				}
				q.TSend, _ = c.SendFrame(q.Wire)
			}
			c.WaitFrames(len(part), wait)
			time.Sleep(200 * time.Millisecond)
			saved := qs
			qs = part
			if un := assign(c.Frames()); un > 0 {
				part[0].Note += fmt.Sprintf(" unmatched-responses=%d", un)
			}
			qs = saved
			if _, trailing, _ := c.State(); len(trailing) > 0 {
				part[0].Note += fmt.Sprintf(" trailing-bytes=%d", len(trailing))
			}
			c.Close()
		}
	case "http", "fasthttp", "https":
		url, mode := "http://"+b.L[listener]+"/dns-query", "h1"
		tc := b.ProxyTLS
		if listener == "https" {
			url, mode = "https://"+b.L[listener]+"/dns-query", "h2"
		} else {
			tc = nil
		}
		hc := dnsclient.NewDoH(url, tc, mode, "")
		var wg sync.WaitGroup
		for i, q := range qs {
			wg.Add(1)
			go func(i int, q *c03Query) {
				defer wg.Done()
				method := http.MethodPost
				if i%2 == 0 {
					method = http.MethodGet
				}
				if q.Method != "" {
					method = q.Method
				}
				r := hc.Do(method, q.Wire, nil)
				q.TSend, q.Status = r.TSend, r.Status
				if r.Err != nil {
					q.Note = "http: " + r.Err.Error()
					return
				}
				if r.Status == 200 {
					q.Resps = append(q.Resps, c03Resp{r.TRecv, r.Body})
				}
			}(i, q)
		}
		wg.Wait()
		hc.Close()
	case "quic":
		c, err := dnsclient.DialDoQ("", b.L["quic"], b.ProxyTLS)
		if err != nil {
			for _, q := range qs {
				q.Note = "dial: " + err.Error()
			}
			return
		}
		// every other query comes from a client that sends its STREAM FIN only after reading the response
		c2, err2 := dnsclient.DialDoQ("", b.L["quic"], b.ProxyTLS)
		if err2 == nil {
			c2.LateFin = true
			defer c2.Close()
		}
		var wg sync.WaitGroup
		for _, q := range qs {
			wg.Add(1)
			go func(q *c03Query, c *dnsclient.DoQClient) {
				defer wg.Done()
				if c.LateFin {
					q.Note += " (late STREAM FIN)"
				}
				r := c.Exchange(dnsclient.Frame(q.Wire), wait)
				q.TSend = r.TSend
				for _, f := range r.Frames {
					q.Resps = append(q.Resps, c03Resp{f.T, f.Data})
				}
				if len(r.Trailing) > 0 {
					q.Note += fmt.Sprintf(" trailing-bytes=%d", len(r.Trailing))
				}
				if r.Err != nil {
					q.Note += " stream: " + r.Err.Error()
				}
			}(q, map[bool]*dnsclient.DoQClient{true: c2, false: c}[q.LateFin && err2 == nil])
		}
		wg.Wait()
		c.Close()
	}
}

// c03Judge applies the rules to one query; returns "" or (signature, text).
func c03Judge(b *Bed, q *c03Query) (sig, what string) {
	cell := q.Listener + "/" + q.UpTag + "/" + q.Outcome
	if q.Shape != "" {
		cell += "/" + q.Shape
	}
	if len(q.Resps) == 0 {
		return "no-response", fmt.Sprintf("%s: no response (http status %d) %s", cell, q.Status, q.Note)
	}
	if len(q.Resps) > 1 {
		return "duplicate-response", fmt.Sprintf("%s: %d responses for one query", cell, len(q.Resps))
	}
	rp := q.Resps[0]
	if d := time.Duration(rp.T - q.TSend); d > 7500*time.Millisecond { // 6 s request deadline + 1.5 s slack; confirmed by re-runs
		return "late-response", fmt.Sprintf("%s: response after %v", cell, d)
	}
	m := new(dns.Msg)
	if err := m.Unpack(rp.Data); err != nil {
		return "undecodable-response", fmt.Sprintf("%s: response does not decode: %v (%s)", cell, err, hex.EncodeToString(rp.Data))
	}
	if m.Id != q.ID || !m.Response || m.Opcode != q.Opcode || !m.RecursionAvailable || m.RecursionDesired != q.RD {
		return "bad-header", fmt.Sprintf("%s: header id=%d qr=%v opcode=%d ra=%v rd=%v; query id=%d opcode=%d rd=%v", cell, m.Id, m.Response, m.Opcode, m.RecursionAvailable, m.RecursionDesired, q.ID, q.Opcode, q.RD)
	}
	if len(m.Question) > 1 {
		return "many-questions", fmt.Sprintf("%s: response has %d questions", cell, len(m.Question))
	}
	if len(m.Question) == 1 && (q.NQ == 0 || !strings.EqualFold(m.Question[0].Name, q.Name) || m.Question[0].Qtype != q.Qtype || m.Question[0].Qclass != q.Qclass) {
		return "wrong-question", fmt.Sprintf("%s: response question %v, query %s %d %d", cell, m.Question, q.Name, q.Qtype, q.Qclass)
	}
	if m.Rcode != q.Expect {
		return "wrong-rcode:" + fmt.Sprint(q.Expect), fmt.Sprintf("%s: rcode %d, expected %d", cell, m.Rcode, q.Expect)
	}
	if q.Keyed {
		if _, err := CheckKeyed(dns.Question{Name: q.Name, Qtype: q.Qtype, Qclass: q.Qclass}, q.UpTag, m); err != nil {
			return "wrong-answer", fmt.Sprintf("%s: %v", cell, err)
		}
	}
	return "", ""
}

// all listener kinds, plus the UDP listener on the wildcard address with multi_routes
var c03Listeners = append(append([]string{}, allListeners...), "udpmr")

func runC03(c *Ctx) {
	ups := []string{"udp", "tcp", "pipe", "dot", "dotp", "doh", "dohs", "h3", "doq"}
	b, err := NewBed(c, "bed", BedOpts{Upstreams: ups, UdpRcvBuf: 4 << 20, Listeners: c03Listeners})
	if err != nil {
		if b != nil && b.Proxy != nil {
			res := b.Stop()
			c.procFailures(res, "start")
		}
		c.startFailure(err, "c03")
		return
	}
	reps := c.N(1, 12)
	var all []*c03Query
	for rep := 0; rep < reps; rep++ {
		// phase 1: healthy outcomes + shapes, phase 2: failing outcomes (kept apart: a failing
		// upstream connection may legitimately take concurrent queries on it down with it)
		for phase := 0; phase < 2; phase++ {
			var wg sync.WaitGroup
			var phaseQs []*c03Query
			for li, listener := range c03Listeners {
				r := gen.New(c.Seed, "c03/"+listener, rep*2+phase)
				var qs []*c03Query
				seq := 0
				for ui, up := range ups {
					// quick: every listener x outcome on 3 rotating upstreams; thorough: full matrix
					if c.Quick() && (ui+li)%3 != rep%3 && !(ui < 2) {
						continue
					}
					outcomes := c03Healthy
					if phase == 1 {
						outcomes = c03Failing
					}
					for _, oc := range outcomes {
						if oc == "http500" && !(up == "doh" || up == "dohs" || up == "h3") {
							continue
						}
						seq++
						qs = append(qs, c03Build(r, listener, up, oc, "", seq))
					}
					if phase == 1 && up == "udp" {
						// truncated UDP reply after 2 s, then a TCP side that never answers: the request deadline
						// covers both legs
						seq++
						qs = append(qs, c03Build(r, listener, up, "tcs-d2000", "", seq))
					}
					if phase == 0 {
						for _, sh := range []string{"rd0", "opcode", "qd0", "qd2", "qd3", "opt", "norule"} {
							if r.P(0.5) || ui == 0 {
								seq++
								qs = append(qs, c03Build(r, listener, up, "ok", sh, seq))
							}
						}
					}
				}
				if phase == 0 && (listener == "tcp" || listener == "gnet" || listener == "tls") {
					// two more connections of 40 pipelined queries that are all answered at once (same
					// fast upstream): responses completing together on one connection
					for k := 0; k < 80; k++ {
						seq++
						qs = append(qs, c03Build(r, listener, "pipe", "ok", "", seq))
					}
				}
				if phase == 0 && (listener == "tcp" || listener == "gnet" || listener == "tls" || listener == "quic") && rep == 0 {
					// upstream replies just below 64 KiB to an EDNS client: with the proxy's own OPT record
					// the response no longer fits a 16-bit length prefix and has to be truncated
					for _, n := range []int{65524, 65527, 65531, 65535} {
						seq++
						qs = append(qs, c03Build(r, listener, "pipe", fmt.Sprintf("ok-exact%d", n), "opt", seq))
					}
				}
				if listener == "quic" {
					for qi, q := range qs {
						q.LateFin = qi%2 == 1
					}
				}
				if listener == "http" || listener == "fasthttp" {
					for qi, q := range qs {
						q.Method = []string{"GET", "POST", "POST-CHUNKED", "POST"}[qi%4]
					}
				}
				phaseQs = append(phaseQs, qs...)
				wg.Add(1)
				go func(listener string, qs []*c03Query) {
					defer wg.Done()
					c03Drive(b, listener, qs, 10*time.Second)
				}(listener, qs)
			}
			wg.Wait()
			all = append(all, phaseQs...)
			if !b.Proxy.Alive() {
				break
			}
		}
	}
	// judge
	cells := map[string]int{}
	confirmations := 0
	for _, q := range all {
		c.Ev.Eval(1)
		sig, what := c03Judge(b, q)
		if sig == "no-response" || sig == "late-response" {
			if c.Seen(sig + ":" + q.Listener) {
				continue // already have a confirmed witness of this shape; each confirmation costs up to 30 s
			}
			if confirmations >= 8 {
				c.Inconclusive("confirmation budget used up: " + what)
				continue
			}
			confirmations++
			// confirmation: re-run on the now quiet proxy (stream listeners: the whole connection twice; otherwise the query alone, three times); two failures confirm
			fails := 0
			for k := 0; k < 3 && b.Proxy.Alive(); k++ {
				q2 := *q
				q2.Resps, q2.Note = nil, ""
				again := []*c03Query{&q2}
				// on a stream listener the query travelled with others on one connection: repeat
				// the whole connection (same queries, same pipelining), not the query on its own
				if len(q.Batch) > 1 && k < 2 {
					again = again[:0]
					for _, o := range q.Batch {
						if o == q {
							again = append(again, &q2)
							continue
						}
						o2 := *o
						o2.Resps, o2.Note, o2.Batch = nil, "", nil
						again = append(again, &o2)
					}
				}
				q2.Batch = nil
				c03Drive(b, q.Listener, again, 10*time.Second)
				if s2, _ := c03Judge(b, &q2); s2 == "no-response" || s2 == "late-response" {
					fails++
				} else if len(again) > 1 {
					break // the connection as a whole was served this time
				}
			}
			if fails < 2 && b.Proxy.Alive() {
				c.Inconclusive(fmt.Sprintf("%s not reproduced alone (%d/3): %s", sig, fails, what))
				c.Ev.Count("not_reproduced", 1)
				continue
			}
		}
		cell := q.Listener + "/" + q.UpTag + "/" + q.Outcome + "/" + q.Shape
		if sig != "" {
			c.Violation(sig+":"+q.Listener, what, map[string]any{"listener": q.Listener, "upstream": q.UpTag, "outcome": q.Outcome, "shape": q.Shape, "query_hex": hex.EncodeToString(q.Wire), "responses": len(q.Resps), "note": q.Note})
			continue
		}
		cells[cell]++
		c.Ev.Distinct(cell)
		c.Ev.Count("answered_rcode_"+fmt.Sprint(q.Expect), 1)
		c.Ev.Count("listener_"+q.Listener, 1)
		if len(cells) <= 6 && cells[cell] == 1 {
			lat := time.Duration(q.Resps[0].T - q.TSend)
			c.Ev.Sample(map[string]any{"cell": cell, "query_hex": hex.EncodeToString(q.Wire), "expected_rcode": q.Expect, "latency_ms": lat.Milliseconds()})
		}
	}
	// unsolicited responses
	for _, q := range all {
		if strings.Contains(q.Note, "unmatched-responses") || strings.Contains(q.Note, "trailing-bytes") {
			c.Violation("unsolicited-response:"+q.Listener, "responses that match no query / stray bytes on "+q.Listener+": "+q.Note, map[string]any{"listener": q.Listener, "note": q.Note})
		}
	}
	// one long-lived DoQ connection: 130 queries one after the other (more than the listener's limit of
	// concurrently open streams, never more than one at a time), alternately from a client whose
	// STREAM FIN goes out with the query and one whose FIN follows after the response
	for _, late := range []bool{true, false} {
		if !b.Proxy.Alive() || c.ViolationCount() > 0 {
			break
		}
		qc, err := dnsclient.DialDoQ("", b.L["quic"], b.ProxyTLS)
		if err != nil {
			c.Inconclusive("long-lived DoQ connection: dial: " + err.Error())
			break
		}
		qc.LateFin = late
		unanswered, first := 0, -1
		for i := 0; i < 130; i++ {
			q := mkQuery(uint16(i), fmt.Sprintf("ok-doqlong%dl%v.pipe.test.", i, late), dns.TypeA, dns.ClassINET, false)
			q[0], q[1] = 0, 0
			res := qc.Exchange(dnsclient.Frame(q), 3*time.Second)
			c.Ev.Eval(1)
			if len(res.Frames) != 1 {
				unanswered++
				if first < 0 {
					first = i
				}
				if unanswered >= 3 {
					break
				}
			}
		}
		qc.Close()
		if unanswered >= 3 {
			c.Violation("no-response:quic:long-lived-connection", fmt.Sprintf("one DoQ connection, queries strictly one after the other (client FIN after the response: %v): query #%d and the ones after it got no response within 3 s (the first %d were answered)", late, first+1, first), map[string]any{"listener": "quic", "late_fin": late, "first_unanswered": first + 1})
		} else {
			c.Ev.Distinct("doq-long-lived", late)
			c.Ev.Count("doq_long_lived_connection_queries_answered", int64(130-unanswered))
		}
	}
	// liveness probe after everything
	for _, l := range c03Listeners {
		if !b.Proxy.Alive() {
			break
		}
		x := b.Exchange(l, mkQuery(77, "ok-final.tcp.test.", dns.TypeA, dns.ClassINET, false), xOpts{})
		c.Ev.Eval(1)
		if x.Err != nil || len(x.Resp) == 0 {
			c.Violation("final-probe:"+l, fmt.Sprintf("listener %s does not answer after the workload: %v", l, x.Err), map[string]any{"listener": l})
		}
	}
	alive := b.Proxy.Alive()
	res := b.Stop()
	if !alive {
		c.Violation("proxy-died", "the proxy process died during the workload: "+res.Panic, map[string]any{"panic": res.Panic, "exit": res.ExitCode})
	}
	c.procFailures(res, "c03")
	c.Ev.Set("race_reports_mosproxy", countMosRaces(res))
	c.Ev.Set("proxy_exit_code", res.ExitCode)
	_ = clock.Now
}
