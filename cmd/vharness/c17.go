package main

// C17 — peers are reached and authenticated exactly as configured.

func init() {
	register(&Check{ID: "C17", Level: "fault_enumeration", Rule: c17RuleText + " | certificate matrix (upstream kind x server certificate x tls options) and client-certificate matrix through the real binary, enumerated completely",
		Run: func(c *Ctx) {
			c17DialMatrix(c)
			c17Certs(c)
		}})
}
