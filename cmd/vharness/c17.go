package main

// C17 — peers are reached and authenticated exactly as configured.

func init() {
	register(&Check{ID: "C17", Level: "fault_enumeration", Rule: c17RuleText + " | certificate matrix (upstream kind x server certificate x tls options) and client-certificate matrix through the real binary, enumerated completely; the certificate matrix runs as directed per-server sequences (upstreams that differ only in their trust settings take turns on one server) followed by two parallel passes; two DoT and two DoH listeners with different client CAs in one proxy: a client served by one of them offers the session ticket it got there to the other (TLS 1.3 and 1.2) and must not be served; a tls section whose ca file does not exist (upstream and listener side) while the system trust store holds another CA: refused at start-up, or nothing is accepted; DoH peers (http, https, h3) that answer with a redirect to another host and port, which must see neither a connection nor a query",
		Run: func(c *Ctx) {
			c17DialMatrix(c)
			c17Fallback(c)
			c17Redirect(c)
			c17Certs(c)
		}})
}
