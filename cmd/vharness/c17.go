package main

// C17 — peers are reached and authenticated exactly as configured.

func init() {
	register(&Check{ID: "C17", Level: "fault_enumeration", Rule: c17RuleText + " | certificate matrix (upstream kind x server certificate x tls options) and client-certificate matrix through the real binary, enumerated completely; the certificate matrix runs as directed per-server sequences (upstreams that differ only in their trust settings take turns on one server) followed by two parallel passes",
		Run: func(c *Ctx) {
			c17DialMatrix(c)
			c17Fallback(c)
			c17Certs(c)
		}})
}
