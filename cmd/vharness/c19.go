package main

// C19 — prefetch is single-flight and never delays a cache hit.

import (
	"fmt"
	"hash/crc32"
	"os"
	"strings"
	"sync"
	"time"

	"github.com/IrineSistiana/mosproxy/verif/internal/clock"
	"github.com/IrineSistiana/mosproxy/verif/internal/gen"
	"github.com/IrineSistiana/mosproxy/verif/internal/fakeup"
	"github.com/miekg/dns"
)

func init() {
	register(&Check{ID: "C19", Level: "exploration",
		Rule: "keys with a 16 s lifetime; at age 12.3 s (inside the last quarter) a burst of N in {1, 8, 64, 200} concurrent hits over several listeners while the upstream answers refreshes after 1.5 s (success) or fails them (connection closed / silent / truncated reply); a 4.5 s refresh with a second burst; 48 questions entering their window together; keys belong to clients of two ip-marker groups; probes after the refresh; " +
			"one evaluation = one hit/probe response judged; distinct non-trivial = distinct (burst size, refresh outcome, phase: burst-hit / after-refresh / after-failed-refresh) combinations observed",
		Run: runC19})
}

func runC19(c *Ctx) {
	// two client groups (ip marker): every key belongs to one client, in one group, so a refresh
	// has to renew the entry of the right group while requests of the other group keep arriving
	// group L is a single host (a range that is not aligned to a /24: the address a refresh works
	// with must be the client's own, not its ECS prefix)
	marker := "127.0.0.1,127.0.0.1,L\n127.9.0.0,127.9.255.255,M\n"
	b, err := NewBed(c, "bed", BedOpts{Upstreams: []string{"pipe", "tcp", "dotp", "dot"}, IpMarker: marker, ECS: true, MemSize: 64 << 20, Listeners: []string{"udp", "tcp", "gnet", "http", "fasthttp"}, UdpRcvBuf: 8 << 20})
	if err != nil {
		c.startFailure(err, "c19")
		return
	}
	// refreshes (every fetch of a key after its first) are slow / fail, by the marker in the name
	var mu sync.Mutex
	seen := map[string]int{}
	// each refresh outcome has its own upstream, so that a connection closed on purpose cannot take
	// other keys' refreshes down with it (the transports would retry them: more upstream queries)
	upOf := map[string]string{"rfhang": "pipe", "rfok": "pipe", "rfclose": "tcp", "rfsilent": "dotp", "rftc": "dot", "rfshort": "pipe", "rfrefused": "pipe", "rfsubnets": "pipe"}
	hook := func(q *fakeup.QueryLog, d *fakeup.Directives) {
		k := chKey(q.Name, q.Qtype, q.Qclass)
		mu.Lock()
		seen[k]++
		n := seen[k]
		mu.Unlock()
		if n == 1 {
			return
		}
		switch {
		case strings.Contains(q.Name, "rfhang"):
			// the refresh hangs for 5.8 s, longer than the entry lives; the fetch after the expiry is quick
			// and its records live 3 s
			if n == 2 {
				d.Delay = 5800
			} else if n == 3 {
				d.TTL = 3
			}
		case strings.Contains(q.Name, "rfshort"):
			// a successful refresh whose records carry a smaller TTL than what is left of the old entry
			d.Delay = 500
			d.TTL = 2
		case strings.Contains(q.Name, "rfrefused"):
			d.Delay = 300
			d.Kind, d.RCode = "rc", 5 // the refresh is answered REFUSED: not a successful refresh
		case strings.Contains(q.Name, "rfsubnets"):
			d.Delay = 1500
		case strings.Contains(q.Name, "rfok"):
			d.Delay = 1500
		case strings.Contains(q.Name, "rflong"):
			d.Delay = 4500
		case strings.Contains(q.Name, "rfmany"):
			d.Delay = 500 + int(crc32.ChecksumIEEE([]byte(strings.ToLower(q.Name)))%4)*700 // refreshes of different questions end at different times
		case strings.Contains(q.Name, "rfclose"):
			d.Delay = 300
			d.Kind = "close"
		case strings.Contains(q.Name, "rfsilent"):
			d.Kind = "silent"
		case strings.Contains(q.Name, "rftc"):
			d.Delay = 300
			d.Kind = "tc" // a truncated reply (stream upstreams pass TC through) is not a successful refresh
		}
	}
	for _, u := range upOf {
		b.Up[u].SetHook(hook)
	}
	type key struct {
		name    string
		localIP string
		burst   int
		outcome string
		ttl     int       // lifetime of the entry in seconds
		hitAges []float64 // ages at which a burst of hits is fired
		group   string    // "" | "many": judged collectively
		first   *chResp
		hits    []*chResp
		after   []*chResp
	}
	var keys []*key
	bursts := []int{1, 8, 64, 200}
	reps := c.N(1, 4)
	for rep := 0; rep < reps; rep++ {
		for _, n := range bursts {
			for _, oc := range []string{"rfok", "rfclose", "rfsilent", "rftc", "rfshort", "rfrefused"} {
				keys = append(keys, &key{name: fmt.Sprintf("ok-n2-ttl16-%s-b%dr%dx%d.%s.test.", oc, n, rep, c.Seed, upOf[oc]), burst: n, outcome: oc, ttl: 16, hitAges: []float64{12.3}})
			}
		}
		// one question asked by clients of eight different /24 networks that share a client group (ECS is
		// on: their upstream queries differ, their cache entry and its refresh do not)
		for i := 0; i < 2; i++ {
			keys = append(keys, &key{name: fmt.Sprintf("ok-n2-ttl16-rfsubnets-s%dr%dx%d.pipe.test.", i, rep, c.Seed), burst: 32, outcome: "rfsubnets", ttl: 16, hitAges: []float64{12.3}, group: "subnets"})
		}
		// a refresh (started at 14.5 s, pending for 5.8 s) that is still pending when its entry has expired
		// (16 s), been fetched anew on the request path (17.2 s, 3 s of lifetime) and is hit in its last
		// quarter again (19.6 s): the first refresh still holds the question's single flight. (When the
		// cache clock makes one of these queries a miss or a late hit, nothing is judged for that key.)
		for i := 0; i < 4; i++ {
			keys = append(keys, &key{name: fmt.Sprintf("ok-n2-ttl16-rfhang-g%dr%dx%d.pipe.test.", i, rep, c.Seed), burst: 1, outcome: "rfhang", ttl: 16, hitAges: []float64{14.5, 17.2, 19.6}})
		}
		// a refresh that takes 4.5 s, and a second burst 3.5 s after the one that started it
		for i := 0; i < 2; i++ {
			keys = append(keys, &key{name: fmt.Sprintf("ok-n2-ttl26-rflong-l%dr%dx%d.pipe.test.", i, rep, c.Seed), burst: 8, outcome: "rflong", ttl: 26, hitAges: []float64{19.8, 23.4}})
		}
		// many distinct questions in their refresh window at the same moment, slow refreshes
		// (256 of them: whatever table keeps the reservations gets collisions; every question is hit
		// again while its own refresh and those of the others are in flight or just over)
		for i := 0; i < 256; i++ {
			keys = append(keys, &key{name: fmt.Sprintf("ok-n1-ttl16-rfmany-m%dr%dx%d.pipe.test.", i, rep, c.Seed), burst: 1, outcome: "rfmany", ttl: 16, hitAges: []float64{12.3, 13.0, 13.6}, group: "many"})
		}
	}
	for i, k := range keys {
		k.localIP = "127.0.0.1"
		if i%2 == 1 {
			k.localIP = fmt.Sprintf("127.9.0.%d", 1+i%200)
		}
	}
	h := &chHist{}
	lag := startLagMonitor()
	defer lag.Stop()
	// an entry is only relied upon while more than 2.3 s of its lifetime remain (1 s cache clock
	// granularity + 1.3 s for scheduling)
	const guard = 2300 * time.Millisecond
	listeners := []string{"udp", "tcp", "gnet", "http", "fasthttp"}
	// keep the pooled upstream connections busy: an idle pipelined connection is closed by its
	// read deadline even with a query in flight, and the retry would look like a second refresh
	stopKA := make(chan struct{})
	go func() {
		for i := 0; ; i++ {
			select {
			case <-stopKA:
				return
			case <-time.After(1500 * time.Millisecond):
			}
			for _, u := range upOf {
				go b.Exchange("udp", mkQuery(uint16(i), fmt.Sprintf("ok-keepalive%d.%s.test.", i, u), dns.TypeA, dns.ClassINET, false), xOpts{Timeout: 3 * time.Second, LocalIP: []string{"127.0.0.1", "127.9.1.1", "127.5.0.1"}[i%3]})
			}
		}
	}()
	var wg sync.WaitGroup
	for ki, k := range keys {
		wg.Add(1)
		go func(ki int, k *key) {
			defer wg.Done()
			if k.group == "many" {
				time.Sleep(time.Duration(ki%48*15) * time.Millisecond) // all of them hit their window together
			} else {
				time.Sleep(time.Duration(ki*130) * time.Millisecond) // stagger the bursts
			}
			if k.group == "subnets" {
				k.localIP = "127.9.10.7"
			}
			k.first = h.query(b, "tcp", k.localIP, "", k.name, dns.TypeA, dns.ClassINET, "store", "")
			if k.first.Err != "" || k.first.Serial == 0 {
				return
			}
			base := k.first.TRecv
			sleepUntil := func(age float64) {
				if d := time.Duration(base + int64(age*float64(time.Second)) - clock.Now()); d > 0 {
					time.Sleep(d)
				}
			}
			for _, age := range k.hitAges {
				sleepUntil(age)
				var bw sync.WaitGroup
				var hm sync.Mutex
				for i := 0; i < k.burst; i++ {
					bw.Add(1)
					go func(i int) {
						defer bw.Done()
						ip := k.localIP
						if k.group == "subnets" {
							ip = fmt.Sprintf("127.9.%d.7", 10+i%8) // group M, eight /24s
						}
						// (every other hit spells the name in its own mix of upper and lower case: one
						// question, one cache entry, one refresh)
						qn := k.name
						if i%2 == 1 {
							qn = c03RandCase(gen.New(c.Seed, "c19case/"+k.name, i), k.name)
						}
						r := h.query(b, listeners[(i+ki)%len(listeners)], ip, "", qn, dns.TypeA, dns.ClassINET, "burst", "")
						hm.Lock()
						k.hits = append(k.hits, r)
						hm.Unlock()
					}(i)
				}
				bw.Wait()
			}
			if k.outcome == "rflong" || k.outcome == "rfhang" || k.group == "many" || k.group == "subnets" {
				return
			}
			ages := []float64{13.0, 14.7, 15.4}
			if k.outcome == "rfshort" {
				ages = []float64{13.6, 13.9} // the 2 s refresh arrives at 12.8 s
			} else if k.outcome != "rfok" {
				ages = []float64{12.9, 13.3}
			} else {
				// 2.5 s after the first reply's lifetime has ended: the refreshed reply (stored at about
				// 13.7 s, 16 s of lifetime) is what the cache holds now
				ages = append(ages, 18.5)
			}
			for _, age := range ages {
				sleepUntil(age)
				r := h.query(b, listeners[ki%len(listeners)], k.localIP, "", k.name, dns.TypeA, dns.ClassINET, fmt.Sprintf("after@%.1f", age), "")
				k.after = append(k.after, r)
			}
		}(ki, k)
	}
	wg.Wait()
	close(stopKA)
	fetches := map[string][]*chFetch{}
	for _, u := range upOf {
		for k, v := range fetchesOf(b, u) {
			fetches[k] = v
		}
	}
	alive := b.Proxy.Alive()
	res := b.Stop()
	if !alive {
		c.Violation("proxy-died", "the proxy died in the C19 scenario: "+res.Panic, map[string]any{"panic": res.Panic})
		return
	}
	overloaded := lag.overloaded()
	c.Ev.Set("max_timer_lag_ms", lag.Max().Milliseconds())
	if overloaded {
		c.Inconclusive(fmt.Sprintf("machine overloaded (timer lag %v): lifetime-dependent verdicts are not sound, they are recorded as inconclusive", lag.Max()))
	}
	// verdicts that rely on "the entry is still alive" are only sound when timers (here and in the
	// proxy's cache clock) are not starved
	lifeViolation := func(sig, what string, cs map[string]any) {
		if overloaded {
			c.Ev.Count("lifetime_dependent_candidates_dropped_because_overloaded", 1)
			return
		}
		c.Violation(sig, what, cs)
	}
	manyHits, manySlow := 0, 0
	defer func() {
		if manyHits > 0 && manySlow*4 >= manyHits {
			c.Violation("hit-delayed-by-refresh:many-keys", fmt.Sprintf("%d of %d cache hits for distinct questions that entered their refresh window together took more than 1.2 s (refreshes take 3 s): hits waited for refreshes of other questions", manySlow, manyHits), map[string]any{"slow": manySlow, "hits": manyHits})
		} else if manyHits > 0 {
			c.Ev.Distinct("many-keys", manyHits >= 40)
			c.Ev.Count("many_keys_hits_checked", int64(manyHits))
		}
	}()
	for _, k := range keys {
		if k.first == nil || k.first.Err != "" || k.first.Serial == 0 {
			c.Inconclusive("store query failed for " + k.name)
			continue
		}
		fs := fetches[chKey(k.name, dns.TypeA, dns.ClassINET)]
		old := k.first.Serial
		cs := func(extra map[string]any) map[string]any {
			m := map[string]any{"key": k.name, "burst": k.burst, "refresh_outcome": k.outcome, "fetches": len(fs), "old_serial": old}
			for a, b := range extra {
				m[a] = b
			}
			return m
		}
		// (1) burst hits: old serial, fast
		okHits := 0
		var slow []*chResp
		for _, r := range k.hits {
			c.Ev.Eval(1)
			if r.Err != "" {
				c.Inconclusive("burst query failed: " + r.Err)
				continue
			}
			lat := time.Duration(r.TRecv - r.TSend)
			age := time.Duration(r.TSend - k.first.TRecv)
			if k.outcome == "rfhang" {
				continue // only the upstream fetches of these keys are judged
			}
			if age > time.Duration(k.ttl)*time.Second-guard { // scheduling pushed this hit outside the guaranteed lifetime
				c.Inconclusive("burst hit sent too late")
				continue
			}
			if lat > 1200*time.Millisecond {
				slow = append(slow, r)
				continue
			}
			refreshed := false // a later hit may already see what a completed background refresh stored
			for _, f := range fs[min(1, len(fs)):] {
				if f.Serial == r.Serial && f.TSend != 0 && f.TSend <= r.TRecv {
					refreshed = true
				}
			}
			if refreshed {
				okHits++
				continue
			}
			if r.Serial != old {
				lifeViolation("hit-not-from-cache:"+k.outcome, fmt.Sprintf("a query at age %v of a %d s entry was answered with reply %d instead of the cached reply %d", age, k.ttl, r.Serial, old), cs(map[string]any{"serial": r.Serial, "listener": r.Listener}))
				continue
			}
			okHits++
		}
		// a hit that waits for the upstream is slow by construction (refresh >= 1.5 s); a single slow hit in a
		// large burst can be scheduling noise, so at least a quarter of the burst must be slow
		if k.group == "many" {
			manyHits += len(k.hits)
			manySlow += len(slow)
			slow = nil
		}
		if len(slow) > 0 && len(slow)*4 >= len(k.hits) {
			lat := time.Duration(slow[0].TRecv - slow[0].TSend)
			c.Violation("hit-delayed-by-refresh:"+k.outcome, fmt.Sprintf("%d of %d cache hits inside the refresh window took more than 1.2 s (first: %v; the refresh takes 1.5 s or more): hits waited for the upstream", len(slow), len(k.hits), lat), cs(map[string]any{"latency_ms": lat.Milliseconds(), "listener": slow[0].Listener}))
		} else if len(slow) > 0 {
			c.Inconclusive(fmt.Sprintf("%d of %d burst hits were slow (scheduling noise)", len(slow), len(k.hits)))
		}
		// (2) background refreshes never overlap. A fetch that a response triggered on the request path
		// (the query was in flight when the fetch reached the upstream and the response does not show an
		// older cached reply) is not a refresh: a lost/expired entry is C07's and C08's business.
		all := append(append([]*chResp{k.first}, k.hits...), k.after...)
		background := func(f *chFetch) bool {
			for _, r := range all {
				if r != nil && r.TSend <= f.TRecv && (r.TRecv == 0 || f.TRecv <= r.TRecv) && (r.Err != "" || r.Serial == 0 || r.Serial == f.Serial) {
					return false
				}
			}
			return true
		}
		if os.Getenv("VERIF_DEBUG") != "" && k.outcome == "rflong" {
			for i, f := range fs {
				fmt.Printf("DEBUG %s fetch#%d recv=%.3f send=%.3f connEnd=%.3f serial=%d bg=%v\n", k.name, i, float64(f.TRecv)/1e9, float64(f.TSend)/1e9, float64(f.ConnEnd)/1e9, f.Serial, background(f))
			}
		}
		for i := 1; i < len(fs); i++ {
			if !background(fs[i]) {
				continue
			}
			for j := i + 1; j < len(fs); j++ {
				if !background(fs[j]) {
					continue
				}
				endI := fs[i].TSend
				if endI == 0 { // never answered (silent / closed): the proxy waits for its 6 s prefetch timeout or the connection error
					if k.outcome == "rfsilent" {
						endI = fs[i].TRecv + int64(5500*time.Millisecond)
					} else if k.outcome == "rfhang" || k.outcome == "rflong" || k.outcome == "rfmany" || k.outcome == "rfok" || k.outcome == "rfshort" || k.outcome == "rfsubnets" || k.outcome == "rfrefused" {
						// the scripted delay had not elapsed when the log was read: the refresh is in flight
						// until the reply is sent (a little less, to stay on the safe side)
						endI = fs[i].TRecv + map[string]int64{"rfhang": 5700, "rflong": 4400, "rfmany": 400, "rfok": 1400, "rfshort": 400, "rfsubnets": 1400, "rfrefused": 250}[k.outcome]*int64(time.Millisecond)
					} else {
						endI = fs[i].TRecv + int64(280*time.Millisecond) // the scripted close happens 300 ms after the query arrived
					}
				}
				// an attempt whose connection the proxy closed is over (the transport retries on another one)
				if ce := fs[i].ConnEnd; ce != 0 && ce < endI {
					endI = ce
				}
				if fs[j].TRecv < endI {
					c.Violation("overlapping-refresh:"+k.outcome, fmt.Sprintf("two upstream fetches for one question in flight at once: #%d arrived %v after #%d which was still unanswered (burst of %d hits)", j, time.Duration(fs[j].TRecv-fs[i].TRecv), i, k.burst),
						cs(map[string]any{"fetch_i": fs[i], "fetch_j": fs[j]}))
				}
			}
		}
		if len(fs) < 2 && okHits > 0 {
			lifeViolation("no-refresh:"+k.outcome, fmt.Sprintf("%d hits in the last quarter of the entry's lifetime did not start any background refresh", okHits), cs(nil))
			continue
		}
		phase := "burst-hit"
		c.Ev.Distinct(k.burst, k.outcome, phase)
		c.Ev.Count("burst_hits_checked", int64(okHits))
		c.Ev.Count(fmt.Sprintf("refresh_fetches_%s", k.outcome), int64(len(fs)-1))
		// (3)/(4) probes after the refresh
		for _, r := range k.after {
			c.Ev.Eval(1)
			if r.Err != "" {
				c.Inconclusive("probe failed: " + r.Err)
				continue
			}
			age := time.Duration(r.TSend - k.first.TRecv)
			switch k.outcome {
			case "rfok", "rfshort":
				// the refresh reply was sent at fs[1].TSend; a probe sent 700 ms later must see the renewed entry
				if len(fs) >= 2 && fs[1].TSend != 0 && r.TSend > fs[1].TSend+int64(700*time.Millisecond) {
					if k.outcome == "rfok" && age > time.Duration(k.ttl)*time.Second && r.Serial != fs[1].Serial && r.Serial != old {
						// past the first reply's lifetime, well inside the refreshed one's (and before its last quarter)
						lifeViolation("refresh-did-not-extend-lifetime", fmt.Sprintf("probe at age %v - %v after the refresh reply %d (ttl %d) was sent, the first reply's lifetime over - shows reply %d fetched anew (%d upstream fetches): the refreshed entry was gone although most of its lifetime remained", age, time.Duration(r.TSend-fs[1].TSend), fs[1].Serial, k.ttl, r.Serial, len(fs)), cs(map[string]any{"serial": r.Serial}))
						continue
					}
					if r.Serial == old {
						c.Violation("refresh-did-not-replace", fmt.Sprintf("probe at age %v, %v after the refresh reply, still shows the old reply %d (new reply %d was not stored)", age, time.Duration(r.TSend-fs[1].TSend), old, fs[1].Serial), cs(map[string]any{"serial": r.Serial}))
						continue
					}
					if r.Serial == fs[1].Serial {
						maxTTL := uint32(0)
						for _, rr := range r.Msg.Answer {
							if rr.Header().Ttl > maxTTL {
								maxTTL = rr.Header().Ttl
							}
						}
						if maxTTL > uint32(k.ttl) || (k.outcome == "rfshort" && maxTTL > 2) {
							c.Violation("refresh-ttl", fmt.Sprintf("renewed entry shows ttl %d > %d", maxTTL, k.ttl), cs(nil))
							continue
						}
						c.Ev.Distinct(k.burst, k.outcome, "after-refresh")
						c.Ev.Count("probes_showing_renewed_entry", 1)
					}
				} else if age < time.Duration(k.ttl)*time.Second-guard && r.Serial != old && r.Serial != 0 && (len(fs) < 2 || r.Serial != fs[1].Serial) {
					lifeViolation("hit-not-from-cache:"+k.outcome, fmt.Sprintf("probe at age %v shows reply %d, neither the cached one (%d) nor the refresh", age, r.Serial, old), cs(nil))
				}
			default: // failed refresh: the old entry stays usable until it expires
				if age < time.Duration(k.ttl)*time.Second-guard {
					if r.Serial != old {
						lifeViolation("failed-refresh-lost-entry:"+k.outcome, fmt.Sprintf("after a failed refresh the probe at age %v (entry lifetime 16 s) was not answered from the old entry (rcode %d, reply %d, cached %d)", age, r.Rcode, r.Serial, old), cs(map[string]any{"serial": r.Serial, "rcode": r.Rcode}))
						continue
					}
					c.Ev.Distinct(k.burst, k.outcome, "after-failed-refresh")
					c.Ev.Count("probes_served_old_entry_after_failed_refresh", 1)
				}
			}
		}
	}
	c.Ev.Sample(map[string]any{"keys": len(keys), "bursts": bursts, "example": keys[0].name})
}
