package main

// C06, twins: concurrent callers that ask the very same question (same name, type, class - only
// the message ID differs, which is what several clients behind one forwarder look like) through
// the TCP fallback of a udp:// upstream (UDP leg always TC=1) and through a ReuseConnTransport.
// The server sends exactly one reply per query it receives, each with a nonce of its own. Every
// exchange that returns a message must return one with its own ID, and no reply (nonce) may be
// returned by two exchanges: with one reply per query, a reply that satisfied two exchanges was
// the reply to somebody else's query for at least one of them.

import (
	"fmt"
	"net"
	"sync"
	"time"

	"github.com/IrineSistiana/mosproxy/internal/upstream"
	"github.com/IrineSistiana/mosproxy/internal/upstream/transport"
	"github.com/IrineSistiana/mosproxy/verif/internal/gen"
	"github.com/IrineSistiana/mosproxy/verif/internal/scripted"
)

func c06Twins(c *Ctx) {
	rounds := c.N(6, 60)
	for _, variant := range []string{"fallback", "reuse"} {
		sigID := "twins:foreign-id:" + variant
		sigDup := "twins:one-reply-returned-to-two-exchanges:" + variant
		tcpSrv := scripted.NewServer(func(q *scripted.Query) scripted.Action {
			return scripted.Action{Tag: "slow-whole", Leg: scripted.LegTCP, Delay: 15 * time.Millisecond}
		})
		var tr transport.Transport
		var udpSrv *scripted.Server
		if variant == "reuse" {
			l, err := net.Listen("tcp4", "127.0.0.1:0")
			if err != nil {
				c.Inconclusive("C06 twins listen: " + err.Error())
				tcpSrv.Close()
				continue
			}
			tcpSrv.ServeStream(l)
			d := &scripted.Dialer{Network: "tcp", Addr: l.Addr().String()}
			tr = transport.NewReuseConnTransport(transport.ReuseConnOpts{DialContext: d.DialContext, IdleTimeout: time.Second})
		} else {
			l, u, port, err := scripted.ListenTCPUDP()
			if err != nil {
				c.Inconclusive("C06 twins listen: " + err.Error())
				tcpSrv.Close()
				continue
			}
			u.SetReadBuffer(2 << 20)
			tcpSrv.ServeStream(l)
			udpSrv = scripted.NewServer(func(q *scripted.Query) scripted.Action {
				return scripted.Action{Tag: "udp-tc", TC: true, Leg: scripted.LegUDP}
			})
			udpSrv.ServePacket(u)
			up, err := upstream.NewUpstream(fmt.Sprintf("udp://127.0.0.1:%d", port), upstream.Opt{})
			if err != nil {
				c.Inconclusive("C06 twins NewUpstream: " + err.Error())
				tcpSrv.Close()
				udpSrv.Close()
				continue
			}
			tr = up
		}
		var all []*c06Ex
		for round := 0; round < rounds && !c.Seen(sigID) && !c.Seen(sigDup); round++ {
			r := gen.New(c.Seed, "c06twins/"+variant, round)
			twins := gen.Pick(r, []int{2, 3, 4, 8})
			name := fmt.Sprintf("twins-%s-r%d.c06.test.", variant, round)
			exs := make([]*c06Ex, twins)
			var wg sync.WaitGroup
			for i := range exs {
				exs[i] = &c06Ex{Caller: i, K: round, Name: name, CallerID: uint16(1000*round + 7*i + 1), DeadUs: 3000000, DMode: "generous", RMode: "slow-whole"}
				wg.Add(1)
				go func(ex *c06Ex, stagger int) {
					defer wg.Done()
					time.Sleep(time.Duration(stagger) * time.Millisecond) // later twins arrive while the first one's TCP exchange is under way
					c06Do(tr, ex)
				}(exs[i], i*r.Range(0, 4))
			}
			wg.Wait()
			byNonce := map[uint64]*c06Ex{}
			for _, ex := range exs {
				c.Ev.Eval(1)
				all = append(all, ex)
				if !ex.Returned {
					c.Ev.Count("twins_exchanges_failed:"+variant, 1)
					continue
				}
				if ex.FromUDPLeg {
					continue // C16's subject
				}
				c.Ev.Count("twins_exchanges_returned_a_message:"+variant, 1)
				if ex.GotID != ex.CallerID {
					c.Violation(sigID, fmt.Sprintf("%s: %d callers asked %q at the same time with message IDs of their own; the caller with ID %d got a message with ID %d back (the server sent one reply per query it received, each with the ID of its query)", variant, twins, name, ex.CallerID, ex.GotID),
						map[string]any{"fn": "c06Twins", "variant": variant, "round": round, "exchanges": exs})
					break
				}
				if ex.HasNonce {
					if other := byNonce[ex.Nonce]; other != nil {
						c.Violation(sigDup, fmt.Sprintf("%s: %d callers asked %q at the same time; the callers with IDs %d and %d both got the server's reply with nonce %d (one reply per query was sent, so one of them did not get the reply to its own query)", variant, twins, name, other.CallerID, ex.CallerID, ex.Nonce),
							map[string]any{"fn": "c06Twins", "variant": variant, "round": round, "exchanges": exs})
						break
					}
					byNonce[ex.Nonce] = ex
				}
			}
			c.Ev.Distinct("twins", variant, twins)
		}
		tr.Close()
		snap := tcpSrv.Snapshot()
		c.Ev.Count("twins_tcp_queries_received:"+variant, int64(len(snap.Queries)))
		tcpSrv.Close()
		if udpSrv != nil {
			udpSrv.Close()
		}
		_ = all
	}
	c.Ev.Sample(map[string]any{"part": "twins", "callers_per_question": "2-8", "tcp_reply_delay_ms": 15, "variants": []string{"fallback", "reuse"}})
}
