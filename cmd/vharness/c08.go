package main

// C08 — cached answers age correctly and expire on time; truncated replies and failed
// exchanges are never cached; an error response never displaces a live positive entry.
// Real time, one-sided bounds that stay sound under arbitrary scheduling delay.

import (
	"fmt"
	"strings"
	"sync"
	"time"

	"github.com/IrineSistiana/mosproxy/verif/internal/clock"
	"github.com/IrineSistiana/mosproxy/verif/internal/fakeup"
	"github.com/miekg/dns"
)

func init() {
	register(&Check{ID: "C08", Level: "exploration",
		Rule: "keys with TTL vectors {0,1,2,3,5,8, mixed, 2^31, 2^32-1, OPT present} x rcodes {0,2,3,9} x record-less NOERROR x TC x failed exchanges x maximum_ttl {default, 3}, probed at scheduled ages before and after each key's reference lifetime in one wall-clock window; displacement scenario through the prefetch window (refresh answered SERVFAIL / NXDOMAIN / REFUSED / rcode 9 / TC=1); negative answers whose SOA outlives their other authority record; two proxies sharing a second-level cache (ageing and expiry across the promotion, also of the promoted memory copy); cache hits held up for 2.3 s inside the lookup (delay point) whose TTLs must count up to the moment the answer is put together; concurrent positive / negative stores of one key; " +
			"one evaluation = one probe response judged; distinct non-trivial = distinct (config, key kind, probe phase: fresh / aged-from-cache / after-expiry) combinations observed",
		Run: runC08})
}

type c08Key struct {
	First            string    // first label (directives)
	Probes           []float64 // ages (seconds after the first response) at which to probe
	MustRefetchAfter float64   // 0 = n/a; probes with age > this must not be served the old entry (lifetime + 3)
	NeverCached      bool
	Flip             string // "" | rcode kind the upstream switches to after the first fetch (displacement scenario)
	Kind             string
}

func c08Lifetime(m *dns.Msg, capSec int) int {
	minTTL := ^uint32(0)
	has := false
	for _, sec := range [][]dns.RR{m.Answer, m.Ns, m.Extra} {
		for _, rr := range sec {
			if rr.Header().Rrtype == dns.TypeOPT {
				continue
			}
			has = true
			if rr.Header().Ttl < minTTL {
				minTTL = rr.Header().Ttl
			}
		}
	}
	lim := func(def int64) int64 {
		if has && int64(minTTL) < def {
			return int64(minTTL)
		}
		return def
	}
	var ttl int64
	switch m.Rcode {
	case dns.RcodeNameError:
		ttl = lim(30)
	case dns.RcodeServerFailure:
		ttl = lim(1)
	case dns.RcodeSuccess:
		if has {
			ttl = int64(minTTL)
		} else {
			ttl = 30
		}
	default:
		ttl = lim(5)
	}
	if ttl <= 0 {
		ttl = 1
	}
	if capSec <= 0 {
		capSec = 6 * 3600
	}
	if ttl > int64(capSec) {
		ttl = int64(capSec)
	}
	return int(ttl)
}

func runC08(c *Ctx) {
	var wg sync.WaitGroup
	for _, capSec := range []int{0, 3} {
		wg.Add(1)
		go func(capSec int) {
			defer wg.Done()
			c08Run(c, capSec)
		}(capSec)
	}
	wg.Add(1)
	go func() { defer wg.Done(); c08Redis(c); c08Stall(c) }()
	wg.Wait()
	c08StoreRace(c) // after the timed scenarios: it is CPU bound and would starve their clocks
}

func c08Run(c *Ctx, capSec int) {
	cfgName := fmt.Sprintf("cap%d", capSec)
	// "pipe" (pipelined) carries every well-behaved key; keys whose upstream reply is garbage, a closed
	// connection or silence use "tcp" (one query per connection), so that a connection killed on purpose
	// cannot fail - and make the transport retry - the fetches of other keys
	b, err := NewBed(c, cfgName, BedOpts{Upstreams: []string{"pipe", "tcp"}, MemSize: 64 << 20, MaxTTL: capSec, Listeners: []string{"tcp", "gnet", "udp", "http"}})
	if err != nil {
		c.startFailure(err, cfgName)
		return
	}
	// displacement scenario: after the first fetch of a "flip" key the upstream answers with an error
	var flipMu sync.Mutex
	flipFirst := map[string]int64{} // key -> arrival of its first fetch
	b.Up["pipe"].SetHook(func(q *fakeup.QueryLog, d *fakeup.Directives) {
		if !strings.Contains(q.Name, "flip") {
			return
		}
		k := chKey(q.Name, q.Qtype, q.Qclass)
		flipMu.Lock()
		t0, seen := flipFirst[k]
		if !seen {
			flipFirst[k] = q.TRecv
			t0 = q.TRecv
		}
		flipMu.Unlock()
		// every fetch within 3 s of the first one (a retry of the transport) still gets the positive answer
		if q.TRecv-t0 > int64(3*time.Second) {
			switch {
			case strings.Contains(q.Name, "flipnx"):
				d.Kind = "nx"
			case strings.Contains(q.Name, "fliprf"):
				d.Kind, d.RCode = "rc", 5
			case strings.Contains(q.Name, "fliprc9"):
				d.Kind, d.RCode = "rc", 9
			case strings.Contains(q.Name, "fliptc"):
				d.Kind = "tc" // the refresh is answered with a truncated reply (a stream upstream passes TC through)
			default:
				d.Kind, d.RCode = "rc", 2
			}
		}
	})
	thorough := c.Tier == "thorough"
	var keys []c08Key
	add := func(first, kind string, probes ...float64) {
		keys = append(keys, c08Key{First: first, Kind: kind, Probes: probes})
	}
	for _, ttl := range []int{0, 1, 2, 3, 5, 8} {
		add(fmt.Sprintf("ok-n3-ttl%d", ttl), fmt.Sprintf("ok-ttl%d", ttl), 0.3, 1.2, 2.3, float64(ttl)-1.4, float64(ttl)+3.3, float64(ttl)+4.5)
	}
	add("ok-n4-ttlm-ttl3", "ok-mixed-ttl", 0.3, 1.2, 2.3, 6.4)
	add("ok-n3-ttl60-nsttl3", "ok-min-ttl-in-authority", 0.3, 1.2, 2.3, 6.4, 7.6)
	add("ok-n4-ttl60-nsttl2", "ok-min-ttl-in-additional", 0.3, 1.2, 5.4, 6.6)
	add("ok-n4-ttl2-nsttl60", "ok-min-ttl-in-answer", 0.3, 1.2, 5.4, 6.6)
	add("ok-opt-n2-ttl5", "ok-opt", 0.3, 1.2, 3.3, 8.4)
	add("ok-n2-ttl2147483648", "ok-ttl-2^31", 0.3, 1.3, 2.3, 6.5, 9.5)
	add("ok-n2-ttl4294967295", "ok-ttl-2^32-1", 0.3, 1.3, 2.3, 6.5, 9.5)
	add("nx-ttl2", "nx-ttl2", 0.3, 1.2, 5.3)
	add("nx-ttl60", "nx-ttl60", 0.3, 1.3, 5.3, 9.3)
	// negative answers whose SOA lives long and whose other authority record (an NSEC-like proof) only 3 s
	add("nx-ttl600-nsttl3", "nx-short-proof", 0.3, 1.2, 6.4, 7.6)
	add("nodata-ttl600-nsttl3", "nodata-short-proof", 0.3, 1.2, 6.4, 7.6)
	add("nodata-ttl4", "nodata-ttl4", 0.3, 1.2, 7.4)
	add("rc9", "rc9", 0.3, 2.2, 8.3)
	add("servfail", "servfail-reply", 0.2, 4.3, 8.6)
	add("empty", "empty", 0.3, 1.3, 5.3, 9.3)
	keys = append(keys, c08Key{First: "tc-n2-ttl300", Kind: "tc", Probes: []float64{0.3, 1.3, 2.3, 3.3}, NeverCached: true})
	keys = append(keys, c08Key{First: "garbage", Kind: "garbage", Probes: []float64{0.3, 1.3}, NeverCached: true})
	keys = append(keys, c08Key{First: "close", Kind: "close", Probes: []float64{0.3, 1.3}, NeverCached: true})
	keys = append(keys, c08Key{First: "silent", Kind: "silent", Probes: []float64{0.2}, NeverCached: true})
	if capSec == 0 {
		keys = append(keys, c08Key{First: "ok-n2-ttl16-flipsf", Kind: "flip-servfail", Probes: []float64{1.0, 12.4, 12.9, 13.2, 13.5}, Flip: "sf"})
		keys = append(keys, c08Key{First: "ok-n2-ttl16-flipnx", Kind: "flip-nx", Probes: []float64{1.0, 12.4, 12.9, 13.2, 13.5}, Flip: "nx"})
		keys = append(keys, c08Key{First: "ok-n2-ttl16-fliprf", Kind: "flip-refused", Probes: []float64{1.0, 12.4, 12.9, 13.2, 13.5}, Flip: "rf"})
		keys = append(keys, c08Key{First: "ok-n2-ttl16-fliptc", Kind: "flip-tc", Probes: []float64{1.0, 12.4, 12.9, 13.2, 13.5}, Flip: "tc"})
		keys = append(keys, c08Key{First: "ok-n2-ttl16-fliprc9", Kind: "flip-rcode9", Probes: []float64{1.0, 12.4, 12.9, 13.2, 13.5}, Flip: "rc9"})
	}
	if !thorough && capSec == 0 {
		// the 30 s limit of NXDOMAIN / record-less answers whose records would allow more: one probe
		// inside, one after 30 s + the 2 s allowance (this sets the wall time of the quick tier)
		add("nx-ttl600", "nx-ttl600", 0.5, 25.2, 33.6)
		add("empty-x", "empty-30s", 0.5, 25.2, 33.6)
	}
	if thorough {
		add("nx-ttl600", "nx-ttl600", 0.5, 10.3, 25.2, 33.6, 35)
		add("empty-x", "empty-30s", 0.5, 10.3, 25.2, 33.6, 35)
		add("ok-n2-ttl30", "ok-ttl30", 0.5, 10.3, 20.2, 27.5, 33.6, 35)
	}
	copies := c.N(3, 10)
	h := &chHist{}
	lag := startLagMonitor()
	defer lag.Stop()
	var wg sync.WaitGroup
	listeners := []string{"tcp", "gnet", "udp", "http"}
	// keep the pooled pipelined connections busy: an idle one is closed by its read deadline even with a
	// query in flight, and the transport's retry would be a second fetch
	stopKA := make(chan struct{})
	go func() {
		for i := 0; ; i++ {
			select {
			case <-stopKA:
				return
			case <-time.After(1200 * time.Millisecond):
			}
			for k := 0; k < 4; k++ {
				go b.Exchange("udp", mkQuery(uint16(i), fmt.Sprintf("ok-keepalive%dx%d.pipe.test.", i, k), dns.TypeA, dns.ClassINET, false), xOpts{Timeout: 3 * time.Second})
			}
		}
	}()
	type runKey struct {
		c08Key
		up    string
		name  string
		qt    uint16
		first *chResp
	}
	var rks []*runKey
	for ci := 0; ci < copies; ci++ {
		for ki, k := range keys {
			up := "pipe"
			if k.Kind == "garbage" || k.Kind == "close" || k.Kind == "silent" {
				up = "tcp"
			}
			rk := &runKey{c08Key: k, up: up, name: fmt.Sprintf("%s-c%dk%dx%d.%s.test.", k.First, ci, ki, c.Seed, up), qt: []uint16{dns.TypeA, dns.TypeTXT, dns.TypeMX}[(ci+ki)%3]}
			rks = append(rks, rk)
			wg.Add(1)
			go func(rk *runKey, li int) {
				defer wg.Done()
				time.Sleep(time.Duration(li*37%900) * time.Millisecond) // spread the starts
				l := listeners[li%len(listeners)]
				rk.first = h.query(b, l, "", "", rk.name, rk.qt, dns.ClassINET, rk.Kind+":first", "")
				base := rk.first.TRecv
				for _, age := range rk.Probes {
					if age <= 0 {
						continue
					}
					target := base + int64(age*float64(time.Second))
					if d := time.Duration(target - clock.Now()); d > 0 {
						time.Sleep(d)
					}
					h.query(b, listeners[(li+1)%len(listeners)], "", "", rk.name, rk.qt, dns.ClassINET, rk.Kind, "")
				}
			}(rk, ci*len(keys)+ki)
		}
	}
	wg.Wait()
	// quiet phase for the keys that must never be cached: two probes in a row with nothing else going
	// on, and the proxy's own cache-hit counter read before and after. "No upstream contact" alone
	// can also be an exchange that failed locally (a broken transport is not a cache); the counter
	// tells the two apart.
	quietHits := map[string]float64{}
	for _, rk := range rks {
		if !rk.NeverCached || !b.Proxy.Alive() {
			continue
		}
		if rk.Kind == "silent" && !thorough { // two 6 s time-outs in a row: thorough tier only
			quietHits[rk.name] = -2
			continue
		}
		m0, ok0 := bedMetric(b, "query_cache_hit_total")
		for k := 0; k < 2; k++ {
			b.Exchange("tcp", mkQuery(uint16(7000+k), rk.name, rk.qt, dns.ClassINET, false), xOpts{Timeout: 8 * time.Second})
		}
		m1, ok1 := bedMetric(b, "query_cache_hit_total")
		if ok0 && ok1 {
			quietHits[rk.name] = m1 - m0
		} else {
			quietHits[rk.name] = -1
		}
	}
	close(stopKA)
	fetches := fetchesOf(b, "pipe")
	for k, v := range fetchesOf(b, "tcp") {
		fetches[k] = v
	}
	alive := b.Proxy.Alive()
	res := b.Stop()
	if !alive {
		c.Violation("proxy-died", "the proxy died in the C08 scenario: "+res.Panic, map[string]any{"panic": res.Panic})
		return
	}
	// ---- judge
	overloaded := lag.overloaded()
	c.Ev.Set("max_timer_lag_ms_"+cfgName, lag.Max().Milliseconds())
	if overloaded {
		c.Inconclusive(fmt.Sprintf("machine overloaded (timer lag %v): verdicts that depend on the cache clock are dropped", lag.Max()))
	}
	byKey := map[string][]*chResp{}
	for _, r := range h.Resps {
		byKey[r.Key] = append(byKey[r.Key], r)
	}
	for _, rk := range rks {
		key := chKey(rk.name, rk.qt, dns.ClassINET)
		rs := byKey[key]
		fs := fetches[key]
		first := ""
		if l := dns.SplitDomainName(rk.name); len(l) > 0 {
			first = l[0]
		}
		dirs := fakeup.ParseDirectives(first)
		cs := func(r *chResp) map[string]any {
			return map[string]any{"config": cfgName, "kind": rk.Kind, "name": rk.name, "qtype": rk.qt, "fetches": len(fs), "probes": len(rs), "t_send": r.TSend, "t_recv": r.TRecv, "serial": r.Serial, "rcode": r.Rcode}
		}
		// store upper bound per fetch: receive time of the response that triggered it
		type finfo struct {
			f       *chFetch
			storeUB int64 // 0 = unknown (background fetch)
			life    int
		}
		var fis []*finfo
		for _, f := range fs {
			fi := &finfo{f: f}
			exp := fakeup.BuildReply(strings.ToLower(rk.name), rk.qt, dns.ClassINET, rk.up, f.Serial, dirs)
			if f.Kind == "rc" && dirs.Kind != "rc" { // flipped by the hook
				exp = new(dns.Msg)
				exp.Rcode = f.Rcode
			} else if f.Kind == "nx" && dirs.Kind != "nx" {
				d2 := dirs
				d2.Kind = "nx"
				exp = fakeup.BuildReply(strings.ToLower(rk.name), rk.qt, dns.ClassINET, rk.up, f.Serial, d2)
			}
			fi.life = c08Lifetime(exp, capSec)
			for _, r := range rs {
				if r.Err == "" && r.TSend <= f.TRecv && f.TRecv <= r.TRecv && (fi.storeUB == 0 || r.TRecv < fi.storeUB) {
					fi.storeUB = r.TRecv
				}
			}
			fis = append(fis, fi)
		}
		for _, r := range rs {
			c.Ev.Eval(1)
			if r.Err != "" {
				c.Inconclusive("probe failed: " + r.Err)
				continue
			}
			// certainly served from cache: no fetch arrived at the upstream while the query was in flight
			fromCache := true
			for _, f := range fs {
				if r.TSend <= f.TRecv && f.TRecv <= r.TRecv {
					fromCache = false
				}
			}
			phase := "fresh"
			if fromCache {
				phase = "from-cache"
			}
			if rk.NeverCached {
				if qh, have := quietHits[rk.name]; fromCache && have && qh <= 0 {
					c.Inconclusive(fmt.Sprintf("[%s] %s: a response arrived without upstream contact, but two probes in a row on the quiet proxy did not move its cache-hit counter (%v): a locally failed exchange, not a cached one", cfgName, rk.name, qh))
				} else if fromCache {
					c.Violation("cached-uncacheable:"+rk.Kind, fmt.Sprintf("[%s] %s: a response was served without contacting the upstream although %s replies / failed exchanges must never be cached", cfgName, rk.name, rk.Kind), cs(r))
				} else {
					c.Ev.Distinct(cfgName, rk.Kind, "refetched")
				}
				continue
			}
			if fromCache && r.TC {
				c.Violation("truncated-served-from-cache:"+rk.Kind, fmt.Sprintf("[%s] %s: a response with TC=1 was served without contacting the upstream: a truncated reply was stored", cfgName, rk.name), cs(r))
				continue
			}
			// which entry was served? keyed: by serial; otherwise the latest fetch that completed before the query was sent
			var src *finfo
			if r.Serial != 0 {
				for _, fi := range fis {
					if fi.f.Serial == r.Serial {
						src = fi
					}
				}
				if src == nil {
					c.Violation("unknown-serial", fmt.Sprintf("[%s] response shows reply %d that the upstream never sent for %s", cfgName, r.Serial, rk.name), cs(r))
					continue
				}
				// ageing
				if fromCache && src.storeUB != 0 {
					L := (r.TSend - src.storeUB) / int64(time.Second)
					if L < 0 {
						L = 0
					}
					exp := fakeup.BuildReply(strings.ToLower(rk.name), rk.qt, dns.ClassINET, rk.up, r.Serial, dirs)
					if e := c08CheckAgeing(exp, r.Msg, uint32(L)); e != "" {
						c.Violation("ttl-too-large:"+rk.Kind, fmt.Sprintf("[%s] %s: at least %d whole seconds after the fetch: %s", cfgName, rk.name, L, e), cs(r))
						continue
					}
					if L >= 1 {
						phase = "aged-from-cache"
					}
				}
			} else if fromCache {
				for _, fi := range fis {
					if fi.f.TSend != 0 && fi.f.TSend <= r.TSend {
						src = fi // fetches are sorted by arrival
					}
				}
			}
			if fromCache && src != nil {
				// expiry: every candidate source entry is certainly past lifetime + 3 s
				expired := true
				var worst time.Duration
				cands := fis
				if r.Serial != 0 {
					cands = []*finfo{src}
				}
				for _, fi := range cands {
					if fi.f.TSend == 0 || fi.f.TRecv > r.TSend {
						continue
					}
					ub := fi.storeUB
					if ub == 0 {
						ub = fi.f.TSend + int64(time.Second) // background fetch: stored shortly after the reply
					}
					over := time.Duration(r.TSend-ub) - time.Duration(fi.life)*time.Second
					if over <= 3*time.Second {
						expired = false
					} else if over > worst {
						worst = over
					}
				}
				if expired && overloaded {
					c.Ev.Count("lifetime_dependent_candidates_dropped_because_overloaded", 1)
				} else if expired {
					c.Violation("served-after-expiry:"+rk.Kind, fmt.Sprintf("[%s] %s (rcode %d): served from cache %v after the end of its lifetime (reference lifetime %ds, maximum_ttl %d)", cfgName, rk.name, r.Rcode, worst, src.life, capSec), cs(r))
					continue
				}
			}
			// displacement
			if rk.Flip != "" && fromCache && r.Rcode != dns.RcodeSuccess && rk.first != nil && rk.first.Err == "" {
				ageUB := time.Duration(r.TRecv - fis[0].f.TSend)
				if ageUB < time.Duration(fis[0].life)*time.Second-2300*time.Millisecond && !overloaded {
					c.Violation("negative-displaced-positive:"+rk.Kind, fmt.Sprintf("[%s] %s: error response (rcode %d) served from cache %v after the positive reply was fetched (lifetime %ds): a failed refresh displaced the live positive entry", cfgName, rk.name, r.Rcode, ageUB, fis[0].life), cs(r))
					continue
				}
			}
			if rk.Flip != "" && len(fs) > 1 {
				phase += "+after-failed-refresh"
			}
			c.Ev.Distinct(cfgName, rk.Kind, phase)
			c.Ev.Count(cfgName+"_"+phase, 1)
		}
	}
	c.Ev.Sample(map[string]any{"config": cfgName, "keys": len(rks), "responses": len(h.Resps), "example_key": rks[0].name, "example_probe_ages": rks[0].Probes})
}

// every non-OPT record: ttl <= max(1, ttl_up - L)
func c08CheckAgeing(exp, got *dns.Msg, L uint32) string {
	chk := func(sec string, e, g []dns.RR) string {
		e, g = noOpt(e), noOpt(g)
		if len(e) != len(g) {
			return fmt.Sprintf("%s: %d records, upstream sent %d", sec, len(g), len(e))
		}
		for i := range g {
			var idx = -1
			for j := range e {
				if fakeup.RRKey(e[j]) == fakeup.RRKey(g[i]) {
					idx = j
					break
				}
			}
			if idx < 0 {
				return fmt.Sprintf("%s[%d] %q is not a record the upstream sent", sec, i, fakeup.RRKey(g[i]))
			}
			up := e[idx].Header().Ttl
			bound := uint32(1)
			if up > L && up-L > 1 {
				bound = up - L
			}
			if g[i].Header().Ttl > bound {
				return fmt.Sprintf("%s[%d]: ttl %d > max(1, upstream ttl %d - %d s elapsed)", sec, i, g[i].Header().Ttl, up, L)
			}
		}
		return ""
	}
	if s := chk("answer", exp.Answer, got.Answer); s != "" {
		return s
	}
	if s := chk("authority", exp.Ns, got.Ns); s != "" {
		return s
	}
	return chk("additional", exp.Extra, got.Extra)
}
