package main

func c15E2E(c *Ctx) {}
