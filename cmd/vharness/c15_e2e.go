package main

// C15 end-to-end part: flooders and quiet victims on separate subnets against the real binary.

import (
	"fmt"
	"net/http"
	"strings"
	"sync"
	"time"

	"github.com/IrineSistiana/mosproxy/verif/internal/dnsclient"
	"github.com/miekg/dns"
)

func c15E2E(c *Ctx) {
	for rep := 0; rep < c.N(1, 6); rep++ {
		c15E2EOnce(c, rep)
	}
}

func c15E2EOnce(c *Ctx, rep int) {
	const rate, burst = 10, 40
	b, err := NewBed(c, fmt.Sprintf("limiter%d", rep), BedOpts{Upstreams: []string{"pipe", "tcp"}, MemSize: 4 << 20, ClientAddrHeader: "X-Client-Addr", Listeners: append(append([]string{}, allListeners...), "udpmr"),
		Limiter: fmt.Sprintf("  client:\n    limit: %d\n    burst: %d\n", rate, burst)}) // masks omitted: /24 and /48
	if err != nil {
		c.startFailure(err, "c15-e2e")
		return
	}
	defer func() {
		alive := b.Proxy.Alive()
		res := b.Stop()
		if !alive {
			c.Violation("proxy-died", "the proxy died in the limiter scenario: "+res.Panic, map[string]any{"panic": res.Panic})
		}
	}()
	forwarded := func(name string) bool {
		for _, ql := range b.Up["pipe"].Log() {
			if strings.EqualFold(ql.Name, name) {
				return true
			}
		}
		return false
	}
	oct := 10 + rep*7%200
	// ---- UDP flood from one /24
	flooder := fmt.Sprintf("127.%d.1.1", oct)
	uc, err := dnsclient.DialUDP(flooder, b.L["udp"])
	if err != nil {
		c.Inconclusive("bind flooder: " + err.Error())
		return
	}
	const nFlood = 80
	names := make([]string, nFlood)
	t0 := time.Now()
	for i := 0; i < nFlood; i++ {
		names[i] = fmt.Sprintf("ok-fl%dr%d.pipe.test.", i, rep)
		uc.Send(mkQuery(uint16(i+1), names[i], dns.TypeA, dns.ClassINET, false))
		time.Sleep(time.Millisecond)
	}
	time.Sleep(400 * time.Millisecond)
	window := time.Since(t0)
	admitted, refused := 0, 0
	for _, p := range uc.Received() {
		m := new(dns.Msg)
		if m.Unpack(p.Data) != nil || len(m.Question) != 1 {
			continue
		}
		c.Ev.Eval(1)
		switch m.Rcode {
		case dns.RcodeRefused:
			refused++
			if forwarded(m.Question[0].Name) {
				c.Violation("e2e:refused-but-forwarded:udp", "UDP query "+m.Question[0].Name+" was answered REFUSED by the limiter but reached the upstream", map[string]any{"name": m.Question[0].Name})
			}
		case dns.RcodeSuccess:
			admitted++
		}
	}
	uc.Close()
	if got := admitted + refused; got < nFlood*9/10 {
		c.Violation("e2e:refused-query-dropped:udp", fmt.Sprintf("%d of %d flood queries got a response (admitted %d, REFUSED %d): a query refused by the limiter must be answered REFUSED", got, nFlood, admitted, refused), map[string]any{"admitted": admitted, "refused": refused})
	}
	// every admitted UDP query costs at least 1
	if bound := float64(burst) + rate*window.Seconds() + 1; float64(admitted) > bound {
		c.Violation("e2e:conservation:udp", fmt.Sprintf("%d UDP queries of one /24 admitted in %v with limit %d burst %d (bound %.1f)", admitted, window, rate, burst, bound), map[string]any{"admitted": admitted, "window_ms": window.Milliseconds()})
	}
	if refused == 0 {
		c.Violation("e2e:limiter-inactive", fmt.Sprintf("a flood of %d queries from one address with limit %d burst %d was never refused", nFlood, rate, burst), map[string]any{"admitted": admitted})
		return
	}
	c.Ev.Count("e2e_udp_flood_admitted", int64(admitted))
	c.Ev.Count("e2e_udp_flood_refused", int64(refused))
	// ---- the same flood through the UDP listener on the wildcard address (multi_routes): a REFUSED
	// answer, like any other, has to come from the address the client talks to
	{
		ip := fmt.Sprintf("127.%d.40.1", oct)
		mc, err := dnsclient.DialUDP(ip, b.L["udpmr"])
		if err == nil {
			for i := 0; i < nFlood; i++ {
				mc.Send(mkQuery(uint16(i+1), fmt.Sprintf("ok-mr%dr%d.pipe.test.", i, rep), dns.TypeA, dns.ClassINET, false))
				time.Sleep(time.Millisecond)
			}
			time.Sleep(400 * time.Millisecond)
			mAdm, mRef := 0, 0
			for _, p := range mc.Received() {
				m := new(dns.Msg)
				if m.Unpack(p.Data) != nil {
					continue
				}
				c.Ev.Eval(1)
				if m.Rcode == dns.RcodeRefused {
					mRef++
				} else if m.Rcode == dns.RcodeSuccess {
					mAdm++
				}
			}
			mc.Close()
			switch {
			case mAdm+mRef < nFlood*9/10:
				c.Violation("e2e:refused-query-dropped:udp-multi-routes", fmt.Sprintf("UDP listener with multi_routes, client talking to 127.0.0.2: %d of %d flood queries got a response from that address (admitted %d, REFUSED %d)", mAdm+mRef, nFlood, mAdm, mRef), map[string]any{"admitted": mAdm, "refused": mRef})
			case mRef == 0:
				c.Violation("e2e:limiter-inactive:udp-multi-routes", "flood through the multi_routes UDP listener was never refused", map[string]any{"admitted": mAdm})
			default:
				c.Ev.Distinct("e2e", "udp-multi-routes-flood")
				c.Ev.Count("e2e_udpmr_flood_refused", int64(mRef))
			}
		}
	}
	// ---- failing upstream: queries whose upstream exchange fails are charged like any other; the
	// bucket still empties
	{
		ip := fmt.Sprintf("127.%d.41.1", oct)
		fc, err := dnsclient.DialUDP(ip, b.L["udp"])
		if err == nil {
			tf := time.Now()
			for i := 0; i < nFlood; i++ {
				fc.Send(mkQuery(uint16(i+1), fmt.Sprintf("close-ff%dr%d.tcp.test.", i, rep), dns.TypeA, dns.ClassINET, false))
				time.Sleep(2 * time.Millisecond)
			}
			time.Sleep(800 * time.Millisecond)
			win := time.Since(tf)
			fAdm, fRef := 0, 0
			for _, p := range fc.Received() {
				m := new(dns.Msg)
				if m.Unpack(p.Data) != nil {
					continue
				}
				c.Ev.Eval(1)
				if m.Rcode == dns.RcodeRefused {
					fRef++
				} else {
					fAdm++ // SERVFAIL: admitted, forwarded, failed
				}
			}
			fc.Close()
			if bound := float64(burst) + rate*win.Seconds() + 1; float64(fAdm) > bound {
				c.Violation("e2e:conservation:failing-upstream", fmt.Sprintf("%d queries of one /24 admitted in %v with limit %d burst %d (bound %.1f) while their upstream exchanges failed (REFUSED %d)", fAdm, win, rate, burst, bound, fRef), map[string]any{"admitted": fAdm, "refused": fRef})
			} else if fRef > 0 {
				c.Ev.Distinct("e2e", "failing-upstream-flood")
				c.Ev.Count("e2e_failing_upstream_flood_refused", int64(fRef))
			}
		}
	}
	// ---- connections that sat idle: 8 TCP connections of one /24 stay silent for 2 s, then each sends
	// one query between bursts of a ninth connection. Admitted cost over the whole episode (3 per
	// connection, 2 per query at least) stays within burst + rate x elapsed time.
	{
		t0 := time.Now()
		var conns []*dnsclient.StreamClient
		for k := 0; k < 9; k++ {
			sc, err := dnsclient.DialStream(fmt.Sprintf("127.%d.50.%d", oct, k+1), b.L["tcp"], nil)
			if err == nil {
				conns = append(conns, sc)
			}
		}
		if len(conns) == 9 {
			sent := 0
			busy := conns[8]
			// every query asks one name that is in the cache already (warmed from another subnet): an
			// admitted query costs 2 + 1 tokens
			warm := fmt.Sprintf("ok-idlewarm-r%d.pipe.test.", rep)
			b.Exchange("udp", mkQuery(7, warm, dns.TypeA, dns.ClassINET, false), xOpts{LocalIP: fmt.Sprintf("127.%d.60.1", oct), Timeout: 3 * time.Second})
			send := func(sc *dnsclient.StreamClient) {
				sent++
				sc.SendFrame(mkQuery(uint16(sent), warm, dns.TypeA, dns.ClassINET, false))
				time.Sleep(2 * time.Millisecond)
			}
			for i := 0; i < 3; i++ { // leaves tokens in the bucket
				send(busy)
			}
			time.Sleep(2 * time.Second)
			for k := 0; k < 8; k++ {
				send(conns[k])
				for j := 0; j < 10; j++ {
					send(busy)
				}
			}
			time.Sleep(600 * time.Millisecond)
			el := time.Since(t0)
			adm := 0
			for _, sc := range conns {
				for _, f := range sc.Frames() {
					m := new(dns.Msg)
					if m.Unpack(f.Data) == nil && m.Rcode == dns.RcodeSuccess {
						adm++
					}
				}
				sc.Close()
			}
			c.Ev.Eval(sent)
			cost := float64(3*len(conns) + 2*adm)
			if bound := float64(burst) + rate*el.Seconds() + 2; cost > bound {
				c.Violation("e2e:conservation:idle-connections", fmt.Sprintf("one /24 with 9 TCP connections (8 of them silent for 2 s, then one query each between bursts of the ninth) got %d of %d queries admitted in %v: cost at least %.0f with limit %d burst %d (bound %.1f)", adm, sent, el, cost, rate, burst, bound), map[string]any{"admitted": adm, "sent": sent, "elapsed_ms": el.Milliseconds()})
			} else {
				c.Ev.Distinct("e2e", "idle-connections")
				c.Ev.Count("e2e_idle_connections_admitted", int64(adm))
			}
		} else {
			for _, sc := range conns {
				sc.Close()
			}
		}
	}
	// ---- stream floods: 80 pipelined queries on one connection, each from its own /24. Every query is
	// answered (served or REFUSED) with a well-formed frame on that connection, REFUSED ones are not
	// forwarded, and the admitted ones respect the bucket.
	for si, kind := range []string{"tcp", "gnet", "tls"} {
		ip := fmt.Sprintf("127.%d.%d.1", oct, 30+si)
		tc := b.ProxyTLS
		if kind != "tls" {
			tc = nil
		}
		sc, err := dnsclient.DialStream(ip, b.L[kind], tc)
		if err != nil {
			c.Inconclusive("dial " + kind + ": " + err.Error())
			continue
		}
		ts := time.Now()
		const nS = 80
		for i := 0; i < nS; i++ {
			sc.SendFrame(mkQuery(uint16(i+1), fmt.Sprintf("ok-sf%d%sr%d.pipe.test.", i, kind, rep), dns.TypeA, dns.ClassINET, false))
		}
		sc.WaitFrames(nS, 5*time.Second)
		win := time.Since(ts)
		sAdm, sRef, sBad := 0, 0, 0
		for _, f := range sc.Frames() {
			m := new(dns.Msg)
			c.Ev.Eval(1)
			if m.Unpack(f.Data) != nil || len(m.Question) != 1 {
				sBad++
				continue
			}
			switch m.Rcode {
			case dns.RcodeRefused:
				sRef++
				if forwarded(m.Question[0].Name) {
					c.Violation("e2e:refused-but-forwarded:"+kind, kind+" query "+m.Question[0].Name+" was answered REFUSED by the limiter but reached the upstream", map[string]any{"name": m.Question[0].Name})
				}
			case dns.RcodeSuccess:
				sAdm++
			}
		}
		_, trailing, cerr := sc.State()
		sc.Close()
		cs := map[string]any{"listener": kind, "client": ip, "admitted": sAdm, "refused": sRef, "undecodable": sBad, "trailing_bytes": len(trailing), "conn_error": fmt.Sprint(cerr)}
		switch {
		case sBad > 0 || len(trailing) > 0:
			c.Violation("e2e:refusal-malformed:"+kind, fmt.Sprintf("%s flood: %d undecodable frames, %d stray bytes on the connection (admitted %d, REFUSED %d, connection error %v)", kind, sBad, len(trailing), sAdm, sRef, cerr), cs)
		case sAdm+sRef < nS:
			c.Violation("e2e:refused-query-dropped:"+kind, fmt.Sprintf("%s flood: %d of %d pipelined queries got a response (admitted %d, REFUSED %d, connection error %v): a query refused by the limiter must be answered REFUSED", kind, sAdm+sRef, nS, sAdm, sRef, cerr), cs)
		case sRef == 0:
			c.Violation("e2e:limiter-inactive:"+kind, fmt.Sprintf("%s flood of %d queries from one address with limit %d burst %d was never refused", kind, nS, rate, burst), cs)
		case float64(sAdm) > float64(burst)+rate*win.Seconds()+1:
			c.Violation("e2e:conservation:"+kind, fmt.Sprintf("%d %s queries of one /24 admitted in %v with limit %d burst %d", sAdm, kind, win, rate, burst), cs)
		default:
			c.Ev.Distinct("e2e", "stream-flood", kind)
			c.Ev.Count("e2e_"+kind+"_flood_admitted", int64(sAdm))
			c.Ev.Count("e2e_"+kind+"_flood_refused", int64(sRef))
		}
	}
	// ---- quiet victims in other subnets, right after the flood
	victims := []struct{ kind, ip string }{
		{"udp", fmt.Sprintf("127.%d.2.2", oct)}, {"tcp", fmt.Sprintf("127.%d.3.3", oct)}, {"gnet", fmt.Sprintf("127.%d.4.4", oct)}, {"tls", fmt.Sprintf("127.%d.5.5", oct)},
		{"quic", fmt.Sprintf("127.%d.6.6", oct)}, {"quic", fmt.Sprintf("127.%d.7.7", oct)}, {"quic", fmt.Sprintf("127.%d.8.8", oct)}, {"quic", fmt.Sprintf("127.%d.9.9", oct)},
	}
	for i, v := range victims {
		name := fmt.Sprintf("ok-victim%dr%d.pipe.test.", i, rep)
		x := b.Exchange(v.kind, mkQuery(uint16(1000+i), name, dns.TypeA, dns.ClassINET, false), xOpts{LocalIP: v.ip, Timeout: 5 * time.Second})
		c.Ev.Eval(1)
		cs := map[string]any{"listener": v.kind, "victim": v.ip, "flooder": flooder, "limit": rate, "burst": burst}
		m := new(dns.Msg)
		switch {
		case x.Err != nil || len(x.Resp) == 0:
			c.Violation("e2e:victim-refused:"+v.kind, fmt.Sprintf("a client in its own, unused subnet (%s, %s listener) got no answer after other subnets used their budgets: %v", v.ip, v.kind, x.Err), cs)
		case m.Unpack(x.Resp) != nil:
			c.Violation("e2e:victim-garbage:"+v.kind, "undecodable response for the victim", cs)
		case m.Rcode != dns.RcodeSuccess:
			c.Violation("e2e:victim-refused:"+v.kind, fmt.Sprintf("a client in its own, unused subnet (%s, %s listener) was answered rcode %d after other subnets used their budgets", v.ip, v.kind, m.Rcode), cs)
		default:
			c.Ev.Distinct("e2e", "victim", v.kind)
			c.Ev.Count("e2e_victims_served", 1)
		}
	}
	// ---- same-subnet client right after the flood shares the (empty) budget: conservation across addresses
	sib := fmt.Sprintf("127.%d.1.77", oct)
	sibAdmitted := 0
	t1 := time.Now()
	for i := 0; i < 30; i++ {
		x := b.Exchange("udp", mkQuery(uint16(2000+i), fmt.Sprintf("ok-sib%dr%d.pipe.test.", i, rep), dns.TypeA, dns.ClassINET, false), xOpts{LocalIP: sib, Timeout: 2 * time.Second})
		m := new(dns.Msg)
		if x.Err == nil && m.Unpack(x.Resp) == nil && m.Rcode == dns.RcodeSuccess {
			sibAdmitted++
		}
	}
	w2 := time.Since(t0)
	if bound := float64(burst) + rate*w2.Seconds() + 1; float64(admitted+sibAdmitted) > bound {
		c.Violation("e2e:conservation:subnet-shared", fmt.Sprintf("%d queries of one /24 (two addresses) admitted in %v with limit %d burst %d (bound %.1f)", admitted+sibAdmitted, w2, rate, burst, bound), map[string]any{"admitted": admitted + sibAdmitted})
	}
	_ = t1
	// ---- DoH: v6 subnets through the client address header, 503 on refusal
	url := "http://" + b.L["http"] + "/dns-query"
	hc := dnsclient.NewDoH(url, nil, "h1", fmt.Sprintf("127.%d.20.1", oct))
	defer hc.Close()
	v6flooder := fmt.Sprintf("2001:db8:%x::5", 0x100+rep)
	ok200, n503 := 0, 0
	for i := 0; i < 40; i++ {
		name := fmt.Sprintf("ok-h%dr%d.pipe.test.", i, rep)
		r := hc.Do(http.MethodPost, mkQuery(uint16(i), name, dns.TypeA, dns.ClassINET, false), map[string]string{"X-Client-Addr": v6flooder})
		c.Ev.Eval(1)
		switch {
		case r.Err != nil:
		case r.Status == 503:
			n503++
			if forwarded(name) {
				c.Violation("e2e:refused-but-forwarded:http", "DoH query "+name+" was refused with 503 but reached the upstream", map[string]any{"name": name})
			}
		case r.Status == 200:
			ok200++
		default:
			c.Violation("e2e:refusal-status:http", fmt.Sprintf("DoH request under rate limiting answered with status %d (expected 200 or 503)", r.Status), map[string]any{"status": r.Status})
		}
	}
	if n503 == 0 {
		c.Violation("e2e:limiter-inactive:http", fmt.Sprintf("40 DoH queries from one IPv6 address (cost 2+3 each, burst %d) were never refused", burst), map[string]any{"ok": ok200})
	}
	c.Ev.Count("e2e_doh_flood_200", int64(ok200))
	c.Ev.Count("e2e_doh_flood_503", int64(n503))
	hv := dnsclient.NewDoH(url, nil, "h1", fmt.Sprintf("127.%d.21.1", oct))
	defer hv.Close()
	for i, victim := range []string{fmt.Sprintf("2001:db8:%x::9", 0x200+rep), fmt.Sprintf("::ffff:10.%d.7.7", rep), fmt.Sprintf("10.%d.8.8", rep)} {
		r := hv.Do(http.MethodPost, mkQuery(uint16(3000+i), fmt.Sprintf("ok-hv%dr%d.pipe.test.", i, rep), dns.TypeA, dns.ClassINET, false), map[string]string{"X-Client-Addr": victim})
		c.Ev.Eval(1)
		if r.Err != nil || r.Status != 200 {
			c.Violation("e2e:victim-refused:http", fmt.Sprintf("DoH client %s in its own unused subnet got status %d (%v) after another /48 used its budget", victim, r.Status, r.Err), map[string]any{"victim": victim, "flooder": v6flooder})
		} else {
			c.Ev.Distinct("e2e", "victim-http", i)
			c.Ev.Count("e2e_victims_served", 1)
		}
	}
	c.Ev.Sample(map[string]any{"part": "e2e", "flooder": flooder, "flood_admitted": admitted, "flood_refused": refused, "doh_flooder": v6flooder, "doh_200": ok200, "doh_503": n503})
}

// c15E2EGlobal: the global limit is shared, a subnet's own budget is not. While sixty other subnets
// keep the global bucket (100/s) empty, a quiet subnet (own limit 1/s, burst 40) keeps asking and
// is refused - for the global reason, nothing is admitted for it. Half a second after the flood
// has stopped the global bucket holds 50 tokens again, the quiet subnet's own bucket was never
// used (at most 8 of its queries were admitted: <= 32 of its 40 tokens): its next query must be
// served, not refused.
func c15E2EGlobal(c *Ctx) {
	b, err := NewBed(c, "limiter-global", BedOpts{Upstreams: []string{"pipe"}, Listeners: []string{"udp"}, UdpRcvBuf: 4 << 20,
		Limiter: "  global_limit: 100\n  client:\n    limit: 1\n    burst: 40\n"})
	if err != nil {
		c.startFailure(err, "c15-e2e-global")
		return
	}
	defer b.Stop()
	victim, err := dnsclient.DialUDP("127.77.7.1", b.L["udp"])
	if err != nil {
		c.Inconclusive("bind victim: " + err.Error())
		return
	}
	defer victim.Close()
	stop := make(chan struct{})
	done := make(chan int, 10)
	for f := 0; f < 10; f++ {
		go func(f int) {
			sent := 0
			defer func() { done <- sent }()
			// six /24s per flooder, sixty in all, each with a full bucket of its own
			var socks []*dnsclient.UDPClient
			for k := 0; k < 6; k++ {
				fc, err := dnsclient.DialUDP(fmt.Sprintf("127.78.%d.1", f*6+k+1), b.L["udp"])
				if err != nil {
					return
				}
				defer fc.Close()
				socks = append(socks, fc)
			}
			for i := 0; ; i++ {
				select {
				case <-stop:
					return
				default:
				}
				fc := socks[i%len(socks)]
				fc.Send(mkQuery(uint16(i), fmt.Sprintf("ok-gf%dx%d.pipe.test.", f, i), dns.TypeA, dns.ClassINET, false))
				sent++
				time.Sleep(3 * time.Millisecond) // ~300 queries a second per flooder, 3000 in all: thirty times the global rate, and the socket buffers survive
			}
		}(f)
	}
	time.Sleep(300 * time.Millisecond) // the global bucket's burst is gone
	const nTry = 60
	for i := 0; i < nTry; i++ {
		victim.Send(mkQuery(uint16(1000+i), fmt.Sprintf("ok-gv%d.pipe.test.", i), dns.TypeA, dns.ClassINET, false))
		time.Sleep(20 * time.Millisecond)
	}
	close(stop)
	floodSent := 0
	for f := 0; f < 10; f++ {
		floodSent += <-done
	}
	time.Sleep(500 * time.Millisecond)
	admitted1, refused1 := 0, 0
	for _, p := range victim.Received() {
		m := new(dns.Msg)
		if m.Unpack(p.Data) != nil {
			continue
		}
		if m.Rcode == dns.RcodeRefused {
			refused1++
		} else {
			admitted1++
		}
	}
	c.Ev.Eval(nTry)
	c.Ev.Count("e2e_global_flood_queries_sent", int64(floodSent))
	c.Ev.Count("e2e_global_victim_refused_during_flood", int64(refused1))
	c.Ev.Count("e2e_global_victim_admitted_during_flood", int64(admitted1))
	if admitted1 > 8 || refused1 < nTry/2 {
		c.Inconclusive(fmt.Sprintf("global-limit scenario: the flood did not keep the global bucket empty (quiet subnet: %d admitted, %d refused of %d)", admitted1, refused1, nTry))
		return
	}
	// after the flood: the quiet subnet's query between two queries of subnets that have never been
	// seen before. When those two are served, the global bucket had tokens before and after (it refills
	// at 100/s and nobody else is asking): a refusal in between is the quiet subnet's own bucket.
	ask := func(id uint16, name, from string) (refused, ok bool) {
		x := b.Exchange("udp", mkQuery(id, name, dns.TypeA, dns.ClassINET, false), xOpts{Timeout: 3 * time.Second, LocalIP: from})
		m := new(dns.Msg)
		if x.Err != nil || m.Unpack(x.Resp) != nil {
			return false, false
		}
		return m.Rcode == dns.RcodeRefused, true
	}
	sandwiches, served := 0, 0
	for k := 0; k < 3; k++ {
		r1, ok1 := ask(uint16(7000+k), fmt.Sprintf("ok-gfresh%da.pipe.test.", k), fmt.Sprintf("127.79.%d.1", 2*k+1))
		rv, okv := ask(uint16(7100+k), fmt.Sprintf("ok-gv-after%d.pipe.test.", k), "127.77.7.2")
		r2, ok2 := ask(uint16(7200+k), fmt.Sprintf("ok-gfresh%db.pipe.test.", k), fmt.Sprintf("127.79.%d.1", 2*k+2))
		c.Ev.Eval(1)
		switch {
		case !ok1 || !okv || !ok2 || r1 || r2:
			// the proxy is still busy with the flood, or something was lost: this round says nothing
		case rv:
			sandwiches++
		default:
			served++
		}
		time.Sleep(100 * time.Millisecond)
	}
	if sandwiches >= 2 {
		c.Violation("e2e:isolation:refused-after-global-exhaustion", fmt.Sprintf("global_limit 100, client limit 1 burst 40: while sixty other /24s kept the global bucket empty (%d queries) the quiet subnet 127.77.7.0/24 was refused %d times and served %d times (at most %d of its own 40 tokens were ever admitted); 0.5-0.8 s after the flood its queries are still REFUSED (%d of 3) although queries of never-seen subnets sent just before and just after each of them were served, so the global bucket was not the reason", floodSent, refused1, admitted1, 4*admitted1, sandwiches),
			map[string]any{"fn": "c15E2EGlobal", "victim_admitted_during_flood": admitted1, "victim_refused_during_flood": refused1, "refused_between_served_neighbours": sandwiches})
		return
	}
	if served == 0 {
		c.Inconclusive(fmt.Sprintf("global-limit scenario: no decisive round after the flood (%d refusals between served neighbours)", sandwiches))
		return
	}
	c.Ev.Distinct("e2e", "global-limit-then-quiet-subnet-served")
	c.Ev.Count("e2e_global_victim_served_after_flood", 1)
}

// c15E2ENoAddress: requests whose client address is unknown (the HTTP listeners have a
// client_addr_header configured, the request comes without it) belong to nobody's budget. A subnet
// that has used a fraction of its bucket (16 queries, at most 64 of 100 tokens), then sixty header-less DoH requests, then the
// subnet again: its own queries are served - what anonymous requests cost is not charged to it.
func c15E2ENoAddress(c *Ctx) {
	const rate, burst = 2, 100
	b, err := NewBed(c, "limiter-noaddr", BedOpts{Upstreams: []string{"pipe"}, Listeners: []string{"udp", "tcp", "http", "https"}, ClientAddrHeader: "X-Client-Addr",
		Limiter: fmt.Sprintf("  client:\n    limit: %d\n    burst: %d\n", rate, burst)})
	if err != nil {
		c.startFailure(err, "c15-e2e-noaddr")
		return
	}
	defer b.Stop()
	const victim = "127.88.8.1"
	served := func(x xResult) (ok, refused bool) {
		m := new(dns.Msg)
		if x.Err != nil || (x.Status != 0 && x.Status != 200) || m.Unpack(x.Resp) != nil {
			return false, x.Status == 503
		}
		return m.Rcode == dns.RcodeSuccess, m.Rcode == dns.RcodeRefused
	}
	// sixteen queries of the victim at once over udp (sixteen request contexts have carried its address)
	var wg sync.WaitGroup
	var mu sync.Mutex
	admitted := 0
	for i := 0; i < 16; i++ {
		wg.Add(1)
		go func(i int) {
			defer wg.Done()
			x := b.Exchange("udp", mkQuery(uint16(i+1), fmt.Sprintf("ok-na-v%d.pipe.test.", i), dns.TypeA, dns.ClassINET, false), xOpts{LocalIP: victim, Timeout: 4 * time.Second})
			if ok, _ := served(x); ok {
				mu.Lock()
				admitted++
				mu.Unlock()
			}
		}(i)
	}
	wg.Wait()
	c.Ev.Eval(16)
	// the victim has spent at most 16 x 4 = 64 of its 100 tokens (udp query 1 + upstream 3)
	t0 := time.Now()
	anon := 0
	// (two long-lived client connections: the accept of a connection is charged to the socket's peer)
	hcs := []*dnsclient.DoHClient{dnsclient.NewDoH("http://"+b.L["http"]+"/dns-query", nil, "h1", ""), dnsclient.NewDoH("https://"+b.L["https"]+"/dns-query", b.ProxyTLS, "h2", "")}
	defer hcs[0].Close()
	defer hcs[1].Close()
	for round := 0; round < 10; round++ {
		for k := 0; k < 6; k++ {
			wg.Add(1)
			go func(round, k int) {
				defer wg.Done()
				r := hcs[k%2].Do("POST", mkQuery(uint16(100+round*6+k), fmt.Sprintf("ok-na-anon%d-%d.pipe.test.", round, k), dns.TypeA, dns.ClassINET, false), nil) // no client address header
				if ok, _ := served(xResult{Resp: r.Body, Status: r.Status, Err: r.Err}); ok {
					mu.Lock()
					anon++
					mu.Unlock()
				}
			}(round, k)
		}
		wg.Wait()
	}
	c.Ev.Eval(60)
	c.Ev.Count("e2e_noaddr_anonymous_requests_served", int64(anon))
	refusedN := 0
	for i := 0; i < 2; i++ {
		x := b.Exchange("udp", mkQuery(uint16(900+i), fmt.Sprintf("ok-na-again%d.pipe.test.", i), dns.TypeA, dns.ClassINET, false), xOpts{LocalIP: victim, Timeout: 4 * time.Second})
		c.Ev.Eval(1)
		if _, refused := served(x); refused {
			refusedN++
		}
	}
	if refusedN >= 1 { // bucket arithmetic, no timing involved: at least 36 of its 100 tokens were left
		c.Violation("e2e:isolation:charged-for-anonymous-requests", fmt.Sprintf("limit %d burst %d: subnet of %s had %d queries admitted, then %d DoH requests without the configured client address header were served over %.1f s; afterwards %d of its 2 queries (cost 1-4 each; at most 64 of its 100 tokens had been used, %d more refilled meanwhile) were REFUSED: requests of unknown origin were charged to it", rate, burst, victim, admitted, anon, time.Since(t0).Seconds(), refusedN, int(rate*time.Since(t0).Seconds())),
			map[string]any{"fn": "c15E2ENoAddress", "victim_admitted": admitted, "anonymous_served": anon})
		return
	}
	c.Ev.Distinct("e2e", "anonymous-requests-not-charged", refusedN)
	c.Ev.Count("e2e_noaddr_victim_served_after_anonymous_requests", int64(2-refusedN))
}
