package main

// C08, in-process part: "an error response never displaces a live positive entry" under
// concurrent stores. For every key a positive store (overwrite) and a negative store
// (set-if-absent) are released together; whichever order they take effect in, the key must hold
// the positive value afterwards: positive-then-negative leaves the positive entry alone,
// negative-then-positive is overwritten. The set-if-absent store is slowed down inside its value
// copy (delay point pool.get.large), i.e. between "looked at the key" and "wrote the key" if the
// implementation does these as two steps.

import (
	"bytes"
	"fmt"
	"strings"
	"sync"
	"time"

	"github.com/miekg/dns"

	"github.com/IrineSistiana/mosproxy/verif/internal/clock"
	"github.com/IrineSistiana/mosproxy/verif/internal/fakeredis"
	"github.com/IrineSistiana/mosproxy/verif/internal/fakeup"

	"github.com/IrineSistiana/mosproxy/internal/cache"
	"github.com/IrineSistiana/mosproxy/internal/pool"
	"github.com/IrineSistiana/mosproxy/internal/verifhook"
)

func c08StoreRace(c *Ctx) {
	mc, err := cache.NewMemoryCache(256 << 20)
	if err != nil {
		c.Inconclusive("NewMemoryCache: " + err.Error())
		return
	}
	defer mc.Close()
	n := c.N(3000, 60000)
	pos := bytes.Repeat([]byte{'P'}, 64)
	neg := bytes.Repeat([]byte{'N'}, 2500) // >= 2048: its copy passes the delay point
	verifhook.Set("pool.get.large", "sleep(100us,50.0%)")
	defer verifhook.Set("pool.get.large", "off")
	type job struct {
		key  []byte
		done *sync.WaitGroup
		gate chan struct{}
	}
	posCh, negCh := make(chan job, 4), make(chan job, 4)
	var workers sync.WaitGroup
	for w := 0; w < 2; w++ {
		workers.Add(2)
		go func() {
			defer workers.Done()
			for j := range posCh {
				<-j.gate
				now := time.Now()
				mcStore(mc, j.key, now, now.Add(time.Hour), pos, false)
				j.done.Done()
			}
		}()
		go func() {
			defer workers.Done()
			for j := range negCh {
				<-j.gate
				now := time.Now()
				mcStore(mc, j.key, now, now.Add(30*time.Second), neg, true)
				j.done.Done()
			}
		}()
	}
	displaced, lost, kept := 0, 0, 0
	first := ""
	for i := 0; i < n; i++ {
		key := []byte(fmt.Sprintf("race-key-%d-%d", c.Seed, i))
		var done sync.WaitGroup
		done.Add(2)
		gate := make(chan struct{})
		posCh <- job{key, &done, gate}
		negCh <- job{key, &done, gate}
		if i%2 == 0 {
			time.Sleep(time.Duration(i%7) * 10 * time.Microsecond) // both workers are parked at the gate
		}
		close(gate)
		done.Wait()
		v, _, _ := mc.Get(key)
		switch {
		case v == nil:
			lost++
		case len(v) == len(neg) && v[0] == 'N':
			if displaced++; first == "" {
				first = string(key)
			}
		default:
			kept++
		}
		if v != nil {
			pool.ReleaseBuf(v)
		}
	}
	close(posCh)
	close(negCh)
	workers.Wait()
	c.Ev.Eval(n)
	c.Ev.Count("store_race_pairs", int64(n))
	c.Ev.Count("store_race_positive_kept", int64(kept))
	_, fired := verifhook.Hits("pool.get.large")
	c.Ev.Count("store_race_negative_store_delayed", int64(fired))
	if displaced > 0 {
		c.Violation("store-race:negative-displaced-positive", fmt.Sprintf("%d of %d keys hold the negative value after a positive store (overwrite) and a negative store (set-if-absent) ran concurrently (first: %s): the error response displaced the live positive entry", displaced, n, first), map[string]any{"fn": "c08StoreRace", "displaced": displaced, "pairs": n})
		return
	}
	if lost > n/100 {
		c.Inconclusive(fmt.Sprintf("store race: %d of %d keys not found after both stores", lost, n))
	}
	c.Ev.Distinct("store-race", "positive-kept", fired > 0)
	c.Ev.Sample(map[string]any{"part": "store-race", "pairs": n, "positive_kept": kept, "negative_store_delayed": fired})
}

// c08Redis: two proxies (each with its own memory cache and its own fake upstream) share one
// second-level cache (fake redis). A fetches a key at t0; B is asked at 0.55 of the lifetime (8-10 s; early enough not to start a refresh) and
// finds it in redis (promotion into B's memory cache: aged TTLs, no upstream contact) and once more 400 ms later (answered
// from B's memory cache: the TTLs still age from the original fetch); B is asked
// again once the lifetime of the reply A fetched has elapsed (+3 s): that reply must not be
// served any more, B has to go upstream. Also: memory entries stored with a store time in the past
// (what a promotion does) expire at their expiry time, not one lifetime after the store.
func c08Redis(c *Ctx) {
	rs, err := fakeredis.Start()
	if err != nil {
		c.Inconclusive("fake redis: " + err.Error())
		return
	}
	defer rs.Close()
	mk := func(name string) (*Bed, error) {
		return NewBed(c, name, BedOpts{Upstreams: []string{"pipe"}, MemSize: 8 << 20, Redis: rs.Addr(), Listeners: []string{"udp", "tcp"}})
	}
	a, err := mk("redisA")
	if err != nil {
		c.startFailure(err, "c08-redis-A")
		return
	}
	defer a.Stop()
	b, err := mk("redisB")
	if err != nil {
		c.startFailure(err, "c08-redis-B")
		return
	}
	defer b.Stop()
	b.Up["pipe"].SetSerialBase(1 << 20) // replies fetched by B are told apart from A's by their serial
	// the proxies connect to redis in the background (first attempt about a second after start) and
	// skip the second-level cache until then
	time.Sleep(1800 * time.Millisecond)
	lag := startLagMonitor()
	defer lag.Stop()
	h := &chHist{}
	type key struct {
		name string
		ttl  int
	}
	var keys []key
	for i := 0; i < c.N(9, 30); i++ {
		ttl := 8 + i%3
		keys = append(keys, key{fmt.Sprintf("ok-n2-ttl%d-rp%dx%d.pipe.test.", ttl, i, c.Seed), ttl})
	}
	var wg sync.WaitGroup
	for ki, k := range keys {
		wg.Add(1)
		go func(ki int, k key) {
			defer wg.Done()
			time.Sleep(time.Duration(ki*40) * time.Millisecond)
			first := h.query(a, "tcp", "", "", k.name, dns.TypeA, dns.ClassINET, "fetch@A", "")
			if first.Err != "" || first.Serial == 0 {
				c.Inconclusive("redis scenario: first query failed: " + first.Err)
				return
			}
			cs := map[string]any{"fn": "c08Redis", "name": k.name, "ttl": k.ttl}
			time.Sleep(time.Duration(float64(k.ttl)*0.55*float64(time.Second)) - time.Duration(clock.Now()-first.TRecv))
			second := h.query(b, []string{"udp", "tcp"}[ki%2], "", "", k.name, dns.TypeA, dns.ClassINET, "promote@B", "")
			c.Ev.Eval(1)
			promoted := second.Err == "" && second.Serial == first.Serial
			if promoted {
				dirs := fakeup.ParseDirectives(strings.SplitN(k.name, ".", 2)[0])
				exp := fakeup.BuildReply(strings.ToLower(k.name), dns.TypeA, dns.ClassINET, "pipe", first.Serial, dirs)
				L := (second.TSend - first.TRecv) / int64(time.Second)
				if e := c08CheckAgeing(exp, second.Msg, uint32(max(L, 0))); e != "" {
					c.Violation("ttl-too-large:redis-promoted", fmt.Sprintf("%s served by the second proxy from the shared cache at least %d whole seconds after the fetch: %s", k.name, L, e), cs)
					return
				}
				c.Ev.Count("redis_promotions_checked_for_ageing", 1)
				// ... and again 400 ms later: this answer comes from B's memory cache, where the promotion
				// put the entry (still well before the refresh window); its age is the reply's, not the copy's
				time.Sleep(400 * time.Millisecond)
				again := h.query(b, []string{"tcp", "udp"}[ki%2], "", "", k.name, dns.TypeA, dns.ClassINET, "memory@B", "")
				c.Ev.Eval(1)
				if again.Err == "" && again.Serial == first.Serial {
					L := (again.TSend - first.TRecv) / int64(time.Second)
					if e := c08CheckAgeing(exp, again.Msg, uint32(max(L, 0))); e != "" {
						c.Violation("ttl-too-large:redis-promoted:memory-copy", fmt.Sprintf("%s served by the second proxy from its memory cache (entry promoted from the shared cache 400 ms earlier) at least %d whole seconds after the fetch: %s", k.name, L, e), cs)
						return
					}
					c.Ev.Count("redis_promoted_memory_copies_checked_for_ageing", 1)
				}
			}
			// third probe: lifetime + 3 s after A received the reply (2 s clock granularity + 1 s, as in the other expiry verdicts)
			time.Sleep(time.Duration(k.ttl)*time.Second + 3000*time.Millisecond - time.Duration(clock.Now()-first.TRecv))
			third := h.query(b, "tcp", "", "", k.name, dns.TypeA, dns.ClassINET, "after-expiry@B", "")
			c.Ev.Eval(1)
			if third.Err != "" {
				c.Inconclusive("redis scenario: third query failed: " + third.Err)
				return
			}
			if third.Serial == first.Serial {
				if lag.overloaded() {
					c.Ev.Count("lifetime_dependent_candidates_dropped_because_overloaded", 1)
					return
				}
				c.Violation("served-after-expiry:redis-promoted", fmt.Sprintf("%s (ttl %d): %v after the reply was fetched by the first proxy the second proxy still served that reply (promoted from the shared cache at age %v: the promoted entry must keep the original expiry)",
					k.name, k.ttl, time.Duration(third.TSend-first.TRecv), time.Duration(second.TSend-first.TRecv)), cs)
				return
			}
			c.Ev.Distinct("redis", k.ttl, promoted)
			c.Ev.Count("redis_keys_expired_on_time_after_promotion", 1)
		}(ki, k)
	}
	wg.Wait()
	c.Ev.Count("redis_gets", rs.Gets.Load())
	c.Ev.Count("redis_hits", rs.Hits.Load())
	c.Ev.Count("redis_sets", rs.Sets.Load())
	if rs.Hits.Load() == 0 {
		c.Inconclusive("redis scenario: the shared cache was never hit")
	}
	c.Ev.Sample(map[string]any{"part": "redis", "keys": len(keys), "redis_gets": rs.Gets.Load(), "redis_hits": rs.Hits.Load(), "redis_sets": rs.Sets.Load()})
}

// c08Stall: a cache hit that is held up inside the lookup. Every successful look-up of the memory
// cache sleeps for 2.3 s (delay point memcache.get, between finding the entry and copying it out).
// The TTLs of the answer count from the fetch to the moment the answer is put together, which is
// after that stall: upstream TTL minus the whole seconds between the first answer's arrival at the
// client and (the second query's departure + 2.3 s) bounds them - client-side times only.
func c08Stall(c *Ctx) {
	b, err := NewBed(c, "stall", BedOpts{Upstreams: []string{"pipe"}, MemSize: 4 << 20, Listeners: []string{"udp", "tcp"},
		Env: map[string]string{"VERIF_POINTS": "memcache.get=sleep(2300ms,100.0%)"}})
	if err != nil {
		c.startFailure(err, "c08-stall")
		return
	}
	defer b.Stop()
	h := &chHist{}
	n := c.N(6, 30)
	var wg sync.WaitGroup
	for i := 0; i < n; i++ {
		wg.Add(1)
		go func(i int) {
			defer wg.Done()
			time.Sleep(time.Duration(i*170) * time.Millisecond) // spread over the phases of the second
			name := fmt.Sprintf("ok-n2-ttl300-stall%dx%d.pipe.test.", i, c.Seed)
			first := h.query(b, "tcp", "", "", name, dns.TypeA, dns.ClassINET, "store", "")
			if first.Err != "" || first.Serial == 0 {
				return
			}
			time.Sleep(time.Duration(300+i*130) * time.Millisecond)
			second := h.query(b, []string{"udp", "tcp"}[i%2], "", "", name, dns.TypeA, dns.ClassINET, "stalled-hit", "")
			c.Ev.Eval(1)
			if second.Err != "" || second.Serial != first.Serial {
				return // not a hit
			}
			took := time.Duration(second.TRecv - second.TSend)
			if took < 2300*time.Millisecond {
				c.Inconclusive(fmt.Sprintf("stall: the hit came back after %v, the delay point did not fire", took))
				return
			}
			dirs := fakeup.ParseDirectives(strings.SplitN(name, ".", 2)[0])
			exp := fakeup.BuildReply(strings.ToLower(name), dns.TypeA, dns.ClassINET, "pipe", first.Serial, dirs)
			L := (second.TSend + int64(2300*time.Millisecond) - first.TRecv - int64(50*time.Millisecond)) / int64(time.Second)
			if e := c08CheckAgeing(exp, second.Msg, uint32(max(L, 0))); e != "" {
				c.Violation("ttl-too-large:stalled-lookup", fmt.Sprintf("%s: the cache hit was held up for 2.3 s inside the lookup (delay point) and answered %v after the query left; at least %d whole seconds lie between the arrival of the first answer and the moment this one was put together: %s", name, took, L, e),
					map[string]any{"fn": "c08Stall", "name": name, "elapsed_lower_bound_s": L})
				return
			}
			c.Ev.Distinct("stalled-hit", L)
			c.Ev.Count("stalled_hits_checked_for_ageing", 1)
		}(i)
	}
	wg.Wait()
}
