package main

// End-to-end test bed: fake upstreams of every transport + the real,
// instrumented proxy binary with all listener kinds, on loopback.

import (
	"crypto/tls"
	"encoding/hex"
	"fmt"
	"io"
	"net/http"
	"os"
	"path/filepath"
	"sort"
	"strconv"
	"strings"
	"sync"
	"time"

	"github.com/IrineSistiana/mosproxy/verif/internal/clock"
	"github.com/IrineSistiana/mosproxy/verif/internal/dnsclient"
	"github.com/IrineSistiana/mosproxy/verif/internal/fakeup"
	"github.com/IrineSistiana/mosproxy/verif/internal/pki"
	"github.com/IrineSistiana/mosproxy/verif/internal/proxyproc"
	"github.com/miekg/dns"
)

var allListeners = []string{"udp", "tcp", "gnet", "tls", "http", "fasthttp", "https", "quic"}

// upstream tags of the standard bed and the fake-server transport they use
var bedUpstreams = []struct{ Tag, Scheme, Transport string }{
	{"udp", "udp", "udp"},
	{"tcp", "tcp", "tcp"},
	{"pipe", "tcp+pipeline", "tcp"},
	{"dot", "tls", "tls"},
	{"dotp", "tls+pipeline", "tls"},
	{"doh", "http", "http"},
	{"dohs", "https", "https"},
	{"h3", "h3", "h3"},
	{"doq", "quic", "quic"},
	{"udpx", "udp", "udponly"}, // a udp upstream whose TCP side refuses connections
}

type BedOpts struct {
	Listeners        []string // default: all eight
	Upstreams        []string // tags; default: all
	MemSize          int      // cache.mem_size (0 = cache off)
	MaxTTL           int
	ECS              bool
	IpMarker         string // content of the ip marker file ("" = none)
	Redis            string // address of a redis server for the second-level cache ("" = none)
	Limiter          string // yaml block under "limiter:" ("" = none)
	TcpMaxConc       int
	IdleTimeout      int // idle_timeout of the stream listeners in seconds (0 = default)
	ClientAddrHeader string
	Env              map[string]string
	LogLevel         string
	LogQueries       bool   // log.queries: every query (with the text form of its name) goes to the log
	RegexpRule       string // when set: a domain set with this regexp entry decides the first rule (REFUSED when it matches)
	VerifyClientCert bool
	NoClientCA       bool   // with VerifyClientCert: no tls.ca configured (system roots decide)
	ClientCAB        string // listener kinds "tlsB" / "httpsB": a second DoT / DoH listener whose client certificates must chain to this CA file instead
	TcpSndBuf        int    // so_sndbuf of the stream listeners (0 = kernel default with auto-tuning)
	UdpRcvBuf        int
	KeepRaw          bool // fake upstreams keep the wire bytes of every query
}

type Bed struct {
	c        *Ctx
	Dir      string
	Up       map[string]*fakeup.Server
	Proxy    *proxyproc.Proxy
	L        map[string]string // listener kind -> host:port
	CA       *pki.CA
	ProxyTLS *tls.Config // client config for the proxy's TLS listeners
	Metrics  string
	opts     BedOpts
}

const proxyCertName = "proxy.test"
const upCertName = "up.test"

var bedSeq int
var bedMu sync.Mutex

func proxyBin() string {
	if d := os.Getenv("VERIF_BINDIR"); d != "" {
		return filepath.Join(d, "mosproxy.race")
	}
	return filepath.Join(verifRoot, "bin", "mosproxy.race")
}

// errBedSetup marks harness-side set-up problems (ports taken, ...): never a verdict about the proxy.
type errBedSetup struct{ err error }

func (e errBedSetup) Error() string { return "bed setup: " + e.err.Error() }

// NewBed starts fake upstreams and the proxy; harness-side set-up problems and port clashes are
// retried with fresh ports. An error that is not errBedSetup means the proxy itself failed to start.
func NewBed(c *Ctx, name string, o BedOpts) (*Bed, error) {
	var b *Bed
	var err error
	for attempt := 0; attempt < 5; attempt++ {
		n := name
		if attempt > 0 {
			n = fmt.Sprintf("%s.retry%d", name, attempt)
		}
		b, err = newBedOnce(c, n, o)
		if err == nil {
			return b, nil
		}
		_, setup := err.(errBedSetup)
		clash := b != nil && b.Proxy != nil && (b.Proxy.LogContains("address already in use"))
		if !setup && !clash {
			return b, err
		}
		if b != nil {
			b.Stop()
		}
		c.Ev.Count("bed_setup_retries", 1)
		time.Sleep(200 * time.Millisecond)
	}
	if b != nil {
		b.Stop()
	}
	return nil, errBedSetup{err}
}

// listenBoth returns a fake server listening on UDP and TCP on one port (the udp upstream
// falls back to TCP on the same port).
func listenBoth(tag string) (*fakeup.Server, error) {
	var err error
	for i := 0; i < 30; i++ {
		ports, e := proxyproc.FreePorts("127.0.0.1", 1)
		if e != nil {
			err = e
			continue
		}
		addr := fmt.Sprintf("127.0.0.1:%d", ports[0])
		s := fakeup.NewServer(tag)
		s.KeepRaw = true
		if err = s.ListenUDP(addr); err != nil {
			continue
		}
		if err = s.ListenTCP(addr); err != nil {
			s.Close()
			continue
		}
		return s, nil
	}
	return nil, err
}

func newBedOnce(c *Ctx, name string, o BedOpts) (*Bed, error) {
	if len(o.Listeners) == 0 {
		o.Listeners = allListeners
	}
	if len(o.Upstreams) == 0 {
		for _, u := range bedUpstreams {
			o.Upstreams = append(o.Upstreams, u.Tag)
		}
	}
	b := &Bed{c: c, Dir: filepath.Join(c.Work, name), Up: map[string]*fakeup.Server{}, L: map[string]string{}, opts: o}
	os.MkdirAll(b.Dir, 0755)
	ca, err := pki.NewCA("verif-ca")
	if err != nil {
		return nil, errBedSetup{err}
	}
	b.CA = ca
	caPath := filepath.Join(b.Dir, "ca.pem")
	ca.WriteFile(caPath)
	proxyLeaf, err := ca.Leaf(pki.LeafOpt{Names: []string{proxyCertName, "127.0.0.1"}})
	if err != nil {
		return nil, err
	}
	certPath, keyPath, _ := proxyLeaf.WriteFiles(filepath.Join(b.Dir, "proxy"))
	upLeaf, err := ca.Leaf(pki.LeafOpt{Names: []string{upCertName, "127.0.0.1"}})
	if err != nil {
		return nil, err
	}
	upTLS := &tls.Config{Certificates: []tls.Certificate{upLeaf.TLS}}
	b.ProxyTLS = &tls.Config{RootCAs: ca.Pool(), ServerName: proxyCertName}

	var y strings.Builder
	// upstreams
	y.WriteString("upstreams:\n")
	for _, tag := range o.Upstreams {
		var spec *struct{ Tag, Scheme, Transport string }
		for i := range bedUpstreams {
			if bedUpstreams[i].Tag == tag {
				spec = &bedUpstreams[i]
			}
		}
		if spec == nil {
			return nil, fmt.Errorf("unknown upstream tag %s", tag)
		}
		s := fakeup.NewServer(tag)
		s.KeepRaw = o.KeepRaw
		var err error
		switch spec.Transport {
		case "udp":
			s, err = listenBoth(tag)
		case "udponly":
			err = s.ListenUDPRefuseTCP() // the TCP twin of the port is held (bound, not listening) for the life of the bed
		case "tcp":
			err = s.ListenTCP("127.0.0.1:0")
		case "tls":
			err = s.ListenTLS("127.0.0.1:0", upTLS)
		case "http":
			err = s.ListenHTTP("127.0.0.1:0")
		case "https":
			err = s.ListenHTTPS("127.0.0.1:0", upTLS)
		case "h3":
			err = s.ListenH3("127.0.0.1:0", upTLS)
		case "quic":
			err = s.ListenQUIC("127.0.0.1:0", upTLS)
		}
		if err != nil {
			b.closeUps()
			return nil, errBedSetup{fmt.Errorf("fake upstream %s: %w", tag, err)}
		}
		b.Up[tag] = s
		addr := s.Addr[spec.Transport]
		if spec.Transport == "udponly" {
			addr = s.Addr["udp"]
		}
		_, port, _ := strings.Cut(addr, ":")
		switch spec.Transport {
		case "udp", "tcp", "udponly":
			fmt.Fprintf(&y, "  - tag: %s\n    addr: \"%s://%s\"\n", tag, spec.Scheme, addr)
		case "http":
			fmt.Fprintf(&y, "  - tag: %s\n    addr: \"http://%s/dns-query\"\n", tag, addr)
		default: // tls based: URL host is the certificate name, dial_addr the real address
			path := ""
			if spec.Transport == "https" || spec.Transport == "h3" {
				path = "/dns-query"
			}
			fmt.Fprintf(&y, "  - tag: %s\n    addr: \"%s://%s:%s%s\"\n    dial_addr: \"%s\"\n    tls:\n      ca: \"%s\"\n", tag, spec.Scheme, upCertName, port, path, addr, caPath)
		}
		if spec.Transport == "udp" && o.UdpRcvBuf > 0 {
			fmt.Fprintf(&y, "    socket:\n      so_rcvbuf: %d\n", o.UdpRcvBuf)
		}
	}
	// domain sets + rules: <anything>.<tag>.test -> upstream tag
	y.WriteString("domain_sets:\n")
	for _, tag := range o.Upstreams {
		fp := filepath.Join(b.Dir, "set_"+tag+".txt")
		os.WriteFile(fp, []byte("domain:"+tag+".test\n"), 0644)
		fmt.Fprintf(&y, "  - tag: set_%s\n    files: [\"%s\"]\n", tag, fp)
	}
	if o.RegexpRule != "" {
		fp := filepath.Join(b.Dir, "set_regexp.txt")
		os.WriteFile(fp, []byte("regexp:"+o.RegexpRule+"\n"), 0644)
		fmt.Fprintf(&y, "  - tag: set_regexp\n    files: [\"%s\"]\n", fp)
	}
	y.WriteString("rules:\n")
	if o.RegexpRule != "" {
		y.WriteString("  - domain: set_regexp\n    reject: 5\n")
	}
	for _, tag := range o.Upstreams {
		fmt.Fprintf(&y, "  - domain: set_%s\n    forward: %s\n", tag, tag)
	}
	// servers
	ports, err := proxyproc.FreePorts("127.0.0.1", len(o.Listeners)+1)
	if err != nil {
		b.closeUps()
		return nil, errBedSetup{err}
	}
	y.WriteString("servers:\n")
	for i, kind := range o.Listeners {
		addr := fmt.Sprintf("127.0.0.1:%d", ports[i])
		proto := kind
		if strings.HasPrefix(kind, "unix") { // "unixtcp", "unixgnet": the stream listener on an abstract unix socket
			proto = strings.TrimPrefix(kind, "unix")
			addr = fmt.Sprintf("@verif_%d_%s_%d", os.Getpid(), name, ports[i])
		}
		b.L[kind] = addr
		if kind == "tlsB" || kind == "httpsB" {
			proto = strings.TrimSuffix(kind, "B")
		}
		if kind == "udpmr" {
			// UDP listener on the wildcard address with multi_routes: the response has to leave from the
			// address the query was sent to. Clients talk to 127.0.0.2, which is not the address the
			// kernel would pick by itself.
			proto = "udp"
			addr = fmt.Sprintf("0.0.0.0:%d", ports[i])
			b.L[kind] = fmt.Sprintf("127.0.0.2:%d", ports[i])
		}
		fmt.Fprintf(&y, "  - tag: l_%s\n    protocol: %s\n    listen: \"%s\"\n", kind, proto, addr)
		if kind == "udpmr" {
			y.WriteString("    udp:\n      multi_routes: true\n")
		}
		if kind == "udp" && o.UdpRcvBuf > 0 {
			fmt.Fprintf(&y, "    socket:\n      so_rcvbuf: %d\n", o.UdpRcvBuf)
		}
		if (kind == "tcp" || kind == "gnet" || kind == "tls") && o.TcpSndBuf > 0 {
			fmt.Fprintf(&y, "    socket:\n      so_sndbuf: %d\n", o.TcpSndBuf)
		}
		if (kind == "tcp" || kind == "gnet" || kind == "tls") && o.IdleTimeout > 0 {
			fmt.Fprintf(&y, "    idle_timeout: %d\n", o.IdleTimeout)
		}
		if (kind == "tcp" || kind == "gnet" || kind == "tls") && o.TcpMaxConc > 0 {
			fmt.Fprintf(&y, "    tcp:\n      max_concurrent_queries: %d\n", o.TcpMaxConc)
		}
		if kind == "tlsB" || kind == "httpsB" {
			fmt.Fprintf(&y, "    tls:\n      cert: \"%s\"\n      key: \"%s\"\n      ca: \"%s\"\n      verify_client_cert: true\n", certPath, keyPath, o.ClientCAB)
		}
		if kind == "tls" || kind == "https" || kind == "quic" {
			fmt.Fprintf(&y, "    tls:\n      cert: \"%s\"\n      key: \"%s\"\n", certPath, keyPath)
			if o.VerifyClientCert && o.NoClientCA {
				y.WriteString("      verify_client_cert: true\n") // no ca: client certificates are verified against the system roots
			} else if o.VerifyClientCert {
				fmt.Fprintf(&y, "      ca: \"%s\"\n      verify_client_cert: true\n", caPath)
			}
		}
		if (kind == "http" || kind == "fasthttp" || kind == "https") && o.ClientAddrHeader != "" {
			fmt.Fprintf(&y, "    http:\n      client_addr_header: \"%s\"\n", o.ClientAddrHeader)
		}
	}
	b.Metrics = fmt.Sprintf("127.0.0.1:%d", ports[len(o.Listeners)])
	fmt.Fprintf(&y, "metrics:\n  addr: \"%s\"\n", b.Metrics)
	if o.MemSize > 0 || o.IpMarker != "" || o.Redis != "" {
		y.WriteString("cache:\n")
		if o.Redis != "" {
			fmt.Fprintf(&y, "  redis: \"redis://%s\"\n", o.Redis)
		}
		if o.MemSize > 0 {
			fmt.Fprintf(&y, "  mem_size: %d\n", o.MemSize)
		}
		if o.MaxTTL > 0 {
			fmt.Fprintf(&y, "  maximum_ttl: %d\n", o.MaxTTL)
		}
		if o.IpMarker != "" {
			fp := filepath.Join(b.Dir, "ipmarker.txt")
			os.WriteFile(fp, []byte(o.IpMarker), 0644)
			fmt.Fprintf(&y, "  ip_marker: \"%s\"\n", fp)
		}
	}
	if o.ECS {
		y.WriteString("ecs:\n  enabled: true\n")
	}
	if o.LogQueries {
		y.WriteString("log:\n  queries: true\n")
	}
	if o.Limiter != "" {
		y.WriteString("limiter:\n" + o.Limiter)
	}
	p, err := proxyproc.Start(proxyproc.Opts{Bin: proxyBin(), Dir: filepath.Join(b.Dir, "proxy"), YAML: y.String(), Env: o.Env, LogLevel: o.LogLevel})
	b.Proxy = p
	if err != nil {
		tail := ""
		if p != nil {
			tail = p.LogTail(2000)
		}
		return b, fmt.Errorf("proxy start: %w\n%s", err, tail)
	}
	return b, nil
}

func (b *Bed) closeUps() {
	for _, s := range b.Up {
		s.Close()
	}
}

// Stop shuts the proxy down (SIGTERM) and the fake upstreams, returns what the proxy left behind.
func (b *Bed) Stop() *proxyproc.Result {
	var r *proxyproc.Result
	if b.Proxy != nil {
		r = b.Proxy.Stop()
	}
	b.closeUps()
	return r
}

// TagFor returns the upstream tag the bed's rules select for a name ("" = none).
func (b *Bed) TagFor(name string) string {
	labels := dns.SplitDomainName(strings.ToLower(name))
	if len(labels) < 2 || labels[len(labels)-1] != "test" {
		return ""
	}
	tag := labels[len(labels)-2]
	if _, ok := b.Up[tag]; ok {
		return tag
	}
	return ""
}

// ---------------------------------------------------------------- oracle for keyed answers

// CheckKeyed verifies that resp is exactly the keyed reply the upstream `tag`
// produces for question q (TTLs may be smaller, OPT is ignored). Returns the serial.
func CheckKeyed(q dns.Question, tag string, resp *dns.Msg) (uint32, error) {
	lower := strings.ToLower(q.Name)
	meta, ok := fakeup.FindMeta(resp)
	if !ok {
		return 0, fmt.Errorf("no meta record in response")
	}
	key := fakeup.Key(lower, q.Qtype, q.Qclass, tag)
	if meta.Hash != hex.EncodeToString(key[:16]) {
		return meta.Serial, fmt.Errorf("answer is keyed for another question/upstream: meta=%+v expected hash %s (q=%s type %d class %d up=%s)", meta, hex.EncodeToString(key[:16]), lower, q.Qtype, q.Qclass, tag)
	}
	if meta.Tag != tag {
		return meta.Serial, fmt.Errorf("answer produced by upstream %q, rules select %q", meta.Tag, tag)
	}
	first := ""
	if l := dns.SplitDomainName(lower); len(l) > 0 {
		first = l[0]
	}
	exp := fakeup.BuildReply(lower, q.Qtype, q.Qclass, tag, meta.Serial, fakeup.ParseDirectives(first))
	if resp.Truncated && !exp.Truncated {
		// records were omitted to fit a size limit: what is left must be an in-order
		// subsequence of what the upstream sent
		if err := subseqRRs("answer", exp.Answer, resp.Answer); err != nil {
			return meta.Serial, err
		}
		if err := subseqRRs("authority", exp.Ns, resp.Ns); err != nil {
			return meta.Serial, err
		}
		if resp.Rcode != exp.Rcode {
			return meta.Serial, fmt.Errorf("rcode %d, upstream sent %d", resp.Rcode, exp.Rcode)
		}
		return meta.Serial, nil
	}
	if err := sameRRs("answer", exp.Answer, resp.Answer, true); err != nil {
		return meta.Serial, err
	}
	if err := sameRRs("authority", exp.Ns, resp.Ns, true); err != nil {
		return meta.Serial, err
	}
	if err := sameRRs("additional", noOpt(exp.Extra), noOpt(resp.Extra), false); err != nil {
		return meta.Serial, err
	}
	if resp.Rcode != exp.Rcode {
		return meta.Serial, fmt.Errorf("rcode %d, upstream sent %d", resp.Rcode, exp.Rcode)
	}
	return meta.Serial, nil
}

func subseqRRs(section string, exp, got []dns.RR) error {
	j := 0
	for i, g := range got {
		k := fakeup.RRKey(g)
		for j < len(exp) && fakeup.RRKey(exp[j]) != k {
			j++
		}
		if j == len(exp) {
			return fmt.Errorf("%s[%d] of the truncated response: %q is not (in order) among the records the upstream sent", section, i, k)
		}
		if g.Header().Ttl > exp[j].Header().Ttl {
			return fmt.Errorf("%s[%d]: ttl %d larger than upstream ttl %d", section, i, g.Header().Ttl, exp[j].Header().Ttl)
		}
		j++
	}
	return nil
}

func noOpt(rrs []dns.RR) []dns.RR {
	var out []dns.RR
	for _, rr := range rrs {
		if rr.Header().Rrtype != dns.TypeOPT {
			out = append(out, rr)
		}
	}
	return out
}

func sameRRs(section string, exp, got []dns.RR, ordered bool) error {
	if len(exp) != len(got) {
		return fmt.Errorf("%s: %d records, upstream sent %d", section, len(got), len(exp))
	}
	ek := make([]string, len(exp))
	gk := make([]string, len(got))
	for i := range exp {
		ek[i] = fakeup.RRKey(exp[i])
		gk[i] = fakeup.RRKey(got[i])
	}
	if !ordered {
		sort.Strings(ek)
		sort.Strings(gk)
	}
	for i := range ek {
		if ek[i] != gk[i] {
			return fmt.Errorf("%s[%d]: got %q, upstream sent %q", section, i, gk[i], ek[i])
		}
	}
	if ordered {
		for i := range exp {
			if got[i].Header().Ttl > exp[i].Header().Ttl {
				return fmt.Errorf("%s[%d]: ttl %d larger than upstream ttl %d", section, i, got[i].Header().Ttl, exp[i].Header().Ttl)
			}
		}
	}
	return nil
}

// ---------------------------------------------------------------- one-shot exchange over any listener

type xResult struct {
	Resp   []byte
	Status int // HTTP status for DoH kinds
	TSend  int64
	TRecv  int64
	Err    error
	Extra  int // additional responses seen (duplicates)
}

type xOpts struct {
	LocalIP string
	Timeout time.Duration
	Method  string            // DoH: GET or POST (default POST)
	Header  map[string]string // DoH extra headers
	TLS     *tls.Config       // override the client TLS config
	CutTail int               // stream listeners: the last CutTail octets of the frame travel in a segment of their own, 3 ms later
}

// Exchange sends one query over the given listener kind on a fresh connection and waits for one response.
func (b *Bed) Exchange(kind string, wire []byte, o xOpts) xResult {
	if o.Timeout == 0 {
		o.Timeout = 10 * time.Second
	}
	tcfg := b.ProxyTLS
	if o.TLS != nil {
		tcfg = o.TLS
	}
	addr := b.L[kind]
	switch kind {
	case "udp", "udpmr":
		c, err := dnsclient.DialUDP(o.LocalIP, addr)
		if err != nil {
			return xResult{Err: err}
		}
		defer c.Close()
		ts, err := c.Send(wire)
		if err != nil {
			return xResult{Err: err, TSend: ts}
		}
		dl := time.Now().Add(o.Timeout)
		for time.Now().Before(dl) {
			if r := c.Received(); len(r) > 0 {
				return xResult{Resp: r[0].Data, TSend: ts, TRecv: r[0].T, Extra: len(r) - 1}
			}
			time.Sleep(time.Millisecond)
		}
		return xResult{Err: fmt.Errorf("timeout"), TSend: ts}
	case "tcp", "gnet", "tls", "unixtcp", "unixgnet":
		var tc *tls.Config
		if kind == "tls" {
			tc = tcfg
		}
		c, err := dnsclient.DialStream(o.LocalIP, addr, tc)
		if err != nil {
			return xResult{Err: err}
		}
		defer c.Close()
		var ts int64
		if o.CutTail > 0 && o.CutTail < len(wire) {
			frame := dnsclient.Frame(wire)
			ts = clock.Now()
			if err = c.WriteRaw(frame[:len(frame)-o.CutTail]); err == nil {
				time.Sleep(3 * time.Millisecond)
				err = c.WriteRaw(frame[len(frame)-o.CutTail:])
			}
		} else {
			ts, err = c.SendFrame(wire)
		}
		if err != nil {
			return xResult{Err: err, TSend: ts}
		}
		if !c.WaitFrames(1, o.Timeout) {
			e, _, _ := c.State()
			return xResult{Err: fmt.Errorf("no frame (read state: %v)", e), TSend: ts}
		}
		f := c.Frames()
		return xResult{Resp: f[0].Data, TSend: ts, TRecv: f[0].T, Extra: len(f) - 1}
	case "http", "fasthttp", "https":
		url := "http://" + addr + "/dns-query"
		mode := "h1"
		var tc *tls.Config
		if kind == "https" {
			url = "https://" + addr + "/dns-query"
			mode = "h2"
			tc = tcfg
		}
		hc := dnsclient.NewDoH(url, tc, mode, o.LocalIP)
		defer hc.Close()
		m := o.Method
		if m == "" {
			m = "POST"
		}
		r := hc.Do(m, wire, o.Header)
		return xResult{Resp: r.Body, Status: r.Status, TSend: r.TSend, TRecv: r.TRecv, Err: r.Err}
	case "quic":
		c, err := dnsclient.DialDoQ(o.LocalIP, addr, tcfg)
		if err != nil {
			return xResult{Err: err}
		}
		defer c.Close()
		r := c.Exchange(dnsclient.Frame(wire), o.Timeout)
		if len(r.Frames) == 0 {
			return xResult{Err: fmt.Errorf("no frame on stream (err=%v eof=%v)", r.Err, r.EOF), TSend: r.TSend}
		}
		return xResult{Resp: r.Frames[0].Data, TSend: r.TSend, TRecv: r.Frames[0].T, Extra: len(r.Frames) - 1}
	}
	return xResult{Err: fmt.Errorf("unknown listener kind %s", kind)}
}

// mkQuery builds a plain recursive query.
func mkQuery(id uint16, name string, qtype, qclass uint16, edns bool) []byte {
	m := new(dns.Msg)
	m.Id = id
	m.RecursionDesired = true
	m.Question = []dns.Question{{Name: dns.Fqdn(name), Qtype: qtype, Qclass: qclass}}
	if edns {
		m.SetEdns0(4096, false)
	}
	b, err := m.Pack()
	if err != nil {
		panic(err)
	}
	return b
}

// procFailures turns what the proxy process left behind into violations shared by all E2E checks.
// Only crashes are reported here; a crash that happens after SIGTERM (orderly shutdown) is
// C18's business and is reported only by checks that pass shutdownToo.
func (c *Ctx) procFailures(res *proxyproc.Result, where string, shutdownToo ...bool) {
	if res == nil {
		return
	}
	if res.Panic != "" && (res.DiedBeforeStop || (len(shutdownToo) > 0 && shutdownToo[0])) {
		c.Violation("proxy-crash", "proxy crashed ("+where+"): "+res.Panic, map[string]any{"where": where, "panic": res.Panic})
	}
}

func countMosRaces(res *proxyproc.Result) int {
	n := 0
	if res == nil {
		return 0
	}
	for _, r := range res.Races {
		if r.Mosproxy {
			n++
		}
	}
	return n
}

// startFailure classifies a NewBed error: harness-side set-up problems are inconclusive,
// a proxy that does not come up with a valid configuration is a violation.
func (c *Ctx) startFailure(err error, where string) {
	if _, setup := err.(errBedSetup); setup {
		c.Inconclusive("bed set-up failed (" + where + "): " + err.Error())
		return
	}
	msg := err.Error()
	if len(msg) > 3000 {
		msg = msg[:3000]
	}
	c.Violation("proxy-start-failed", "the proxy did not start with a valid configuration ("+where+"): "+msg, map[string]any{"where": where, "err": msg})
}

// bedMetric reads one counter / gauge from the proxy's metrics endpoint (first sample whose name
// ends with name).
func bedMetric(b *Bed, name string) (float64, bool) {
	cl := &http.Client{Timeout: 3 * time.Second}
	resp, err := cl.Get("http://" + b.Metrics + "/metrics")
	if err != nil {
		return 0, false
	}
	defer resp.Body.Close()
	body, _ := io.ReadAll(io.LimitReader(resp.Body, 4<<20))
	for _, l := range strings.Split(string(body), "\n") {
		if strings.HasPrefix(l, "#") {
			continue
		}
		f := strings.Fields(l)
		if len(f) == 2 && (f[0] == name || strings.HasSuffix(f[0], "_"+name)) {
			v, err := strconv.ParseFloat(f[1], 64)
			return v, err == nil
		}
	}
	return 0, false
}
