package main

// C16 — a truncated UDP upstream reply is retried over TCP.
//
// upstream.NewUpstream("udp://127.0.0.1:port") / ("127.0.0.1:port") against a
// fake server that serves UDP and TCP on ONE port. Per query (unique qname)
// the script says {udp: tc|ok|silent, tcp: ok|refuse|silent|garbage|close};
// replies carry the leg that produced them and a nonce.

import (
	"context"
	"encoding/json"
	"fmt"
	"runtime"
	"sync"
	"sync/atomic"
	"time"

	"github.com/IrineSistiana/mosproxy/internal/dnsmsg"
	"github.com/IrineSistiana/mosproxy/internal/pool"
	"github.com/IrineSistiana/mosproxy/internal/upstream"
	"github.com/IrineSistiana/mosproxy/verif/internal/gen"
	"github.com/IrineSistiana/mosproxy/verif/internal/scripted"
)

func init() {
	register(&Check{ID: "C16", Level: "fault_enumeration",
		Rule: "exchanges through upstream.NewUpstream(\"udp://127.0.0.1:p\" | \"127.0.0.1:p\" | dial_addr with an unresolvable / dead URL host) against a fake server on one port; every exchange has a unique random question (name, type, class) and one script cell " +
			"{udp: tc|ok|silent} x {tcp: ok|refuse|silent|garbage|close|slow (reply 700 ms after a 250-500 ms deadline)|okfin (reply, then FIN: later TCP legs meet a dead pooled connection)} (all 21 cells, equally often), a series of 70 failing TCP legs followed by a healthy one, one question asked three times whose UDP replies are truncated / complete / truncated (TCP, no TCP, TCP again), complete UDP replies whose question section is lower-cased or missing (no TCP), a hasty (300 ms) and a patient (3 s) caller asking the same question while the TCP side takes 700 ms (the patient one is served), 12-32 concurrent callers, context deadlines 400-1000 ms against silent legs; plus a sequential series of TC=0 exchanges on a fresh upstream " +
			"after which the server must have accepted no TCP connection at all. One evaluation = one exchange. Distinct non-trivial cases = distinct tuples (address form, udp script, tcp script, qtype, qclass, outcome class, number of TCP arrivals of the question)",
		Run: runC16})
}

const c16Slack = 1500 * time.Millisecond

type c16Ex struct {
	I        int    `json:"i"`
	Group    string `json:"server"` // listen | refuse
	Form     string `json:"address_form"`
	UDP      string `json:"udp_script"`
	TCP      string `json:"tcp_script"`
	Name     string `json:"qname"`
	QType    uint16 `json:"qtype"`
	QClass   uint16 `json:"qclass"`
	CallerID uint16 `json:"caller_id"`
	DeadMs   int    `json:"deadline_ms"`

	TCall    int64  `json:"t_call_ns"`
	TRet     int64  `json:"t_return_ns"`
	ErrClass string `json:"result"`
	Err      string `json:"err,omitempty"`
	Returned bool   `json:"returned_msg"`
	GotTC    bool   `json:"returned_tc"`
	GotID    uint16 `json:"returned_id"`
	HasNonce bool   `json:"has_nonce"`
	Nonce    uint64 `json:"nonce"`
	Leg      string `json:"returned_leg"`
	GotName  string `json:"returned_qname"`
	GotType  uint16 `json:"returned_qtype"`
	GotClass uint16 `json:"returned_qclass"`
	GotRcode int    `json:"returned_rcode"`
	GotAns   int    `json:"returned_answers"`
}

type c16Witness struct {
	Exchange *c16Ex           `json:"exchange"`
	Rule     string           `json:"rule"`
	UDPSeen  []scripted.Query `json:"udp_arrivals"`
	TCPSeen  []scripted.Query `json:"tcp_arrivals"`
	UDPSent  []scripted.Reply `json:"udp_replies"`
	TCPSent  []scripted.Reply `json:"tcp_replies"`
	Confirm  []string         `json:"confirmation_runs,omitempty"`
}

// c16Env is one fake server (UDP + TCP on one port) with its two upstream handles.
type c16Env struct {
	arrivals map[string]int // UDP datagrams seen per question (tclate)
	group    string
	port     int
	udp      *scripted.Server
	tcp      *scripted.Server // nil when the TCP port refuses
	refuse   *scripted.RefusePort
	ups      map[string]upstream.Upstream // by address form
	mu       sync.Mutex
	scripts  map[string]*c16Ex
}

func c16NewEnv(group string) (*c16Env, error) {
	e := &c16Env{group: group, scripts: map[string]*c16Ex{}, arrivals: map[string]int{}, ups: map[string]upstream.Upstream{}}
	look := func(name string) *c16Ex {
		e.mu.Lock()
		defer e.mu.Unlock()
		return e.scripts[name]
	}
	e.udp = scripted.NewServer(func(q *scripted.Query) scripted.Action {
		ex := look(q.Name)
		if ex == nil {
			return scripted.Action{Tag: "unknown-qname", Leg: scripted.LegUDP}
		}
		switch ex.UDP {
		case "tc":
			return scripted.Action{Tag: "udp-tc", TC: true, Leg: scripted.LegUDP}
		case "silent":
			return scripted.Action{Tag: "udp-silent", Drop: true}
		case "ok4096": // a complete reply of exactly 4096 octets: as large as the transport's read buffer
			return scripted.Action{Tag: "udp-ok-4096", Leg: scripted.LegUDP, PadTo: 4096}
		case "ok4095":
			return scripted.Action{Tag: "udp-ok-4095", Leg: scripted.LegUDP, PadTo: 4095}
		case "oklower": // complete reply whose question section spells the name in lower case (the query used mixed case)
			return scripted.Action{Tag: "udp-ok-lowercased-question", Leg: scripted.LegUDP, LowerQ: true}
		case "okbare": // complete (TC=0) reply that is nothing but a header: no question echoed (some servers answer errors that way)
			return scripted.Action{Tag: "udp-ok-bare", NoQuestion: true, Leg: scripted.LegUDP}
		case "tcbare": // truncated, and nothing but a header (no question echoed)
			return scripted.Action{Tag: "udp-tc-bare", TC: true, NoQuestion: true, Leg: scripted.LegUDP}
		case "okslow": // a complete reply, but only after 2.6 s
			return scripted.Action{Tag: "udp-ok-slow", Leg: scripted.LegUDP, Delay: 2600 * time.Millisecond}
		case "tclate": // truncated; the first datagram of a question is answered after 1.5 s, any further one at once
			e.mu.Lock()
			e.arrivals[q.Name]++
			n := e.arrivals[q.Name]
			e.mu.Unlock()
			if n == 1 {
				return scripted.Action{Tag: "udp-tc-late", TC: true, Leg: scripted.LegUDP, Delay: 1500 * time.Millisecond}
			}
			return scripted.Action{Tag: "udp-tc", TC: true, Leg: scripted.LegUDP}
		}
		return scripted.Action{Tag: "udp-ok", Leg: scripted.LegUDP}
	})
	if group == "refuse" {
		rp, u, port, err := scripted.RefuseTCPWithUDP()
		if err != nil {
			return nil, err
		}
		u.SetReadBuffer(2 << 20)
		e.refuse, e.port = rp, port
		e.udp.ServePacket(u)
	} else {
		l, u, port, err := scripted.ListenTCPUDP()
		if err != nil {
			return nil, err
		}
		u.SetReadBuffer(2 << 20)
		e.port = port
		e.udp.ServePacket(u)
		e.tcp = scripted.NewServer(func(q *scripted.Query) scripted.Action {
			ex := look(q.Name)
			if ex == nil {
				return scripted.Action{Tag: "unknown-qname", Leg: scripted.LegTCP}
			}
			switch ex.TCP {
			case "silent":
				return scripted.Action{Tag: "tcp-silent", Drop: true}
			case "okfin": // answers, then closes the connection: the next TCP leg that reuses it finds it dead
				return scripted.Action{Tag: "tcp-ok-fin", Leg: scripted.LegTCP, End: scripted.EndFIN}
			case "slow": // answers, but only after the caller's deadline has passed
				return scripted.Action{Tag: "tcp-slow", Leg: scripted.LegTCP, Delay: 700 * time.Millisecond}
			case "garbage":
				return scripted.Action{Tag: "tcp-garbage", Drop: true, Before: []scripted.Extra{{Kind: scripted.ExtraGarbage}}}
			case "close":
				end := scripted.EndFIN
				if ex.I%2 == 1 {
					end = scripted.EndRST
				}
				return scripted.Action{Tag: "tcp-close", Drop: true, End: end}
			}
			return scripted.Action{Tag: "tcp-ok", Leg: scripted.LegTCP}
		})
		e.tcp.ServeStream(l)
	}
	for _, form := range c16Forms {
		addr := fmt.Sprintf("127.0.0.1:%d", e.port)
		opt := upstream.Opt{}
		switch form {
		case "udp://":
			addr = "udp://" + addr
		case "dialaddr-name": // URL host is a name that does not resolve; both legs must go to dial_addr
			opt.DialAddr = addr
			addr = "udp://dns.c16.invalid:5353"
		case "dialaddr-ip": // URL host is another (dead) address; both legs must go to dial_addr
			opt.DialAddr = addr
			addr = fmt.Sprintf("127.0.0.77:%d", e.port)
		}
		u, err := upstream.NewUpstream(addr, opt)
		if err != nil {
			e.close()
			return nil, err
		}
		e.ups[form] = u
	}
	return e, nil
}

func (e *c16Env) close() {
	for _, u := range e.ups {
		u.Close()
	}
	e.udp.Close()
	if e.tcp != nil {
		e.tcp.Close()
	}
	if e.refuse != nil {
		e.refuse.Close()
	}
}

var c16Forms = []string{"udp://", "bare", "dialaddr-name", "dialaddr-ip"}
var c16UDP = []string{"tc", "ok", "silent"}
var c16TCP = []string{"ok", "refuse", "silent", "garbage", "close", "slow", "okfin"}
var c16Types = []uint16{1, 28, 16, 15, 2, 5, 6, 12, 33, 65, 255, 257}
var c16Classes = []uint16{1, 1, 1, 3, 4, 255}

func c16Gen(r *gen.R, i int, udp, tcp string) *c16Ex {
	ex := &c16Ex{I: i, UDP: udp, TCP: tcp}
	ex.Group = "listen"
	if tcp == "refuse" {
		ex.Group = "refuse"
	}
	ex.Form = gen.Pick(r, c16Forms)
	const al = "abcdefghijklmnopqrstuvwxyz0123456789-"
	name := fmt.Sprintf("q%d", i)
	for n := r.Range(1, 4); n > 0; n-- {
		l := make([]byte, r.Range(1, 12))
		for k := range l {
			l[k] = al[r.Intn(len(al))]
		}
		name += "." + string(l)
	}
	ex.Name = name + ".c16.test."
	ex.QType = gen.Pick(r, c16Types)
	if r.P(0.1) {
		ex.QType = uint16(r.Range(1, 65535))
	}
	ex.QClass = gen.Pick(r, c16Classes)
	ex.CallerID = uint16(r.Intn(65536))
	ex.DeadMs = 2500
	if udp == "silent" || (udp == "tc" && tcp == "silent") {
		ex.DeadMs = r.Range(400, 1000)
	}
	if tcp == "slow" {
		ex.DeadMs = r.Range(250, 500)
	}
	return ex
}

func c16Do(e *c16Env, ex *c16Ex) {
	e.mu.Lock()
	e.scripts[ex.Name] = ex
	e.mu.Unlock()
	q := scripted.BuildQuery(ex.CallerID, ex.Name, ex.QType, ex.QClass)
	ctx, cancel := context.WithTimeout(context.Background(), time.Duration(ex.DeadMs)*time.Millisecond)
	ex.TCall = int64(scripted.Now())
	m, err := e.ups[ex.Form].ExchangeContext(ctx, q)
	ex.TRet = int64(scripted.Now())
	cancel()
	ex.ErrClass = upErrClass(err)
	ex.Err = upShort(err)
	ex.Returned = false
	if m != nil {
		ex.Returned = true
		ex.GotTC = m.Header.Truncated
		ex.GotID = m.Header.ID
		ex.GotRcode = int(m.Header.RCode)
		ex.GotAns = len(m.Answers)
		var leg byte
		ex.Nonce, leg, ex.HasNonce = upNonce(m)
		ex.Leg = string(rune(leg))
		ex.GotName, ex.GotType, ex.GotClass, _ = upQuestion(m)
		dnsmsg.ReleaseMsg(m)
	}
}

type c16Logs struct {
	udpQ, tcpQ map[string][]scripted.Query
	udpR, tcpR map[string][]scripted.Reply // by qname of the answered query
}

func c16Collect(e *c16Env) *c16Logs {
	lg := &c16Logs{udpQ: map[string][]scripted.Query{}, tcpQ: map[string][]scripted.Query{}, udpR: map[string][]scripted.Reply{}, tcpR: map[string][]scripted.Reply{}}
	us := e.udp.Snapshot()
	for _, q := range us.Queries {
		lg.udpQ[q.Name] = append(lg.udpQ[q.Name], q)
	}
	for _, r := range us.Replies {
		if r.Query >= 0 {
			n := us.Queries[r.Query].Name
			lg.udpR[n] = append(lg.udpR[n], r)
		}
	}
	if e.tcp != nil {
		ts := e.tcp.Snapshot()
		for _, q := range ts.Queries {
			lg.tcpQ[q.Name] = append(lg.tcpQ[q.Name], q)
		}
		for _, r := range ts.Replies {
			if r.Query >= 0 {
				n := ts.Queries[r.Query].Name
				lg.tcpR[n] = append(lg.tcpR[n], r)
			}
		}
	}
	return lg
}

// c16Judge returns ("", "") when the exchange satisfies the rules, else (signature, text).
// soft=true marks verdicts that depend on timing or on a datagram not being lost (confirmed by re-runs).
func c16Judge(ex *c16Ex, lg *c16Logs) (sig, what string, soft bool) {
	tcpQ := lg.tcpQ[ex.Name]
	udpR := lg.udpR[ex.Name]
	tcpR := lg.tcpR[ex.Name]
	hasNonce := func(rs []scripted.Reply, n uint64) bool {
		for _, r := range rs {
			if r.Nonce == n {
				return true
			}
		}
		return false
	}
	late := time.Duration(ex.TRet-ex.TCall) - time.Duration(ex.DeadMs)*time.Millisecond
	if late > c16Slack {
		return "late-return:udp=" + ex.UDP + ",tcp=" + ex.TCP, fmt.Sprintf("exchange %q (udp=%s tcp=%s) returned %v after its %d ms deadline", ex.Name, ex.UDP, ex.TCP, late, ex.DeadMs), true
	}
	if ex.Returned {
		if ex.Leg == "U" && ex.GotTC {
			return "returned-truncated-udp-message:tcp=" + ex.TCP, fmt.Sprintf("exchange %q (udp=%s tcp=%s) returned the truncated UDP reply (TC=1, nonce %d)", ex.Name, ex.UDP, ex.TCP, ex.Nonce), false
		}
		if !ex.HasNonce {
			return "returned-unknown-message", fmt.Sprintf("exchange %q returned a message that carries no server nonce", ex.Name), false
		}
		if ex.GotID != ex.CallerID {
			return "returned-foreign-id", fmt.Sprintf("exchange %q: caller id %d, returned id %d", ex.Name, ex.CallerID, ex.GotID), false
		}
	}
	// a TCP retry must carry exactly the same question
	for _, q := range tcpQ {
		if q.Type != ex.QType || q.Class != ex.QClass {
			return "tcp-retry-with-different-question", fmt.Sprintf("exchange %q type %d class %d was re-sent over TCP as type %d class %d", ex.Name, ex.QType, ex.QClass, q.Type, q.Class), false
		}
	}
	switch ex.UDP {
	case "ok":
		if len(tcpQ) > 0 {
			return "tcp-attempt-without-tc", fmt.Sprintf("exchange %q got a TC=0 UDP reply, yet the question arrived over TCP %d time(s)", ex.Name, len(tcpQ)), false
		}
		if !ex.Returned {
			return "udp-reply-not-returned", fmt.Sprintf("exchange %q: the server sent %d TC=0 UDP replies but the exchange failed: %s", ex.Name, len(udpR), ex.Err), true
		}
		if ex.Leg != "U" || !hasNonce(udpR, ex.Nonce) {
			return "udp-reply-not-returned-as-received", fmt.Sprintf("exchange %q returned nonce %d leg %q which is not the UDP reply sent for it", ex.Name, ex.Nonce, ex.Leg), false
		}
		if ex.GotName != ex.Name || ex.GotType != ex.QType || ex.GotClass != ex.QClass || ex.GotRcode != 0 || ex.GotAns != 1 || ex.GotTC {
			return "udp-reply-altered", fmt.Sprintf("exchange %q: returned message differs from the UDP reply as sent (question %q/%d/%d rcode %d answers %d tc %v)", ex.Name, ex.GotName, ex.GotType, ex.GotClass, ex.GotRcode, ex.GotAns, ex.GotTC), false
		}
	case "silent":
		if ex.Returned {
			return "message-from-nowhere", fmt.Sprintf("exchange %q: UDP leg silent, yet a message (leg %q nonce %d) was returned", ex.Name, ex.Leg, ex.Nonce), false
		}
	case "tc":
		if len(lg.udpR[ex.Name]) == 0 {
			// the UDP query (or our script) never happened: datagram lost on the way in
			if ex.Returned {
				return "message-from-nowhere", fmt.Sprintf("exchange %q: no UDP reply was sent, yet a message was returned", ex.Name), false
			}
			return "", "", false
		}
		switch ex.TCP {
		case "ok", "okfin":
			if !ex.Returned {
				if len(tcpQ) == 0 {
					return "no-tcp-retry-after-tc", fmt.Sprintf("exchange %q: UDP reply had TC=1 but the question never arrived over TCP; exchange failed: %s", ex.Name, ex.Err), true
				}
				return "tcp-outcome-not-returned", fmt.Sprintf("exchange %q: TCP leg answered (%d replies) but the exchange failed: %s", ex.Name, len(tcpR), ex.Err), true
			}
			if ex.Leg != "T" || !hasNonce(tcpR, ex.Nonce) {
				return "tcp-outcome-not-returned", fmt.Sprintf("exchange %q: returned nonce %d leg %q is not the TCP reply sent for it", ex.Name, ex.Nonce, ex.Leg), false
			}
			if ex.GotName != ex.Name || ex.GotType != ex.QType || ex.GotClass != ex.QClass {
				return "tcp-reply-altered", fmt.Sprintf("exchange %q: returned question %q/%d/%d", ex.Name, ex.GotName, ex.GotType, ex.GotClass), false
			}
		case "slow": // the TCP reply comes 700 ms after the query, the caller waits 250-500 ms
			if ex.Returned && (ex.Leg != "T" || !hasNonce(tcpR, ex.Nonce)) {
				return "tcp-outcome-not-returned", fmt.Sprintf("exchange %q: returned nonce %d leg %q is not the TCP reply sent for it", ex.Name, ex.Nonce, ex.Leg), false
			}
		default: // refuse | silent | garbage | close: the TCP exchange fails
			if ex.Returned {
				return "message-although-tcp-failed:tcp=" + ex.TCP, fmt.Sprintf("exchange %q: TCP leg %s, yet a message (leg %q tc %v nonce %d) was returned", ex.Name, ex.TCP, ex.Leg, ex.GotTC, ex.Nonce), false
			}
			if ex.TCP != "refuse" && len(tcpQ) == 0 {
				return "no-tcp-retry-after-tc", fmt.Sprintf("exchange %q: UDP reply had TC=1 but the question never arrived over TCP (error: %s)", ex.Name, ex.Err), true
			}
		}
	}
	return "", "", false
}

func runC16(c *Ctx) {
	upQuietRace(c)
	pool.VerifTakeReports()
	if runtime.NumCPU() > 8 {
		runtime.GOMAXPROCS(8)
	}
	envs := map[string]*c16Env{}
	for _, g := range []string{"listen", "refuse"} {
		e, err := c16NewEnv(g)
		if err != nil {
			c.Inconclusive("C16 setup: " + err.Error())
			return
		}
		envs[g] = e
		defer e.close()
	}

	if c.Replay != nil {
		var w c16Witness
		json.Unmarshal(c.Replay.Case, &w)
		ex := w.Exchange
		if ex == nil {
			return
		}
		if w.Rule == "no-tcp-connection" {
			c16NoTCP(c)
			return
		}
		for k := 0; k < 3; k++ {
			ex.Name = fmt.Sprintf("replay%d.%s", k, w.Exchange.Name)
			c16Do(envs[ex.Group], ex)
			time.Sleep(20 * time.Millisecond)
			c.Ev.Eval(1)
			if sig, what, _ := c16Judge(ex, c16Collect(envs[ex.Group])); sig != "" {
				c.Violation(sig, what, c16Witness{Exchange: ex, Rule: sig})
				return
			}
		}
		return
	}

	n := c.N(300, 20000)
	workers := c.N(12, 32)
	exs := make([]*c16Ex, n)
	for i := range exs {
		r := gen.New(c.Seed, "c16", i)
		cell := i % 21
		exs[i] = c16Gen(r, i, c16UDP[cell%3], c16TCP[cell/3])
	}
	// shuffle so that the cells interleave in time
	gen.New(c.Seed, "c16-order", 0).Shuffle(len(exs), func(i, j int) { exs[i], exs[j] = exs[j], exs[i] })
	var next atomic.Int64
	var wg sync.WaitGroup
	for w := 0; w < workers; w++ {
		wg.Add(1)
		go func() {
			defer wg.Done()
			for {
				i := int(next.Add(1) - 1)
				if i >= len(exs) {
					return
				}
				c16Do(envs[exs[i].Group], exs[i])
			}
		}()
	}
	wg.Wait()
	time.Sleep(30 * time.Millisecond)

	logs := map[string]*c16Logs{"listen": c16Collect(envs["listen"]), "refuse": c16Collect(envs["refuse"])}
	type cand struct {
		ex        *c16Ex
		sig, what string
	}
	var soft []cand
	for _, ex := range exs {
		lg := logs[ex.Group]
		c.Ev.Eval(1)
		c.Ev.Count("cell:udp="+ex.UDP+",tcp="+ex.TCP+"/"+ex.ErrClass, 1)
		c.Ev.Count("exchanges:"+ex.ErrClass, 1)
		if ex.Returned {
			c.Ev.Count("returned_from_leg:"+ex.Leg, 1)
		}
		c.Ev.Count(fmt.Sprintf("tcp_arrivals_of_question:udp=%s:%d", ex.UDP, min(len(lg.tcpQ[ex.Name]), 3)), 1)
		if ex.UDP == "tc" && len(lg.tcpQ[ex.Name]) > 0 {
			c.Ev.Count("tc_then_same_question_over_tcp", 1)
		}
		c.Ev.Distinct(ex.Form, ex.UDP, ex.TCP, ex.QType, ex.QClass, ex.ErrClass, len(lg.tcpQ[ex.Name]))
		c.Ev.Sample(map[string]any{"address_form": ex.Form, "udp_leg": ex.UDP, "tcp_leg": ex.TCP, "qname": ex.Name, "qtype": ex.QType, "returned_message": ex.Returned, "returned_leg": ex.Leg, "error_class": ex.ErrClass, "tcp_queries_seen": len(lg.tcpQ[ex.Name])})
		sig, what, isSoft := c16Judge(ex, lg)
		if sig == "" {
			continue
		}
		if isSoft {
			soft = append(soft, cand{ex, sig, what})
			continue
		}
		if !c.Seen(sig) {
			c.Violation(sig, what, c16Witness{Exchange: ex, Rule: sig, UDPSeen: lg.udpQ[ex.Name], TCPSeen: lg.tcpQ[ex.Name], UDPSent: lg.udpR[ex.Name], TCPSent: lg.tcpR[ex.Name]})
		}
	}
	// timing / loss dependent candidates: re-run alone, three times, report only if it reproduces every time
	for i, cd := range soft {
		if i >= 20 || c.Seen(cd.sig) {
			break
		}
		c.Ev.Count("soft_candidates_rerun", 1)
		repro := 0
		var notes []string
		var last *c16Ex
		for k := 0; k < 3; k++ {
			cp := *cd.ex
			cp.Name = fmt.Sprintf("rerun%d.%s", k, cd.ex.Name)
			c16Do(envs[cp.Group], &cp)
			time.Sleep(30 * time.Millisecond)
			s2, w2, _ := c16Judge(&cp, c16Collect(envs[cp.Group]))
			notes = append(notes, fmt.Sprintf("run %d: %s %s", k, s2, w2))
			if s2 == cd.sig {
				repro++
				last = &cp
			}
		}
		if repro == 3 {
			lg := c16Collect(envs[last.Group])
			c.Violation(cd.sig, cd.what+" (reproduced 3/3 when re-run alone)", c16Witness{Exchange: last, Rule: cd.sig, UDPSeen: lg.udpQ[last.Name], TCPSeen: lg.tcpQ[last.Name], UDPSent: lg.udpR[last.Name], TCPSent: lg.tcpR[last.Name], Confirm: notes})
		} else {
			c.Ev.Count("soft_candidates_not_reproduced", 1)
		}
	}
	for g, e := range envs {
		if e.tcp != nil {
			c.Ev.Count("tcp_connections_accepted:"+g, int64(e.tcp.Accepts()))
			bad := e.tcp.Snapshot().BadFrames
			c.Ev.Count("tcp_bad_frames_in", int64(bad))
			// "the same query is re-sent over TCP": the TCP side only ever receives well-formed queries
			// (every attempt of the transport included; a retry that sends a recycled buffer shows here)
			if bad > 0 {
				c.Violation("tcp-leg-sent-malformed-frame", fmt.Sprintf("the TCP side of the server received %d frame(s) that are not DNS queries", bad), c16Witness{Rule: "tcp-leg-sent-malformed-frame"})
			}
		}
	}
	for _, rp := range pool.VerifTakeReports() {
		c.Violation("pool-report:"+rp.Kind+"@"+c01decTopSite(rp.Site), fmt.Sprintf("pool sanitizer during the fallback exchanges: %s at %s (first released at %s): the query buffer of the TCP leg is not exclusively owned", rp.Kind, rp.Site, rp.Site0), c16Witness{Rule: "pool-report"})
	}

	// sequential TC=0 series on a fresh upstream and server: no TCP connection at all
	c16NoTCP(c)
	c16AfterFailures(c)
	c16Repeat(c)
	c16Echo(c)
	c16Patient(c)
	c16Slow(c)
	c.Ev.Set("race_reports_logged_not_judged_here", upRaceReports(c))
}

func c16NoTCP(c *Ctx) {
	e, err := c16NewEnv("listen")
	if err != nil {
		c.Inconclusive("C16 setup: " + err.Error())
		return
	}
	defer e.close()
	n := c.N(40, 400)
	okN := 0
	var lastEx *c16Ex
	for i := 0; i < n; i++ {
		r := gen.New(c.Seed, "c16-notcp", i)
		ex := c16Gen(r, 1000000+i, "ok", "ok")
		c16Do(e, ex)
		c.Ev.Eval(1)
		if ex.Returned {
			okN++
		}
		lastEx = ex
		if a := e.tcp.Accepts(); a > 0 {
			lg := c16Collect(e)
			c.Violation("tcp-connection-without-tc", fmt.Sprintf("after %d sequential exchanges whose UDP replies all had TC=0 the server had accepted %d TCP connection(s) (last exchange %q)", i+1, a, ex.Name),
				c16Witness{Exchange: ex, Rule: "no-tcp-connection", UDPSeen: lg.udpQ[ex.Name], TCPSeen: lg.tcpQ[ex.Name], UDPSent: lg.udpR[ex.Name]})
			return
		}
	}
	time.Sleep(50 * time.Millisecond)
	if a := e.tcp.Accepts(); a > 0 {
		c.Violation("tcp-connection-without-tc", fmt.Sprintf("after %d sequential TC=0 exchanges the server had accepted %d TCP connection(s)", n, a), c16Witness{Exchange: lastEx, Rule: "no-tcp-connection"})
	}
	c.Ev.Count("sequential_tc0_exchanges", int64(n))
	c.Ev.Count("sequential_tc0_exchanges_returned", int64(okN))
	c.Ev.Count("sequential_tc0_tcp_connections_accepted", int64(e.tcp.Accepts()))
}

// c16AfterFailures: "whenever the UDP reply has TC set" also holds after many TCP legs have failed:
// 70 truncated replies whose TCP leg fails at once (connection closed / refused), then truncated
// replies with a healthy TCP side, which must be answered over TCP.
func c16AfterFailures(c *Ctx) {
	for _, g := range []string{"listen", "refuse"} {
		e, err := c16NewEnv(g)
		if err != nil {
			c.Inconclusive("C16 setup: " + err.Error())
			return
		}
		failKind := map[string]string{"listen": "close", "refuse": "refuse"}[g]
		failed := 0
		for i := 0; i < 70; i++ {
			r := gen.New(c.Seed, "c16-fail-"+g, i)
			ex := c16Gen(r, 700000+i, "tc", failKind)
			ex.Form = "udp://"
			ex.DeadMs = 1500
			c16Do(e, ex)
			c.Ev.Eval(1)
			if !ex.Returned {
				failed++
			}
		}
		c.Ev.Count("failed_tcp_legs_in_a_row:"+g, int64(failed))
		if g == "refuse" {
			// nothing can succeed here; the series still has to end in time (judged by late-return)
			r := gen.New(c.Seed, "c16-fail-last", 0)
			ex := c16Gen(r, 700100, "tc", "refuse")
			ex.Form, ex.DeadMs = "udp://", 1500
			c16Do(e, ex)
			if late := time.Duration(ex.TRet-ex.TCall) - 1500*time.Millisecond; late > -500*time.Millisecond {
				c.Violation("tcp-leg-blocked-after-failures", fmt.Sprintf("after %d failed TCP legs, an exchange with a refused TCP leg took %v (deadline 1.5 s; a refused connection fails at once)", failed, time.Duration(ex.TRet-ex.TCall)), c16Witness{Exchange: ex, Rule: "tcp-leg-blocked-after-failures"})
			} else {
				c.Ev.Distinct("after-failures", g, "prompt")
			}
			e.close()
			continue
		}
		okN := 0
		var last *c16Ex
		for i := 0; i < 3; i++ {
			r := gen.New(c.Seed, "c16-after-fail", i)
			ex := c16Gen(r, 700200+i, "tc", "ok")
			ex.Form, ex.DeadMs = "udp://", 2000
			c16Do(e, ex)
			c.Ev.Eval(1)
			last = ex
			if ex.Returned && ex.Leg == "T" {
				okN++
			}
		}
		time.Sleep(20 * time.Millisecond)
		lg := c16Collect(e)
		if okN < 3 {
			c.Violation("no-tcp-retry-after-tc:after-failed-legs", fmt.Sprintf("after %d truncated replies whose TCP leg failed, only %d of 3 further truncated replies were answered over a healthy TCP side (last: %s %s; its question arrived over TCP %d times)", failed, okN, last.ErrClass, last.Err, len(lg.tcpQ[last.Name])),
				c16Witness{Exchange: last, Rule: "no-tcp-retry-after-tc:after-failed-legs", TCPSeen: lg.tcpQ[last.Name], UDPSent: lg.udpR[last.Name]})
		} else {
			c.Ev.Distinct("after-failures", g, "tcp-leg-works")
		}
		e.close()
	}
}

// c16Slow: the UDP reply decides, however long it takes. A complete reply that arrives after 2.6 s
// is returned as received and nothing is sent over TCP; a truncated reply that arrives after 1.5 s
// leads to the TCP exchange whose outcome is returned (also if the transport sent the question over
// UDP more than once meanwhile: every UDP reply is truncated).
func c16Slow(c *Ctx) {
	e, err := c16NewEnv("listen")
	if err != nil {
		c.Inconclusive("C16 setup: " + err.Error())
		return
	}
	defer e.close()
	var exs []*c16Ex
	for i := 0; i < c.N(8, 40); i++ {
		r := gen.New(c.Seed, "c16-slow", i)
		ex := c16Gen(r, 800000+i, []string{"okslow", "tclate"}[i%2], "ok")
		ex.DeadMs = 5000
		exs = append(exs, ex)
	}
	for i := 0; i < c.N(9, 45); i++ {
		r := gen.New(c.Seed, "c16-shape", i)
		ex := c16Gen(r, 810000+i, []string{"ok4096", "ok4095", "tcbare"}[i%3], "ok")
		ex.DeadMs = 2500
		exs = append(exs, ex)
	}
	var wg sync.WaitGroup
	for _, ex := range exs {
		wg.Add(1)
		go func(ex *c16Ex) { defer wg.Done(); c16Do(e, ex) }(ex)
	}
	wg.Wait()
	time.Sleep(30 * time.Millisecond)
	lg := c16Collect(e)
	for _, ex := range exs {
		c.Ev.Eval(1)
		tcpN := len(lg.tcpQ[ex.Name])
		w := c16Witness{Exchange: ex, Rule: "slow-udp-reply", UDPSeen: lg.udpQ[ex.Name], TCPSeen: lg.tcpQ[ex.Name], UDPSent: lg.udpR[ex.Name], TCPSent: lg.tcpR[ex.Name]}
		switch ex.UDP {
		case "ok4096", "ok4095":
			switch {
			case tcpN > 0:
				c.Violation("tcp-attempt-without-tc:"+ex.UDP, fmt.Sprintf("exchange %q: the UDP reply (TC=0, %s octets) is complete, yet the question arrived over TCP %d time(s)", ex.Name, ex.UDP[2:], tcpN), w)
			case !ex.Returned || ex.Leg != "U" || ex.GotTC:
				c.Violation("udp-reply-not-returned-as-received:"+ex.UDP, fmt.Sprintf("exchange %q: a complete UDP reply of %s octets was sent, the exchange returned=%v leg=%q tc=%v err=%s", ex.Name, ex.UDP[2:], ex.Returned, ex.Leg, ex.GotTC, ex.Err), w)
			default:
				c.Ev.Distinct("shape", ex.UDP, ex.Form)
			}
		case "tcbare":
			switch {
			case !ex.Returned || ex.Leg != "T":
				c.Violation("tcp-outcome-not-returned:bare-tc-header", fmt.Sprintf("exchange %q: the UDP reply was a bare header with TC=1 and the caller's id; the TCP side answers at once: returned=%v leg=%q err=%s, TCP arrivals %d", ex.Name, ex.Returned, ex.Leg, ex.Err, tcpN), w)
			default:
				c.Ev.Distinct("shape", ex.UDP, ex.Form)
			}
		case "okslow":
			switch {
			case tcpN > 0:
				c.Violation("tcp-attempt-without-tc:slow-udp-reply", fmt.Sprintf("exchange %q: the UDP reply (TC=0) was sent after 2.6 s, well inside the 5 s deadline, yet the question arrived over TCP %d time(s)", ex.Name, tcpN), w)
			case !ex.Returned || ex.Leg != "U":
				c.Violation("udp-reply-not-returned:slow-udp-reply", fmt.Sprintf("exchange %q: the complete UDP reply sent after 2.6 s (deadline 5 s) was not what the exchange returned (returned=%v leg=%q err=%s)", ex.Name, ex.Returned, ex.Leg, ex.Err), w)
			default:
				c.Ev.Distinct("slow", "okslow", ex.Form)
			}
		case "tclate":
			switch {
			case ex.Returned && ex.Leg == "U" && ex.GotTC:
				c.Violation("returned-truncated-udp-message:late-tc", fmt.Sprintf("exchange %q returned a truncated UDP reply (the server answered %d UDP datagrams for it, all with TC=1; the TCP side is healthy)", ex.Name, len(lg.udpR[ex.Name])), w)
			case !ex.Returned || ex.Leg != "T":
				c.Violation("tcp-outcome-not-returned:late-tc", fmt.Sprintf("exchange %q: every UDP reply was truncated (first one after 1.5 s), the TCP side answers at once, deadline 5 s: returned=%v leg=%q err=%s, TCP arrivals %d", ex.Name, ex.Returned, ex.Leg, ex.Err, tcpN), w)
			default:
				c.Ev.Distinct("slow", "tclate", ex.Form, len(lg.udpQ[ex.Name]) > 1)
			}
		}
	}
}

// c16Repeat: one question asked three times through one udp upstream. The first UDP reply is
// truncated (TCP exchange, its outcome returned), the second time the server's UDP reply is
// complete (the truncation was a rate limiter's slip, or the record set shrank): it is returned as
// received and nothing goes over TCP; the third UDP reply is truncated again: TCP again. Every
// exchange is decided by the UDP reply to its own query, not by what happened to the question before.
func c16Repeat(c *Ctx) {
	e, err := c16NewEnv("listen")
	if err != nil {
		c.Inconclusive("C16 setup: " + err.Error())
		return
	}
	defer e.close()
	n := c.N(12, 120)
	for i := 0; i < n && !c.Seen("repeat:tcp-attempt-without-tc") && !c.Seen("repeat:no-tcp-retry-after-tc"); i++ {
		r := gen.New(c.Seed, "c16-repeat", i)
		first := c16Gen(r, 900000+i, "tc", "ok")
		first.Form, first.DeadMs = gen.Pick(r, []string{"udp://", "bare"}), 2500
		sameID := r.Bool()
		var steps []*c16Ex
		for k, udp := range []string{"tc", "ok", "tc"} {
			ex := *first
			ex.UDP = udp
			if !sameID {
				ex.CallerID = first.CallerID + uint16(k)
			}
			c16Do(e, &ex)
			steps = append(steps, &ex)
			c.Ev.Eval(1)
			time.Sleep(5 * time.Millisecond)
			lg := c16Collect(e)
			nTCP, nUDP := len(lg.tcpQ[ex.Name]), len(lg.udpQ[ex.Name])
			wantTCP := []int{1, 1, 2}[k]
			w := c16Witness{Exchange: &ex, Rule: "repeat", TCPSeen: lg.tcpQ[ex.Name], UDPSent: lg.udpR[ex.Name]}
			switch {
			case !ex.Returned:
				c.Inconclusive(fmt.Sprintf("repeat %d step %d: exchange failed: %s %s", i, k, ex.ErrClass, ex.Err))
			case udp == "ok" && (nTCP > wantTCP || ex.Leg != "U"):
				c.Violation("repeat:tcp-attempt-without-tc", fmt.Sprintf("question %q asked again after an earlier truncated reply: this time the server's UDP reply is complete (TC=0), yet the question arrived over TCP %d times in all (1 expected, from the first exchange), over UDP %d times, and the caller got the reply of leg %q", ex.Name, nTCP, nUDP, ex.Leg), w)
			case udp == "tc" && (nTCP < wantTCP || ex.Leg != "T"):
				c.Violation("repeat:no-tcp-retry-after-tc", fmt.Sprintf("question %q, exchange %d of 3: the UDP reply was truncated, the question has arrived over TCP %d times in all (%d expected), the caller got the reply of leg %q", ex.Name, k+1, nTCP, wantTCP, ex.Leg), w)
			default:
				c.Ev.Distinct("repeat", k, udp, sameID)
				c.Ev.Count("repeat_steps_as_required", 1)
				continue
			}
			break
		}
	}
	c.Ev.Sample(map[string]any{"part": "repeat", "questions": n, "udp_replies": "TC, complete, TC"})
}

// c16Echo: the UDP reply decides by its TC flag alone. A complete reply whose question section is
// not a verbatim copy of the query's - the server lower-cased a mixed-case name, or sent a bare
// header without any question - is still a reply without TC: it is returned as received and the
// TCP side sees nothing.
func c16Echo(c *Ctx) {
	e, err := c16NewEnv("listen")
	if err != nil {
		c.Inconclusive("C16 setup: " + err.Error())
		return
	}
	defer e.close()
	n := c.N(16, 120)
	for i := 0; i < n && !c.Seen("tcp-attempt-without-tc:question-not-echoed-verbatim"); i++ {
		r := gen.New(c.Seed, "c16-echo", i)
		kind := []string{"oklower", "okbare"}[i%2]
		ex := c16Gen(r, 950000+i, kind, "ok")
		ex.Form, ex.DeadMs = gen.Pick(r, []string{"udp://", "bare"}), 2500
		// mixed case spelling (0x20 style); the scripts are keyed by the name as the server reads it
		b := []byte(ex.Name)
		for k := range b {
			if 'a' <= b[k] && b[k] <= 'z' && r.Bool() {
				b[k] -= 'a' - 'A'
			}
		}
		ex.Name = string(b)
		c16Do(e, ex)
		c.Ev.Eval(1)
		time.Sleep(3 * time.Millisecond)
		lg := c16Collect(e)
		nTCP := len(lg.tcpQ[ex.Name])
		w := c16Witness{Exchange: ex, Rule: "echo", TCPSeen: lg.tcpQ[ex.Name], UDPSent: lg.udpR[ex.Name]}
		switch {
		case len(lg.udpR[ex.Name]) == 0:
			c.Inconclusive("echo: the UDP query never arrived")
		case nTCP > 0 || (ex.Returned && ex.Leg == "T"):
			c.Violation("tcp-attempt-without-tc:question-not-echoed-verbatim", fmt.Sprintf("exchange %q: the UDP reply (%s) had TC=0, yet the question arrived over TCP %d time(s) and the caller got the reply of leg %q", ex.Name, kind, nTCP, ex.Leg), w)
		case !ex.Returned:
			c.Violation("udp-reply-not-returned:question-not-echoed-verbatim", fmt.Sprintf("exchange %q: the server sent a complete UDP reply (%s, TC=0) but the exchange failed: %s", ex.Name, kind, ex.Err), w)
		default:
			c.Ev.Distinct("echo", kind, ex.Form)
			c.Ev.Count("echo_replies_returned_as_received", 1)
		}
	}
}

// c16Patient: two callers ask the same question at about the same time; both UDP replies are
// truncated, the TCP side answers after 700 ms. The first caller gives up after 300 ms, the second
// has 3 s: whatever happens to the first caller's exchange, the second one receives the outcome of a
// TCP exchange - the server is healthy and answers every TCP query it gets.
func c16Patient(c *Ctx) {
	e, err := c16NewEnv("listen")
	if err != nil {
		c.Inconclusive("C16 setup: " + err.Error())
		return
	}
	defer e.close()
	n := c.N(6, 40)
	for i := 0; i < n && !c.Seen("tcp-outcome-not-returned:patient-caller"); i++ {
		r := gen.New(c.Seed, "c16-patient", i)
		hasty := c16Gen(r, 960000+i, "tc", "slow")
		hasty.Form, hasty.DeadMs = "udp://", 300
		patient := *hasty
		patient.DeadMs = 3000
		patient.CallerID = hasty.CallerID + 1
		var wg sync.WaitGroup
		wg.Add(2)
		go func() { defer wg.Done(); c16Do(e, hasty) }()
		go func() {
			defer wg.Done()
			time.Sleep(time.Duration(r.Range(5, 60)) * time.Millisecond)
			c16Do(e, &patient)
		}()
		wg.Wait()
		c.Ev.Eval(2)
		time.Sleep(3 * time.Millisecond)
		lg := c16Collect(e)
		w := c16Witness{Exchange: &patient, Rule: "patient", TCPSeen: lg.tcpQ[patient.Name], UDPSent: lg.udpR[patient.Name]}
		switch {
		case len(lg.udpR[patient.Name]) < 2:
			c.Inconclusive("patient: a UDP query never arrived")
		case !patient.Returned || patient.Leg != "T":
			c.Violation("tcp-outcome-not-returned:patient-caller", fmt.Sprintf("two callers asked %q within 60 ms (UDP replies truncated, the TCP side answers after 700 ms): the first gave up after 300 ms, the second had 3 s and got no TCP answer: returned=%v leg=%q after %v: %s %s (TCP queries received: %d)", patient.Name, patient.Returned, patient.Leg, time.Duration(patient.TRet-patient.TCall), patient.ErrClass, patient.Err, len(lg.tcpQ[patient.Name])), w)
		case patient.GotID != patient.CallerID:
			c.Violation("returned-foreign-id:patient-caller", fmt.Sprintf("the patient caller of %q (id %d) got id %d", patient.Name, patient.CallerID, patient.GotID), w)
		default:
			c.Ev.Distinct("patient", hasty.Returned)
			c.Ev.Count("patient_callers_served_over_tcp", 1)
		}
	}
}
