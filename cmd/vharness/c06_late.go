package main

// C06 addition: replies that cross the transport's own (hard-coded, 6 s) response time-out.
// The exchange fails at 6 s; the server still owes (part of) the reply. Whoever uses the transport
// next must never see that reply, and the connection must never carry two outstanding queries.

import (
	"context"
	"encoding/binary"
	"fmt"
	"io"
	"net"
	"strings"
	"sync"
	"sync/atomic"
	"time"

	"github.com/IrineSistiana/mosproxy/internal/dnsmsg"
	"github.com/IrineSistiana/mosproxy/internal/upstream/transport"
	"github.com/miekg/dns"
)

func c06LateReplies(c *Ctx) {
	modes := []string{"late", "split", "late", "split"}
	if c.Tier == "thorough" {
		for i := 0; i < 12; i++ {
			modes = append(modes, []string{"late", "split"}[i%2])
		}
	}
	var wg sync.WaitGroup
	for i, mode := range modes {
		wg.Add(1)
		go func(i int, mode string) {
			defer wg.Done()
			c06LateOne(c, i, mode)
		}(i, mode)
	}
	wg.Wait()
}

func c06LateOne(c *Ctx, idx int, mode string) {
	l, err := net.Listen("tcp", "127.0.0.1:0")
	if err != nil {
		c.Inconclusive("listen: " + err.Error())
		return
	}
	defer l.Close()
	var maxOutstanding atomic.Int32
	var conns atomic.Int32
	go func() {
		for {
			cn, err := l.Accept()
			if err != nil {
				return
			}
			conns.Add(1)
			go func() {
				defer cn.Close()
				var outstanding atomic.Int32
				var wm sync.Mutex
				for {
					var h [2]byte
					if _, err := io.ReadFull(cn, h[:]); err != nil {
						return
					}
					b := make([]byte, binary.BigEndian.Uint16(h[:]))
					if _, err := io.ReadFull(cn, b); err != nil {
						return
					}
					q := new(dns.Msg)
					if q.Unpack(b) != nil || len(q.Question) != 1 {
						return
					}
					n := outstanding.Add(1)
					for {
						m := maxOutstanding.Load()
						if n <= m || maxOutstanding.CompareAndSwap(m, n) {
							break
						}
					}
					go func() {
						r := new(dns.Msg)
						r.SetReply(q)
						r.Answer = append(r.Answer, &dns.TXT{Hdr: dns.RR_Header{Name: q.Question[0].Name, Rrtype: dns.TypeTXT, Class: dns.ClassINET, Ttl: 5}, Txt: []string{"reply-to " + q.Question[0].Name}})
						w, _ := r.Pack()
						frame := append([]byte{byte(len(w) >> 8), byte(len(w))}, w...)
						name := q.Question[0].Name
						switch {
						// The query stops counting as outstanding just BEFORE the last octet of its reply is
						// written: a client that has read the whole reply may put its next query on this
						// connection at once, and that query can reach the reader above before this goroutine
						// runs again (counting after the write raised a false alarm on a loaded machine).
						case strings.HasPrefix(name, "late-"):
							time.Sleep(6500 * time.Millisecond)
							wm.Lock()
							outstanding.Add(-1)
							cn.Write(frame)
							wm.Unlock()
						case strings.HasPrefix(name, "split-"):
							time.Sleep(5700 * time.Millisecond)
							wm.Lock()
							cn.Write(frame[:len(frame)/2])
							wm.Unlock()
							time.Sleep(900 * time.Millisecond)
							wm.Lock()
							outstanding.Add(-1)
							cn.Write(frame[len(frame)/2:])
							wm.Unlock()
						default:
							wm.Lock()
							outstanding.Add(-1)
							cn.Write(frame)
							wm.Unlock()
						}
					}()
				}
			}()
		}
	}()
	tr := transport.NewReuseConnTransport(transport.ReuseConnOpts{
		DialContext: func(ctx context.Context) (net.Conn, error) {
			var d net.Dialer
			return d.DialContext(ctx, "tcp", l.Addr().String())
		},
		IdleTimeout: 10 * time.Second,
	})
	defer tr.Close()
	exchange := func(name string, id uint16, timeout time.Duration) (qn string, gotID uint16, err error) {
		q := new(dns.Msg)
		q.SetQuestion(name, dns.TypeA)
		q.Id = id
		w, _ := q.Pack()
		ctx, cancel := context.WithTimeout(context.Background(), timeout)
		defer cancel()
		m, err := tr.ExchangeContext(ctx, w)
		if err != nil {
			return "", 0, err
		}
		defer dnsmsg.ReleaseMsg(m)
		if len(m.Questions) == 1 {
			b, _ := dnsmsg.ToReadable(m.Questions[0].Name)
			qn = string(b) + "."
		}
		return qn, m.Header.ID, nil
	}
	// warm-up so that the slow exchange runs on a pooled connection too in half of the runs
	if idx%2 == 0 {
		exchange(fmt.Sprintf("fast-warm%d.c06.test.", idx), 1, 2*time.Second)
	}
	slow := fmt.Sprintf("%s-%d.c06.test.", mode, idx)
	t0 := time.Now()
	_, _, errSlow := exchange(slow, 0x1111, 9*time.Second)
	c.Ev.Eval(1)
	cs := map[string]any{"fn": "c06LateReplies", "mode": mode, "slow_exchange_error": fmt.Sprint(errSlow), "slow_exchange_took_ms": time.Since(t0).Milliseconds()}
	// follow-ups while the late (rest of the) reply is still owed / has just been sent
	for k := 0; k < 6; k++ {
		name := fmt.Sprintf("fast-%d-%d.c06.test.", idx, k)
		id := uint16(0x2000 + k)
		qn, gotID, err := exchange(name, id, 3*time.Second)
		c.Ev.Eval(1)
		if err == nil && (!strings.EqualFold(qn, name) || gotID != id) {
			c.Violation("late-reply-served-to-next-exchange:"+mode, fmt.Sprintf("after an exchange failed at the transport's 6 s response time-out (%s reply, error: %v), the next exchange for %s (id %#x) returned the reply for %q with id %#x: the connection was reused with a reply still owed", mode, errSlow, name, id, qn, gotID), cs)
			return
		}
		time.Sleep(150 * time.Millisecond)
	}
	if m := maxOutstanding.Load(); m > 1 {
		c.Violation("two-outstanding-after-timeout:"+mode, fmt.Sprintf("after an exchange failed at the 6 s response time-out (%s reply) the server saw %d outstanding queries on one connection", mode, m), cs)
		return
	}
	c.Ev.Distinct("late-reply", mode, idx%2 == 0, errSlow != nil)
	c.Ev.Count("late_reply_scenarios_"+mode, 1)
	c.Ev.Count("late_reply_connections", int64(conns.Load()))
}
