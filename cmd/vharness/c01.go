package main

// C01 — malformed input never crashes, hangs or wedges the proxy.
// (a) decoder monitor in child processes (c01_decoder.go), (b) listener monitor and
// (c) upstream-reply monitor against the real binary.

import (
	"bytes"
	"crypto/tls"
	"encoding/base64"
	"encoding/binary"
	"encoding/hex"
	"fmt"
	"net"
	"net/http"
	"strings"
	"sync"
	"sync/atomic"
	"time"

	"github.com/IrineSistiana/mosproxy/internal/dnsmsg"
	"github.com/IrineSistiana/mosproxy/verif/internal/dnsclient"
	"github.com/IrineSistiana/mosproxy/verif/internal/fakeup"
	"github.com/IrineSistiana/mosproxy/verif/internal/gen"
	"github.com/miekg/dns"
)

func init() {
	register(&Check{ID: "C01", Level: "exploration",
		Rule: "(a) mutated / truncated / random byte strings through the decoder, re-encoder, name scanner and TCP frame reader in child processes under the race detector and pool sanitizer; (b) hostile datagrams, lying TCP/DoT/DoQ frames in random segments and hostile DoH requests on all 8 listeners of the real binary, each followed by a valid probe, and the same against a proxy whose client limiter has refused the sender (must survive and serve other subnets), decodable queries whose OPT record carries option TLVs with lying / cut / nonsensical inner lengths against a proxy with client subnet and cache on, 27 kinds of hand-written HTTP/1.x requests (no / wrong / double Content-Length, empty and malformed chunked bodies, Expect, odd methods, HTTP/1.0, 64 kB header) on the three HTTP listeners; (c) hostile upstream replies (mutated, truncated, length-lying, HTTP-level, DoH bodies streamed without Content-Length) on 8 upstream transports followed by valid queries; " +
			"one evaluation = one hostile input; distinct non-trivial = distinct inputs by content hash (decoder) and distinct (listener or upstream, mutation kind) cells whose follow-up probe was answered",
		Run: func(c *Ctx) {
			c01Decoder(c)
			if c.ViolationCount() > 0 {
				// the decoder itself crashes or hangs: the end-to-end monitors would only repeat that,
				// slowly (every listener thread that meets such an input is gone)
				c.Ev.Set("e2e_parts_skipped", "decoder monitor already found a violation")
				return
			}
			var wg sync.WaitGroup
			wg.Add(5)
			go func() { defer wg.Done(); c01Sizes(c) }()
			go func() { defer wg.Done(); c01ListenersLogged(c) }()
			go func() { defer wg.Done(); c01ListenersLimited(c); c01ListenersOptions(c); c01RawHTTP(c) }()
			go func() { defer wg.Done(); c01Listeners(c) }()
			go func() { defer wg.Done(); c01UpstreamReplies(c) }()
			wg.Wait()
		}})
}

// c01Hostile derives a hostile byte string from a valid query. Returns the bytes and the mutation kind.
func c01Hostile(r *gen.R, seed []byte) ([]byte, string) {
	b := append([]byte{}, seed...)
	switch r.Intn(14) {
	case 0:
		return b[:r.Intn(len(b))], "truncate"
	case 1:
		n := r.Range(0, 64)
		if r.P(0.1) {
			n = r.Range(1000, 4000)
		}
		return r.Bytes(n), "random"
	case 2:
		for i := 0; i < r.Range(1, 8); i++ {
			b[r.Intn(len(b))] ^= 1 << uint(r.Intn(8))
		}
		return b, "bitflip"
	case 3:
		binary.BigEndian.PutUint16(b[4+2*r.Intn(4):], uint16(r.Range(1, 65535)))
		return b, "counts"
	case 4:
		if len(b) > 12 {
			b[12] = byte(r.Range(64, 255))
		}
		return b, "label-length"
	case 5:
		if len(b) > 13 {
			b[12], b[13] = 0xC0, 12 // pointer to itself
		}
		return b, "pointer-self"
	case 6:
		if len(b) > 15 { // two-cycle
			b[12], b[13], b[14], b[15] = 0xC0, 14, 0xC0, 12
		}
		return b, "pointer-cycle"
	case 7:
		if len(b) > 13 {
			b[12], b[13] = 0xC0|byte(r.Intn(0x40)), byte(r.Intn(256)) // forward / wild pointer
		}
		return b, "pointer-wild"
	case 8:
		if len(b) > 12 {
			b[12] = gen.Pick(r, []byte{0x40, 0x80, 0x41, 0xBF})
		}
		return b, "reserved-label"
	case 9: // over-long name: 255+ octets of labels in front of the question
		var nm []byte
		for len(nm) < r.Range(250, 300) {
			nm = append(nm, 10)
			nm = append(nm, bytes.Repeat([]byte{'a'}, 10)...)
		}
		out := append(append([]byte{}, b[:12]...), nm...)
		out = append(out, b[12:]...)
		return out, "long-name"
	case 10:
		return b[:r.Range(0, min(11, len(b)))], "short-header"
	case 11: // pointer chain
		out := append([]byte{}, b[:12]...)
		hops := r.Range(9, 13)
		base := 12 + 6 // after question stub
		out = append(out, 0xC0, byte(base), 0, 1, 0, 1)
		for i := 0; i < hops; i++ {
			out = append(out, 0xC0, byte(base+2*(i+1)))
		}
		out = append(out, 1, 'x', 0)
		return out, "pointer-chain"
	case 12: // an answer record with a lying RDLENGTH
		binary.BigEndian.PutUint16(b[6:], 1)
		b = append(b, 0xC0, 12, 0, 1, 0, 1, 0, 0, 0, 5, byte(r.Intn(256)), byte(r.Intn(256)), 1, 2)
		return b, "rdlength"
	default:
		return append(b, r.Bytes(r.Range(1, 30))...), "trailing-garbage"
	}
}

// mosproxyDecodes asks the proxy's own decoder (in this process). A decoder that panics or hangs
// here is reported by the decoder monitor; it must not take the harness down: panics are recovered,
// and after one call that does not return within 3 s the decoder is no longer consulted.
var decoderBroken atomic.Bool

func mosproxyDecodes(b []byte) bool {
	if decoderBroken.Load() {
		return false
	}
	res := make(chan bool, 1)
	go func() {
		defer func() {
			if recover() != nil {
				res <- false
			}
		}()
		m, err := dnsmsg.UnpackMsg(b)
		if err != nil {
			res <- false
			return
		}
		dnsmsg.ReleaseMsg(m)
		res <- true
	}()
	select {
	case ok := <-res:
		return ok
	case <-time.After(3 * time.Second):
		decoderBroken.Store(true)
		return false
	}
}

func c01Probe(b *Bed, listener, name string) error {
	x := b.Exchange(listener, mkQuery(4242, name, dns.TypeA, dns.ClassINET, false), xOpts{Timeout: 8 * time.Second})
	if x.Err != nil {
		return x.Err
	}
	if x.Status != 0 && x.Status != 200 {
		return fmt.Errorf("http status %d", x.Status)
	}
	m := new(dns.Msg)
	if err := m.Unpack(x.Resp); err != nil {
		return fmt.Errorf("probe response undecodable: %v", err)
	}
	if m.Rcode != dns.RcodeSuccess {
		return fmt.Errorf("probe rcode %d", m.Rcode)
	}
	_, err := CheckKeyed(dns.Question{Name: name, Qtype: dns.TypeA, Qclass: dns.ClassINET}, b.TagFor(name), m)
	return err
}

// ---------------------------------------------------------------- (b) listeners

func c01Listeners(c *Ctx) {
	b, err := NewBed(c, "listeners", BedOpts{Upstreams: []string{"pipe"}})
	if err != nil {
		c.startFailure(err, "c01-listeners")
		return
	}
	n := c.N(150, 2500)
	var wg sync.WaitGroup
	for _, listener := range allListeners {
		wg.Add(1)
		go func(listener string) {
			defer wg.Done()
			parallelFor(n, 4, func() bool { return !b.Proxy.Alive() || c.ViolationCount() >= 10 }, func(i int) {
				r := gen.New(c.Seed, "c01l/"+listener, i)
				seedQ := mkQuery(uint16(r.Intn(65536)), fmt.Sprintf("ok-h%d.pipe.test.", i), dns.TypeA, dns.ClassINET, r.Bool())
				h, kind := c01Hostile(r, seedQ)
				c.Ev.Eval(1)
				cs := map[string]any{"listener": listener, "mutation": kind, "input_hex": hex.EncodeToString(h)}
				if what := c01SendHostile(b, r, listener, h, kind); what != "" {
					c.Violation("listener:"+listener+":"+strings.SplitN(what, ":", 2)[0], fmt.Sprintf("%s listener, %s input: %s", listener, kind, what), cs)
					return
				}
				// a valid probe afterwards (fresh connection) must be answered
				if i%3 == 0 {
					name := fmt.Sprintf("ok-probe%dx%s.pipe.test.", i, listener)
					if err := c01Probe(b, listener, name); err != nil {
						// confirm: three more probes
						fails := 0
						for k := 0; k < 3; k++ {
							if c01Probe(b, listener, fmt.Sprintf("ok-probe%dx%sr%d.pipe.test.", i, listener, k)) != nil {
								fails++
							}
						}
						if fails == 3 {
							c.Violation("listener:"+listener+":wedged", fmt.Sprintf("%s listener stopped answering valid queries after a %s input: %v", listener, kind, err), cs)
						} else {
							c.Inconclusive("probe failed once: " + err.Error())
						}
						return
					}
					c.Ev.Count("probes_answered_"+listener, 1)
				}
				c.Ev.Distinct("listener", listener, kind)
				c.Ev.Count("hostile_"+listener, 1)
			})
		}(listener)
	}
	wg.Wait()
	alive := b.Proxy.Alive()
	res := b.Stop()
	if !alive || res.Panic != "" && res.DiedBeforeStop {
		c.Violation("listener:proxy-crash", "the proxy crashed while receiving hostile client input: "+res.Panic, map[string]any{"panic": res.Panic})
	}
	c.Ev.Count("listener_race_reports_mosproxy", int64(countMosRaces(res)))
	c.Ev.Sample(map[string]any{"part": "listeners", "inputs_per_listener": n, "kinds": "truncate, random, bitflip, counts, label-length, pointer-self/cycle/wild/chain, reserved-label, long-name, short-header, rdlength, trailing-garbage"})
}

// c01ListenersLimited: the same hostile inputs against a proxy with a tiny client limiter, sent by
// a client that is over its budget: the refusal path sees undecodable input too. Responses are not
// judged here (REFUSED / 503 / closed connections are all fine); the proxy must survive and serve
// a client of another subnet afterwards.
func c01ListenersLimited(c *Ctx) {
	b, err := NewBed(c, "limited", BedOpts{Upstreams: []string{"pipe"}, Limiter: "  client:\n    limit: 1\n    burst: 8\n"})
	if err != nil {
		c.startFailure(err, "c01-limited")
		return
	}
	n := c.N(60, 800)
	var wg sync.WaitGroup
	for _, listener := range allListeners {
		wg.Add(1)
		go func(listener string) {
			defer wg.Done()
			// use the budget up with ordinary queries first
			for k := 0; k < 12; k++ {
				b.Exchange(listener, mkQuery(uint16(k), fmt.Sprintf("ok-lim%d%s.pipe.test.", k, listener), dns.TypeA, dns.ClassINET, false), xOpts{Timeout: 2 * time.Second})
			}
			parallelFor(n, 3, func() bool { return !b.Proxy.Alive() }, func(i int) {
				r := gen.New(c.Seed, "c01lim/"+listener, i)
				seedQ := mkQuery(uint16(r.Intn(65536)), fmt.Sprintf("ok-lh%d.pipe.test.", i), dns.TypeA, dns.ClassINET, r.Bool())
				h, kind := c01Hostile(r, seedQ)
				c.Ev.Eval(1)
				c01SendHostile(b, r, listener, h, kind)
				c.Ev.Distinct("limited-listener", listener, kind)
				c.Ev.Count("hostile_over_limit_"+listener, 1)
			})
		}(listener)
	}
	wg.Wait()
	probeErr := ""
	if b.Proxy.Alive() {
		for _, l := range []string{"udp", "tcp"} {
			ok := false
			for k := 0; k < 3 && !ok; k++ {
				x := b.Exchange(l, mkQuery(uint16(900+k), fmt.Sprintf("ok-after-lim%d%s.pipe.test.", k, l), dns.TypeA, dns.ClassINET, false), xOpts{LocalIP: fmt.Sprintf("127.77.%d.1", k+1), Timeout: 5 * time.Second})
				m := new(dns.Msg)
				ok = x.Err == nil && m.Unpack(x.Resp) == nil && m.Rcode == dns.RcodeSuccess
			}
			if !ok {
				probeErr = l
			}
		}
	}
	alive := b.Proxy.Alive()
	res := b.Stop()
	switch {
	case !alive || res.Panic != "" && res.DiedBeforeStop:
		c.Violation("listener:proxy-crash:over-limit", "the proxy (client limiter configured, client over its budget) crashed while receiving hostile client input: "+res.Panic, map[string]any{"panic": res.Panic})
	case probeErr != "":
		c.Violation("listener:"+probeErr+":wedged:over-limit", "after hostile input from a client over its rate limit, a client of another subnet is not served on "+probeErr, map[string]any{"listener": probeErr})
	default:
		c.Ev.Count("limited_bed_survived", 1)
	}
}

// c01HostileOPT builds the RDATA of an OPT record: a sequence of option TLVs whose inner length
// fields lie, are cut short or describe nonsense. The record itself is honest (RDLENGTH = the
// octets present), so the query is a perfectly decodable DNS message: whatever walks the options
// (client subnet, cookies, padding, ...) meets the lies.
func c01HostileOPT(r *gen.R) ([]byte, string) {
	opt := func(code uint16, declared int, data []byte) []byte {
		b := []byte{byte(code >> 8), byte(code), byte(declared >> 8), byte(declared)}
		return append(b, data...)
	}
	codes := []uint16{8, 8, 8, 10, 12, 3, 11, 15, 65001, 0}
	var rd []byte
	kind := ""
	// a few honest options in front, so that the walker is in the middle of the record when it meets the lie
	for i := r.Intn(3); i > 0; i-- {
		d := r.Bytes(r.Intn(12))
		rd = append(rd, opt(gen.Pick(r, codes[3:]), len(d), d)...)
	}
	code := gen.Pick(r, codes)
	switch r.Intn(9) {
	case 0: // declared length beyond the end of the record
		have := r.Intn(4)
		rd = append(rd, opt(code, have+r.Range(1, 40), r.Bytes(have))...)
		kind = "option-length-beyond-rdata"
	case 1: // 65535
		rd = append(rd, opt(code, 65535, r.Bytes(r.Intn(6)))...)
		kind = "option-length-65535"
	case 2: // option header cut: 1-3 octets of code/length
		rd = append(rd, opt(code, 0, nil)[:r.Range(1, 3)]...)
		kind = "option-header-cut"
	case 3: // ECS: length says 4+, fewer octets follow (directly at the end of the record)
		rd = append(rd, opt(8, r.Range(4, 20), r.Bytes(r.Intn(4)))...)
		kind = "ecs-shorter-than-declared"
	case 4: // ECS with zero length / shorter than its fixed part
		n := r.Intn(4)
		rd = append(rd, opt(8, n, r.Bytes(n))...)
		kind = "ecs-below-fixed-part"
	case 5: // ECS whose prefix length does not fit the address octets / family unknown
		fam := gen.Pick(r, []uint16{1, 2, 0, 3, 65535})
		addr := r.Bytes(r.Intn(18))
		d := append([]byte{byte(fam >> 8), byte(fam), byte(r.Intn(256)), byte(r.Intn(256))}, addr...)
		rd = append(rd, opt(8, len(d), d)...)
		kind = "ecs-prefix-and-family-nonsense"
	case 6: // ECS source prefix 0 (opt-out form), honest and lying lengths
		d := []byte{0, byte(r.Range(1, 2)), 0, 0}
		rd = append(rd, opt(8, len(d)+r.Intn(2)*r.Range(1, 9), d)...)
		kind = "ecs-prefix-zero"
	case 7: // many empty options
		for i := r.Range(50, 400); i > 0; i-- {
			rd = append(rd, opt(gen.Pick(r, codes), 0, nil)...)
		}
		kind = "many-empty-options"
	default: // random octets
		rd = append(rd, r.Bytes(r.Range(1, 60))...)
		kind = "random-rdata"
	}
	return rd, kind
}

// c01ListenersOptions: decodable queries whose OPT record carries hostile option TLVs, against a
// proxy with client-subnet forwarding and the cache switched on (everything that may look at the
// options of a query is in play). Judged: the proxy survives, whatever it sends back is a DNS
// message, and valid queries are answered afterwards.
func c01ListenersOptions(c *Ctx) {
	b, err := NewBed(c, "options", BedOpts{Upstreams: []string{"pipe"}, ECS: true, MemSize: 1 << 20})
	if err != nil {
		c.startFailure(err, "c01-options")
		return
	}
	n := c.N(60, 1200)
	var wg sync.WaitGroup
	for _, listener := range allListeners {
		wg.Add(1)
		go func(listener string) {
			defer wg.Done()
			parallelFor(n, 4, func() bool { return !b.Proxy.Alive() || c.ViolationCount() >= 10 }, func(i int) {
				r := gen.New(c.Seed, "c01opt/"+listener, i)
				rd, kind := c01HostileOPT(r)
				name := fmt.Sprintf("ok-o%dx%s.pipe.test.", i%7, listener) // few names: hits and misses
				q := mkQuery(uint16(r.Intn(65536)), name, dns.TypeA, dns.ClassINET, false)
				binary.BigEndian.PutUint16(q[10:], 1) // ARCOUNT
				q = append(q, 0, 0, 41, byte(r.Range(2, 16)), byte(r.Intn(256)), 0, 0, byte(r.Intn(2))<<7, 0, byte(len(rd)>>8), byte(len(rd)))
				q = append(q, rd...)
				c.Ev.Eval(1)
				cs := map[string]any{"listener": listener, "opt_rdata": kind, "input_hex": hex.EncodeToString(q)}
				x := b.Exchange(listener, q, xOpts{Timeout: 8 * time.Second})
				if x.Err == nil && (x.Status == 0 || x.Status == 200) {
					if m := new(dns.Msg); m.Unpack(x.Resp) != nil {
						c.Violation("options:"+listener+":garbage-response", fmt.Sprintf("%s listener: a decodable query with OPT rdata of kind %s was answered with an undecodable message %s", listener, kind, hex.EncodeToString(x.Resp[:min(len(x.Resp), 40)])), cs)
						return
					}
					c.Ev.Count("options_answered_"+listener, 1)
				} else {
					c.Ev.Count("options_rejected_"+listener, 1)
				}
				if i%3 == 0 || !b.Proxy.Alive() {
					pn := fmt.Sprintf("ok-oprobe%dx%s.pipe.test.", i, listener)
					if err := c01Probe(b, listener, pn); err != nil {
						fails := 0
						for k := 0; k < 3; k++ {
							if c01Probe(b, listener, fmt.Sprintf("ok-oprobe%dx%sr%d.pipe.test.", i, listener, k)) != nil {
								fails++
							}
						}
						if fails == 3 {
							c.Violation("options:"+listener+":wedged", fmt.Sprintf("%s listener stopped answering valid queries after a query with OPT rdata of kind %s: %v", listener, kind, err), cs)
						} else {
							c.Inconclusive("probe failed once: " + err.Error())
						}
						return
					}
				}
				c.Ev.Distinct("options", listener, kind)
			})
		}(listener)
	}
	wg.Wait()
	alive := b.Proxy.Alive()
	res := b.Stop()
	if !alive || res.Panic != "" && res.DiedBeforeStop {
		c.Violation("listener:proxy-crash:opt-options", "the proxy (client subnet on, cache on) crashed on decodable queries whose OPT record carries hostile option TLVs: "+res.Panic, map[string]any{"panic": res.Panic})
	}
	c.Ev.Sample(map[string]any{"part": "opt-options", "inputs_per_listener": n, "kinds": "option-length-beyond-rdata, option-length-65535, option-header-cut, ecs-shorter-than-declared, ecs-below-fixed-part, ecs-prefix-and-family-nonsense, ecs-prefix-zero, many-empty-options, random-rdata"})
}

// c01RawHTTP: HTTP/1.x requests written octet by octet the way no well-behaved client library
// writes them: POST without Content-Length and without Transfer-Encoding (no body at all), with
// Content-Length 0, with a body shorter than announced, chunked bodies that are empty / malformed /
// announced twice, Expect: 100-continue, unknown methods, HTTP/1.0, absurd header sizes. On the two
// plain HTTP listeners and, with ALPN http/1.1, on the HTTPS one. Judged: the proxy survives and
// the listener answers a valid query afterwards.
func c01RawHTTP(c *Ctx) {
	b, err := NewBed(c, "rawhttp", BedOpts{Upstreams: []string{"pipe"}, Listeners: []string{"http", "fasthttp", "https", "tcp"}})
	if err != nil {
		c.startFailure(err, "c01-rawhttp")
		return
	}
	q := mkQuery(77, "ok-raw.pipe.test.", dns.TypeA, dns.ClassINET, false)
	b64 := base64.RawURLEncoding.EncodeToString(q)
	ct := "Content-Type: application/dns-message\r\n"
	type rq struct{ kind, text string }
	reqs := []rq{
		{"post-no-length-no-body", "POST /dns-query HTTP/1.1\r\nHost: x\r\n" + ct + "\r\n"},
		{"post-length-0", "POST /dns-query HTTP/1.1\r\nHost: x\r\n" + ct + "Content-Length: 0\r\n\r\n"},
		{"post-no-length-close", "POST /dns-query HTTP/1.1\r\nHost: x\r\nConnection: close\r\n" + ct + "\r\n" + string(q)},
		{"post-length-longer-than-body", "POST /dns-query HTTP/1.1\r\nHost: x\r\n" + ct + "Content-Length: 500\r\n\r\n" + string(q)},
		{"post-length-shorter-than-body", "POST /dns-query HTTP/1.1\r\nHost: x\r\n" + ct + "Content-Length: 5\r\n\r\n" + string(q)},
		{"post-chunked-empty", "POST /dns-query HTTP/1.1\r\nHost: x\r\n" + ct + "Transfer-Encoding: chunked\r\n\r\n0\r\n\r\n"},
		{"post-chunked-bad-size", "POST /dns-query HTTP/1.1\r\nHost: x\r\n" + ct + "Transfer-Encoding: chunked\r\n\r\nzz\r\nabc\r\n0\r\n\r\n"},
		{"post-chunked-huge-size", "POST /dns-query HTTP/1.1\r\nHost: x\r\n" + ct + "Transfer-Encoding: chunked\r\n\r\nffffffffffffffff\r\nabc"},
		{"post-chunked-and-length", "POST /dns-query HTTP/1.1\r\nHost: x\r\n" + ct + "Transfer-Encoding: chunked\r\nContent-Length: 3\r\n\r\n3\r\nabc\r\n0\r\n\r\n"},
		{"post-chunked-valid-query", fmt.Sprintf("POST /dns-query HTTP/1.1\r\nHost: x\r\n"+ct+"Transfer-Encoding: chunked\r\n\r\n%x\r\n%s\r\n0\r\n\r\n", len(q), q)},
		{"post-expect-continue-no-body", "POST /dns-query HTTP/1.1\r\nHost: x\r\n" + ct + "Expect: 100-continue\r\nContent-Length: 40\r\n\r\n"},
		{"post-negative-length", "POST /dns-query HTTP/1.1\r\nHost: x\r\n" + ct + "Content-Length: -1\r\n\r\n"},
		{"post-two-lengths", "POST /dns-query HTTP/1.1\r\nHost: x\r\n" + ct + "Content-Length: 3\r\nContent-Length: 7\r\n\r\nabcdefg"},
		{"get-no-accept", "GET /dns-query?dns=" + b64 + " HTTP/1.1\r\nHost: x\r\n\r\n"},
		{"get-empty-dns", "GET /dns-query?dns= HTTP/1.1\r\nHost: x\r\nAccept: application/dns-message\r\n\r\n"},
		{"get-no-query", "GET /dns-query HTTP/1.1\r\nHost: x\r\nAccept: application/dns-message\r\n\r\n"},
		{"get-with-body", "GET /dns-query?dns=" + b64 + " HTTP/1.1\r\nHost: x\r\nAccept: application/dns-message\r\nContent-Length: 4\r\n\r\nabcd"},
		{"get-http10-no-host", "GET /dns-query?dns=" + b64 + " HTTP/1.0\r\nAccept: application/dns-message\r\n\r\n"},
		{"head", "HEAD /dns-query?dns=" + b64 + " HTTP/1.1\r\nHost: x\r\nAccept: application/dns-message\r\n\r\n"},
		{"put-no-body", "PUT /dns-query HTTP/1.1\r\nHost: x\r\n" + ct + "\r\n"},
		{"options-star", "OPTIONS * HTTP/1.1\r\nHost: x\r\n\r\n"},
		{"unknown-method", "BREW /dns-query HTTP/1.1\r\nHost: x\r\n" + ct + "Content-Length: 0\r\n\r\n"},
		{"connect", "CONNECT x:53 HTTP/1.1\r\nHost: x\r\n\r\n"},
		{"header-64k", "POST /dns-query HTTP/1.1\r\nHost: x\r\nX-Pad: " + strings.Repeat("p", 70000) + "\r\n" + ct + "Content-Length: 0\r\n\r\n"},
		{"request-line-only", "POST /dns-query HTTP/1.1\r\n"},
		{"two-pipelined-posts-no-length", "POST /dns-query HTTP/1.1\r\nHost: x\r\n" + ct + "\r\nPOST /dns-query HTTP/1.1\r\nHost: x\r\n" + ct + "\r\n"},
		{"h2-preface-on-h1", "PRI * HTTP/2.0\r\n\r\nSM\r\n\r\n"},
	}
	for rep := 0; rep < c.N(1, 4); rep++ {
		for _, listener := range []string{"fasthttp", "http", "https"} {
			for i, r := range reqs {
				if !b.Proxy.Alive() {
					break
				}
				func() {
					raw, err := net.DialTimeout("tcp", b.L[listener], 3*time.Second)
					if err != nil {
						return
					}
					defer raw.Close()
					var conn net.Conn = raw
					if listener == "https" {
						cfg := b.ProxyTLS.Clone()
						cfg.NextProtos = []string{"http/1.1"}
						tc := tls.Client(raw, cfg)
						raw.SetDeadline(time.Now().Add(3 * time.Second))
						if tc.Handshake() != nil {
							return
						}
						conn = tc
					}
					raw.SetDeadline(time.Now().Add(1500 * time.Millisecond))
					conn.Write([]byte(r.text))
					buf := make([]byte, 512)
					n, _ := conn.Read(buf) // a status line, or nothing
					c.Ev.Eval(1)
					st := "no-reply"
					if n >= 12 && string(buf[:5]) == "HTTP/" {
						st = string(buf[9:12])
					}
					c.Ev.Count("raw_http_"+listener+"_status_"+st, 1)
					c.Ev.Distinct("raw-http", listener, r.kind, st)
				}()
				if i%4 == 3 || !b.Proxy.Alive() {
					if err := c01Probe(b, listener, fmt.Sprintf("ok-rawprobe%dr%d.pipe.test.", i, rep)); err != nil {
						fails := 0
						for k := 0; k < 3; k++ {
							if c01Probe(b, listener, fmt.Sprintf("ok-rawprobe%dr%dk%d.pipe.test.", i, rep, k)) != nil {
								fails++
							}
						}
						if fails == 3 {
							c.Violation("raw-http:"+listener+":wedged", fmt.Sprintf("%s listener stopped answering valid queries after the raw request %q: %v", listener, r.kind, err), map[string]any{"listener": listener, "request": r.kind, "request_text": r.text[:min(len(r.text), 300)]})
							break
						}
					}
				}
			}
		}
	}
	alive := b.Proxy.Alive()
	res := b.Stop()
	if !alive || res.Panic != "" && res.DiedBeforeStop {
		c.Violation("listener:proxy-crash:raw-http", "the proxy crashed on a raw HTTP/1.x request: "+res.Panic, map[string]any{"panic": res.Panic})
	}
	c.Ev.Sample(map[string]any{"part": "raw-http", "requests": len(reqs), "listeners": []string{"fasthttp", "http", "https (ALPN http/1.1)"}})
}

// c01ListenersLogged: valid queries whose names are almost entirely non-printable octets, or consist of up to 127 one-octet labels, (four
// labels of 63+63+63+up to 61 octets; the text form, \DDD per octet, is four times as long),
// against a proxy that turns every name into text: query logging on and a regexp rule first.
// Buffers go straight back to the pool (no quarantine), as in production.
func c01ListenersLogged(c *Ctx) {
	b, err := NewBed(c, "logged", BedOpts{Upstreams: []string{"pipe"}, LogQueries: true, RegexpRule: `^never-matches-anything\\.example$`,
		Env: map[string]string{"VERIF_POOL_QUARANTINE": "0"}})
	if err != nil {
		c.startFailure(err, "c01-logged")
		return
	}
	n := c.N(6, 60)
	var wg sync.WaitGroup
	for _, listener := range allListeners {
		wg.Add(1)
		go func(listener string) {
			defer wg.Done()
			for i := 0; i < n && b.Proxy.Alive(); i++ {
				r := gen.New(c.Seed, "c01log/"+listener, i)
				m := new(dns.Msg)
				m.Id = uint16(r.Intn(65536))
				m.RecursionDesired = true
				// built by hand: miekg refuses to pack some of these octets unescaped
				wire := []byte{byte(m.Id >> 8), byte(m.Id), 1, 0, 0, 1, 0, 0, 0, 0, 0, 0}
				total := 0
				for _, l := range []int{63, 63, 63, r.Range(1, 61)} {
					wire = append(wire, byte(l))
					for k := 0; k < l; k++ {
						wire = append(wire, byte(r.Range(1, 31)))
					}
					total += l + 1
				}
				wire = append(wire, 4, 'p', 'i', 'p', 'e', 4, 't', 'e', 's', 't', 0)
				if total+11 > 255 {
					continue
				}
				wire = append(wire, 0, 1, 0, 1)
				c.Ev.Eval(1)
				b.Exchange(listener, wire, xOpts{Timeout: 5 * time.Second})
				c.Ev.Distinct("logged-listener", listener, total/50)
			}
			// names with as many labels as the wire format allows: 127 labels of one octet (255 octets
			// with the root), 126, 125 and 100; also with the bed's own suffix at the end (the domain
			// sets are walked label by label)
			for _, nl := range []int{127, 126, 125, 100, 124} {
				if !b.Proxy.Alive() {
					break
				}
				wire := []byte{0, byte(nl), 1, 0, 0, 1, 0, 0, 0, 0, 0, 0}
				left := nl
				tail := []byte{0}
				if nl == 124 || nl == 100 {
					tail = []byte{4, 'p', 'i', 'p', 'e', 4, 't', 'e', 's', 't', 0}
					left = nl - 5 // 124: 119 one-octet labels + 2 labels of four = 249 + 1 <= 255
				}
				for k := 0; k < left; k++ {
					wire = append(wire, 1, byte('a'+k%26))
				}
				wire = append(wire, tail...)
				wire = append(wire, 0, 1, 0, 1)
				c.Ev.Eval(1)
				b.Exchange(listener, wire, xOpts{Timeout: 5 * time.Second})
				c.Ev.Distinct("many-labels", listener, nl)
			}
		}(listener)
	}
	wg.Wait()
	var probeErr error
	if b.Proxy.Alive() {
		probeErr = c01Probe(b, "tcp", fmt.Sprintf("ok-after-logged%d.pipe.test.", c.Seed))
		if probeErr != nil {
			probeErr = c01Probe(b, "tcp", fmt.Sprintf("ok-after-logged2x%d.pipe.test.", c.Seed))
		}
	}
	alive := b.Proxy.Alive()
	res := b.Stop()
	switch {
	case !alive || res.Panic != "" && res.DiedBeforeStop:
		c.Violation("listener:proxy-crash:binary-names", "the proxy (query logging on, regexp rule) crashed on valid queries whose names consist of non-printable octets: "+res.Panic, map[string]any{"panic": res.Panic})
	case probeErr != nil:
		c.Violation("listener:wedged:binary-names", "after valid queries with binary names the proxy no longer answers: "+probeErr.Error(), map[string]any{"err": probeErr.Error()})
	default:
		c.Ev.Count("logged_bed_survived", 1)
	}
}

// c01Sizes: one valid query of every size from 64 to 1100 octets (and around every power of two up
// to 64 KiB) over every listener kind and DoH method, followed by undecodable input of the same
// sizes over DoH GET. Sizes are where fixed buffers, "small message" fast paths and encoded-length
// computations go wrong. Judged here: the process survives, no handler panics (net/http recovers
// a handler's panic and logs it), valid queries are answered afterwards.
func c01Sizes(c *Ctx) {
	b, err := NewBed(c, "sizes", BedOpts{Upstreams: []string{"pipe"}})
	if err != nil {
		c.startFailure(err, "c01-sizes")
		return
	}
	var answered, unanswered atomic.Int64
	sent := sizeSweep(c, b, "sz", 16, func(v sweepVariant, n int, name string, x xResult) {
		if x.Err == nil && (x.Status == 0 || x.Status == 200) && len(x.Resp) >= 12 {
			answered.Add(1)
		} else {
			unanswered.Add(1)
		}
		c.Ev.Distinct("size-sweep", v.Listener, v.Method, n/64)
	})
	c.Ev.Eval(sent)
	// garbage of every size over DoH GET (the other transports get theirs in the fuzz part)
	for _, l := range []string{"http", "fasthttp", "https"} {
		for n := 1; n <= 1100 && b.Proxy.Alive(); n++ {
			r := gen.New(c.Seed, "c01sizes/"+l, n)
			g := make([]byte, n)
			for i := range g {
				g[i] = byte(r.Intn(256))
			}
			if n > 2 {
				g[2] |= 0x80 // QR=1: never a query
			}
			b.Exchange(l, g, xOpts{Timeout: 4 * time.Second, Method: "GET"})
			c.Ev.Eval(1)
		}
	}
	// datagrams that are a strict prefix of a valid query (cut inside the header, the question or the
	// OPT record; also the empty datagram), sent right after complete copies of that query: they cannot
	// be decoded, so they are dropped - a response means the decoder read beyond the datagram
	if _, ok := b.L["udp"]; ok && b.Proxy.Alive() {
		var answeredPrefix atomic.Int64
		parallelFor(c.N(24, 240), 8, func() bool { return answeredPrefix.Load() > 0 || !b.Proxy.Alive() }, func(i int) {
			r := gen.New(c.Seed, "c01prefix", i)
			name := fmt.Sprintf("ok-n1-pfx%dx%d.pipe.test.", i, c.Seed)
			full := paddedQuery(uint16(0x4000+i), name, r.Range(80, 1200))
			if full == nil {
				return
			}
			warm, err := dnsclient.DialUDP("", b.L["udp"])
			if err != nil {
				return
			}
			for k := 0; k < 6; k++ {
				warm.Send(full)
			}
			time.Sleep(30 * time.Millisecond)
			warm.Close()
			cuts := []int{0, 1, 2, 3, 11, 12, 13, 12 + len(name)/2, 12 + len(name) + 1 + 3, len(full) - 1, r.Range(14, len(full)-2), r.Range(14, len(full)-2)}
			for _, cut := range cuts {
				pfx := full[:cut]
				if new(dns.Msg).Unpack(pfx) == nil {
					continue // (a prefix never decodes; belt and braces)
				}
				cl, err := dnsclient.DialUDP("", b.L["udp"])
				if err != nil {
					continue
				}
				cl.Send(pfx)
				time.Sleep(120 * time.Millisecond)
				got := cl.Received()
				cl.Close()
				c.Ev.Eval(1)
				c.Ev.Distinct("udp-prefix", min(cut, 14), len(full)/256)
				if len(got) > 0 {
					answeredPrefix.Add(1)
					c.Violation("listener:udp:answered-undecodable-datagram", fmt.Sprintf("a UDP datagram of %d octets - the first %d octets of a valid %d-octet query sent just before - cannot be decoded, yet it was answered with %d octets (%x...): the decoder read beyond the end of the datagram", cut, cut, len(full), len(got[0].Data), got[0].Data[:min(len(got[0].Data), 24)]),
						map[string]any{"cut": cut, "full_len": len(full), "query": hex.EncodeToString(full)})
					return
				}
			}
		})
	}
	c.Ev.Count("size_sweep_valid_queries_answered", answered.Load())
	c.Ev.Count("size_sweep_valid_queries_not_answered(judged by C03)", unanswered.Load())
	var probeErr error
	if b.Proxy.Alive() {
		for _, l := range allListeners {
			if probeErr = c01Probe(b, l, fmt.Sprintf("ok-after-sizes%d.pipe.test.", c.Seed)); probeErr != nil {
				probeErr = c01Probe(b, l, fmt.Sprintf("ok-after-sizes2x%d.pipe.test.", c.Seed))
			}
			if probeErr != nil {
				probeErr = fmt.Errorf("%s: %w", l, probeErr)
				break
			}
		}
	}
	alive := b.Proxy.Alive()
	recovered := b.Proxy.LogContains("panic serving")
	tail := ""
	if recovered {
		tail = b.Proxy.LogTail(40)
	}
	res := b.Stop()
	switch {
	case !alive || res.Panic != "" && res.DiedBeforeStop:
		c.Violation("listener:proxy-crash:size-sweep", "the proxy crashed while it was sent one query of every size: "+res.Panic, map[string]any{"panic": res.Panic})
	case recovered:
		c.Violation("listener:handler-panic:size-sweep", "a DoH handler panicked (recovered by net/http) while the proxy was sent one query of every size:\n"+tail, map[string]any{"log": tail})
	case probeErr != nil:
		c.Violation("listener:wedged:size-sweep", "after one query of every size the proxy no longer answers: "+probeErr.Error(), map[string]any{"err": probeErr.Error()})
	default:
		c.Ev.Count("size_sweep_bed_survived", 1)
	}
}

// returns "" or "<class>: text"
func c01SendHostile(b *Bed, r *gen.R, listener string, h []byte, kind string) string {
	switch listener {
	case "udp":
		uc, err := dnsclient.DialUDP("", b.L["udp"])
		if err != nil {
			return ""
		}
		defer uc.Close()
		uc.Send(h)
		time.Sleep(time.Duration(r.Range(1, 15)) * time.Millisecond)
		for _, p := range uc.Received() {
			m := new(dns.Msg)
			if len(p.Data) < 12 || (m.Unpack(p.Data) != nil && !mosproxyDecodes(h)) {
				return "non-dns-reply: a hostile datagram was answered with " + hex.EncodeToString(p.Data[:min(len(p.Data), 40)])
			}
		}
	case "tcp", "gnet", "tls":
		tc := b.ProxyTLS
		if listener != "tls" {
			tc = nil
		}
		sc, err := dnsclient.DialStream("", b.L[listener], tc)
		if err != nil {
			return ""
		}
		defer sc.Close()
		// a valid query first (the listener may legitimately close the connection on the hostile frame
		// before answering it; whatever comes back must be well-formed)
		sc.SendFrame(mkQuery(7, "ok-first.pipe.test.", dns.TypeA, dns.ClassINET, false))
		decl := len(h)
		switch r.Intn(6) {
		case 0:
			decl = 0
		case 1:
			decl = 1
		case 2:
			decl = max(0, len(h)-1)
		case 3:
			decl = len(h) + 1
		case 4:
			decl = 65535
		}
		frame := make([]byte, 2+len(h))
		binary.BigEndian.PutUint16(frame, uint16(decl))
		copy(frame[2:], h)
		// random segmentation
		for off := 0; off < len(frame); {
			nn := r.Range(1, max(1, len(frame)/2))
			if off+nn > len(frame) {
				nn = len(frame) - off
			}
			if sc.WriteRaw(frame[off:off+nn]) != nil {
				break
			}
			off += nn
		}
		if r.Bool() {
			sc.CloseWrite()
		}
		sc.WaitFrames(2, 600*time.Millisecond)
		fr := sc.Frames()
		for _, f := range fr {
			m := new(dns.Msg)
			if m.Unpack(f.Data) != nil {
				return "garbage-frame: the listener sent an undecodable frame " + hex.EncodeToString(f.Data[:min(len(f.Data), 40)])
			}
		}
	case "http", "fasthttp", "https":
		url, mode := "http://"+b.L[listener]+"/dns-query", "h1"
		tc := b.ProxyTLS
		if listener == "https" {
			url, mode = "https://"+b.L[listener]+"/dns-query", "h2"
		} else {
			tc = nil
		}
		hc := dnsclient.NewDoH(url, tc, mode, "")
		defer hc.Close()
		var res dnsclient.HTTPResult
		want := 400
		if mosproxyDecodes(h) {
			want = 200
		}
		if decoderBroken.Load() {
			return "" // no oracle for "decodable" any more
		}
		switch r.Intn(5) {
		case 0: // GET with raw (possibly invalid) base64
			req, _ := http.NewRequest("GET", url+"?dns="+base64.RawURLEncoding.EncodeToString(h), nil)
			req.Header.Set("Accept", "application/dns-message")
			res = hc.DoRaw(req)
			if len(h) == 0 {
				want = 400
			}
		case 1: // GET with broken base64
			req, _ := http.NewRequest("GET", url+"?dns=%%%"+hex.EncodeToString(h[:min(len(h), 20)])+"*", nil)
			req.Header.Set("Accept", "application/dns-message")
			res = hc.DoRaw(req)
			want = 400
			if res.Err != nil { // the client library may refuse to build such a URL
				return ""
			}
		case 2: // POST with the hostile body
			res = hc.Do("POST", h, nil)
		case 3: // POST with a wrong content type
			res = hc.Do("POST", h, map[string]string{"Content-Type": "text/plain"})
			want = 400
		default: // oversize body
			res = hc.Do("POST", append(h, make([]byte, 70000)...), nil)
			want = -1 // 400 or 413 or connection closed: anything but a crash / 200 with garbage
		}
		if res.Err != nil {
			return "" // connection-level rejection is fine
		}
		// The HTTP layer in front of the DNS decoder legitimately rejects a request on its own
		// grounds (431/414 for a GET line beyond its header limit, 413): any 4xx is a rejection for
		// undecodable input, and a size-class status is accepted for a large decodable GET too.
		sizeClass := res.Status == 413 || res.Status == 414 || res.Status == 431
		if want == 400 && res.Status >= 400 && res.Status < 500 {
			want = res.Status
		}
		if want == 200 && sizeClass && len(h) > 1024 {
			want = res.Status
		}
		if want > 0 && res.Status != want {
			return fmt.Sprintf("http-status: status %d for an input that %s (expected %d)", res.Status, map[bool]string{true: "decodes", false: "does not decode"}[want == 200], want)
		}
		if res.Status == 200 {
			m := new(dns.Msg)
			if m.Unpack(res.Body) != nil {
				return "garbage-body: 200 with an undecodable body"
			}
		}
	case "quic":
		qc, err := dnsclient.DialDoQ("", b.L["quic"], b.ProxyTLS)
		if err != nil {
			return ""
		}
		defer qc.Close()
		decl := len(h)
		if r.P(0.5) {
			decl = gen.Pick(r, []int{0, 1, max(0, len(h)-1), len(h) + 1, 65535})
		}
		frame := make([]byte, 2+len(h))
		binary.BigEndian.PutUint16(frame, uint16(decl))
		copy(frame[2:], h)
		qr := qc.Exchange(frame, 1200*time.Millisecond)
		for _, f := range qr.Frames {
			m := new(dns.Msg)
			if m.Unpack(f.Data) != nil {
				return "garbage-frame: undecodable frame on a DoQ stream"
			}
		}
	}
	return ""
}

// ---------------------------------------------------------------- (c) hostile upstream replies

func c01UpstreamReplies(c *Ctx) {
	ups := []string{"udp", "tcp", "pipe", "dot", "dohs", "doq", "doh", "h3"}
	isDoH := map[string]bool{"doh": true, "dohs": true, "h3": true}
	b, err := NewBed(c, "upreplies", BedOpts{Upstreams: ups, Listeners: []string{"tcp", "udp"}})
	if err != nil {
		c.startFailure(err, "c01-upstream")
		return
	}
	var mu sync.Mutex
	seq := map[string]*gen.R{}
	for _, u := range ups {
		u := u
		b.Up[u].SetMutate(func(q *fakeup.QueryLog, reply []byte) []byte {
			if !strings.Contains(q.Name, "hostile") || strings.Contains(q.Name, "junkfirst") {
				return reply // (junkfirst: the reply itself is fine, what is in front of it is not)
			}
			mu.Lock()
			defer mu.Unlock()
			r := seq[q.Name]
			if r == nil {
				r = gen.New(c.Seed, "c01u/"+q.Name, 0)
				seq[q.Name] = r
			}
			h, _ := c01Hostile(r, reply)
			if len(h) >= 2 && r.P(0.9) { // keep the transaction id so that the reply reaches the waiting exchange
				h[0], h[1] = reply[0], reply[1]
			}
			if r.P(0.05) {
				h = append(h, make([]byte, 70000)...) // oversize (DoH body / dropped elsewhere)
			} else if r.P(0.08) {
				h = append([]byte{}, h[:min(len(h), r.Intn(3))]...) // 0, 1 or 2 octets: shorter than anything the reply paths index into
			}
			return h
		})
	}
	n := c.N(30, 500)
	var wg sync.WaitGroup
	for _, up := range ups {
		wg.Add(1)
		go func(up string) {
			defer wg.Done()
			parallelFor(n, 10, func() bool { return !b.Proxy.Alive() || c.ViolationCount() >= 10 }, func(i int) {
				kind := gen.Pick(gen.New(c.Seed, "c01uk/"+up, i), []string{"ok", "ok", "ok", "half", "http500", "garbage"})
				if kind == "http500" && !isDoH[up] {
					kind = "ok"
				}
				if (up == "tcp" || up == "dot" || up == "pipe") && kind == "ok" && i%3 == 0 {
					// an undecodable frame and the real reply behind it, in one segment: whatever the transport
					// does with the exchange, the octets that follow the bad frame must not be taken for the
					// reply to a later query
					kind = "ok-junkfirst"
				}
				if isDoH[up] && kind == "ok" && i%2 == 0 {
					// the DoH server flushes its header before the body: no Content-Length (chunked over
					// HTTP/1.1, length unknown over h2 / h3), body in two pieces
					kind = "ok-stream"
				}
				name := fmt.Sprintf("%s-hostile%dx%d.%s.test.", kind, i, c.Seed, up)
				x := b.Exchange("tcp", mkQuery(uint16(i), name, dns.TypeA, dns.ClassINET, false), xOpts{Timeout: 10 * time.Second})
				c.Ev.Eval(1)
				cs := map[string]any{"upstream": up, "name": name}
				m := new(dns.Msg)
				switch {
				case x.Err != nil:
					// confirm alone
					fails := 0
					for k := 0; k < 3; k++ {
						if y := b.Exchange("tcp", mkQuery(uint16(i), fmt.Sprintf("%s-hostile%dx%dr%d.%s.test.", kind, i, c.Seed, k, up), dns.TypeA, dns.ClassINET, false), xOpts{Timeout: 10 * time.Second}); y.Err != nil {
							fails++
						}
					}
					if fails == 3 {
						c.Violation("upstream-reply:no-response:"+up, fmt.Sprintf("a query whose %s upstream answers with hostile bytes got no response within 10 s: %v", up, x.Err), cs)
					} else {
						c.Inconclusive("no response once for " + name)
					}
					return
				case m.Unpack(x.Resp) != nil:
					// miekg validates RDATA of types the proxy relays byte for byte (e.g. TXT strings); only a
					// response that is malformed at the message level (rejected by both decoders) counts
					if !mosproxyDecodes(x.Resp) {
						c.Violation("upstream-reply:garbage-relayed:"+up, "the client received a response that neither miekg/dns nor the proxy's own decoder accepts: "+hex.EncodeToString(x.Resp[:min(len(x.Resp), 80)]), cs)
						return
					}
					c.Ev.Count("upstream_reply_relayed_with_rdata_miekg_rejects", 1)
					m = &dns.Msg{MsgHdr: dns.MsgHdr{Rcode: int(x.Resp[3] & 0xF)}}
				}
				if d := time.Duration(x.TRecv - x.TSend); d > 9*time.Second {
					c.Violation("upstream-reply:late:"+up, fmt.Sprintf("response after %v", d), cs)
					return
				}
				c.Ev.Count(fmt.Sprintf("upstream_%s_rcode_%d", up, m.Rcode), 1)
				c.Ev.Distinct("upstream-reply", up, kind, m.Rcode)
			})
			// once the hostile replies are over, valid queries through the same upstream must be answered
			// (while they are in flight a broken pipelined connection legitimately takes neighbours down)
			time.Sleep(200 * time.Millisecond)
			for k := 0; k < 5 && b.Proxy.Alive(); k++ {
				pn := fmt.Sprintf("ok-after%dx%d.%s.test.", k, c.Seed, up)
				if isDoH[up] && k%2 == 1 {
					pn = "ok-stream-" + pn[3:] // a valid reply without Content-Length must be relayed like any other
				}
				err := c01Probe(b, "tcp", pn)
				if err != nil { // one retry: the pooled connection may have been broken by the last hostile reply
					err = c01Probe(b, "tcp", "r"+pn)
				}
				if err != nil {
					c.Violation("upstream-reply:wedged:"+up, fmt.Sprintf("after hostile replies the %s upstream path no longer answers valid queries: %v", up, err), map[string]any{"upstream": up})
					break
				}
				c.Ev.Count("upstream_followup_probes_ok_"+up, 1)
			}
		}(up)
	}
	wg.Wait()
	alive := b.Proxy.Alive()
	res := b.Stop()
	if !alive {
		c.Violation("upstream-reply:proxy-crash", "the proxy crashed while receiving hostile upstream replies: "+res.Panic, map[string]any{"panic": res.Panic})
	}
	c.Ev.Sample(map[string]any{"part": "upstream-replies", "queries_per_upstream": n, "upstreams": ups})
}
