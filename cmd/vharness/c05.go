package main

// C05 — multiplexed upstream replies reach exactly the exchange that asked.
//
// transport.NewPipelineTransport (TCP framing over loopback TCP, UDP framing
// over loopback UDP) against a scripted server. Every exchange has a unique
// qname and a random caller ID; the server logs (conn, wireID, qname) per
// query and (conn, wireID, nonce) per reply instance; the nonce travels in
// the reply. Offline rules over the joined logs:
//
//	R1 a returned message carries a nonce of a reply the server sent;
//	R2 that reply's (conn, wireID) is one under which the server received this exchange's qname;
//	R3 the returned header ID is the caller's ID;
//	R4 a nonce (one reply instance) is returned by at most one exchange;
//	R5 per connection the wire IDs the server received are pairwise distinct;
//	R6 an exchange that returned an error owes nothing.

import (
	"context"
	"encoding/json"
	"fmt"
	"net"
	"runtime"
	"sort"
	"sync"
	"sync/atomic"
	"time"

	"github.com/IrineSistiana/mosproxy/internal/dnsmsg"
	"github.com/IrineSistiana/mosproxy/internal/pool"
	"github.com/IrineSistiana/mosproxy/internal/upstream/transport"
	"github.com/IrineSistiana/mosproxy/internal/verifhook"
	"github.com/IrineSistiana/mosproxy/verif/internal/gen"
	"github.com/IrineSistiana/mosproxy/verif/internal/scripted"
)

func init() {
	register(&Check{ID: "C05", Level: "fault_enumeration",
		Rule: "histories of ~200 exchanges (unique qname, random caller ID) through one PipelineTransport per history; per history: framing tcp|udp, MaxConcurrentQuery 1|4|64|4096, " +
			"1..256 concurrent callers, per-query server behaviour (in order, reversed within a window, delayed, duplicated 2-3x, dropped, unsolicited with never/not-yet/already-answered ID, late after the caller cancelled, garbage, half frame, FIN, RST), " +
			"caller cancellation at random points; plus ID-exhaustion runs (70 000 sequential + 70 000 concurrent exchanges through one transport), a server that stalls in the middle of a frame, the TCP fallback of udp upstreams with a dead TCP side, and a udp:// upstream built with the real constructor whose every query is first answered by a forged datagram (right wire id and question, sent from another port of the server's address or from another local address) and 3 ms later by the server itself: no exchange may return a forged one; 2-8 concurrent exchanges with byte-identical queries apart from the caller's ID (no reply returned twice, as many queries on the wire as exchanges that returned). One evaluation = one exchange judged by R1-R4/R6 or one connection judged by R5. " +
			"Distinct non-trivial cases = distinct tuples (framing, MaxConcurrentQuery, caller concurrency, server behaviour for the exchange, outcome class, whether the returned reply was sent out of query order) " +
			"plus distinct server-side event orders of histories that contained at least one reordered, duplicated, unsolicited or late-after-cancel reply",
		Run: runC05})
}

type c05Params struct {
	Idx     int    `json:"history"`
	Framing string `json:"framing"`
	MaxConc int    `json:"max_concurrent_query"`
	Conc    int    `json:"callers"`
	NEx     int    `json:"exchanges"`
	Profile string `json:"profile"`
}

type c05Ex struct {
	I        int    `json:"i"`
	Name     string `json:"qname"`
	CallerID uint16 `json:"caller_id"`
	Beh      string `json:"behaviour"`
	Oversize bool   `json:"oversize_query,omitempty"`
	Deadline int    `json:"deadline_ms"`
	CancelUs int    `json:"cancel_after_us"` // <0: never
	TCall    int64  `json:"t_call_ns"`
	TRet     int64  `json:"t_return_ns"`
	Err      string `json:"err,omitempty"`
	ErrClass string `json:"result"`
	Returned bool   `json:"returned_msg"`
	HasNonce bool   `json:"has_nonce"`
	Nonce    uint64 `json:"nonce"`
	GotID    uint16 `json:"returned_id"`

	act  scripted.Action
	done chan struct{}
}

type c05Witness struct {
	Params   c05Params        `json:"params"`
	Rule     string           `json:"rule"`
	Exchange *c05Ex           `json:"exchange,omitempty"`
	Other    *c05Ex           `json:"other_exchange,omitempty"`
	Reply    *scripted.Reply  `json:"server_reply,omitempty"`
	Receipts []scripted.Query `json:"server_receipts_of_qname,omitempty"`
	Conn     int              `json:"conn,omitempty"`
	DupIDs   []uint16         `json:"reused_wire_ids,omitempty"`
	First    []scripted.Query `json:"first_two_receipts_of_a_reused_id,omitempty"`
	Written  []c05Write       `json:"client_side_writes_of_qname,omitempty"`
}

func runC05(c *Ctx) {
	upQuietRace(c)
	pool.VerifSetQuarantine(0)
	if runtime.NumCPU() > 8 {
		runtime.GOMAXPROCS(8) // the workload mostly sleeps; fewer Ps = less scheduler churn on a shared machine
	}

	if c.Replay != nil {
		var w c05Witness
		json.Unmarshal(c.Replay.Case, &w)
		// schedule dependent: re-run the same history (same seed => same scripts) several times
		if w.Params.Profile == "" { // a mid-frame stall / udp fallback / forged datagram witness
			c05Stall(c)
			c05Fallback(c)
			c05Spoof(c)
			c05Twins(c)
			return
		}
		if w.Params.Profile == "exhaustion" {
			c05Exhaust(c, w.Params.Framing)
			return
		}
		for k := 0; k < 5 && c.ViolationCount() == 0; k++ {
			c05History(c, w.Params.Idx)
		}
		return
	}

	c05Fallback(c) // on its own: a message with two owners corrupts whatever else runs in the process
	if c.ViolationCount() > 0 {
		return
	}
	c05Spoof(c)
	c05Twins(c)
	nHist := c.N(200, 10000)
	var exhaustDone sync.WaitGroup
	// the exhaustion run is CPU bound and long; overlap it with the (mostly sleeping) histories
	exhaustDone.Add(1)
	go func() {
		defer exhaustDone.Done()
		c05Stall(c)
		c05Exhaust(c, "tcp")
		if c.Tier == "thorough" {
			c05Exhaust(c, "udp")
		}
	}()
	hStart := time.Now()
	parallelFor(nHist, c.N(40, 64), func() bool { return c.ViolationCount() >= 10 }, func(idx int) {
		c05History(c, idx)
	})
	c.Ev.Set("histories_wall_s", time.Since(hStart).Seconds())
	exhaustDone.Wait()
	c.Ev.Set("max_wire_ids_seen_on_one_connection", c05MaxIDs.Load())
	c.Ev.Set("race_reports_logged_not_judged_here", upRaceReports(c))
}

var c05MaxConc = []int{1, 4, 64, 4096}
var c05Conc = []int{1, 2, 3, 4, 8, 16, 32, 64, 128, 256}

type c05Weights struct {
	names []string
	w     []int
}

var c05Profiles = map[string]c05Weights{
	"calm":    {[]string{"inorder", "delayed", "window"}, []int{60, 30, 10}},
	"reorder": {[]string{"window", "delayed", "inorder", "dup"}, []int{45, 35, 10, 10}},
	"hostile": {[]string{"inorder", "delayed", "window", "dup", "drop", "unsol-never", "unsol-notyet", "unsol-answered", "late-cancel", "garbage", "half", "fin", "rst"},
		[]int{10, 14, 14, 14, 8, 8, 8, 8, 12, 1, 1, 1, 1}},
	"cancel": {[]string{"late-cancel", "delayed", "drop", "inorder", "dup"}, []int{40, 25, 10, 15, 10}},
}
var c05ProfileNames = []string{"calm", "reorder", "hostile", "cancel", "hostile", "reorder"}

func (w c05Weights) pick(r *gen.R) string {
	t := 0
	for _, x := range w.w {
		t += x
	}
	k := r.Intn(t)
	for i, x := range w.w {
		if k < x {
			return w.names[i]
		}
		k -= x
	}
	return w.names[0]
}

func c05Plan(seed int64, idx int) (c05Params, []*c05Ex) {
	r := gen.New(seed, "c05", idx)
	p := c05Params{Idx: idx}
	p.Framing = gen.Pick(r, []string{"tcp", "udp"})
	p.MaxConc = gen.Pick(r, c05MaxConc)
	p.Conc = gen.Pick(r, c05Conc)
	p.Profile = gen.Pick(r, c05ProfileNames)
	p.NEx = r.Range(150, 250)
	if p.Conc <= 2 {
		p.NEx = r.Range(60, 110) // sequential callers wait out every dropped reply
	}
	prof := c05Profiles[p.Profile]
	cancelP := 0.15
	if p.Profile == "cancel" {
		cancelP = 0.5
	}
	exs := make([]*c05Ex, p.NEx)
	for i := range exs {
		ex := &c05Ex{I: i, Name: fmt.Sprintf("h%d-e%d.c05.test.", idx, i), CallerID: uint16(r.Intn(65536)), CancelUs: -1, done: make(chan struct{})}
		ex.Deadline = r.Range(40, 120)
		beh := prof.pick(r)
		if p.Framing == "udp" && beh == "half" {
			beh = "garbage"
		}
		if p.Framing == "udp" && r.P(0.04) {
			// a query beyond the size of a UDP datagram: the write fails (EMSGSIZE), the connection
			// stays; the wire id taken for it must not come back
			beh = "oversize"
			ex.Oversize = true
		}
		ex.Beh = beh
		a := scripted.Action{Tag: beh}
		us := func(lo, hi int) time.Duration { return time.Duration(r.Range(lo, hi)) * time.Microsecond }
		switch beh {
		case "inorder":
		case "delayed":
			a.Delay = us(100, 8000)
		case "window":
			a.Window = r.Range(2, 8)
			a.WindowWait = us(500, 4000)
		case "dup":
			a.Copies = r.Range(2, 3)
			if r.Bool() {
				a.CopyGap = us(50, 1500)
			}
			if r.Bool() {
				a.Delay = us(100, 3000)
			}
		case "drop":
			a.Drop = true
			ex.Deadline = r.Range(25, 60)
		case "unsol-never", "unsol-notyet", "unsol-answered":
			e := scripted.Extra{Kind: scripted.ExtraUnsolicited}
			switch beh {
			case "unsol-never":
				e.IDMode = scripted.IDNever
			case "unsol-notyet":
				e.IDMode = scripted.IDNotYet
			default:
				e.IDMode = scripted.IDAnswered
			}
			if r.Bool() {
				a.Before = []scripted.Extra{e}
			} else {
				a.After = []scripted.Extra{e}
			}
			if r.Bool() {
				a.Delay = us(100, 2000)
			}
		case "late-cancel":
			a.WaitFor = ex.done
			a.MaxWait = 300 * time.Millisecond
			a.AfterWait = us(0, 3000)
			if r.P(0.3) {
				a.Copies = 2
			}
			ex.CancelUs = r.Range(100, 6000)
		case "garbage":
			a.Before = []scripted.Extra{{Kind: scripted.ExtraGarbage}}
		case "half":
			a.Drop = true
			a.After = []scripted.Extra{{Kind: scripted.ExtraHalfFrame}}
			ex.Deadline = r.Range(25, 60)
		case "fin":
			a.End = scripted.EndFIN
			a.EndDelay = us(0, 2000)
		case "rst":
			a.End = scripted.EndRST
			a.EndDelay = us(0, 2000)
		}
		if ex.CancelUs < 0 && r.P(cancelP) {
			ex.CancelUs = r.Range(0, 8000)
		}
		ex.act = a
		exs[i] = ex
	}
	return p, exs
}

// c05Setup starts a scripted server and a transport dialling it.
// c05Writes is the client-side log of query frames handed to the connection:
// the wire ID the transport assigned to a qname on a connection is known even
// when the server never gets to read that query (connection reset, datagram lost).
type c05Writes struct {
	mu sync.Mutex
	w  []c05Write
}

type c05Write struct {
	Local string `json:"client_addr"`
	ID    uint16 `json:"wire_id"`
	Name  string `json:"qname"`
	T     int64  `json:"t_ns"`
}

func (l *c05Writes) hook(tcp bool) func(c *scripted.Conn, b []byte) {
	return func(c *scripted.Conn, b []byte) {
		if tcp {
			if len(b) < 2 {
				return
			}
			b = b[2:]
		}
		id, name, _, _, _, ok := scripted.ParseQuery(b)
		if !ok {
			return
		}
		l.mu.Lock()
		l.w = append(l.w, c05Write{Local: c.Local, ID: id, Name: name, T: int64(scripted.Now())})
		l.mu.Unlock()
	}
}

func (l *c05Writes) snapshot() []c05Write {
	l.mu.Lock()
	defer l.mu.Unlock()
	return append([]c05Write{}, l.w...)
}

func c05Setup(framing string, maxConc int, script func(q *scripted.Query) scripted.Action) (srv *scripted.Server, tr *transport.PipelineTransport, d *scripted.Dialer, wl *c05Writes, err error) {
	srv = scripted.NewServer(script)
	wl = &c05Writes{}
	hook := wl.hook(framing == "tcp")
	d = &scripted.Dialer{UniqueLocal: true, OnConn: func(fc *scripted.Conn) { fc.OnWrite = hook }}
	if framing == "tcp" {
		l, e := net.Listen("tcp4", "127.0.0.1:0")
		if e != nil {
			return nil, nil, nil, nil, e
		}
		srv.ServeStream(l)
		d.Network, d.Addr = "tcp", l.Addr().String()
	} else {
		u, e := net.ListenUDP("udp4", &net.UDPAddr{IP: net.IPv4(127, 0, 0, 1)})
		if e != nil {
			return nil, nil, nil, nil, e
		}
		u.SetReadBuffer(4 << 20)
		u.SetWriteBuffer(4 << 20)
		srv.ServePacket(u)
		d.Network, d.Addr = "udp", u.LocalAddr().String()
		d.RcvBuf = 4 << 20
	}
	tr = transport.NewPipelineTransport(transport.PipelineOpts{
		DialContext:        d.DialContext,
		IsTCP:              framing == "tcp",
		MaxConcurrentQuery: maxConc,
		IdleTimeout:        5 * time.Second,
	})
	return srv, tr, d, wl, nil
}

func c05History(c *Ctx, idx int) {
	p, exs := c05Plan(c.Seed, idx)
	byName := make(map[string]*c05Ex, len(exs))
	for _, ex := range exs {
		byName[ex.Name] = ex
	}
	srv, tr, _, wl, err := c05Setup(p.Framing, p.MaxConc, func(q *scripted.Query) scripted.Action {
		if ex := byName[q.Name]; ex != nil {
			return ex.act
		}
		return scripted.Action{Tag: "unknown-qname"}
	})
	if err != nil {
		c.Inconclusive("C05 history setup: " + err.Error())
		return
	}
	defer srv.Close()

	var next atomic.Int64
	var wg sync.WaitGroup
	for w := 0; w < p.Conc; w++ {
		wg.Add(1)
		go func() {
			defer wg.Done()
			for {
				i := int(next.Add(1) - 1)
				if i >= len(exs) {
					return
				}
				c05Do(tr, exs[i])
			}
		}()
	}
	fin := make(chan struct{})
	go func() { wg.Wait(); close(fin) }()
	bound := time.Duration(len(exs)/p.Conc+1)*150*time.Millisecond + 20*time.Second
	select {
	case <-fin:
	case <-time.After(bound):
		// the statement of C05 says nothing about termination (that is C14): not a verdict here
		c.Inconclusive(fmt.Sprintf("C05 history %d: exchanges still running %v after the last possible deadline", idx, bound))
		return
	}
	time.Sleep(2 * time.Millisecond) // let straggling server goroutines log
	snap := srv.Snapshot()
	tr.Close()
	c05Judge(c, p, exs, snap, wl.snapshot(), idx < 3)
}

func c05Do(tr *transport.PipelineTransport, ex *c05Ex) {
	q := scripted.BuildQuery(ex.CallerID, ex.Name, 28, 1)
	if ex.Oversize {
		q = append(q, make([]byte, 65600)...)
	}
	ctx, cancel := context.WithTimeout(context.Background(), time.Duration(ex.Deadline)*time.Millisecond)
	var tm *time.Timer
	if ex.CancelUs >= 0 {
		tm = time.AfterFunc(time.Duration(ex.CancelUs)*time.Microsecond, cancel)
	}
	ex.TCall = int64(scripted.Now())
	m, err := tr.ExchangeContext(ctx, q)
	ex.TRet = int64(scripted.Now())
	close(ex.done)
	if tm != nil {
		tm.Stop()
	}
	cancel()
	ex.ErrClass = upErrClass(err)
	ex.Err = upShort(err)
	if m != nil {
		ex.Returned = true
		ex.GotID = m.Header.ID
		ex.Nonce, _, ex.HasNonce = upNonce(m)
		dnsmsg.ReleaseMsg(m)
	}
}

var c05MaxIDs atomic.Int64

// c05Judge applies R1..R6 to one history and records evidence.
func c05Judge(c *Ctx, p c05Params, exs []*c05Ex, snap *scripted.Snapshot, writes []c05Write, sample bool) {
	cnt := map[string]int64{}
	byNonce := make(map[uint64]*scripted.Reply, len(snap.Replies))
	for i := range snap.Replies {
		r := &snap.Replies[i]
		byNonce[r.Nonce] = r
		cnt["server_replies:"+r.Kind]++
	}
	receipts := make(map[string][]int, len(snap.Queries)) // qname -> indexes into snap.Queries
	perConn := map[int]map[uint16][]int{}
	for i := range snap.Queries {
		q := &snap.Queries[i]
		receipts[q.Name] = append(receipts[q.Name], i)
		m := perConn[q.Conn]
		if m == nil {
			m = map[uint16][]int{}
			perConn[q.Conn] = m
		}
		m[q.ID] = append(m[q.ID], i)
	}
	// client-side view: (connection, wire ID) under which the transport wrote each qname
	connByAddr := map[string][]int{} // normally one; the Dialer re-dials when the OS hands out a local address twice
	for _, ci := range snap.Conns {
		connByAddr[ci.Remote] = append(connByAddr[ci.Remote], ci.ID)
	}
	wroteAs := make(map[string][]c05Write, len(writes))
	wPerConn := map[string]map[uint16]int{}
	for _, w := range writes {
		wroteAs[w.Name] = append(wroteAs[w.Name], w)
		m := wPerConn[w.Local]
		if m == nil {
			m = map[uint16]int{}
			wPerConn[w.Local] = m
		}
		m[w.ID]++
	}
	evals := 0
	viol := func(sig, what string, w c05Witness) {
		w.Params = p
		if c.Seen(sig) {
			return
		}
		c.Violation(sig, what, w)
	}

	// R5
	for conn, m := range perConn {
		evals++
		var dups []uint16
		for id, idxs := range m {
			if len(idxs) > 1 {
				dups = append(dups, id)
			}
		}
		if len(dups) > 0 {
			sort.Slice(dups, func(i, j int) bool { return dups[i] < dups[j] })
			first := m[dups[0]]
			w := c05Witness{Rule: "R5", Conn: conn, DupIDs: dups}
			if len(dups) > 16 {
				w.DupIDs = dups[:16]
			}
			w.First = []scripted.Query{snap.Queries[first[0]], snap.Queries[first[1]]}
			viol("R5:wire-id-reused:"+p.Profile, fmt.Sprintf("connection %d of history %d received %d wire IDs more than once (first: id %d for %q at %v and for %q at %v)",
				conn, p.Idx, len(dups), dups[0], w.First[0].Name, w.First[0].T, w.First[1].Name, w.First[1].T), w)
		}
		cnt["connections"]++
		cnt["max_ids_on_one_connection"] = max(cnt["max_ids_on_one_connection"], int64(len(m)))
	}

	// R5 on the client side of the wire (covers queries the server never got to read)
	for local, m := range wPerConn {
		evals++
		for id, n := range m {
			if n > 1 {
				var two []c05Write
				for _, w := range writes {
					if w.Local == local && w.ID == id {
						two = append(two, w)
					}
				}
				viol("R5:wire-id-reused:"+p.Profile, fmt.Sprintf("history %d: the transport wrote wire ID %d %d times on the connection from %s (first for %q, then for %q)", p.Idx, id, n, local, two[0].Name, two[1].Name),
					c05Witness{Rule: "R5", Conn: c05First(connByAddr[local]), DupIDs: []uint16{id}, Written: two})
				break
			}
		}
	}

	// reordering observed on the wire: a reply sent after a reply to a later query of the same connection
	reordered := map[uint64]bool{}
	maxCS := map[int]int{}
	repliesOf := make(map[int][]int, len(snap.Replies)) // query seq -> reply indexes
	eventful := false
	for i := range snap.Replies {
		r := &snap.Replies[i]
		if r.Query < 0 {
			eventful = true
			continue
		}
		repliesOf[r.Query] = append(repliesOf[r.Query], i)
		cs := snap.Queries[r.Query].ConnSeq
		if prev, ok := maxCS[r.Conn]; ok && cs < prev {
			cnt["replies_sent_out_of_query_order"]++
			reordered[r.Nonce] = true
			eventful = true
		} else {
			maxCS[r.Conn] = cs
		}
	}

	returnedBy := map[uint64]*c05Ex{}
	for _, ex := range exs {
		evals++
		cnt["exchanges:"+ex.ErrClass]++
		cnt["cell:"+ex.Beh+"/"+ex.ErrClass]++
		if ex.Beh == "dup" || ex.Beh == "late-cancel" {
			eventful = true
		}
		late := false
		if !ex.Returned {
			// R6: nothing owed. Evidence: did the server's reply exist before / after the return?
			before, after := 0, 0
			for _, qi := range receipts[ex.Name] {
				for _, ri := range repliesOf[snap.Queries[qi].Seq] {
					if int64(snap.Replies[ri].T) > ex.TRet {
						after++
					} else {
						before++
					}
				}
			}
			switch {
			case after > 0:
				cnt["gave_up_then_reply_arrived_late"]++
				late = true
			case before > 0:
				cnt["gave_up_although_reply_was_sent"]++
			default:
				cnt["gave_up_no_reply_sent"]++
			}
			c.Ev.Distinct(p.Framing, p.MaxConc, p.Conc, ex.Beh, ex.ErrClass, late)
			continue
		}
		if ex.CancelUs >= 0 {
			cnt["cancel_armed_but_reply_won"]++
		}
		rcp := make([]scripted.Query, 0, 2)
		for _, qi := range receipts[ex.Name] {
			rcp = append(rcp, snap.Queries[qi])
		}
		if len(rcp) > 1 {
			cnt["exchange_retried_on_another_connection"]++
		}
		// R1
		if !ex.HasNonce {
			viol("R1:no-nonce", fmt.Sprintf("history %d exchange %q returned a message without a server nonce", p.Idx, ex.Name), c05Witness{Rule: "R1", Exchange: ex, Receipts: rcp})
			continue
		}
		r := byNonce[ex.Nonce]
		if r == nil {
			viol("R1:unknown-nonce", fmt.Sprintf("history %d exchange %q returned nonce %d which this server never sent", p.Idx, ex.Name, ex.Nonce), c05Witness{Rule: "R1", Exchange: ex, Receipts: rcp})
			continue
		}
		// R2
		okR2 := false
		for _, q := range rcp {
			if q.Conn == r.Conn && q.ID == r.ID {
				okR2 = true
			}
		}
		wr := wroteAs[ex.Name]
		if !okR2 {
			// the server may never have read this query (connection reset, datagram lost): the transport's own writes count too
			for _, w := range wr {
				for _, cn := range connByAddr[w.Local] {
					if cn == r.Conn && w.ID == r.ID && !okR2 {
						okR2 = true
						cnt["returned_reply_matched_a_query_the_server_never_read"]++
					}
				}
			}
		}
		if !okR2 {
			viol("R2:foreign-reply:"+r.Kind, fmt.Sprintf("history %d exchange %q (caller id %d) got server reply nonce %d kind %s sent on conn %d with wire id %d, but its query was received as %s and written as %s",
				p.Idx, ex.Name, ex.CallerID, r.Nonce, r.Kind, r.Conn, r.ID, c05Rcp(rcp), c05Wr(wr, connByAddr)), c05Witness{Rule: "R2", Exchange: ex, Reply: r, Receipts: rcp, Written: wr})
		}
		// R3
		if ex.GotID != ex.CallerID {
			viol("R3:caller-id-not-restored", fmt.Sprintf("history %d exchange %q: caller id %d, returned id %d (wire id %d)", p.Idx, ex.Name, ex.CallerID, ex.GotID, r.ID),
				c05Witness{Rule: "R3", Exchange: ex, Reply: r, Receipts: rcp})
		}
		// R4
		if o := returnedBy[ex.Nonce]; o != nil {
			viol("R4:reply-returned-twice:"+r.Kind, fmt.Sprintf("history %d: server reply nonce %d (kind %s, conn %d, wire id %d) was returned to %q and to %q", p.Idx, r.Nonce, r.Kind, r.Conn, r.ID, o.Name, ex.Name),
				c05Witness{Rule: "R4", Exchange: ex, Other: o, Reply: r, Receipts: rcp})
		} else {
			returnedBy[ex.Nonce] = ex
		}
		cnt["returned_reply_kind:"+r.Kind]++
		if r.Query < 0 {
			cnt["returned_an_unsolicited_reply_whose_id_matched_the_assigned_wire_id"]++
		}
		if reordered[ex.Nonce] {
			cnt["returned_reply_was_sent_out_of_query_order"]++
		}
		c.Ev.Distinct(p.Framing, p.MaxConc, p.Conc, ex.Beh, r.Kind, reordered[ex.Nonce])
	}
	if eventful {
		// the server-side event order of this history
		b := make([]byte, 0, 8*len(snap.Replies)+16)
		b = append(b, fmt.Sprintf("%s/%d/%d:", p.Framing, p.MaxConc, p.Conc)...)
		for i := range snap.Replies {
			r := &snap.Replies[i]
			b = append(b, byte(r.Conn), byte(r.ID>>8), byte(r.ID), byte(r.Query>>8), byte(r.Query))
		}
		c.Ev.DistinctBytes(b)
		cnt["histories_with_reorder_dup_unsolicited_or_late"]++
	}
	cnt["histories"]++
	cnt["histories:"+p.Framing]++
	cnt[fmt.Sprintf("histories:maxconc=%d", p.MaxConc)]++
	cnt["server_bad_frames_in"] += int64(snap.BadFrames)
	for _, ci := range snap.Conns {
		if ci.End != "" && ci.End != "peer" && ci.End != "server-close" {
			cnt["connections_ended:"+ci.End]++
		}
	}
	mx := cnt["max_ids_on_one_connection"]
	delete(cnt, "max_ids_on_one_connection")
	c.Ev.Eval(evals)
	for k, v := range cnt {
		c.Ev.Count(k, v)
	}
	for {
		cur := c05MaxIDs.Load()
		if mx <= cur || c05MaxIDs.CompareAndSwap(cur, mx) {
			break
		}
	}
	if sample {
		ok, errs := 0, 0
		for _, ex := range exs {
			if ex.Returned {
				ok++
			} else {
				errs++
			}
		}
		c.Ev.Sample(map[string]any{"params": p, "returned": ok, "errors": errs, "server_queries": len(snap.Queries), "server_replies": len(snap.Replies), "connections": len(snap.Conns)})
	}
}

func c05First(ids []int) int {
	if len(ids) == 0 {
		return -1
	}
	return ids[0]
}

func c05Wr(wr []c05Write, connByAddr map[string][]int) string {
	s := ""
	for _, w := range wr {
		s += fmt.Sprintf("(conn %d, wire id %d) ", c05First(connByAddr[w.Local]), w.ID)
	}
	if s == "" {
		return "never"
	}
	return s
}

func c05Rcp(rcp []scripted.Query) string {
	s := ""
	for _, q := range rcp {
		s += fmt.Sprintf("(conn %d, wire id %d) ", q.Conn, q.ID)
	}
	if s == "" {
		return "never"
	}
	return s
}

// c05Exhaust: 70 000 sequential + 70 000 concurrent exchanges through ONE
// transport against an instant echo server.
func c05Exhaust(c *Ctx, framing string) {
	p := c05Params{Idx: -1, Framing: framing, MaxConc: 4096, Conc: 64, NEx: 210000, Profile: "exhaustion"}
	if framing == "udp" {
		p.Conc = 24 // paced: loopback UDP drops under bursts
	}
	const boundary = 65536 - 8
	// instant echo, except for the burst at the ID boundary: those replies are held for 30 ms so that
	// the exchanges owning the last wire IDs are still outstanding while the others look for an ID
	srv, tr, d, wl, err := c05Setup(framing, p.MaxConc, func(q *scripted.Query) scripted.Action {
		var i int
		if _, e := fmt.Sscanf(q.Name, "x%d.", &i); e == nil && i >= boundary && i < boundary+64 {
			return scripted.Action{Tag: "echo-held", Delay: 30 * time.Millisecond}
		}
		return scripted.Action{Tag: "echo"}
	})
	if err != nil {
		c.Inconclusive("C05 exhaustion setup: " + err.Error())
		return
	}
	defer srv.Close()
	defer tr.Close()
	const nSeq, nPar = 70000, 140000 // the concurrent phase alone exceeds what the connections open at its start have left
	exs := make([]*c05Ex, nSeq+nPar)
	r := gen.New(c.Seed, "c05-exhaust-"+framing, 0)
	for i := range exs {
		exs[i] = &c05Ex{I: i, Name: fmt.Sprintf("x%d.%s.c05.test.", i, framing), CallerID: uint16(r.Intn(65536)), CancelUs: -1, Beh: "echo", Deadline: 3000, done: make(chan struct{})}
		if framing == "udp" {
			exs[i].Deadline = 400
		}
	}
	start := time.Now()
	// sequential up to 8 IDs before the first connection runs out of wire IDs, then a burst of 64
	// callers released at once (they race for the last IDs: the losers must move to a new
	// connection, never get a wrapped ID), then the rest of the sequential phase
	for i := 0; i < boundary; i++ {
		c05Do(tr, exs[i])
	}
	{
		var bw sync.WaitGroup
		gate := make(chan struct{})
		for i := boundary; i < boundary+64; i++ {
			bw.Add(1)
			go func(i int) {
				defer bw.Done()
				<-gate
				c05Do(tr, exs[i])
			}(i)
		}
		// a caller may be descheduled between being handed the pooled connection and taking its wire
		// id: make that likely during the burst (hook H6)
		verifhook.Set("pipeline.exchange", "sleep(2ms,60.0%)")
		close(gate)
		bw.Wait()
		verifhook.Set("pipeline.exchange", "off")
	}
	for i := boundary + 64; i < nSeq; i++ {
		c05Do(tr, exs[i])
	}
	seqDials := d.Dials()
	seqWall := time.Since(start).Seconds()
	seqSnap := srv.Snapshot()
	var next atomic.Int64
	next.Store(nSeq)
	var wg sync.WaitGroup
	for w := 0; w < p.Conc; w++ {
		wg.Add(1)
		go func() {
			defer wg.Done()
			for {
				i := int(next.Add(1) - 1)
				if i >= len(exs) {
					return
				}
				c05Do(tr, exs[i])
			}
		}()
	}
	wg.Wait()
	time.Sleep(5 * time.Millisecond)
	snap := srv.Snapshot()

	// evidence specific to exhaustion: the sequential phase on its own
	perConn := map[int]int{}
	order := []int{}
	for i := range seqSnap.Queries {
		q := &seqSnap.Queries[i]
		if perConn[q.Conn] == 0 {
			order = append(order, q.Conn)
		}
		perConn[q.Conn]++
	}
	ids := []int{}
	for _, cn := range order {
		ids = append(ids, perConn[cn])
	}
	finalPer := map[int]int{}
	for i := range snap.Queries {
		finalPer[snap.Queries[i].Conn]++
	}
	fin := []int{}
	for cn := 0; cn < len(snap.Conns); cn++ {
		fin = append(fin, finalPer[cn])
	}
	c.Ev.Set("exhaustion_"+framing, map[string]any{
		"sequential_exchanges": nSeq, "concurrent_exchanges": nPar, "concurrent_callers": p.Conc,
		"queries_per_connection_after_sequential_phase": ids, "dials_after_sequential_phase": seqDials,
		"queries_per_connection_final": fin, "dials_final": d.Dials(), "sequential_wall_s": seqWall, "wall_s": time.Since(start).Seconds(),
	})
	if len(ids) > 0 {
		c.Ev.Count("exhaustion_first_connection_ids:"+framing, int64(ids[0]))
	}
	c05Judge(c, p, exs, snap, wl.snapshot(), false)
}
