package main

// C09 end-to-end part: large keyed answers fetched over every listener; every datagram / frame /
// body is checked against the transport's size limit and the upstream's original.

import (
	"encoding/hex"
	"fmt"
	"strings"
	"time"

	"github.com/IrineSistiana/mosproxy/verif/internal/dnsclient"
	"github.com/IrineSistiana/mosproxy/verif/internal/fakeup"
	"github.com/IrineSistiana/mosproxy/verif/internal/gen"
	"github.com/miekg/dns"
)

func c09E2E(c *Ctx) {
	b, err := NewBed(c, "sizes", BedOpts{Upstreams: []string{"pipe", "dohs"}})
	if err != nil {
		c.startFailure(err, "c09-e2e")
		return
	}
	defer func() {
		alive := b.Proxy.Alive()
		res := b.Stop()
		if !alive {
			c.Violation("proxy-died", "the proxy died in the size scenario: "+res.Panic, map[string]any{"panic": res.Panic})
		}
	}()
	bigs := []int{300, 480, 520, 700, 1150, 1250, 1300, 2000, 4000, 4200, 9000, 30000, 60000}
	adv := []int{-1, 0, 100, 512, 513, 1200, 1232, 4096, 65535} // -1 = no OPT
	n := c.N(400, 6000)
	parallelFor(n, 12, func() bool { return c.ViolationCount() >= 10 || !b.Proxy.Alive() }, func(i int) {
		r := gen.New(c.Seed, "c09e2e", i)
		listener := allListeners[(i/2)%len(allListeners)]
		if i%2 == 0 {
			listener = "udp" // half of the probes on UDP, where the limit varies
		}
		up := gen.Pick(r, []string{"pipe", "dohs"})
		big := gen.Pick(r, bigs)
		name := fmt.Sprintf("ok-n%d-big%d-s%dx%d.%s.test.", r.Range(1, 8), big, i, c.Seed, up)
		if i%10 == 7 { // fits 65535 only with full name compression: the proxy has to truncate when re-encoding
			name = fmt.Sprintf("ok-n1-deep%d-s%dx%d.%s.test.", r.Range(1200, 2500), i, c.Seed, up)
		}
		qt := gen.Pick(r, []uint16{dns.TypeA, dns.TypeTXT, dns.TypeMX})
		a := gen.Pick(r, adv)
		if i%20 == 13 {
			// a response whose uncompressed encoding has 65508..65535 octets - beyond what a UDP datagram
			// could carry, still within the 65535 of the DoH body and the framed transports - to a client
			// without EDNS0 (nothing is added): nothing may be omitted
			listener = []string{"http", "fasthttp", "https", "tcp", "tls", "quic"}[(i/20)%6]
			up, a = "pipe", -1
			name = fmt.Sprintf("ok-n1-uexact%d-s%dx%d.pipe.test.", 65508+(i/20*5)%28, i, c.Seed)
			if (i/120)%2 == 0 {
				// ... made of a single record (a 64 KiB TXT RRset of one record): name compression saves
				// nothing, the compressed encoding is as long as the uncompressed one
				name = fmt.Sprintf("ok-n0-fat-uexact%d-s%dx%d.pipe.test.", 65508+(i/20*5)%28, i, c.Seed)
			}
		}
		q := new(dns.Msg)
		q.Id = uint16(r.Intn(65536))
		q.RecursionDesired = true
		q.Question = []dns.Question{{Name: name, Qtype: qt, Qclass: dns.ClassINET}}
		if a >= 0 {
			q.SetEdns0(uint16(a), false)
		}
		wire, _ := q.Pack()
		x := b.Exchange(listener, wire, xOpts{Timeout: 10 * time.Second})
		c.Ev.Eval(1)
		if x.Err != nil || (x.Status != 0 && x.Status != 200) {
			c.Inconclusive(fmt.Sprintf("no response on %s: %v", listener, x.Err))
			return
		}
		limit := 65535
		if listener == "udp" {
			limit = 512
			if a > 512 {
				limit = a
			}
		}
		cs := map[string]any{"listener": listener, "upstream": up, "name": name, "qtype": qt, "advertised": a, "limit": limit, "response_len": len(x.Resp)}
		if len(x.Resp) > limit {
			c.Violation("e2e:over-limit:"+listener, fmt.Sprintf("%s response of %d bytes exceeds the limit %d (advertised %d)", listener, len(x.Resp), limit, a), cs)
			return
		}
		m := new(dns.Msg)
		if err := m.Unpack(x.Resp); err != nil {
			c.Violation("e2e:undecodable:"+listener, fmt.Sprintf("%s response of %d bytes (limit %d) does not decode: %v", listener, len(x.Resp), limit, err), cs)
			return
		}
		if m.Rcode == dns.RcodeServerFailure {
			c.Inconclusive("SERVFAIL for " + name)
			return
		}
		if len(m.Question) != 1 || !strings.EqualFold(m.Question[0].Name, name) {
			c.Violation("e2e:question-lost:"+listener, "the response does not carry the question", cs)
			return
		}
		if (a >= 0) != (m.IsEdns0() != nil) {
			c.Violation("e2e:opt-lost:"+listener, fmt.Sprintf("query had OPT: %v, response has OPT: %v (truncated: %v)", a >= 0, m.IsEdns0() != nil, m.Truncated), cs)
			return
		}
		if _, err := CheckKeyed(q.Question[0], up, m); err != nil { // handles truncated responses (in-order subsequence)
			c.Violation("e2e:records-changed:"+listener, err.Error(), cs)
			return
		}
		// the full response as the upstream sent it
		first := dns.SplitDomainName(strings.ToLower(name))[0]
		meta, _ := fakeup.FindMeta(m)
		full := fakeup.BuildReply(strings.ToLower(name), qt, dns.ClassINET, up, meta.Serial, fakeup.ParseDirectives(first))
		if a >= 0 {
			full.SetEdns0(1200, false)
		}
		full.Compress = false
		fullLen := full.Len()
		omitted := len(m.Answer) < len(full.Answer) || len(m.Ns) < len(full.Ns) || len(noOpt(m.Extra)) < len(noOpt(full.Extra))
		switch {
		case omitted && !m.Truncated:
			c.Violation("e2e:omitted-without-tc:"+listener, fmt.Sprintf("records were omitted (%d of %d answers) but TC is not set", len(m.Answer), len(full.Answer)), cs)
			return
		case fullLen <= limit && (omitted || m.Truncated):
			c.Violation("e2e:truncated-although-fits:"+listener, fmt.Sprintf("the uncompressed response is %d bytes and fits the limit %d, yet omitted=%v TC=%v", fullLen, limit, omitted, m.Truncated), cs)
			return
		}
		phase := "complete"
		if omitted {
			phase = "truncated"
		}
		c.Ev.Distinct("e2e", listener, big, a, phase)
		c.Ev.Count("e2e_"+listener+"_"+phase, 1)
		if i < 3 {
			c.Ev.Sample(map[string]any{"part": "e2e", "listener": listener, "name": name, "advertised": a, "limit": limit, "response_len": len(x.Resp), "full_uncompressed_len": fullLen, "truncated": omitted})
		}
	})
}

// c09Refused: the size limit also holds for the answers the proxy makes up itself. A client that
// the limiter refuses sends UDP queries with ten long questions (over 700 octets, no EDNS0): every
// response - REFUSED or NOTIMP - stays within 512 octets and decodes.
func c09Refused(c *Ctx) {
	b, err := NewBed(c, "refused", BedOpts{Upstreams: []string{"pipe"}, Listeners: []string{"udp", "tcp"}, Limiter: "  client:\n    limit: 1\n    burst: 2\n"})
	if err != nil {
		c.startFailure(err, "c09-refused")
		return
	}
	defer b.Stop()
	uc, err := dnsclient.DialUDP("", b.L["udp"])
	if err != nil {
		c.Inconclusive("dial: " + err.Error())
		return
	}
	defer uc.Close()
	for k := 0; k < 12; k++ {
		q := new(dns.Msg)
		q.Id = uint16(100 + k)
		q.RecursionDesired = true
		for j := 0; j < 10; j++ {
			q.Question = append(q.Question, dns.Question{Name: fmt.Sprintf("q%d-%s.%s.pipe.test.", j, strings.Repeat("a", 50), strings.Repeat(string(rune('b'+j)), 10)), Qtype: dns.TypeA, Qclass: dns.ClassINET})
		}
		if k%3 == 2 {
			q.SetEdns0(600, false)
		}
		wire, err := q.Pack()
		if err != nil {
			c.Inconclusive("pack: " + err.Error())
			return
		}
		uc.Send(wire)
		time.Sleep(20 * time.Millisecond)
	}
	time.Sleep(500 * time.Millisecond)
	refused := 0
	for _, p := range uc.Received() {
		c.Ev.Eval(1)
		m := new(dns.Msg)
		limit := 512
		if len(p.Data) >= 2 && (int(p.Data[0])<<8|int(p.Data[1])-100)%3 == 2 {
			limit = 600
		}
		cs := map[string]any{"response_len": len(p.Data), "limit": limit, "response_hex": hex.EncodeToString(p.Data[:min(len(p.Data), 120)])}
		switch {
		case len(p.Data) > limit:
			rc := -1
			if len(p.Data) > 3 {
				rc = int(p.Data[3] & 0xF)
			}
			c.Violation("e2e:over-limit:udp:made-up-response", fmt.Sprintf("a %d-octet UDP response (rcode %d) to a query with ten questions from a client the limiter refuses; the limit is %d", len(p.Data), rc, limit), cs)
			return
		case m.Unpack(p.Data) != nil:
			c.Violation("e2e:undecodable:udp:made-up-response", "the made-up response does not decode", cs)
			return
		}
		if m.Rcode == dns.RcodeRefused {
			refused++
		}
		c.Ev.Distinct("e2e", "made-up-response", m.Rcode, limit)
	}
	c.Ev.Count("e2e_made_up_responses_refused", int64(refused))
	if refused == 0 {
		c.Inconclusive("refused scenario: the limiter never refused")
	}
	// queries that arrive with the TC bit set (legal on the wire, if unusual) and are answered with a
	// locally made response - NOTIMP (RD clear, opcode other than QUERY, two questions), REFUSED by
	// the limiter - or forwarded: the response is a few dozen octets, nothing was omitted, so it must
	// not say "truncated"
	time.Sleep(2200 * time.Millisecond) // the tiny bucket refills
	for k, kind := range []string{"rd0", "opcode2", "two-questions", "forwarded", "limited", "limited", "limited"} {
		q := new(dns.Msg)
		q.Id = uint16(300 + k)
		q.RecursionDesired = kind != "rd0"
		q.Truncated = true
		q.Question = []dns.Question{{Name: fmt.Sprintf("ok-tcq%d.pipe.test.", k), Qtype: dns.TypeA, Qclass: dns.ClassINET}}
		if kind == "opcode2" {
			q.Opcode = dns.OpcodeStatus
		}
		if kind == "two-questions" {
			q.Question = append(q.Question, dns.Question{Name: "second.pipe.test.", Qtype: dns.TypeA, Qclass: dns.ClassINET})
		}
		wire, _ := q.Pack()
		listener := []string{"udp", "tcp"}[k%2]
		x := b.Exchange(listener, wire, xOpts{Timeout: 4 * time.Second})
		c.Ev.Eval(1)
		m := new(dns.Msg)
		if x.Err != nil || m.Unpack(x.Resp) != nil {
			continue
		}
		if m.Truncated && len(x.Resp) < 400 {
			c.Violation("e2e:tc-without-omission:tc-set-in-query", fmt.Sprintf("%s listener, query of kind %q that arrived with the TC bit set: the %d-octet response (rcode %d, %d answers) has TC set although nothing had to be omitted", listener, kind, len(x.Resp), m.Rcode, len(m.Answer)),
				map[string]any{"listener": listener, "kind": kind, "response_hex": hex.EncodeToString(x.Resp[:min(len(x.Resp), 120)])})
			return
		}
		c.Ev.Distinct("e2e", "tc-in-query", kind, listener, m.Rcode)
		c.Ev.Count("e2e_tc_marked_queries_answered_without_tc", 1)
	}
}
