package main

// C15 — rate limiting is a per-client-subnet token bucket isolating clients.

func init() {
	register(&Check{ID: "C15", Level: "exploration", Rule: c15RuleText + " | E2E: flooders and a quiet victim on separate subnets against the real binary (REFUSED/503, never forwarded, victim answered)",
		Run: func(c *Ctx) {
			c15InProcess(c)
			c15E2E(c)
		}})
}
