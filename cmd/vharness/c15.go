package main

// C15 — rate limiting is a per-client-subnet token bucket isolating clients.

func init() {
	register(&Check{ID: "C15", Level: "exploration", Rule: c15RuleText + " | E2E: flooders and a quiet victim on separate subnets against the real binary (REFUSED/503, never forwarded, victim answered), pipelined floods of 80 queries on one tcp / gnet / tls connection (every query answered with a well-formed frame, served or REFUSED, bucket respected); the in-process histories contain passes of the limiter's garbage collector (hook H7)",
		Run: func(c *Ctx) {
			c15InProcess(c)
			c15E2E(c)
		}})
}
