package main

// C15 — rate limiting is a per-client-subnet token bucket isolating clients.

func init() {
	register(&Check{ID: "C15", Level: "exploration", Rule: c15RuleText + " | E2E: flooders and a quiet victim on separate subnets against the real binary (REFUSED/503, never forwarded, victim answered), pipelined floods of 80 queries on one tcp / gnet / tls connection (every query answered with a well-formed frame, served or REFUSED, bucket respected), a subnet that has spent its burst and asks again after 20 000 - 70 000 other subnets were seen once each, fresh subnets after a gc pass has removed fifty spent buckets of a slow-refill configuration (both in-process), a quiet subnet that is refused for the global limit while sixty other subnets flood and must be served once the flood has stopped (its own bucket was never used), a subnet whose queries must still be served after sixty DoH requests of unknown origin (client address header configured, request without it); the in-process histories contain passes of the limiter's garbage collector (hook H7)",
		Run: func(c *Ctx) {
			c15InProcess(c)
			c15E2E(c)
			c15E2EGlobal(c)
			c15E2ENoAddress(c)
		}})
}
