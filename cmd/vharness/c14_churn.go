package main

// C14, two further parts:
//
// churn    - connection churn under load. The server closes every connection (FIN, RST or a half close) right
//            after the reply to its K-th query (K = 40..80), while 12 callers keep exchanging.
//            Whoever dialled a connection has long been served when it is killed, so every exchange
//            hit by a kill is on a connection reused from the pool, the server is healthy, and the
//            retry lands on a connection that lives for another 40+ queries: every exchange must
//            succeed, in time. On the pipelined transports every other reply is followed by an
//            unsolicited reply carrying an id that was already answered (to be ignored). (Judged: exchanges that fail although the transport retried them - the
//            error lists several attempts. A single-attempt failure means the transport took the
//            connection for freshly dialled, which a starved caller can legitimately run into.)
// fallback - the TCP leg of a UDP upstream (UDP reply with TC=1) against a TCP side that stays
//            silent, sends garbage, closes or answers too late, with caller deadlines of 0.3-0.9 s:
//            the exchange returns by its deadline plus slack.

import (
	"context"
	"fmt"
	"net"
	"strings"
	"sync"
	"sync/atomic"
	"time"

	"github.com/IrineSistiana/mosproxy/internal/dnsmsg"
	"github.com/IrineSistiana/mosproxy/internal/upstream/transport"
	"github.com/IrineSistiana/mosproxy/verif/internal/gen"
	"github.com/IrineSistiana/mosproxy/verif/internal/scripted"
)

type c14ChurnRec struct {
	Attempts int    `json:"attempts_reported_in_the_error"`
	Name     string `json:"qname"`
	TookMs   int64  `json:"took_ms"`
	ErrClass string `json:"result"`
	Err      string `json:"err,omitempty"`
}

type c14ChurnRun struct {
	Transport string        `json:"transport"`
	Exchanges int           `json:"exchanges"`
	Kills     int           `json:"connections_killed_by_server"`
	Accepts   int           `json:"connections_accepted"`
	Failed    []c14ChurnRec `json:"failed_after_retries"`
	FreshFail int           `json:"failed_without_retry"`
	Late      []c14ChurnRec `json:"late"`
	Setup     string        `json:"setup_error,omitempty"`
}

func c14ChurnOnce(seed int64, tname string, workers, per int) *c14ChurnRun {
	run := &c14ChurnRun{Transport: tname}
	slowClose := tname == "ctor-pipeline-slowclose"
	if slowClose {
		tname = "ctor-pipeline"
	}
	b, err := c14NewBackend(tname, "server")
	if err != nil {
		run.Setup = err.Error()
		return run
	}
	defer b.close()
	var kills atomic.Int64
	pipelined := strings.Contains(tname, "pipeline")
	b.setScript(func(q *scripted.Query) scripted.Action {
		k := 40 + (q.Conn*37+int(seed))%41
		if q.ConnSeq == k {
			kills.Add(1)
			end := []scripted.EndKind{scripted.EndFIN, scripted.EndRST, scripted.EndHalfClose}[q.Conn%3]
			return scripted.Action{Tag: "reply-then-kill", End: end}
		}
		if strings.HasPrefix(q.Name, "churnbig") {
			// a reply larger than any buffered reader's buffer (1.5-4 kB), on whatever connection the
			// query arrives
			return scripted.Action{Tag: "echo-big", PadTo: 1500 + (q.Conn*131+q.ConnSeq*17)%2500}
		}
		if pipelined && q.ConnSeq%2 == 1 {
			// a duplicate-looking reply for an id that was already answered on this connection: nobody
			// waits for it, the transport must drop it - while other callers enter and leave the
			// connection's table of waiting exchanges
			return scripted.Action{Tag: "echo", After: []scripted.Extra{{Kind: scripted.ExtraUnsolicited, IDMode: scripted.IDAnswered}}}
		}
		return scripted.Action{Tag: "echo"}
	})
	tr, err := b.newTransport()
	if slowClose {
		// a connection whose Close takes a while (TLS close_notify towards a congested peer, a
		// wrapped connection): everything the transport does while Close is running is visible
		tr = transport.NewPipelineTransport(transport.PipelineOpts{IsTCP: true, MaxConcurrentQuery: 64,
			DialContext: func(ctx context.Context) (net.Conn, error) {
				c, err := b.dialer.DialContext(ctx)
				if err != nil {
					return nil, err
				}
				return &c14SlowCloseConn{Conn: c}, nil
			}})
	}
	if err != nil {
		run.Setup = err.Error()
		return run
	}
	defer c14CloseGuarded(tr)
	var mu sync.Mutex
	var seq atomic.Int64
	var stop atomic.Bool
	one := func() {
		n := seq.Add(1)
		name := fmt.Sprintf("churn%d.%s.c14.test.", n, tname)
		if n%5 == 3 {
			name = "churnbig" + name[5:]
		}
		q := scripted.BuildQuery(uint16(n*31+7), name, 1, 1)
		const deadline = 3 * time.Second
		ctx, cancel := context.WithTimeout(context.Background(), deadline)
		t0 := time.Now()
		m, err := c14Guarded(tr, ctx, q, deadline+c14GiveUp)
		took := time.Since(t0)
		cancel()
		if m != nil {
			dnsmsg.ReleaseMsg(m)
		}
		rec := c14ChurnRec{Name: name, TookMs: took.Milliseconds(), ErrClass: upErrClass(err), Err: upShort(err), Attempts: 1}
		if j, ok := err.(interface{ Unwrap() []error }); ok {
			rec.Attempts = len(j.Unwrap())
		}
		mu.Lock()
		run.Exchanges++
		switch {
		case err == nil:
		case rec.Attempts >= 2 || m != nil:
			// retried and still failed - or a reply was obtained (m != nil) and an error is reported all the same
			if m != nil {
				rec.Err = "a reply was returned together with this error: " + rec.Err
			}
			run.Failed = append(run.Failed, rec)
		default:
			// one attempt, no retry: the transport regarded the connection as freshly dialled for this
			// exchange (every exchange that waited for the same dial does). A starved caller can write
			// its first query after its fellow callers have worn the connection out; reporting that
			// failure instead of retrying is what the property allows.
			run.FreshFail++
		}
		if took > deadline+c14Slack {
			run.Late = append(run.Late, rec)
			if len(run.Late) >= 6 {
				stop.Store(true) // a frozen transport: every further exchange would take the watchdog's limit
			}
		}
		mu.Unlock()
	}
	one() // warm-up: the pool has a connection before the callers start
	var wg sync.WaitGroup
	for w := 0; w < workers; w++ {
		wg.Add(1)
		go func() {
			defer wg.Done()
			for i := 0; i < per && !stop.Load(); i++ {
				one()
			}
		}()
	}
	wg.Wait()
	run.Kills = int(kills.Load())
	if b.srv != nil {
		run.Accepts = b.srv.Accepts()
	}
	return run
}

// c14Guarded runs one exchange and gives up on it after limit: an exchange that does not come
// back at all (a transport frozen on a lock that ignores the context) is reported as an error the
// caller sees long after its deadline, it does not hang the check.
func c14Guarded(tr transport.Transport, ctx context.Context, q []byte, limit time.Duration) (*dnsmsg.Msg, error) {
	type out struct {
		m   *dnsmsg.Msg
		err error
	}
	ch := make(chan out, 1)
	go func() {
		m, err := tr.ExchangeContext(ctx, q)
		ch <- out{m, err}
	}()
	select {
	case o := <-ch:
		return o.m, o.err
	case <-time.After(limit):
		return nil, fmt.Errorf("no return %v after the call; exchange abandoned by the harness", limit)
	}
}

// c14CloseGuarded closes a transport without waiting for more than 3 s (a frozen transport may
// never return from Close; that is C18's subject, here it must not hang the check).
func c14CloseGuarded(tr transport.Transport) {
	done := make(chan struct{})
	go func() { tr.Close(); close(done) }()
	select {
	case <-done:
	case <-time.After(3 * time.Second):
	}
}

type c14SlowCloseConn struct {
	net.Conn
	once  sync.Once
	delay time.Duration // 0 = 25 ms
}

func (c *c14SlowCloseConn) Close() (err error) {
	c.once.Do(func() {
		if c.delay > 0 {
			time.Sleep(c.delay)
		} else {
			time.Sleep(25 * time.Millisecond)
		}
		err = c.Conn.Close()
	})
	return err
}

func c14Churn(c *Ctx) {
	workers, per := 12, c.N(120, 600)
	for ti, tname := range []string{"tcp+pipeline", "tls+pipeline", "tcp", "tls", "ctor-pipeline", "ctor-reuse", "ctor-pipeline-slowclose"} {
		if c.Seen("churn:failed-on-reused-connection:"+tname) || c.Seen("churn:late-return:"+tname) {
			continue
		}
		run := c14ChurnOnce(c.Seed+int64(ti), tname, workers, per)
		if run.Setup != "" {
			c.Inconclusive("churn setup " + tname + ": " + run.Setup)
			continue
		}
		c.Ev.Eval(run.Exchanges)
		c.Ev.Count("churn_exchanges:"+tname, int64(run.Exchanges))
		c.Ev.Count("churn_connections_killed_by_server:"+tname, int64(run.Kills))
		c.Ev.Count("churn_connections_accepted:"+tname, int64(run.Accepts))
		c.Ev.Count("churn_failures_without_retry_not_judged:"+tname, int64(run.FreshFail))
		if run.Kills == 0 && len(run.Late) == 0 && len(run.Failed) == 0 { // (a transport that froze, or failed healthy exchanges, before the first kill is judged by those)
			c.Inconclusive("churn " + tname + ": the server never killed a connection")
			continue
		}
		if len(run.Failed) == 0 && len(run.Late) == 0 {
			c.Ev.Distinct("churn", tname, run.Kills > 10)
			continue
		}
		// confirmation on a fresh server and transport: the schedule differs, the claim does not
		// (up to three: a frozen transport needs its own unlucky interleaving in every run)
		var again *c14ChurnRun
		for k := 0; k < 3; k++ {
			again = c14ChurnOnce(c.Seed+int64(ti)+1000*int64(k+1), tname, workers, per)
			c.Ev.Count("churn_confirmation_runs", 1)
			if (len(run.Failed) > 0 && len(again.Failed) > 0) || (len(run.Late) > 0 && len(again.Late) > 0) {
				break
			}
		}
		switch {
		case len(run.Failed) > 0 && len(again.Failed) > 0:
			f := run.Failed[0]
			c.Violation("churn:failed-on-reused-connection:"+tname, fmt.Sprintf("%s: %d of %d exchanges failed after the transport had retried them (first: %q after %d ms: %s %s) while the server only ever closed connections that had served 40+ queries (%d kills) and stayed reachable; every exchange hit by a kill was on a reused connection and must be retried; a second run on a fresh server failed %d of %d",
				tname, len(run.Failed), run.Exchanges, f.Name, f.TookMs, f.ErrClass, f.Err, run.Kills, len(again.Failed), again.Exchanges), map[string]any{"run": run, "confirmation": again})
		case len(run.Late) > 0 && len(again.Late) > 0:
			f := run.Late[0]
			c.Violation("churn:late-return:"+tname, fmt.Sprintf("%s: %d exchanges returned more than %v after their 3 s deadline under connection churn (first: %q after %d ms)", tname, len(run.Late), c14Slack, f.Name, f.TookMs), map[string]any{"run": run, "confirmation": again})
		default:
			c.Inconclusive(fmt.Sprintf("churn %s: %d failed / %d late exchanges not reproduced on a second run", tname, len(run.Failed), len(run.Late)))
		}
	}
	c.Ev.Sample(map[string]any{"part": "churn", "callers": workers, "exchanges_per_caller": per, "kill_rule": "FIN/RST after the reply to the K-th query of a connection, K=40..80", "deadline_ms": 3000})
}

func c14Fallback(c *Ctx) {
	n := c.N(60, 900)
	kinds := []string{"silent", "garbage", "close", "slow", "silent", "refuse"}
	envs := map[string]*c16Env{}
	for _, g := range []string{"listen", "refuse"} {
		e, err := c16NewEnv(g)
		if err != nil {
			c.Inconclusive("fallback setup: " + err.Error())
			return
		}
		envs[g] = e
		defer e.close()
	}
	exs := make([]*c16Ex, n)
	for i := range exs {
		r := gen.New(c.Seed, "c14fallback", i)
		exs[i] = c16Gen(r, 500000+i, "tc", kinds[i%len(kinds)])
		exs[i].DeadMs = r.Range(300, 900)
	}
	var next atomic.Int64
	var wg sync.WaitGroup
	for w := 0; w < 8; w++ {
		wg.Add(1)
		go func() {
			defer wg.Done()
			for {
				i := int(next.Add(1) - 1)
				if i >= len(exs) {
					return
				}
				c16Do(envs[exs[i].Group], exs[i])
			}
		}()
	}
	wg.Wait()
	confirmations := 0
	for _, ex := range exs {
		c.Ev.Eval(1)
		late := time.Duration(ex.TRet-ex.TCall) - time.Duration(ex.DeadMs)*time.Millisecond
		sig := "T1:late-return:udp-fallback/tcp-" + ex.TCP
		if late <= c14Slack {
			c.Ev.Distinct("udp-fallback", ex.TCP, ex.ErrClass)
			c.Ev.Count("fallback_exchanges_in_time:tcp-"+ex.TCP, 1)
			continue
		}
		if c.Seen(sig) || confirmations >= 4 {
			continue
		}
		confirmations++
		repro := 0
		var lates []string
		for k := 0; k < 3; k++ {
			cp := *ex
			cp.Name = fmt.Sprintf("rerun%d.%s", k, ex.Name)
			c16Do(envs[cp.Group], &cp)
			l2 := time.Duration(cp.TRet-cp.TCall) - time.Duration(cp.DeadMs)*time.Millisecond
			lates = append(lates, l2.String())
			if l2 > c14Slack {
				repro++
			}
		}
		if repro == 3 {
			c.Violation(sig, fmt.Sprintf("udp upstream, UDP reply truncated, TCP side %s: exchange %q returned %v after its %d ms deadline (re-run alone three times: %v)", ex.TCP, ex.Name, late, ex.DeadMs, lates), map[string]any{"exchange": ex, "reruns_late_by": lates})
		} else {
			c.Inconclusive(fmt.Sprintf("fallback: late return (%v) not reproduced (%d/3)", late, repro))
		}
	}
	c.Ev.Sample(map[string]any{"part": "udp-fallback", "tcp_side": kinds, "deadline_ms": "300-900", "exchanges": n})
}

// c14Exhaust: a pipelined connection that has handed out all of its 65536 wire ids while its last
// queries are still waiting for their (slow) replies. New exchanges must move on to another
// connection and succeed; none of them has dialled the worn-out connection itself.
func c14Exhaust(c *Ctx) {
	for _, tname := range []string{"ctor-pipeline", "tls+pipeline"} {
		sig := "exhausted:failed-although-server-healthy:" + tname
		b, err := c14NewBackend(tname, "server")
		if err != nil {
			c.Inconclusive("exhaustion setup: " + err.Error())
			continue
		}
		b.setScript(func(q *scripted.Query) scripted.Action {
			if strings.HasPrefix(q.Name, "held") {
				return scripted.Action{Tag: "echo-held", Delay: 500 * time.Millisecond}
			}
			return scripted.Action{Tag: "echo"}
		})
		tr, err := b.newTransport()
		if err != nil {
			b.close()
			c.Inconclusive("exhaustion setup: " + err.Error())
			continue
		}
		var seq atomic.Int64
		one := func(prefix string, deadline time.Duration) (time.Duration, error) {
			n := seq.Add(1)
			q := scripted.BuildQuery(uint16(n), fmt.Sprintf("%s%d.%s.c14.test.", prefix, n, tname), 1, 1)
			ctx, cancel := context.WithTimeout(context.Background(), deadline)
			defer cancel()
			t0 := time.Now()
			m, err := c14Guarded(tr, ctx, q, deadline+c14GiveUp)
			if m != nil {
				dnsmsg.ReleaseMsg(m)
			}
			return time.Since(t0), err
		}
		if _, err := one("warm", 3*time.Second); err != nil {
			c.Inconclusive("exhaustion: warm-up exchange failed: " + err.Error())
			c14CloseGuarded(tr)
			b.close()
			continue
		}
		const total = 65536
		var failed atomic.Int64
		var wg sync.WaitGroup
		var next atomic.Int64
		next.Store(1)
		for w := 0; w < 8; w++ {
			wg.Add(1)
			go func() {
				defer wg.Done()
				for next.Add(1) <= total-6 && failed.Load() == 0 {
					if _, err := one("run", 3*time.Second); err != nil {
						failed.Add(1)
					}
				}
			}()
		}
		wg.Wait()
		if failed.Load() > 0 || b.srv.Accepts() != 1 {
			c.Inconclusive(fmt.Sprintf("exhaustion %s: id run did not stay on one healthy connection (failed %d, connections %d)", tname, failed.Load(), b.srv.Accepts()))
			c14CloseGuarded(tr)
			b.close()
			continue
		}
		// the last ids go to slow queries; 50 ms later a batch of ordinary exchanges arrives
		type res struct {
			kind string
			d    time.Duration
			err  error
		}
		out := make(chan res, 64)
		for i := 0; i < 10; i++ {
			go func() { d, err := one("held", 3*time.Second); out <- res{"held", d, err} }()
		}
		time.Sleep(50 * time.Millisecond)
		for i := 0; i < 24; i++ {
			go func() { d, err := one("after", 3*time.Second); out <- res{"after", d, err} }()
			time.Sleep(2 * time.Millisecond)
		}
		var fails []string
		for i := 0; i < 34; i++ {
			r := <-out
			c.Ev.Eval(1)
			if r.err != nil {
				fails = append(fails, fmt.Sprintf("%s after %v: %s", r.kind, r.d, upShort(r.err)))
			}
		}
		conns := b.srv.Accepts()
		c14CloseGuarded(tr)
		b.close()
		c.Ev.Count("exhaustion_exchanges:"+tname, seq.Load())
		c.Ev.Count("exhaustion_connections:"+tname, int64(conns))
		if len(fails) > 0 {
			c.Violation(sig, fmt.Sprintf("%s: %d of 34 exchanges failed while the first connection had used up its 65536 wire ids and its last queries were still in flight (server healthy, %d connections accepted): %s", tname, len(fails), conns, strings.Join(fails[:min(len(fails), 3)], " | ")),
				map[string]any{"transport": tname, "failures": fails, "connections": conns})
			continue
		}
		c.Ev.Distinct("exhausted-connection", tname, conns >= 2)
	}
	c.Ev.Sample(map[string]any{"part": "id-exhaustion", "ids_used_before_the_batch": 65530, "slow_replies_ms": 500, "batch": "10 slow + 24 ordinary exchanges"})
}

// c14IdleEdge: pooled connections of the one-at-a-time transport reused at the very moment their
// idle timer fires. 24 callers exchange, pause for about the idle time-out (30 ms +- 5 ms) and
// exchange again, a few thousand times in all; the server is healthy and answers at once. Closing a
// connection takes 300 us (as a TLS close_notify does), so the timer's close and the next pick
// overlap often. Every exchange returns by its (2 s) deadline; nothing freezes.
func c14IdleEdge(c *Ctx) {
	const idle = 30 * time.Millisecond
	once := func(seed int64) (exchanges, late int, first string, setup error) {
		srv := scripted.NewServer(func(q *scripted.Query) scripted.Action { return scripted.Action{Tag: "echo", Leg: scripted.LegTCP} })
		l, err := net.Listen("tcp4", "127.0.0.1:0")
		if err != nil {
			return 0, 0, "", err
		}
		srv.ServeStream(l)
		defer srv.Close()
		d := &scripted.Dialer{Network: "tcp", Addr: l.Addr().String()}
		tr := transport.NewReuseConnTransport(transport.ReuseConnOpts{IdleTimeout: idle, DialContext: func(ctx context.Context) (net.Conn, error) {
			cn, err := d.DialContext(ctx)
			if err != nil {
				return nil, err
			}
			return &c14SlowCloseConn{Conn: cn, delay: 300 * time.Microsecond}, nil
		}})
		defer c14CloseGuarded(tr)
		var mu sync.Mutex
		var stop atomic.Bool
		var wg sync.WaitGroup
		per := c.N(150, 600)
		for w := 0; w < 24; w++ {
			wg.Add(1)
			go func(w int) {
				defer wg.Done()
				r := gen.New(seed, "c14idle", w)
				for i := 0; i < per && !stop.Load(); i++ {
					q := scripted.BuildQuery(uint16(w*1000+i), fmt.Sprintf("idle%d-%d.c14.test.", w, i), 1, 1)
					const deadline = 2 * time.Second
					ctx, cancel := context.WithTimeout(context.Background(), deadline)
					t0 := time.Now()
					m, _ := c14Guarded(tr, ctx, q, deadline+c14GiveUp)
					took := time.Since(t0)
					cancel()
					if m != nil {
						dnsmsg.ReleaseMsg(m)
					}
					mu.Lock()
					exchanges++
					if took > deadline+c14Slack {
						late++
						if first == "" {
							first = fmt.Sprintf("caller %d exchange %d returned after %v", w, i, took)
						}
						if late >= 4 {
							stop.Store(true)
						}
					}
					mu.Unlock()
					time.Sleep(idle + time.Duration(r.Range(-5000, 5000))*time.Microsecond)
				}
			}(w)
		}
		wg.Wait()
		return
	}
	n, late, first, err := once(c.Seed)
	if err != nil {
		c.Inconclusive("idle-edge setup: " + err.Error())
		return
	}
	c.Ev.Eval(n)
	c.Ev.Count("idle_edge_exchanges", int64(n))
	if late == 0 {
		c.Ev.Distinct("idle-edge", "ctor-reuse", n > 500)
		c.Ev.Sample(map[string]any{"part": "idle-edge", "callers": 24, "idle_timeout_ms": 30, "pause_ms": "25-35", "close_takes_us": 300, "exchanges": n})
		return
	}
	for k := 0; k < 3; k++ {
		_, late2, _, err := once(c.Seed + 1000*int64(k+1))
		c.Ev.Count("idle_edge_confirmation_runs", 1)
		if err == nil && late2 > 0 {
			c.Violation("idle-edge:late-return:ctor-reuse", fmt.Sprintf("ReuseConnTransport (idle time-out 30 ms, callers pausing 25-35 ms between exchanges, healthy server): %d of %d exchanges returned more than %v after their 2 s deadline (first: %s); reproduced on a fresh transport", late, n, c14Slack, first),
				map[string]any{"fn": "c14IdleEdge", "exchanges": n, "late": late, "first": first})
			return
		}
	}
	c.Inconclusive(fmt.Sprintf("idle-edge: %d late exchanges not reproduced", late))
}

// c14BurstThenIdle: a burst of 12 concurrent exchanges on the one-at-a-time transport (12
// connections, all pooled afterwards), then silence for longer than the idle time-out (every pooled
// connection is closed by its own timer), then one exchange: the server is healthy, the exchange
// succeeds - whatever is left of the pool must not stand in its way.
func c14BurstThenIdle(c *Ctx) {
	srv := scripted.NewServer(func(q *scripted.Query) scripted.Action {
		return scripted.Action{Tag: "echo", Leg: scripted.LegTCP, Delay: 5 * time.Millisecond}
	})
	l, err := net.Listen("tcp4", "127.0.0.1:0")
	if err != nil {
		c.Inconclusive("burst-then-idle setup: " + err.Error())
		return
	}
	srv.ServeStream(l)
	defer srv.Close()
	d := &scripted.Dialer{Network: "tcp", Addr: l.Addr().String()}
	tr := transport.NewReuseConnTransport(transport.ReuseConnOpts{IdleTimeout: 60 * time.Millisecond, DialContext: d.DialContext})
	defer c14CloseGuarded(tr)
	one := func(name string) error {
		ctx, cancel := context.WithTimeout(context.Background(), 3*time.Second)
		defer cancel()
		m, err := c14Guarded(tr, ctx, scripted.BuildQuery(7, name, 1, 1), 3*time.Second+c14GiveUp)
		if m != nil {
			dnsmsg.ReleaseMsg(m)
		}
		return err
	}
	fails := 0
	first := ""
	rounds := c.N(8, 60)
	for round := 0; round < rounds; round++ {
		burst := []int{12, 7, 20, 9}[round%4]
		var wg sync.WaitGroup
		for i := 0; i < burst; i++ {
			wg.Add(1)
			go func(i int) { defer wg.Done(); one(fmt.Sprintf("burst%d-%d.c14.test.", round, i)) }(i)
		}
		wg.Wait()
		time.Sleep(150 * time.Millisecond)
		err := one(fmt.Sprintf("after-idle%d.c14.test.", round))
		c.Ev.Eval(burst + 1)
		if err != nil {
			fails++
			if first == "" {
				first = fmt.Sprintf("round %d (burst of %d): %s", round, burst, upShort(err))
			}
		}
	}
	c.Ev.Count("burst_then_idle_rounds", int64(rounds))
	if fails >= 2 { // the same thing twice: no fluke
		c.Violation("burst-then-idle:failed-although-server-healthy:ctor-reuse", fmt.Sprintf("ReuseConnTransport (idle time-out 60 ms): after a burst of concurrent exchanges and 150 ms of silence the next exchange failed in %d of %d rounds although the server answers every query (first: %s)", fails, rounds, first),
			map[string]any{"fn": "c14BurstThenIdle", "rounds": rounds, "failed": fails, "first": first})
		return
	}
	if fails == 1 {
		c.Inconclusive("burst-then-idle: one failed exchange: " + first)
		return
	}
	c.Ev.Distinct("burst-then-idle", "ctor-reuse", rounds >= 8)
}

// c14SilentStall: a pooled pipelined connection whose peer silently stops answering (the TCP
// connection stays open) while queries keep coming every 40 ms; connections opened later are
// served normally. The connection's idle time-out (300 ms here) is what detects it: the exchanges
// waiting on the stalled connection fail over to a new connection and succeed - none waits out its
// 2 s deadline, however steadily new queries are written to the dead connection.
func c14SilentStall(c *Ctx) {
	once := func() (total, bad int, first string, err error) {
		srv := scripted.NewServer(func(q *scripted.Query) scripted.Action {
			if q.Conn == 0 && q.ConnSeq >= 5 {
				return scripted.Action{Tag: "silent", Drop: true}
			}
			return scripted.Action{Tag: "echo", Leg: scripted.LegTCP}
		})
		l, e := net.Listen("tcp4", "127.0.0.1:0")
		if e != nil {
			return 0, 0, "", e
		}
		srv.ServeStream(l)
		defer srv.Close()
		d := &scripted.Dialer{Network: "tcp", Addr: l.Addr().String()}
		tr := transport.NewPipelineTransport(transport.PipelineOpts{IsTCP: true, MaxConcurrentQuery: 64, IdleTimeout: 300 * time.Millisecond, DialContext: d.DialContext})
		defer c14CloseGuarded(tr)
		var mu sync.Mutex
		var wg sync.WaitGroup
		for i := 0; i < 60; i++ {
			wg.Add(1)
			go func(i int) {
				defer wg.Done()
				const deadline = 2 * time.Second
				ctx, cancel := context.WithTimeout(context.Background(), deadline)
				defer cancel()
				t0 := time.Now()
				m, err := c14Guarded(tr, ctx, scripted.BuildQuery(uint16(i+1), fmt.Sprintf("stall%d.c14.test.", i), 1, 1), deadline+c14GiveUp)
				took := time.Since(t0)
				if m != nil {
					dnsmsg.ReleaseMsg(m)
				}
				mu.Lock()
				total++
				if err != nil || took > 1500*time.Millisecond {
					bad++
					if first == "" {
						first = fmt.Sprintf("query %d (sent %d ms after the first): after %v: %s", i, i*40, took, upShort(err))
					}
				}
				mu.Unlock()
			}(i)
			time.Sleep(40 * time.Millisecond)
		}
		wg.Wait()
		return
	}
	total, bad, first, err := once()
	if err != nil {
		c.Inconclusive("silent-stall setup: " + err.Error())
		return
	}
	c.Ev.Eval(total)
	c.Ev.Count("silent_stall_exchanges", int64(total))
	if bad < 5 {
		c.Ev.Count("silent_stall_exchanges_slow_or_failed", int64(bad))
		c.Ev.Distinct("silent-stall", "ctor-pipeline", bad == 0)
		return
	}
	_, bad2, _, err := once()
	if err == nil && bad2 >= 5 {
		c.Violation("silent-stall:exchanges-wait-out-their-deadline:ctor-pipeline", fmt.Sprintf("pipelined TCP transport, idle time-out 300 ms, one query every 40 ms: after the first connection went silent (it stays open, later connections are served) %d of %d exchanges failed or took more than 1.5 s of their 2 s deadline (first: %s); a second run: %d", bad, total, first, bad2),
			map[string]any{"fn": "c14SilentStall", "exchanges": total, "failed_or_slow": bad, "first": first})
		return
	}
	c.Inconclusive(fmt.Sprintf("silent-stall: %d slow or failed exchanges not reproduced", bad))
}
