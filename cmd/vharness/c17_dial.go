package main

// C17 oracle (a) — dial matrix (in-process, finite enumeration).
//
// Every cell (scheme, URL host, URL port, dial_addr) builds one upstream with
// upstream.NewUpstream and issues one ExchangeContext. The socket destination
// is observed
//   - for connected sockets (udp, tcp, tls, http, https and the +pipeline
//     variants) through Opt.Control, which records (network, address) and
//     aborts the dial, so no packet ever leaves the process;
//   - for quic / h3 (unconnected UDP socket) by harness UDP sockets bound to
//     the wildcard address at the expected ports which record the destination
//     address of every datagram (IP_PKTINFO) keyed by the sender's port; only
//     cells whose reference destination is a loopback address are run.
//
// Reference (from the statement): destination = dial_addr when given (the
// scheme's default port added when it has none, "@name" = abstract unix
// socket) else URL host:port with the scheme's default port 53 (udp, tcp),
// 853 (tls, quic), 443 (https, h3), 80 (http).
//
// A second, small matrix points dial_addr at harness TLS / HTTP listeners and
// checks that SNI and the HTTP Host header still derive from the URL host.

import (
	"context"
	"crypto/tls"
	"encoding/base64"
	"encoding/json"
	"fmt"
	"io"
	"log"
	"net"
	"net/http"
	"net/netip"
	"strings"
	"sync"
	"syscall"
	"time"

	"github.com/IrineSistiana/mosproxy/internal/dnsmsg"
	"github.com/IrineSistiana/mosproxy/internal/upstream"
	"github.com/IrineSistiana/mosproxy/internal/utils"
	"github.com/IrineSistiana/mosproxy/verif/internal/fakeup"
	"github.com/IrineSistiana/mosproxy/verif/internal/gen"
	"github.com/IrineSistiana/mosproxy/verif/internal/pki"
	"github.com/IrineSistiana/mosproxy/verif/internal/scripted"
	"github.com/miekg/dns"
	"golang.org/x/net/ipv4"
	"golang.org/x/net/ipv6"
)

const c17RuleText = "finite matrix, enumerated completely: scheme {none, udp, tcp, tcp+pipeline, tls, tls+pipeline, http, https, h3, quic} x URL host {IPv4, bracketed IPv6 shapes, localhost, a non-resolvable name (only with dial_addr)} x port {none, 5353} x dial_addr {none, v4, v4:port, bare v6, [v6]:port, name, name:port, @abstract}; " +
	"each cell is one evaluation: one upstream, one exchange, destination observed through Opt.Control (connected sockets) or by harness UDP sockets (quic/h3, loopback destinations only) and compared with the reference destination; " +
	"plus SNI/Host cells (tls, https, http with dial_addr pointing at a harness listener); every evaluated cell is non-trivial and distinct by (scheme, host, port, dial_addr, kind); cells that cannot be observed are counted as skipped with the reason"

type c17Cell struct {
	Scheme string `json:"scheme"` // "" = omitted
	Host   string `json:"host"`   // as written in the URL (IPv6 bracketed)
	Port   string `json:"port"`   // "" = omitted
	Dial   string `json:"dial_addr"`
}

func (x c17Cell) key() string { return x.Scheme + "|" + x.Host + "|" + x.Port + "|" + x.Dial }

func (x c17Cell) base() string {
	s := strings.TrimSuffix(x.Scheme, "+pipeline")
	if s == "" {
		s = "udp"
	}
	return s
}

func (x c17Cell) hostPort() string {
	if x.Port != "" {
		return x.Host + ":" + x.Port
	}
	return x.Host
}

func (x c17Cell) addr() string {
	if x.Scheme == "" {
		return x.hostPort()
	}
	s := x.Scheme + "://" + x.hostPort()
	switch x.base() {
	case "http", "https", "h3":
		s += "/dns-query"
	}
	return s
}

func (x c17Cell) unconnected() bool { b := x.base(); return b == "quic" || b == "h3" }

type c17Want struct {
	Network string   `json:"network"` // udp | tcp | unix
	Dests   []string `json:"destinations"`
	dests   []netip.AddrPort
}

func c17DefaultPort(base string) uint16 {
	switch base {
	case "udp", "tcp":
		return 53
	case "tls", "quic":
		return 853
	case "https", "h3":
		return 443
	case "http":
		return 80
	}
	return 0
}

// host[:port] forms used for dial_addr: v4, v4:port, bare v6, [v6]:port, name, name:port
func c17SplitDial(d string) (host, port string) {
	if strings.HasPrefix(d, "[") {
		i := strings.Index(d, "]")
		return d[1:i], strings.TrimPrefix(d[i+1:], ":")
	}
	if strings.Count(d, ":") >= 2 {
		return d, ""
	}
	if i := strings.LastIndex(d, ":"); i >= 0 {
		return d[:i], d[i+1:]
	}
	return d, ""
}

// the reference
func c17Reference(x c17Cell) (w c17Want, ok bool) {
	base := x.base()
	w.Network = "tcp"
	if base == "udp" || base == "quic" || base == "h3" {
		w.Network = "udp"
	}
	host, port := strings.Trim(x.Host, "[]"), x.Port
	if x.Dial != "" {
		if strings.HasPrefix(x.Dial, "@") {
			return c17Want{Network: "unix", Dests: []string{x.Dial}}, true
		}
		host, port = c17SplitDial(x.Dial)
	}
	p := c17DefaultPort(base)
	if port != "" {
		var n int
		fmt.Sscanf(port, "%d", &n)
		p = uint16(n)
	}
	var addrs []netip.Addr
	if host == "localhost" {
		addrs = []netip.Addr{netip.MustParseAddr("127.0.0.1"), netip.MustParseAddr("::1")}
	} else if a, err := netip.ParseAddr(host); err == nil {
		addrs = []netip.Addr{a.Unmap()}
	} else {
		return w, false // a name we cannot resolve offline
	}
	for _, a := range addrs {
		ap := netip.AddrPortFrom(a, p)
		w.dests = append(w.dests, ap)
		w.Dests = append(w.Dests, ap.String())
	}
	return w, true
}

type c17Dial struct {
	Network string `json:"network"`
	Address string `json:"address"`
}

type c17Result struct {
	Fn       string    `json:"fn"`
	Kind     string    `json:"kind"` // dial | sni
	Cell     c17Cell   `json:"cell"`
	Upstream string    `json:"upstream_addr"`
	Want     c17Want   `json:"reference"`
	Got      []c17Dial `json:"observed_dials"`
	Err      string    `json:"exchange_error"`
	NewErr   string    `json:"new_upstream_error,omitempty"`
	WantSNI  string    `json:"reference_sni,omitempty"`
	GotSNI   []string  `json:"observed_sni,omitempty"`
	WantHost string    `json:"reference_http_host,omitempty"`
	GotHost  []string  `json:"observed_http_host,omitempty"`
	TimedOut bool      `json:"exchange_hit_deadline"`
}

var c17Query = []byte{0x12, 0x34, 0x01, 0x00, 0, 1, 0, 0, 0, 0, 0, 0, 3, 'c', '1', '7', 4, 't', 'e', 's', 't', 0, 0, 1, 0, 1}

// ---------------------------------------------------------------- UDP observer

type c17Obs struct {
	mu     sync.Mutex
	seen   map[uint16][]netip.AddrPort // sender port -> destinations observed
	bound  map[uint16]bool
	reason map[uint16]string
	conns  []net.PacketConn
	parked []io.Closer // upstreams of finished cells; closed between rounds so that no source port is reused within a round
}

func (o *c17Obs) park(u io.Closer) {
	o.mu.Lock()
	o.parked = append(o.parked, u)
	o.mu.Unlock()
}

// closeParked closes the upstreams of the finished round and forgets what was seen from their ports.
func (o *c17Obs) closeParked() {
	o.mu.Lock()
	p := o.parked
	o.parked = nil
	o.mu.Unlock()
	for _, u := range p {
		u.Close()
	}
	time.Sleep(100 * time.Millisecond) // datagrams still queued at the observer sockets
	o.mu.Lock()
	o.seen = map[uint16][]netip.AddrPort{}
	o.mu.Unlock()
}

func c17StartObs(ports []uint16) *c17Obs {
	o := &c17Obs{seen: map[uint16][]netip.AddrPort{}, bound: map[uint16]bool{}, reason: map[uint16]string{}}
	for _, p := range ports {
		c4, err := net.ListenPacket("udp4", fmt.Sprintf("0.0.0.0:%d", p))
		if err != nil {
			o.reason[p] = "bind udp4: " + err.Error()
			continue
		}
		c6, err := net.ListenPacket("udp6", fmt.Sprintf("[::]:%d", p))
		if err != nil {
			c4.Close()
			o.reason[p] = "bind udp6: " + err.Error()
			continue
		}
		p4 := ipv4.NewPacketConn(c4)
		p6 := ipv6.NewPacketConn(c6)
		if err := p4.SetControlMessage(ipv4.FlagDst, true); err != nil {
			c4.Close()
			c6.Close()
			o.reason[p] = "IP_PKTINFO: " + err.Error()
			continue
		}
		if err := p6.SetControlMessage(ipv6.FlagDst, true); err != nil {
			c4.Close()
			c6.Close()
			o.reason[p] = "IPV6_RECVPKTINFO: " + err.Error()
			continue
		}
		o.bound[p] = true
		o.conns = append(o.conns, c4, c6)
		port := p
		rec := func(src net.Addr, dst net.IP) {
			ua, _ := src.(*net.UDPAddr)
			a, ok := netip.AddrFromSlice(dst)
			if ua == nil || !ok {
				return
			}
			o.mu.Lock()
			o.seen[uint16(ua.Port)] = append(o.seen[uint16(ua.Port)], netip.AddrPortFrom(a.Unmap(), port))
			o.mu.Unlock()
		}
		go func() {
			buf := make([]byte, 2048)
			for {
				_, cm, src, err := p4.ReadFrom(buf)
				if err != nil {
					return
				}
				if cm != nil {
					rec(src, cm.Dst)
				}
			}
		}()
		go func() {
			buf := make([]byte, 2048)
			for {
				_, cm, src, err := p6.ReadFrom(buf)
				if err != nil {
					return
				}
				if cm != nil {
					rec(src, cm.Dst)
				}
			}
		}()
	}
	return o
}

func (o *c17Obs) get(srcPort uint16) []netip.AddrPort {
	o.mu.Lock()
	defer o.mu.Unlock()
	return append([]netip.AddrPort{}, o.seen[srcPort]...)
}

func (o *c17Obs) close() {
	o.closeParked()
	for _, c := range o.conns {
		c.Close()
	}
}

// ---------------------------------------------------------------- one dial cell

// c17RunConnected: Control records and aborts.
func c17RunConnected(x c17Cell, deadline time.Duration) (res c17Result) {
	res = c17Result{Fn: "c17DialMatrix", Kind: "dial", Cell: x, Upstream: x.addr()}
	var mu sync.Mutex
	ctrl := func(network, address string, _ syscall.RawConn) error {
		mu.Lock()
		res.Got = append(res.Got, c17Dial{network, address})
		mu.Unlock()
		return fmt.Errorf("c17: dial aborted by the harness")
	}
	u, err := upstream.NewUpstream(x.addr(), upstream.Opt{DialAddr: x.Dial, Control: ctrl, TLSConfig: &tls.Config{InsecureSkipVerify: true}})
	if err != nil {
		res.NewErr = err.Error()
		return
	}
	ctx, cancel := context.WithTimeout(context.Background(), deadline)
	m, err := u.ExchangeContext(ctx, c17Query)
	res.TimedOut = ctx.Err() != nil
	cancel()
	if m != nil {
		dnsmsg.ReleaseMsg(m)
	}
	if err != nil {
		res.Err = err.Error()
	}
	u.Close()
	mu.Lock()
	res.Got = append([]c17Dial{}, res.Got...)
	mu.Unlock()
	return
}

// c17RunUnconnected: quic / h3. Control lets the socket through; the sender's
// local port is read from a dup of the socket, the destination from the observer.
func c17RunUnconnected(x c17Cell, obs *c17Obs, deadline time.Duration) (res c17Result, skip string) {
	res = c17Result{Fn: "c17DialMatrix", Kind: "dial", Cell: x, Upstream: x.addr()}
	dupfd := -1
	var mu sync.Mutex
	ctrl := func(network, address string, rc syscall.RawConn) error {
		mu.Lock()
		defer mu.Unlock()
		if dupfd < 0 {
			rc.Control(func(fd uintptr) {
				if nfd, err := syscall.Dup(int(fd)); err == nil {
					dupfd = nfd
				}
			})
		}
		return nil
	}
	u, err := upstream.NewUpstream(x.addr(), upstream.Opt{DialAddr: x.Dial, Control: ctrl, TLSConfig: &tls.Config{InsecureSkipVerify: true}})
	if err != nil {
		res.NewErr = err.Error()
		if dupfd >= 0 {
			syscall.Close(dupfd)
		}
		return
	}
	// closed between rounds: an exchange may still be running in the background after the deadline, and a
	// closed socket would free its port for the next cell (the observer attributes datagrams by source port)
	obs.park(u)
	mu.Lock()
	fd := dupfd
	mu.Unlock()
	if fd < 0 {
		return res, "socket of the upstream not seen by Control"
	}
	sa, err := syscall.Getsockname(fd)
	syscall.Close(fd)
	var lport uint16
	switch s := sa.(type) {
	case *syscall.SockaddrInet4:
		lport = uint16(s.Port)
	case *syscall.SockaddrInet6:
		lport = uint16(s.Port)
	}
	if err != nil || lport == 0 {
		return res, "local port of the upstream socket unknown"
	}
	ctx, cancel := context.WithTimeout(context.Background(), deadline)
	defer cancel()
	done := make(chan struct{})
	go func() {
		m, err := u.ExchangeContext(ctx, c17Query)
		if m != nil {
			dnsmsg.ReleaseMsg(m)
		}
		if err != nil {
			res.Err = err.Error()
		}
		close(done)
	}()
	tick := time.NewTicker(time.Millisecond)
	defer tick.Stop()
	finished := false
	for !finished && len(obs.get(lport)) == 0 {
		select {
		case <-done:
			finished = true
		case <-tick.C:
		}
	}
	if !finished {
		time.Sleep(10 * time.Millisecond) // let a second datagram (if any) arrive
	}
	res.TimedOut = ctx.Err() != nil
	cancel()
	<-done
	for _, ap := range obs.get(lport) {
		res.Got = append(res.Got, c17Dial{"udp", ap.String()})
	}
	return res, ""
}

// verdict: "" = matches the reference
func c17Judge(res *c17Result) (kind, detail string) {
	w := res.Want
	if res.NewErr != "" {
		return "new-upstream-error", "NewUpstream failed: " + res.NewErr
	}
	if len(res.Got) == 0 {
		return "no-dial", "no dial observed (exchange error: " + res.Err + ")"
	}
	for _, g := range res.Got {
		net := strings.TrimRight(g.Network, "46")
		if net != w.Network {
			return "wrong-network", fmt.Sprintf("dialled network %s, reference %s", g.Network, w.Network)
		}
		if w.Network == "unix" {
			if g.Address != w.Dests[0] {
				return "wrong-unix-name", fmt.Sprintf("dialled unix %q, reference %q", g.Address, w.Dests[0])
			}
			continue
		}
		ap, err := netip.ParseAddrPort(g.Address)
		if err != nil {
			return "unparsable-address", fmt.Sprintf("dialled %q", g.Address)
		}
		ap = netip.AddrPortFrom(ap.Addr().Unmap().WithZone(""), ap.Port())
		found, hostOK := false, false
		for _, d := range w.dests {
			if d == ap {
				found = true
			}
			if d.Addr() == ap.Addr() {
				hostOK = true
			}
		}
		if !found {
			if hostOK {
				return "wrong-port", fmt.Sprintf("dialled %s, reference %v", g.Address, w.Dests)
			}
			return "wrong-host", fmt.Sprintf("dialled %s, reference %v", g.Address, w.Dests)
		}
	}
	return "", ""
}

func c17HostKind(h string) string {
	switch {
	case strings.HasPrefix(h, "["):
		return "v6"
	case h == "":
		return "none"
	}
	if _, err := netip.ParseAddr(h); err == nil {
		if strings.Contains(h, ":") {
			return "v6"
		}
		return "v4"
	}
	return "name"
}

func c17DialKind(d string) string {
	if d == "" {
		return "none"
	}
	if strings.HasPrefix(d, "@") {
		return "unix"
	}
	h, p := c17SplitDial(d)
	k := c17HostKind(h)
	if p != "" {
		k += "+port"
	}
	return k
}

// signature = shape of the mismatch: what went wrong, for which scheme, and whether the destination
// came from the URL or from dial_addr. Bracketed IPv6 URL hosts without a port (destination taken from
// the URL) are one class of their own.
func c17Sig(x c17Cell, kind string) string {
	if strings.HasPrefix(x.Host, "[") && x.Port == "" && x.Dial == "" {
		return "dial-addr:bracketed-v6-no-port"
	}
	src := "from-url:host=" + c17HostKind(x.Host)
	if x.Port == "" {
		src += ":no-port"
	}
	if x.Dial != "" {
		src = "from-dial_addr:" + c17DialKind(x.Dial)
	}
	return "dial-addr:" + kind + ":" + x.base() + ":" + src
}

func c17Cells() (cells []c17Cell) {
	schemes := []string{"", "udp", "tcp", "tcp+pipeline", "tls", "tls+pipeline", "http", "https", "h3", "quic"}
	hosts := []string{"127.0.0.1", "127.8.9.10", "[::1]", "[fd00::ab:1]", "[2001:db8::1]", "localhost",
		"[::ffff:1.2.3.4]", "[fe80::1]", "[2001:db8:0:1:a:b:c:d]", "[::2]", "dns.verif.test"}
	ports := []string{"", "5353"}
	dials := []string{"", "127.0.0.2", "127.0.0.2:99", "::1", "[::1]:99", "localhost", "localhost:99", "@verif_x", "@verif_y:dot"}
	for _, s := range schemes {
		for _, h := range hosts {
			for _, p := range ports {
				for _, d := range dials {
					x := c17Cell{s, h, p, d}
					if strings.HasPrefix(d, "@") && (x.base() == "udp" || x.unconnected()) {
						continue // undefined: abstract unix socket with a datagram scheme
					}
					if h == "dns.verif.test" && d == "" {
						continue // would need a real resolver
					}
					cells = append(cells, x)
				}
			}
		}
	}
	return
}

func c17AllLoopback(w c17Want) bool {
	for _, d := range w.dests {
		if !d.Addr().IsLoopback() {
			return false
		}
	}
	return len(w.dests) > 0
}

// ---------------------------------------------------------------- SNI / Host cells

type c17Server struct {
	l     net.Listener
	mu    sync.Mutex
	sni   []string
	hosts []string
	hs    *http.Server
}

func (s *c17Server) port() string { _, p, _ := net.SplitHostPort(s.l.Addr().String()); return p }

func (s *c17Server) close() {
	if s.hs != nil {
		s.hs.Close()
	}
	s.l.Close()
}

func c17Answer(q []byte) []byte {
	r := append([]byte{}, q...)
	if len(r) > 3 {
		r[2] |= 0x80
	}
	return r
}

func c17StartServer(kind string, cert tls.Certificate) (*c17Server, error) {
	l, err := net.Listen("tcp", "127.0.0.1:0")
	if err != nil {
		return nil, err
	}
	s := &c17Server{l: l}
	tc := &tls.Config{Certificates: []tls.Certificate{cert}}
	tc.GetConfigForClient = func(h *tls.ClientHelloInfo) (*tls.Config, error) {
		s.mu.Lock()
		s.sni = append(s.sni, h.ServerName)
		s.mu.Unlock()
		return nil, nil
	}
	handler := http.HandlerFunc(func(w http.ResponseWriter, r *http.Request) {
		s.mu.Lock()
		s.hosts = append(s.hosts, r.Host)
		s.mu.Unlock()
		q, err := base64.RawURLEncoding.DecodeString(r.URL.Query().Get("dns"))
		if err != nil {
			w.WriteHeader(400)
			return
		}
		w.Header().Set("Content-Type", "application/dns-message")
		w.Write(c17Answer(q))
	})
	switch kind {
	case "tls":
		go func() {
			for {
				c, err := l.Accept()
				if err != nil {
					return
				}
				go func() {
					defer c.Close()
					tcn := tls.Server(c, tc)
					tcn.SetDeadline(time.Now().Add(5 * time.Second))
					var hdr [2]byte
					if _, err := io.ReadFull(tcn, hdr[:]); err != nil {
						return
					}
					q := make([]byte, int(hdr[0])<<8|int(hdr[1]))
					if _, err := io.ReadFull(tcn, q); err != nil {
						return
					}
					a := c17Answer(q)
					tcn.Write(append([]byte{byte(len(a) >> 8), byte(len(a))}, a...))
					// wait for the peer to close (or the deadline)
					io.Copy(io.Discard, tcn)
				}()
			}
		}()
	case "https":
		s.hs = &http.Server{Handler: handler, TLSConfig: tc, ErrorLog: nil}
		s.hs.ErrorLog = c17NullLogger()
		go s.hs.ServeTLS(l, "", "")
	case "http":
		s.hs = &http.Server{Handler: handler}
		s.hs.ErrorLog = c17NullLogger()
		go s.hs.Serve(l)
	}
	return s, nil
}

func c17RunSNI(x c17Cell, cert tls.Certificate) (res c17Result, skip string) {
	kind := x.base()
	srv, err := c17StartServer(kind, cert)
	if err != nil {
		return res, "listen: " + err.Error()
	}
	defer srv.close()
	x.Dial = "127.0.0.1:" + srv.port()
	res = c17Result{Fn: "c17DialMatrix", Kind: "sni", Cell: x, Upstream: x.addr()}
	res.Want, _ = c17Reference(x)
	var mu sync.Mutex
	ctrl := func(network, address string, _ syscall.RawConn) error {
		mu.Lock()
		res.Got = append(res.Got, c17Dial{network, address})
		mu.Unlock()
		return nil
	}
	u, err := upstream.NewUpstream(x.addr(), upstream.Opt{DialAddr: x.Dial, Control: ctrl, TLSConfig: &tls.Config{InsecureSkipVerify: true}})
	if err != nil {
		res.NewErr = err.Error()
		return
	}
	ctx, cancel := context.WithTimeout(context.Background(), 5*time.Second)
	m, err := u.ExchangeContext(ctx, c17Query)
	res.TimedOut = ctx.Err() != nil
	cancel()
	if m != nil {
		dnsmsg.ReleaseMsg(m)
	}
	if err != nil {
		res.Err = err.Error()
	}
	u.Close()
	mu.Lock()
	res.Got = append([]c17Dial{}, res.Got...)
	mu.Unlock()
	srv.mu.Lock()
	res.GotSNI = append([]string{}, srv.sni...)
	res.GotHost = append([]string{}, srv.hosts...)
	srv.mu.Unlock()
	if kind != "http" && c17HostKind(x.Host) == "name" {
		res.WantSNI = x.Host
	}
	if kind != "tls" {
		res.WantHost = x.hostPort()
	}
	return
}

// ---------------------------------------------------------------- driver

func c17DialMatrix(c *Ctx) {
	cert, err := utils.GenerateCertificate("c17.verif.test")
	if err != nil {
		c.Inconclusive("c17: cannot generate a certificate: " + err.Error())
		return
	}
	if c.Replay != nil {
		var rc c17Result
		if json.Unmarshal(c.Replay.Case, &rc) != nil || rc.Fn != "c17DialMatrix" {
			return
		}
		obs := c17StartObs([]uint16{853, 443, 5353, 99})
		defer obs.close()
		if rc.Kind == "sni" {
			rc.Cell.Dial = ""
			c17DoSNI(c, rc.Cell, cert)
		} else {
			c17DoCell(c, rc.Cell, obs)
		}
		return
	}

	cells := c17Cells()
	var conn, unconn []c17Cell
	for _, x := range cells {
		if x.unconnected() {
			unconn = append(unconn, x)
		} else {
			conn = append(conn, x)
		}
	}
	rounds := c.N(1, 8)
	// connected cells: each upstream has its own Control closure, so cells are independent and run concurrently
	for round := 0; round < rounds; round++ {
		order := gen.New(c.Seed, "c17-order", round).Perm(len(conn))
		parallelFor(len(conn), 0, nil, func(i int) { c17DoCell(c, conn[order[i]], nil) })
	}
	// unconnected cells
	obs := c17StartObs([]uint16{853, 443, 5353, 99})
	for p, why := range obs.reason {
		c.Ev.Count(fmt.Sprintf("observer_port_%d_unavailable", p), 1)
		c.Ev.Set(fmt.Sprintf("observer_port_%d_reason", p), why)
	}
	for round := 0; round < rounds; round++ {
		order := gen.New(c.Seed, "c17-order-u", round).Perm(len(unconn))
		parallelFor(len(unconn), 8, nil, func(i int) { c17DoCell(c, unconn[order[i]], obs) })
		obs.closeParked()
	}
	obs.close()

	// SNI / Host cells
	for _, s := range []string{"tls", "tls+pipeline", "https", "http"} {
		for _, h := range []string{"localhost", "dns.verif.test", "Dns.Verif.Test", "127.0.0.1", "[::1]", "[2001:db8::1]"} {
			for _, p := range []string{"", "5353"} {
				c17DoSNI(c, c17Cell{Scheme: s, Host: h, Port: p}, cert)
			}
		}
	}
}

func c17SchemeName(x c17Cell) string {
	if x.Scheme == "" {
		return "none"
	}
	return x.Scheme
}

func c17DoCell(c *Ctx, x c17Cell, obs *c17Obs) {
	want, ok := c17Reference(x)
	if !ok {
		c.Ev.Count("cells_skipped:reference-needs-a-resolver", 1)
		return
	}
	var res c17Result
	if x.unconnected() {
		if !c17AllLoopback(want) {
			c.Ev.Count("cells_skipped:quic-h3-destination-not-loopback", 1)
			return
		}
		if !obs.bound[want.dests[0].Port()] {
			c.Ev.Count("cells_skipped:observer-port-unavailable", 1)
			return
		}
		var skip string
		res, skip = c17RunUnconnected(x, obs, 3*time.Second)
		if skip != "" {
			c.Ev.Count("cells_skipped:"+skip, 1)
			return
		}
	} else {
		res = c17RunConnected(x, 3*time.Second)
	}
	res.Want = want
	kind, detail := c17Judge(&res)
	// Observations that depend on timing or on datagram attribution are confirmed before they count:
	// absence of a dial after the deadline, and every mismatch of a quic/h3 cell (destination seen by the
	// harness sockets, attributed by source port). The cell is re-run alone three times and must mismatch
	// in the same way every time.
	if kind != "" && ((kind == "no-dial" && res.TimedOut) || x.unconnected()) {
		if c.Seen(c17Sig(x, kind)) { // this shape already has a confirmed witness: do not spend the re-runs
			c.Ev.Eval(1)
			c.Ev.Count("cells_mismatching_unconfirmed:"+kind, 1)
			return
		}
		first := kind
		for k := 0; k < 3 && kind == first; k++ {
			if x.unconnected() {
				res, _ = c17RunUnconnected(x, obs, 6*time.Second)
			} else {
				res = c17RunConnected(x, 6*time.Second)
			}
			res.Want = want
			kind, detail = c17Judge(&res)
			c.Ev.Count("cells_rerun_for_confirmation", 1)
		}
		if kind != first {
			c.Ev.Count("cells_mismatch_not_reproduced:"+first, 1)
			if kind != "" {
				c.Inconclusive(fmt.Sprintf("c17 cell %s: mismatch %s then %s on re-run", x.key(), first, kind))
				return
			}
		}
	}
	c.Ev.Eval(1)
	c.Ev.Distinct("dial", x.key())
	c.Ev.Count("cells_by_scheme:"+c17SchemeName(x), 1)
	c.Ev.Count("dials_observed", int64(len(res.Got)))
	if len(want.dests) > 1 {
		c.Ev.Count("cells_with_two_legitimate_destinations", 1)
		if len(res.Got) > 1 {
			c.Ev.Count("cells_that_tried_both_localhost_addresses", 1)
		}
	}
	if want.Network == "unix" {
		c.Ev.Count("cells_unix_destination", 1)
	}
	if x.Dial != "" {
		c.Ev.Count("cells_with_dial_addr", 1)
	}
	if kind == "" {
		c.Ev.Count("cells_matching_reference", 1)
		if x.Scheme == "tls" && x.Host == "[2001:db8::1]" {
			c.Ev.Sample(res)
		}
		return
	}
	c.Ev.Count("cells_mismatching:"+kind, 1)
	sig := c17Sig(x, kind)
	if c.Seen(sig) {
		return
	}
	c.Violation(sig, fmt.Sprintf("upstream %q dial_addr %q: %s; observed dials %v, reference %s %v", x.addr(), x.Dial, detail, res.Got, want.Network, want.Dests), res)
}

func c17DoSNI(c *Ctx, x c17Cell, cert tls.Certificate) {
	res, skip := c17RunSNI(x, cert)
	if skip != "" {
		c.Ev.Count("sni_cells_skipped:"+skip, 1)
		return
	}
	c.Ev.Eval(1)
	c.Ev.Distinct("sni", x.key())
	c.Ev.Count("sni_cells_by_scheme:"+c17SchemeName(x), 1)
	port := "port"
	if x.Port == "" {
		port = "no-port"
	}
	shape := ":" + x.base() + ":host=" + c17HostKind(x.Host) + ":" + port
	if kind, detail := c17Judge(&res); kind != "" {
		c.Violation("sni-cell-dial:"+kind+shape, fmt.Sprintf("upstream %q dial_addr %q: %s; observed %v", res.Upstream, res.Cell.Dial, detail, res.Got), res)
		return
	}
	if res.Err != "" {
		c.Ev.Count("sni_cells_exchange_failed", 1)
	} else {
		c.Ev.Count("sni_cells_exchange_ok", 1)
	}
	if x.base() != "http" {
		if res.WantSNI == "" {
			c.Ev.Count("sni_not_judged_ip_literal", 1)
		} else {
			c.Ev.Count("sni_judged", 1)
			bad := len(res.GotSNI) == 0
			for _, s := range res.GotSNI {
				if !strings.EqualFold(s, res.WantSNI) {
					bad = true
				}
			}
			if bad {
				c.Violation("sni-mismatch"+shape, fmt.Sprintf("upstream %q dial_addr %q: ClientHello server names %q, reference %q (exchange error %q)", res.Upstream, res.Cell.Dial, res.GotSNI, res.WantSNI, res.Err), res)
			}
		}
	}
	if x.base() != "tls" {
		c.Ev.Count("http_host_judged", 1)
		bad := len(res.GotHost) == 0
		for _, h := range res.GotHost {
			if !strings.EqualFold(h, res.WantHost) {
				bad = true
			}
		}
		if bad {
			c.Violation("http-host-mismatch"+shape, fmt.Sprintf("upstream %q dial_addr %q: HTTP Host headers %q, reference %q (exchange error %q)", res.Upstream, res.Cell.Dial, res.GotHost, res.WantHost, res.Err), res)
		}
	}
	if x.Host == "dns.verif.test" && x.Port == "5353" {
		c.Ev.Sample(res)
	}
}

func c17NullLogger() *log.Logger { return log.New(io.Discard, "", 0) }

// c17Fallback: a udp upstream makes two kinds of connections - the UDP socket and, after a
// truncated reply, a TCP connection. Both go to dial_addr when one is configured, whatever the URL
// host says. The server (at dial_addr) truncates every UDP reply; Control records every dial.
func c17Fallback(c *Ctx) {
	e, err := c16NewEnv("listen")
	if err != nil {
		c.Inconclusive("C17 fallback setup: " + err.Error())
		return
	}
	defer e.close()
	real := fmt.Sprintf("127.0.0.1:%d", e.port)
	forms := []struct{ addr, dial string }{
		{"udp://127.8.9.10:5353", real},
		{"127.8.9.10", real},
		{"udp://dns.verif.test", real},
		{"udp://[2001:db8::1]:99", real},
		{"udp://localhost:7", real},
		{"udp://" + real, ""},
		{real, ""},
	}
	for fi, f := range forms {
		var mu sync.Mutex
		var dials []c17Dial
		ctrl := func(network, address string, _ syscall.RawConn) error {
			mu.Lock()
			dials = append(dials, c17Dial{network, address})
			mu.Unlock()
			return nil
		}
		u, err := upstream.NewUpstream(f.addr, upstream.Opt{DialAddr: f.dial, Control: ctrl})
		cs := map[string]any{"fn": "c17Fallback", "upstream_addr": f.addr, "dial_addr": f.dial, "server": real}
		if err != nil {
			c.Violation("fallback:new-upstream-error", fmt.Sprintf("NewUpstream(%q, dial_addr %q): %v", f.addr, f.dial, err), cs)
			continue
		}
		okT := 0
		for k := 0; k < 3; k++ {
			ex := &c16Ex{I: 900000 + fi*10 + k, UDP: "tc", TCP: "ok", Name: fmt.Sprintf("fb%dk%d.c17.test.", fi, k), QType: 1, QClass: 1, CallerID: uint16(fi*10 + k)}
			e.mu.Lock()
			e.scripts[ex.Name] = ex
			e.mu.Unlock()
			ctx, cancel := context.WithTimeout(context.Background(), 2*time.Second)
			m, err := u.ExchangeContext(ctx, scripted.BuildQuery(ex.CallerID, ex.Name, 1, 1))
			cancel()
			c.Ev.Eval(1)
			if err == nil && m != nil {
				if _, leg, ok := upNonce(m); ok && leg == 'T' {
					okT++
				}
				dnsmsg.ReleaseMsg(m)
			}
		}
		u.Close()
		mu.Lock()
		got := append([]c17Dial{}, dials...)
		mu.Unlock()
		cs["observed_dials"] = got
		bad := ""
		nets := map[string]bool{}
		for _, d := range got {
			nets[d.Network[:3]] = true
			if d.Address != real {
				bad = fmt.Sprintf("%s connection to %s", d.Network, d.Address)
			}
		}
		switch {
		case bad != "":
			c.Violation("fallback:dial-addr-ignored:"+bad[:3], fmt.Sprintf("udp upstream %q with dial_addr %q: %s (every connection, the TCP retry of a truncated reply included, must go to %s)", f.addr, f.dial, bad, real), cs)
		case okT < 3 || !nets["udp"] || !nets["tcp"]:
			c.Violation("fallback:tcp-retry-not-at-dial-addr", fmt.Sprintf("udp upstream %q with dial_addr %q: %d of 3 truncated replies were answered over TCP by the server at %s (dials seen: %v)", f.addr, f.dial, okT, real, got), cs)
		default:
			c.Ev.Distinct("udp-fallback-dial", f.addr != real && f.addr != "udp://"+real, f.dial != "")
			c.Ev.Count("udp_fallback_forms_checked", 1)
		}
	}
}

// c17Redirect: a DoH peer (http, https, h3) that answers with an HTTP redirect to another host and
// port. The proxy talks to the peer it was configured with (URL host / dial_addr) and to nobody
// else: the redirect target must see neither a connection nor a query, whatever becomes of the
// exchange. Control records every dial of the upstream.
func c17Redirect(c *Ctx) {
	ca, _ := pki.NewCA("c17-redirect")
	leaf, _ := ca.Leaf(pki.LeafOpt{Names: []string{"up.test", "127.0.0.1"}})
	stls := &tls.Config{Certificates: []tls.Certificate{leaf.TLS}}
	for _, scheme := range []string{"http", "https", "h3"} {
		peer, other := fakeup.NewServer("peer"), fakeup.NewServer("other")
		var err, err2 error
		switch scheme {
		case "http":
			err, err2 = peer.ListenHTTP("127.0.0.1:0"), other.ListenHTTP("127.0.0.1:0")
		case "https":
			err, err2 = peer.ListenHTTPS("127.0.0.1:0", stls), other.ListenHTTPS("127.0.0.1:0", stls)
		case "h3":
			err, err2 = peer.ListenH3("127.0.0.1:0", stls), other.ListenH3("127.0.0.1:0", stls)
		}
		if err != nil || err2 != nil {
			c.Inconclusive(fmt.Sprintf("redirect setup: %v %v", err, err2))
			peer.Close()
			other.Close()
			continue
		}
		us := map[string]string{"http": "http", "https": "https", "h3": "https"}[scheme]
		peer.RedirectTo = us + "://" + other.Addr[scheme] + "/dns-query"
		var mu sync.Mutex
		var dials []c17Dial
		ctrl := func(network, address string, _ syscall.RawConn) error {
			mu.Lock()
			dials = append(dials, c17Dial{network, address})
			mu.Unlock()
			return nil
		}
		_, port, _ := strings.Cut(peer.Addr[scheme], ":")
		addr := scheme + "://up.test:" + port + "/dns-query"
		if scheme == "http" {
			addr = "http://" + peer.Addr[scheme] + "/dns-query"
		}
		u, err := upstream.NewUpstream(addr, upstream.Opt{DialAddr: peer.Addr[scheme], Control: ctrl, TLSConfig: &tls.Config{RootCAs: ca.Pool()}})
		if err != nil {
			c.Inconclusive("redirect: NewUpstream: " + err.Error())
			peer.Close()
			other.Close()
			continue
		}
		for i := 0; i < 3; i++ {
			ctx, cancel := context.WithTimeout(context.Background(), 3*time.Second)
			m, _ := u.ExchangeContext(ctx, mkQuery(uint16(i+1), fmt.Sprintf("redir-r%d.peer.test.", i), dns.TypeA, dns.ClassINET, true))
			cancel()
			if m != nil {
				dnsmsg.ReleaseMsg(m)
			}
			c.Ev.Eval(1)
		}
		time.Sleep(100 * time.Millisecond)
		u.Close()
		cs := map[string]any{"fn": "c17Redirect", "scheme": scheme, "peer": peer.Addr[scheme], "redirect_target": other.Addr[scheme], "dials": dials}
		switch {
		case len(peer.Log()) == 0:
			c.Inconclusive("redirect " + scheme + ": the configured peer was never asked")
		case len(other.Log()) > 0 || other.AcceptedConns() > 0:
			c.Violation("redirect-followed:"+scheme, fmt.Sprintf("%s upstream configured for %s: the peer answered 307 with Location %s and the proxy went there (%d queries, %d connections at the redirect target); dials recorded: %v", scheme, peer.Addr[scheme], peer.RedirectTo, len(other.Log()), other.AcceptedConns(), dials), cs)
		default:
			c.Ev.Distinct("redirect", scheme)
			c.Ev.Count("redirects_not_followed", 1)
		}
		peer.Close()
		other.Close()
	}
}
