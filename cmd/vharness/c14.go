package main

// C14 — upstream exchanges end by their deadline and survive stale connections.
//
// Fault enumeration over (transport, step, kind). Transports are built through
// upstream.NewUpstream against real loopback fake servers (udp, tcp,
// tcp+pipeline, tls, tls+pipeline, http, https, quic) and through the exported
// constructors with a fault-injecting DialContext (ctor-pipeline, ctor-reuse).
//
//	T1 every exchange returns no later than its context deadline + 1.5 s (deadlines 300 ms - 1 s; internal time-outs are 3-6 s);
//	T2 connection(s) closed / reset / garbled by the server while idle in the pool, server healthy otherwise => the next exchange succeeds, dials <= 1 + stale + 1;
//	T3 20 exchanges waiting on one multiplexed connection that the server kills at t0 (10 s deadlines) all return by t0 + 3 s;
//	T4 a failure on a freshly dialled connection is returned as an error, with at most 8 dials.
//
// Every candidate is re-run alone three times and reported only if it reproduces every time.

import (
	"context"
	"crypto/tls"
	"encoding/json"
	"fmt"
	"io"
	"log"
	"net"
	"runtime"
	"sort"
	"strings"
	"sync"
	"sync/atomic"
	"syscall"
	"time"

	"github.com/IrineSistiana/mosproxy/internal/dnsmsg"
	"github.com/IrineSistiana/mosproxy/internal/pool"
	"github.com/IrineSistiana/mosproxy/internal/upstream"
	"github.com/IrineSistiana/mosproxy/internal/upstream/transport"
	"github.com/IrineSistiana/mosproxy/verif/internal/gen"
	"github.com/IrineSistiana/mosproxy/verif/internal/scripted"
)

func init() {
	register(&Check{ID: "C14", Level: "fault_enumeration",
		Rule: "cells (transport, step, kind): transport in {udp, tcp, tcp+pipeline, tls, tls+pipeline, http, https(h2), quic via NewUpstream; ctor-pipeline, ctor-reuse via exported constructors + fault-injecting DialContext}; " +
			"step/kind in {dial: refuse | never-completes | tls-stall | accept-and-silent; after-write (first query on a fresh connection): silent | half frame | garbage frame | FIN | RST; mid-reply: stall | FIN | RST | garbage; " +
			"idle (between two exchanges, 1-4 pooled connections): FIN | RST | garbage | half frame | silent; waiters (20 exchanges on one multiplexed connection): FIN | RST | garbage}; cells that make no sense for a transport are skipped and counted. " +
			"Plus connection churn (server ends a connection by FIN / RST / half close after its 40th-80th reply while 12 callers keep exchanging; also with a connection whose Close takes 25 ms: every exchange must succeed in time), pooled one-at-a-time connections reused at the moment their 30 ms idle timer fires (24 callers pausing 25-35 ms, Close takes 300 us), bursts of 7-20 concurrent exchanges followed by silence beyond the idle time-out and one more exchange, a pooled pipelined connection that goes silent while a query is written to it every 40 ms (idle time-out 300 ms), and the UDP-to-TCP fallback (TC=1, TCP side silent / garbage / close / slow / refuse, deadlines 300-900 ms). Quick runs every cell once, thorough 30 times with jittered deadlines and delays. One evaluation = one exchange judged by T1 (+ T2/T3/T4 where the cell says so). Distinct non-trivial cases = distinct tuples (transport, step, kind, stale connections, outcome class of the judged exchange)",
		Run: runC14})
}

const (
	c14Slack   = 1500 * time.Millisecond
	c14T3Bound = 3 * time.Second
	c14GiveUp  = 8 * time.Second
)

var c14Transports = []string{"udp", "tcp", "tcp+pipeline", "tls", "tls+pipeline", "http", "https", "quic", "ctor-pipeline", "ctor-reuse"}

type c14Cell struct {
	Transport string `json:"transport"`
	Step      string `json:"step"`
	Kind      string `json:"kind"`
	Rep       int    `json:"rep"`
}

func (cl c14Cell) String() string { return cl.Transport + "/" + cl.Step + "/" + cl.Kind }

type c14Rec struct {
	Name     string `json:"qname"`
	Role     string `json:"role"`
	DeadMs   int    `json:"deadline_ms"`
	TCall    int64  `json:"t_call_ns"`
	TRet     int64  `json:"t_return_ns"`
	TookMs   int64  `json:"took_ms"`
	ErrClass string `json:"result"`
	Err      string `json:"err,omitempty"`
	Returned bool   `json:"returned_msg"`
	NonceOK  bool   `json:"nonce_is_from_this_server"`
	IDOK     bool   `json:"caller_id_restored"`
}

type c14Finding struct {
	Sig  string `json:"signature"`
	What string `json:"what"`
}

type c14Witness struct {
	Cell    c14Cell    `json:"cell"`
	Finding c14Finding `json:"finding"`
	Records []c14Rec   `json:"exchanges"`
	Dials   int        `json:"dials"`
	Stale   int        `json:"stale_connections"`
	Confirm []string   `json:"confirmation_runs,omitempty"`
	T0      int64      `json:"t0_ns,omitempty"`
	Extra   string     `json:"note,omitempty"`
}

type c14Result struct {
	Cell     c14Cell
	Skipped  string
	Inconcl  string
	Records  []c14Rec
	Findings []c14Finding
	Dials    int
	DialsOK  bool
	Stale    int
	T0       int64
	Judged   string // outcome class of the judged exchange
}

// ---------------------------------------------------------------- backends

type c14Backend struct {
	tname   string
	target  string // server | refuse | blackhole | hold
	url     string
	opt     upstream.Opt
	srv     *scripted.Server // log + script (nil for pure sinks)
	doh2    *scripted.DoH2
	doq     *scripted.DoQ
	dialer  *scripted.Dialer
	hold    *scripted.HoldListener
	ctrlN   atomic.Int64
	script  atomic.Value // func(q *scripted.Query) scripted.Action
	closers []func()
}

func (b *c14Backend) close() {
	for i := len(b.closers) - 1; i >= 0; i-- {
		b.closers[i]()
	}
}

func (b *c14Backend) setScript(f func(q *scripted.Query) scripted.Action) { b.script.Store(f) }

func (b *c14Backend) run(q *scripted.Query) scripted.Action {
	if f, ok := b.script.Load().(func(q *scripted.Query) scripted.Action); ok && f != nil {
		return f(q)
	}
	return scripted.Action{}
}

func c14Stream(t string) bool {
	switch t {
	case "tcp", "tcp+pipeline", "tls", "tls+pipeline", "http", "ctor-pipeline", "ctor-reuse":
		return true
	}
	return false
}

func c14TLS(t string) bool { return t == "tls" || t == "tls+pipeline" || t == "https" }

// c14NewBackend creates the peer for one cell.
func c14NewBackend(tname, target string) (*c14Backend, error) {
	b := &c14Backend{tname: tname, target: target}
	b.opt.TLSConfig = &tls.Config{InsecureSkipVerify: true}
	b.opt.Control = func(network, address string, c syscall.RawConn) error { b.ctrlN.Add(1); return nil }
	scheme := tname
	switch tname {
	case "ctor-pipeline", "ctor-reuse":
		scheme = ""
	}
	fail := func(err error) (*c14Backend, error) { b.close(); return nil, err }
	var addr string
	switch target {
	case "refuse":
		if tname == "udp" || tname == "quic" {
			a, err := scripted.ClosedUDPPort()
			if err != nil {
				return fail(err)
			}
			addr = a
		} else {
			rp, err := scripted.NewRefusePort()
			if err != nil {
				return fail(err)
			}
			b.closers = append(b.closers, rp.Close)
			addr = rp.Addr()
		}
	case "blackhole":
		if tname == "quic" || tname == "udp" {
			s, err := scripted.NewUDPSink()
			if err != nil {
				return fail(err)
			}
			b.closers = append(b.closers, s.Close)
			addr = s.Addr()
		} else {
			bh, err := scripted.NewBlackhole()
			if err != nil {
				return fail(err)
			}
			b.closers = append(b.closers, bh.Close)
			addr = bh.Addr()
		}
	case "hold":
		h, err := scripted.NewHoldListener()
		if err != nil {
			return fail(err)
		}
		b.hold = h
		b.closers = append(b.closers, h.Close)
		addr = h.Addr()
	case "server":
		switch tname {
		case "https":
			d, err := scripted.NewDoH2(b.run)
			if err != nil {
				return fail(err)
			}
			b.doh2, b.srv = d, d.Server
			b.closers = append(b.closers, d.Close)
			addr = d.Addr()
		case "quic":
			d, err := scripted.NewDoQ(b.run)
			if err != nil {
				return fail(err)
			}
			b.doq, b.srv = d, d.Server
			b.closers = append(b.closers, d.Close)
			addr = d.Addr()
		case "udp":
			l, u, port, err := scripted.ListenTCPUDP()
			if err != nil {
				return fail(err)
			}
			l.Close() // TC is never set here; the TCP side of the port stays unused
			u.SetReadBuffer(1 << 20)
			b.srv = scripted.NewServer(b.run)
			b.srv.ServePacket(u)
			b.closers = append(b.closers, b.srv.Close)
			addr = fmt.Sprintf("127.0.0.1:%d", port)
		default:
			l, err := net.Listen("tcp4", "127.0.0.1:0")
			if err != nil {
				return fail(err)
			}
			addr = l.Addr().String()
			b.srv = scripted.NewServer(b.run)
			if tname == "http" {
				b.srv.Codec = scripted.HTTP1{RawGarbage: true}
				b.srv.Proto = "http"
			}
			if c14TLS(tname) {
				cfg, err := scripted.ServerTLS()
				if err != nil {
					l.Close()
					return fail(err)
				}
				l = tls.NewListener(l, cfg)
				b.srv.Proto = "tls"
			}
			b.srv.ServeStream(l)
			b.closers = append(b.closers, b.srv.Close)
		}
	}
	switch tname {
	case "http", "https":
		b.url = scheme + "://" + addr + "/dns-query"
	case "ctor-pipeline", "ctor-reuse":
		b.dialer = &scripted.Dialer{Network: "tcp", Addr: addr}
	default:
		b.url = scheme + "://" + addr
	}
	return b, nil
}

func (b *c14Backend) newTransport() (transport.Transport, error) {
	switch b.tname {
	case "ctor-pipeline":
		return transport.NewPipelineTransport(transport.PipelineOpts{DialContext: b.dialer.DialContext, IsTCP: true, MaxConcurrentQuery: 64}), nil
	case "ctor-reuse":
		return transport.NewReuseConnTransport(transport.ReuseConnOpts{DialContext: b.dialer.DialContext}), nil
	}
	return upstream.NewUpstream(b.url, b.opt)
}

// dials: number of connection attempts the transport made (ok=false: not observable for this cell).
func (b *c14Backend) dials() (int, bool) {
	switch {
	case b.dialer != nil:
		return b.dialer.Dials(), true
	case b.tname == "quic":
		if b.doq != nil {
			return b.doq.Accepts(), true
		}
		return 0, false
	case b.tname == "udp":
		return int(b.ctrlN.Load()), true
	default:
		return int(b.ctrlN.Load()), true
	}
}

// openConns: connections the server currently holds open.
func (b *c14Backend) openConns() int {
	switch {
	case b.doh2 != nil:
		return len(b.doh2.OpenRaw())
	case b.doq != nil:
		return b.doq.Open()
	case b.srv != nil:
		return len(b.srv.LiveConns())
	}
	return 0
}

// faultAll applies kind to every connection the server holds; returns how many.
func (b *c14Backend) faultAll(kind string) int {
	switch {
	case b.doh2 != nil:
		return b.doh2.FaultAll(kind)
	case b.doq != nil:
		return b.doq.FaultAll(kind)
	case b.srv != nil:
		cs := b.srv.LiveConns()
		for _, sc := range cs {
			switch kind {
			case "fin":
				sc.FIN()
			case "rst":
				sc.RST()
			case "garbage":
				sc.SendGarbage()
			case "half":
				sc.SendHalfFrame()
			}
		}
		return len(cs)
	}
	return 0
}

// ---------------------------------------------------------------- exchanges

var c14Seq atomic.Int64

func c14Exchange(b *c14Backend, tr transport.Transport, role string, deadline time.Duration) c14Rec {
	n := c14Seq.Add(1)
	rec := c14Rec{Name: fmt.Sprintf("x%d.c14.test.", n), Role: role, DeadMs: int(deadline / time.Millisecond)}
	id := uint16(n*7919 + 13)
	q := scripted.BuildQuery(id, rec.Name, 28, 1)
	ctx, cancel := context.WithTimeout(context.Background(), deadline)
	rec.TCall = int64(scripted.Now())
	type out struct {
		m   *dnsmsg.Msg
		err error
	}
	ch := make(chan out, 1)
	go func() {
		m, err := tr.ExchangeContext(ctx, q)
		ch <- out{m, err}
	}()
	var m *dnsmsg.Msg
	var err error
	select {
	case o := <-ch:
		m, err = o.m, o.err
	case <-time.After(deadline + c14GiveUp):
		// far beyond the slack: judged as late by T1; do not wait out internal time-outs of up to a minute
		err = fmt.Errorf("no return %v after the deadline; exchange abandoned by the harness", c14GiveUp)
	}
	rec.TRet = int64(scripted.Now())
	cancel()
	rec.TookMs = (rec.TRet - rec.TCall) / 1e6
	rec.ErrClass = upErrClass(err)
	rec.Err = upShort(err)
	if m != nil {
		rec.Returned = true
		rec.IDOK = m.Header.ID == id
		if nonce, _, ok := upNonce(m); ok && b.srv != nil {
			for _, r := range b.srv.Snapshot().Replies {
				if r.Nonce == nonce {
					rec.NonceOK = true
				}
			}
		}
		dnsmsg.ReleaseMsg(m)
	}
	return rec
}

func (res *c14Result) finding(sig, what string) {
	res.Findings = append(res.Findings, c14Finding{Sig: sig + ":" + res.Cell.String(), What: what})
}

// judgeT1 applies T1 (and the sanity of a returned message) to rec.
func (res *c14Result) judgeT1(rec c14Rec) {
	late := time.Duration(rec.TRet-rec.TCall) - time.Duration(rec.DeadMs)*time.Millisecond
	if late > c14Slack {
		res.finding("T1:late-return", fmt.Sprintf("cell %s: exchange %q (%s) returned %v after its %d ms deadline (result %s %s)", res.Cell, rec.Name, rec.Role, late, rec.DeadMs, rec.ErrClass, rec.Err))
	}
	if rec.Returned && (!rec.NonceOK || !rec.IDOK) {
		res.finding("returned-foreign-message", fmt.Sprintf("cell %s: exchange %q returned a message that is not a reply of this server with the caller's id (nonce ok %v, id ok %v)", res.Cell, rec.Name, rec.NonceOK, rec.IDOK))
	}
}

// ---------------------------------------------------------------- cells

func c14Cells() []c14Cell {
	var cells []c14Cell
	for _, t := range c14Transports {
		for _, k := range []string{"refuse", "never-completes", "tls-stall", "accept-and-silent"} {
			cells = append(cells, c14Cell{Transport: t, Step: "dial", Kind: k})
		}
		for _, k := range []string{"silent", "half", "garbage", "fin", "rst"} {
			cells = append(cells, c14Cell{Transport: t, Step: "after-write", Kind: k})
		}
		for _, k := range []string{"stall", "fin", "rst", "garbage"} {
			cells = append(cells, c14Cell{Transport: t, Step: "mid-reply", Kind: k})
		}
		for _, k := range []string{"fin", "rst", "garbage", "half", "silent"} {
			cells = append(cells, c14Cell{Transport: t, Step: "idle", Kind: k})
		}
		for _, k := range []string{"fin", "rst", "garbage"} {
			cells = append(cells, c14Cell{Transport: t, Step: "waiters", Kind: k})
		}
	}
	return cells
}

// c14Skip says why a cell makes no sense for a transport ("" = run it).
func c14Skip(cl c14Cell) string {
	t := cl.Transport
	switch cl.Step {
	case "dial":
		switch cl.Kind {
		case "never-completes":
			if t == "udp" {
				return "a UDP socket has no connection establishment"
			}
		case "tls-stall":
			if !c14TLS(t) {
				return "no TLS handshake"
			}
		case "accept-and-silent":
			if t == "udp" || t == "quic" || c14TLS(t) {
				return "same as never-completes / tls-stall for this transport"
			}
		}
	case "after-write":
		if t == "udp" && (cl.Kind == "fin" || cl.Kind == "rst") {
			return "no FIN/RST on a UDP socket"
		}
	case "mid-reply":
		if t == "udp" {
			return "datagrams are atomic"
		}
	case "idle":
		if t == "udp" && (cl.Kind == "fin" || cl.Kind == "rst" || cl.Kind == "silent") {
			return "no connection state on the server side of a UDP socket"
		}
		if t == "quic" && (cl.Kind == "garbage" || cl.Kind == "half") {
			return "cannot inject octets into an encrypted QUIC connection"
		}
	case "waiters":
		switch t {
		case "tcp+pipeline", "tls+pipeline", "ctor-pipeline":
		case "quic":
			if cl.Kind == "garbage" {
				return "cannot inject octets into an encrypted QUIC connection"
			}
		default:
			return "transport does not multiplex exchanges on one connection that the server can kill"
		}
	}
	return ""
}

func c14FaultAction(step, kind string) scripted.Action {
	a := scripted.Action{Tag: step + "/" + kind}
	switch step {
	case "after-write":
		a.Drop = true
		switch kind {
		case "half":
			a.After = []scripted.Extra{{Kind: scripted.ExtraHalfFrame}}
		case "garbage":
			a.After = []scripted.Extra{{Kind: scripted.ExtraGarbage}}
		case "fin":
			a.End = scripted.EndFIN
		case "rst":
			a.End = scripted.EndRST
		}
	case "mid-reply":
		a.AbortTail = 20
		switch kind {
		case "stall":
			a.End = scripted.EndPoison
		case "fin":
			a.End = scripted.EndFIN
		case "rst":
			a.End = scripted.EndRST
		case "garbage":
			a.After = []scripted.Extra{{Kind: scripted.ExtraGarbage}}
			a.End = scripted.EndPoison
		}
	}
	return a
}

func c14RunCell(seed int64, cl c14Cell) (res *c14Result) {
	res = &c14Result{Cell: cl}
	if why := c14Skip(cl); why != "" {
		res.Skipped = why
		return
	}
	r := gen.New(seed, "c14-"+cl.String(), cl.Rep)
	deadline := time.Duration(r.Range(300, 1000)) * time.Millisecond
	jitter := func(lo, hi int) time.Duration { return time.Duration(r.Range(lo, hi)) * time.Millisecond }

	target := "server"
	if cl.Step == "dial" {
		switch cl.Kind {
		case "refuse":
			target = "refuse"
		case "never-completes":
			target = "blackhole"
		case "tls-stall", "accept-and-silent":
			target = "hold"
		}
	}
	ctor := cl.Transport == "ctor-pipeline" || cl.Transport == "ctor-reuse"
	if ctor && cl.Step == "dial" && cl.Kind != "accept-and-silent" {
		target = "refuse" // address unused: the Dialer itself refuses / hangs
	}
	b, err := c14NewBackend(cl.Transport, target)
	if err != nil {
		res.Inconcl = "backend: " + err.Error()
		return
	}
	defer b.close()
	if ctor && cl.Step == "dial" {
		switch cl.Kind {
		case "refuse":
			b.dialer.SetMode(scripted.DialRefuse)
		case "never-completes":
			b.dialer.SetMode(scripted.DialHang)
		}
	}
	tr, err := b.newTransport()
	if err != nil {
		res.Inconcl = "NewUpstream: " + err.Error()
		return
	}
	defer func() {
		done := make(chan struct{})
		go func() { tr.Close(); close(done) }()
		select {
		case <-done:
		case <-time.After(5 * time.Second):
		}
	}()
	defer func() {
		res.Dials, res.DialsOK = b.dials()
	}()

	switch cl.Step {
	case "dial", "after-write", "mid-reply":
		if target == "server" {
			act := c14FaultAction(cl.Step, cl.Kind)
			b.setScript(func(q *scripted.Query) scripted.Action { return act })
		}
		rec := c14Exchange(b, tr, "first exchange, fresh connection", deadline)
		res.Records = append(res.Records, rec)
		res.Judged = rec.ErrClass
		res.judgeT1(rec)
		// T4: an error, and a bounded number of dials
		if rec.Returned {
			res.finding("T4:message-from-a-failing-server", fmt.Sprintf("cell %s: the only peer behaviour was %s/%s, yet exchange %q returned a message", cl, cl.Step, cl.Kind, rec.Name))
		}
		if n, ok := b.dials(); ok && n > 8 {
			res.finding("T4:unbounded-redial", fmt.Sprintf("cell %s: %d dials for one exchange on a fresh connection", cl, n))
		}
		// a second exchange meets the same peer (possibly on the wedged pooled connection): T1 again
		time.Sleep(jitter(0, 30))
		rec2 := c14Exchange(b, tr, "second exchange, same faulty peer", time.Duration(r.Range(300, 700))*time.Millisecond)
		res.Records = append(res.Records, rec2)
		res.judgeT1(rec2)
		if n, ok := b.dials(); ok && n > 16 {
			res.finding("T4:unbounded-redial", fmt.Sprintf("cell %s: %d dials for two exchanges", cl, n))
		}

	case "idle":
		k := 1
		switch cl.Transport {
		case "tcp", "tls", "ctor-reuse":
			k = r.Range(1, 4)
		}
		var faultAt atomic.Int64 // connections with id < faultAt existed before the fault
		faultAt.Store(-1)
		warmDelay := 0 * time.Millisecond
		if k > 1 {
			warmDelay = 150 * time.Millisecond
		}
		b.setScript(func(q *scripted.Query) scripted.Action {
			fa := faultAt.Load()
			if fa < 0 {
				return scripted.Action{Tag: "warm-up", Delay: warmDelay}
			}
			if cl.Kind == "silent" && int64(q.Conn) < fa {
				return scripted.Action{Tag: "silent-on-old-connection", Drop: true}
			}
			return scripted.Action{Tag: "healthy"}
		})
		// warm-up: k concurrent exchanges => k pooled connections
		warm := make([]c14Rec, k)
		var wg sync.WaitGroup
		for i := 0; i < k; i++ {
			wg.Add(1)
			go func(i int) {
				defer wg.Done()
				warm[i] = c14Exchange(b, tr, "warm-up", 4*time.Second)
			}(i)
		}
		wg.Wait()
		for _, w := range warm {
			res.Records = append(res.Records, w)
			res.judgeT1(w)
			if !w.Returned {
				res.Inconcl = fmt.Sprintf("warm-up exchange against a healthy server failed: %s %s", w.ErrClass, w.Err)
			}
		}
		if res.Inconcl != "" {
			return
		}
		time.Sleep(jitter(20, 60)) // connections settle in the pool
		res.Stale = b.openConns()
		if cl.Transport == "udp" {
			res.Stale = 1
		}
		n := len(b.srv.Snapshot().Conns)
		if cl.Kind != "silent" {
			b.faultAll(cl.Kind)
		}
		faultAt.Store(int64(n))
		time.Sleep(jitter(60, 200))
		t2 := cl.Kind == "fin" || cl.Kind == "rst" || cl.Kind == "garbage"
		if cl.Transport == "udp" {
			t2 = true // junk datagrams must not disturb the next exchange
		}
		d2 := deadline
		if t2 {
			d2 = 3 * time.Second
		}
		rec := c14Exchange(b, tr, "exchange after the idle-time fault", d2)
		res.Records = append(res.Records, rec)
		res.Judged = rec.ErrClass
		res.judgeT1(rec)
		if t2 {
			if !rec.Returned {
				res.finding("T2:failed-on-stale-connection", fmt.Sprintf("cell %s: %d pooled connection(s) hit by %s while idle, server healthy on new connections, yet exchange %q failed after %d ms: %s %s",
					cl, res.Stale, cl.Kind, rec.Name, rec.TookMs, rec.ErrClass, rec.Err))
			}
			if nd, ok := b.dials(); ok && nd > 1+res.Stale+1 {
				res.finding("T2:too-many-dials", fmt.Sprintf("cell %s: %d dials in total with %d stale connection(s)", cl, nd, res.Stale))
			}
		}

	case "waiters":
		const nWait = 20
		b.setScript(func(q *scripted.Query) scripted.Action {
			if q.Conn == 0 {
				return scripted.Action{Tag: "withheld-on-first-connection", Drop: true}
			}
			return scripted.Action{Tag: "healthy"}
		})
		recs := make([]c14Rec, nWait)
		var wg sync.WaitGroup
		for i := 0; i < nWait; i++ {
			wg.Add(1)
			go func(i int) {
				defer wg.Done()
				recs[i] = c14Exchange(b, tr, "waiter", 10*time.Second)
			}(i)
		}
		// wait until the queries sit on the first connection
		waitUntil := time.Now().Add(2 * time.Second)
		for time.Now().Before(waitUntil) && b.srv.QueryCount() < nWait {
			time.Sleep(5 * time.Millisecond)
		}
		onFirst := b.srv.QueryCount()
		time.Sleep(jitter(10, 80))
		t0 := scripted.Now()
		res.T0 = int64(t0)
		b.faultAll(cl.Kind)
		wg.Wait()
		res.Stale = onFirst
		worst := time.Duration(0)
		for _, rec := range recs {
			res.Records = append(res.Records, rec)
			res.judgeT1(rec)
			after := time.Duration(rec.TRet) - t0
			if after > worst {
				worst = after
				res.Judged = rec.ErrClass
			}
		}
		if worst > c14T3Bound {
			res.finding("T3:waiters-outlive-their-connection", fmt.Sprintf("cell %s: %d queries were waiting on the first connection when the server applied %s at t0; the last waiter returned %v after t0 (bound %v)", cl, onFirst, cl.Kind, worst, c14T3Bound))
		}
		if onFirst < nWait {
			res.Inconcl = fmt.Sprintf("only %d of %d queries had reached the first connection at t0", onFirst, nWait)
		}
	}
	return
}

// ---------------------------------------------------------------- driver

func runC14(c *Ctx) {
	upQuietRace(c)
	pool.VerifSetQuarantine(0)
	log.SetOutput(io.Discard) // net/http reports unsolicited octets on idle connections through the std logger
	if runtime.NumCPU() > 8 {
		runtime.GOMAXPROCS(8)
	}
	if _, err := scripted.SelfSignedCert(); err != nil {
		c.Inconclusive("certificate: " + err.Error())
		return
	}
	if c.Replay != nil {
		var w c14Witness
		json.Unmarshal(c.Replay.Case, &w)
		c14Confirm(c, w.Cell, w.Finding, nil)
		return
	}
	reps := c.N(1, 30)
	var cells []c14Cell
	for rep := 0; rep < reps; rep++ {
		for _, cl := range c14Cells() {
			cl.Rep = rep
			cells = append(cells, cl)
		}
	}
	gen.New(c.Seed, "c14-order", 0).Shuffle(len(cells), func(i, j int) { cells[i], cells[j] = cells[j], cells[i] })
	results := make([]*c14Result, len(cells))
	satDone := make(chan struct{})
	go func() { defer close(satDone); c14Saturated(c) }() // about 5 s of waiting: overlaps with the matrix
	parallelFor(len(cells), 40, nil, func(i int) {
		results[i] = c14RunCell(c.Seed, cells[i])
	})
	defer func() { <-satDone }()
	exDone := make(chan struct{})
	go func() { defer close(exDone); c14Exhaust(c) }()
	c14Churn(c)
	c14IdleEdge(c)
	c14BurstThenIdle(c)
	c14SilentStall(c)
	c14Fallback(c)
	<-exDone
	type cand struct {
		res *c14Result
		f   c14Finding
	}
	var cands []cand
	skipped := map[string]bool{}
	var maxOver int64
	for _, res := range results {
		cl := res.Cell
		if res.Skipped != "" {
			if !skipped[cl.String()] {
				skipped[cl.String()] = true
				c.Ev.Count("cells_not_applicable", 1)
			}
			continue
		}
		if res.Inconcl != "" {
			c.Inconclusive("cell " + cl.String() + ": " + res.Inconcl)
		}
		c.Ev.Eval(len(res.Records))
		c.Ev.Count("cells_run", 1)
		c.Ev.Count("cells_run:"+cl.Step, 1)
		c.Ev.Count("outcome:"+cl.Step+"/"+cl.Kind+":"+res.Judged, 1)
		c.Ev.Count("transport:"+cl.Transport+":"+res.Judged, 1)
		for _, rec := range res.Records {
			c.Ev.Count("exchanges:"+rec.ErrClass, 1)
			if over := rec.TookMs - int64(rec.DeadMs); rec.ErrClass == "ctx-deadline" && over > maxOver {
				maxOver = over
			}
		}
		if res.DialsOK {
			c.Ev.Count("dials_counted", int64(res.Dials))
		}
		if cl.Step == "idle" && res.Judged == "ok" {
			c.Ev.Count("stale_connections_survived", int64(res.Stale))
			c.Ev.Count(fmt.Sprintf("idle_fault_survived:%s:stale=%d", cl.Kind, res.Stale), 1)
		}
		if cl.Step == "waiters" {
			c.Ev.Count("waiters_released", int64(len(res.Records)))
		}
		c.Ev.Distinct(cl.Transport, cl.Step, cl.Kind, res.Stale, res.Judged)
		c.Ev.Sample(map[string]any{"cell": cl.String(), "stale_connections": res.Stale, "exchanges_judged": res.Judged, "records": len(res.Records)})
		for _, f := range res.Findings {
			cands = append(cands, cand{res, f})
		}
	}
	// confirmation: re-run the cell three times on a quiet harness (at most 4 cells at a time, they mostly wait)
	sort.Slice(cands, func(i, j int) bool { return cands[i].f.Sig < cands[j].f.Sig })
	seen := map[string]bool{}
	perRule := map[string]int{}
	var todo []cand
	for _, cd := range cands {
		c.Ev.Count("candidates", 1)
		if seen[cd.f.Sig] || c.Seen(cd.f.Sig) {
			continue
		}
		seen[cd.f.Sig] = true
		rule := strings.SplitN(cd.f.Sig, ":", 2)[0]
		if perRule[rule] >= 4 {
			c.Ev.Count("candidates_not_rerun_(already_4_of_this_rule)", 1)
			continue
		}
		perRule[rule]++
		todo = append(todo, cd)
	}
	parallelFor(len(todo), 4, nil, func(i int) {
		c14Confirm(c, todo[i].res.Cell, todo[i].f, todo[i].res)
	})
	c.Ev.Set("max_ms_past_deadline_of_a_deadline_return", maxOver)
	c.Ev.Set("race_reports_logged_not_judged_here", upRaceReports(c))
}

// c14Confirm re-runs a cell alone three times; the finding is reported only if it shows up every time.
func c14Confirm(c *Ctx, cl c14Cell, f c14Finding, first *c14Result) {
	var notes []string
	var last *c14Result
	repro := 0
	for k := 0; k < 3; k++ {
		res := c14RunCell(c.Seed, cl)
		c.Ev.Eval(len(res.Records))
		hit := false
		for _, g := range res.Findings {
			if g.Sig == f.Sig {
				hit = true
				f.What = g.What
			}
		}
		notes = append(notes, fmt.Sprintf("re-run %d: reproduced=%v inconclusive=%q findings=%d", k, hit, res.Inconcl, len(res.Findings)))
		if hit {
			repro++
			last = res
		}
	}
	c.Ev.Count("candidates_rerun", 1)
	if repro < 3 {
		c.Ev.Count("candidates_not_reproduced", 1)
		return
	}
	w := c14Witness{Cell: cl, Finding: f, Records: last.Records, Dials: last.Dials, Stale: last.Stale, T0: last.T0, Confirm: notes}
	c.Violation(f.Sig, f.What+" (reproduced 3/3 when re-run alone)", w)
}
