package main

import (
	"encoding/binary"
	"fmt"
	"strings"
	"sync/atomic"
	"time"

	"github.com/miekg/dns"
)

// paddedQuery builds a valid query for name of exactly n octets: header, one question, an OPT
// record with one EDNS0 padding option (RFC 7830) whose length makes up the difference. It returns
// nil when n is too small for that.
func paddedQuery(id uint16, name string, n int) []byte {
	m := new(dns.Msg)
	m.Id = id
	m.RecursionDesired = true
	m.Question = []dns.Question{{Name: dns.Fqdn(name), Qtype: dns.TypeA, Qclass: dns.ClassINET}}
	b, err := m.Pack()
	if err != nil {
		panic(err)
	}
	pad := n - len(b) - 11 - 4
	if pad < 0 || pad > 65000 {
		return nil
	}
	binary.BigEndian.PutUint16(b[10:], 1) // ARCOUNT
	b = append(b, 0, 0, 41, 0x10, 0, 0, 0, 0, 0)
	b = binary.BigEndian.AppendUint16(b, uint16(4+pad))
	b = append(b, 0, 12)
	b = binary.BigEndian.AppendUint16(b, uint16(pad))
	b = append(b, make([]byte, pad)...)
	return b
}

// sweepSizes: every size from 64 to 1100 octets, then the neighbourhood of every power of two up
// to the largest message a transport can carry.
func sweepSizes(max int) []int {
	var out []int
	for n := 64; n <= 1100 && n <= max; n++ {
		out = append(out, n)
	}
	for k := 11; k <= 16; k++ {
		for d := -3; d <= 2; d++ {
			if n := 1<<k + d; n > 1100 && n <= max {
				out = append(out, n)
			}
		}
	}
	return out
}

type sweepVariant struct {
	Listener, Method string
	Max              int
}

// what each way of asking can carry: UDP queries beyond the listener's receive buffer are not
// this sweep's business, a GET carries the query in the URL (kept below the servers' header limits)
var sweepVariants = []sweepVariant{
	{"udp", "", 1232}, {"tcp", "", 65535}, {"gnet", "", 65535}, {"tls", "", 65535}, {"quic", "", 65535},
	{"http", "GET", 2050}, {"http", "POST", 65535}, {"fasthttp", "GET", 2050}, {"fasthttp", "POST", 65535}, {"https", "GET", 2050}, {"https", "POST", 65535},
}

// sizeSweep sends one valid padded query of every sweep size over every listener kind / method, each
// on a connection of its own, and calls judge with what came back (resp == nil: no response).
// It returns the number of queries sent.
func sizeSweep(c *Ctx, b *Bed, tag string, par int, judge func(v sweepVariant, n int, name string, x xResult)) int {
	type job struct {
		v sweepVariant
		n int
	}
	var jobs []job
	for _, v := range sweepVariants {
		if _, ok := b.L[v.Listener]; !ok {
			continue
		}
		for _, n := range sweepSizes(v.Max) {
			jobs = append(jobs, job{v, n})
		}
	}
	var sent atomic.Int64
	parallelFor(len(jobs), par, func() bool { return !b.Proxy.Alive() || c.ViolationCount() >= 10 }, func(i int) {
		j := jobs[i]
		name := fmt.Sprintf("ok-n1-%s%d%sx%d.pipe.test.", tag, j.n, strings.ToLower(j.v.Listener[:2]+j.v.Method), c.Seed)
		wire := paddedQuery(uint16(j.n), name, j.n)
		if wire == nil {
			return
		}
		sent.Add(1)
		x := b.Exchange(j.v.Listener, wire, xOpts{Timeout: 8 * time.Second, Method: j.v.Method})
		judge(j.v, j.n, name, x)
	})
	return int(sent.Load())
}
