package main

// C09 — responses respect the size limit and truncate well-formedly.
// This file holds the in-process part: Msg.Pack(b, compress, size) called the
// way the router's packResp / packRespTCP call it, judged with the reference
// decoder (internal/refmsg), mosproxy's own decoder and miekg/dns.

import (
	"encoding/hex"
	"encoding/json"
	"fmt"
	"strings"

	"github.com/IrineSistiana/mosproxy/internal/dnsmsg"
	"github.com/IrineSistiana/mosproxy/internal/pool"
	"github.com/IrineSistiana/mosproxy/verif/internal/gen"
	"github.com/IrineSistiana/mosproxy/verif/internal/refmsg"
	"github.com/miekg/dns"
)

func init() {
	register(&Check{ID: "C09", Level: "exploration",
		Rule: "generated response messages (0-40 records; every 40th one 400-800 address records under one long owner name: a few kB compressed, 80-160 kB uncompressed; at most one root-owned OPT with <= 64 option octets at any position of the additional section) x size limits " +
			"(0, 1..511, 512..65535 incl. Len() and every record end, each -1/+0/+1, with and without the OPT length added) x compression on/off x UDP/TCP calling convention; " +
			"one (message, compress, size, convention) tuple = one evaluation; non-trivial = the limit forces an omission or lies within +-1 of Len() or of a record end; distinct by the tuple",
		Run: runC09})
}

func runC09(c *Ctx) {
	if c.Replay != nil {
		var cs c09Case
		if err := json.Unmarshal(c.Replay.Case, &cs); err != nil {
			c.Inconclusive("bad replay case: " + err.Error())
			return
		}
		w, _ := hex.DecodeString(cs.W)
		m, err := refmsg.Decode(w)
		if err != nil {
			c.Inconclusive("replay wire is not reference-decodable: " + err.Error())
			return
		}
		pool.VerifSetQuarantine(0)
		var cnt counterSet
		c09One(c, &cnt, m, w, cs.Compress, cs.Size, cs.TCP, false)
		cnt.flush(c)
		c.Ev.Eval(1)
		return
	}
	c09InProcess(c)
	c09E2E(c)
	c09Refused(c)
}

type c09Case struct {
	W        string `json:"message_wire_hex"`
	Compress bool   `json:"compress"`
	Size     int    `json:"size"`
	TCP      bool   `json:"tcp_convention"`
	Out      string `json:"packed_hex,omitempty"`
}

const c09PerMsg = 8

func c09InProcess(c *Ctx) {
	pool.VerifSetQuarantine(0)
	defer relaxGC()()
	nCases := c.N(20000, 1000000)
	nMsgs := (nCases + c09PerMsg - 1) / c09PerMsg
	var cnt counterSet
	parallelFor(nMsgs, 0, func() bool { return c.ViolationCount() >= 20 }, func(idx int) {
		r := gen.New(c.Seed, "c09", idx)
		o := refmsg.GenOpts{Response: true, BigP: 0.02}
		if r.P(0.06) {
			o.BigP = 0.6 // messages beyond 65535 octets for the stream conventions
		}
		m, _ := refmsg.Gen(r, o)
		pComp := 0.5
		if idx%40 == 7 {
			// a record set that is small on the wire thanks to name compression (a few kB) and far
			// beyond 65535 octets without it: what "no limit" (the cache's encoding) and the 65535
			// limit of the stream conventions mean differs exactly here
			m = c09HugeMsg(r)
			pComp = 1
		}
		w, _ := refmsg.Encode(m, r, pComp)
		_, play := refmsg.Encode(m, nil, 0)
		L := m.WireLen()
		optLen := 0
		for i := range m.Additionals {
			if m.Additionals[i].Type == refmsg.TypeOPT {
				optLen = m.Additionals[i].WireLen()
			}
		}
		// candidate limits
		var ends []int
		ends = append(ends, play.QEnds...)
		for _, rl := range play.RRs {
			ends = append(ends, rl.End)
		}
		var boundary []int
		for _, e := range ends {
			for d := -1; d <= 1; d++ {
				boundary = append(boundary, e+d, e+optLen+d)
			}
		}
		lenB := []int{L - 1, L, L + 1}
		fixed := []int{0, 1, 100, 511, 512, 513, 1232, 4096, 65534, 65535, 65536, 70000}
		pick := func(k int) int {
			var v int
			switch {
			case k == 0:
				v = 0
			case k == 1:
				v = gen.Pick(r, lenB)
			case k <= 4 && len(boundary) > 0:
				v = gen.Pick(r, boundary)
			case k == 5:
				v = gen.Pick(r, fixed)
			case k == 6:
				v = r.Range(512, max(513, L+40))
			default:
				v = r.Range(1, 65535)
			}
			if v < 0 {
				v = 0
			}
			return v
		}
		local := map[string]int64{"messages": 1}
		if L > 65535 {
			local["messages_beyond_65535"] = 1
		}
		if optLen > 0 {
			local["messages_with_opt"] = 1
		}
		cnt.merge(local)
		for k := 0; k < c09PerMsg; k++ {
			size := pick(k)
			tcp := false
			if L > 60000 && r.P(0.5) || r.P(0.03) {
				tcp = true
			}
			compress := r.P(0.6)
			c09One(c, &cnt, m, w, compress, size, tcp, idx < 2 && k == 2)
		}
	})
	c.Ev.Eval(int(cnt.get("cases")))
	cnt.flush(c)
	if c.Ev.Counter("cases_with_omission") == 0 {
		c.Inconclusive("no case forced an omission")
	}
}

func c09HugeMsg(r *gen.R) *refmsg.Msg {
	owner := [][]byte{[]byte(strings.Repeat("a", r.Range(40, 63))), []byte(strings.Repeat("b", r.Range(40, 63))), []byte(strings.Repeat("c", r.Range(40, 63))), []byte("test")}
	m := &refmsg.Msg{ID: uint16(r.Intn(65536)), Bits: refmsg.BitQR | refmsg.BitRD | refmsg.BitRA}
	m.Questions = []refmsg.Question{{Name: owner, Type: 1, Class: 1}}
	for i, n := 0, r.Range(400, 800); i < n; i++ {
		m.Answers = append(m.Answers, refmsg.RR{Name: owner, Type: 1, Class: 1, TTL: 300, Data: []refmsg.Part{{Raw: []byte{10, byte(i >> 16), byte(i >> 8), byte(i)}}}})
	}
	if r.Bool() {
		m.Additionals = append(m.Additionals, refmsg.RR{Name: nil, Type: refmsg.TypeOPT, Class: 1232, TTL: 0, Data: []refmsg.Part{{Raw: nil}}})
	}
	return m
}

func rrIndex(list []refmsg.RR, used []bool, x *refmsg.RR) int {
	for i := range list {
		if !used[i] && refmsg.RREqual(&list[i], x) {
			return i
		}
	}
	return -1
}

// equality up to domain names (owner and RDATA names ignored): tells a changed name from a changed order
func rrEqualButNames(a, b *refmsg.RR) bool {
	if a.Type != b.Type || a.Class != b.Class || a.TTL != b.TTL || len(a.Data) != len(b.Data) {
		return false
	}
	for i := range a.Data {
		if a.Data[i].IsName != b.Data[i].IsName || !a.Data[i].IsName && string(a.Data[i].Raw) != string(b.Data[i].Raw) {
			return false
		}
	}
	return true
}

func isSubsequence(sub, full []refmsg.RR, eq func(a, b *refmsg.RR) bool) (int, bool) {
	j := 0
	for i := range sub {
		for j < len(full) && !eq(&full[j], &sub[i]) {
			j++
		}
		if j == len(full) {
			return i, false
		}
		j++
	}
	return 0, true
}

// c09One packs one (message, compress, size, convention) tuple like the router does and judges the output.
func c09One(c *Ctx, cnt *counterSet, m *refmsg.Msg, w []byte, compress bool, size int, tcp bool, sample bool) {
	local := map[string]int64{"cases": 1}
	defer func() { cnt.merge(local) }()

	pm, err := dnsmsg.UnpackMsg(w)
	if err != nil {
		local["message_rejected_by_mosproxy"]++
		return
	}
	L := pm.Len()
	// app/router/server_utils.go: packResp caps size at 65535 and packs into GetBuf(Len());
	// packRespTCP packs into GetBuf(2+Len())[2:] with size 65535.
	var b pool.Buffer
	var body []byte
	callSize := size
	if tcp {
		b = pool.GetBuf(2 + L)
		body = b[2:]
		callSize = 65535
	} else {
		if callSize > 65535 {
			callSize = 65535
		}
		b = pool.GetBuf(L)
		body = b
	}
	n, perr := pm.Pack(body, compress, callSize)
	var out []byte
	if perr == nil {
		out = append([]byte{}, body[:n]...)
	}
	pool.ReleaseBuf(b)
	dnsmsg.ReleaseMsg(pm)

	cs := c09Case{W: hex.EncodeToString(w), Compress: compress, Size: size, TCP: tcp, Out: hex.EncodeToString(out)}
	desc := fmt.Sprintf("Pack(compress=%v, size=%d%s) of a message with Len()=%d, %d/%d/%d records", compress, callSize, map[bool]string{true: ", TCP convention", false: ""}[tcp], L, len(m.Answers), len(m.Authorities), len(m.Additionals))
	viol := func(sig, what string) {
		if c.Seen(sig) {
			return
		}
		c.Violation(sig, desc+": "+what, cs)
	}
	if perr != nil {
		viol("pack-error", fmt.Sprintf("returned error %v", perr))
		return
	}
	eff := 0 // effective limit, 0 = none
	if callSize > 0 {
		eff = max(512, callSize)
	}
	fits := eff == 0 || L <= eff
	if eff > 0 && n > eff {
		viol("too-long", fmt.Sprintf("output has %d octets > limit %d", n, eff))
	}
	if compress {
		local["cases_compressed"]++
	}
	if tcp {
		local["cases_tcp_convention"]++
	}
	if eff == 0 {
		local["cases_no_limit"]++
	}

	if eff > 0 && eff <= L+1 {
		c.Ev.Distinct(hex.EncodeToString(w[:min(len(w), 64)]), len(w), compress, size, tcp)
	}
	d, counts, derr := refmsg.DecodeLenient(out)
	if derr != nil {
		viol("undecodable:reference", fmt.Sprintf("output is malformed: %v", derr))
		return
	}
	present := refmsg.Counts{len(d.Questions), len(d.Answers), len(d.Authorities), len(d.Additionals)}
	strictOK := present == counts
	if !strictOK {
		viol("counts-ne-records", fmt.Sprintf("header counts (qd,an,ns,ar)=%v but the records present are %v: the message does not decode", counts, present))
		// the section of the records present cannot be told any more: only the totals are judged
		if d.NumRecords() < m.NumRecords() {
			local["cases_with_omission"]++
			if !d.TC() {
				viol("omitted-without-tc", fmt.Sprintf("%d of %d records were omitted but TC is not set", m.NumRecords()-d.NumRecords(), m.NumRecords()))
			}
			if fits {
				viol("omitted-although-fits", fmt.Sprintf("%d records omitted although Len()=%d <= limit %d", m.NumRecords()-d.NumRecords(), L, eff))
			}
		}
		return
	}
	if strictOK {
		if pm2, err := dnsmsg.UnpackMsg(out); err != nil {
			if strings.Contains(err.Error(), "too many pointers") {
				// unbounded pointer chains of the compressing encoder are C02's subject, not C09's
				local["skipped_self_reject_pointer_chain"]++
			} else {
				viol("undecodable:mosproxy", fmt.Sprintf("mosproxy rejects the output: %v", err))
			}
		} else {
			dnsmsg.ReleaseMsg(pm2)
		}
		if miekgComparable(m) {
			var a, o dns.Msg
			if a.Unpack(w) == nil {
				local["miekg_decoded"]++
				if err := o.Unpack(out); err != nil {
					viol("undecodable:miekg", fmt.Sprintf("miekg/dns accepts the original message but rejects the output: %v", err))
				}
			}
		}
	}

	if d.ID != m.ID || (d.Bits^m.Bits)&^(refmsg.BitTC|refmsg.BitZ) != 0 {
		local["header_changed_not_judged_here"]++ // header preservation is C02's subject
	}
	// question retained
	qOK := len(d.Questions) == len(m.Questions)
	for i := 0; qOK && i < len(m.Questions); i++ {
		qOK = refmsg.QuestionEqual(&d.Questions[i], &m.Questions[i])
	}
	if !qOK {
		viol("question-not-retained", fmt.Sprintf("questions in: %d, out: %d (or changed)", len(m.Questions), len(d.Questions)))
	}
	// kept answers / authorities: unmodified, original relative order
	for s, pair := range [2][2][]refmsg.RR{{d.Answers, m.Answers}, {d.Authorities, m.Authorities}} {
		if i, ok := isSubsequence(pair[0], pair[1], refmsg.RREqual); !ok {
			sec := refmsg.SectionNames[s]
			if _, ok := isSubsequence(pair[0], pair[1], rrEqualButNames); ok {
				viol(sec+"-name-modified", fmt.Sprintf("a kept record of %s has a changed domain name: output record %d is %s", sec, i, pair[0][i].String()))
			} else {
				viol(sec+"-not-subsequence", fmt.Sprintf("output record %d of %s, %s, is not the next of the original %s", i, sec, pair[0][i].String(), sec))
			}
		}
	}
	used := make([]bool, len(m.Additionals))
	for i := range d.Additionals {
		j := rrIndex(m.Additionals, used, &d.Additionals[i])
		if j < 0 {
			sig := "additionals-not-subset"
			for k := range m.Additionals {
				if rrEqualButNames(&m.Additionals[k], &d.Additionals[i]) {
					sig = "additionals-name-modified"
				}
			}
			viol(sig, fmt.Sprintf("output additional %d %s is not one of the original additionals", i, d.Additionals[i].String()))
			break
		}
		used[j] = true
	}
	for i := range m.Additionals {
		if m.Additionals[i].Type == refmsg.TypeOPT {
			found := false
			for k := range d.Additionals {
				if refmsg.RREqual(&d.Additionals[k], &m.Additionals[i]) {
					found = true
				}
			}
			if !found {
				viol("opt-lost", "the OPT record of the original is not in the output")
			}
		}
	}
	omitted := d.NumRecords() < m.NumRecords() || len(d.Questions) < len(m.Questions)
	if omitted {
		local["cases_with_omission"]++
		if !d.TC() {
			viol("omitted-without-tc", fmt.Sprintf("%d of %d records were omitted but TC is not set", m.NumRecords()-d.NumRecords(), m.NumRecords()))
		}
	}
	if fits {
		local["cases_fitting"]++
		if omitted {
			viol("omitted-although-fits", fmt.Sprintf("%d records omitted although Len()=%d <= limit %d", m.NumRecords()-d.NumRecords(), L, eff))
		}
		if d.TC() != m.TC() {
			viol("tc-changed-although-fits", fmt.Sprintf("TC %v became %v although nothing had to be omitted", m.TC(), d.TC()))
		}
	}
	if eff > 0 && eff >= L-1 && eff <= L+1 {
		local["cases_limit_within_1_of_len"]++
	}
	if sample {
		c.Ev.Sample(map[string]any{"len": L, "size": size, "compress": compress, "tcp": tcp, "out_len": n, "records_in": m.NumRecords(), "records_out": d.NumRecords(), "tc_out": d.TC()})
	}
}
