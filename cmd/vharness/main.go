// vharness: runtime monitors for mosproxy properties C01..C20.
//
//	vharness <ID> quick|thorough            run the check
//	vharness <ID> --replay <file>           re-run the case(s) recorded in a replay file
//	vharness child <name> <args...>         internal: child-process modes
package main

import (
	"encoding/json"
	"fmt"
	"io"
	"os"
	"os/exec"
	"path/filepath"
	"sort"
	"strconv"
	"strings"
	"sync"
	"sync/atomic"
	"syscall"
	"time"

	"github.com/IrineSistiana/mosproxy/verif/internal/ev"
	"github.com/IrineSistiana/mosproxy/verif/internal/kf"
)

// verifRoot is the harness directory (the check script runs us from there).
var verifRoot = func() string {
	if v := os.Getenv("VERIF_ROOT"); v != "" {
		return v
	}
	if wd, err := os.Getwd(); err == nil {
		if _, err := os.Stat(filepath.Join(wd, "cmd", "vharness")); err == nil {
			return wd
		}
	}
	return "/verif"
}()

// altRoot is set for development runs against a scratch copy of the repository (VERIF_ALT):
// evidence and replays of such runs must not overwrite the real ones.
var altRoot string

func outRoot() string {
	if altRoot != "" {
		return altRoot
	}
	return verifRoot
}

type Check struct {
	ID    string
	Level string // exploration | fault_enumeration
	Rule  string
	Run   func(c *Ctx)
}

var checks = map[string]*Check{}
var children = map[string]func(args []string) int{}

func register(c *Check) { checks[c.ID] = c }

type violation struct {
	Sig    string `json:"signature"`
	What   string `json:"what"`
	Replay any    `json:"replay"`
}

// Ctx is handed to a check. It is safe for concurrent use.
type Ctx struct {
	ID     string
	Tier   string
	Seed   int64
	Ev     *ev.E
	Work   string      // scratch dir, wiped at start
	Replay *ReplayFile // non-nil in replay mode

	// sigFilter, when set, restricts which violation signatures are judged by the running part of a
	// check (a workload borrowed from another property's check reports only what belongs here)
	sigFilter func(sig string) bool

	mu         sync.Mutex
	kf         *kf.File
	known      map[string]int
	violations []violation
	inconcl    []string
}

type ReplayFile struct {
	Property string          `json:"property"`
	Seed     int64           `json:"seed"`
	Tier     string          `json:"tier"`
	Sig      string          `json:"signature"`
	What     string          `json:"what"`
	Case     json.RawMessage `json:"case"`
}

func (c *Ctx) Quick() bool { return c.Tier == "quick" }

// N picks a size by tier.
func (c *Ctx) N(quick, thorough int) int {
	if c.Tier == "thorough" {
		return thorough
	}
	return quick
}

// Violation records a violation. sig identifies the failing input / call
// site / history shape (used for known_findings matching and for
// de-duplication: only the first witness per signature gets a replay file).
func (c *Ctx) Violation(sig, what string, replayCase any) {
	c.mu.Lock()
	defer c.mu.Unlock()
	if c.sigFilter != nil && !c.sigFilter(sig) {
		c.Ev.Count("not_judged_by_this_property:"+sig, 1)
		return
	}
	if f := c.kf.Open(c.ID, sig); f != nil {
		c.known[sig]++
		return
	}
	for _, v := range c.violations {
		if v.Sig == sig {
			c.Ev.Count("violations_dup:"+sig, 1)
			return
		}
	}
	if len(c.violations) < 50 {
		c.violations = append(c.violations, violation{sig, what, replayCase})
	}
}

// Seen reports whether a violation with this signature is already recorded
// (or is a known finding); lets callers skip building expensive witnesses.
func (c *Ctx) Seen(sig string) bool {
	c.mu.Lock()
	defer c.mu.Unlock()
	if _, ok := c.known[sig]; ok {
		c.known[sig]++
		return true
	}
	for _, v := range c.violations {
		if v.Sig == sig {
			return true
		}
	}
	return false
}

func (c *Ctx) ViolationCount() int {
	c.mu.Lock()
	defer c.mu.Unlock()
	return len(c.violations)
}

// Inconclusive records a case that could not be decided (watchdog, port clash, ...).
func (c *Ctx) Inconclusive(reason string) {
	c.mu.Lock()
	c.inconcl = append(c.inconcl, reason)
	c.mu.Unlock()
	c.Ev.Count("inconclusive", 1)
}

func seedFromEnv() int64 {
	if s := os.Getenv("VERIF_SEED"); s != "" {
		if n, err := strconv.ParseInt(s, 10, 64); err == nil {
			return n
		}
	}
	return 1
}

func main() {
	if len(os.Args) >= 3 && os.Args[1] == "child" {
		fn := children[os.Args[2]]
		if fn == nil {
			fmt.Fprintf(os.Stderr, "unknown child mode %s\n", os.Args[2])
			os.Exit(3)
		}
		os.Exit(fn(os.Args[3:]))
	}
	if os.Getenv("VERIF_SUPERVISED") != "1" && len(os.Args) >= 3 {
		os.Exit(supervise())
	}
	if len(os.Args) < 3 {
		ids := []string{}
		for id := range checks {
			ids = append(ids, id)
		}
		sort.Strings(ids)
		fmt.Fprintf(os.Stderr, "usage: vharness <ID> quick|thorough | <ID> --replay <file>\nchecks: %v\n", ids)
		os.Exit(3)
	}
	id := os.Args[1]
	ck := checks[id]
	if ck == nil {
		fmt.Fprintf(os.Stderr, "unknown check %s\n", id)
		os.Exit(3)
	}
	c := &Ctx{ID: id, Seed: seedFromEnv(), known: map[string]int{}}
	switch os.Args[2] {
	case "quick", "thorough":
		c.Tier = os.Args[2]
	case "--replay":
		if len(os.Args) < 4 {
			fmt.Fprintln(os.Stderr, "missing replay file")
			os.Exit(3)
		}
		b, err := os.ReadFile(os.Args[3])
		if err != nil {
			fmt.Fprintln(os.Stderr, err)
			os.Exit(3)
		}
		rf := new(ReplayFile)
		if err := json.Unmarshal(b, rf); err != nil {
			fmt.Fprintln(os.Stderr, err)
			os.Exit(3)
		}
		c.Replay = rf
		c.Seed = rf.Seed
		c.Tier = rf.Tier
	default:
		fmt.Fprintf(os.Stderr, "bad tier %s\n", os.Args[2])
		os.Exit(3)
	}
	if t := os.Getenv("VERIF_TIER"); t == "quick" || t == "thorough" {
		if c.Replay == nil {
			c.Tier = t
		}
	}
	var err error
	c.kf, err = kf.Load(filepath.Join(verifRoot, "known_findings.json"))
	if err != nil {
		fmt.Fprintln(os.Stderr, "known_findings.json:", err)
		os.Exit(3)
	}
	c.Work = filepath.Join(verifRoot, ".work", id)
	if alt := os.Getenv("VERIF_ALT"); alt != "" { // development runs against a scratch copy of the repository
		altRoot = filepath.Join(verifRoot, ".work", "alt", alt)
		c.Work = filepath.Join(altRoot, id)
	}
	os.RemoveAll(c.Work)
	os.MkdirAll(c.Work, 0755)
	c.Ev = ev.New(id, c.Tier, c.Seed, ck.Level)
	c.Ev.Rule = ck.Rule

	if c.Replay == nil { // stale witnesses of earlier runs with this seed would be confusing
		old, _ := filepath.Glob(filepath.Join(outRoot(), "replays", fmt.Sprintf("%s-seed%d-*.json", id, c.Seed)))
		for _, f := range old {
			os.Remove(f)
		}
	}
	start := time.Now()
	ck.Run(c)

	// report
	c.mu.Lock()
	defer c.mu.Unlock()
	c.Ev.AddViolations(len(c.violations))
	ks := []string{}
	for sig := range c.known {
		ks = append(ks, sig)
	}
	sort.Strings(ks)
	kfOut := []string{}
	for _, sig := range ks {
		f := c.kf.Open(id, sig)
		line := fmt.Sprintf("KNOWN-FINDING: property=%s %s [%s] (observed %d times)", id, f.What, sig, c.known[sig])
		fmt.Println(line)
		kfOut = append(kfOut, line)
	}
	c.Ev.Set("known_findings_observed", kfOut)
	c.Ev.Set("inconclusive_reasons", firstN(c.inconcl, 10))
	if c.Replay == nil {
		if err := c.Ev.Write(filepath.Join(outRoot(), "evidence")); err != nil {
			fmt.Fprintln(os.Stderr, "evidence:", err)
			os.Exit(3)
		}
	}
	fmt.Printf("check %s tier=%s seed=%d evaluations=%d distinct=%d violations=%d inconclusive=%d wall=%.1fs\n",
		id, c.Tier, c.Seed, c.Ev.Evaluations(), c.Ev.DistinctCount(), len(c.violations), len(c.inconcl), time.Since(start).Seconds())
	if len(c.violations) > 0 {
		os.MkdirAll(filepath.Join(outRoot(), "replays"), 0755)
		for i, v := range c.violations {
			cs, _ := json.Marshal(v.Replay)
			rf := ReplayFile{Property: id, Seed: c.Seed, Tier: c.Tier, Sig: v.Sig, What: v.What, Case: cs}
			b, _ := json.MarshalIndent(rf, "", " ")
			p := filepath.Join(outRoot(), "replays", fmt.Sprintf("%s-seed%d-%d.json", id, c.Seed, i))
			os.WriteFile(p, b, 0644)
			fmt.Printf("VIOLATION property=%s replay=%s\n", id, p)
			fmt.Printf("  [%s] %s\n", v.Sig, v.What)
		}
		os.Exit(1)
	}
	if c.Ev.Evaluations() == 0 {
		fmt.Printf("INCONCLUSIVE property=%s reason=no evaluations\n", id)
		os.Exit(2)
	}
	os.Exit(0)
}

func firstN(s []string, n int) []string {
	if len(s) > n {
		return s[:n]
	}
	if s == nil {
		return []string{}
	}
	return s
}

// tailBuf keeps the last max bytes written to it.
type tailBuf struct {
	mu  sync.Mutex
	b   []byte
	max int
}

func (t *tailBuf) Write(p []byte) (int, error) {
	t.mu.Lock()
	t.b = append(t.b, p...)
	if len(t.b) > t.max {
		t.b = t.b[len(t.b)-t.max:]
	}
	t.mu.Unlock()
	return len(p), nil
}

// markWriter notes whether mark ever appeared at the start of a line of what was written to it.
type markWriter struct {
	mark []byte
	line []byte
	seen bool
}

func (w *markWriter) Write(p []byte) (int, error) {
	for _, b := range p {
		if b == '\n' {
			w.line = w.line[:0]
			continue
		}
		if len(w.line) < len(w.mark) {
			w.line = append(w.line, b)
			if len(w.line) == len(w.mark) && string(w.line) == string(w.mark) {
				w.seen = true
			}
		}
	}
	return len(p), nil
}

// supervise runs the check in a child process. Many checks drive mosproxy packages inside the
// harness process; a panic or fatal error there (a goroutine of the code under test that nobody
// recovers) would otherwise end the run without a verdict. When the child dies with a Go crash
// whose stack contains mosproxy frames, the supervisor reports it as a violation of the property
// whose workload provoked it, with the crash output as the witness.
func supervise() int {
	exe, err := os.Executable()
	if err != nil {
		return 3
	}
	id := os.Args[1]
	cmd := exec.Command(exe, os.Args[1:]...)
	cmd.Env = append(os.Environ(), "VERIF_SUPERVISED=1")
	cmd.Stdin = os.Stdin
	outTail := &markWriter{mark: []byte("check " + id + " tier=")}
	errTail := &tailBuf{max: 1 << 18}
	cmd.Stdout = io.MultiWriter(os.Stdout, outTail)
	cmd.Stderr = io.MultiWriter(os.Stderr, errTail)
	start := time.Now()
	// generous wall-clock watchdog around the whole run (inconclusive when it fires, never a verdict)
	limit := 40 * time.Minute
	if len(os.Args) > 2 && os.Args[2] == "thorough" {
		limit = 5 * time.Hour
	}
	var fired atomic.Bool
	wd := time.AfterFunc(limit, func() {
		fired.Store(true)
		if cmd.Process != nil {
			cmd.Process.Signal(syscall.SIGQUIT)
			time.Sleep(3 * time.Second)
			cmd.Process.Kill()
		}
	})
	runErr := cmd.Run()
	wd.Stop()
	if fired.Load() {
		fmt.Printf("INCONCLUSIVE property=%s reason=the check did not finish within %v (watchdog); goroutine dump in the output above\n", id, limit)
		return 3
	}
	code := 0
	if runErr != nil {
		code = 3
		if ee, ok := runErr.(*exec.ExitError); ok {
			code = ee.ExitCode()
		}
	}
	if outTail.seen || code == 0 { // the child printed its verdict line (however much it printed after it)

		return code
	}
	crash := string(errTail.b)
	idx := -1
	for _, mark := range []string{"panic: ", "fatal error: ", "SIGSEGV"} {
		if i := strings.Index(crash, mark); i >= 0 && (idx < 0 || i < idx) {
			idx = i
		}
	}
	if idx < 0 {
		fmt.Printf("INCONCLUSIVE property=%s reason=check process ended with status %d without a verdict\n", id, code)
		return 3
	}
	crash = crash[idx:]
	frame := ""
	for _, l := range strings.Split(crash, "\n") {
		if strings.HasPrefix(l, "github.com/IrineSistiana/mosproxy/") && !strings.HasPrefix(l, "github.com/IrineSistiana/mosproxy/verif/") {
			frame = l
			if i := strings.Index(frame, "("); i > 0 {
				frame = frame[:i]
			}
			frame = frame[strings.LastIndex(frame, "/")+1:]
			break
		}
	}
	if frame == "" {
		fmt.Printf("INCONCLUSIVE property=%s reason=the harness itself crashed (no mosproxy frame in the stack)\n", id)
		return 3
	}
	if len(crash) > 6000 {
		crash = crash[:6000]
	}
	tier := "quick"
	if len(os.Args) > 2 && os.Args[2] == "thorough" {
		tier = "thorough"
	}
	seed := seedFromEnv()
	root := verifRoot
	if alt := os.Getenv("VERIF_ALT"); alt != "" {
		root = filepath.Join(verifRoot, ".work", "alt", alt)
	}
	first := strings.SplitN(crash, "\n", 2)[0]
	cs, _ := json.Marshal(map[string]any{"crash": crash})
	rf := ReplayFile{Property: id, Seed: seed, Tier: tier, Sig: "crash-in-process:" + frame, What: "the code under test crashed the process while this check's workload ran: " + first, Case: cs}
	b, _ := json.MarshalIndent(rf, "", " ")
	os.MkdirAll(filepath.Join(root, "replays"), 0755)
	rp := filepath.Join(root, "replays", fmt.Sprintf("%s-seed%d-crash.json", id, seed))
	os.WriteFile(rp, b, 0644)
	level := "exploration"
	if ck := checks[id]; ck != nil {
		level = ck.Level
	}
	e := ev.New(id, tier, seed, level)
	e.Rule = "the run ended in a crash of the code under test before the workload completed"
	e.Eval(1)
	e.Distinct("crash", frame)
	e.Distinct("crash-first-line", first)
	e.Sample(map[string]any{"crash": first, "frame": frame})
	e.AddViolations(1)
	e.Write(filepath.Join(root, "evidence"))
	fmt.Printf("check %s tier=%s seed=%d evaluations=1 distinct=2 violations=1 inconclusive=0 wall=%.1fs\n", id, tier, seed, time.Since(start).Seconds())
	fmt.Printf("VIOLATION property=%s replay=%s\n  [crash-in-process:%s] %s\n", id, rp, frame, first)
	return 1
}
