package main

// C10 — rules are first-match and a query reaches only the selected upstream;
// bad configurations are rejected at start-up. Real binary, generated YAML.

import (
	"fmt"
	"os"
	"path/filepath"
	"strings"
	"sync"
	"time"

	"github.com/IrineSistiana/mosproxy/verif/internal/dnsclient"
	"github.com/IrineSistiana/mosproxy/verif/internal/fakeup"
	"github.com/IrineSistiana/mosproxy/verif/internal/gen"
	"github.com/IrineSistiana/mosproxy/verif/internal/proxyproc"
	"github.com/miekg/dns"
)

func init() {
	register(&Check{ID: "C10", Level: "exploration",
		Rule: "generated configurations (1-5 upstreams, 0-4 shared domain sets with parent/child/full entries (sometimes a list file referenced by several sets, each adding a file of its own), 1-8 rules over {domain?, reverse, reject 1-15 | forward | no action}) run by the real binary, ~30 unique-named probes each judged by a reference first-match evaluator and the per-upstream query logs; plus bad configurations that must be rejected at start-up; " +
			"one evaluation = one probe or one bad configuration; distinct non-trivial = distinct (rule list shape, index of the deciding rule, outcome) triples plus distinct bad-configuration kinds",
		Run: runC10})
}

type c10Rule struct {
	Domain  string // set tag or ""
	Reverse bool
	Reject  int
	Forward string
}

type c10Set struct {
	Tag     string
	Entries []string // "domain:x.y" | "full:x.y" | "x.y"
	Common  []string // entries of a list file this set shares with other sets (listed before its own file)
}

type c10Cfg struct {
	// SharedURL: every upstream has the same addr URL (a resolver name) and is told apart only by
	// its dial_addr, as in "tls://dns.example" reached through two different addresses.
	SharedURL bool
	Cache     bool // memory cache on: repeated probes are served from it, late ones start a background refresh
	Ups       []string
	Sets      []c10Set
	Rules     []c10Rule
}

var c10Suffixes = []string{"a.test", "b.test", "x.a.test", "y.x.a.test", "c.example", "test", "d.c.example",
	// labels beyond 24 octets (the domain matcher keeps short and long labels in different tables)
	"customer-portal-of-a-rather-long-label.example", "a-label-of-exactly-25-oct.test", "cdn.customer-portal-of-a-rather-long-label.example"}

func c10Gen(r *gen.R) *c10Cfg {
	cfg := &c10Cfg{SharedURL: r.P(0.3), Cache: r.P(0.4)}
	for i := 0; i < r.Range(1, 5); i++ {
		cfg.Ups = append(cfg.Ups, fmt.Sprintf("up%d", i))
	}
	for i := 0; i < r.Range(0, 4); i++ {
		s := c10Set{Tag: fmt.Sprintf("set%d", i)}
		nEntries := r.Range(1, 4)
		if r.P(0.12) {
			nEntries = 0 // a list that holds nothing but comments: the set matches no name
		}
		if nEntries > 0 && r.P(0.3) {
			// a domain and one of its sub-domains in the same list, in either order (merged block lists
			// are full of such redundant lines): the broader entry decides for the domain itself and
			// for every other sub-domain
			suf := gen.Pick(r, c10Suffixes)
			pair := []string{"domain:" + suf, "domain:sub." + suf}
			if r.Bool() {
				pair[0], pair[1] = pair[1], pair[0]
			}
			s.Entries = append(s.Entries, pair...)
		}
		for k := 0; k < nEntries; k++ {
			suf := gen.Pick(r, c10Suffixes)
			switch r.Intn(4) {
			case 0:
				s.Entries = append(s.Entries, "domain:"+suf)
			case 1:
				s.Entries = append(s.Entries, "full:fixed."+suf)
			case 2:
				s.Entries = append(s.Entries, strings.ToUpper(suf[:1])+suf[1:]) // bare, mixed case
			default:
				s.Entries = append(s.Entries, "domain:sub."+suf)
			}
		}
		cfg.Sets = append(cfg.Sets, s)
	}
	if len(cfg.Sets) >= 2 && r.P(0.35) {
		// one list file referenced by several sets (a shared block list), each set adding a file of
		// its own after it: what one set adds must not show up in another
		var common []string
		for k := r.Range(1, 3); k > 0; k-- {
			suf := gen.Pick(r, c10Suffixes)
			common = append(common, gen.Pick(r, []string{"domain:", "domain:sub.", "full:fixed."})+suf)
		}
		for i := range cfg.Sets {
			if i < 2 || r.P(0.6) {
				cfg.Sets[i].Common = common
			}
		}
	}
	for i := 0; i < r.Range(1, 8); i++ {
		var ru c10Rule
		if len(cfg.Sets) > 0 && r.P(0.75) {
			ru.Domain = gen.Pick(r, cfg.Sets).Tag
			ru.Reverse = r.P(0.3)
		} else if r.P(0.25) {
			ru.Reverse = true // 'reverse' negates the domain condition; without one there is nothing to negate, the rule always applies
		}
		switch r.Intn(5) {
		case 0:
			ru.Reject = r.Range(1, 15)
			if r.P(0.3) {
				// a block rule made from a copy of a forward rule: with both keys it is a reject rule
				ru.Forward = gen.Pick(r, cfg.Ups)
			}
		case 1: // no action
		default:
			ru.Forward = gen.Pick(r, cfg.Ups)
		}
		cfg.Rules = append(cfg.Rules, ru)
	}
	return cfg
}

// reference: does the set match the lower-cased name (labels)?
func c10SetMatch(s *c10Set, name string) bool {
	name = strings.TrimSuffix(strings.ToLower(name), ".")
	for _, e := range append(append([]string{}, s.Common...), s.Entries...) {
		kind, exp := "domain", e
		if k, x, ok := strings.Cut(e, ":"); ok {
			kind, exp = k, x
		}
		exp = strings.ToLower(exp)
		switch kind {
		case "full":
			if name == exp {
				return true
			}
		default:
			if name == exp || strings.HasSuffix(name, "."+exp) {
				return true
			}
		}
	}
	return false
}

// reference evaluator: index of the deciding rule (-1 none), rcode, upstream tag
func c10Eval(cfg *c10Cfg, name string) (idx int, rcode int, up string) {
	for i, ru := range cfg.Rules {
		if ru.Domain != "" {
			var set *c10Set
			for k := range cfg.Sets {
				if cfg.Sets[k].Tag == ru.Domain {
					set = &cfg.Sets[k]
				}
			}
			m := c10SetMatch(set, name)
			if ru.Reverse {
				m = !m
			}
			if !m {
				continue
			}
		}
		switch {
		case ru.Reject > 0:
			return i, ru.Reject, ""
		case ru.Forward != "":
			return i, 0, ru.Forward
		}
		return i, dns.RcodeRefused, ""
	}
	return -1, dns.RcodeRefused, ""
}

func (cfg *c10Cfg) yaml(dir string, upAddr map[string]string, listenUDP, listenTCP string) string {
	var y strings.Builder
	y.WriteString("upstreams:\n")
	for _, u := range cfg.Ups {
		if cfg.SharedURL {
			fmt.Fprintf(&y, "  - tag: %s\n    addr: \"udp://resolver.c10.example\"\n    dial_addr: \"%s\"\n", u, upAddr[u])
			continue
		}
		fmt.Fprintf(&y, "  - tag: %s\n    addr: \"udp://%s\"\n", u, upAddr[u])
	}
	if len(cfg.Sets) > 0 {
		y.WriteString("domain_sets:\n")
		for _, s := range cfg.Sets {
			fp := filepath.Join(dir, s.Tag+".txt")
			os.WriteFile(fp, []byte("# generated\n"+strings.Join(s.Entries, "\n")+"\n"), 0644)
			if len(s.Common) > 0 {
				cp := filepath.Join(dir, "common.txt")
				os.WriteFile(cp, []byte("# shared by several sets\n"+strings.Join(s.Common, "\n")+"\n"), 0644)
				fmt.Fprintf(&y, "  - tag: %s\n    files: [\"%s\", \"%s\"]\n", s.Tag, cp, fp)
				continue
			}
			fmt.Fprintf(&y, "  - tag: %s\n    files: [\"%s\"]\n", s.Tag, fp)
		}
	}
	y.WriteString("rules:\n")
	for _, ru := range cfg.Rules {
		y.WriteString("  - ")
		first := true
		add := func(s string) {
			if !first {
				y.WriteString("    ")
			}
			first = false
			y.WriteString(s + "\n")
		}
		if ru.Domain != "" {
			add("domain: " + ru.Domain)
		}
		if ru.Reverse {
			add("reverse: true")
		}
		if ru.Reject > 0 {
			add(fmt.Sprintf("reject: %d", ru.Reject))
		}
		if ru.Forward != "" {
			add("forward: " + ru.Forward)
		}
		if first {
			add("reverse: false")
		}
	}
	fmt.Fprintf(&y, "servers:\n  - protocol: udp\n    listen: \"%s\"\n  - protocol: tcp\n    listen: \"%s\"\n", listenUDP, listenTCP)
	if cfg.Cache {
		y.WriteString("cache:\n  mem_size: 4194304\n")
	}
	return y.String()
}

func runC10(c *Ctx) {
	nGood, nBad := c.N(60, 600), c.N(25, 150)
	parallelFor(nGood, 8, func() bool { return c.ViolationCount() >= 10 }, func(i int) { c10Good(c, i) })
	parallelFor(nBad, 6, func() bool { return c.ViolationCount() >= 10 }, func(i int) { c10Bad(c, i) })
}

func c10Good(c *Ctx, idx int) {
	r := gen.New(c.Seed, "c10good", idx)
	cfg := c10Gen(r)
	dir := filepath.Join(c.Work, fmt.Sprintf("good%d", idx))
	os.MkdirAll(dir, 0755)
	ups := map[string]*fakeup.Server{}
	upAddr := map[string]string{}
	defer func() {
		for _, s := range ups {
			s.Close()
		}
	}()
	for _, u := range cfg.Ups {
		s := fakeup.NewServer(u)
		if err := s.ListenUDP("127.0.0.1:0"); err != nil {
			c.Inconclusive("fake upstream: " + err.Error())
			return
		}
		ups[u] = s
		upAddr[u] = s.Addr["udp"]
	}
	var p *proxyproc.Proxy
	var lu, lt string
	for attempt := 0; ; attempt++ {
		ports, err := proxyproc.FreePorts("127.0.0.1", 2)
		if err != nil {
			c.Inconclusive("ports: " + err.Error())
			return
		}
		lu, lt = fmt.Sprintf("127.0.0.1:%d", ports[0]), fmt.Sprintf("127.0.0.1:%d", ports[1])
		y := cfg.yaml(dir, upAddr, lu, lt)
		p, err = proxyproc.Start(proxyproc.Opts{Bin: proxyBin(), Dir: filepath.Join(dir, fmt.Sprintf("proxy%d", attempt)), YAML: y, Env: map[string]string{"VERIF_POINTS": "prefetch.start=sleep(2ms,100.0%)"}})
		if err == nil {
			break
		}
		clash := p != nil && p.LogContains("address already in use")
		tail := ""
		if p != nil {
			tail = p.LogTail(1500)
			p.Stop()
		}
		if clash && attempt < 4 {
			continue
		}
		c.Violation("good-config-rejected", fmt.Sprintf("a valid configuration did not start: %v\n%s\n%s", err, y, tail), map[string]any{"yaml": y})
		return
	}
	defer p.Stop()
	// probes
	type probe struct {
		name         string
		qtype, class uint16
		idx, rcode   int
		up           string
		viaTCP       bool
	}
	var probes []*probe
	for k := 0; k < 30; k++ {
		suf := gen.Pick(r, c10Suffixes)
		var name string
		switch r.Intn(5) {
		case 0:
			name = "fixed." + suf + "."
		case 1:
			name = fmt.Sprintf("ok-p%dx%d.sub.%s.", k, idx, suf)
		default:
			name = fmt.Sprintf("ok-p%dx%d.%s.", k, idx, suf)
		}
		if strings.HasPrefix(name, "fixed.") { // keep names unique in the upstream logs: use the type as discriminator
			name = "fixed." + suf + "."
		}
		// spelling: mostly random mixed case; also all upper case, and a single upper-case letter at the
		// very start / the very end of the name
		switch r.Intn(10) {
		case 0:
			name = strings.ToUpper(name)
		case 1:
			name = strings.ToUpper(name[:1]) + name[1:]
		case 2, 3:
			name = name[:len(name)-2] + strings.ToUpper(name[len(name)-2:])
		case 4:
		default:
			name = c03RandCase(r, name)
		}
		if r.P(0.15) {
			// a first label with octets above 0x7f (raw UTF-8 / Latin-1 text, e.g. 0xC3 0x9C): only the
			// ASCII letters A-Z are folded, every other octet reaches the upstream as the client sent it
			lbl := ""
			for i := r.Range(2, 6); i > 0; i-- {
				if r.Bool() {
					lbl += fmt.Sprintf("\\%03d", r.Range(0x80, 0xff))
				} else {
					lbl += string(rune('A' + r.Intn(26)))
				}
			}
			name = lbl + "." + name
		}
		pr := &probe{name: name, qtype: gen.Pick(r, []uint16{dns.TypeA, dns.TypeAAAA, dns.TypeTXT, dns.TypeMX, 65}), class: dns.ClassINET, viaTCP: r.P(0.3)}
		if r.P(0.1) {
			pr.class = dns.ClassCHAOS
		}
		pr.idx, pr.rcode, pr.up = c10Eval(cfg, name)
		dup := false
		for _, o := range probes {
			if strings.EqualFold(o.name, pr.name) {
				dup = true
			}
		}
		if !dup {
			probes = append(probes, pr)
		}
	}
	shape := fmt.Sprint(cfg.Rules, cfg.SharedURL)
	if cfg.SharedURL {
		c.Ev.Count("good_configs_shared_url_distinct_dial_addr", 1)
	}
	// the UDP probes of every other configuration leave one socket back to back (a burst: the
	// listener's read loop and its workers overlap); each is judged like a probe sent alone
	burst := map[*probe][]byte{}
	burstSent := map[*probe]bool{}
	if idx%2 == 0 {
		if uc, e := dnsclient.DialUDP("", lu); e == nil {
			byID := map[uint16]*probe{}
			id := uint16(r.Intn(30000))
			for _, pr := range probes {
				if pr.viaTCP {
					continue
				}
				id++
				byID[id] = pr
				burstSent[pr] = true
				uc.Send(mkQuery(id, pr.name, pr.qtype, pr.class, r.Bool()))
			}
			dl := time.Now().Add(4 * time.Second)
			for time.Now().Before(dl) && len(uc.Received()) < len(byID) {
				time.Sleep(2 * time.Millisecond)
			}
			time.Sleep(30 * time.Millisecond) // anything that comes twice
			for _, p := range uc.Received() {
				if len(p.Data) < 2 {
					continue
				}
				pr := byID[uint16(p.Data[0])<<8|uint16(p.Data[1])]
				if pr == nil {
					continue
				}
				if _, twice := burst[pr]; twice {
					c.Violation("burst:answered-twice", fmt.Sprintf("probe %s of a burst of %d UDP queries got two responses", pr.name, len(byID)), map[string]any{"yaml": cfg.yaml(dir, upAddr, lu, lt), "probe": pr.name})
				}
				burst[pr] = p.Data
			}
			uc.Close()
			c.Ev.Count("burst_probes_sent", int64(len(byID)))
		}
	}
	for _, pr := range probes {
		wire := mkQuery(uint16(r.Intn(65536)), pr.name, pr.qtype, pr.class, r.Bool())
		var resp []byte
		var err error
		if burstSent[pr] {
			if resp = burst[pr]; resp == nil {
				c.Inconclusive("burst: no response for " + pr.name + " (datagram lost?)")
				continue
			}
		} else if pr.viaTCP {
			sc, e := dnsclient.DialStream("", lt, nil)
			if e != nil {
				c.Inconclusive("dial tcp: " + e.Error())
				continue
			}
			sc.SendFrame(wire)
			if sc.WaitFrames(1, 8*time.Second) {
				resp = sc.Frames()[0].Data
			} else {
				err = fmt.Errorf("no frame")
			}
			sc.Close()
		} else {
			uc, e := dnsclient.DialUDP("", lu)
			if e != nil {
				c.Inconclusive("dial udp: " + e.Error())
				continue
			}
			uc.Send(wire)
			dl := time.Now().Add(8 * time.Second)
			for time.Now().Before(dl) && len(uc.Received()) == 0 {
				time.Sleep(time.Millisecond)
			}
			if rc := uc.Received(); len(rc) > 0 {
				resp = rc[0].Data
			} else {
				err = fmt.Errorf("no datagram")
			}
			uc.Close()
		}
		c.Ev.Eval(1)
		cs := map[string]any{"yaml": cfg.yaml(dir, upAddr, lu, lt), "probe": pr.name, "qtype": pr.qtype, "qclass": pr.class, "expected_rule": pr.idx, "expected_rcode": pr.rcode, "expected_upstream": pr.up}
		if err != nil {
			c.Inconclusive("no response for probe " + pr.name)
			continue
		}
		m := new(dns.Msg)
		if e := m.Unpack(resp); e != nil {
			c.Violation("undecodable-response", "response does not decode: "+e.Error(), cs)
			continue
		}
		if m.Rcode == dns.RcodeServerFailure && pr.up != "" {
			c.Inconclusive("SERVFAIL for forwarded probe (udp loss?) " + pr.name)
			continue
		}
		if m.Rcode != pr.rcode {
			c.Violation(fmt.Sprintf("wrong-outcome:expected-%s", c10Outcome(pr.rcode, pr.up)), fmt.Sprintf("probe %s: rcode %d, the reference selects rule #%d => rcode %d upstream %q; rules=%v sets=%v", pr.name, m.Rcode, pr.idx, pr.rcode, pr.up, cfg.Rules, cfg.Sets), cs)
			continue
		}
		if pr.up != "" {
			if _, e := CheckKeyed(dns.Question{Name: pr.name, Qtype: pr.qtype, Qclass: pr.class}, pr.up, m); e != nil {
				c.Violation("wrong-upstream-answer", fmt.Sprintf("probe %s: %v; rules=%v", pr.name, e, cfg.Rules), cs)
				continue
			}
		}
		// upstream logs: exactly one query at the selected upstream, none elsewhere
		bad := false
		for tag, s := range ups {
			n := 0
			for _, ql := range s.Log() {
				if !strings.EqualFold(ql.Name, pr.name) || ql.Qtype != pr.qtype || ql.Qclass != pr.class {
					continue
				}
				n++
				if ql.Name != strings.ToLower(dns.Fqdn(pr.name)) {
					c.Violation("upstream-name-not-lowercased", fmt.Sprintf("upstream %s received name %q for probe %q", tag, ql.Name, pr.name), cs)
					bad = true
				}
				if !ql.RD || ql.NQ != 1 {
					c.Violation("upstream-query-shape", fmt.Sprintf("upstream %s received rd=%v questions=%d", tag, ql.RD, ql.NQ), cs)
					bad = true
				}
			}
			want := 0
			if tag == pr.up {
				want = 1
			}
			if n != want && !bad {
				c.Violation(fmt.Sprintf("upstream-contact:%s", c10Outcome(pr.rcode, pr.up)), fmt.Sprintf("probe %s: upstream %s received %d queries, expected %d (selected upstream %q, rule #%d); rules=%v sets=%v", pr.name, tag, n, want, pr.up, pr.idx, cfg.Rules, cfg.Sets), cs)
				bad = true
			}
		}
		if !bad {
			c.Ev.Distinct(shape, pr.idx, c10Outcome(pr.rcode, pr.up))
			c.Ev.Count("probes_"+c10Outcome(pr.rcode, pr.up), 1)
		}
	}
	// with the cache on (a third of those configurations): ask forwarded probes again when their entries
	// (6 s) are in the last quarter of their lifetime (the hit starts a background refresh towards the
	// rule's upstream), then look at everything the upstreams received
	if cfg.Cache && idx%3 == 0 {
		var late []*probe
		for k := 0; k < 6; k++ {
			suf := gen.Pick(r, c10Suffixes)
			name := c03RandCase(r, fmt.Sprintf("ok-ttl6-q%dx%d.%s.", k, idx, suf))
			pr := &probe{name: name, qtype: dns.TypeA, class: dns.ClassINET}
			pr.idx, pr.rcode, pr.up = c10Eval(cfg, name)
			if pr.up != "" {
				late = append(late, pr)
			}
		}
		ask := func(pr *probe) {
			uc, e := dnsclient.DialUDP("", lu)
			if e != nil {
				return
			}
			defer uc.Close()
			uc.Send(mkQuery(uint16(r.Intn(65536)), pr.name, pr.qtype, pr.class, false))
			dl := time.Now().Add(3 * time.Second)
			for time.Now().Before(dl) && len(uc.Received()) == 0 {
				time.Sleep(time.Millisecond)
			}
		}
		if len(late) > 0 {
			for _, pr := range late {
				ask(pr)
			}
			time.Sleep(4750 * time.Millisecond) // 6 s entries: last quarter from 4.5 s, 1.25 s remain
			var wg sync.WaitGroup
			for rep := 0; rep < 3; rep++ { // several requests in flight at once: request objects are recycled meanwhile
				for _, pr := range late {
					wg.Add(1)
					go func(pr *probe) { defer wg.Done(); ask(pr) }(pr)
				}
			}
			wg.Wait()
			time.Sleep(300 * time.Millisecond)
			probes = append(probes, late...)
			c.Ev.Count("cache_on_late_repeats", int64(len(late)))
		}
	}
	// everything an upstream received is a question some probe asked, routed to that upstream
	for tag, s := range ups {
		for _, ql := range s.Log() {
			okq := false
			for _, pr := range probes {
				if strings.EqualFold(ql.Name, dns.Fqdn(pr.name)) && ql.Qtype == pr.qtype && ql.Qclass == pr.class {
					okq = pr.up == tag
					if okq {
						break
					}
				}
			}
			c.Ev.Eval(1)
			if !okq {
				c.Violation("upstream-got-unrouted-question", fmt.Sprintf("upstream %s received the question %q type %d class %d (%s) which no probe routed to it; rules=%v sets=%v cache=%v", tag, ql.Name, ql.Qtype, ql.Qclass, ql.BadQuery, cfg.Rules, cfg.Sets, cfg.Cache),
					map[string]any{"yaml": cfg.yaml(dir, upAddr, lu, lt), "upstream": tag, "name": ql.Name, "qtype": ql.Qtype, "qclass": ql.Qclass})
				break
			}
		}
	}
	c.Ev.Count("good_configs", 1)
	if idx < 3 {
		c.Ev.Sample(map[string]any{"rules": fmt.Sprint(cfg.Rules), "sets": fmt.Sprint(cfg.Sets), "upstreams": cfg.Ups, "probes": len(probes)})
	}
}

func c10Outcome(rcode int, up string) string {
	switch {
	case up != "":
		return "forward"
	case rcode == dns.RcodeRefused:
		return "refused-or-reject5"
	}
	return "reject"
}

var c10BadKinds = []string{"unknown-upstream-tag", "unknown-domain-tag", "dup-upstream-tag", "dup-domain-tag", "dup-domain-tag-large-files", "dup-upstream-tag-distinct-addr",
	"unknown-upstream-tag-in-reject-rule", "unknown-upstream-tag-in-reverse-rule", "unknown-upstream-tag-no-domain", "unknown-upstream-tag-later-rule",
	"unknown-domain-tag-in-reject-rule", "unknown-domain-tag-later-rule", "unknown-domain-tag-with-reverse", "dup-upstream-tag-nonadjacent", "dup-domain-tag-nonadjacent",
	"unknown-key-top", "unknown-key-server", "unknown-key-upstream-tls", "unknown-key-rule", "unknown-key-cache", "unknown-key-limiter-client", "unknown-key-upstream", "unknown-key-domain-set"}

func c10Bad(c *Ctx, idx int) {
	r := gen.New(c.Seed, "c10bad", idx)
	kind := c10BadKinds[idx%len(c10BadKinds)]
	dir := filepath.Join(c.Work, fmt.Sprintf("bad%d", idx))
	os.MkdirAll(dir, 0755)
	up := fakeup.NewServer("up0")
	if err := up.ListenUDP("127.0.0.1:0"); err != nil {
		c.Inconclusive("fake upstream: " + err.Error())
		return
	}
	defer up.Close()
	ports, err := proxyproc.FreePorts("127.0.0.1", 1)
	if err != nil {
		c.Inconclusive("ports")
		return
	}
	listen := fmt.Sprintf("127.0.0.1:%d", ports[0])
	setFile := filepath.Join(dir, "set.txt")
	os.WriteFile(setFile, []byte("domain:test\n"), 0644)
	bogus := gen.Pick(r, []string{"bogus_key", "forwrd", "Tag2", "listen_addr", "ttl"})
	upstreams := fmt.Sprintf("upstreams:\n  - tag: up0\n    addr: \"udp://%s\"\n", up.Addr["udp"])
	sets := fmt.Sprintf("domain_sets:\n  - tag: s0\n    files: [\"%s\"]\n", setFile)
	rules := "rules:\n  - domain: s0\n    forward: up0\n"
	servers := fmt.Sprintf("servers:\n  - protocol: udp\n    listen: \"%s\"\n", listen)
	extra := ""
	switch kind {
	case "unknown-upstream-tag":
		rules = "rules:\n  - domain: s0\n    forward: nosuchup\n"
	case "unknown-domain-tag":
		rules = "rules:\n  - domain: nosuchset\n    forward: up0\n"
	case "unknown-upstream-tag-in-reject-rule":
		rules = "rules:\n  - domain: s0\n    reject: 3\n    forward: nosuchup\n"
	case "unknown-upstream-tag-in-reverse-rule":
		rules = "rules:\n  - domain: s0\n    reverse: true\n    forward: nosuchup\n  - forward: up0\n"
	case "unknown-upstream-tag-no-domain":
		rules = "rules:\n  - forward: nosuchup\n"
	case "unknown-upstream-tag-later-rule":
		rules = "rules:\n  - domain: s0\n    forward: up0\n  - reject: 5\n    domain: s0\n  - forward: nosuchup\n"
	case "unknown-domain-tag-in-reject-rule":
		rules = "rules:\n  - domain: nosuchset\n    reject: 3\n"
	case "unknown-domain-tag-later-rule":
		rules = "rules:\n  - domain: s0\n    forward: up0\n  - domain: nosuchset\n    forward: up0\n"
	case "unknown-domain-tag-with-reverse":
		rules = "rules:\n  - domain: nosuchset\n    reverse: true\n    forward: up0\n"
	case "dup-upstream-tag-nonadjacent":
		upstreams += fmt.Sprintf("  - tag: up1\n    addr: \"udp://%s\"\n  - tag: up0\n    addr: \"udp://%s\"\n", up.Addr["udp"], up.Addr["udp"])
	case "dup-domain-tag-nonadjacent":
		sets += fmt.Sprintf("  - tag: s1\n    files: [\"%s\"]\n  - tag: s0\n    files: [\"%s\"]\n", setFile, setFile)
	case "dup-upstream-tag":
		upstreams += fmt.Sprintf("  - tag: up0\n    addr: \"udp://%s\"\n", up.Addr["udp"])
	case "dup-domain-tag-large-files":
		// two sets with the same tag whose files take a while to load
		var big strings.Builder
		for k := 0; k < 40000; k++ {
			fmt.Fprintf(&big, "domain:h%d.bulk%d.example\n", k, k%97)
		}
		f1, f2 := filepath.Join(dir, "big1.txt"), filepath.Join(dir, "big2.txt")
		os.WriteFile(f1, []byte(big.String()), 0644)
		os.WriteFile(f2, []byte(big.String()+"domain:other.example\n"), 0644)
		sets = fmt.Sprintf("domain_sets:\n  - tag: s0\n    files: [\"%s\", \"%s\"]\n  - tag: s0\n    files: [\"%s\"]\n", setFile, f1, f2)
	case "dup-upstream-tag-distinct-addr":
		upstreams += "  - tag: up0\n    addr: \"tcp://127.0.0.1:1\"\n"
	case "dup-domain-tag":
		sets += fmt.Sprintf("  - tag: s0\n    files: [\"%s\"]\n", setFile)
	case "unknown-key-top":
		extra = bogus + ": 1\n"
	case "unknown-key-server":
		servers += "    " + bogus + ": 1\n"
	case "unknown-key-upstream-tls":
		upstreams += "    tls:\n      " + bogus + ": 1\n"
	case "unknown-key-rule":
		rules += "    " + bogus + ": 1\n"
	case "unknown-key-cache":
		extra = "cache:\n  " + bogus + ": 1\n"
	case "unknown-key-limiter-client":
		extra = "limiter:\n  client:\n    " + bogus + ": 1\n"
	case "unknown-key-upstream":
		upstreams += "    " + bogus + ": 1\n"
	case "unknown-key-domain-set":
		sets += "    " + bogus + ": 1\n"
	}
	y := upstreams + sets + rules + servers + extra
	c.Ev.Eval(1)
	cs := map[string]any{"kind": kind, "yaml": y}
	p, err := proxyproc.Start(proxyproc.Opts{Bin: proxyBin(), Dir: filepath.Join(dir, "proxy"), YAML: y, ReadyWait: 15 * time.Second})
	if err == nil {
		// it started serving: confirm with a probe
		uc, e := dnsclient.DialUDP("", listen)
		answered := false
		if e == nil {
			uc.Send(mkQuery(1, "ok-badcfg.test.", dns.TypeA, dns.ClassINET, false))
			time.Sleep(500 * time.Millisecond)
			answered = len(uc.Received()) > 0
			uc.Close()
		}
		p.Stop()
		c.Violation("bad-config-accepted:"+kind, fmt.Sprintf("configuration with %s was accepted and the proxy started serving (probe answered: %v)", kind, answered), cs)
		return
	}
	if p == nil {
		c.Inconclusive("start: " + err.Error())
		return
	}
	res := p.Stop()
	if err != proxyproc.ErrExited {
		c.Violation("bad-config-hang:"+kind, fmt.Sprintf("configuration with %s: the proxy neither started nor exited within 15 s", kind), cs)
		return
	}
	if res.Panic != "" {
		c.Violation("bad-config-crash:"+kind, fmt.Sprintf("configuration with %s ended in a crash instead of an error: %s", kind, res.Panic), cs)
		return
	}
	if res.ExitCode == 0 {
		c.Violation("bad-config-exit0:"+kind, fmt.Sprintf("configuration with %s: the proxy exited with status 0", kind), cs)
		return
	}
	c.Ev.Distinct("bad", kind)
	c.Ev.Count("bad_configs_rejected", 1)
	if idx < 2 {
		c.Ev.Sample(map[string]any{"bad_kind": kind, "exit_code": res.ExitCode})
	}
	var _ sync.Mutex
}
