package main

// C04 — answers are never mixed up between concurrent queries.

import (
	"fmt"
	"github.com/IrineSistiana/mosproxy/internal/pool"
	"strings"
	"sync"
	"time"
)

func init() {
	register(&Check{ID: "C04", Level: "exploration",
		Rule: "concurrent clients over all 8 listener kinds x 9 upstream transports, hot (repeated) and unique names, upstream replies delayed 0-50 ms (reordered), answers of 1-30 records of every pooled record type, cache off / tiny (eviction) / ample; replies that arrive after the 6 s deadline; plus the in-process cache stress (large values overwritten while readers are delayed inside their copy) judged for foreign or torn values, and in-process histories on the multiplexed upstream transports (reordered / duplicated / late replies, callers giving up at any moment) judged for replies handed to the wrong or to two callers; " +
			"one evaluation = one response checked against the keyed-answer oracle; distinct non-trivial = distinct (configuration, listener, upstream) cells with at least one keyed answer verified",
		Run: runC04})
}

func runC04(c *Ctx) {
	type cfg struct {
		name string
		bed  BedOpts
	}
	cfgs := []cfg{
		{"nocache", BedOpts{UdpRcvBuf: 8 << 20}},
		{"tinycache", BedOpts{UdpRcvBuf: 8 << 20, MemSize: 64 * 1024, Env: map[string]string{"VERIF_POINTS": "memcache.get=sleep(300us,20.0%)"}}},
		// bigcache: buffers are recycled as in production - no quarantine, no random fill on Get - so a
		// buffer still holds what its previous owner left in it
		{"bigcache", BedOpts{UdpRcvBuf: 8 << 20, MemSize: 64 << 20, Env: map[string]string{"VERIF_POOL_QUARANTINE": "0", "VERIF_POOL_NOFILL": "1"}}},
	}
	workers, per := c.N(6, 12), c.N(250, 1200)
	rounds := c.N(1, 4)
	// in-process cache stress (shared with C07/C20): readers of a few large, constantly overwritten
	// values must get one complete value of their own key, never bytes of another key or version.
	// Only that content oracle is judged here; sanitizer and race reports of the run belong to C20.
	c.sigFilter = func(sig string) bool {
		return !strings.HasPrefix(sig, "sanitizer-report:") && !strings.HasPrefix(sig, "data-race:cache")
	}
	c07Stress(c)
	c.sigFilter = nil
	// in-process histories on the multiplexed upstream transports (shared with C05): callers that
	// give up at every possible moment while replies are reordered, duplicated and delayed. Judged
	// here with the content oracle only: a caller that gets a message gets the reply the server made
	// for its own question (R2), and no reply is handed to two callers (R4).
	c.sigFilter = func(sig string) bool { return strings.HasPrefix(sig, "R2:") || strings.HasPrefix(sig, "R4:") }
	pool.VerifSetQuarantine(0)
	parallelFor(c.N(80, 800), 40, func() bool { return c.ViolationCount() >= 5 }, func(idx int) { c05History(c, idx) })
	c.sigFilter = nil
	for round := 0; round < rounds; round++ {
		var wg sync.WaitGroup
		results := make([]*stressResult, len(cfgs))
		for i, cf := range cfgs {
			wg.Add(1)
			go func(i int, cf cfg) {
				defer wg.Done()
				results[i] = runStress(c, stressOpts{Name: fmt.Sprintf("%s-r%d", cf.name, round), Bed: cf.bed, Workers: workers, PerWorker: per,
					HotNames: 16, UniqueFrac: 0.5, MaxDelayMs: 50, Seed: c.Seed + int64(round)*1000, LateReplies: 6, MinDuration: 8500 * time.Millisecond})
			}(i, cf)
		}
		wg.Wait()
		for i, res := range results {
			name := cfgs[i].name
			if res.StartErr != nil {
				c.procFailures(res.Proc, "start "+name)
				c.startFailure(res.StartErr, name)
				continue
			}
			c.Ev.Eval(int(res.Answered))
			c.Ev.Count(name+"_sent", res.Sent)
			c.Ev.Count(name+"_answered", res.Answered)
			c.Ev.Count(name+"_keyed_answers_verified", res.Keyed)
			c.Ev.Count(name+"_servfail", res.ServFail)
			c.Ev.Count(name+"_timeouts", res.Timeouts)
			c.Ev.Count(name+"_served_with_known_serial(cache)", res.CacheHits)
			c.Ev.Count(name+"_upstream_queries", res.UpstreamQueries)
			c.Ev.Count(name+"_upstream_replies_out_of_order", res.Reordered)
			for cell, n := range res.Cells {
				if n > 0 {
					c.Ev.Distinct(name, cell)
				}
			}
			for _, s := range res.Samples {
				c.Ev.Sample(s)
			}
			for _, v := range res.Violations {
				v.Case["config"] = name
				c.Violation(v.Sig, "["+name+"] "+v.What, v.Case)
			}
			c.procFailures(res.Proc, name)
			if res.Proc != nil {
				c.Ev.Count(name+"_race_reports_mosproxy", int64(countMosRaces(res.Proc)))
				if g, ok := res.Proc.PoolStats["gets"].(float64); ok {
					c.Ev.Count(name+"_pool_gets", int64(g))
				}
			}
		}
	}
}
