package main

// C11 — domain sets match by label suffix, independent of load order.
// In-process differential monitor: MixMatcher vs. a declarative reference
// over the entry *set*, in many load orders, with a monotonicity probe after
// every single Add.

import (
	"bytes"
	"encoding/hex"
	"fmt"
	"regexp"
	"strings"
	"sync"
	"sync/atomic"
	"unicode"

	domainmatcher "github.com/IrineSistiana/mosproxy/internal/domain_matcher"
	"github.com/IrineSistiana/mosproxy/verif/internal/gen"
	"github.com/IrineSistiana/mosproxy/verif/internal/racelog"
)

func init() {
	register(&Check{ID: "C11", Level: "exploration",
		Rule: "generated entry lists (full:/domain:/bare/regexp:, parents, children, duplicates, labels of 1..63 arbitrary octets, root) loaded in several orders (regexp entries include inline flag groups, upper-case literals and top-level alternation); " +
			"each (list, order, probe name) triple is one evaluation; a case is non-trivial and distinct by (sorted entry set, probe name) when the reference says the probe matches or the probe shares a label suffix with some entry",
		Run: runC11})
}

type c11Entry struct {
	Kind   string   // full | domain | bare | regexp
	Labels [][]byte // lower-cased labels (full/domain/bare)
	Raw    [][]byte // labels as written in the file (may contain upper case)
	Re     string
}

func (e *c11Entry) line() []byte {
	if e.Kind == "regexp" {
		return []byte("regexp:" + e.Re)
	}
	s := bytes.Join(e.Raw, []byte("."))
	if len(e.Raw) == 0 {
		s = []byte(".")
	}
	switch e.Kind {
	case "full":
		return append([]byte("full:"), s...)
	case "domain":
		return append([]byte("domain:"), s...)
	}
	return s
}

func c11Lower(b []byte) []byte {
	o := make([]byte, len(b))
	for i, c := range b {
		if 'A' <= c && c <= 'Z' {
			c += 'a' - 'A'
		}
		o[i] = c
	}
	return o
}

// text form per the property statement
func c11Text(labels [][]byte) string {
	if len(labels) == 0 {
		return "."
	}
	var sb strings.Builder
	for i, l := range labels {
		if i > 0 {
			sb.WriteByte('.')
		}
		for _, b := range l {
			switch {
			case ('a' <= b && b <= 'z') || ('A' <= b && b <= 'Z') || ('0' <= b && b <= '9') || b == '-':
				sb.WriteByte(b)
			case b == '.':
				sb.WriteString("\\.")
			case b == '\\':
				sb.WriteString("\\\\")
			default:
				fmt.Fprintf(&sb, "\\%03d", b)
			}
		}
	}
	return sb.String()
}

func c11Wire(labels [][]byte) []byte {
	var w []byte
	for _, l := range labels {
		w = append(w, byte(len(l)))
		w = append(w, l...)
	}
	return w
}

func c11LabelsEq(a, b [][]byte) bool {
	if len(a) != len(b) {
		return false
	}
	for i := range a {
		if !bytes.Equal(a[i], b[i]) {
			return false
		}
	}
	return true
}

// declarative reference
func c11Ref(entries []*c11Entry, res map[string]*regexp.Regexp, name [][]byte) (bool, string) {
	for _, e := range entries {
		switch e.Kind {
		case "full":
			if c11LabelsEq(e.Labels, name) {
				return true, "full"
			}
		case "domain", "bare":
			if len(e.Labels) <= len(name) && c11LabelsEq(e.Labels, name[len(name)-len(e.Labels):]) {
				return true, "domain"
			}
		case "regexp":
			if res[e.Re].MatchString(c11Text(name)) {
				return true, "regexp"
			}
		}
	}
	return false, ""
}

// label byte must survive the line oriented file format and the type split
func c11LabelByteOK(b byte) bool {
	switch b {
	case '\n', '\r', '#', ':', '.':
		return false
	}
	return true
}

func c11IsSpace(b byte) bool {
	return b == ' ' || b == '\t' || b == '\v' || b == '\f' || b == '\r' || b == '\n'
}

func c11GenLabel(r *gen.R) []byte {
	var n int
	switch r.Intn(10) {
	case 0:
		n = 1
	case 1:
		n = gen.Pick(r, []int{23, 24, 25})
	case 2:
		n = gen.Pick(r, []int{62, 63})
	default:
		n = r.Range(1, 8)
	}
	l := make([]byte, n)
	mode := r.Intn(4)
	for i := range l {
		var b byte
		switch mode {
		case 0: // hostile octets
			b = byte(r.Intn(256))
		case 1: // tiny alphabet -> many collisions / shared suffixes
			b = "ab"[r.Intn(2)]
		case 2:
			{
				const al = "abcXYZ019-_\\\x00\x07\xff"
				b = al[r.Intn(len(al))]
			}
		default:
			b = "abcdefghijklmnopqrstuvwxyz0123456789-"[r.Intn(37)]
		}
		if !c11LabelByteOK(b) {
			b = 'x'
		}
		l[i] = b
	}
	if r.P(0.15) { // label ending in / containing NUL
		l[len(l)-1] = 0
	}
	return l
}

var c11Pool = [][]byte{[]byte("com"), []byte("a"), []byte("b"), []byte("ab"), []byte("example"), []byte("www"), []byte("a\x00"), []byte("x-1")}

func c11GenName(r *gen.R, maxLabels int) [][]byte {
	n := r.Range(0, maxLabels)
	if r.P(0.03) {
		n = 0
	}
	var labels [][]byte
	total := 0
	for i := 0; i < n; i++ {
		var l []byte
		if r.P(0.6) || (maxLabels > 8 && r.P(0.8)) {
			l = gen.Pick(r, c11Pool)
		} else {
			l = c11GenLabel(r)
		}
		if total+1+len(l) > 250 {
			break
		}
		total += 1 + len(l)
		labels = append(labels, l)
	}
	return labels
}

func c11FixEdges(labels [][]byte) {
	// the line is TrimSpace'd: first and last byte of the expression must not be white space
	if len(labels) == 0 {
		return
	}
	if c11IsSpace(labels[0][0]) {
		labels[0][0] = 'q'
	}
	last := labels[len(labels)-1]
	if c11IsSpace(last[len(last)-1]) {
		last[len(last)-1] = 'q'
	}
	// the loader trims Unicode white space too (bytes.TrimSpace): U+0085, U+00A0, U+2000.. as UTF-8
	// sequences at either end of the line belong to the file syntax, not to the entry
	for len(bytes.TrimLeftFunc(labels[0], unicode.IsSpace)) != len(labels[0]) {
		labels[0][0] = 'q'
	}
	for len(bytes.TrimRightFunc(last, unicode.IsSpace)) != len(last) {
		last[len(last)-1] = 'q'
	}
}

func c11Upper(r *gen.R, labels [][]byte) [][]byte {
	out := make([][]byte, len(labels))
	for i, l := range labels {
		o := append([]byte{}, l...)
		for j, c := range o {
			if 'a' <= c && c <= 'z' && r.P(0.3) {
				o[j] = c - 32
			}
		}
		out[i] = o
	}
	return out
}

func c11GenRegexp(r *gen.R, base [][]byte) string {
	lit := func() string {
		if len(base) > 0 && r.P(0.7) {
			l := gen.Pick(r, base)
			ok := true
			for _, b := range l {
				if !(('a' <= b && b <= 'z') || ('0' <= b && b <= '9')) {
					ok = false
				}
			}
			if ok {
				return string(l)
			}
		}
		return gen.Pick(r, []string{"a", "b", "ab", "com", "www", "example", "x"})
	}
	switch r.Intn(9) {
	case 6: // an inline flag group at the start of the expression: it belongs to this entry alone
		return gen.Pick(r, []string{"(?i)", "(?i)", "(?s)", "(?U)", "(?m)"}) + "^" + strings.ToUpper(lit()) + `\.`
	case 7: // upper-case literals / classes: matched against the lower-cased text form such an entry matches nothing by itself
		if r.Bool() {
			return "^" + strings.ToUpper(lit()) + `\.`
		}
		return `^[A-Z0-9]+\.` + lit() + "$"
	case 8: // alternation at the top level of one entry
		return lit() + "$|^" + lit() + `\.`
	case 0:
		return "^" + lit() + `\.` + lit() + "$"
	case 1:
		return lit() + "$"
	case 2:
		return "^" + lit()
	case 3:
		return "^(" + lit() + "|" + lit() + `)\.`
	case 4:
		return `.*\\0` + fmt.Sprint(r.Intn(10)) // matches \DDD escapes in the text form
	default:
		return `^.*` + lit() + `.*$`
	}
}

type c11Case struct {
	Entries []string `json:"entries_hex"`
	Order   []int    `json:"order"`
	Probe   string   `json:"probe_wire_hex"`
	Want    bool     `json:"reference"`
	Got     bool     `json:"matcher"`
	Via     string   `json:"via"`
	Stage   string   `json:"stage"`
}

func runC11(c *Ctx) {
	nLists := c.N(3000, 40000)
	parallelFor(nLists, 0, func() bool { return c.ViolationCount() >= 20 }, func(idx int) {
		r := gen.New(c.Seed, "c11", idx)
		c11One(c, r, idx)
	})
	if c.ViolationCount() == 0 {
		c11BigFiles(c)
	}
	if c.ViolationCount() == 0 {
		c11Concurrent(c)
	}
}

// c11BigFiles: list files much larger than any read buffer (up to 1500 lines), most with lines
// of one fixed width (entry, padding, terminator) so that entries sit at the same offsets in
// consecutive blocks of the file, and with entries whose text begins with the text of another
// entry ("domain:a.example" / "domain:a.example.cdn.test") placed at block-related distances.
// Oracle: every entry of the list matches its own name (and, for domain: entries, a subdomain),
// names under a TLD no entry has never match, and the same entries loaded in reversed line
// order give the same answers.
func c11BigFiles(c *Ctx) {
	nFiles := c.N(48, 600)
	parallelFor(nFiles, 0, func() bool { return c.ViolationCount() >= 5 }, func(idx int) {
		r := gen.New(c.Seed, "c11big", idx)
		width := gen.Pick(r, []int{32, 64, 64, 128, 0}) // 0: lines of their natural length
		stride := 64
		if width > 0 {
			stride = 4096 / width
		}
		nLines := r.Range(3*stride, 3*stride+1000)
		nameLen := 14
		if width == 32 {
			nameLen = 9
		}
		type ent struct {
			full bool
			name string
		}
		ents := make([]*ent, nLines)
		mkBase := func(i int) string {
			const al = "abcdefghijklmnopqrstuvwxyz0123456789"
			b := make([]byte, 0, nameLen)
			for len(b) < nameLen-3 {
				b = append(b, al[r.Intn(len(al))])
			}
			return string(b) + "." + string(al[i%26]) + string(al[(i/26)%26])
		}
		offs := []int{1, stride - 1, stride - 1, stride, stride + 1, 2*stride - 1, 2, stride / 2}
		for i := 0; i < nLines; i++ {
			if ents[i] == nil {
				ents[i] = &ent{full: r.P(0.2), name: mkBase(i)}
			}
			if r.P(0.35) {
				j := i + gen.Pick(r, offs)
				if j < nLines && ents[j] == nil {
					// same kind, so that the line's text begins with the text of line i
					ents[j] = &ent{full: ents[i].full, name: ents[i].name + "." + gen.Pick(r, []string{"cdn", "x", "edge7"}) + ".test"}
				}
			}
		}
		lineOf := func(e *ent) string {
			l := "domain:" + e.name
			if e.full {
				l = "full:" + e.name
			}
			if width == 0 {
				return l + "\n"
			}
			pad := width - 1 - len(l)
			if pad < 0 {
				return l + "\n"
			}
			switch {
			case pad >= 2 && r.P(0.5):
				return l + " #" + strings.Repeat("-", pad-2) + "\n"
			default:
				return l + strings.Repeat(" ", pad) + "\n"
			}
		}
		var fwd strings.Builder
		lines := make([]string, nLines)
		for i, e := range ents {
			lines[i] = lineOf(e)
			fwd.WriteString(lines[i])
		}
		var rev strings.Builder
		for i := nLines - 1; i >= 0; i-- {
			rev.WriteString(lines[i])
		}
		load := func(text string) *domainmatcher.MixMatcher {
			m := domainmatcher.NewMixMatcher()
			if err := domainmatcher.LoadMixMatcherFromReader(m, strings.NewReader(text)); err != nil {
				c.Violation("load-error:big-file", fmt.Sprintf("a list of %d well-formed lines failed to load: %v", nLines, err), map[string]any{"file": idx, "width": width})
				return nil
			}
			return m
		}
		mf, mr := load(fwd.String()), load(rev.String())
		if mf == nil || mr == nil {
			return
		}
		fullNames := map[string]bool{}
		domNames := map[string]bool{}
		for _, e := range ents {
			if e.full {
				fullNames[e.name] = true
			} else {
				domNames[e.name] = true
			}
		}
		covered := func(name string) bool {
			if fullNames[name] {
				return true
			}
			for n := name; ; {
				if domNames[n] {
					return true
				}
				k := strings.IndexByte(n, '.')
				if k < 0 {
					return false
				}
				n = n[k+1:]
			}
		}
		nEval := 0
		for i, e := range ents {
			probes := []string{e.name, "www." + e.name, e.name + ".nomatch", "www." + e.name[1:]}
			for _, pn := range probes {
				want := covered(pn)
				w := c11Wire(splitLabels(pn))
				for k, m := range []*domainmatcher.MixMatcher{mf, mr} {
					nEval++
					if got := m.Match(w); got != want {
						ord := []string{"file order", "reversed line order"}[k]
						c.Violation("mismatch:big-file", fmt.Sprintf("list of %d lines (line width %d): entry on line %d is %q; Match(%q)=%v but the entries of the list say %v (%s)", nLines, width, i+1, strings.TrimRight(lines[i], "\n"), pn, got, want, ord),
							map[string]any{"file": idx, "width": width, "line": i + 1, "entry": lines[i], "probe": pn, "order": ord, "prev_line": lines[max(i-1, 0)]})
						return
					}
				}
			}
		}
		c.Ev.Eval(nEval)
		c.Ev.Count("big_files", 1)
		c.Ev.Count("big_file_lines", int64(nLines))
		c.Ev.Distinct("big-file", width, nLines/200)
	})
}

func c11Perms(n int) [][]int {
	var out [][]int
	p := make([]int, n)
	for i := range p {
		p[i] = i
	}
	var rec func(k int)
	rec = func(k int) {
		if k == n {
			out = append(out, append([]int{}, p...))
			return
		}
		for i := k; i < n; i++ {
			p[k], p[i] = p[i], p[k]
			rec(k + 1)
			p[k], p[i] = p[i], p[k]
		}
	}
	rec(0)
	return out
}

func c11One(c *Ctx, r *gen.R, idx int) {
	// entries
	nEnt := r.Range(1, 7)
	if r.P(0.1) {
		nEnt = r.Range(8, 20)
	}
	var entries []*c11Entry
	var bases [][][]byte
	for i := 0; i < nEnt; i++ {
		var labels [][]byte
		switch {
		case len(bases) > 0 && r.P(0.5): // relative of an earlier entry
			b := gen.Pick(r, bases)
			switch r.Intn(5) {
			case 0: // child
				labels = append([][]byte{c11GenLabel(r)}, b...)
			case 1: // parent
				if len(b) > 0 {
					labels = b[1:]
				}
			case 2: // duplicate
				labels = b
			case 3: // sibling
				if len(b) > 0 {
					labels = append([][]byte{c11GenLabel(r)}, b[1:]...)
				}
			case 4: // shifted boundary: merge two leading labels with a length-looking octet
				if len(b) >= 2 && len(b[0])+len(b[1])+1 <= 63 {
					m := append(append(append([]byte{}, b[0]...), byte(len(b[1]))), b[1]...)
					if c11LabelByteOK(byte(len(b[1]))) && !c11IsSpace(byte(len(b[1]))) {
						labels = append([][]byte{m}, b[2:]...)
					} else {
						labels = b
					}
				} else {
					labels = b
				}
			}
		default:
			if r.P(0.08) {
				labels = c11GenName(r, 40) // many short labels (ip6.arpa style reverse names have 34)
			} else {
				labels = c11GenName(r, 4)
			}
		}
		// deep copy, lower
		lower := make([][]byte, len(labels))
		for j, l := range labels {
			lower[j] = c11Lower(l)
		}
		c11FixEdges(lower)
		if len(c11Wire(lower)) > 250 {
			lower = lower[:1]
		}
		bases = append(bases, lower)
		e := &c11Entry{Labels: lower}
		switch r.Intn(10) {
		case 0, 1, 2:
			e.Kind = "full"
		case 3, 4, 5:
			e.Kind = "domain"
		case 6, 7, 8:
			e.Kind = "bare"
		default:
			e.Kind = "regexp"
			e.Re = c11GenRegexp(r, lower)
		}
		e.Raw = c11Upper(r, lower)
		c11FixEdges(e.Raw)
		if e.Kind == "bare" && len(e.Raw) > 0 {
			// a bare expression must not be empty after comment stripping etc: fine
		}
		entries = append(entries, e)
	}
	res := map[string]*regexp.Regexp{}
	for _, e := range entries {
		if e.Kind == "regexp" {
			re, err := regexp.Compile(e.Re)
			if err != nil {
				return
			}
			res[e.Re] = re
		}
	}

	// probes
	var probes [][][]byte
	for _, b := range bases {
		probes = append(probes, b)
		if len(b) > 0 {
			probes = append(probes, b[1:])
			probes = append(probes, append([][]byte{c11GenLabel(r)}, b[1:]...)) // sibling
			// same octets, shifted boundary
			if len(b) >= 2 && len(b[0])+len(b[1])+1 <= 63 {
				m := append(append(append([]byte{}, b[0]...), byte(len(b[1]))), b[1]...)
				probes = append(probes, append([][]byte{c11Lower(m)}, b[2:]...))
			}
			// last label with an appended NUL / stripped NUL
			l0 := b[len(b)-1]
			if len(l0) < 63 {
				v := append(append([][]byte{}, b[:len(b)-1]...), append(append([]byte{}, l0...), 0))
				probes = append(probes, v)
			}
			if len(l0) > 1 && l0[len(l0)-1] == 0 {
				v := append(append([][]byte{}, b[:len(b)-1]...), l0[:len(l0)-1])
				probes = append(probes, v)
			}
		}
		probes = append(probes, append([][]byte{c11Lower(c11GenLabel(r))}, b...))                           // child
		probes = append(probes, append([][]byte{c11Lower(c11GenLabel(r)), c11Lower(c11GenLabel(r))}, b...)) // grandchild
	}
	for i := 0; i < 6; i++ {
		n := c11GenName(r, 5)
		for j := range n {
			n[j] = c11Lower(n[j])
		}
		probes = append(probes, n)
	}
	probes = append(probes, nil) // root
	var pw [][]byte
	var pl [][][]byte
	for _, p := range probes {
		w := c11Wire(p)
		if len(w) <= 253 {
			pw = append(pw, w)
			pl = append(pl, p)
		}
	}
	want := make([]bool, len(pw))
	via := make([]string, len(pw))
	for i := range pw {
		want[i], via[i] = c11Ref(entries, res, pl[i])
	}

	// orders
	var orders [][]int
	if len(entries) <= 4 || (len(entries) == 5 && c.Tier == "thorough") {
		orders = c11Perms(len(entries))
	} else {
		id := make([]int, len(entries))
		for i := range id {
			id[i] = i
		}
		orders = append(orders, id)
		rev := make([]int, len(id))
		for i := range id {
			rev[i] = id[len(id)-1-i]
		}
		orders = append(orders, rev)
		for k := 0; k < 6; k++ {
			orders = append(orders, r.Perm(len(entries)))
		}
	}
	// an order with duplicates appended
	dup := append(append([]int{}, orders[0]...), orders[len(orders)-1]...)
	orders = append(orders, dup)

	entHex := make([]string, len(entries))
	for i, e := range entries {
		entHex[i] = hex.EncodeToString(e.line())
	}
	sortedSet := append([]string{}, entHex...)
	sortStrings(sortedSet)

	report := func(order []int, i int, got bool, stage string) {
		{
			kind := via[i]
			if !want[i] {
				kind = "false-positive"
			}
			if c.Seen("mismatch:" + stage + ":" + kind) {
				return
			}
		}
		cs := c11Case{Entries: entHex, Order: order, Probe: hex.EncodeToString(pw[i]), Want: want[i], Got: got, Via: via[i], Stage: stage}
		kind := via[i]
		if !want[i] {
			kind = "false-positive"
		}
		c.Violation("mismatch:"+stage+":"+kind,
			fmt.Sprintf("MixMatcher.Match=%v, reference=%v (via %s) at stage %s; entries=%q order=%v probe=%q", got, want[i], via[i], stage, linesOf(entries), order, c11Text(pl[i])), cs)
	}

	setKey := strings.Join(sortedSet, ",")
	var nEval, nMatch, nNoMatch int64
	viaN := map[string]int64{}
	defer func() {
		c.Ev.Eval(int(nEval))
		c.Ev.Count("probes_matching", nMatch)
		c.Ev.Count("probes_not_matching", nNoMatch)
		for k, v := range viaN {
			c.Ev.Count("match_via_"+k, v)
		}
	}()
	for oi, order := range orders {
		useReader := oi%2 == 1
		m := domainmatcher.NewMixMatcher()
		if useReader {
			// through the file loader, split across several "files", with comments and blanks
			var bufs [2]bytes.Buffer
			for k, ei := range order {
				b := &bufs[k%2]
				if k%3 == 0 {
					b.WriteString("# comment\n\n   \n")
				}
				b.WriteString("  ")
				b.Write(entries[ei].line())
				if k%2 == 0 {
					b.WriteString("  # trailing comment")
				}
				if k%5 == 4 {
					b.WriteString("\r\n")
				} else {
					b.WriteString("\n")
				}
			}
			// a file need not end with a line terminator
			for k := range bufs {
				if (len(order)+oi+k)%3 == 0 && bufs[k].Len() > 0 {
					bufs[k].Truncate(bufs[k].Len() - 1)
					if bb := bufs[k].Bytes(); len(bb) > 0 && bb[len(bb)-1] == '\r' {
						bufs[k].Truncate(len(bb) - 1)
					}
				}
			}
			for k := range bufs {
				if err := domainmatcher.LoadMixMatcherFromReader(m, &bufs[k]); err != nil {
					c.Violation("load-error", fmt.Sprintf("LoadMixMatcherFromReader failed: %v; entries=%q", err, linesOf(entries)), c11Case{Entries: entHex, Order: order, Stage: "load"})
					return
				}
			}
			// with the reader the effective order is file0 entries then file1 entries; only the final state is compared
		} else {
			// direct Add with a monotonicity probe after every step
			matched := make([]bool, len(pw))
			for _, ei := range order {
				if err := m.Add(entries[ei].line()); err != nil {
					c.Violation("add-error", fmt.Sprintf("Add(%q) failed: %v", entries[ei].line(), err), c11Case{Entries: entHex, Order: order, Stage: "add"})
					return
				}
				for i := range pw {
					got := m.Match(pw[i])
					if matched[i] && !got {
						report(order, i, got, "monotone")
					}
					if got {
						matched[i] = true
					}
				}
			}
		}
		for i := range pw {
			got := m.Match(pw[i])
			nEval++
			if got != want[i] {
				report(order, i, got, "final")
			}
			if oi == 0 {
				if want[i] {
					nMatch++
					viaN[via[i]]++
					c.Ev.DistinctBytes(append([]byte(setKey), pw[i]...))
				} else {
					nNoMatch++
					if i < len(bases)*4 {
						c.Ev.DistinctBytes(append([]byte(setKey), pw[i]...))
					}
				}
			}
		}
		c.Ev.Count("orders", 1)
	}
	c.Ev.Count("entry_lists", 1)
	if idx < 4 {
		c.Ev.Sample(map[string]any{"entries": linesOf(entries), "orders": len(orders), "probes": len(pw), "first_probe": c11Text(pl[0]), "reference_first_probe": want[0]})
	}
}

func linesOf(es []*c11Entry) []string {
	out := make([]string, len(es))
	for i, e := range es {
		out[i] = string(e.line())
	}
	return out
}

func sortStrings(s []string) {
	for i := 1; i < len(s); i++ {
		for j := i; j > 0 && s[j] < s[j-1]; j-- {
			s[j], s[j-1] = s[j-1], s[j]
		}
	}
}

// c11Concurrent: the router asks one matcher from many goroutines at once. A set with regexp and
// suffix entries is loaded once, every probe is answered sequentially first (and agrees with the
// reference), then 8 goroutines ask for different probes at the same time: each answer equals the
// sequential one.
func c11Concurrent(c *Ctx) {
	r := gen.New(c.Seed, "c11conc", 0)
	m := domainmatcher.NewMixMatcher()
	var entries []*c11Entry
	lines := []string{`regexp:^www\.`, `regexp:example\.com$`, `regexp:^(a|b)\.`, `regexp:^.*x-1.*$`, `regexp:.*\\00`, "domain:ab.example", "full:www.b"}
	res := map[string]*regexp.Regexp{}
	for _, l := range lines {
		if err := m.Add([]byte(l)); err != nil {
			c.Inconclusive("concurrent part: Add failed: " + err.Error())
			return
		}
		e := &c11Entry{Kind: "domain"}
		switch {
		case strings.HasPrefix(l, "regexp:"):
			e.Kind, e.Re = "regexp", strings.TrimPrefix(l, "regexp:")
			res[e.Re] = regexp.MustCompile(e.Re)
		case strings.HasPrefix(l, "full:"):
			e.Kind = "full"
			e.Raw = splitLabels(strings.TrimPrefix(l, "full:"))
			e.Labels = e.Raw
		default:
			e.Raw = splitLabels(strings.TrimPrefix(l, "domain:"))
			e.Labels = e.Raw
		}
		entries = append(entries, e)
	}
	var probes [][]byte
	var want []bool
	for i := 0; i < 96; i++ {
		n := c11GenName(r, 5)
		for j := range n {
			n[j] = c11Lower(n[j])
		}
		w := c11Wire(n)
		probes = append(probes, w)
		got := m.Match(w)
		ref, _ := c11Ref(entries, res, n)
		if got != ref {
			c.Inconclusive("concurrent part: sequential answer differs from the reference (judged by the main part)")
			return
		}
		want = append(want, got)
	}
	rounds := c.N(4000, 60000)
	var wrong atomic.Int64
	var first atomic.Value
	var wg sync.WaitGroup
	for g := 0; g < 8; g++ {
		wg.Add(1)
		go func(g int) {
			defer wg.Done()
			rr := gen.New(c.Seed, "c11conc/g", g)
			for i := 0; i < rounds && wrong.Load() == 0; i++ {
				k := rr.Intn(len(probes))
				if m.Match(probes[k]) != want[k] {
					wrong.Add(1)
					first.CompareAndSwap(nil, hex.EncodeToString(probes[k]))
				}
			}
		}(g)
	}
	wg.Wait()
	c.Ev.Eval(8 * rounds)
	c.Ev.Count("concurrent_matches", int64(8*rounds))
	if wrong.Load() > 0 {
		c.Violation("mismatch:concurrent", fmt.Sprintf("with 8 goroutines matching different names against one set at the same time, a probe (wire %v) got a different answer than when it was asked alone; entries=%q", first.Load(), lines), c11Case{Entries: lines, Probe: fmt.Sprint(first.Load()), Stage: "concurrent"})
		return
	}
	for key, rs := range racelog.Dedup(selfRaces("/internal/domain_matcher.", "dnsmsg.ToReadable", "dnsmsg.AppendReadable")) {
		c.Violation("data-race:matcher", fmt.Sprintf("data race in the matcher while it was asked from 8 goroutines (%d reports):\n%s", len(rs), rs[0].Text), map[string]any{"key": key, "report": rs[0].Text})
	}
	c.Ev.Distinct("concurrent", "answers-equal-sequential")
}

func splitLabels(s string) [][]byte {
	var out [][]byte
	for _, l := range strings.Split(strings.TrimSuffix(s, "."), ".") {
		if l != "" {
			out = append(out, []byte(l))
		}
	}
	return out
}
