package main

// Helpers shared by the upstream-transport checks (C05, C06, C14, C16).

import (
	"bytes"
	"context"
	"errors"
	"fmt"
	"os"
	"path/filepath"
	"strings"
	"syscall"

	"github.com/IrineSistiana/mosproxy/internal/dnsmsg"
	"github.com/IrineSistiana/mosproxy/verif/internal/scripted"
)

// upQuietRace re-executes the harness once with GORACE "exitcode=0
// log_path=.work/<ID>/race": data-race reports of the code under test (they
// belong to property C20) then go to files and cannot turn the exit status of
// this check into 66. Returns in the re-executed process.
func upQuietRace(c *Ctx) {
	if os.Getenv("VERIF_UP_REEXEC") == "1" {
		return
	}
	exe, err := os.Executable()
	if err != nil {
		return
	}
	env := []string{}
	for _, e := range os.Environ() {
		if !strings.HasPrefix(e, "GORACE=") {
			env = append(env, e)
		}
	}
	env = append(env, "VERIF_UP_REEXEC=1",
		"GORACE=halt_on_error=0 exitcode=0 log_path="+filepath.Join(c.Work, "race"))
	syscall.Exec(exe, os.Args, env) // only returns on error; then just carry on
}

// upRaceReports counts "WARNING: DATA RACE" blocks logged so far by this process.
func upRaceReports(c *Ctx) int {
	n := 0
	fs, _ := filepath.Glob(filepath.Join(c.Work, "race.*"))
	for _, f := range fs {
		b, err := os.ReadFile(f)
		if err == nil {
			n += bytes.Count(b, []byte("WARNING: DATA RACE"))
		}
	}
	return n
}

// upNonce extracts the scripted server's nonce and leg marker from a returned message.
func upNonce(m *dnsmsg.Msg) (nonce uint64, leg byte, ok bool) {
	if m == nil {
		return 0, 0, false
	}
	for _, r := range m.Answers {
		if a, isA := r.(*dnsmsg.AAAA); isA {
			if n, l, good := scripted.DecodeRData(a.AAAA); good {
				return n, l, true
			}
		}
	}
	return 0, 0, false
}

// upQuestionName returns the first question of a returned message in the scripted package's presentation form.
func upQuestion(m *dnsmsg.Msg) (name string, qtype, qclass uint16, ok bool) {
	if m == nil || len(m.Questions) == 0 {
		return "", 0, 0, false
	}
	q := m.Questions[0]
	// re-use the scripted parser on a synthetic message
	b := make([]byte, 12, 12+len(q.Name)+4)
	b[5] = 1
	b = append(b, q.Name...)
	b = append(b, 0) // dnsmsg.Name holds the labels without the root octet
	b = append(b, byte(q.Type>>8), byte(q.Type), byte(q.Class>>8), byte(q.Class))
	_, name, qtype, qclass, _, ok = scripted.ParseQuery(b)
	return
}

// upErrClass maps an exchange error to a stable class for counters.
func upErrClass(err error) string {
	switch {
	case err == nil:
		return "ok"
	case errors.Is(err, context.DeadlineExceeded):
		return "ctx-deadline"
	case errors.Is(err, context.Canceled):
		return "ctx-canceled"
	case errors.Is(err, syscall.ECONNREFUSED):
		return "conn-refused"
	case errors.Is(err, syscall.ECONNRESET), errors.Is(err, syscall.EPIPE):
		return "conn-reset"
	}
	s := err.Error()
	switch {
	case strings.Contains(s, "EOF"):
		return "eof"
	case strings.Contains(s, "eol"):
		return "conn-eol"
	case strings.Contains(s, "closed"):
		return "conn-closed"
	case strings.Contains(s, "timeout"):
		return "io-timeout"
	}
	return "other-error"
}

func upShort(err error) string {
	if err == nil {
		return ""
	}
	s := err.Error()
	if len(s) > 200 {
		s = s[:200]
	}
	return s
}

var _ = fmt.Sprint
