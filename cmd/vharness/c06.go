package main

// C06 — one-at-a-time upstream connections are reused only when clean.
//
// transport.NewReuseConnTransport (and the TCP fallback of
// upstream.NewUpstream("udp://...") forced by TC=1 on the UDP leg) against a
// scripted TCP server that sends exactly one reply per query: delayed, split
// into segments with pauses, or aborted mid-reply with FIN / RST.
//
//	S1 (server, measured online at every query arrival) no earlier query of the same connection is still unanswered;
//	K1 a returned message is the server's reply to this exchange's own unique qname (nonce join) and repeats that question;
//	K2 a returned message carries the caller's own ID.

import (
	"context"
	"encoding/json"
	"fmt"
	"net"
	"runtime"
	"sync"
	"time"

	"github.com/IrineSistiana/mosproxy/internal/dnsmsg"
	"github.com/IrineSistiana/mosproxy/internal/pool"
	"github.com/IrineSistiana/mosproxy/internal/upstream"
	"github.com/IrineSistiana/mosproxy/internal/upstream/transport"
	"github.com/IrineSistiana/mosproxy/verif/internal/gen"
	"github.com/IrineSistiana/mosproxy/verif/internal/scripted"
)

func init() {
	register(&Check{ID: "C06", Level: "fault_enumeration",
		Rule: "runs of one transport (ReuseConnTransport with IdleTimeout 50-200 ms, or the TCP fallback of a udp:// upstream whose UDP leg always answers TC=1) x 1..64 concurrent callers x a sequence of exchanges with unique qnames (plus twins: 2-8 concurrent callers asking the same question with IDs of their own - own ID back, no reply returned to two exchanges); " +
			"per exchange: server reply delay 0-20 ms, reply whole | 1-byte leading segments | random segments with 0.2-3 ms pauses | aborted mid-reply by FIN or RST; caller deadline placed before the query write completes | between write and first reply byte | mid-reply | just after | generous, " +
			"by deadline or explicit cancel; gap to the caller's next exchange 0-5 ms or IdleTimeout +-8 ms. One evaluation = one exchange (K1, K2) or one query arrival at the server (S1). " +
			"Distinct non-trivial cases = distinct tuples (variant, callers, deadline placement, reply shape, outcome class, connection was reused for this query, connection was reused after this query, caller had already given up when the reply completed)",
		Run: runC06})
}

type c06Run struct {
	Idx       int    `json:"run"`
	Variant   string `json:"variant"` // reuse | fallback
	IdleMs    int    `json:"idle_timeout_ms"`
	Callers   int    `json:"callers"`
	PerCaller int    `json:"exchanges_per_caller"`
}

type c06Ex struct {
	Caller     int    `json:"caller"`
	K          int    `json:"k"`
	Name       string `json:"qname"`
	FromUDPLeg bool   `json:"returned_message_from_udp_leg,omitempty"`
	CallerID   uint16 `json:"caller_id"`
	DMode      string `json:"deadline_placement"`
	DeadUs     int    `json:"deadline_us"`
	UseCancel  bool   `json:"explicit_cancel"`
	GapMode    string `json:"gap_mode"`
	GapUs      int    `json:"gap_before_us"`
	RMode      string `json:"reply_shape"`
	DelayUs    int    `json:"server_delay_us"`
	ReplyUs    int    `json:"server_reply_duration_us"`

	TCall    int64  `json:"t_call_ns"`
	TRet     int64  `json:"t_return_ns"`
	ErrClass string `json:"result"`
	Err      string `json:"err,omitempty"`
	Returned bool   `json:"returned_msg"`
	HasNonce bool   `json:"has_nonce"`
	Nonce    uint64 `json:"nonce"`
	GotID    uint16 `json:"returned_id"`
	GotName  string `json:"returned_qname"`

	act scripted.Action
}

type c06Witness struct {
	Run      c06Run           `json:"run"`
	Rule     string           `json:"rule"`
	Exchange *c06Ex           `json:"exchange,omitempty"`
	Reply    *scripted.Reply  `json:"server_reply,omitempty"`
	Query    *scripted.Query  `json:"server_query,omitempty"`
	Prev     *scripted.Query  `json:"previous_unanswered_query,omitempty"`
	PrevRep  []scripted.Reply `json:"replies_to_previous_query,omitempty"`
}

func runC06(c *Ctx) {
	upQuietRace(c)
	pool.VerifSetQuarantine(0)
	if runtime.NumCPU() > 8 {
		runtime.GOMAXPROCS(8)
	}
	if c.Replay != nil {
		var w c06Witness
		json.Unmarshal(c.Replay.Case, &w)
		var fn struct {
			Fn string `json:"fn"`
		}
		if json.Unmarshal(c.Replay.Case, &fn); fn.Fn == "c06Twins" {
			c06Twins(c)
			return
		}
		for k := 0; k < 5 && c.ViolationCount() == 0; k++ {
			c06One(c, w.Run.Idx)
		}
		return
	}
	nRuns := c.N(80, 4600) // ~80 exchanges per run on average
	lateDone := make(chan struct{})
	go func() { defer close(lateDone); c06LateReplies(c) }() // 8 s of mostly waiting: overlap with the sweep
	parallelFor(nRuns, 24, func() bool { return c.ViolationCount() >= 10 }, func(idx int) {
		c06One(c, idx)
	})
	<-lateDone
	c06Twins(c)
	c.Ev.Set("race_reports_logged_not_judged_here", upRaceReports(c))
}

func c06Plan(seed int64, idx int) (c06Run, [][]*c06Ex) {
	r := gen.New(seed, "c06", idx)
	run := c06Run{Idx: idx}
	run.Variant = "reuse"
	if r.P(0.25) {
		run.Variant = "fallback"
	}
	run.IdleMs = r.Range(50, 200)
	run.Callers = gen.Pick(r, []int{1, 1, 2, 3, 4, 8, 16, 32, 64})
	total := r.Range(60, 100)
	run.PerCaller = total / run.Callers
	if run.PerCaller < 2 {
		run.PerCaller = 2
	}
	if run.PerCaller > 24 {
		run.PerCaller = 24
	}
	plan := make([][]*c06Ex, run.Callers)
	// every sixth run: many callers asking back to back, complete replies of 4..40 KiB without any
	// pause, generous deadlines - connections change hands as fast as they can while large replies
	// are still being decoded
	bigRun := idx%6 == 5
	if bigRun {
		run.Variant = "reuse"
		run.Callers = gen.Pick(r, []int{8, 16, 32})
		run.PerCaller = 96 / run.Callers
		plan = make([][]*c06Ex, run.Callers)
	}
	for ci := range plan {
		for k := 0; k < run.PerCaller; k++ {
			ex := &c06Ex{Caller: ci, K: k, Name: fmt.Sprintf("r%d-c%d-k%d.c06.test.", idx, ci, k), CallerID: uint16(r.Intn(65536))}
			if bigRun {
				ex.RMode, ex.DMode, ex.GapMode = "whole-big", "generous", "short"
				ex.DeadUs = 2000000
				ex.act = scripted.Action{Tag: ex.RMode, Leg: scripted.LegTCP, PadTo: r.Range(4000, 40000)}
				plan[ci] = append(plan[ci], ex)
				continue
			}
			frameLen := 2 + 12 + len(ex.Name) + 1 + 4 + 28
			a := scripted.Action{}
			// server side
			if r.P(0.7) {
				ex.DelayUs = r.Range(200, 20000)
				if r.P(0.4) {
					ex.DelayUs = r.Range(200, 3000)
				}
				a.Delay = time.Duration(ex.DelayUs) * time.Microsecond
			}
			pauses := 0
			pauseUs := 0
			switch r.Intn(10) {
			case 0:
				// complete reply, then the server hangs up (as a server with a shorter idle time-out, or one
				// that serves one query per connection, does): the connection is pooled and dead, the next
				// exchange on it fails after its write and is retried
				ex.RMode = "whole-then-fin"
				a.End = scripted.EndFIN
				if r.Bool() {
					ex.RMode = "whole-then-rst"
					a.End = scripted.EndRST
				}
				a.EndDelay = time.Duration(r.Range(0, 4000)) * time.Microsecond
			case 1:
				ex.RMode = "whole"
				if r.P(0.4) {
					// a complete frame that is shorter than a DNS header (broken server or middle box): the
					// exchange fails; whatever follows on that connection must not be affected
					ex.RMode = "short-frame"
					a.ShortTo = r.Range(1, 11)
				}
			case 2:
				ex.RMode = "whole"
			case 3, 4:
				ex.RMode = "lead-1-byte"
				n := r.Range(1, 6)
				for i := 0; i < n; i++ {
					a.Segments = append(a.Segments, 1)
				}
				pauses = n
			case 5, 6, 7:
				ex.RMode = "random-segments"
				left := frameLen
				for left > 0 && len(a.Segments) < 8 {
					s := r.Range(1, 30)
					a.Segments = append(a.Segments, s)
					left -= s
				}
				pauses = len(a.Segments)
				if left <= 0 {
					pauses--
				}
			case 8:
				ex.RMode = "abort-fin"
				a.AbortTail = r.Range(1, frameLen-3)
				a.End = scripted.EndFIN
			case 9:
				ex.RMode = "abort-rst"
				a.AbortTail = r.Range(1, frameLen-3)
				a.End = scripted.EndRST
			}
			if ex.RMode == "abort-fin" || ex.RMode == "abort-rst" {
				if r.Bool() {
					a.Segments = []int{r.Range(1, 10)}
					pauses = 1
				}
				a.EndDelay = time.Duration(r.Range(0, 3000)) * time.Microsecond
			}
			if pauses > 0 {
				pauseUs = r.Range(200, 3000)
				a.SegPause = time.Duration(pauseUs) * time.Microsecond
			}
			ex.ReplyUs = pauses * pauseUs
			a.Tag = ex.RMode
			a.Leg = scripted.LegTCP
			ex.act = a
			// caller side
			switch m := r.Intn(10); {
			case m == 0:
				ex.DMode = "before-write-completes"
				ex.DeadUs = r.Range(0, 300)
			case m <= 2 && ex.DelayUs >= 1500:
				ex.DMode = "between-write-and-first-byte"
				ex.DeadUs = ex.DelayUs * r.Range(25, 75) / 100
			case m <= 5 && ex.ReplyUs >= 400:
				ex.DMode = "mid-reply"
				ex.DeadUs = ex.DelayUs + ex.ReplyUs*r.Range(10, 90)/100
			case m <= 7:
				ex.DMode = "just-after"
				ex.DeadUs = ex.DelayUs + ex.ReplyUs + r.Range(300, 3000)
			default:
				ex.DMode = "generous"
				ex.DeadUs = ex.DelayUs + ex.ReplyUs + 400000
			}
			ex.UseCancel = r.P(0.3)
			ex.GapMode = "short"
			ex.GapUs = r.Range(0, 5000)
			if k > 0 && run.Variant == "reuse" && r.P(0.3) {
				ex.GapMode = "around-idle-timeout"
				ex.GapUs = run.IdleMs*1000 + r.Range(-8000, 8000)
			}
			plan[ci] = append(plan[ci], ex)
		}
	}
	return run, plan
}

func c06One(c *Ctx, idx int) {
	run, plan := c06Plan(c.Seed, idx)
	byName := map[string]*c06Ex{}
	for _, p := range plan {
		for _, ex := range p {
			byName[ex.Name] = ex
		}
	}
	tcpSrv := scripted.NewServer(func(q *scripted.Query) scripted.Action {
		if ex := byName[q.Name]; ex != nil {
			return ex.act
		}
		return scripted.Action{Tag: "unknown-qname", Leg: scripted.LegTCP} // still exactly one reply
	})
	defer tcpSrv.Close()
	var tr transport.Transport
	var udpSrv *scripted.Server
	switch run.Variant {
	case "reuse":
		l, err := net.Listen("tcp4", "127.0.0.1:0")
		if err != nil {
			c.Inconclusive("C06 listen: " + err.Error())
			return
		}
		tcpSrv.ServeStream(l)
		d := &scripted.Dialer{Network: "tcp", Addr: l.Addr().String()}
		tr = transport.NewReuseConnTransport(transport.ReuseConnOpts{DialContext: d.DialContext, IdleTimeout: time.Duration(run.IdleMs) * time.Millisecond})
	default:
		l, u, port, err := scripted.ListenTCPUDP()
		if err != nil {
			c.Inconclusive("C06 listen: " + err.Error())
			return
		}
		u.SetReadBuffer(2 << 20)
		tcpSrv.ServeStream(l)
		udpSrv = scripted.NewServer(func(q *scripted.Query) scripted.Action {
			return scripted.Action{Tag: "udp-tc", TC: true, Leg: scripted.LegUDP}
		})
		udpSrv.ServePacket(u)
		defer udpSrv.Close()
		up, err := upstream.NewUpstream(fmt.Sprintf("udp://127.0.0.1:%d", port), upstream.Opt{})
		if err != nil {
			c.Inconclusive("C06 NewUpstream: " + err.Error())
			return
		}
		tr = up
	}

	var wg sync.WaitGroup
	for ci := range plan {
		wg.Add(1)
		go func(seq []*c06Ex) {
			defer wg.Done()
			for _, ex := range seq {
				if ex.GapUs > 0 {
					time.Sleep(time.Duration(ex.GapUs) * time.Microsecond)
				}
				c06Do(tr, ex)
			}
		}(plan[ci])
	}
	fin := make(chan struct{})
	go func() { wg.Wait(); close(fin) }()
	select {
	case <-fin:
	case <-time.After(60 * time.Second):
		c.Inconclusive(fmt.Sprintf("C06 run %d: callers still running after 60 s", idx))
		return
	}
	time.Sleep(40 * time.Millisecond) // abandoned workers finish reading their replies
	tr.Close()
	time.Sleep(2 * time.Millisecond)
	c06Judge(c, run, plan, tcpSrv.Snapshot(), idx < 3)
}

func c06Do(tr transport.Transport, ex *c06Ex) {
	q := scripted.BuildQuery(ex.CallerID, ex.Name, 28, 1)
	d := time.Duration(ex.DeadUs) * time.Microsecond
	var ctx context.Context
	var cancel context.CancelFunc
	var tm *time.Timer
	if ex.UseCancel {
		ctx, cancel = context.WithCancel(context.Background())
		tm = time.AfterFunc(d, cancel)
	} else {
		ctx, cancel = context.WithTimeout(context.Background(), d)
	}
	ex.TCall = int64(scripted.Now())
	m, err := tr.ExchangeContext(ctx, q)
	ex.TRet = int64(scripted.Now())
	if tm != nil {
		tm.Stop()
	}
	cancel()
	ex.ErrClass = upErrClass(err)
	ex.Err = upShort(err)
	if m != nil {
		ex.Returned = true
		ex.GotID = m.Header.ID
		var leg byte
		ex.Nonce, leg, ex.HasNonce = upNonce(m)
		ex.FromUDPLeg = leg == scripted.LegUDP
		ex.GotName, _, _, _ = upQuestion(m)
		dnsmsg.ReleaseMsg(m)
	}
}

func c06Judge(c *Ctx, run c06Run, plan [][]*c06Ex, snap *scripted.Snapshot, sample bool) {
	cnt := map[string]int64{}
	evals := 0
	viol := func(sig, what string, w c06Witness) {
		w.Run = run
		if !c.Seen(sig) {
			c.Violation(sig, what, w)
		}
	}
	byNonce := map[uint64]*scripted.Reply{}
	repliesOf := map[int][]int{}
	for i := range snap.Replies {
		r := &snap.Replies[i]
		byNonce[r.Nonce] = r
		repliesOf[r.Query] = append(repliesOf[r.Query], i)
		cnt["server_replies:"+r.Kind]++
		if r.Written < r.Len {
			cnt["server_replies_cut_short"]++
		}
	}
	// per connection: queries in arrival order
	connQs := map[int][]int{}
	receipts := map[string][]int{}
	for i := range snap.Queries {
		q := &snap.Queries[i]
		connQs[q.Conn] = append(connQs[q.Conn], i)
		receipts[q.Name] = append(receipts[q.Name], i)
	}
	// S1
	for i := range snap.Queries {
		q := &snap.Queries[i]
		evals++
		if q.ConnSeq > 0 {
			cnt["queries_on_a_reused_connection"]++
		}
		if q.OutstandingBefore > 0 {
			w := c06Witness{Rule: "S1", Query: q}
			var prev *scripted.Query
			for _, j := range connQs[q.Conn] {
				if snap.Queries[j].ConnSeq == q.ConnSeq-1 {
					prev = &snap.Queries[j]
				}
			}
			state := "no reply octet written yet"
			if prev != nil {
				w.Prev = prev
				for _, ri := range repliesOf[prev.Seq] {
					w.PrevRep = append(w.PrevRep, snap.Replies[ri])
					state = fmt.Sprintf("its reply was started at %v, finished at %v", snap.Replies[ri].T, snap.Replies[ri].TEnd)
				}
			}
			viol("S1:second-query-while-previous-unanswered", fmt.Sprintf("run %d (%s): query %q arrived on connection %d at %v while the previous query %q on it was still unanswered (%s)",
				run.Idx, run.Variant, q.Name, q.Conn, q.T, q.PrevName, state), w)
		}
	}
	// S2: a reply that is a complete frame shorter than a DNS header cannot be consumed without error,
	// so nothing may follow on that connection
	shortFrame := map[string]bool{}
	for _, seq := range plan {
		for _, ex := range seq {
			if ex.RMode == "short-frame" {
				shortFrame[ex.Name] = true
			}
		}
	}
	for _, qs := range connQs {
		for k := 1; k < len(qs); k++ { // connQs is in arrival order
			q, prev := &snap.Queries[qs[k]], &snap.Queries[qs[k-1]]
			if shortFrame[prev.Name] {
				viol("S2:reused-after-undecodable-reply", fmt.Sprintf("run %d (%s): query %q arrived on connection %d after the reply to the previous query %q on it had been a frame shorter than a DNS header - a reply that cannot have been consumed without error",
					run.Idx, run.Variant, q.Name, q.Conn, prev.Name), c06Witness{Rule: "S2", Query: q, Prev: prev})
			}
		}
	}
	for cn, qs := range connQs {
		_ = cn
		cnt["connections"]++
		if len(qs) > 1 {
			cnt["connections_reused"]++
		}
	}
	for _, ci := range snap.Conns {
		if ci.End != "" {
			cnt["connections_ended:"+ci.End]++
		}
	}
	cnt["server_bad_frames_in"] += int64(snap.BadFrames)
	cnt["server_partial_frames_in"] += int64(snap.Partial)

	for _, seq := range plan {
		for _, ex := range seq {
			evals++
			cnt["exchanges:"+ex.ErrClass]++
			cnt["cell:"+ex.DMode+"/"+ex.RMode+"/"+ex.ErrClass]++
			if ex.GapMode == "around-idle-timeout" {
				cnt["gap_around_idle_timeout"]++
			}
			// evidence: what happened to this exchange's connection
			reusedBefore, reusedAfter, gaveUpEarly := false, false, false
			for _, qi := range receipts[ex.Name] {
				q := &snap.Queries[qi]
				if q.ConnSeq > 0 {
					reusedBefore = true
				}
				if len(connQs[q.Conn]) > q.ConnSeq+1 {
					reusedAfter = true
				}
				for _, ri := range repliesOf[q.Seq] {
					if !ex.Returned && int64(snap.Replies[ri].TEnd) > ex.TRet && snap.Replies[ri].Written == snap.Replies[ri].Len {
						gaveUpEarly = true
					}
				}
			}
			if len(receipts[ex.Name]) == 0 {
				cnt["exchange_never_reached_the_server"]++
			}
			if len(receipts[ex.Name]) > 1 {
				cnt["exchange_retried_on_another_connection"]++
			}
			if gaveUpEarly {
				cnt["caller_gave_up_before_reply_completed"]++
				if reusedAfter {
					cnt["connection_reused_after_abandoned_exchange_was_drained"]++
				}
			}
			if ex.GapMode == "around-idle-timeout" {
				if reusedBefore {
					cnt["gap_around_idle_timeout:connection_reused"]++
				} else {
					cnt["gap_around_idle_timeout:new_connection"]++
				}
			}
			c.Ev.Distinct(run.Variant, run.Callers, ex.DMode, ex.RMode, ex.ErrClass, reusedBefore, reusedAfter, gaveUpEarly)
			if !ex.Returned {
				continue
			}
			rcp := receipts[ex.Name]
			var q0 *scripted.Query
			if len(rcp) > 0 {
				q0 = &snap.Queries[rcp[0]]
			}
			// K1
			if !ex.HasNonce {
				viol("K1:no-nonce", fmt.Sprintf("run %d: exchange %q returned a message without a server nonce", run.Idx, ex.Name), c06Witness{Rule: "K1", Exchange: ex, Query: q0})
				continue
			}
			r := byNonce[ex.Nonce]
			if r == nil && ex.FromUDPLeg {
				// fallback variant: the message is the (truncated) UDP reply, not anything that travelled
				// over the TCP connection - whether it may be returned is C16's question, not C06's
				cnt["returned_message_is_the_udp_reply_not_judged_here"]++
				continue
			}
			if r == nil {
				viol("K1:unknown-nonce", fmt.Sprintf("run %d: exchange %q returned nonce %d which the TCP server never sent (leg?)", run.Idx, ex.Name, ex.Nonce), c06Witness{Rule: "K1", Exchange: ex, Query: q0})
				continue
			}
			if r.Query < 0 || snap.Queries[r.Query].Name != ex.Name {
				other := "an unsolicited reply"
				var oq *scripted.Query
				if r.Query >= 0 {
					oq = &snap.Queries[r.Query]
					other = fmt.Sprintf("the reply to %q (conn %d)", oq.Name, oq.Conn)
				}
				viol("K1:reply-to-another-query", fmt.Sprintf("run %d (%s): exchange %q (deadline placement %s) returned %s", run.Idx, run.Variant, ex.Name, ex.DMode, other),
					c06Witness{Rule: "K1", Exchange: ex, Reply: r, Query: oq})
			} else if ex.GotName != ex.Name {
				viol("K1:question-changed", fmt.Sprintf("run %d: exchange %q returned a message whose question is %q", run.Idx, ex.Name, ex.GotName), c06Witness{Rule: "K1", Exchange: ex, Reply: r})
			}
			if r.Written < r.Len {
				viol("K1:returned-incomplete-reply", fmt.Sprintf("run %d: exchange %q returned a reply of which the server wrote only %d of %d octets", run.Idx, ex.Name, r.Written, r.Len), c06Witness{Rule: "K1", Exchange: ex, Reply: r})
			}
			// K2
			if ex.GotID != ex.CallerID {
				viol("K2:foreign-id", fmt.Sprintf("run %d: exchange %q has caller id %d but the returned message has id %d", run.Idx, ex.Name, ex.CallerID, ex.GotID), c06Witness{Rule: "K2", Exchange: ex, Reply: r})
			}
		}
	}
	cnt["runs"]++
	cnt["runs:"+run.Variant]++
	cnt[fmt.Sprintf("runs:callers=%d", run.Callers)]++
	c.Ev.Eval(evals)
	for k, v := range cnt {
		c.Ev.Count(k, v)
	}
	if sample {
		c.Ev.Sample(map[string]any{"run": run, "server_queries": len(snap.Queries), "server_replies": len(snap.Replies), "connections": len(snap.Conns)})
	}
}
