package main

// C05, twins: concurrent exchanges whose queries are byte-identical apart from the caller's ID
// (several clients asking the same question at once) through one pipelined transport. Every
// exchange has a query of its own on the wire - the server answers each with a reply of its own
// (own nonce) - so no reply (nonce) may be returned by two exchanges, and the server must have
// received as many queries as exchanges returned a message.

import (
	"context"
	"fmt"
	"sync"
	"time"

	"github.com/IrineSistiana/mosproxy/internal/dnsmsg"
	"github.com/IrineSistiana/mosproxy/verif/internal/gen"
	"github.com/IrineSistiana/mosproxy/verif/internal/scripted"
)

func c05Twins(c *Ctx) {
	for _, framing := range []string{"tcp", "udp"} {
		sig := "R4:reply-returned-twice:twins:" + framing
		srv, tr, _, _, err := c05Setup(framing, 64, func(q *scripted.Query) scripted.Action {
			return scripted.Action{Tag: "twin", Delay: 12 * time.Millisecond}
		})
		if err != nil {
			c.Inconclusive("C05 twins setup: " + err.Error())
			continue
		}
		rounds := c.N(10, 100)
		returned := 0
		for round := 0; round < rounds && !c.Seen(sig); round++ {
			r := gen.New(c.Seed, "c05twins/"+framing, round)
			n := gen.Pick(r, []int{2, 3, 4, 8})
			name := fmt.Sprintf("twins-%s-r%d.c05.test.", framing, round)
			type res struct {
				id    uint16
				nonce uint64
				ok    bool
			}
			out := make([]res, n)
			var wg sync.WaitGroup
			for i := 0; i < n; i++ {
				wg.Add(1)
				go func(i int) {
					defer wg.Done()
					time.Sleep(time.Duration(i*r.Range(0, 3)) * time.Millisecond)
					id := uint16(round*100 + i + 1)
					ctx, cancel := context.WithTimeout(context.Background(), 2*time.Second)
					defer cancel()
					m, err := tr.ExchangeContext(ctx, scripted.BuildQuery(id, name, 28, 1))
					if m != nil && err == nil {
						nonce, _, has := upNonce(m)
						out[i] = res{id: id, nonce: nonce, ok: has}
					}
					if m != nil {
						dnsmsg.ReleaseMsg(m)
					}
				}(i)
			}
			wg.Wait()
			seen := map[uint64]uint16{}
			for _, o := range out {
				c.Ev.Eval(1)
				if !o.ok {
					continue
				}
				returned++
				if other, dup := seen[o.nonce]; dup {
					c.Violation(sig, fmt.Sprintf("%s pipeline: %d callers asked %q at the same time with IDs of their own; the exchanges with IDs %d and %d both returned the server's reply with nonce %d - one reply satisfied two exchanges", framing, n, name, other, o.id, o.nonce),
						map[string]any{"fn": "c05Twins", "framing": framing, "round": round, "callers": n})
					break
				}
				seen[o.nonce] = o.id
			}
			c.Ev.Distinct("twins", framing, n)
		}
		time.Sleep(5 * time.Millisecond)
		snap := srv.Snapshot()
		tr.Close()
		srv.Close()
		c.Ev.Count("twins_exchanges_returned:"+framing, int64(returned))
		c.Ev.Count("twins_queries_received:"+framing, int64(len(snap.Queries)))
		if !c.Seen(sig) && len(snap.Queries) < returned {
			c.Violation("twins:fewer-queries-than-returned-exchanges:"+framing, fmt.Sprintf("%s pipeline: %d exchanges returned a message, the server received only %d queries: some exchange returned without a query of its own on the wire", framing, returned, len(snap.Queries)),
				map[string]any{"fn": "c05Twins", "framing": framing})
		}
	}
}
