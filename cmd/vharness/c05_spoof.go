package main

// C05, forged datagrams: a udp:// upstream built with the real constructor (the socket it opens is
// part of what is judged). For every query the server receives, a well-formed reply carrying the
// query's wire id and question is first sent to the client's port from a socket that is NOT the
// server's - another port of the server's address, or another local address - and only then, a few
// milliseconds later, comes the server's own reply. "An exchange that returns a message returns a
// reply the server sent": no exchange may return a forged one (every reply carries a nonce; the
// forged ones are logged as SPOOFED).

import (
	"context"
	"fmt"
	"net"
	"strings"
	"sync"
	"time"

	"github.com/IrineSistiana/mosproxy/internal/dnsmsg"
	"github.com/IrineSistiana/mosproxy/internal/upstream"
	"github.com/IrineSistiana/mosproxy/verif/internal/gen"
	"github.com/IrineSistiana/mosproxy/verif/internal/scripted"
)

func c05Spoof(c *Ctx) {
	u, err := net.ListenUDP("udp4", &net.UDPAddr{IP: net.IPv4(127, 0, 0, 1)})
	if err != nil {
		c.Inconclusive("c05 spoof: listen: " + err.Error())
		return
	}
	u.SetReadBuffer(2 << 20)
	port := u.LocalAddr().(*net.UDPAddr).Port
	srv := scripted.NewServer(func(q *scripted.Query) scripted.Action {
		a := scripted.Action{Tag: "own-reply", Leg: scripted.LegUDP, Delay: 3 * time.Millisecond}
		switch {
		case strings.HasPrefix(q.Name, "port-"):
			a.Before = []scripted.Extra{{Kind: scripted.ExtraSpoof}}
		case strings.HasPrefix(q.Name, "addr-"):
			a.Before = []scripted.Extra{{Kind: scripted.ExtraSpoof, SpoofIP: "127.0.0.9"}}
		}
		return a
	})
	srv.ServePacket(u)
	defer srv.Close()
	up, err := upstream.NewUpstream(fmt.Sprintf("udp://127.0.0.1:%d", port), upstream.Opt{})
	if err != nil {
		c.Inconclusive("c05 spoof: NewUpstream: " + err.Error())
		return
	}
	defer up.Close()
	type res struct {
		name   string
		nonce  uint64
		hasN   bool
		failed bool
	}
	var mu sync.Mutex
	var out []res
	var wg sync.WaitGroup
	per := c.N(40, 400)
	for g := 0; g < 6; g++ {
		wg.Add(1)
		go func(g int) {
			defer wg.Done()
			r := gen.New(c.Seed, "c05spoof", g)
			for k := 0; k < per; k++ {
				kind := gen.Pick(r, []string{"port", "addr", "plain"})
				name := fmt.Sprintf("%s-%d-%d.c05.test.", kind, g, k)
				ctx, cancel := context.WithTimeout(context.Background(), 2*time.Second)
				m, err := up.ExchangeContext(ctx, scripted.BuildQuery(uint16(r.Intn(65536)), name, 28, 1))
				cancel()
				rs := res{name: name, failed: err != nil || m == nil}
				if m != nil {
					rs.nonce, _, rs.hasN = upNonce(m)
					dnsmsg.ReleaseMsg(m)
				}
				mu.Lock()
				out = append(out, rs)
				mu.Unlock()
			}
		}(g)
	}
	wg.Wait()
	time.Sleep(10 * time.Millisecond)
	snap := srv.Snapshot()
	kindOf := map[uint64]string{}
	forged := 0
	for _, r := range snap.Replies {
		kindOf[r.Nonce] = r.Kind
		if strings.HasPrefix(r.Kind, "SPOOFED") && r.Written > 0 {
			forged++
			c.Ev.Count("forged_datagrams_sent:"+r.Kind, 1)
		}
	}
	if forged == 0 {
		c.Inconclusive("c05 spoof: no forged datagram could be sent")
		return
	}
	for _, rs := range out {
		c.Ev.Eval(1)
		switch {
		case rs.failed:
			c.Ev.Count("spoof_exchanges_failed", 1)
		case !rs.hasN:
			c.Ev.Count("spoof_exchanges_returned_without_nonce", 1)
		case strings.HasPrefix(kindOf[rs.nonce], "SPOOFED"):
			sig := "forged-datagram-returned:" + strings.TrimPrefix(kindOf[rs.nonce], "SPOOFED:")
			if !c.Seen(sig) {
				c.Violation(sig, fmt.Sprintf("udp upstream 127.0.0.1:%d: the exchange for %q returned a datagram the server never sent - a forged reply with the right wire id that came from %s (nonce %d); the server's own reply followed 3 ms later", port, rs.name, strings.TrimPrefix(kindOf[rs.nonce], "SPOOFED:"), rs.nonce),
					map[string]any{"fn": "c05Spoof", "qname": rs.name, "nonce": rs.nonce, "kind": kindOf[rs.nonce]})
			}
		default:
			c.Ev.Count("spoof_exchanges_returned_the_servers_reply", 1)
			c.Ev.Distinct("spoof", strings.SplitN(rs.name, "-", 2)[0], kindOf[rs.nonce])
		}
	}
	c.Ev.Sample(map[string]any{"part": "forged datagrams", "exchanges": len(out), "forged_datagrams": forged, "own_reply_delay_ms": 3})
}
