package main

import (
	"os"
	"reflect"
	"runtime"
	"strings"
	"sync"
	"sync/atomic"
	"time"

	"github.com/IrineSistiana/mosproxy/internal/cache"
	"github.com/IrineSistiana/mosproxy/verif/internal/racelog"
)

// selfRaces returns the race reports the race detector has logged so far for this very process
// (the check script points GORACE log_path at $VERIF_SELFRACE) whose stacks contain a frame
// matching one of the given substrings (e.g. "/internal/cache."). Harness-only races never match
// because only mosproxy frames are given.
func selfRaces(frameSubstr ...string) []racelog.Report {
	base := os.Getenv("VERIF_SELFRACE")
	if base == "" {
		return nil
	}
	var out []racelog.Report
	for _, r := range racelog.ParseFiles(base + ".*") {
		if !r.Mosproxy {
			continue
		}
		for _, f := range r.Frames {
			hit := false
			for _, sub := range frameSubstr {
				if strings.Contains(f, sub) {
					hit = true
				}
			}
			if hit {
				out = append(out, r)
				break
			}
		}
	}
	return out
}

// parallelFor runs fn(i) for i in [0,n) on up to workers goroutines; stops early when stop() is true.
func parallelFor(n, workers int, stop func() bool, fn func(i int)) {
	if workers <= 0 {
		workers = runtime.NumCPU()
	}
	var next atomic.Int64
	var wg sync.WaitGroup
	for w := 0; w < workers; w++ {
		wg.Add(1)
		go func() {
			defer wg.Done()
			for {
				i := int(next.Add(1) - 1)
				if i >= n || (stop != nil && stop()) {
					return
				}
				fn(i)
			}
		}()
	}
	wg.Wait()
}

// lagMonitor measures how late a 20 ms timer fires in this process. The cache properties speak
// about real time (lifetimes with a 1 s clock granularity); when the machine is so overloaded
// that timers fire hundreds of milliseconds late, the proxy's own coarse cache clock lags as
// well and "still alive" / "already expired" verdicts stop being sound. Checks turn
// lifetime-dependent candidates into inconclusive cases when overloaded() reports true.
type lagMonitor struct {
	max  atomic.Int64
	stop chan struct{}
}

func startLagMonitor() *lagMonitor {
	m := &lagMonitor{stop: make(chan struct{})}
	go func() {
		for {
			t0 := time.Now()
			select {
			case <-m.stop:
				return
			case <-time.After(20 * time.Millisecond):
			}
			lag := int64(time.Since(t0) - 20*time.Millisecond)
			for {
				cur := m.max.Load()
				if lag <= cur || m.max.CompareAndSwap(cur, lag) {
					break
				}
			}
		}
	}()
	return m
}

func (m *lagMonitor) Max() time.Duration { return time.Duration(m.max.Load()) }
func (m *lagMonitor) Stop()              { close(m.stop) }
func (m *lagMonitor) overloaded() bool   { return m.Max() > 300*time.Millisecond }

// mcStore calls MemoryCache.Store. The arguments are bound by type when the parameter list is not
// the pinned one (key = first byte slice, value = second, stored/expire = the time.Time parameters
// in order, a time.Duration = time left until expire, bool = set-if-absent), so that a refactoring
// of this internal signature does not leave the harness without a build - and the change without a verdict.
func mcStore(mc *cache.MemoryCache, k []byte, stored, expire time.Time, v []byte, nx bool) {
	if s, ok := any(mc).(interface {
		Store(k []byte, storedTime, expireTime time.Time, v []byte, setNX bool)
	}); ok {
		s.Store(k, stored, expire, v, nx)
		return
	}
	fn := reflect.ValueOf(mc).MethodByName("Store")
	if !fn.IsValid() {
		panic("harness: MemoryCache has no Store method any more")
	}
	t := fn.Type()
	args := make([]reflect.Value, t.NumIn())
	nBytes, nTimes := 0, 0
	for i := range args {
		p := t.In(i)
		switch {
		case p.Kind() == reflect.Slice && p.Elem().Kind() == reflect.Uint8:
			b := k
			if nBytes > 0 {
				b = v
			}
			nBytes++
			args[i] = reflect.ValueOf(b).Convert(p)
		case p == reflect.TypeOf(time.Time{}):
			tm := stored
			if nTimes > 0 || t.NumIn() < 5 {
				tm = expire
			}
			nTimes++
			args[i] = reflect.ValueOf(tm)
		case p == reflect.TypeOf(time.Duration(0)):
			args[i] = reflect.ValueOf(time.Until(expire))
		case p.Kind() == reflect.Bool:
			args[i] = reflect.ValueOf(nx)
		default:
			panic("harness: MemoryCache.Store has a parameter of type " + p.String() + " the harness cannot bind")
		}
	}
	fn.Call(args)
}
