package main

import (
	"runtime"
	"sync"
	"sync/atomic"
)

// parallelFor runs fn(i) for i in [0,n) on up to workers goroutines; stops early when stop() is true.
func parallelFor(n, workers int, stop func() bool, fn func(i int)) {
	if workers <= 0 {
		workers = runtime.NumCPU()
	}
	var next atomic.Int64
	var wg sync.WaitGroup
	for w := 0; w < workers; w++ {
		wg.Add(1)
		go func() {
			defer wg.Done()
			for {
				i := int(next.Add(1) - 1)
				if i >= n || (stop != nil && stop()) {
					return
				}
				fn(i)
			}
		}()
	}
	wg.Wait()
}
