package main

import (
	"os"
	"runtime"
	"strings"
	"sync"
	"sync/atomic"

	"github.com/IrineSistiana/mosproxy/verif/internal/racelog"
)

// selfRaces returns the race reports the race detector has logged so far for this very process
// (the check script points GORACE log_path at $VERIF_SELFRACE) whose stacks contain a frame
// matching one of the given substrings (e.g. "/internal/cache."). Harness-only races never match
// because only mosproxy frames are given.
func selfRaces(frameSubstr ...string) []racelog.Report {
	base := os.Getenv("VERIF_SELFRACE")
	if base == "" {
		return nil
	}
	var out []racelog.Report
	for _, r := range racelog.ParseFiles(base + ".*") {
		if !r.Mosproxy {
			continue
		}
		for _, f := range r.Frames {
			hit := false
			for _, sub := range frameSubstr {
				if strings.Contains(f, sub) {
					hit = true
				}
			}
			if hit {
				out = append(out, r)
				break
			}
		}
	}
	return out
}

// parallelFor runs fn(i) for i in [0,n) on up to workers goroutines; stops early when stop() is true.
func parallelFor(n, workers int, stop func() bool, fn func(i int)) {
	if workers <= 0 {
		workers = runtime.NumCPU()
	}
	var next atomic.Int64
	var wg sync.WaitGroup
	for w := 0; w < workers; w++ {
		wg.Add(1)
		go func() {
			defer wg.Done()
			for {
				i := int(next.Add(1) - 1)
				if i >= n || (stop != nil && stop()) {
					return
				}
				fn(i)
			}
		}()
	}
	wg.Wait()
}
