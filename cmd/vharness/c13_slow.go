package main

// C13, slow reader: 40 pipelined queries whose answers are 12-28 kB each on one connection whose
// client reads nothing for a while (8 kB receive buffer): responses complete while earlier ones
// are still stuck in the listener's Write. Then everything is read: every response is one
// contiguous, decodable frame carrying the id and the question of one of the queries, each query is
// answered once, no stray octets.

import (
	"crypto/tls"
	"encoding/binary"
	"fmt"
	"io"
	"net"
	"strings"
	"time"

	"github.com/miekg/dns"
)

func c13SlowReader(c *Ctx, b *Bed, listeners []string) {
	for _, listener := range listeners {
		for rep := 0; rep < c.N(2, 8); rep++ {
			if c.Seen("slow-reader:bad-frame:"+listener) || c.Seen("slow-reader:missing-response:"+listener) {
				break
			}
			raw, err := net.DialTimeout("tcp", b.L[listener], 3*time.Second)
			if err != nil {
				c.Inconclusive("slow reader: dial: " + err.Error())
				continue
			}
			raw.(*net.TCPConn).SetReadBuffer(8 << 10)
			var conn net.Conn = raw
			if listener == "tls" {
				tc := tls.Client(raw, b.ProxyTLS.Clone())
				raw.SetDeadline(time.Now().Add(5 * time.Second))
				if err := tc.Handshake(); err != nil {
					raw.Close()
					c.Inconclusive("slow reader: handshake: " + err.Error())
					continue
				}
				conn = tc
			}
			const nq = 40
			names := map[uint16]string{}
			var out []byte
			for i := 0; i < nq; i++ {
				id := uint16(500 + i)
				// half of the answers are ready at once, the other half 400-700 ms later - while the first
				// ones are being written to a client that is not reading
				name := fmt.Sprintf("ok-n1-big%d-d%d-sr%dr%d%s.pipe.test.", 12000+400*i, (i%2)*(400+8*i), i, rep, listener)
				names[id] = name
				q := mkQuery(id, name, dns.TypeTXT, dns.ClassINET, true)
				out = append(out, byte(len(q)>>8), byte(len(q)))
				out = append(out, q...)
			}
			raw.SetDeadline(time.Now().Add(30 * time.Second))
			if _, err := conn.Write(out); err != nil {
				conn.Close()
				c.Inconclusive("slow reader: write: " + err.Error())
				continue
			}
			time.Sleep(1500 * time.Millisecond) // nothing is read meanwhile
			raw.SetDeadline(time.Now().Add(12 * time.Second))
			seen := map[uint16]int{}
			bad := ""
			frames := 0
			for frames < nq && bad == "" {
				var hdr [2]byte
				if _, err := io.ReadFull(conn, hdr[:]); err != nil {
					break
				}
				body := make([]byte, binary.BigEndian.Uint16(hdr[:]))
				if _, err := io.ReadFull(conn, body); err != nil {
					bad = fmt.Sprintf("frame %d announces %d octets, the stream ends before they arrive (%v)", frames, len(body), err)
					break
				}
				frames++
				m := new(dns.Msg)
				switch err := m.Unpack(body); {
				case err != nil:
					bad = fmt.Sprintf("frame %d (%d octets) does not decode: %v", frames-1, len(body), err)
				case names[m.Id] == "":
					bad = fmt.Sprintf("frame %d carries id %d, no such query was sent", frames-1, m.Id)
				case len(m.Question) != 1 || !strings.EqualFold(m.Question[0].Name, names[m.Id]):
					bad = fmt.Sprintf("frame %d carries id %d and a question that is not that query's", frames-1, m.Id)
				default:
					if _, e := CheckKeyed(dns.Question{Name: names[m.Id], Qtype: dns.TypeTXT, Qclass: dns.ClassINET}, "pipe", m); e != nil && m.Rcode == dns.RcodeSuccess && !m.Truncated {
						bad = fmt.Sprintf("frame %d (id %d): %v", frames-1, m.Id, e)
					}
					seen[m.Id]++
				}
			}
			conn.Close()
			c.Ev.Eval(nq)
			cs := map[string]any{"fn": "c13SlowReader", "listener": listener, "queries": nq, "frames_read": frames}
			switch {
			case bad != "":
				c.Violation("slow-reader:bad-frame:"+listener, fmt.Sprintf("%s: 40 pipelined queries with 12-28 kB answers, client not reading for 1.5 s: %s", listener, bad), cs)
			case len(seen) < nq:
				c.Violation("slow-reader:missing-response:"+listener, fmt.Sprintf("%s: 40 pipelined queries with 12-28 kB answers, client not reading for 1.5 s: only %d distinct queries were answered within 12 s (%d frames)", listener, len(seen), frames), cs)
			default:
				dup := 0
				for _, n := range seen {
					if n > 1 {
						dup++
					}
				}
				if dup > 0 {
					c.Violation("slow-reader:duplicate-response:"+listener, fmt.Sprintf("%s: %d queries were answered more than once", listener, dup), cs)
					continue
				}
				c.Ev.Distinct("slow-reader", listener, rep)
				c.Ev.Count("slow_reader_connections_clean", 1)
			}
		}
	}
}
