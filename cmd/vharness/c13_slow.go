package main

// C13, slow reader: 60 pipelined queries whose answers are 12-28 kB each on one connection whose
// client reads nothing for 1.5 s and then drains slowly (16 kB receive buffer): responses complete
// while earlier ones are still stuck in the listener's Write, in three waves. Then everything is read: every response is one
// contiguous, decodable frame carrying the id and the question of one of the queries, each query is
// answered once, no stray octets.

import (
	"crypto/tls"
	"encoding/binary"
	"fmt"
	"io"
	"net"
	"strings"
	"sync"
	"time"

	"github.com/miekg/dns"
)

func c13SlowReader(c *Ctx, b *Bed, listeners []string) {
	var wg sync.WaitGroup
	for _, listener := range listeners {
		wg.Add(1)
		go func(listener string) {
			defer wg.Done()
			c13SlowReaderOn(c, b, listener)
		}(listener)
	}
	wg.Wait()
}

func c13SlowReaderOn(c *Ctx, b *Bed, listener string) {
	{
		for rep := 0; rep < c.N(2, 6); rep++ {
			if c.Seen("slow-reader:bad-frame:"+listener) || c.Seen("slow-reader:missing-response:"+listener) {
				break
			}
			raw, err := net.DialTimeout("tcp", b.L[listener], 3*time.Second)
			if err != nil {
				c.Inconclusive("slow reader: dial: " + err.Error())
				continue
			}
			raw.(*net.TCPConn).SetReadBuffer(16 << 10) // a small window: the listener's writes block, the client drains slowly
			var conn net.Conn = raw
			if listener == "tls" {
				tc := tls.Client(raw, b.ProxyTLS.Clone())
				raw.SetDeadline(time.Now().Add(5 * time.Second))
				if err := tc.Handshake(); err != nil {
					raw.Close()
					c.Inconclusive("slow reader: handshake: " + err.Error())
					continue
				}
				conn = tc
			}
			const nq = 60
			tStart := time.Now()
			names := map[uint16]string{}
			var out []byte
			for i := 0; i < nq; i++ {
				id := uint16(500 + i)
				// a third of the answers are ready at once, a third 400-700 ms later - while the first ones
				// are being written to a client that is not reading - and a third 2.2-3.2 s later, while the
				// client pauses again after having taken 64 kB
				delay := 0
				switch i % 3 {
				case 1:
					delay = 400 + 5*i
				case 2:
					delay = 2200 + 17*i
				}
				name := fmt.Sprintf("ok-n1-big%d-d%d-sr%dr%d%s.pipe.test.", 12000+270*i, delay, i, rep, listener)
				names[id] = name
				q := mkQuery(id, name, dns.TypeTXT, dns.ClassINET, true)
				out = append(out, byte(len(q)>>8), byte(len(q)))
				out = append(out, q...)
			}
			raw.SetDeadline(time.Now().Add(30 * time.Second))
			if _, err := conn.Write(out); err != nil {
				conn.Close()
				c.Inconclusive("slow reader: write: " + err.Error())
				continue
			}
			time.Sleep(1500 * time.Millisecond) // nothing is read meanwhile
			raw.SetDeadline(time.Now().Add(30 * time.Second))
			seen := map[uint16]int{}
			bad := ""
			frames := 0
			aborted := false
			// the client takes 64 kB (whoever was stuck in a write gets on, and whatever has been queued
			// behind it starts to move), pauses until the third wave of responses has completed, and
			// then reads everything
			// (every other connection does not pause completely the second time: it takes 512 octets every
			// 100 ms until 6 s have passed - the peer's TCP sees progress all the time, but no response of
			// 12 kB and more gets through in less than a few seconds)
			resume := tStart.Add(3600 * time.Millisecond)
			trickle := rep%2 == 1
			if trickle {
				resume = tStart.Add(6000 * time.Millisecond)
			}
			rd := &c13Paused{r: conn, after: 64 << 10, resume: resume, trickle: trickle, grow: func() { raw.(*net.TCPConn).SetReadBuffer(4 << 20) }}
			for frames < nq && bad == "" {
				var hdr [2]byte
				if _, err := io.ReadFull(rd, hdr[:]); err != nil {
					aborted = !isTimeout(err) // the listener hung up (it may drop a client that reads too slowly)
					break
				}
				body := make([]byte, binary.BigEndian.Uint16(hdr[:]))
				if _, err := io.ReadFull(rd, body); err != nil {
					if aborted = !isTimeout(err); !aborted {
						bad = fmt.Sprintf("frame %d announces %d octets, nothing more arrives (%v)", frames, len(body), err)
					}
					break
				}
				frames++
				m := new(dns.Msg)
				switch err := m.Unpack(body); {
				case err != nil:
					bad = fmt.Sprintf("frame %d (%d octets) does not decode: %v", frames-1, len(body), err)
				case names[m.Id] == "":
					bad = fmt.Sprintf("frame %d carries id %d, no such query was sent", frames-1, m.Id)
				case len(m.Question) != 1 || !strings.EqualFold(m.Question[0].Name, names[m.Id]):
					bad = fmt.Sprintf("frame %d carries id %d and a question that is not that query's", frames-1, m.Id)
				default:
					if _, e := CheckKeyed(dns.Question{Name: names[m.Id], Qtype: dns.TypeTXT, Qclass: dns.ClassINET}, "pipe", m); e != nil && m.Rcode == dns.RcodeSuccess && !m.Truncated {
						bad = fmt.Sprintf("frame %d (id %d): %v", frames-1, m.Id, e)
					}
					seen[m.Id]++
				}
			}
			conn.Close()
			c.Ev.Count("slow_reader_ms_"+listener, time.Since(tStart).Milliseconds())
			c.Ev.Eval(nq)
			cs := map[string]any{"fn": "c13SlowReader", "listener": listener, "queries": nq, "frames_read": frames}
			switch {
			case aborted && bad == "":
				// what did arrive was well-formed; a connection given up by the listener is not a framing matter
				c.Ev.Count("slow_reader_connections_ended_by_the_listener", 1)
			case bad != "":
				c.Violation("slow-reader:bad-frame:"+listener, fmt.Sprintf("%s: 60 pipelined queries with 12-28 kB answers (ready at once / after 0.5 s / after 2.2-3.2 s), client reading nothing for 1.5 s, then 64 kB, then nothing until 3.6 s: %s", listener, bad), cs)
			case len(seen) < nq:
				c.Violation("slow-reader:missing-response:"+listener, fmt.Sprintf("%s: 60 pipelined queries with 12-28 kB answers, client not reading for 1.5 s: only %d distinct queries were answered within 30 s (%d frames)", listener, len(seen), frames), cs)
			default:
				dup := 0
				for _, n := range seen {
					if n > 1 {
						dup++
					}
				}
				if dup > 0 {
					c.Violation("slow-reader:duplicate-response:"+listener, fmt.Sprintf("%s: %d queries were answered more than once", listener, dup), cs)
					continue
				}
				c.Ev.Distinct("slow-reader", listener, rep)
				c.Ev.Count("slow_reader_connections_clean", 1)
			}
		}
	}
}

type c13Paused struct {
	trickle, done bool
	grow          func()
	r             io.Reader
	n             int
	after         int
	resume        time.Time
}

func (t *c13Paused) Read(p []byte) (int, error) {
	if t.n >= t.after && !t.done {
		if t.trickle && time.Now().Before(t.resume) {
			time.Sleep(100 * time.Millisecond)
			if len(p) > 512 {
				p = p[:512]
			}
			n, err := t.r.Read(p)
			t.n += n
			return n, err
		}
		if d := time.Until(t.resume); d > 0 {
			time.Sleep(d)
		}
		t.done = true
		if t.grow != nil {
			t.grow() // from now on the client reads as fast as it can
		}
	} else if !t.done && len(p) > t.after-t.n {
		p = p[:t.after-t.n]
	}
	n, err := t.r.Read(p)
	t.n += n
	return n, err
}

func isTimeout(err error) bool {
	ne, ok := err.(net.Error)
	return ok && ne.Timeout()
}
