package main

// C12 — EDNS0 ends at the proxy; ECS reveals only a truncated client prefix.

import (
	"bytes"
	"encoding/hex"
	"fmt"
	"net"
	"net/netip"
	"strings"
	"sync"
	"time"

	"github.com/IrineSistiana/mosproxy/verif/internal/fakeup"
	"github.com/IrineSistiana/mosproxy/verif/internal/gen"
	"github.com/miekg/dns"
)

func init() {
	register(&Check{ID: "C12", Level: "exploration",
		Rule: "probes over every listener kind with client addresses v4 (127.a.b.c sockets), and v4 / v6 / v4-mapped / absent via the DoH client-address header; queries with random option sets (none, cookie, client ECS, padding, DO, extended rcode bits, version 1) and upstream replies with/without options; ECS on and off; every probe sent twice (second answered from cache); " +
			"one evaluation = one probe response + its upstream-side query; distinct non-trivial = distinct (ecs mode, listener, address family, query option set, upstream opt, cached?) combinations checked",
		Run: runC12})
}

type c12Probe struct {
	Listener   string `json:"listener"`
	ClientAddr string `json:"client_addr"` // "" = unknown
	Name       string `json:"name"`
	QueryOpt   string `json:"query_opt"`
	QueryHex   string `json:"query_hex"`
}

// reference ECS encoder: option data (after code and length) for a client address
func c12RefECS(addr netip.Addr) []byte {
	addr = addr.Unmap()
	if addr.Is4() {
		b := addr.As4()
		return append([]byte{0, 1, 24, 0}, b[:3]...)
	}
	b := addr.As16()
	return append([]byte{0, 2, 56, 0}, b[:7]...)
}

type c12Opt struct {
	Code uint16
	Data []byte
}

// raw OPT scanner (independent of miekg's option parsing): walks the wire and returns, for every
// OPT record in any section, its advertised UDP size and its options.
func c12RawOPTs(wire []byte) (n int, opts [][]c12Opt, udpSize []uint16, err error) {
	m := new(dns.Msg)
	if err = m.Unpack(wire); err != nil {
		return
	}
	off := 12
	skipName := func() bool {
		for off < len(wire) {
			l := int(wire[off])
			if l == 0 {
				off++
				return true
			}
			if l&0xC0 == 0xC0 {
				off += 2
				return true
			}
			off += 1 + l
		}
		return false
	}
	qd := int(wire[4])<<8 | int(wire[5])
	rrs := (int(wire[6])<<8 | int(wire[7])) + (int(wire[8])<<8 | int(wire[9])) + (int(wire[10])<<8 | int(wire[11]))
	for i := 0; i < qd; i++ {
		if !skipName() {
			return 0, nil, nil, fmt.Errorf("bad question")
		}
		off += 4
	}
	for i := 0; i < rrs; i++ {
		if !skipName() || off+10 > len(wire) {
			return 0, nil, nil, fmt.Errorf("bad rr")
		}
		typ := int(wire[off])<<8 | int(wire[off+1])
		class := uint16(wire[off+2])<<8 | uint16(wire[off+3])
		rdlen := int(wire[off+8])<<8 | int(wire[off+9])
		off += 10
		if off+rdlen > len(wire) {
			return 0, nil, nil, fmt.Errorf("bad rdlen")
		}
		if typ == 41 {
			n++
			rd := wire[off : off+rdlen]
			var os []c12Opt
			for p := 0; p+4 <= len(rd); {
				code := uint16(rd[p])<<8 | uint16(rd[p+1])
				l := int(rd[p+2])<<8 | int(rd[p+3])
				if p+4+l > len(rd) {
					return 0, nil, nil, fmt.Errorf("bad option length")
				}
				os = append(os, c12Opt{code, append([]byte{}, rd[p+4:p+4+l]...)})
				p += 4 + l
			}
			opts = append(opts, os)
			udpSize = append(udpSize, class)
		}
		off += rdlen
	}
	return
}

func c12RawECS(wire []byte) [][]byte {
	_, opts, _, err := c12RawOPTs(wire)
	if err != nil {
		return nil
	}
	var out [][]byte
	for _, os := range opts {
		for _, o := range os {
			if o.Code == 8 {
				out = append(out, o.Data)
			}
		}
	}
	return out
}

func c12RandAddr(r *gen.R, fam string) netip.Addr {
	switch fam {
	case "v4":
		return netip.AddrFrom4([4]byte{byte(r.Range(1, 223)), byte(r.Intn(256)), byte(r.Intn(256)), byte(r.Range(1, 254))})
	case "v6":
		var b [16]byte
		r.Read(b[:])
		b[0] = 0x20
		b[1] = 0x01
		return netip.AddrFrom16(b)
	default: // v4-mapped
		var b [16]byte
		b[10], b[11] = 0xff, 0xff
		b[12], b[13], b[14], b[15] = byte(r.Range(1, 223)), byte(r.Intn(256)), byte(r.Intn(256)), byte(r.Range(1, 254))
		return netip.AddrFrom16(b)
	}
}

func c12BuildQuery(r *gen.R, name string, qtype, id uint16) (wire []byte, optDesc string) {
	m := new(dns.Msg)
	m.Id = id
	m.RecursionDesired = true
	m.Question = []dns.Question{{Name: name, Qtype: qtype, Qclass: dns.ClassINET}}
	optDesc = "none"
	if r.P(0.7) {
		o := &dns.OPT{Hdr: dns.RR_Header{Name: ".", Rrtype: dns.TypeOPT}}
		o.SetUDPSize(uint16(r.Range(512, 4096)))
		var parts []string
		if r.P(0.3) { // sizes below 512 are legal (treated as 512); 0 is the smallest of them
			sz := gen.Pick(r, []uint16{0, 0, 1, 100, 511, 65535})
			o.SetUDPSize(sz)
			parts = append(parts, fmt.Sprintf("size%d", sz))
		}
		if r.P(0.4) {
			o.Option = append(o.Option, &dns.EDNS0_COOKIE{Code: dns.EDNS0COOKIE, Cookie: hex.EncodeToString(r.Bytes(8))})
			parts = append(parts, "cookie")
		}
		if r.P(0.4) {
			switch r.Intn(4) {
			case 0: // source prefix 0, the "do not forward my address" form of RFC 7871 (whatever it means to the proxy, it is the client's option: not relayed)
				o.Option = append(o.Option, &dns.EDNS0_SUBNET{Code: dns.EDNS0SUBNET, Family: uint16(r.Range(1, 2)), SourceNetmask: 0, Address: net.IPv4zero.To4()})
				if o.Option[len(o.Option)-1].(*dns.EDNS0_SUBNET).Family == 2 {
					o.Option[len(o.Option)-1].(*dns.EDNS0_SUBNET).Address = net.IPv6zero
				}
				parts = append(parts, "ecs0")
			case 1: // an IPv6 subnet of somebody else
				o.Option = append(o.Option, &dns.EDNS0_SUBNET{Code: dns.EDNS0SUBNET, Family: 2, SourceNetmask: 48, Address: net.ParseIP("2001:db8:77::")})
				parts = append(parts, "ecs6")
			default:
				o.Option = append(o.Option, &dns.EDNS0_SUBNET{Code: dns.EDNS0SUBNET, Family: 1, SourceNetmask: 32, Address: net.IPv4(8, 8, byte(r.Intn(256)), byte(r.Intn(256))).To4()})
				parts = append(parts, "ecs")
			}
		}
		if r.P(0.3) {
			o.Option = append(o.Option, &dns.EDNS0_PADDING{Padding: make([]byte, r.Intn(40))})
			parts = append(parts, "padding")
		}
		if r.P(0.3) {
			o.SetDo()
			parts = append(parts, "do")
		}
		if r.P(0.15) {
			o.Hdr.Ttl |= uint32(r.Range(1, 255)) << 24 // extended rcode bits
			parts = append(parts, "extrcode")
		}
		if r.P(0.15) {
			o.SetVersion(1)
			parts = append(parts, "v1")
		}
		m.Extra = append(m.Extra, o)
		optDesc = "opt"
		if len(parts) > 0 {
			optDesc = strings.Join(parts, "+")
		}
	}
	w, err := m.Pack()
	if err != nil {
		panic(err)
	}
	return w, optDesc
}

func runC12(c *Ctx) {
	var wg sync.WaitGroup
	for _, ecs := range []bool{true, false} {
		wg.Add(1)
		go func(ecs bool) {
			defer wg.Done()
			c12Run(c, ecs)
		}(ecs)
	}
	wg.Wait()
}

func c12Run(c *Ctx, ecs bool) {
	mode := "ecs-off"
	if ecs {
		mode = "ecs-on"
	}
	ups := []string{"udp", "pipe", "dohs", "doq"}
	b, err := NewBed(c, mode, BedOpts{Env: map[string]string{"VERIF_POINTS": "prefetch.start=sleep(2ms,100.0%)"}, Listeners: append(append([]string{}, allListeners...), "unixtcp", "unixgnet"), Upstreams: append([]string{"tcp"}, ups...), ECS: ecs, MemSize: 8 << 20, ClientAddrHeader: "X-Client-Addr", KeepRaw: true})
	if err != nil {
		c.startFailure(err, mode)
		return
	}
	refreshDone := make(chan struct{})
	go func() { defer close(refreshDone); c12Refresh(c, b, ecs, mode) }() // mostly waiting: overlaps with the probes
	nProbes := c.N(1600, 24000)
	parallelFor(nProbes, 16, func() bool { return c.ViolationCount() >= 10 || !b.Proxy.Alive() }, func(i int) {
		r := gen.New(c.Seed, "c12/"+mode, i)
		listener := allListeners[i%len(allListeners)]
		up := gen.Pick(r, ups)
		upOpt := r.P(0.5)
		// n2: no additional records, n4: one, n5: two - the upstream puts its OPT record last, first
		// or between them (fakeup.AddOpt)
		nrec := gen.Pick(r, []int{2, 4, 5, 5})
		first := fmt.Sprintf("ok-n%d-ttl300-p%dx%d", nrec, i, r.Intn(1<<20))
		if upOpt {
			first = fmt.Sprintf("ok-opt-n%d-ttl300-p%dx%d", nrec, i, r.Intn(1<<20))
		}
		name := first + "." + up + ".test."
		var addr netip.Addr // invalid = unknown
		xo := xOpts{}
		fam := "v4"
		switch listener {
		case "http", "fasthttp", "https":
			fam = gen.Pick(r, []string{"v4", "v6", "mapped", "absent"})
			if fam != "absent" {
				addr = c12RandAddr(r, fam)
				val := addr.String()
				if r.P(0.2) {
					val += ", 10.9.8.7" // a forwarding chain: the first element counts
				}
				xo.Header = map[string]string{"X-Client-Addr": val}
			}
			if r.Bool() {
				xo.Method = "GET"
			}
		default:
			ip := fmt.Sprintf("127.%d.%d.%d", r.Range(1, 250), r.Intn(256), r.Range(1, 254))
			addr = netip.MustParseAddr(ip)
			xo.LocalIP = ip
		}
		qtype := gen.Pick(r, []uint16{dns.TypeA, dns.TypeAAAA, dns.TypeTXT, dns.TypeANY, dns.TypeANY, 65, dns.TypeMX, dns.TypeSOA})
		var firstSerial uint32
		for round := 0; round < 2; round++ { // second round is answered from cache
			id := uint16(r.Intn(65536))
			wire, qopt := c12BuildQuery(r, name, qtype, id)
			probe := c12Probe{Listener: listener, Name: name, QueryOpt: qopt, QueryHex: hex.EncodeToString(wire)}
			if addr.IsValid() {
				probe.ClientAddr = addr.String()
			}
			x := b.Exchange(listener, wire, xo)
			c.Ev.Eval(1)
			if x.Err != nil || len(x.Resp) == 0 || (x.Status != 0 && x.Status != 200) {
				c.Inconclusive(fmt.Sprintf("no response on %s: %v status=%d", listener, x.Err, x.Status))
				return
			}
			resp := new(dns.Msg)
			if err := resp.Unpack(x.Resp); err != nil {
				c.Violation("undecodable-response:"+listener, "response does not decode: "+err.Error(), probe)
				return
			}
			if resp.Rcode == dns.RcodeServerFailure {
				c.Inconclusive("SERVFAIL for " + name)
				return
			}
			nOpt, opts, sizes, _ := c12RawOPTs(x.Resp)
			hadOpt := qopt != "none"
			sigBase := mode + ":" + listener
			switch {
			case !hadOpt && nOpt > 0:
				c.Violation("opt-without-request:"+sigBase, fmt.Sprintf("response carries %d OPT record(s) although the query had none (round %d, upstream opt=%v)", nOpt, round, upOpt), probe)
				return
			case hadOpt && nOpt != 1:
				c.Violation("opt-count:"+sigBase, fmt.Sprintf("query had an OPT record, response has %d (round %d)", nOpt, round), probe)
				return
			case hadOpt && len(opts[0]) != 0:
				c.Violation("option-relayed-to-client:"+sigBase, fmt.Sprintf("response OPT carries %d option(s) (first code %d) (round %d, upstream opt=%v)", len(opts[0]), opts[0][0].Code, round, upOpt), probe)
				return
			case hadOpt && c12OptTTL(x.Resp) != 0:
				// the OPT record's TTL field holds the extended rcode, the EDNS version and the DO flag: the
				// proxy's own OPT has none of them set, whatever the upstream's or an earlier client's had
				c.Violation("opt-ttl-field:"+sigBase, fmt.Sprintf("response OPT has TTL field %#08x (extended rcode / version / flags), the proxy's own OPT has 0 (round %d, upstream opt=%v)", c12OptTTL(x.Resp), round, upOpt), probe)
				return
			case hadOpt && sizes[0] != 1200:
				c.Violation("opt-udp-size:"+sigBase, fmt.Sprintf("response OPT advertises %d, the proxy's size is 1200", sizes[0]), probe)
				return
			}
			c.Ev.Distinct(mode, listener, fam, qopt, upOpt, round)
			c.Ev.Count(mode+"_responses_checked", 1)
			if round == 1 {
				if mt, ok := fakeup.FindMeta(resp); ok && mt.Serial == firstSerial {
					c.Ev.Count(mode+"_second_round_served_from_cache", 1)
				}
			} else if mt, ok := fakeup.FindMeta(resp); ok {
				firstSerial = mt.Serial
			}
		}
		// upstream side
		var seen int
		for _, ql := range b.Up[up].Log() {
			if !strings.EqualFold(ql.Name, name) {
				continue
			}
			seen++
			probe := c12Probe{Listener: listener, Name: name, QueryHex: hex.EncodeToString(ql.Raw)}
			if addr.IsValid() {
				probe.ClientAddr = addr.String()
			}
			nOpt, opts, _, err := c12RawOPTs(ql.Raw)
			if err != nil {
				c.Violation("upstream-query-undecodable:"+mode, "upstream query does not decode: "+err.Error(), probe)
				return
			}
			if nOpt != 1 {
				c.Violation("upstream-opt-count:"+mode, fmt.Sprintf("upstream query carries %d OPT records, exactly one is required", nOpt), probe)
				return
			}
			if t := c12OptTTL(ql.Raw); t != 0 {
				c.Violation("upstream-opt-ttl-field:"+mode, fmt.Sprintf("upstream query OPT has TTL field %#08x (extended rcode / version / flags): flags of some client's or upstream's OPT travelled on", t), probe)
				return
			}
			raw := c12RawECS(ql.Raw)
			wantECS := ecs && addr.IsValid()
			for _, o := range opts[0] {
				if o.Code != 8 {
					c.Violation("client-option-relayed-upstream:"+mode, fmt.Sprintf("upstream query carries option code %d", o.Code), probe)
					return
				}
			}
			switch {
			case !wantECS && len(raw) > 0:
				c.Violation("ecs-when-not-allowed:"+mode+":"+famOf(addr), fmt.Sprintf("upstream query carries a client-subnet option (ecs=%v, client known=%v)", ecs, addr.IsValid()), probe)
				return
			case wantECS && len(raw) != 1:
				c.Violation("ecs-missing:"+mode+":"+famOf(addr), fmt.Sprintf("upstream query carries %d client-subnet options, expected exactly one for client %s", len(raw), addr), probe)
				return
			case wantECS && !bytes.Equal(raw[0], c12RefECS(addr)):
				c.Violation("ecs-content:"+mode+":"+famOf(addr), fmt.Sprintf("client-subnet option %x for client %s, reference %x", raw[0], addr, c12RefECS(addr)), probe)
				return
			}
			c.Ev.Count(mode+"_upstream_queries_checked", 1)
			if wantECS {
				c.Ev.Count(mode+"_ecs_options_checked_"+famOf(addr), 1)
			}
		}
		if seen == 0 {
			c.Inconclusive("probe " + name + " never reached the upstream")
		}
		if i < 3 {
			c.Ev.Sample(map[string]any{"mode": mode, "listener": listener, "client": fmt.Sprint(addr), "name": name, "upstream_queries": seen})
		}
	})
	<-refreshDone
	if b.Proxy.Alive() && c.ViolationCount() < 10 {
		c12Failing(c, b, mode)
		c12Unix(c, b, ecs, mode)
	}
	// response sizes in 1-byte steps around the client's UDP size: the OPT record must survive truncation
	if ecs && b.Proxy.Alive() && c.ViolationCount() < 10 {
		nSweep := 4 * 256
		parallelFor(nSweep, 16, func() bool { return c.ViolationCount() >= 10 || !b.Proxy.Alive() }, func(i int) {
			n, pad := 2+i/256, i%256
			adv := []uint16{512, 600}[i%2]
			name := fmt.Sprintf("ok-n%d-pad%d-ttl300-sw%dx%d.pipe.test.", n, pad, i, c.Seed)
			q := new(dns.Msg)
			q.Id = uint16(i)
			q.RecursionDesired = true
			q.Question = []dns.Question{{Name: name, Qtype: dns.TypeTXT, Qclass: dns.ClassINET}}
			q.SetEdns0(adv, false)
			wire, _ := q.Pack()
			x := b.Exchange("udp", wire, xOpts{Timeout: 5 * time.Second})
			c.Ev.Eval(1)
			if x.Err != nil || len(x.Resp) == 0 {
				c.Inconclusive("size sweep: no response")
				return
			}
			nOpt, opts, _, err := c12RawOPTs(x.Resp)
			probe := c12Probe{Listener: "udp", Name: name, QueryOpt: fmt.Sprintf("opt size %d", adv), QueryHex: hex.EncodeToString(wire)}
			switch {
			case err != nil:
				c.Violation("undecodable-response:udp", "size sweep: response does not decode: "+err.Error(), probe)
			case nOpt != 1:
				c.Violation("opt-count:size-sweep", fmt.Sprintf("query advertised %d bytes and had an OPT record; the %d-byte response has %d OPT records", adv, len(x.Resp), nOpt), probe)
			case len(opts[0]) != 0:
				c.Violation("option-relayed-to-client:size-sweep", "response OPT carries options", probe)
			default:
				c.Ev.Count(mode+"_size_sweep_responses_checked", 1)
				if len(x.Resp) > int(adv)-40 {
					c.Ev.Distinct(mode, "size-sweep", len(x.Resp), adv)
				}
			}
		})
	}
	alive := b.Proxy.Alive()
	res := b.Stop()
	if !alive {
		c.Violation("proxy-died", "the proxy process died during the workload: "+res.Panic, map[string]any{"panic": res.Panic})
	}
	_ = fakeup.MetaPrefix
}

func famOf(a netip.Addr) string {
	switch {
	case !a.IsValid():
		return "unknown"
	case a.Is4():
		return "v4"
	case a.Is4In6():
		return "v4mapped"
	}
	return "v6"
}

// c12Refresh: many clients (one address each) repeat their own 6 s question when the entry is in
// the last quarter of its lifetime; every hit starts a background refresh. Each upstream query for
// a client's name - the refresh included - must carry that client's prefix (or no ECS when off).
func c12Refresh(c *Ctx, b *Bed, ecs bool, mode string) {
	n := c.N(48, 160)
	type cl struct {
		ip, name string
		addr     netip.Addr
	}
	cls := make([]cl, n)
	for i := range cls {
		ip := fmt.Sprintf("127.%d.%d.%d", 20+i%200, (i*7)%256, 1+i%250)
		first := "ok-n2-ttl6"
		if i%2 == 0 {
			first = "ok-opt-n4-ttl6" // the upstream answers with an OPT record (options, DO) of its own
		}
		cls[i] = cl{ip: ip, name: fmt.Sprintf("%s-rf%dx%d.pipe.test.", first, i, c.Seed), addr: netip.MustParseAddr(ip)}
	}
	listeners := []string{"udp", "tcp", "gnet"}
	ask := func(i, round int) {
		q := new(dns.Msg)
		q.Id = uint16(i*3 + round)
		q.RecursionDesired = true
		q.Question = []dns.Question{{Name: cls[i].name, Qtype: dns.TypeA, Qclass: dns.ClassINET}}
		wire, _ := q.Pack()
		x := b.Exchange(listeners[(i+round)%3], wire, xOpts{LocalIP: cls[i].ip, Timeout: 4 * time.Second})
		// these clients do not use EDNS0: whatever entry answers them (first fetch, cached, refreshed in the
		// background), the response carries no OPT record
		if x.Err == nil && len(x.Resp) > 0 {
			c.Ev.Eval(1)
			if nOpt, _, _, err := c12RawOPTs(x.Resp); err == nil && nOpt > 0 {
				c.Violation("opt-without-request:"+mode+":refresh-phase", fmt.Sprintf("response carries %d OPT record(s) although the query had none (round %d of the refresh phase: 0 = first fetch, 1-2 = hits that start the refresh, 3 = after the refresh)", nOpt, round),
					c12Probe{Listener: listeners[(i+round)%3], Name: cls[i].name, ClientAddr: cls[i].ip, QueryHex: hex.EncodeToString(wire)})
			}
		}
	}
	parallelFor(n, n, nil, func(i int) { ask(i, 0) })
	time.Sleep(4750 * time.Millisecond) // 6 s entries: the last quarter starts at 4.5 s, 1.25 s remain
	for round := 1; round <= 2; round++ {
		parallelFor(n, n, nil, func(i int) { ask(i, round) })
	}
	time.Sleep(600 * time.Millisecond)
	parallelFor(n, n, nil, func(i int) { ask(i, 3) }) // answered from what the background refresh stored
	time.Sleep(200 * time.Millisecond)
	byName := map[string]int{}
	for i := range cls {
		byName[strings.ToLower(cls[i].name)] = i
	}
	refreshes := 0
	perName := map[int]int{}
	for _, ql := range b.Up["pipe"].Log() {
		i, ok := byName[strings.ToLower(ql.Name)]
		if !ok {
			continue
		}
		perName[i]++
		if perName[i] > 1 {
			refreshes++
		}
		c.Ev.Eval(1)
		probe := c12Probe{Listener: "udp/tcp/gnet", Name: cls[i].name, ClientAddr: cls[i].ip, QueryHex: hex.EncodeToString(ql.Raw)}
		raw := c12RawECS(ql.Raw)
		kind := "first-fetch"
		if perName[i] > 1 {
			kind = "refresh"
		}
		switch {
		case !ecs && len(raw) > 0:
			c.Violation("ecs-when-not-allowed:"+mode+":"+kind, "upstream query ("+kind+") carries a client-subnet option although ECS is off", probe)
			return
		case ecs && len(raw) != 1:
			c.Violation("ecs-missing:"+mode+":"+kind, fmt.Sprintf("upstream query (%s) for the question of client %s carries %d client-subnet options, expected exactly one", kind, cls[i].ip, len(raw)), probe)
			return
		case ecs && !bytes.Equal(raw[0], c12RefECS(cls[i].addr)):
			c.Violation("ecs-content:"+mode+":"+kind, fmt.Sprintf("upstream query (%s) for the question only client %s asks carries client-subnet option %x, reference %x", kind, cls[i].ip, raw[0], c12RefECS(cls[i].addr)), probe)
			return
		}
		c.Ev.Distinct(mode, "refresh-phase", kind)
	}
	c.Ev.Count(mode+"_refresh_queries_checked", int64(refreshes))
	if refreshes == 0 {
		c.Inconclusive("refresh phase: no background refresh reached the upstream")
	}
}

// c12Failing: the exchange with the upstream fails (connection closed, reset, garbage) or the
// upstream itself answers SERVFAIL / REFUSED: the locally made response obeys the same OPT rules.
func c12Failing(c *Ctx, b *Bed, mode string) {
	// (FORMERR / NOTIMP / BADVERS-looking replies with and without an OPT record: what an upstream or
	// middle box without EDNS0 support answers)
	kinds := []string{"close", "rst", "garbage", "rc2", "rc5", "nx", "rc1", "rc1-opt", "rc4", "rc9", "rc1", "rc4-opt"}
	n := c.N(72, 600)
	parallelFor(n, 6, func() bool { return c.ViolationCount() >= 10 || !b.Proxy.Alive() }, func(i int) {
		r := gen.New(c.Seed, "c12fail/"+mode, i)
		kind := kinds[i%len(kinds)]
		listener := allListeners[(i/len(kinds))%len(allListeners)]
		name := fmt.Sprintf("%s-f%dx%d.tcp.test.", kind, i, c.Seed)
		wire, qopt := c12BuildQuery(r, name, dns.TypeA, uint16(i))
		probe := c12Probe{Listener: listener, Name: name, QueryOpt: qopt, QueryHex: hex.EncodeToString(wire)}
		x := b.Exchange(listener, wire, xOpts{Timeout: 9 * time.Second})
		c.Ev.Eval(1)
		if x.Err != nil || len(x.Resp) == 0 || (x.Status != 0 && x.Status != 200) {
			c.Inconclusive(fmt.Sprintf("failing-upstream phase: no response on %s: %v status=%d", listener, x.Err, x.Status))
			return
		}
		nOpt, opts, _, err := c12RawOPTs(x.Resp)
		if err != nil {
			c.Violation("undecodable-response:"+listener, "response does not decode: "+err.Error(), probe)
			return
		}
		resp := new(dns.Msg)
		resp.Unpack(x.Resp)
		hadOpt := qopt != "none"
		switch {
		case !hadOpt && nOpt > 0:
			c.Violation("opt-without-request:failing-upstream:"+kind, fmt.Sprintf("rcode %d response to a query without OPT carries %d OPT record(s) (upstream behaviour %s)", resp.Rcode, nOpt, kind), probe)
		case hadOpt && nOpt != 1:
			c.Violation("opt-count:failing-upstream:"+kind, fmt.Sprintf("query had an OPT record, the rcode %d response has %d (upstream behaviour %s, %s listener)", resp.Rcode, nOpt, kind, listener), probe)
		case hadOpt && len(opts[0]) != 0:
			c.Violation("option-relayed-to-client:failing-upstream:"+kind, fmt.Sprintf("rcode %d response OPT carries %d option(s)", resp.Rcode, len(opts[0])), probe)
		default:
			c.Ev.Distinct(mode, "failing-upstream", kind, listener, hadOpt, resp.Rcode)
			c.Ev.Count(mode+"_failing_upstream_responses_checked", 1)
		}
	})
	// upstream side: whatever the upstream answered, every query it received - retries and second
	// attempts included - carries exactly one OPT record
	for _, ql := range b.Up["tcp"].Log() {
		if !strings.Contains(ql.Name, fmt.Sprintf("x%d.tcp.test.", c.Seed)) || !strings.Contains(ql.Name, "-f") {
			continue
		}
		nOpt, _, _, err := c12RawOPTs(ql.Raw)
		c.Ev.Count(mode+"_failing_upstream_queries_checked", 1)
		kind := strings.SplitN(ql.Name, "-f", 2)[0]
		if err == nil && nOpt != 1 && !c.Seen("upstream-opt-count:failing-upstream:"+kind) {
			c.Violation("upstream-opt-count:failing-upstream:"+kind, fmt.Sprintf("an upstream query for %s (upstream behaviour %s) carries %d OPT records, exactly one is required", ql.Name, kind, nOpt),
				c12Probe{Listener: "-", Name: ql.Name, QueryHex: hex.EncodeToString(ql.Raw)})
		}
	}
}

// c12OptTTL returns the TTL field of the first OPT record of a message (0 if none).
func c12OptTTL(wire []byte) uint32 {
	m := new(dns.Msg)
	if m.Unpack(wire) != nil {
		return 0
	}
	for _, rr := range m.Extra {
		if o, ok := rr.(*dns.OPT); ok {
			return o.Hdr.Ttl
		}
	}
	return 0
}

// c12Unix: clients behind a unix-socket listener have no address the proxy could know: their
// upstream queries never carry a client-subnet option, ECS on or off.
func c12Unix(c *Ctx, b *Bed, ecs bool, mode string) {
	for i := 0; i < c.N(12, 80); i++ {
		r := gen.New(c.Seed, "c12unix/"+mode, i)
		listener := []string{"unixtcp", "unixgnet"}[i%2]
		name := fmt.Sprintf("ok-n2-ttl300-ux%dx%d.pipe.test.", i, c.Seed)
		wire, qopt := c12BuildQuery(r, name, dns.TypeA, uint16(i))
		probe := c12Probe{Listener: listener, Name: name, QueryOpt: qopt, QueryHex: hex.EncodeToString(wire)}
		x := b.Exchange(listener, wire, xOpts{Timeout: 5 * time.Second})
		c.Ev.Eval(1)
		if x.Err != nil || len(x.Resp) == 0 {
			c.Inconclusive(fmt.Sprintf("unix listener %s: no response: %v", listener, x.Err))
			continue
		}
		seen := false
		for _, ql := range b.Up["pipe"].Log() {
			if !strings.EqualFold(ql.Name, name) {
				continue
			}
			seen = true
			if raw := c12RawECS(ql.Raw); len(raw) > 0 {
				c.Violation("ecs-when-not-allowed:"+mode+":unix-socket-client", fmt.Sprintf("a query from a client behind the %s listener on an abstract unix socket (no client address) reached the upstream with client-subnet option %x", strings.TrimPrefix(listener, "unix"), raw[0]), probe)
				return
			}
		}
		if seen {
			c.Ev.Distinct(mode, "unix-socket-client", listener, qopt != "none")
			c.Ev.Count(mode+"_unix_socket_queries_checked", 1)
		}
	}
}
