package main

// C07 oracles (c) and (d), in-process.
//
// (c) c07Porcupine: concurrent MemoryCache.Store / Get on a tiny cache
//     (eviction pressure) with the delay point "memcache.get" enabled; every
//     round's history is checked against the BAG REGISTER specification,
//     partitioned per key: state = set of values stored under the key so far;
//     Store adds its unique value; Get -> v is legal iff v is in the set;
//     Get -> miss is always legal. Values embed (round, key, writer, counter)
//     and a deterministic body, so a value of another key, a torn value or a
//     recycled (poisoned) buffer is never in any set.
//     The verdict is computed twice: by porcupine and by the exact criterion
//     that is equivalent for this specification (Stores are always legal and
//     commute, Gets do not change the state, hence a history is linearizable
//     iff every hit's value was stored under that key by a Store whose call
//     precedes the Get's return). Porcupine time-outs are inconclusive unless
//     the exact criterion already decided the round.
//
// (d) c07RangeTable: generated range lists for netlist.NewBuilder[int] and
//     lookups at start, end, start-1, end+1 and random points against a
//     linear scan.

import (
	"bytes"
	"encoding/binary"
	"encoding/json"
	"fmt"
	"net/netip"
	"sort"
	"strings"
	"sync"
	"sync/atomic"
	"time"

	"github.com/IrineSistiana/mosproxy/internal/cache"
	"github.com/IrineSistiana/mosproxy/internal/netlist"
	"github.com/IrineSistiana/mosproxy/internal/pool"
	"github.com/IrineSistiana/mosproxy/internal/verifhook"
	"github.com/IrineSistiana/mosproxy/verif/internal/gen"
	"github.com/anishathalye/porcupine"
)

const c07PorcupineRuleText = "rounds of concurrent MemoryCache.Store(k, unique value, setNX)/Get(k) from 8..16 goroutines (<= 40 operations each) on 2..6 hot keys plus filler keys in a 1500-byte cache (values 50..300 bytes) with memcache.get=sleep(500us,33%); " +
	"each round is one evaluation: its history, partitioned per key, is checked against the bag-register specification by porcupine and by the equivalent exact criterion, returned store/expire times must be those stored with the value, and the pool sanitizer / ownership hooks must stay silent; every 50th round stores with a 1 s life time and pauses until the entries have expired before its second half; " +
	"a round is non-trivial when it observed at least one hit and at least one miss after a completed Store of the same key (eviction or recycling happened); rounds are distinct executions, counted by round index"

const c07RangeRuleText = "generated range lists for netlist.NewBuilder[int] (0..12 ranges in a small universe plus the extremes of the v4, v4-mapped and v6 space; adjacent ranges end+1==start, single-address ranges, v4 written as v4 or as v4-mapped v6, labels reused, insertion order sorted/reversed/shuffled; 25% with an injected overlap); " +
	"each list is one evaluation: Build() must fail iff two ranges share an address, and LookupAddr at every start, end, start-1, end+1, both presentations of v4 points and random points must equal a linear scan; " +
	"a list is non-trivial when it has at least two ranges; distinct by the inserted (start, end, label) sequence"

// ------------------------------------------------------------------ (c)

type c07Op struct {
	G      int    `json:"goroutine"`
	Key    int    `json:"key"`
	Store  bool   `json:"store"`
	NX     bool   `json:"set_nx,omitempty"`
	Val    int    `json:"value_id"` // store: id written; get: id returned, -1 miss, -2 unknown bytes
	Call   int64  `json:"call_ns"`
	Ret    int64  `json:"return_ns"`
	Raw    string `json:"returned_bytes_prefix,omitempty"`
	TimeOK bool   `json:"times_match"`
}

type c07Case struct {
	Fn      string   `json:"fn"`
	Round   int      `json:"round"`
	Key     int      `json:"key"`
	Note    string   `json:"note"`
	History []c07Op  `json:"history_of_key"`
	Reports []string `json:"hook_reports,omitempty"`
}

type c07Val struct {
	key, g, n, size int
	stored, expire  time.Time
}

func c07Key(round, k int) []byte {
	// shaped like a cache key: wire name, class/type octets, a group label
	return []byte(fmt.Sprintf("\x03k%02d\x05round\x04test\x00\x00\x01\x00\x01r%d", k, round))
}

func c07Value(round int, v c07Val) []byte {
	b := make([]byte, v.size)
	h := fmt.Sprintf("R%d:K%d:W%d:N%d:L%d:", round, v.key, v.g, v.n, v.size)
	copy(b, h)
	x := uint64(round)*1000003 ^ uint64(v.key)<<40 ^ uint64(v.g)<<20 ^ uint64(v.n) | 1
	for i := len(h); i < len(b); i++ {
		x ^= x << 13
		x ^= x >> 7
		x ^= x << 17
		b[i] = byte(x >> 24)
	}
	return b
}

type c07Stats struct {
	hits, misses, stores, storesNX, missAfterStore, unknownVal, expiryRound int64
}

func c07Round(c *Ctx, idx int) (ops [][]c07Op, vals []c07Val, nKeys int, st c07Stats, err error) {
	if idx%50 == 0 {
		st.expiryRound = 1
	}
	r := gen.New(c.Seed, "c07-porc", idx)
	mc, err := cache.NewMemoryCache(1500)
	if err != nil {
		return nil, nil, 0, st, err
	}
	nHot := r.Range(2, 6)
	nFill := r.Range(6, 20)
	nKeys = nHot + nFill
	nG := r.Range(8, 16)
	keys := make([][]byte, nKeys)
	for k := range keys {
		keys[k] = c07Key(idx, k)
	}
	// script
	type step struct {
		key   int
		store bool
		nx    bool
		val   int
	}
	scripts := make([][]step, nG)
	for g := range scripts {
		n := r.Range(20, 40)
		cnt := 0
		for i := 0; i < n; i++ {
			var s step
			switch {
			case r.P(0.2): // filler store
				s = step{key: nHot + r.Intn(nFill), store: true}
			case r.P(0.05): // filler get
				s = step{key: nHot + r.Intn(nFill)}
			case r.P(0.45):
				s = step{key: r.Intn(nHot), store: true, nx: r.P(0.3)}
			default:
				s = step{key: r.Intn(nHot)}
			}
			if s.store {
				s.val = len(vals)
				vals = append(vals, c07Val{key: s.key, g: g, n: cnt, size: r.Range(50, 300)})
				cnt++
			}
			scripts[g] = append(scripts[g], s)
		}
	}
	// Every 50th round is an expiry round: the first half of every script stores with a one second
	// life time, then all goroutines pause until the cache's one-second clock has ticked, so that the
	// second half runs against expired nodes (lookups of expired nodes, deletion reports, re-stores).
	expiry := idx%50 == 0
	now := time.Now()
	for i := range vals {
		vals[i].stored = now.Add(time.Duration(i) * time.Microsecond)
		vals[i].expire = now.Add(time.Hour + time.Duration(i)*time.Millisecond)
		if expiry && vals[i].n < 8 {
			vals[i].expire = now.Add(time.Second + time.Duration(i)*time.Microsecond)
		}
	}
	var barrier sync.WaitGroup
	barrier.Add(nG)
	byBytes := make(map[string]int, len(vals))
	valBytes := make([][]byte, len(vals))
	for i, v := range vals {
		valBytes[i] = c07Value(idx, v)
		byBytes[string(valBytes[i])] = i
	}

	ops = make([][]c07Op, nG)
	start := time.Now()
	var wg sync.WaitGroup
	gate := make(chan struct{})
	for g := 0; g < nG; g++ {
		wg.Add(1)
		go func(g int) {
			defer wg.Done()
			<-gate
			out := make([]c07Op, 0, len(scripts[g]))
			for si, s := range scripts[g] {
				if expiry && si == len(scripts[g])/2 {
					barrier.Done()
					barrier.Wait()
					time.Sleep(1300*time.Millisecond - time.Since(now))
				}
				op := c07Op{G: g, Key: s.key, Store: s.store, NX: s.nx, TimeOK: true}
				if s.store {
					v := vals[s.val]
					op.Val = s.val
					op.Call = int64(time.Since(start))
					mcStore(mc, keys[s.key], v.stored, v.expire, valBytes[s.val], s.nx)
					op.Ret = int64(time.Since(start))
				} else {
					op.Call = int64(time.Since(start))
					b, st, et := mc.Get(keys[s.key])
					op.Ret = int64(time.Since(start))
					if b == nil {
						op.Val = -1
					} else {
						if id, ok := byBytes[string(b)]; ok {
							op.Val = id
							op.TimeOK = st.Equal(vals[id].stored) && et.Equal(vals[id].expire)
						} else {
							op.Val = -2
							n := len(b)
							if n > 48 {
								n = 48
							}
							op.Raw = fmt.Sprintf("len=%d %q", len(b), []byte(b[:n]))
						}
						pool.ReleaseBuf(b)
					}
				}
				out = append(out, op)
			}
			ops[g] = out
		}(g)
	}
	close(gate)
	wg.Wait()
	mc.Close()

	// statistics
	firstStoreRet := make([]int64, nKeys)
	for k := range firstStoreRet {
		firstStoreRet[k] = -1
	}
	for _, gops := range ops {
		for _, o := range gops {
			if o.Store && (firstStoreRet[o.Key] < 0 || o.Ret < firstStoreRet[o.Key]) {
				firstStoreRet[o.Key] = o.Ret
			}
		}
	}
	for _, gops := range ops {
		for _, o := range gops {
			switch {
			case o.Store:
				st.stores++
				if o.NX {
					st.storesNX++
				}
			case o.Val == -1:
				st.misses++
				if firstStoreRet[o.Key] >= 0 && firstStoreRet[o.Key] < o.Call {
					st.missAfterStore++
				}
			case o.Val == -2:
				st.unknownVal++
			default:
				st.hits++
			}
		}
	}
	return ops, vals, nKeys, st, nil
}

type c07In struct {
	store bool
	val   int
}

// state: bit set (as string) over the value ids of one key's partition
func c07Model(maxID int) porcupine.Model {
	return porcupine.Model{
		Init: func() interface{} { return "" },
		Step: func(state, input, output interface{}) (bool, interface{}) {
			s := state.(string)
			in := input.(c07In)
			if in.store {
				b := make([]byte, maxID/8+1)
				copy(b, s)
				b[in.val/8] |= 1 << uint(in.val%8)
				return true, string(b)
			}
			out := output.(int)
			if out == -1 {
				return true, s
			}
			if out < 0 || out/8 >= len(s) {
				return false, s
			}
			return s[out/8]&(1<<uint(out%8)) != 0, s
		},
		Equal: func(a, b interface{}) bool { return a.(string) == b.(string) },
	}
}

// exact criterion for the bag register; returns the offending Get
func c07Direct(keyOps []c07Op, vals []c07Val, key int) (bad *c07Op, why string) {
	storeCall := map[int]int64{}
	for _, o := range keyOps {
		if o.Store {
			storeCall[o.Val] = o.Call
		}
	}
	for i := range keyOps {
		o := &keyOps[i]
		if o.Store || o.Val == -1 {
			continue
		}
		if o.Val == -2 {
			return o, "returned bytes that were never stored under any key (torn, recycled or foreign buffer)"
		}
		if vals[o.Val].key != key {
			return o, fmt.Sprintf("returned a value that was stored under key %d", vals[o.Val].key)
		}
		call, ok := storeCall[o.Val]
		if !ok {
			return o, "returned a value whose Store is not in the history"
		}
		if call > o.Ret {
			return o, "returned a value before its Store was called"
		}
	}
	return nil, ""
}

var c07HookMu sync.Mutex

func c07TakeHookReports(c *Ctx, round int) {
	c07HookMu.Lock()
	defer c07HookMu.Unlock()
	for _, rp := range verifhook.TakeReports() {
		sig := "sanitizer-report:" + rp.Kind
		c.Ev.Count("hook_reports:"+rp.Kind, 1)
		if c.Seen(sig) {
			continue
		}
		c.Violation(sig, fmt.Sprintf("ownership hook report %q: %s; stack %s (taken after round %d; reports are process-global, rounds run concurrently)", rp.Kind, rp.Detail, rp.Stack, round),
			c07Case{Fn: "c07Porcupine", Round: round, Note: "hook report", Reports: []string{rp.Kind + ": " + rp.Detail + " @ " + rp.Stack}})
	}
	for _, rp := range pool.VerifTakeReports() {
		sig := "sanitizer-report:pool-" + rp.Kind
		c.Ev.Count("pool_reports:"+rp.Kind, 1)
		if c.Seen(sig) {
			continue
		}
		c.Violation(sig, fmt.Sprintf("pool sanitizer report %s cap=%d off=%d site=%s first=%s (taken after round %d)", rp.Kind, rp.Cap, rp.Off, rp.Site, rp.Site0, round),
			c07Case{Fn: "c07Porcupine", Round: round, Note: "pool report", Reports: []string{fmt.Sprintf("%+v", rp)}})
	}
}

func c07Porcupine(c *Ctx) {
	verifhook.Set("memcache.get", "sleep(500us,33.0%)")
	defer verifhook.Set("memcache.get", "off")
	reached0, fired0 := verifhook.Hits("memcache.get")
	// drop anything left over from earlier parts of the check
	verifhook.TakeReports()
	pool.VerifTakeReports()

	if c.Replay != nil {
		var cs c07Case
		if json.Unmarshal(c.Replay.Case, &cs) != nil || cs.Fn != "c07Porcupine" {
			return
		}
		// concurrent executions are not reproducible bit by bit: re-run the recorded round's script a number of times
		for k := 0; k < 50 && c.ViolationCount() == 0; k++ {
			c07OneRound(c, cs.Round)
		}
		return
	}
	n := c.N(300, 6000)
	var done atomic.Int64
	parallelFor(n, 4, func() bool { return c.ViolationCount() >= 20 }, func(idx int) {
		c07OneRound(c, idx)
		done.Add(1)
	})
	time.Sleep(50 * time.Millisecond) // deletion listeners of the last caches
	c07TakeHookReports(c, n-1)
	reached, fired := verifhook.Hits("memcache.get")
	c.Ev.Count("hook_memcache.get_reached", int64(reached-reached0))
	c.Ev.Count("hook_memcache.get_delayed", int64(fired-fired0))
}

func c07OneRound(c *Ctx, idx int) {
	ops, vals, nKeys, st, err := c07Round(c, idx)
	if err != nil {
		c.Inconclusive("c07: NewMemoryCache: " + err.Error())
		return
	}
	byKey := make([][]c07Op, nKeys)
	for _, gops := range ops {
		for _, o := range gops {
			byKey[o.Key] = append(byKey[o.Key], o)
		}
	}
	// porcupine
	var hist []porcupine.Operation
	for _, gops := range ops {
		for _, o := range gops {
			var out interface{} = o.Val
			if o.Store {
				out = 0
			}
			hist = append(hist, porcupine.Operation{ClientId: o.G, Input: c07In{o.Store, o.Val}, Call: o.Call, Output: out, Return: o.Ret, Metadata: o.Key})
		}
	}
	model := c07Model(len(vals))
	model.Partition = func(h []porcupine.Operation) [][]porcupine.Operation {
		parts := make([][]porcupine.Operation, nKeys)
		for _, o := range h {
			k := o.Metadata.(int)
			parts[k] = append(parts[k], o)
		}
		return parts
	}
	res := porcupine.CheckOperationsTimeout(model, hist, 3*time.Second)

	// exact criterion
	var bad *c07Op
	var why string
	badKey := -1
	for k := range byKey {
		if b, w := c07Direct(byKey[k], vals, k); b != nil {
			bad, why, badKey = b, w, k
			break
		}
	}
	// times
	var tornTimes *c07Op
	for k := range byKey {
		for i := range byKey[k] {
			if !byKey[k][i].TimeOK && tornTimes == nil {
				tornTimes = &byKey[k][i]
			}
		}
	}

	c.Ev.Eval(1)
	c.Ev.Count("rounds", 1)
	c.Ev.Count("rounds_with_expiry_phase", st.expiryRound)
	c.Ev.Count("porcupine_"+strings.ToLower(string(res)), 1)
	c.Ev.Count("ops_store", st.stores)
	c.Ev.Count("ops_store_setnx", st.storesNX)
	c.Ev.Count("ops_get_hit", st.hits)
	c.Ev.Count("ops_get_miss", st.misses)
	c.Ev.Count("ops_get_miss_after_completed_store", st.missAfterStore)
	c.Ev.Count("ops_get_unknown_bytes", st.unknownVal)
	if st.hits > 0 && st.missAfterStore > 0 {
		c.Ev.Distinct("c07-porcupine-round", idx)
	}
	if idx < 3 {
		c.Ev.Sample(map[string]any{"round": idx, "goroutines": len(ops), "keys": nKeys, "stores": st.stores, "hits": st.hits, "misses": st.misses,
			"misses_after_completed_store": st.missAfterStore, "porcupine": string(res)})
	}

	sortOps := func(k int) []c07Op {
		h := append([]c07Op{}, byKey[k]...)
		sort.Slice(h, func(i, j int) bool { return h[i].Call < h[j].Call })
		return h
	}
	switch {
	case bad != nil:
		if res == porcupine.Ok {
			c.Inconclusive(fmt.Sprintf("c07 round %d: porcupine says linearizable, exact criterion says not (%s) - oracle disagreement", idx, why))
			break
		}
		sig := "memcache-not-bag-linearizable"
		if !c.Seen(sig) {
			c.Violation(sig, fmt.Sprintf("round %d key %d: Get by goroutine %d (call %dns, return %dns) %s; value id %d %s; porcupine verdict %s", idx, badKey, bad.G, bad.Call, bad.Ret, why, bad.Val, bad.Raw, res),
				c07Case{Fn: "c07Porcupine", Round: idx, Key: badKey, Note: why, History: sortOps(badKey)})
		}
	case res == porcupine.Illegal:
		c.Inconclusive(fmt.Sprintf("c07 round %d: porcupine says illegal, exact criterion found nothing - oracle disagreement", idx))
	case res == porcupine.Unknown:
		// decided by the exact criterion (which found nothing); the porcupine time-out itself is recorded
		c.Ev.Count("porcupine_timeouts_decided_by_exact_criterion", 1)
	}
	if tornTimes != nil {
		sig := "memcache-times-not-those-stored"
		if !c.Seen(sig) {
			c.Violation(sig, fmt.Sprintf("round %d key %d: Get by goroutine %d returned value id %d with a stored/expire time that was not stored with this value", idx, tornTimes.Key, tornTimes.G, tornTimes.Val),
				c07Case{Fn: "c07Porcupine", Round: idx, Key: tornTimes.Key, Note: "times", History: sortOps(tornTimes.Key)})
		}
	}
	c07TakeHookReports(c, idx)
}

// ------------------------------------------------------------------ (d)

type c07Range struct {
	Start string `json:"start"`
	End   string `json:"end"`
	Label int    `json:"label"`
}

type c07RangeCase struct {
	Fn       string     `json:"fn"`
	Table    int        `json:"table_index"`
	Ranges   []c07Range `json:"ranges_in_insertion_order"`
	Probe    string     `json:"probe,omitempty"`
	Want     string     `json:"reference"`
	Got      string     `json:"list"`
	BuildErr string     `json:"build_error,omitempty"`
}

func c07Add128(b [16]byte, n uint64) ([16]byte, bool) {
	hi, lo := binary.BigEndian.Uint64(b[:8]), binary.BigEndian.Uint64(b[8:])
	nlo := lo + n
	if nlo < lo {
		hi++
		if hi == 0 {
			return b, false
		}
	}
	var o [16]byte
	binary.BigEndian.PutUint64(o[:8], hi)
	binary.BigEndian.PutUint64(o[8:], nlo)
	return o, true
}

func c07Sub1(b [16]byte) ([16]byte, bool) {
	hi, lo := binary.BigEndian.Uint64(b[:8]), binary.BigEndian.Uint64(b[8:])
	if lo == 0 {
		if hi == 0 {
			return b, false
		}
		hi--
	}
	lo--
	var o [16]byte
	binary.BigEndian.PutUint64(o[:8], hi)
	binary.BigEndian.PutUint64(o[8:], lo)
	return o, true
}

var c07V4Prefix = [12]byte{0, 0, 0, 0, 0, 0, 0, 0, 0, 0, 0xff, 0xff}

func c07IsMapped(b [16]byte) bool { return bytes.Equal(b[:12], c07V4Prefix[:]) }

// presentation of a point: v4 points either as v4 or as v4-mapped v6
func c07Present(b [16]byte, asV4 bool) netip.Addr {
	a := netip.AddrFrom16(b)
	if asV4 && c07IsMapped(b) {
		return a.Unmap()
	}
	return a
}

func c07RangeTable(c *Ctx) {
	if c.Replay != nil {
		var cs c07RangeCase
		if json.Unmarshal(c.Replay.Case, &cs) != nil || cs.Fn != "c07RangeTable" {
			return
		}
		c07OneTable(c, cs.Table)
		return
	}
	n := c.N(2000, 100000)
	parallelFor(n, 0, func() bool { return c.ViolationCount() >= 20 }, func(idx int) { c07OneTable(c, idx) })
}

func c07OneTable(c *Ctx, idx int) {
	r := gen.New(c.Seed, "c07-range", idx)
	// ---- universe bases
	v4base := [16]byte{0, 0, 0, 0, 0, 0, 0, 0, 0, 0, 0xff, 0xff, 10, 0, 0, 0}
	v6base := [16]byte{0x20, 0x01, 0x0d, 0xb8}
	fam := r.Intn(4) // 0 v4, 1 v6, 2/3 mixed
	// the v6 universe of every third table starts a little below a /64 (or /32, /96) boundary, so
	// that its ranges straddle the boundary: a range whose bounds differ in the upper 64 bits and
	// whose lower 64 bits are "the wrong way round" (start's larger than end's)
	if r.Intn(3) == 0 {
		switch r.Intn(3) {
		case 0: // 2001:db8:0:5:ffff:ffff:ffff:fXXX
			v6base = [16]byte{0x20, 0x01, 0x0d, 0xb8, 0, 0, 0, 5, 0xff, 0xff, 0xff, 0xff, 0xff, 0xff, byte(0xfc + r.Intn(4)), byte(r.Intn(256))}
		case 1: // 2001:db8:ffff:ffff:ffff:ffff:ffff:fXXX (carry through 96 bits)
			v6base = [16]byte{0x20, 0x01, 0x0d, 0xb8, 0xff, 0xff, 0xff, 0xff, 0xff, 0xff, 0xff, 0xff, 0xff, 0xff, byte(0xfc + r.Intn(4)), byte(r.Intn(256))}
		case 2: // 2001:db8::ffff:fXXX (a /96 boundary)
			v6base = [16]byte{0x20, 0x01, 0x0d, 0xb8, 0, 0, 0, 0, 0, 0, 0, 0, 0xff, 0xff, byte(0xfc + r.Intn(4)), byte(r.Intn(256))}
		}
	}
	pickBase := func() [16]byte {
		switch {
		case fam == 0:
			return v4base
		case fam == 1:
			return v6base
		}
		if r.Bool() {
			return v4base
		}
		return v6base
	}
	type rg struct {
		s, e  [16]byte
		label int
	}
	var rs []rg
	nR := r.Range(0, 12)
	nLabels := r.Range(1, 4)
	// walk cursors inside each universe
	cur := map[[16]byte]uint64{v4base: uint64(r.Intn(64)), v6base: uint64(r.Intn(64))}
	if r.P(0.3) {
		cur[v4base] = 0 // a range starting at the very first address of the universe
	}
	for i := 0; i < nR; i++ {
		base := pickBase()
		var gap uint64
		switch r.Intn(4) {
		case 0:
			gap = 0 // adjacent: start == previous end + 1
		case 1:
			gap = 1
		default:
			gap = uint64(r.Intn(200))
		}
		var length uint64
		switch r.Intn(4) {
		case 0:
			length = 1
		case 1:
			length = 2
		default:
			length = uint64(r.Range(1, 300))
		}
		off := cur[base] + gap
		s, _ := c07Add128(base, off)
		e, _ := c07Add128(base, off+length-1)
		cur[base] = off + length
		rs = append(rs, rg{s, e, r.Intn(nLabels)})
	}
	// extremes
	if r.P(0.25) {
		var zero, max, v4lo, v4hi [16]byte
		for i := range max {
			max[i] = 0xff
		}
		copy(v4lo[:], c07V4Prefix[:])
		copy(v4hi[:], c07V4Prefix[:])
		v4hi[12], v4hi[13], v4hi[14], v4hi[15] = 255, 255, 255, 255
		switch r.Intn(6) {
		case 0:
			e, _ := c07Add128(zero, uint64(r.Intn(3)))
			rs = append(rs, rg{zero, e, r.Intn(nLabels)}) // starts at ::
		case 1:
			s := max
			for k := r.Intn(3); k > 0; k-- {
				s, _ = c07Sub1(s)
			}
			rs = append(rs, rg{s, max, r.Intn(nLabels)}) // ends at ffff:...:ffff
		case 2:
			if fam != 1 {
				e, _ := c07Add128(v4lo, uint64(r.Intn(3)))
				rs = append(rs, rg{v4lo, e, r.Intn(nLabels)}) // starts at 0.0.0.0
			}
		case 3:
			if fam != 1 {
				s := v4hi
				for k := r.Intn(3); k > 0; k-- {
					s, _ = c07Sub1(s)
				}
				rs = append(rs, rg{s, v4hi, r.Intn(nLabels)}) // ends at 255.255.255.255
			}
		case 4: // the v6 address just below the v4-mapped block
			if fam != 0 {
				p, _ := c07Sub1(v4lo)
				rs = append(rs, rg{p, p, r.Intn(nLabels)})
			}
		case 5: // the v6 address just above the v4-mapped block
			if fam != 0 {
				p, _ := c07Add128(v4hi, 1)
				rs = append(rs, rg{p, p, r.Intn(nLabels)})
			}
		}
	}
	// ---- injected overlap
	injected := false
	if len(rs) > 0 && r.P(0.25) {
		o := rs[r.Intn(len(rs))]
		n := o
		n.label = r.Intn(nLabels)
		switch r.Intn(5) {
		case 0: // identical
		case 1: // starts at the other's end
			n.s = o.e
			n.e, _ = c07Add128(o.e, uint64(r.Intn(3)))
		case 2: // ends at the other's start
			n.e = o.s
			n.s = o.s
			if p, ok := c07Sub1(o.s); ok && r.Bool() {
				n.s = p
			}
		case 3: // single address inside
			n.s, n.e = o.e, o.e
			if r.Bool() {
				n.s, n.e = o.s, o.s
			}
		case 4: // superset
			if p, ok := c07Sub1(o.s); ok {
				n.s = p
			}
			if p, ok := c07Add128(o.e, 1); ok {
				n.e = p
			}
		}
		// keep a v4 range inside the v4 block and a v6 range outside of it
		if c07IsMapped(n.s) == c07IsMapped(n.e) && bytes.Compare(n.s[:], n.e[:]) <= 0 {
			rs = append(rs, n)
			injected = true
		}
	}
	// ---- insertion order
	switch r.Intn(3) {
	case 0:
		sort.SliceStable(rs, func(i, j int) bool { return bytes.Compare(rs[i].s[:], rs[j].s[:]) < 0 })
	case 1:
		sort.SliceStable(rs, func(i, j int) bool { return bytes.Compare(rs[i].s[:], rs[j].s[:]) > 0 })
	default:
		r.Shuffle(len(rs), func(i, j int) { rs[i], rs[j] = rs[j], rs[i] })
	}
	// ---- reference facts
	overlap := false
	for i := range rs {
		for j := i + 1; j < len(rs); j++ {
			if bytes.Compare(rs[i].s[:], rs[j].e[:]) <= 0 && bytes.Compare(rs[j].s[:], rs[i].e[:]) <= 0 {
				overlap = true
			}
		}
	}
	ref := func(p [16]byte) (label int, n int) {
		label = -1
		for _, x := range rs {
			if bytes.Compare(x.s[:], p[:]) <= 0 && bytes.Compare(p[:], x.e[:]) <= 0 {
				if n == 0 {
					label = x.label
				}
				n++
			}
		}
		return
	}
	// ---- build
	b := netlist.NewBuilder[int](r.Intn(4))
	var ranges []c07Range
	nMappedPres := 0
	for _, x := range rs {
		asV4 := r.Bool()
		sa, ea := c07Present(x.s, asV4), c07Present(x.e, asV4)
		if c07IsMapped(x.s) && !asV4 {
			nMappedPres++
		}
		ranges = append(ranges, c07Range{Start: sa.String(), End: ea.String(), Label: x.label})
		if !b.Add(sa, ea, x.label) {
			c.Violation("range-table:valid-range-refused", fmt.Sprintf("table %d: Add(%v, %v, %d) returned false for a range with start <= end", idx, sa, ea, x.label),
				c07RangeCase{Fn: "c07RangeTable", Table: idx, Ranges: ranges})
			c.Ev.Eval(1)
			return
		}
	}
	list, err := b.Build()
	c.Ev.Eval(1)
	c.Ev.Count("tables", 1)
	c.Ev.Count("ranges", int64(len(rs)))
	c.Ev.Count("ranges_v4_written_as_v4_mapped", int64(nMappedPres))
	for _, x := range rs {
		if !bytes.Equal(x.s[:8], x.e[:8]) {
			c.Ev.Count("ranges_straddling_a_64_bit_boundary", 1)
		}
	}
	if injected {
		c.Ev.Count("tables_with_injected_overlap", 1)
	}
	if len(rs) >= 2 {
		buf := []byte{}
		for _, x := range ranges {
			buf = append(buf, fmt.Sprintf("%s-%s=%d;", x.Start, x.End, x.Label)...)
		}
		c.Ev.DistinctBytes(buf)
	}
	if idx < 3 {
		c.Ev.Sample(map[string]any{"table": idx, "ranges": ranges, "overlap": overlap, "build_error": fmt.Sprint(err)})
	}
	mk := func(probe netip.Addr, want, got string) c07RangeCase {
		cs := c07RangeCase{Fn: "c07RangeTable", Table: idx, Ranges: ranges, Want: want, Got: got}
		if probe.IsValid() {
			cs.Probe = probe.String()
		}
		if err != nil {
			cs.BuildErr = err.Error()
		}
		return cs
	}
	if overlap {
		c.Ev.Count("tables_overlapping", 1)
		if err != nil {
			c.Ev.Count("tables_overlapping_rejected", 1)
			return
		}
		c.Violation("range-table:overlap-accepted", fmt.Sprintf("table %d: Build() accepted a list in which two ranges share an address: %+v", idx, ranges), mk(netip.Addr{}, "error", "accepted"))
		// fall through: compare the unambiguous lookups
	} else if err != nil {
		c.Violation("range-table:valid-list-rejected", fmt.Sprintf("table %d: Build() rejected a list without overlapping ranges (%v): %+v", idx, err, ranges), mk(netip.Addr{}, "accepted", "error"))
		return
	}
	c.Ev.Count("tables_built", 1)
	// ---- probes
	type probe struct {
		p    [16]byte
		kind string
	}
	var probes []probe
	for _, x := range rs {
		probes = append(probes, probe{x.s, "at-start"}, probe{x.e, "at-end"})
		if p, ok := c07Sub1(x.s); ok {
			probes = append(probes, probe{p, "start-minus-1"})
		}
		if p, ok := c07Add128(x.e, 1); ok {
			probes = append(probes, probe{p, "end-plus-1"})
		}
		if x.s != x.e {
			p, _ := c07Add128(x.s, 1)
			probes = append(probes, probe{p, "interior"})
		}
	}
	for i := 0; i < 8; i++ {
		p, _ := c07Add128(pickBase(), uint64(r.Intn(4200)))
		probes = append(probes, probe{p, "random"})
	}
	var rnd [16]byte
	r.Read(rnd[:])
	probes = append(probes, probe{rnd, "random"}, probe{[16]byte{}, "random"})
	var nLook, nHit, nMiss, nBoundary int64
	for _, pr := range probes {
		p := pr.p
		wantLabel, n := ref(p)
		if n > 1 {
			c.Ev.Count("lookups_ambiguous_skipped", 1)
			continue
		}
		pres := []netip.Addr{netip.AddrFrom16(p)}
		if c07IsMapped(p) {
			pres = append(pres, netip.AddrFrom16(p).Unmap())
		}
		for _, a := range pres {
			got, ok := list.LookupAddr(a)
			nLook++
			if pr.kind != "random" && pr.kind != "interior" {
				nBoundary++
			}
			if n == 1 {
				nHit++
			} else {
				nMiss++
			}
			if ok != (n == 1) || (ok && got != wantLabel) {
				sig := "range-table:lookup-mismatch:" + pr.kind
				if !c.Seen(sig) {
					w, g := "none", "none"
					if n == 1 {
						w = fmt.Sprint("label ", wantLabel)
					}
					if ok {
						g = fmt.Sprint("label ", got)
					}
					c.Violation(sig, fmt.Sprintf("table %d: LookupAddr(%v) (%s of a range) = %s, linear scan = %s; ranges %+v", idx, a, pr.kind, g, w, ranges), mk(a, w, g))
				}
			}
		}
	}
	c.Ev.Count("lookups", nLook)
	c.Ev.Count("lookups_reference_in_a_range", nHit)
	c.Ev.Count("lookups_reference_in_no_range", nMiss)
	c.Ev.Count("lookups_at_range_boundaries", nBoundary)
}
