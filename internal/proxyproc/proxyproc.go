// Package proxyproc runs the instrumented mosproxy binary as a child process.
package proxyproc

import (
	"bufio"
	"bytes"
	"encoding/json"
	"errors"
	"fmt"
	"net"
	"os"
	"os/exec"
	"path/filepath"
	"strings"
	"syscall"
	"time"

	"github.com/IrineSistiana/mosproxy/verif/internal/racelog"
)

type Proxy struct {
	Dir     string
	Bin     string
	cmd     *exec.Cmd
	done    chan struct{}
	exitErr error
	ErrPath string // stderr: JSON log, panics, VERIF-* lines
	started time.Time
}

type Opts struct {
	Bin       string            // path of bin/mosproxy.race
	Dir       string            // scratch directory (created)
	YAML      string            // configuration text
	Env       map[string]string // extra environment (VERIF_POINTS, VERIF_POOL_QUARANTINE, ...)
	LogLevel  string            // default "info"
	ReadyWait time.Duration     // default 40s
}

var ErrExited = errors.New("proxy exited before it was ready")

// Start writes the config, launches the proxy and waits until it logs
// "router is up and running". If the process exits first, ErrExited is
// returned together with a *Proxy whose Stop() still yields the result.
func Start(o Opts) (*Proxy, error) {
	if err := os.MkdirAll(o.Dir, 0755); err != nil {
		return nil, err
	}
	cfg := filepath.Join(o.Dir, "config.yaml")
	if err := os.WriteFile(cfg, []byte(o.YAML), 0644); err != nil {
		return nil, err
	}
	p := &Proxy{Dir: o.Dir, Bin: o.Bin, ErrPath: filepath.Join(o.Dir, "proxy.err"), done: make(chan struct{})}
	lvl := o.LogLevel
	if lvl == "" {
		lvl = "info"
	}
	errF, err := os.Create(p.ErrPath)
	if err != nil {
		return nil, err
	}
	outF, _ := os.Create(filepath.Join(o.Dir, "proxy.out"))
	cmd := exec.Command(o.Bin, "router", "-c", cfg, "--log-lvl", lvl)
	cmd.Dir = o.Dir
	cmd.Stdout = outF
	cmd.Stderr = errF
	env := os.Environ()
	env = append(env,
		"MOSPROXY_JSONLOGGER=1",
		"GORACE=halt_on_error=0 exitcode=0 log_path="+filepath.Join(o.Dir, "race"), // races are read from the log (C20); the exit status stays the program's own
		"VERIF_POOL_LOG="+filepath.Join(o.Dir, "pool.log"),
		"VERIF_HOOK_LOG="+filepath.Join(o.Dir, "hook.log"),
	)
	for k, v := range o.Env {
		env = append(env, k+"="+v)
	}
	cmd.Env = env
	cmd.SysProcAttr = &syscall.SysProcAttr{Pdeathsig: syscall.SIGKILL}
	if err := cmd.Start(); err != nil {
		return nil, err
	}
	p.cmd = cmd
	p.started = time.Now()
	go func() {
		p.exitErr = cmd.Wait()
		errF.Close()
		if outF != nil {
			outF.Close()
		}
		close(p.done)
	}()
	wait := o.ReadyWait
	if wait == 0 {
		wait = 40 * time.Second
	}
	deadline := time.Now().Add(wait)
	for time.Now().Before(deadline) {
		select {
		case <-p.done:
			return p, ErrExited
		default:
		}
		b, _ := os.ReadFile(p.ErrPath)
		if bytes.Contains(b, []byte("router is up and running")) {
			return p, nil
		}
		time.Sleep(50 * time.Millisecond)
	}
	return p, fmt.Errorf("proxy not ready after %v", wait)
}

func (p *Proxy) Alive() bool {
	select {
	case <-p.done:
		return false
	default:
		return true
	}
}

func (p *Proxy) Pid() int { return p.cmd.Process.Pid }

type Result struct {
	ExitCode       int              `json:"exit_code"`
	DiedBeforeStop bool             `json:"died_before_stop"` // the process was already gone when Stop was called
	Signaled       bool             `json:"signaled"`
	KilledLate     bool             `json:"killed_after_grace"` // did not exit within the grace period after SIGTERM
	ExitAfter      time.Duration    `json:"exit_after"`         // time from SIGTERM to exit
	Panic          string           `json:"panic,omitempty"`    // first panic/fatal line + a few following lines
	Races          []racelog.Report `json:"-"`
	PoolReports    []string         `json:"pool_reports,omitempty"`
	HookReports    []string         `json:"hook_reports,omitempty"`
	PoolStats      map[string]any   `json:"pool_stats,omitempty"`
	LogErrors      int              `json:"log_errors"`
}

// Stop terminates the proxy with SIGTERM (grace: 15 s, then SIGKILL) and collects everything it left behind.
func (p *Proxy) Stop() *Result {
	res := &Result{}
	t0 := time.Now()
	res.DiedBeforeStop = !p.Alive()
	if p.Alive() {
		p.cmd.Process.Signal(syscall.SIGTERM)
		select {
		case <-p.done:
		case <-time.After(15 * time.Second):
			res.KilledLate = true
			p.cmd.Process.Signal(syscall.SIGQUIT)
			select {
			case <-p.done:
			case <-time.After(5 * time.Second):
				p.cmd.Process.Kill()
				<-p.done
			}
		}
	}
	res.ExitAfter = time.Since(t0)
	if p.cmd.ProcessState != nil {
		res.ExitCode = p.cmd.ProcessState.ExitCode()
		if ws, ok := p.cmd.ProcessState.Sys().(syscall.WaitStatus); ok && ws.Signaled() {
			res.Signaled = true
		}
	}
	p.collect(res)
	return res
}

// Collect gathers logs without stopping (the proxy may still be running).
func (p *Proxy) Collect() *Result {
	res := &Result{}
	p.collect(res)
	return res
}

func (p *Proxy) collect(res *Result) {
	if f, err := os.Open(p.ErrPath); err == nil {
		sc := bufio.NewScanner(f)
		sc.Buffer(make([]byte, 1<<20), 1<<26)
		var raceText strings.Builder
		capture := 0
		for sc.Scan() {
			l := sc.Text()
			if capture > 0 {
				res.Panic += "\n" + l
				capture--
				continue
			}
			if res.Panic == "" && (strings.HasPrefix(l, "panic:") || strings.HasPrefix(l, "fatal error:") || strings.Contains(l, "unexpected fault address") || strings.HasPrefix(l, "runtime: ")) {
				res.Panic = l
				capture = 25
				continue
			}
			if strings.Contains(l, `"level":"error"`) {
				res.LogErrors++
			}
			raceText.WriteString(l)
			raceText.WriteByte('\n')
		}
		f.Close()
		res.Races = append(res.Races, racelog.ParseText(raceText.String())...)
	}
	res.Races = append(res.Races, racelog.ParseFiles(filepath.Join(p.Dir, "race.*"))...)
	res.PoolReports = readLines(filepath.Join(p.Dir, "pool.log"))
	res.HookReports = readLines(filepath.Join(p.Dir, "hook.log"))
	if b, err := os.ReadFile(filepath.Join(p.Dir, "pool.log.stats")); err == nil {
		json.Unmarshal(b, &res.PoolStats)
	}
}

func readLines(path string) []string {
	b, err := os.ReadFile(path)
	if err != nil {
		return nil
	}
	var out []string
	for _, l := range strings.Split(string(b), "\n") {
		if strings.TrimSpace(l) != "" {
			out = append(out, l)
		}
	}
	return out
}

// LogContains reports whether the proxy's stderr contains s.
func (p *Proxy) LogContains(s string) bool {
	b, _ := os.ReadFile(p.ErrPath)
	return bytes.Contains(b, []byte(s))
}

// LogTail returns the last n bytes of stderr.
func (p *Proxy) LogTail(n int) string {
	b, _ := os.ReadFile(p.ErrPath)
	if len(b) > n {
		b = b[len(b)-n:]
	}
	return string(b)
}

// FreePorts returns n distinct ports that were free for both TCP and UDP on ip a moment ago.
func FreePorts(ip string, n int) ([]int, error) {
	var out []int
	var held []interface{ Close() error }
	defer func() {
		for _, h := range held {
			h.Close()
		}
	}()
	for tries := 0; len(out) < n && tries < n*20; tries++ {
		l, err := net.Listen("tcp", net.JoinHostPort(ip, "0"))
		if err != nil {
			return nil, err
		}
		port := l.Addr().(*net.TCPAddr).Port
		pc, err := net.ListenPacket("udp", net.JoinHostPort(ip, fmt.Sprint(port)))
		if err != nil {
			l.Close()
			continue
		}
		held = append(held, l, pc)
		out = append(out, port)
	}
	if len(out) < n {
		return nil, errors.New("no free ports")
	}
	return out, nil
}
