package refmsg

import (
	"encoding/binary"

	"github.com/IrineSistiana/mosproxy/verif/internal/gen"
)

// Seed is a valid message in three forms: struct, randomly compressed wire
// and uncompressed wire (with layouts).
type Seed struct {
	M  *Msg
	W  []byte
	L  *Layout
	PW []byte // plain: no compression
	PL *Layout
}

// NewSeed generates a valid, rather small message covering the record types.
func NewSeed(r *gen.R) *Seed {
	o := GenOpts{Small: r.P(0.8), MaxRecords: 12, BigP: 0.005, OddAddrP: 0.02, ZBitP: 0.05}
	m, _ := Gen(r, o)
	s := &Seed{M: m}
	s.W, s.L = Encode(m, r, 0.6)
	s.PW, s.PL = Encode(m, nil, 0)
	return s
}

// Truncations returns every proper prefix of w (including the empty one).
func Truncations(w []byte) [][]byte {
	out := make([][]byte, 0, len(w))
	for i := 0; i < len(w); i++ {
		out = append(out, w[:i:i])
	}
	return out
}

func clone(b []byte) []byte { return append([]byte{}, b...) }

func ptr(off int) []byte { return []byte{0xC0 | byte(off>>8), byte(off)} }

// replaceName substitutes the in-place encoding of name number idx of the
// plain encoding by x(off, tailBase) and appends tail(tailBase); RDLENGTH of
// the enclosing record is adjusted when fixLen is set. x and tail get the
// final offsets of the name and of the tail area.
func (s *Seed) replaceName(idx int, xLen int, x func(off, tailBase int) []byte, tail func(tailBase int) []byte, fixLen bool) []byte {
	nl := s.PL.Names[idx]
	delta := xLen - (nl.End - nl.Off)
	tailBase := len(s.PW) + delta
	xb := x(nl.Off, tailBase)
	out := make([]byte, 0, tailBase+64)
	out = append(out, s.PW[:nl.Off]...)
	out = append(out, xb...)
	out = append(out, s.PW[nl.End:]...)
	if nl.InRData && fixLen {
		for _, rl := range s.PL.RRs {
			if rl.RdataOff <= nl.Off && nl.Off < rl.End {
				old := int(binary.BigEndian.Uint16(out[rl.RdlenOff:]))
				binary.BigEndian.PutUint16(out[rl.RdlenOff:], uint16(old+len(xb)-(nl.End-nl.Off)))
			}
		}
	}
	if tail != nil {
		out = append(out, tail(len(out))...)
	}
	return out
}

// labelsOfTotal returns wire labels (no terminator) using exactly n octets, n >= 2 or 0.
func labelsOfTotal(r *gen.R, n int, maxLabel int) []byte {
	var out []byte
	for n >= 2 {
		l := r.Range(1, maxLabel)
		if l > n-1 {
			l = n - 1
		}
		if n-1-l == 1 {
			if l > 1 {
				l--
			} else {
				l++
			}
		}
		out = append(out, byte(l))
		for i := 0; i < l; i++ {
			out = append(out, hostname[r.Intn(len(hostname))])
		}
		n -= 1 + l
	}
	return out
}

// NameAttack builds a message from the seed in which one name is replaced by
// a crafted encoding; the rest of the message stays well-formed so a decoder
// that survives the name continues into the following elements.
func NameAttack(r *gen.R, s *Seed) ([]byte, string) {
	if len(s.PL.Names) == 0 {
		return nil, ""
	}
	idx := r.Intn(len(s.PL.Names))
	fix := r.P(0.8)
	switch r.Intn(12) {
	case 0:
		return s.replaceName(idx, 2, func(off, _ int) []byte { return ptr(off) }, nil, fix), "ptr-self"
	case 1: // label then pointer back to the label: grows until the length cap
		l := r.Range(1, 63)
		return s.replaceName(idx, 1+l+2, func(off, _ int) []byte {
			x := append([]byte{byte(l)}, r.Bytes(l)...)
			return append(x, ptr(off)...)
		}, nil, fix), "ptr-loop-label"
	case 2:
		h := r.Intn(12)
		return s.replaceName(idx, 2, func(_, _ int) []byte { return ptr(h) }, nil, fix), "ptr-header"
	case 3: // forward pointer (into the rest of the message or just past it)
		return s.replaceName(idx, 2, func(off, tb int) []byte {
			return ptr(r.Range(off+1, tb+2) & 0x3FFF)
		}, func(tb int) []byte {
			if r.Bool() {
				return append(labelsOfTotal(r, r.Range(2, 30), 10), 0)
			}
			return nil
		}, fix), "ptr-forward"
	case 4: // 2-cycle through the tail
		var me int
		return s.replaceName(idx, 2, func(off, tb int) []byte { me = off; return ptr(tb & 0x3FFF) },
			func(tb int) []byte { return ptr(me) }, fix), "ptr-2cycle"
	case 5, 6, 7: // chain of h hops ending in a valid name
		h := gen.Pick(r, []int{1, 2, 8, 9, 10, 11, 12, 13, 9, 10, 11, 12})
		withLabels := r.P(0.3)
		step := 2
		if withLabels {
			step = 4
		}
		// tail: a 7-octet name e0 at tb, then elements e1..e(h-1) of `step` octets,
		// e(i) = [label] pointer-to-e(i-1); the name in place is a pointer to e(h-1).
		return s.replaceName(idx, 2, func(_, tb int) []byte {
			last := tb
			if h > 1 {
				last = tb + 7 + (h-2)*step
			}
			return ptr(last & 0x3FFF)
		}, func(tb int) []byte {
			t := append(labelsOfTotal(r, 6, 5), 0)
			prev := tb
			for i := 0; i < h-1; i++ {
				cur := tb + len(t)
				if withLabels {
					t = append(t, 1, 'x')
				}
				t = append(t, ptr(prev&0x3FFF)...)
				prev = cur
			}
			return t
		}, fix), "ptr-chain-" + itoa(h)
	case 8, 9: // names of 250..258 octets: labels in place + pointer to a tail name
		total := r.Range(250, 258) // wire octets including the terminator
		inPlace := 0
		if total-1 >= 4 {
			inPlace = r.Intn(total - 3)
			if inPlace == 1 {
				inPlace = 2
			}
		}
		rest := total - 1 - inPlace
		if rest == 1 {
			rest, inPlace = 2, inPlace-1
			if inPlace == 1 {
				inPlace = 0
				rest = total - 1
			}
		}
		ml := gen.Pick(r, []int{1, 5, 63})
		return s.replaceName(idx, inPlace+2, func(_, tb int) []byte {
			return append(labelsOfTotal(r, inPlace, ml), ptr(tb&0x3FFF)...)
		}, func(int) []byte { return append(labelsOfTotal(r, rest, ml), 0) }, fix), "name-len-" + itoa(total) + "-ptr"
	case 10: // names of 250..258 octets, plain
		total := r.Range(250, 258)
		ml := gen.Pick(r, []int{1, 2, 63, 40})
		return s.replaceName(idx, total, func(_, _ int) []byte {
			return append(labelsOfTotal(r, total-1, ml), 0)
		}, nil, fix), "name-len-" + itoa(total)
	default: // bad label type / length inside an otherwise fine name
		c := byte(r.Range(64, 255))
		if r.P(0.4) {
			c = gen.Pick(r, []byte{0x40, 0x80, 0x41, 0x81, 0xBF, 0x7F})
		}
		k := r.Intn(4)
		return s.replaceName(idx, 2+k+1, func(_, _ int) []byte {
			x := []byte{1, 'a', c}
			x = append(x, r.Bytes(k)...)
			return x
		}, nil, fix), "label-type"
	}
}

func itoa(n int) string {
	if n == 0 {
		return "0"
	}
	var b []byte
	for n > 0 {
		b = append([]byte{byte('0' + n%10)}, b...)
		n /= 10
	}
	return string(b)
}

// Mutate derives one hostile input from the seed (and a second seed for
// splices). It returns the input and the mutator's name.
func Mutate(r *gen.R, s, other *Seed) ([]byte, string) {
	w := s.W
	lay := s.L
	if r.P(0.3) {
		w, lay = s.PW, s.PL
	}
	switch r.Intn(20) {
	case 0: // random truncation
		return clone(w[:r.Intn(len(w))]), "truncate"
	case 1: // counts
		out := clone(w)
		f := 4 + 2*r.Intn(4)
		old := binary.BigEndian.Uint16(out[f:])
		v := gen.Pick(r, []uint16{old + 1, old - 1, 0, 65535, old + 2, uint16(r.Intn(65536)), 256, 255})
		binary.BigEndian.PutUint16(out[f:], v)
		if r.P(0.2) {
			f2 := 4 + 2*r.Intn(4)
			binary.BigEndian.PutUint16(out[f2:], binary.BigEndian.Uint16(out[f2:])+uint16(r.Range(1, 3)))
		}
		return out, "counts"
	case 2, 3: // RDLENGTH
		if len(lay.RRs) == 0 {
			break
		}
		out := clone(w)
		rl := lay.RRs[r.Intn(len(lay.RRs))]
		old := binary.BigEndian.Uint16(out[rl.RdlenOff:])
		v := gen.Pick(r, []uint16{old + 1, old - 1, 0, 65535, old + 2, old - 2, uint16(r.Intn(65536)), uint16(len(w) - rl.RdataOff), uint16(len(w) - rl.RdataOff + 1)})
		binary.BigEndian.PutUint16(out[rl.RdlenOff:], v)
		return out, "rdlength"
	case 4: // label length octet
		if len(lay.Labels) == 0 {
			break
		}
		out := clone(w)
		o := lay.Labels[r.Intn(len(lay.Labels))]
		switch r.Intn(5) {
		case 0:
			out[o] = byte(r.Range(64, 255))
		case 1:
			out[o] = gen.Pick(r, []byte{0x40, 0x80, 0x40 | out[o], 0x80 | out[o]})
		case 2:
			out[o] = out[o] + byte(r.Range(1, 3))
		case 3:
			out[o] = 63
		default:
			out[o] = 0
		}
		return out, "label-len"
	case 5: // redirect an existing pointer
		if len(lay.Ptrs) == 0 {
			break
		}
		out := clone(w)
		o := lay.Ptrs[r.Intn(len(lay.Ptrs))]
		var t int
		switch r.Intn(6) {
		case 0:
			t = o // self
		case 1:
			t = r.Intn(12) // header
		case 2:
			t = r.Range(o+1, len(w)+2) // forward / past the end
		case 3:
			t = lay.Ptrs[r.Intn(len(lay.Ptrs))] // onto another pointer (cycles, chains)
		case 4:
			t = 0x3FFF
		default:
			t = r.Intn(len(w))
		}
		copy(out[o:], ptr(t&0x3FFF))
		return out, "ptr-redirect"
	case 6: // turn a label start into a pointer
		if len(lay.Labels) == 0 {
			break
		}
		out := clone(w)
		o := lay.Labels[r.Intn(len(lay.Labels))]
		t := gen.Pick(r, []int{o, o - 1, o + 1, o + 2, 0, 11, 12, r.Intn(len(w)), len(w), len(w) - 1})
		if o+1 < len(out) {
			copy(out[o:], ptr(t&0x3FFF))
		}
		return out, "label-to-ptr"
	case 7, 8, 9, 10: // structured name attacks on the plain encoding
		if out, kind := NameAttack(r, s); out != nil {
			return out, kind
		}
	case 11: // bit flips
		out := clone(w)
		for i, n := 0, r.Range(1, 8); i < n; i++ {
			out[r.Intn(len(out))] ^= 1 << r.Intn(8)
		}
		return out, "bitflip"
	case 12: // splice of two seeds
		i := r.Intn(len(w) + 1)
		j := r.Intn(len(other.W) + 1)
		return append(clone(w[:i]), other.W[j:]...), "splice"
	case 13: // pure random
		return r.Bytes(gen.Pick(r, []int{r.Intn(12), r.Range(12, 40), r.Range(12, 600)})), "random"
	case 14: // valid header, random body
		out := clone(w[:12])
		return append(out, r.Bytes(r.Range(0, 200))...), "random-body"
	case 15: // short headers
		return clone(w[:r.Intn(12)]), "short-header"
	case 16: // byte insert / delete
		out := clone(w)
		i := r.Intn(len(out))
		if r.Bool() {
			out = append(out[:i], out[i+1:]...)
		} else {
			out = append(out[:i], append([]byte{byte(r.Intn(256))}, out[i:]...)...)
		}
		return out, "insert-delete"
	case 17: // overwrite a region with pointer-looking or random octets
		out := clone(w)
		i := r.Range(12, len(out))
		for k, n := 0, r.Range(1, 8); k < n && i+k < len(out); k++ {
			if r.Bool() {
				out[i+k] = byte(r.Range(0xC0, 0xFF))
			} else {
				out[i+k] = byte(r.Intn(256))
			}
		}
		return out, "overwrite"
	case 18: // change a record type (RDATA parsed as another type)
		if len(lay.RRs) == 0 {
			break
		}
		out := clone(w)
		rl := lay.RRs[r.Intn(len(lay.RRs))]
		binary.BigEndian.PutUint16(out[rl.TypeOff:], gen.Pick(r, []uint16{TypeA, TypeAAAA, TypeNS, TypeCNAME, TypePTR, TypeMX, TypeSOA, TypeSRV, TypeOPT, TypeTXT}))
		return out, "retype"
	case 19: // valid message with trailing garbage / duplicated
		if r.Bool() {
			return append(clone(w), r.Bytes(r.Range(1, 30))...), "trailing"
		}
		return append(clone(w), w...), "doubled"
	}
	// mutator not applicable to this seed
	out := clone(w)
	out[r.Intn(len(out))] ^= 1 << r.Intn(8)
	return out, "bitflip"
}
