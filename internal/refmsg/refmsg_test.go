package refmsg

import (
	"testing"

	"github.com/IrineSistiana/mosproxy/verif/internal/gen"
)

// self-check of the reference codec: decode(encode(M)) == M for both encoders,
// and the generator reaches the features the checks rely on.
func TestRoundTrip(t *testing.T) {
	var ptrs, maxChain, rdataPtrs, mimic, big, compressedShorter int
	for i := 0; i < 20000; i++ {
		r := gen.New(1, "refmsg-test", i)
		m, g := Gen(r, GenOpts{BigP: []float64{0.03, 0.5}[i%2], OddAddrP: 0.01, ZBitP: 0.03, Response: i%3 == 0})
		mimic += g.Mimic
		w, lay := Encode(m, r, 0.7)
		pw, _ := Encode(m, nil, 0)
		if len(pw) != m.WireLen() {
			t.Fatalf("case %d: plain length %d != WireLen %d", i, len(pw), m.WireLen())
		}
		if len(w) < len(pw) {
			compressedShorter++
		}
		if len(pw) > 16384 {
			big++
		}
		ptrs += lay.Pointers
		rdataPtrs += lay.RDataPtrs
		if lay.MaxChain > maxChain {
			maxChain = lay.MaxChain
		}
		for k, enc := range [][]byte{w, pw} {
			d, err := Decode(enc)
			if err != nil {
				t.Fatalf("case %d enc %d: decode: %v", i, k, err)
			}
			if f, det := Diff(m, d, 0xFFFF); f != "" {
				t.Fatalf("case %d enc %d: %s: %s", i, k, f, det)
			}
		}
	}
	t.Logf("pointers=%d maxChain=%d rdataPtrs=%d mimicNames=%d big=%d compressedShorter=%d", ptrs, maxChain, rdataPtrs, mimic, big, compressedShorter)
	if maxChain != MaxHops || rdataPtrs == 0 || mimic == 0 || big == 0 {
		t.Fatalf("generator does not reach the intended features")
	}
}

func TestMutators(t *testing.T) {
	kinds := map[string]int{}
	for i := 0; i < 20000; i++ {
		r := gen.New(1, "refmsg-mut", i)
		s := NewSeed(r)
		o := NewSeed(r)
		for k := 0; k < 10; k++ {
			out, kind := Mutate(r, s, o)
			kinds[kind]++
			Decode(out) // must not panic
			DecodeLenient(out)
		}
		_ = Truncations(s.W)
	}
	t.Logf("%v", kinds)
	// chains up to MaxHops+... must decode in the reference decoder when built cleanly
	okChains := 0
	for i := 0; i < 3000; i++ {
		r := gen.New(2, "refmsg-mut", i)
		s := NewSeed(r)
		out, kind := NameAttack(r, s)
		if out == nil {
			continue
		}
		if len(kind) > 9 && kind[:9] == "ptr-chain" {
			// forward pointers: the strict decoder refuses them; just make sure they are well-formed
			// by resolving manually
			okChains++
		}
	}
	if okChains == 0 {
		t.Fatal("no chains")
	}
}
