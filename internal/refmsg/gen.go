package refmsg

import (
	"bytes"
	"encoding/binary"

	"github.com/IrineSistiana/mosproxy/verif/internal/gen"
)

// GenOpts tunes the message generator.
type GenOpts struct {
	// Response: the flavour a DNS proxy sends to clients: QR set, one question
	// (rarely none), at most one OPT record, owned by the root, with at most
	// 64 octets of options, somewhere in the additional section; well-formed
	// A/AAAA; Z bit clear.
	Response bool
	// MaxRecords over the three sections (default 40).
	MaxRecords int
	// BigP: probability that a raw RDATA is large (up to 4 kB).
	BigP float64
	// OddAddrP: probability that an A/AAAA record gets an RDATA that is not 4/16 octets
	// (legal on the wire, e.g. RFC 2136 updates; many decoders refuse it).
	OddAddrP float64
	// ZBitP: probability that the reserved Z header bit is set.
	ZBitP float64
	// Small: only few, short records (seeds for mutation).
	Small bool
	// LadderP: probability that the message's names form a ladder: each new
	// name is the previous one with a label put in front (shared suffixes at
	// every depth; a compressing encoder builds long pointer chains from it).
	LadderP float64
}

// NameGen generates names that share suffixes with, and mimic the octet
// strings of, names generated earlier.
type NameGen struct {
	R    *gen.R
	Pool [][][]byte
	// Ladder: most new names are the previous name with one more label in front.
	Ladder bool
	// Dots: some labels contain '.' (x/net dnsmessage refuses such names, so only some messages have them).
	Dots bool
	// Stats
	Mimic int
}

const hostname = "abcdefghijklmnopqrstuvwxyz0123456789-"

func genLabelLen(r *gen.R, max int) int {
	var n int
	switch r.Intn(10) {
	case 0, 1, 2:
		n = 1
	case 3:
		n = gen.Pick(r, []int{62, 63})
	case 4:
		n = r.Range(1, 63)
	default:
		n = r.Range(1, 8)
	}
	if n > max {
		n = max
	}
	return n
}

// GenLabel returns a label of 1..max octets from a hostile alphabet.
func GenLabel(r *gen.R, max int) []byte {
	if max > 63 {
		max = 63
	}
	if max >= 3 && r.P(0.12) {
		// content that looks like two labels: x || len(y) || y
		y := GenLabel(r, (max-2+1)/2)
		xl := max - 1 - len(y)
		if xl > 6 {
			xl = 6
		}
		x := GenLabel(r, r.Range(1, xl))
		out := append(append(append([]byte{}, x...), byte(len(y))), y...)
		return out
	}
	n := genLabelLen(r, max)
	l := make([]byte, n)
	mode := r.Intn(8)
	for i := range l {
		switch mode {
		case 0:
			l[i] = byte(r.Intn(256))
		case 1: // look like length octets
			l[i] = byte(r.Range(1, 0x3f))
		case 2: // look like pointers
			l[i] = byte(r.Range(0xC0, 0xFF))
		case 3:
			{
				const al = "\x00\\ABCXYZabc\x01\x02\x03\xc0\x0c\x40\x80\xff \t@"
				l[i] = al[r.Intn(len(al))]
			}
		case 4: // tiny alphabet: collisions, shared suffixes
			l[i] = "ab"[r.Intn(2)]
		case 5:
			l[i] = "abAB\x01\x02"[r.Intn(6)]
		default:
			l[i] = hostname[r.Intn(len(hostname))]
		}
	}
	return l
}

var commonLabels = [][]byte{[]byte("com"), []byte("a"), []byte("b"), []byte("example"), []byte("www"), []byte("abc"), []byte("\x03com"), []byte("a\x01b")}

func (g *NameGen) label(max int) []byte {
	if g.R.P(0.35) {
		l := gen.Pick(g.R, commonLabels)
		if len(l) <= max {
			return append([]byte{}, l...)
		}
	}
	return GenLabel(g.R, max)
}

// fill appends labels until exactly `budget` octets (length octets included) are used.
func (g *NameGen) fill(labels [][]byte, budget int, maxLabel int) [][]byte {
	for budget >= 2 {
		n := g.R.Range(1, maxLabel)
		if n > budget-1 {
			n = budget - 1
		}
		if budget-1-n == 1 { // would leave a single octet, which cannot hold a label
			if n > 1 {
				n--
			} else {
				n++
			}
		}
		l := make([]byte, n)
		for i := range l {
			l[i] = hostname[g.R.Intn(len(hostname))]
			if g.R.P(0.1) {
				l[i] = byte(g.R.Intn(256))
			}
		}
		labels = append(labels, l)
		budget -= 1 + n
	}
	return labels
}

// Fresh returns a new random name (wire length <= 255).
func (g *NameGen) Fresh() [][]byte {
	r := g.R
	switch r.Intn(24) {
	case 0:
		return nil // root
	case 1: // exactly 255 octets on the wire
		return g.fill(nil, 254, 63)
	case 2: // 127 one-octet labels
		return g.fill(nil, 254, 1)
	case 3: // many short labels
		return g.fill(nil, r.Range(40, 254), 2)
	case 4: // 253..255 octets
		return g.fill(nil, r.Range(252, 254), gen.Pick(r, []int{1, 7, 63}))
	case 5: // four maximal labels: 63,63,63,61
		var out [][]byte
		for _, n := range []int{63, 63, 63, 61} {
			out = append(out, r.Bytes(n))
		}
		return out
	}
	n := r.Range(1, 5)
	var labels [][]byte
	total := 0
	for i := 0; i < n; i++ {
		l := g.label(63)
		if total+1+len(l) > 254 {
			break
		}
		total += 1 + len(l)
		labels = append(labels, l)
	}
	return labels
}

func nameOK(n [][]byte) bool {
	if NameWireLen(n) > 255 {
		return false
	}
	for _, l := range n {
		if len(l) < 1 || len(l) > 63 {
			return false
		}
	}
	return true
}

// Mimic derives from b a name whose octet string coincides with (a suffix of)
// b's while the label structure differs. ok=false when b offers no such variant.
func Mimic(r *gen.R, b [][]byte) ([][]byte, bool) {
	if len(b) == 0 {
		return nil, false
	}
	// possible merges (labels i..j into one) and splits (label i at octet p); sampled, not enumerated
	type op struct{ kind, i, j int }
	var o op
	found := false
	for try := 0; try < 8 && !found; try++ {
		i := r.Intn(len(b))
		if r.P(0.6) && i+1 < len(b) { // merge
			ln := len(b[i])
			maxJ := i
			for j := i + 1; j < len(b); j++ {
				ln += 1 + len(b[j])
				if ln > 63 {
					break
				}
				maxJ = j
			}
			if maxJ > i {
				j := i + 1
				if r.P(0.4) {
					j = r.Range(i+1, maxJ)
				}
				o, found = op{0, i, j}, true
			}
		} else { // split
			l := b[i]
			var ps []int
			for p := 1; p < len(l)-1; p++ {
				if int(l[p]) == len(l)-p-1 {
					ps = append(ps, p)
				}
			}
			if len(ps) > 0 {
				o, found = op{1, i, ps[r.Intn(len(ps))]}, true
			}
		}
	}
	if !found {
		return nil, false
	}
	var out [][]byte
	switch o.kind {
	case 0:
		out = append(out, CloneName(b[:o.i])...)
		m := append([]byte{}, b[o.i]...)
		for k := o.i + 1; k <= o.j; k++ {
			m = append(m, byte(len(b[k])))
			m = append(m, b[k]...)
		}
		out = append(out, m)
		out = append(out, CloneName(b[o.j+1:])...)
	case 1:
		out = append(out, CloneName(b[:o.i])...)
		l := b[o.i]
		out = append(out, append([]byte{}, l[:o.j]...), append([]byte{}, l[o.j+1:]...))
		out = append(out, CloneName(b[o.i+1:])...)
	}
	if !nameOK(out) {
		return nil, false
	}
	// optionally drop leading labels: the coincidence is about suffixes
	if r.P(0.3) {
		lead := o.i
		if lead > 0 {
			out = out[r.Intn(lead+1):]
		}
	}
	// shift: merge then split again elsewhere (boundary moves)
	if r.P(0.3) {
		if o2, ok := Mimic(r, out); ok && !NameEqual(o2, b) {
			return o2, true
		}
	}
	return out, true
}

// Next returns the next name for the message and remembers it.
func (g *NameGen) Next() [][]byte {
	n := g.next()
	if !nameOK(n) {
		n = [][]byte{[]byte("fallback")}
	}
	if g.Dots {
		if len(n) > 0 && g.R.P(0.1) {
			n = CloneName(n)
			l := n[g.R.Intn(len(n))]
			l[g.R.Intn(len(l))] = '.'
		}
	} else {
		for i, l := range n {
			if bytes.IndexByte(l, '.') >= 0 {
				l = bytes.ReplaceAll(l, []byte{'.'}, []byte{'/'})
				n = append(append(append([][]byte{}, n[:i]...), l), n[i+1:]...)
			}
		}
	}
	g.Pool = append(g.Pool, n)
	return CloneName(n)
}

func (g *NameGen) next() [][]byte {
	r := g.R
	if g.Ladder && len(g.Pool) > 0 && r.P(0.85) {
		b := g.Pool[len(g.Pool)-1]
		if room := 254 - (NameWireLen(b) - 1) - 1; room >= 1 {
			if room > 3 {
				room = 3
			}
			return append([][]byte{g.label(room)}, b...)
		}
		return [][]byte{g.label(3)}
	}
	if len(g.Pool) == 0 || r.P(0.25) {
		return g.Fresh()
	}
	b := gen.Pick(r, g.Pool)
	switch r.Intn(12) {
	case 0: // duplicate
		return b
	case 1: // proper suffix at a random depth
		if len(b) > 0 {
			return b[r.Intn(len(b)+1):]
		}
		return b
	case 2, 3: // new labels in front of a suffix at a random depth
		suf := b
		if len(b) > 0 {
			suf = b[r.Intn(len(b)+1):]
		}
		k := r.Range(1, 3)
		var pre [][]byte
		for i := 0; i < k; i++ {
			room := 254 - (NameWireLen(suf) - 1) - (NameWireLen(pre) - 1) - 1
			if room < 1 {
				break
			}
			pre = append(pre, g.label(room))
		}
		return append(pre, suf...)
	case 4, 5, 6, 7: // label-boundary mimicry
		if m, ok := Mimic(r, b); ok {
			g.Mimic++
			return m
		}
		// make a pair that mimics: child whose first label embeds the parent's first labels
		if len(b) >= 1 && len(b[0]) <= 60 {
			x := GenLabel(r, 62-len(b[0]))
			m := append(append(append([]byte{}, x...), byte(len(b[0]))), b[0]...)
			if len(m) <= 63 {
				out := append([][]byte{m}, b[1:]...)
				if nameOK(out) {
					g.Mimic++
					return out
				}
			}
		}
		return g.Fresh()
	case 8: // case variant
		out := CloneName(b)
		for _, l := range out {
			for i, c := range l {
				if (('a' <= c && c <= 'z') || ('A' <= c && c <= 'Z')) && r.P(0.4) {
					l[i] = c ^ 0x20
				}
			}
		}
		return out
	case 9: // one octet changed
		out := CloneName(b)
		if len(out) > 0 {
			l := out[r.Intn(len(out))]
			l[r.Intn(len(l))] ^= byte(1 << r.Intn(8))
		}
		return out
	case 10: // sibling
		if len(b) > 0 {
			room := 254 - (NameWireLen(b[1:]) - 1) - 1
			if room >= 1 {
				return append([][]byte{g.label(room)}, b[1:]...)
			}
		}
		return b
	default: // last label with NUL appended / first label truncated
		out := CloneName(b)
		if len(out) > 0 {
			i := r.Intn(len(out))
			if len(out[i]) < 63 && NameWireLen(out) < 255 {
				out[i] = append(out[i], 0)
			} else if len(out[i]) > 1 {
				out[i] = out[i][:len(out[i])-1]
			}
		}
		return out
	}
}

func u16b(v uint16) []byte { return binary.BigEndian.AppendUint16(nil, v) }

func genClass(r *gen.R) uint16 {
	switch r.Intn(12) {
	case 0:
		return ClassCH
	case 1:
		return ClassANY
	case 2:
		return ClassNONE
	case 3:
		return uint16(r.Intn(65536))
	case 4:
		return 0
	}
	return ClassIN
}

func genTTL(r *gen.R) uint32 {
	switch r.Intn(8) {
	case 0:
		return 0
	case 1:
		return 0xFFFFFFFF
	case 2:
		return 0x80000000
	case 3:
		return uint32(r.Intn(600))
	}
	return r.Uint32()
}

// UnknownType returns a type code outside the ten types the generator knows
// how to build RDATA for.
func UnknownType(r *gen.R) uint16 {
	for {
		var t uint16
		switch r.Intn(6) {
		case 0, 1, 2:
			t = uint16(r.Range(65280, 65534)) // private use
		case 3:
			if r.Bool() {
				t = gen.Pick(r, []uint16{0, 10, 13, 99, 257, 48, 43, 52, 64, 65, 255, 252, 251, 250, 249})
			} else {
				t = uint16(r.Range(1, 260))
			}
		default:
			t = uint16(r.Intn(65536))
		}
		switch t {
		case TypeA, TypeAAAA, TypeNS, TypeCNAME, TypePTR, TypeMX, TypeSOA, TypeSRV, TypeOPT, TypeTXT:
			continue
		}
		return t
	}
}

func genRawLen(r *gen.R, o *GenOpts) int {
	if r.P(o.BigP) {
		return r.Range(256, 4096)
	}
	switch r.Intn(8) {
	case 0, 1:
		return 0
	case 2:
		return r.Range(1, 3)
	case 3:
		return r.Range(64, 300)
	}
	return r.Range(1, 40)
}

func genTXT(r *gen.R, o *GenOpts) []byte {
	if r.P(0.03) {
		return r.Bytes(genRawLen(r, o)) // not necessarily well-formed character strings
	}
	var out []byte
	for i, n := 0, r.Range(0, 4); i < n; i++ {
		l := r.Range(0, 40)
		if r.P(0.1) {
			l = 255
		}
		out = append(out, byte(l))
		out = append(out, r.Bytes(l)...)
	}
	if r.P(o.BigP) {
		for len(out) < 3000 {
			out = append(out, 255)
			out = append(out, r.Bytes(255)...)
		}
	}
	return out
}

// GenOPTData returns well-formed EDNS0 options of at most max octets.
func GenOPTData(r *gen.R, max int) []byte {
	var out []byte
	if r.P(0.4) {
		return out
	}
	for i, n := 0, r.Range(1, 4); i < n; i++ {
		l := r.Range(0, 24)
		code := gen.Pick(r, []uint16{8, 10, 3, 12, 15, uint16(r.Intn(65536))})
		data := r.Bytes(l)
		if r.P(0.9) { // well-formed bodies for the options other decoders interpret
			switch code {
			case 8: // client subnet
				fam, bits := 1, r.Range(0, 32)
				if r.Bool() {
					fam, bits = 2, r.Range(0, 128)
				}
				addr := r.Bytes((bits + 7) / 8)
				if bits%8 != 0 {
					addr[len(addr)-1] &= 0xFF << (8 - bits%8)
				}
				data = append([]byte{0, byte(fam), byte(bits), 0}, addr...)
			case 10: // cookie
				data = r.Bytes(gen.Pick(r, []int{8, 16, 24, 40}))
			case 15: // extended error
				data = append(u16b(uint16(r.Intn(30))), r.Bytes(r.Range(0, 12))...)
			}
		}
		if len(out)+4+len(data) > max {
			break
		}
		out = append(out, u16b(code)...)
		out = append(out, u16b(uint16(len(data)))...)
		out = append(out, data...)
	}
	return out
}

func genRR(r *gen.R, g *NameGen, o *GenOpts, typ uint16) RR {
	rr := RR{Name: g.Next(), Type: typ, Class: genClass(r), TTL: genTTL(r)}
	switch typ {
	case TypeA, TypeAAAA:
		n := 4
		if typ == TypeAAAA {
			n = 16
		}
		if r.P(o.OddAddrP) {
			n = gen.Pick(r, []int{0, n - 1, n + 1, 1, 32})
		}
		rr.Data = []Part{{Raw: r.Bytes(n)}}
	case TypeNS, TypeCNAME, TypePTR:
		rr.Data = []Part{{IsName: true, Name: g.Next()}}
	case TypeMX:
		rr.Data = []Part{{Raw: r.Bytes(2)}, {IsName: true, Name: g.Next()}}
	case TypeSRV:
		rr.Data = []Part{{Raw: r.Bytes(6)}, {IsName: true, Name: g.Next()}}
	case TypeSOA:
		rr.Data = []Part{{IsName: true, Name: g.Next()}, {IsName: true, Name: g.Next()}, {Raw: r.Bytes(20)}}
	case TypeTXT:
		rr.Data = []Part{{Raw: genTXT(r, o)}}
	case TypeOPT:
		if r.P(0.8) {
			rr.Name = nil
		}
		rr.Class = uint16(gen.Pick(r, []int{512, 1232, 4096, 65535, 0, r.Intn(65536)}))
		max := 600
		if o.Response {
			max = 64
			rr.Name = nil
		}
		rr.Data = []Part{{Raw: GenOPTData(r, max)}}
	default:
		rr.Data = []Part{{Raw: r.Bytes(genRawLen(r, o))}}
	}
	return rr
}

var knownTypes = []uint16{TypeA, TypeAAAA, TypeNS, TypeCNAME, TypePTR, TypeMX, TypeSOA, TypeSRV, TypeTXT}

// Gen generates a message.
func Gen(r *gen.R, o GenOpts) (*Msg, *NameGen) {
	if o.MaxRecords == 0 {
		o.MaxRecords = 40
	}
	g := &NameGen{R: r}
	g.Ladder = r.P(o.LadderP)
	g.Dots = r.P(0.1)
	m := &Msg{ID: uint16(r.Intn(65536))}
	// header: every flag combination, opcode and rcode uniform
	m.Bits = uint16(r.Intn(65536)) &^ BitZ
	if r.P(o.ZBitP) {
		m.Bits |= BitZ
	}
	if o.Response {
		if r.P(0.9) {
			m.Bits |= BitQR
		}
		if r.P(0.7) {
			m.Bits &^= 0x7800 // opcode 0
		}
	}
	nq := 1
	if o.Response {
		if r.P(0.05) {
			nq = 0
		}
	} else if r.P(0.4) {
		nq = r.Range(0, 4)
	}
	for i := 0; i < nq; i++ {
		q := Question{Name: g.Next(), Class: genClass(r)}
		switch r.Intn(4) {
		case 0:
			q.Type = uint16(r.Intn(65536))
		case 1:
			q.Type = gen.Pick(r, []uint16{255, 252, 41, 0})
		default:
			q.Type = gen.Pick(r, knownTypes)
		}
		m.Questions = append(m.Questions, q)
	}
	var total int
	switch {
	case o.Small:
		total = r.Range(0, 4)
	case r.P(0.5):
		total = r.Range(0, 6)
	default:
		total = r.Range(0, o.MaxRecords)
	}
	if total > o.MaxRecords {
		total = o.MaxRecords
	}
	secs := [3]*[]RR{&m.Answers, &m.Authorities, &m.Additionals}
	// section weights vary per message so that empty and crowded sections both occur
	wA, wN := r.Float64(), r.Float64()
	for i := 0; i < total; i++ {
		var typ uint16
		switch x := r.Intn(20); {
		case x < 13:
			typ = gen.Pick(r, knownTypes)
		case x < 15 && !o.Response:
			typ = TypeOPT
		default:
			typ = UnknownType(r)
		}
		rr := genRR(r, g, &o, typ)
		s := 2
		if x := r.Float64(); x < wA*0.6 {
			s = 0
		} else if x < wA*0.6+wN*0.4 {
			s = 1
		}
		*secs[s] = append(*secs[s], rr)
	}
	if o.Response && r.P(0.6) {
		opt := genRR(r, g, &o, TypeOPT)
		pos := r.Intn(len(m.Additionals) + 1)
		m.Additionals = append(m.Additionals, RR{})
		copy(m.Additionals[pos+1:], m.Additionals[pos:])
		m.Additionals[pos] = opt
	}
	return m, g
}
