package refmsg

import (
	"encoding/binary"

	"github.com/IrineSistiana/mosproxy/verif/internal/gen"
)

// MaxHops is the longest pointer chain the reference encoder builds.
const MaxHops = 8

// NameLoc describes where a name was written.
type NameLoc struct {
	Off     int // first octet
	End     int // first octet after the in-place encoding (after the 0 octet or the pointer)
	InRData bool
	Section int // 0 question, 1..3 records
	Index   int
}

type RRLoc struct {
	Section  int // 1..3
	Start    int
	TypeOff  int
	RdlenOff int
	RdataOff int
	End      int
}

// Layout records the offsets of the structural elements of an encoded message
// (used by the mutators and to compute record ends).
type Layout struct {
	Names     []NameLoc
	Labels    []int // offsets of label length octets
	Ptrs      []int // offsets of compression pointers
	RRs       []RRLoc
	QEnds     []int
	Pointers  int // number of pointers emitted
	MaxChain  int // longest chain (hops) a decoder has to follow
	RDataPtrs int // pointers whose target lies inside some RDATA
}

type anchor struct {
	off     int
	hops    int // pointer hops needed to resolve the name starting at off
	inRData bool
}

type enc struct {
	w       []byte
	r       *gen.R
	pComp   float64
	anchors map[string][]anchor // key: uncompressed wire of the suffix (no terminator)
	lay     *Layout
}

// Encode writes m. r == nil: no compression. Otherwise each name is, with
// probability pCompress, ended by a pointer to a randomly chosen earlier
// occurrence of one of its suffixes (octet-exact match, pointer chains up to
// MaxHops, targets may lie inside RDATA names of NS/CNAME/PTR/MX/SOA/SRV).
func Encode(m *Msg, r *gen.R, pCompress float64) ([]byte, *Layout) {
	e := &enc{r: r, pComp: pCompress, lay: &Layout{}}
	if r != nil {
		e.anchors = map[string][]anchor{}
	}
	e.w = make([]byte, 12, m.WireLen())
	binary.BigEndian.PutUint16(e.w[0:], m.ID)
	binary.BigEndian.PutUint16(e.w[2:], m.Bits)
	binary.BigEndian.PutUint16(e.w[4:], uint16(len(m.Questions)))
	binary.BigEndian.PutUint16(e.w[6:], uint16(len(m.Answers)))
	binary.BigEndian.PutUint16(e.w[8:], uint16(len(m.Authorities)))
	binary.BigEndian.PutUint16(e.w[10:], uint16(len(m.Additionals)))
	for i := range m.Questions {
		q := &m.Questions[i]
		e.name(q.Name, false, 0, i, 1)
		e.u16(q.Type)
		e.u16(q.Class)
		e.lay.QEnds = append(e.lay.QEnds, len(e.w))
	}
	for s, sec := range m.Sections() {
		for i := range sec {
			rr := &sec[i]
			loc := RRLoc{Section: s + 1, Start: len(e.w)}
			e.name(rr.Name, false, s+1, i, 1)
			loc.TypeOff = len(e.w)
			e.u16(rr.Type)
			e.u16(rr.Class)
			e.w = binary.BigEndian.AppendUint32(e.w, rr.TTL)
			loc.RdlenOff = len(e.w)
			e.u16(0)
			loc.RdataOff = len(e.w)
			for _, p := range rr.Data {
				if p.IsName {
					scale := 1.0
					if rr.Type == TypeSRV {
						scale = 0.3 // RFC 2782 targets are rarely compressed; x/net rejects them
					}
					e.name(p.Name, true, s+1, i, scale)
				} else {
					e.w = append(e.w, p.Raw...)
				}
			}
			loc.End = len(e.w)
			binary.BigEndian.PutUint16(e.w[loc.RdlenOff:], uint16(loc.End-loc.RdataOff))
			e.lay.RRs = append(e.lay.RRs, loc)
		}
	}
	return e.w, e.lay
}

func (e *enc) u16(v uint16) { e.w = binary.BigEndian.AppendUint16(e.w, v) }

func (e *enc) addAnchor(key string, a anchor) {
	if e.anchors == nil || a.off > 0x3FFF {
		return
	}
	e.anchors[key] = append(e.anchors[key], a)
}

func (e *enc) name(labels [][]byte, inRData bool, section, index int, pScale float64) {
	start := len(e.w)
	wire := NameWire(labels)
	// suffix k starts at sufOff[k] in wire; suffix len(labels) is the root
	sufOff := make([]int, len(labels)+1)
	o := 0
	for i, l := range labels {
		sufOff[i] = o
		o += 1 + len(l)
	}
	sufOff[len(labels)] = o

	cut := -1
	var target anchor
	if e.anchors != nil && e.r.P(e.pComp*pScale) {
		type cand struct {
			k int
			a []anchor
		}
		var cands []cand
		for k := 0; k <= len(labels); k++ {
			as := e.anchors[string(wire[sufOff[k]:])]
			if len(as) == 0 {
				continue
			}
			if k == len(labels) && !e.r.P(0.15) { // pointer to a root name: legal, rare
				continue
			}
			cands = append(cands, cand{k, as})
		}
		if len(cands) > 0 {
			var c cand
			if e.r.P(0.5) {
				c = cands[0] // longest match, what real encoders do
			} else {
				c = cands[e.r.Intn(len(cands))]
			}
			// prefer deep chains half of the time
			var ok []anchor
			best := -1
			for _, a := range c.a {
				if a.hops+1 <= MaxHops {
					ok = append(ok, a)
					if best < 0 || a.hops > ok[best].hops {
						best = len(ok) - 1
					}
				}
			}
			if len(ok) > 0 {
				cut = c.k
				if e.r.P(0.5) {
					target = ok[best]
				} else {
					target = ok[e.r.Intn(len(ok))]
				}
			}
		}
	}
	n := len(labels)
	hops := 0
	if cut >= 0 {
		n = cut
		hops = target.hops + 1
	}
	for i := 0; i < n; i++ {
		e.addAnchor(string(wire[sufOff[i]:]), anchor{off: len(e.w), hops: hops, inRData: inRData})
		e.lay.Labels = append(e.lay.Labels, len(e.w))
		e.w = append(e.w, byte(len(labels[i])))
		e.w = append(e.w, labels[i]...)
	}
	if cut >= 0 {
		e.addAnchor(string(wire[sufOff[cut]:]), anchor{off: len(e.w), hops: hops, inRData: inRData})
		e.lay.Ptrs = append(e.lay.Ptrs, len(e.w))
		e.w = append(e.w, 0xC0|byte(target.off>>8), byte(target.off))
		e.lay.Pointers++
		if hops > e.lay.MaxChain {
			e.lay.MaxChain = hops
		}
		if target.inRData {
			e.lay.RDataPtrs++
		}
	} else {
		e.addAnchor("", anchor{off: len(e.w), hops: 0, inRData: inRData})
		e.w = append(e.w, 0)
	}
	e.lay.Names = append(e.lay.Names, NameLoc{Off: start, End: len(e.w), InRData: inRData, Section: section, Index: index})
}
