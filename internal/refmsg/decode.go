package refmsg

import (
	"encoding/binary"
	"errors"
	"fmt"
)

// decoder hop limit (the reference encoder builds at most MaxHops)
const decodeMaxHops = 32

var errShort = errors.New("short data")

// readName decodes the name at off. Pointers must point strictly backwards
// (to an offset before the pointer itself). Returns the labels (copied) and
// the offset after the in-place encoding.
func readName(w []byte, off int) ([][]byte, int, error) {
	var labels [][]byte
	var buf []byte // one backing array per name
	p := off
	next := -1
	hops := 0
	total := 1
	for {
		if p >= len(w) {
			return nil, 0, fmt.Errorf("name at %d: %w", off, errShort)
		}
		c := int(w[p])
		switch c & 0xC0 {
		case 0x00:
			if c == 0 {
				if next < 0 {
					next = p + 1
				}
				return labels, next, nil
			}
			if p+1+c > len(w) {
				return nil, 0, fmt.Errorf("name at %d: label overruns message: %w", off, errShort)
			}
			total += 1 + c
			if total > 255 {
				return nil, 0, fmt.Errorf("name at %d: longer than 255 octets", off)
			}
			if buf == nil {
				buf = make([]byte, 0, 64)
			}
			if len(buf)+c > cap(buf) {
				buf = make([]byte, 0, 256)
			}
			buf = append(buf, w[p+1:p+1+c]...)
			labels = append(labels, buf[len(buf)-c:len(buf):len(buf)])
			p += 1 + c
		case 0xC0:
			if p+1 >= len(w) {
				return nil, 0, fmt.Errorf("name at %d: truncated pointer: %w", off, errShort)
			}
			t := (c&0x3F)<<8 | int(w[p+1])
			if t >= p {
				return nil, 0, fmt.Errorf("name at %d: pointer at %d does not point backwards (%d)", off, p, t)
			}
			if next < 0 {
				next = p + 2
			}
			hops++
			if hops > decodeMaxHops {
				return nil, 0, fmt.Errorf("name at %d: more than %d pointer hops", off, decodeMaxHops)
			}
			p = t
		default:
			return nil, 0, fmt.Errorf("name at %d: reserved label type %#x at %d", off, c, p)
		}
	}
}

func readRData(w []byte, off, end int, typ uint16) ([]Part, error) {
	// sub-slice w[:end] so that a name cannot run past RDATA
	ww := w[:end]
	switch typ {
	case TypeNS, TypeCNAME, TypePTR:
		n, o, err := readName(ww, off)
		if err != nil {
			return nil, err
		}
		if o != end {
			return nil, fmt.Errorf("rdata of type %d: name ends at %d, rdata at %d", typ, o, end)
		}
		return []Part{{IsName: true, Name: n}}, nil
	case TypeMX:
		if end-off < 2 {
			return nil, fmt.Errorf("MX rdata: %w", errShort)
		}
		n, o, err := readName(ww, off+2)
		if err != nil {
			return nil, err
		}
		if o != end {
			return nil, fmt.Errorf("MX rdata: name ends at %d, rdata at %d", o, end)
		}
		return []Part{{Raw: append([]byte{}, w[off:off+2]...)}, {IsName: true, Name: n}}, nil
	case TypeSRV:
		if end-off < 6 {
			return nil, fmt.Errorf("SRV rdata: %w", errShort)
		}
		n, o, err := readName(ww, off+6)
		if err != nil {
			return nil, err
		}
		if o != end {
			return nil, fmt.Errorf("SRV rdata: name ends at %d, rdata at %d", o, end)
		}
		return []Part{{Raw: append([]byte{}, w[off:off+6]...)}, {IsName: true, Name: n}}, nil
	case TypeSOA:
		n1, o, err := readName(ww, off)
		if err != nil {
			return nil, err
		}
		n2, o, err := readName(ww, o)
		if err != nil {
			return nil, err
		}
		if end-o != 20 {
			return nil, fmt.Errorf("SOA rdata: %d octets after the names, want 20", end-o)
		}
		return []Part{{IsName: true, Name: n1}, {IsName: true, Name: n2}, {Raw: append([]byte{}, w[o:end]...)}}, nil
	}
	return []Part{{Raw: append([]byte{}, w[off:end]...)}}, nil
}

// Counts holds the four header counts as written in the wire header.
type Counts [4]int

// Decode is the strict reference decoder: every count must be satisfied and
// no octet may follow the last record.
func Decode(w []byte) (*Msg, error) {
	m, _, err := decode(w, false)
	return m, err
}

// DecodeLenient decodes as many questions/records as are present: when the
// data ends exactly at an element boundary before the header counts are
// satisfied it stops without error. The header counts are returned.
// Any other malformation is still an error.
func DecodeLenient(w []byte) (*Msg, Counts, error) {
	return decode(w, true)
}

func decode(w []byte, lenient bool) (*Msg, Counts, error) {
	var cnt Counts
	if len(w) < 12 {
		return nil, cnt, fmt.Errorf("header: %w", errShort)
	}
	m := &Msg{ID: binary.BigEndian.Uint16(w), Bits: binary.BigEndian.Uint16(w[2:])}
	for i := 0; i < 4; i++ {
		cnt[i] = int(binary.BigEndian.Uint16(w[4+2*i:]))
	}
	off := 12
	for i := 0; i < cnt[0]; i++ {
		if lenient && off == len(w) {
			return m, cnt, nil
		}
		n, o, err := readName(w, off)
		if err != nil {
			return nil, cnt, fmt.Errorf("question %d: %w", i, err)
		}
		if o+4 > len(w) {
			return nil, cnt, fmt.Errorf("question %d: %w", i, errShort)
		}
		m.Questions = append(m.Questions, Question{Name: n, Type: binary.BigEndian.Uint16(w[o:]), Class: binary.BigEndian.Uint16(w[o+2:])})
		off = o + 4
	}
	secs := [3]*[]RR{&m.Answers, &m.Authorities, &m.Additionals}
	for s := 0; s < 3; s++ {
		for i := 0; i < cnt[s+1]; i++ {
			if lenient && off == len(w) {
				return m, cnt, nil
			}
			n, o, err := readName(w, off)
			if err != nil {
				return nil, cnt, fmt.Errorf("%s[%d]: %w", SectionNames[s], i, err)
			}
			if o+10 > len(w) {
				return nil, cnt, fmt.Errorf("%s[%d]: fixed part: %w", SectionNames[s], i, errShort)
			}
			rr := RR{Name: n, Type: binary.BigEndian.Uint16(w[o:]), Class: binary.BigEndian.Uint16(w[o+2:]), TTL: binary.BigEndian.Uint32(w[o+4:])}
			rdlen := int(binary.BigEndian.Uint16(w[o+8:]))
			o += 10
			if o+rdlen > len(w) {
				return nil, cnt, fmt.Errorf("%s[%d]: rdata (%d octets): %w", SectionNames[s], i, rdlen, errShort)
			}
			rr.Data, err = readRData(w, o, o+rdlen, rr.Type)
			if err != nil {
				return nil, cnt, fmt.Errorf("%s[%d]: %w", SectionNames[s], i, err)
			}
			*secs[s] = append(*secs[s], rr)
			off = o + rdlen
		}
	}
	if off != len(w) {
		return nil, cnt, fmt.Errorf("%d octets after the last record", len(w)-off)
	}
	return m, cnt, nil
}
