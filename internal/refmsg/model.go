// Package refmsg is a plain-struct DNS message model that is independent of
// mosproxy's code: reference wire encoder (optionally with randomly chosen
// legal compression pointers), strict reference decoder, message generator,
// hostile-input mutators and a field-by-field diff.
package refmsg

import (
	"bytes"
	"encoding/hex"
	"fmt"
	"strings"
)

const (
	TypeA     = 1
	TypeNS    = 2
	TypeCNAME = 5
	TypeSOA   = 6
	TypePTR   = 12
	TypeMX    = 15
	TypeTXT   = 16
	TypeAAAA  = 28
	TypeSRV   = 33
	TypeOPT   = 41

	ClassIN   = 1
	ClassCH   = 3
	ClassNONE = 254
	ClassANY  = 255
)

// header bits
const (
	BitQR = 1 << 15
	BitAA = 1 << 10
	BitTC = 1 << 9
	BitRD = 1 << 8
	BitRA = 1 << 7
	BitZ  = 1 << 6
	BitAD = 1 << 5
	BitCD = 1 << 4
)

// Question: Name is a list of labels (root = no labels).
type Question struct {
	Name  [][]byte
	Type  uint16
	Class uint16
}

// Part is one piece of RDATA: either a domain name (label list) or raw bytes.
type Part struct {
	IsName bool
	Name   [][]byte
	Raw    []byte
}

// RR is a resource record. Data has a canonical shape per type:
//
//	NS, CNAME, PTR: [name]
//	MX:             [raw(2) name]
//	SOA:            [name name raw(20)]
//	SRV:            [raw(6) name]
//	anything else:  [raw]
type RR struct {
	Name  [][]byte
	Type  uint16
	Class uint16
	TTL   uint32
	Data  []Part
}

type Msg struct {
	ID          uint16
	Bits        uint16 // the raw flags word: QR opcode AA TC RD RA Z AD CD rcode
	Questions   []Question
	Answers     []RR
	Authorities []RR
	Additionals []RR
}

func (m *Msg) Opcode() int { return int(m.Bits>>11) & 0xF }
func (m *Msg) Rcode() int  { return int(m.Bits) & 0xF }
func (m *Msg) TC() bool    { return m.Bits&BitTC != 0 }

func (m *Msg) Sections() [3][]RR { return [3][]RR{m.Answers, m.Authorities, m.Additionals} }

func (m *Msg) NumRecords() int {
	return len(m.Answers) + len(m.Authorities) + len(m.Additionals)
}

var SectionNames = [3]string{"answers", "authorities", "additionals"}

// HasNameData reports whether mosproxy-independent DNS says RDATA of this
// type carries compressible names that this model keeps as label lists.
func HasNameData(typ uint16) bool {
	switch typ {
	case TypeNS, TypeCNAME, TypePTR, TypeMX, TypeSOA, TypeSRV:
		return true
	}
	return false
}

// NameWireLen is the uncompressed wire length including the terminating zero octet.
func NameWireLen(labels [][]byte) int {
	n := 1
	for _, l := range labels {
		n += 1 + len(l)
	}
	return n
}

// NameWire returns the uncompressed wire form without the terminating zero octet.
func NameWire(labels [][]byte) []byte {
	w := make([]byte, 0, NameWireLen(labels))
	for _, l := range labels {
		w = append(w, byte(len(l)))
		w = append(w, l...)
	}
	return w
}

// LabelsOf parses an uncompressed wire name without terminator (mosproxy's Name type).
func LabelsOf(wire []byte) ([][]byte, error) {
	var out [][]byte
	for off := 0; off < len(wire); {
		l := int(wire[off])
		if l == 0 || l > 63 || off+1+l > len(wire) {
			return nil, fmt.Errorf("bad label length %d at %d", l, off)
		}
		out = append(out, append([]byte{}, wire[off+1:off+1+l]...))
		off += 1 + l
	}
	return out, nil
}

func CloneName(n [][]byte) [][]byte {
	out := make([][]byte, len(n))
	for i, l := range n {
		out[i] = append([]byte{}, l...)
	}
	return out
}

func NameEqual(a, b [][]byte) bool {
	if len(a) != len(b) {
		return false
	}
	for i := range a {
		if !bytes.Equal(a[i], b[i]) {
			return false
		}
	}
	return true
}

// NameString is a lossless printable form: labels joined by '.', every octet
// that is not [A-Za-z0-9-_] written as \xHH; root is ".".
func NameString(n [][]byte) string {
	if len(n) == 0 {
		return "."
	}
	var sb strings.Builder
	for i, l := range n {
		if i > 0 {
			sb.WriteByte('.')
		}
		for _, b := range l {
			if ('a' <= b && b <= 'z') || ('A' <= b && b <= 'Z') || ('0' <= b && b <= '9') || b == '-' || b == '_' {
				sb.WriteByte(b)
			} else {
				fmt.Fprintf(&sb, "\\x%02x", b)
			}
		}
	}
	return sb.String()
}

// RDataLen is the uncompressed RDATA length.
func (r *RR) RDataLen() int {
	n := 0
	for _, p := range r.Data {
		if p.IsName {
			n += NameWireLen(p.Name)
		} else {
			n += len(p.Raw)
		}
	}
	return n
}

// WireLen is the uncompressed wire length of the record.
func (r *RR) WireLen() int { return NameWireLen(r.Name) + 10 + r.RDataLen() }

func (q *Question) WireLen() int { return NameWireLen(q.Name) + 4 }

// WireLen is the uncompressed wire length of the message.
func (m *Msg) WireLen() int {
	n := 12
	for i := range m.Questions {
		n += m.Questions[i].WireLen()
	}
	for _, s := range m.Sections() {
		for i := range s {
			n += s[i].WireLen()
		}
	}
	return n
}

func (r *RR) String() string {
	var sb strings.Builder
	fmt.Fprintf(&sb, "{%s type=%d class=%d ttl=%d rdata=[", NameString(r.Name), r.Type, r.Class, r.TTL)
	for i, p := range r.Data {
		if i > 0 {
			sb.WriteByte(' ')
		}
		if p.IsName {
			sb.WriteString("name:" + NameString(p.Name))
		} else if len(p.Raw) > 48 {
			fmt.Fprintf(&sb, "raw(%d):%s...", len(p.Raw), hex.EncodeToString(p.Raw[:48]))
		} else {
			fmt.Fprintf(&sb, "raw(%d):%s", len(p.Raw), hex.EncodeToString(p.Raw))
		}
	}
	sb.WriteString("]}")
	return sb.String()
}

// DiffRR returns "" when the records are equal, else (field, detail).
func DiffRR(a, b *RR) (string, string) {
	if !NameEqual(a.Name, b.Name) {
		return "name", fmt.Sprintf("owner name %s != %s", NameString(a.Name), NameString(b.Name))
	}
	if a.Type != b.Type {
		return "type", fmt.Sprintf("type %d != %d", a.Type, b.Type)
	}
	if a.Class != b.Class {
		return "class", fmt.Sprintf("class %d != %d", a.Class, b.Class)
	}
	if a.TTL != b.TTL {
		return "ttl", fmt.Sprintf("ttl %d != %d", a.TTL, b.TTL)
	}
	if len(a.Data) != len(b.Data) {
		return "rdata", fmt.Sprintf("rdata shape %d parts != %d parts", len(a.Data), len(b.Data))
	}
	for i := range a.Data {
		pa, pb := &a.Data[i], &b.Data[i]
		if pa.IsName != pb.IsName {
			return "rdata", fmt.Sprintf("rdata part %d kind differs", i)
		}
		if pa.IsName {
			if !NameEqual(pa.Name, pb.Name) {
				return "rdata-name", fmt.Sprintf("rdata name (part %d) %s != %s", i, NameString(pa.Name), NameString(pb.Name))
			}
		} else if !bytes.Equal(pa.Raw, pb.Raw) {
			k := 0
			for k < len(pa.Raw) && k < len(pb.Raw) && pa.Raw[k] == pb.Raw[k] {
				k++
			}
			return "rdata-raw", fmt.Sprintf("rdata bytes (part %d) differ at offset %d (lengths %d, %d)", i, k, len(pa.Raw), len(pb.Raw))
		}
	}
	return "", ""
}

func RREqual(a, b *RR) bool {
	f, _ := DiffRR(a, b)
	return f == ""
}

func QuestionEqual(a, b *Question) bool {
	return a.Type == b.Type && a.Class == b.Class && NameEqual(a.Name, b.Name)
}

// Diff compares two messages field by field. It returns ("","") when equal,
// otherwise a stable class of the first difference (e.g. "answers.name") and a
// human-readable description. bitsMask selects the header bits that are compared.
func Diff(a, b *Msg, bitsMask uint16) (string, string) {
	if a.ID != b.ID {
		return "header.id", fmt.Sprintf("id %d != %d", a.ID, b.ID)
	}
	if a.Bits&bitsMask != b.Bits&bitsMask {
		return "header.bits", fmt.Sprintf("flags word %#04x != %#04x (mask %#04x)", a.Bits, b.Bits, bitsMask)
	}
	if len(a.Questions) != len(b.Questions) {
		return "questions.count", fmt.Sprintf("%d questions != %d", len(a.Questions), len(b.Questions))
	}
	for i := range a.Questions {
		qa, qb := &a.Questions[i], &b.Questions[i]
		if !NameEqual(qa.Name, qb.Name) {
			return "questions.name", fmt.Sprintf("question %d name %s != %s", i, NameString(qa.Name), NameString(qb.Name))
		}
		if qa.Type != qb.Type {
			return "questions.type", fmt.Sprintf("question %d type %d != %d", i, qa.Type, qb.Type)
		}
		if qa.Class != qb.Class {
			return "questions.class", fmt.Sprintf("question %d class %d != %d", i, qa.Class, qb.Class)
		}
	}
	sa, sb := a.Sections(), b.Sections()
	for s := 0; s < 3; s++ {
		if len(sa[s]) != len(sb[s]) {
			return SectionNames[s] + ".count", fmt.Sprintf("%d %s != %d", len(sa[s]), SectionNames[s], len(sb[s]))
		}
		for i := range sa[s] {
			if f, d := DiffRR(&sa[s][i], &sb[s][i]); f != "" {
				return SectionNames[s] + "." + f, fmt.Sprintf("%s[%d]: %s", SectionNames[s], i, d)
			}
		}
	}
	return "", ""
}
