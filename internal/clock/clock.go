// Package clock is the single monotonic clock for all recorded events.
package clock

import "time"

var epoch = time.Now()

// Now returns nanoseconds since process start (monotonic).
func Now() int64 { return int64(time.Since(epoch)) }

func Since(t int64) time.Duration { return time.Duration(Now() - t) }
