// Package dnsclient holds raw DNS clients for every listener kind of the
// proxy. They record what was sent and everything that came back, with
// timestamps from the shared clock.
package dnsclient

import (
	"bytes"
	"context"
	"crypto/tls"
	"encoding/base64"
	"encoding/binary"
	"fmt"
	"errors"
	"io"
	"net"
	"net/http"
	"strings"
	"sync"
	"time"

	"github.com/IrineSistiana/mosproxy/verif/internal/clock"
	"github.com/quic-go/quic-go"
	"golang.org/x/net/http2"
)

type Packet struct {
	T    int64 // clock.Now() at receive
	Data []byte
}

// ------------------------------------------------------------------ UDP

type UDPClient struct {
	conn *net.UDPConn
	mu   sync.Mutex
	recv []Packet
	done chan struct{}
}

// DialUDP opens a connected UDP socket bound to localIP (may be "").
func DialUDP(localIP, remote string) (*UDPClient, error) {
	ra, err := net.ResolveUDPAddr("udp", remote)
	if err != nil {
		return nil, err
	}
	var la *net.UDPAddr
	if localIP != "" {
		la = &net.UDPAddr{IP: net.ParseIP(localIP)}
	}
	conn, err := net.DialUDP("udp", la, ra)
	if err != nil {
		return nil, err
	}
	conn.SetReadBuffer(8 << 20)
	c := &UDPClient{conn: conn, done: make(chan struct{})}
	go func() {
		defer close(c.done)
		buf := make([]byte, 65536)
		for {
			n, err := conn.Read(buf)
			if err != nil {
				var ne net.Error
				if errors.As(err, &ne) && !ne.Timeout() && !errors.Is(err, net.ErrClosed) {
					// e.g. ECONNREFUSED from an ICMP error: keep reading
					select {
					case <-time.After(5 * time.Millisecond):
						continue
					}
				}
				return
			}
			p := Packet{T: clock.Now(), Data: append([]byte{}, buf[:n]...)}
			c.mu.Lock()
			c.recv = append(c.recv, p)
			c.mu.Unlock()
		}
	}()
	return c, nil
}

func (c *UDPClient) Send(b []byte) (int64, error) {
	t := clock.Now()
	_, err := c.conn.Write(b)
	return t, err
}

func (c *UDPClient) Received() []Packet {
	c.mu.Lock()
	defer c.mu.Unlock()
	return append([]Packet{}, c.recv...)
}

func (c *UDPClient) LocalAddr() net.Addr { return c.conn.LocalAddr() }

func (c *UDPClient) Close() {
	c.conn.Close()
	<-c.done
}

// ------------------------------------------------------------------ stream (TCP / gnet / DoT)

type StreamClient struct {
	raw  net.Conn
	conn net.Conn
	mu   sync.Mutex
	// everything read so far, parsed strictly into frames
	frames   []Packet
	pending  []byte // bytes after the last complete frame
	readErr  error  // set when the read side ended
	rawBytes int
	done     chan struct{}
}

// DialStream connects (optionally from localIP, optionally with TLS).
func DialStream(localIP, remote string, tlsCfg *tls.Config) (*StreamClient, error) {
	d := net.Dialer{Timeout: 5 * time.Second}
	if localIP != "" {
		d.LocalAddr = &net.TCPAddr{IP: net.ParseIP(localIP)}
	}
	network := "tcp"
	if strings.HasPrefix(remote, "@") { // abstract unix socket
		network = "unix"
		d.LocalAddr = nil
	}
	raw, err := d.Dial(network, remote)
	if err != nil {
		return nil, err
	}
	if tc, ok := raw.(*net.TCPConn); ok {
		tc.SetNoDelay(true)
	}
	var conn net.Conn = raw
	if tlsCfg != nil {
		tc := tls.Client(raw, tlsCfg)
		raw.SetDeadline(time.Now().Add(10 * time.Second))
		if err := tc.Handshake(); err != nil {
			raw.Close()
			return nil, err
		}
		raw.SetDeadline(time.Time{})
		conn = tc
	}
	c := &StreamClient{raw: raw, conn: conn, done: make(chan struct{})}
	go c.readLoop()
	return c, nil
}

func (c *StreamClient) readLoop() {
	defer close(c.done)
	buf := make([]byte, 65536)
	for {
		n, err := c.conn.Read(buf)
		if n > 0 {
			t := clock.Now()
			c.mu.Lock()
			c.rawBytes += n
			c.pending = append(c.pending, buf[:n]...)
			for len(c.pending) >= 2 {
				l := int(binary.BigEndian.Uint16(c.pending))
				if len(c.pending) < 2+l {
					break
				}
				c.frames = append(c.frames, Packet{T: t, Data: append([]byte{}, c.pending[2:2+l]...)})
				c.pending = c.pending[2+l:]
			}
			c.mu.Unlock()
		}
		if err != nil {
			c.mu.Lock()
			c.readErr = err
			c.mu.Unlock()
			return
		}
	}
}

// WriteRaw writes bytes as they are (the caller controls segmentation).
func (c *StreamClient) WriteRaw(b []byte) error {
	_, err := c.conn.Write(b)
	return err
}

// SendFrame writes one length-prefixed message in a single write.
func (c *StreamClient) SendFrame(msg []byte) (int64, error) {
	f := make([]byte, 2+len(msg))
	binary.BigEndian.PutUint16(f, uint16(len(msg)))
	copy(f[2:], msg)
	t := clock.Now()
	_, err := c.conn.Write(f)
	return t, err
}

func (c *StreamClient) Frames() []Packet {
	c.mu.Lock()
	defer c.mu.Unlock()
	return append([]Packet{}, c.frames...)
}

// State returns the read error (nil while the read side is open) and the
// bytes received after the last complete frame.
func (c *StreamClient) State() (readErr error, trailing []byte, rawBytes int) {
	c.mu.Lock()
	defer c.mu.Unlock()
	return c.readErr, append([]byte{}, c.pending...), c.rawBytes
}

// WaitFrames waits until n frames arrived, the read side ended, or the timeout.
func (c *StreamClient) WaitFrames(n int, timeout time.Duration) bool {
	deadline := time.Now().Add(timeout)
	for {
		c.mu.Lock()
		got, ended := len(c.frames), c.readErr != nil
		c.mu.Unlock()
		if got >= n {
			return true
		}
		if ended || time.Now().After(deadline) {
			return false
		}
		time.Sleep(2 * time.Millisecond)
	}
}

func (c *StreamClient) CloseWrite() {
	if tc, ok := c.raw.(*net.TCPConn); ok && c.raw == c.conn {
		tc.CloseWrite()
	}
}

func (c *StreamClient) LocalAddr() net.Addr { return c.raw.LocalAddr() }

func (c *StreamClient) Close() {
	c.conn.Close()
	<-c.done
}

// ------------------------------------------------------------------ DoH

type DoHClient struct {
	hc  *http.Client
	URL string
}

// NewDoH builds a client. mode: "h1" (plain or TLS http/1.1) or "h2" (TLS, HTTP/2).
func NewDoH(url string, tlsCfg *tls.Config, mode string, localIP string) *DoHClient {
	d := &net.Dialer{Timeout: 5 * time.Second}
	if localIP != "" {
		d.LocalAddr = &net.TCPAddr{IP: net.ParseIP(localIP)}
	}
	var rt http.RoundTripper
	if mode == "h2" {
		rt = &http2.Transport{
			TLSClientConfig: tlsCfg,
			DialTLSContext: func(ctx context.Context, network, addr string, cfg *tls.Config) (net.Conn, error) {
				td := tls.Dialer{NetDialer: d, Config: cfg}
				return td.DialContext(ctx, network, addr)
			},
		}
	} else {
		rt = &http.Transport{DialContext: d.DialContext, TLSClientConfig: tlsCfg, MaxIdleConnsPerHost: 64, ForceAttemptHTTP2: false,
			TLSNextProto: map[string]func(string, *tls.Conn) http.RoundTripper{}}
	}
	return &DoHClient{hc: &http.Client{Transport: rt, Timeout: 15 * time.Second}, URL: url}
}

type HTTPResult struct {
	Status int
	Body   []byte
	CT     string
	TSend  int64
	TRecv  int64
	Err    error
}

// Do sends one DoH request. method GET puts the message into ?dns=, POST into the body.
func (c *DoHClient) Do(method string, wire []byte, hdr map[string]string) HTTPResult {
	var req *http.Request
	var err error
	if method == http.MethodGet {
		req, err = http.NewRequest(method, c.URL+"?dns="+base64.RawURLEncoding.EncodeToString(wire), nil)
		if err == nil {
			req.Header.Set("Accept", "application/dns-message")
		}
	} else {
		if method == "POST-CHUNKED" { // no Content-Length: the body travels with Transfer-Encoding: chunked (HTTP/1.1)
			req, err = http.NewRequest(http.MethodPost, c.URL, io.NopCloser(bytes.NewReader(wire)))
			if err == nil {
				req.ContentLength = -1
			}
		} else {
			req, err = http.NewRequest(method, c.URL, bytes.NewReader(wire))
		}
		if err == nil {
			req.Header.Set("Content-Type", "application/dns-message")
		}
	}
	if err != nil {
		return HTTPResult{Err: err}
	}
	for k, v := range hdr {
		if v == "" {
			req.Header.Del(k)
		} else {
			req.Header.Set(k, v)
		}
	}
	r := HTTPResult{TSend: clock.Now()}
	resp, err := c.hc.Do(req)
	if err != nil {
		r.Err = err
		r.TRecv = clock.Now()
		return r
	}
	defer resp.Body.Close()
	r.Status = resp.StatusCode
	r.CT = resp.Header.Get("Content-Type")
	r.Body, r.Err = io.ReadAll(io.LimitReader(resp.Body, 1<<20))
	r.TRecv = clock.Now()
	return r
}

// DoRaw sends an arbitrary request (hostile inputs).
func (c *DoHClient) DoRaw(req *http.Request) HTTPResult {
	r := HTTPResult{TSend: clock.Now()}
	resp, err := c.hc.Do(req)
	if err != nil {
		r.Err = err
		r.TRecv = clock.Now()
		return r
	}
	defer resp.Body.Close()
	r.Status = resp.StatusCode
	r.Body, r.Err = io.ReadAll(io.LimitReader(resp.Body, 1<<20))
	r.TRecv = clock.Now()
	return r
}

func (c *DoHClient) Close() { c.hc.CloseIdleConnections() }

// ------------------------------------------------------------------ DoQ

type DoQClient struct {
	tr   *quic.Transport
	conn quic.Connection
	// LateFin: Exchange closes the sending side of its stream only after it has read the response.
	LateFin bool
}

func DialDoQ(localIP, remote string, tlsCfg *tls.Config) (*DoQClient, error) {
	ra, err := net.ResolveUDPAddr("udp", remote)
	if err != nil {
		return nil, err
	}
	la := &net.UDPAddr{}
	if localIP != "" {
		la.IP = net.ParseIP(localIP)
	}
	uc, err := net.ListenUDP("udp", la)
	if err != nil {
		return nil, err
	}
	cfg := tlsCfg.Clone()
	cfg.NextProtos = []string{"doq"}
	tr := &quic.Transport{Conn: uc}
	ctx, cancel := context.WithTimeout(context.Background(), 8*time.Second)
	defer cancel()
	conn, err := tr.Dial(ctx, ra, cfg, &quic.Config{MaxIdleTimeout: 60 * time.Second})
	if err != nil {
		tr.Close()
		uc.Close()
		return nil, err
	}
	return &DoQClient{tr: tr, conn: conn}, nil
}

type DoQResult struct {
	Frames   []Packet // complete frames read from the stream until EOF / timeout
	Trailing []byte
	TSend    int64
	Err      error // stream error other than EOF
	EOF      bool
}

// Exchange opens a stream, writes raw (already framed or hostile bytes), sends FIN and reads until EOF or timeout.
func (c *DoQClient) Exchange(raw []byte, timeout time.Duration) DoQResult {
	var r DoQResult
	octx, ocancel := context.WithTimeout(context.Background(), timeout) // a peer that grants no further stream must not hang the caller
	st, err := c.conn.OpenStreamSync(octx)
	ocancel()
	if err != nil {
		r.Err = fmt.Errorf("open stream: %w", err)
		return r
	}
	r.TSend = clock.Now()
	if _, err := st.Write(raw); err != nil {
		r.Err = err
		return r
	}
	if c.LateFin {
		// keep the sending side of the stream open until the response has been read (a client whose
		// STREAM FIN travels separately, late, or only once it has what it came for)
		defer st.Close()
	} else {
		st.Close()
	}
	st.SetReadDeadline(time.Now().Add(timeout))
	var pending []byte
	buf := make([]byte, 65536)
	for {
		n, err := st.Read(buf)
		if n > 0 {
			t := clock.Now()
			pending = append(pending, buf[:n]...)
			for len(pending) >= 2 {
				l := int(binary.BigEndian.Uint16(pending))
				if len(pending) < 2+l {
					break
				}
				r.Frames = append(r.Frames, Packet{T: t, Data: append([]byte{}, pending[2:2+l]...)})
				pending = pending[2+l:]
			}
		}
		if err != nil {
			if err == io.EOF {
				r.EOF = true
			} else {
				r.Err = err
			}
			break
		}
	}
	r.Trailing = pending
	st.CancelRead(0)
	return r
}

// Frame prefixes a message with its length.
func Frame(msg []byte) []byte {
	f := make([]byte, 2+len(msg))
	binary.BigEndian.PutUint16(f, uint16(len(msg)))
	copy(f[2:], msg)
	return f
}

func (c *DoQClient) Alive() bool {
	select {
	case <-c.conn.Context().Done():
		return false
	default:
		return true
	}
}

func (c *DoQClient) Close() {
	c.conn.CloseWithError(0, "")
	c.tr.Close()
}
