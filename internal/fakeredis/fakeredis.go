// Package fakeredis is a minimal in-process RESP3 server: just enough of HELLO / CLIENT / PING /
// GET / SET [NX] [PX ms] for the rueidis client mosproxy uses for its second-level cache.
// Values expire by the server's own clock, like in redis.
package fakeredis

import (
	"bufio"
	"fmt"
	"io"
	"net"
	"strconv"
	"strings"
	"sync"
	"sync/atomic"
	"time"
)

type val struct {
	v      string
	expire time.Time
}

type Server struct {
	l    net.Listener
	mu   sync.Mutex
	data map[string]val
	conn map[net.Conn]struct{}

	Gets, Hits, Sets, SetsRefusedNX atomic.Int64
	SetDelayMs                      atomic.Int64 // every SET is answered this many milliseconds late (a busy redis)
}

func Start() (*Server, error) {
	l, err := net.Listen("tcp4", "127.0.0.1:0")
	if err != nil {
		return nil, err
	}
	s := &Server{l: l, data: map[string]val{}, conn: map[net.Conn]struct{}{}}
	go s.serve()
	return s, nil
}

func (s *Server) Addr() string { return s.l.Addr().String() }

func (s *Server) Close() {
	s.l.Close()
	s.mu.Lock()
	for c := range s.conn {
		c.Close()
	}
	s.mu.Unlock()
}

// Keys returns the number of live keys.
func (s *Server) Keys() int {
	s.mu.Lock()
	defer s.mu.Unlock()
	n := 0
	now := time.Now()
	for _, v := range s.data {
		if now.Before(v.expire) {
			n++
		}
	}
	return n
}

func (s *Server) serve() {
	for {
		c, err := s.l.Accept()
		if err != nil {
			return
		}
		s.mu.Lock()
		s.conn[c] = struct{}{}
		s.mu.Unlock()
		go s.handle(c)
	}
}

func readCmd(r *bufio.Reader) ([]string, error) {
	line, err := r.ReadString('\n')
	if err != nil {
		return nil, err
	}
	line = strings.TrimRight(line, "\r\n")
	if len(line) == 0 || line[0] != '*' {
		return nil, fmt.Errorf("unexpected line %q", line)
	}
	n, err := strconv.Atoi(line[1:])
	if err != nil || n < 1 || n > 64 {
		return nil, fmt.Errorf("bad array header %q", line)
	}
	args := make([]string, 0, n)
	for i := 0; i < n; i++ {
		line, err := r.ReadString('\n')
		if err != nil {
			return nil, err
		}
		line = strings.TrimRight(line, "\r\n")
		if len(line) == 0 || line[0] != '$' {
			return nil, fmt.Errorf("unexpected line %q", line)
		}
		l, err := strconv.Atoi(line[1:])
		if err != nil || l < 0 || l > 1<<24 {
			return nil, fmt.Errorf("bad bulk header %q", line)
		}
		b := make([]byte, l+2)
		if _, err := io.ReadFull(r, b); err != nil {
			return nil, err
		}
		args = append(args, string(b[:l]))
	}
	return args, nil
}

func (s *Server) handle(c net.Conn) {
	defer func() {
		c.Close()
		s.mu.Lock()
		delete(s.conn, c)
		s.mu.Unlock()
	}()
	r := bufio.NewReader(c)
	w := bufio.NewWriter(c)
	for {
		args, err := readCmd(r)
		if err != nil {
			return
		}
		switch strings.ToUpper(args[0]) {
		case "HELLO":
			w.WriteString("%3\r\n$6\r\nserver\r\n$5\r\nredis\r\n$7\r\nversion\r\n$5\r\n7.0.0\r\n$5\r\nproto\r\n:3\r\n")
		case "CLIENT":
			w.WriteString("+OK\r\n")
		case "CLUSTER":
			w.WriteString("-ERR This instance has cluster support disabled\r\n")
		case "PING":
			w.WriteString("+PONG\r\n")
		case "GET":
			if len(args) < 2 {
				w.WriteString("-ERR wrong number of arguments\r\n")
				break
			}
			s.Gets.Add(1)
			s.mu.Lock()
			v, ok := s.data[args[1]]
			if ok && !time.Now().Before(v.expire) {
				delete(s.data, args[1])
				ok = false
			}
			s.mu.Unlock()
			if ok {
				s.Hits.Add(1)
				fmt.Fprintf(w, "$%d\r\n%s\r\n", len(v.v), v.v)
			} else {
				w.WriteString("_\r\n")
			}
		case "SET":
			if len(args) < 3 {
				w.WriteString("-ERR wrong number of arguments\r\n")
				break
			}
			nx := false
			px := int64(0)
			for i := 3; i < len(args); i++ {
				switch strings.ToUpper(args[i]) {
				case "NX":
					nx = true
				case "PX":
					if i+1 < len(args) {
						px, _ = strconv.ParseInt(args[i+1], 10, 64)
						i++
					}
				case "EX":
					if i+1 < len(args) {
						sec, _ := strconv.ParseInt(args[i+1], 10, 64)
						px = sec * 1000
						i++
					}
				}
			}
			if d := s.SetDelayMs.Load(); d > 0 {
				time.Sleep(time.Duration(d) * time.Millisecond)
			}
			s.mu.Lock()
			old, exists := s.data[args[1]]
			if exists && !time.Now().Before(old.expire) {
				exists = false
			}
			if nx && exists {
				s.mu.Unlock()
				s.SetsRefusedNX.Add(1)
				w.WriteString("_\r\n")
			} else {
				exp := time.Now().Add(time.Duration(px) * time.Millisecond)
				if px <= 0 {
					exp = time.Now().Add(24 * time.Hour)
				}
				s.data[args[1]] = val{v: args[2], expire: exp}
				s.mu.Unlock()
				s.Sets.Add(1)
				w.WriteString("+OK\r\n")
			}
		default:
			w.WriteString("-ERR unknown command\r\n")
		}
		if err := w.Flush(); err != nil {
			return
		}
	}
}
