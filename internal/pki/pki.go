// Package pki generates throw-away CAs and leaf certificates for the harness.
package pki

import (
	"crypto/ecdsa"
	"crypto/elliptic"
	"crypto/rand"
	"crypto/tls"
	"crypto/x509"
	"crypto/x509/pkix"
	"encoding/pem"
	"math/big"
	"net"
	"os"
	"time"
)

type CA struct {
	Cert    *x509.Certificate
	Key     *ecdsa.PrivateKey
	CertPEM []byte
}

func serial() *big.Int {
	n, _ := rand.Int(rand.Reader, new(big.Int).Lsh(big.NewInt(1), 100))
	return n
}

func NewCA(cn string) (*CA, error) {
	key, err := ecdsa.GenerateKey(elliptic.P256(), rand.Reader)
	if err != nil {
		return nil, err
	}
	tpl := &x509.Certificate{
		SerialNumber:          serial(),
		Subject:               pkix.Name{CommonName: cn},
		NotBefore:             time.Now().Add(-time.Hour),
		NotAfter:              time.Now().AddDate(5, 0, 0),
		KeyUsage:              x509.KeyUsageCertSign | x509.KeyUsageDigitalSignature,
		BasicConstraintsValid: true,
		IsCA:                  true,
	}
	der, err := x509.CreateCertificate(rand.Reader, tpl, tpl, &key.PublicKey, key)
	if err != nil {
		return nil, err
	}
	cert, _ := x509.ParseCertificate(der)
	return &CA{Cert: cert, Key: key, CertPEM: pem.EncodeToMemory(&pem.Block{Type: "CERTIFICATE", Bytes: der})}, nil
}

func (ca *CA) Pool() *x509.CertPool {
	p := x509.NewCertPool()
	p.AddCert(ca.Cert)
	return p
}

type LeafOpt struct {
	Names      []string // DNS names or IP literals
	Client     bool     // client-auth usage instead of server-auth
	Expired    bool
	SelfSigned bool // ignore the CA, sign with own key
}

type Leaf struct {
	TLS     tls.Certificate
	CertPEM []byte
	KeyPEM  []byte
}

func (ca *CA) Leaf(o LeafOpt) (*Leaf, error) {
	key, err := ecdsa.GenerateKey(elliptic.P256(), rand.Reader)
	if err != nil {
		return nil, err
	}
	tpl := &x509.Certificate{
		SerialNumber:          serial(),
		Subject:               pkix.Name{CommonName: "leaf"},
		NotBefore:             time.Now().Add(-time.Hour),
		NotAfter:              time.Now().AddDate(1, 0, 0),
		KeyUsage:              x509.KeyUsageDigitalSignature | x509.KeyUsageKeyEncipherment,
		BasicConstraintsValid: true,
	}
	if o.Expired {
		tpl.NotBefore = time.Now().AddDate(-2, 0, 0)
		tpl.NotAfter = time.Now().AddDate(-1, 0, 0)
	}
	if o.Client {
		tpl.ExtKeyUsage = []x509.ExtKeyUsage{x509.ExtKeyUsageClientAuth}
	} else {
		tpl.ExtKeyUsage = []x509.ExtKeyUsage{x509.ExtKeyUsageServerAuth}
	}
	for _, n := range o.Names {
		if ip := net.ParseIP(n); ip != nil {
			tpl.IPAddresses = append(tpl.IPAddresses, ip)
		} else {
			tpl.DNSNames = append(tpl.DNSNames, n)
		}
	}
	parent, signer := ca.Cert, ca.Key
	if o.SelfSigned {
		parent, signer = tpl, key
	}
	der, err := x509.CreateCertificate(rand.Reader, tpl, parent, &key.PublicKey, signer)
	if err != nil {
		return nil, err
	}
	kb, err := x509.MarshalPKCS8PrivateKey(key)
	if err != nil {
		return nil, err
	}
	certPEM := pem.EncodeToMemory(&pem.Block{Type: "CERTIFICATE", Bytes: der})
	keyPEM := pem.EncodeToMemory(&pem.Block{Type: "PRIVATE KEY", Bytes: kb})
	tc, err := tls.X509KeyPair(certPEM, keyPEM)
	if err != nil {
		return nil, err
	}
	return &Leaf{TLS: tc, CertPEM: certPEM, KeyPEM: keyPEM}, nil
}

// WriteFiles writes cert and key PEM files and returns their paths.
func (l *Leaf) WriteFiles(prefix string) (certPath, keyPath string, err error) {
	certPath, keyPath = prefix+".crt", prefix+".key"
	if err = os.WriteFile(certPath, l.CertPEM, 0600); err != nil {
		return
	}
	err = os.WriteFile(keyPath, l.KeyPEM, 0600)
	return
}

func (ca *CA) WriteFile(path string) error { return os.WriteFile(path, ca.CertPEM, 0600) }
