// Package ev writes /verif/evidence/<ID>.json (schema: EVIDENCE.schema.json).
package ev

import (
	"crypto/sha256"
	"encoding/json"
	"os"
	"path/filepath"
	"sort"
	"sync"
	"time"
)

type E struct {
	mu          sync.Mutex
	ID          string
	Tier        string
	Seed        int64
	Level       string
	Rule        string
	start       time.Time
	evaluations int64
	distinct    map[[16]byte]struct{}
	samples     []any
	maxSamples  int
	counters    map[string]int64
	extra       map[string]any
	Assumptions []string
	violations  int
}

func New(id, tier string, seed int64, level string) *E {
	return &E{ID: id, Tier: tier, Seed: seed, Level: level, start: time.Now(),
		distinct: map[[16]byte]struct{}{}, counters: map[string]int64{}, extra: map[string]any{}, maxSamples: 8}
}

// Eval counts one evaluated case.
func (e *E) Eval(n int) {
	e.mu.Lock()
	e.evaluations += int64(n)
	e.mu.Unlock()
}

// Distinct registers a non-trivial case by a canonical description (hashed).
func (e *E) Distinct(canon ...any) {
	b, _ := json.Marshal(canon)
	h := sha256.Sum256(b)
	var k [16]byte
	copy(k[:], h[:])
	e.mu.Lock()
	e.distinct[k] = struct{}{}
	e.mu.Unlock()
}

func (e *E) DistinctBytes(b []byte) {
	h := sha256.Sum256(b)
	var k [16]byte
	copy(k[:], h[:])
	e.mu.Lock()
	e.distinct[k] = struct{}{}
	e.mu.Unlock()
}

func (e *E) DistinctCount() int {
	e.mu.Lock()
	defer e.mu.Unlock()
	return len(e.distinct)
}

// Sample keeps up to maxSamples written-out cases.
func (e *E) Sample(v any) {
	e.mu.Lock()
	if len(e.samples) < e.maxSamples {
		e.samples = append(e.samples, v)
	}
	e.mu.Unlock()
}

func (e *E) Count(key string, n int64) {
	e.mu.Lock()
	e.counters[key] += n
	e.mu.Unlock()
}

func (e *E) Counter(key string) int64 {
	e.mu.Lock()
	defer e.mu.Unlock()
	return e.counters[key]
}

func (e *E) Set(key string, v any) {
	e.mu.Lock()
	e.extra[key] = v
	e.mu.Unlock()
}

func (e *E) Assume(s string) {
	e.mu.Lock()
	e.Assumptions = append(e.Assumptions, s)
	e.mu.Unlock()
}

func (e *E) AddViolations(n int) {
	e.mu.Lock()
	e.violations += n
	e.mu.Unlock()
}

func (e *E) Evaluations() int64 {
	e.mu.Lock()
	defer e.mu.Unlock()
	return e.evaluations
}

func (e *E) Write(dir string) error {
	e.mu.Lock()
	defer e.mu.Unlock()
	cov := map[string]any{}
	for k, v := range e.extra {
		cov[k] = v
	}
	keys := make([]string, 0, len(e.counters))
	for k := range e.counters {
		keys = append(keys, k)
	}
	sort.Strings(keys)
	cs := map[string]int64{}
	for _, k := range keys {
		cs[k] = e.counters[k]
	}
	cov["counters"] = cs
	cov["evaluations"] = e.evaluations
	cov["distinct_nontrivial"] = len(e.distinct)
	cov["rule"] = e.Rule
	if e.samples == nil {
		e.samples = []any{}
	}
	cov["samples"] = e.samples
	out := map[string]any{
		"property_id": e.ID,
		"tier":        e.Tier,
		"seed":        e.Seed,
		"level":       e.Level,
		"coverage":    cov,
		"assumptions": append([]string{}, e.Assumptions...),
		"wall_s":      time.Since(e.start).Seconds(),
		"violations":  e.violations,
	}
	b, err := json.MarshalIndent(out, "", " ")
	if err != nil {
		return err
	}
	os.MkdirAll(dir, 0755)
	tmp := filepath.Join(dir, e.ID+".json.tmp")
	if err := os.WriteFile(tmp, b, 0644); err != nil {
		return err
	}
	return os.Rename(tmp, filepath.Join(dir, e.ID+".json"))
}
