package scripted

import (
	"bufio"
	"context"
	"io"
	"log"
	"net"
	"sync"
	"time"

	"github.com/quic-go/quic-go"
)

func quietLogger() *log.Logger { return log.New(io.Discard, "", 0) }

// DoQ is a scripted DNS-over-QUIC server on a loopback port. Subset of
// Action: Delay, Drop (stream stays open, nothing is sent), ExtraGarbage
// (undecodable frame, then stream FIN), ExtraHalfFrame (prefix 100, 10
// octets, stream stays open), AbortAfter/AbortTail + End, End after a
// complete reply. EndFIN closes the stream, EndRST closes the whole QUIC
// connection with an application error, EndPoison leaves the stream open.
type DoQ struct {
	*Server
	pc   *net.UDPConn
	tr   *quic.Transport
	ln   *quic.Listener
	mu   sync.Mutex
	open map[quic.Connection]*ConnInfo
	done chan struct{}
}

func NewDoQ(script func(q *Query) Action) (*DoQ, error) {
	cfg, err := ServerTLS("doq")
	if err != nil {
		return nil, err
	}
	pc, err := net.ListenUDP("udp4", &net.UDPAddr{IP: net.IPv4(127, 0, 0, 1)})
	if err != nil {
		return nil, err
	}
	tr := &quic.Transport{Conn: pc}
	ln, err := tr.Listen(cfg, &quic.Config{MaxIdleTimeout: 30 * time.Second, MaxIncomingStreams: 1000})
	if err != nil {
		pc.Close()
		return nil, err
	}
	d := &DoQ{Server: NewServer(script), pc: pc, tr: tr, ln: ln, open: map[quic.Connection]*ConnInfo{}, done: make(chan struct{})}
	d.Server.Proto = "quic"
	go d.acceptLoop()
	return d, nil
}

func (d *DoQ) Addr() string { return d.pc.LocalAddr().String() }
func (d *DoQ) URL() string  { return "quic://" + d.Addr() }

func (d *DoQ) Close() {
	select {
	case <-d.done:
		return
	default:
	}
	close(d.done)
	d.ln.Close()
	d.mu.Lock()
	for c := range d.open {
		c.CloseWithError(0, "")
	}
	d.mu.Unlock()
	d.tr.Close()
	d.pc.Close()
}

// Open is the number of QUIC connections currently open.
func (d *DoQ) Open() int {
	d.mu.Lock()
	defer d.mu.Unlock()
	return len(d.open)
}

// FaultAll closes every open QUIC connection: "fin" with application error
// 0 (DOQ_NO_ERROR), "rst" with application error 1. Returns the number closed.
func (d *DoQ) FaultAll(kind string) int {
	d.mu.Lock()
	var cs []quic.Connection
	for c, ci := range d.open {
		cs = append(cs, c)
		_ = ci
	}
	d.mu.Unlock()
	for _, c := range cs {
		code := quic.ApplicationErrorCode(0)
		if kind == "rst" {
			code = 1
		}
		c.CloseWithError(code, kind)
	}
	return len(cs)
}

func (d *DoQ) acceptLoop() {
	for {
		c, err := d.ln.Accept(context.Background())
		if err != nil {
			return
		}
		ci := d.AddConn("quic", c.RemoteAddr().String())
		d.mu.Lock()
		d.open[c] = ci
		d.mu.Unlock()
		go d.serveConn(c, ci)
	}
}

func (d *DoQ) serveConn(c quic.Connection, ci *ConnInfo) {
	defer func() {
		d.mu.Lock()
		delete(d.open, c)
		d.mu.Unlock()
		d.EndConn(ci, "closed")
	}()
	for {
		s, err := c.AcceptStream(context.Background())
		if err != nil {
			return
		}
		go d.serveStream(c, ci, s)
	}
}

func (d *DoQ) serveStream(c quic.Connection, ci *ConnInfo, s quic.Stream) {
	msg, err := DNSTCP{}.ReadMsg(bufio.NewReaderSize(s, 512))
	if err != nil {
		s.CancelRead(1)
		s.CancelWrite(1)
		return
	}
	q, act := d.RecordQuery(ci, msg)
	if q == nil {
		s.CancelRead(1)
		s.CancelWrite(1)
		return
	}
	if act.Delay > 0 {
		time.Sleep(act.Delay)
	}
	end := func(k EndKind) {
		if act.EndDelay > 0 {
			time.Sleep(act.EndDelay)
		}
		switch k {
		case EndFIN:
			s.Close()
		case EndRST:
			c.CloseWithError(1, "scripted reset")
		}
	}
	switch {
	case act.hasExtra(ExtraGarbage):
		s.Write(DNSTCP{}.Garbage())
		s.Close()
		return
	case act.hasExtra(ExtraHalfFrame):
		s.Write(DNSTCP{}.HalfFrame())
		return
	case act.Drop:
		end(act.End)
		return
	}
	body, rep := d.NewReply(q, &act)
	frame := DNSTCP{}.Frame(body)
	if cut := act.cut(len(frame)); cut > 0 {
		n, _ := s.Write(frame[:cut])
		d.DoneReply(rep, n)
		end(act.End)
		return
	}
	n, _ := s.Write(frame)
	d.DoneReply(rep, n)
	s.Close()
	if act.End == EndRST {
		end(EndRST)
	}
}
