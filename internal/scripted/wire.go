// Package scripted provides harness-side DNS servers whose behaviour per
// query is scripted by the check (ordering, delays, duplicates, drops,
// unsolicited replies, malformed frames, FIN/RST, segmentation), together
// with fault-injecting dial helpers. Every query received and every reply
// sent is logged with one monotonic clock; every reply carries a unique
// nonce, so a message returned by the code under test identifies exactly
// which server reply instance it is.
package scripted

import (
	"encoding/binary"
	"strings"
	"sync/atomic"
	"time"
)

var t0 = time.Now()

// Now is the one monotonic clock of all logs (duration since process start).
func Now() time.Duration { return time.Since(t0) }

var nonceCtr atomic.Uint64

func init() { nonceCtr.Store(uint64(time.Now().UnixNano())<<20 | 1<<19) }

// NextNonce returns a process-wide unique, never-zero nonce.
func NextNonce() uint64 { return nonceCtr.Add(1) }

// rdata layout of the AAAA answer every reply carries:
// [0:8] nonce (big endian) [8] leg marker [9] flags [10:16] magic
const rdMagic = "vhrply"

// Leg markers.
const (
	LegNone byte = 0
	LegUDP  byte = 'U'
	LegTCP  byte = 'T'
)

// DecodeRData extracts (nonce, leg) from the 16 RDATA octets of a reply's AAAA record.
func DecodeRData(rd [16]byte) (nonce uint64, leg byte, ok bool) {
	if string(rd[10:16]) != rdMagic {
		return 0, 0, false
	}
	return binary.BigEndian.Uint64(rd[0:8]), rd[8], true
}

// ParseQuery decodes header ID and the first question of a DNS message.
// qend is the offset just after the question. Names are returned in
// presentation form with a trailing dot; octets outside [!-~] minus '.' and
// '\\' are escaped as \DDD.
func ParseQuery(msg []byte) (id uint16, name string, qtype, qclass uint16, qend int, ok bool) {
	if len(msg) < 12 {
		return
	}
	id = binary.BigEndian.Uint16(msg)
	if binary.BigEndian.Uint16(msg[4:]) < 1 {
		return
	}
	off := 12
	var sb strings.Builder
	total := 0
	for {
		if off >= len(msg) {
			return
		}
		l := int(msg[off])
		off++
		if l == 0 {
			break
		}
		if l > 63 || off+l > len(msg) {
			return
		}
		total += l + 1
		if total > 254 {
			return
		}
		for _, b := range msg[off : off+l] {
			if b > ' ' && b < 0x7f && b != '.' && b != '\\' {
				sb.WriteByte(b)
			} else {
				sb.WriteByte('\\')
				sb.WriteByte('0' + b/100)
				sb.WriteByte('0' + b/10%10)
				sb.WriteByte('0' + b%10)
			}
		}
		sb.WriteByte('.')
		off += l
	}
	if off+4 > len(msg) {
		return
	}
	qtype = binary.BigEndian.Uint16(msg[off:])
	qclass = binary.BigEndian.Uint16(msg[off+2:])
	qend = off + 4
	name = sb.String()
	if name == "" {
		name = "."
	}
	ok = true
	return
}

// AppendName appends the wire form of a plain presentation name ("a.b.c.").
func AppendName(b []byte, name string) []byte {
	name = strings.TrimSuffix(name, ".")
	if name != "" {
		for _, l := range strings.Split(name, ".") {
			b = append(b, byte(len(l)))
			b = append(b, l...)
		}
	}
	return append(b, 0)
}

// BuildQuery builds a plain query (RD set, one question).
func BuildQuery(id uint16, name string, qtype, qclass uint16) []byte {
	b := make([]byte, 12, 12+len(name)+6)
	binary.BigEndian.PutUint16(b, id)
	b[2] = 0x01 // RD
	b[5] = 1
	b = AppendName(b, name)
	b = binary.BigEndian.AppendUint16(b, qtype)
	b = binary.BigEndian.AppendUint16(b, qclass)
	return b
}

var unsolQuestion = append(AppendName(nil, "unsolicited.vh."), 0, 1, 0, 1)

// BuildReply builds a response: header (QR RD RA, optional TC), the question
// octets as given (nil => a fixed marker question) and one AAAA answer whose
// owner is a pointer to the question name and whose RDATA carries the nonce.
func BuildReply(id uint16, question []byte, nonce uint64, leg byte, tc bool) []byte {
	if question == nil {
		question = unsolQuestion
	}
	b := make([]byte, 12, 12+len(question)+28)
	binary.BigEndian.PutUint16(b, id)
	b[2] = 0x81
	if tc {
		b[2] |= 0x02
	}
	b[3] = 0x80
	b[5] = 1
	b[7] = 1
	b = append(b, question...)
	b = append(b, 0xC0, 0x0C, 0, 28, 0, 1, 0, 0, 0, 60, 0, 16)
	b = binary.BigEndian.AppendUint64(b, nonce)
	b = append(b, leg, 0)
	b = append(b, rdMagic...)
	return b
}
