package scripted

import (
	"bufio"
	"context"
	"encoding/binary"
	"io"
	"net"
	"testing"
	"time"
)

func readFrame(t *testing.T, br *bufio.Reader) []byte {
	t.Helper()
	var h [2]byte
	if _, err := io.ReadFull(br, h[:]); err != nil {
		t.Fatalf("read prefix: %v", err)
	}
	b := make([]byte, binary.BigEndian.Uint16(h[:]))
	if _, err := io.ReadFull(br, b); err != nil {
		t.Fatalf("read body: %v", err)
	}
	return b
}

func nonceOf(t *testing.T, msg []byte) uint64 {
	t.Helper()
	if len(msg) < 16 {
		t.Fatalf("short reply")
	}
	var rd [16]byte
	copy(rd[:], msg[len(msg)-16:])
	n, _, ok := DecodeRData(rd)
	if !ok {
		t.Fatalf("no nonce in reply")
	}
	return n
}

func TestPipeEchoAndLog(t *testing.T) {
	s := NewServer(nil)
	defer s.Close()
	a, b := net.Pipe()
	s.ServeConn(b)
	go a.Write(DNSTCP{}.Frame(BuildQuery(77, "one.test.", 1, 1)))
	br := bufio.NewReader(a)
	a.SetReadDeadline(time.Now().Add(2 * time.Second))
	rep := readFrame(t, br)
	if binary.BigEndian.Uint16(rep) != 77 {
		t.Fatalf("id %d", binary.BigEndian.Uint16(rep))
	}
	sn := s.Snapshot()
	if len(sn.Queries) != 1 || sn.Queries[0].Name != "one.test." || sn.Queries[0].ID != 77 {
		t.Fatalf("query log %+v", sn.Queries)
	}
	if len(sn.Replies) != 1 || sn.Replies[0].Nonce != nonceOf(t, rep) || sn.Replies[0].Query != 0 {
		t.Fatalf("reply log %+v", sn.Replies)
	}
	a.Close()
}

func TestWindowReversesAndDupHasOwnNonces(t *testing.T) {
	s := NewServer(func(q *Query) Action {
		if q.Name == "dup.test." {
			return Action{Copies: 3}
		}
		return Action{Window: 3, WindowWait: time.Second}
	})
	defer s.Close()
	l, err := net.Listen("tcp4", "127.0.0.1:0")
	if err != nil {
		t.Skip(err)
	}
	s.ServeStream(l)
	c, err := net.Dial("tcp", l.Addr().String())
	if err != nil {
		t.Fatal(err)
	}
	defer c.Close()
	for i := 0; i < 3; i++ {
		c.Write(DNSTCP{}.Frame(BuildQuery(uint16(10+i), "w.test.", 1, 1)))
	}
	br := bufio.NewReader(c)
	c.SetReadDeadline(time.Now().Add(2 * time.Second))
	for i := 0; i < 3; i++ {
		rep := readFrame(t, br)
		if id := binary.BigEndian.Uint16(rep); id != uint16(12-i) {
			t.Fatalf("reply %d has id %d, want %d", i, id, 12-i)
		}
	}
	c.Write(DNSTCP{}.Frame(BuildQuery(99, "dup.test.", 1, 1)))
	seen := map[uint64]bool{}
	for i := 0; i < 3; i++ {
		seen[nonceOf(t, readFrame(t, br))] = true
	}
	if len(seen) != 3 {
		t.Fatalf("duplicates share a nonce: %v", seen)
	}
}

func TestSegmentsAbortAndOutstanding(t *testing.T) {
	s := NewServer(func(q *Query) Action {
		switch q.Name {
		case "seg.test.":
			return Action{Segments: []int{1, 1, 5}, SegPause: 20 * time.Millisecond}
		case "cut.test.":
			return Action{AbortTail: 10, End: EndFIN}
		}
		return Action{}
	})
	defer s.Close()
	l, err := net.Listen("tcp4", "127.0.0.1:0")
	if err != nil {
		t.Skip(err)
	}
	s.ServeStream(l)
	c, err := net.Dial("tcp", l.Addr().String())
	if err != nil {
		t.Fatal(err)
	}
	defer c.Close()
	// two queries back to back: the second one must be seen as arriving while the first is unanswered
	c.Write(append(DNSTCP{}.Frame(BuildQuery(1, "seg.test.", 1, 1)), DNSTCP{}.Frame(BuildQuery(2, "x.test.", 1, 1))...))
	br := bufio.NewReader(c)
	c.SetReadDeadline(time.Now().Add(2 * time.Second))
	readFrame(t, br)
	readFrame(t, br)
	sn := s.Snapshot()
	if sn.Queries[1].OutstandingBefore != 1 || sn.Queries[1].PrevName != "seg.test." {
		t.Fatalf("outstanding not detected: %+v", sn.Queries[1])
	}
	c.Write(DNSTCP{}.Frame(BuildQuery(3, "y.test.", 1, 1)))
	readFrame(t, br)
	if q := s.Snapshot().Queries[2]; q.OutstandingBefore != 0 {
		t.Fatalf("false outstanding: %+v", q)
	}
	c.Write(DNSTCP{}.Frame(BuildQuery(4, "cut.test.", 1, 1)))
	rest, _ := io.ReadAll(br)
	var last Reply
	for _, r := range s.Snapshot().Replies {
		last = r
	}
	if len(rest) != last.Len-10 || last.Written != last.Len-10 {
		t.Fatalf("aborted reply: got %d octets, log %+v", len(rest), last)
	}
}

func TestUDPAndDialer(t *testing.T) {
	u, err := net.ListenUDP("udp4", &net.UDPAddr{IP: net.IPv4(127, 0, 0, 1)})
	if err != nil {
		t.Skip(err)
	}
	s := NewServer(func(q *Query) Action {
		return Action{Before: []Extra{{Kind: ExtraUnsolicited, IDMode: IDNever}, {Kind: ExtraGarbage}}}
	})
	defer s.Close()
	s.ServePacket(u)
	d := &Dialer{Network: "udp", Addr: u.LocalAddr().String(), UniqueLocal: true}
	c, err := d.DialContext(context.Background())
	if err != nil {
		t.Fatal(err)
	}
	c.Write(BuildQuery(5, "u.test.", 1, 1))
	c.SetReadDeadline(time.Now().Add(2 * time.Second))
	buf := make([]byte, 2048)
	kinds := 0
	for i := 0; i < 3; i++ {
		n, err := c.Read(buf)
		if err != nil {
			t.Fatal(err)
		}
		if n > 12 && binary.BigEndian.Uint16(buf) == 5 {
			kinds++
		}
	}
	if kinds != 1 {
		t.Fatalf("want exactly one reply with the query's id, got %d", kinds)
	}
	c.Close()
	c.Close()
	if d.Dials() != 1 || d.Conns()[0].CloseCalls() != 2 {
		t.Fatalf("dialer records: dials %d closes %d", d.Dials(), d.Conns()[0].CloseCalls())
	}
	d.SetMode(DialRefuse)
	if _, err := d.DialContext(context.Background()); err == nil {
		t.Fatal("refuse mode dialled")
	}
	d.SetMode(DialHang)
	ctx, cancel := context.WithTimeout(context.Background(), 50*time.Millisecond)
	defer cancel()
	t0 := time.Now()
	if _, err := d.DialContext(ctx); err == nil || time.Since(t0) < 40*time.Millisecond {
		t.Fatal("hang mode returned early")
	}
	sn := s.Snapshot()
	if len(sn.Replies) != 2 || sn.Replies[0].Query != -1 || sn.Replies[1].Query != 0 {
		t.Fatalf("reply log %+v", sn.Replies)
	}
}

func TestRefuseAndBlackhole(t *testing.T) {
	rp, err := NewRefusePort()
	if err != nil {
		t.Skip(err)
	}
	defer rp.Close()
	if _, err := net.DialTimeout("tcp", rp.Addr(), time.Second); err == nil {
		t.Fatal("refuse port accepted")
	}
	bh, err := NewBlackhole()
	if err != nil {
		t.Skip(err)
	}
	defer bh.Close()
	t0 := time.Now()
	if c, err := net.DialTimeout("tcp", bh.Addr(), 300*time.Millisecond); err == nil {
		c.Close()
		t.Fatal("blackhole completed a connection")
	} else if time.Since(t0) < 250*time.Millisecond {
		t.Fatalf("blackhole failed fast: %v", err)
	}
}
