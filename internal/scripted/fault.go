package scripted

import (
	"context"
	"errors"
	"fmt"
	"net"
	"sync"
	"sync/atomic"
	"syscall"
	"time"
)

// DialMode selects what Dialer.DialContext does.
type DialMode int32

const (
	DialNormal DialMode = iota // connect to Network/Addr
	DialRefuse                 // fail at once with ECONNREFUSED, nothing is sent
	DialHang                   // never completes: block until the dial context is done
)

// Dialer is a recording, fault-injecting DialContext for the transports.
type Dialer struct {
	Network string // "tcp" | "udp"
	Addr    string

	// UniqueLocal re-dials while the local address was already used by an
	// earlier connection of this Dialer (packet servers identify a
	// "connection" by the remote address they see).
	UniqueLocal bool
	// RcvBuf > 0 sets the socket receive buffer (UDP bursts).
	RcvBuf int
	// OnConn, if set, is called with every new connection before it is handed out.
	OnConn func(c *Conn)

	mode  atomic.Int32
	dials atomic.Int64 // DialContext calls
	okN   atomic.Int64 // connections handed out

	mu     sync.Mutex
	conns  []*Conn
	locals map[string]bool
}

func (d *Dialer) SetMode(m DialMode) { d.mode.Store(int32(m)) }

// Dials is the number of DialContext calls so far.
func (d *Dialer) Dials() int { return int(d.dials.Load()) }

// Connected is the number of connections handed out.
func (d *Dialer) Connected() int { return int(d.okN.Load()) }

// Conns returns all connections handed out so far.
func (d *Dialer) Conns() []*Conn {
	d.mu.Lock()
	defer d.mu.Unlock()
	return append([]*Conn{}, d.conns...)
}

// CloseCalls sums Close() calls over all connections; Open counts connections never closed.
func (d *Dialer) CloseStats() (closeCalls, open int) {
	for _, c := range d.Conns() {
		n := int(c.closes.Load())
		closeCalls += n
		if n == 0 {
			open++
		}
	}
	return
}

func (d *Dialer) DialContext(ctx context.Context) (net.Conn, error) {
	d.dials.Add(1)
	switch DialMode(d.mode.Load()) {
	case DialRefuse:
		return nil, &net.OpError{Op: "dial", Net: d.Network, Err: syscall.ECONNREFUSED}
	case DialHang:
		<-ctx.Done()
		return nil, &net.OpError{Op: "dial", Net: d.Network, Err: context.Cause(ctx)}
	}
	var nd net.Dialer
	for try := 0; ; try++ {
		c, err := nd.DialContext(ctx, d.Network, d.Addr)
		if err != nil {
			return nil, err
		}
		local := c.LocalAddr().String()
		d.mu.Lock()
		if d.locals == nil {
			d.locals = map[string]bool{}
		}
		if d.UniqueLocal && d.locals[local] && try < 20 {
			d.mu.Unlock()
			c.Close()
			continue
		}
		d.locals[local] = true
		fc := &Conn{Conn: c, ID: len(d.conns), Local: local, TOpen: Now()}
		d.conns = append(d.conns, fc)
		d.mu.Unlock()
		if d.RcvBuf > 0 {
			if u, ok := c.(*net.UDPConn); ok {
				u.SetReadBuffer(d.RcvBuf)
			}
		}
		if d.OnConn != nil {
			d.OnConn(fc)
		}
		d.okN.Add(1)
		return fc, nil
	}
}

// Conn wraps a net.Conn, records I/O and Close calls and can inject errors.
// Deadlines are passed through, so blocking reads stay interruptible.
type Conn struct {
	net.Conn
	ID    int
	Local string
	TOpen time.Duration
	// OnWrite, if set (by Dialer.OnConn), sees every Write before it is passed on.
	OnWrite func(c *Conn, b []byte)

	closes   atomic.Int64
	tClose   atomic.Int64
	rd, wr   atomic.Int64
	writes   atomic.Int64
	failW    atomic.Int64 // fail every Write once `writes` >= failW (0 = off)
	failR    atomic.Bool
	failWith atomic.Value // error
}

var ErrInjected = errors.New("scripted: injected I/O error")

func (c *Conn) injected() error {
	if e, ok := c.failWith.Load().(error); ok && e != nil {
		return e
	}
	return ErrInjected
}

// FailWritesFrom makes the n-th (1-based) and all later Write calls fail without sending anything.
func (c *Conn) FailWritesFrom(n int) { c.failW.Store(int64(n)) }

// FailReads makes Read fail at once from now on (data already in flight is lost to the reader).
func (c *Conn) FailReads() { c.failR.Store(true) }

func (c *Conn) Read(b []byte) (int, error) {
	if c.failR.Load() {
		return 0, &net.OpError{Op: "read", Net: "tcp", Err: c.injected()}
	}
	n, err := c.Conn.Read(b)
	c.rd.Add(int64(n))
	return n, err
}

func (c *Conn) Write(b []byte) (int, error) {
	k := c.writes.Add(1)
	if c.OnWrite != nil {
		c.OnWrite(c, b)
	}
	if f := c.failW.Load(); f > 0 && k >= f {
		return 0, &net.OpError{Op: "write", Net: "tcp", Err: c.injected()}
	}
	n, err := c.Conn.Write(b)
	c.wr.Add(int64(n))
	return n, err
}

func (c *Conn) Close() error {
	if c.closes.Add(1) == 1 {
		c.tClose.Store(int64(Now()))
	}
	return c.Conn.Close()
}

// CloseCalls is the number of Close() calls made by the code under test.
func (c *Conn) CloseCalls() int { return int(c.closes.Load()) }

// ClosedAt is the time of the first Close call (0 = still open).
func (c *Conn) ClosedAt() time.Duration { return time.Duration(c.tClose.Load()) }

func (c *Conn) BytesRead() int64    { return c.rd.Load() }
func (c *Conn) BytesWritten() int64 { return c.wr.Load() }

// RefusePort reserves a loopback TCP port that refuses connections: a socket
// bound to it but not listening. Close releases the port.
type RefusePort struct {
	fd   int
	Port int
}

func NewRefusePort() (*RefusePort, error) {
	fd, err := syscall.Socket(syscall.AF_INET, syscall.SOCK_STREAM|syscall.SOCK_CLOEXEC, 0)
	if err != nil {
		return nil, err
	}
	if err := syscall.Bind(fd, &syscall.SockaddrInet4{Addr: [4]byte{127, 0, 0, 1}}); err != nil {
		syscall.Close(fd)
		return nil, err
	}
	sa, err := syscall.Getsockname(fd)
	if err != nil {
		syscall.Close(fd)
		return nil, err
	}
	return &RefusePort{fd: fd, Port: sa.(*syscall.SockaddrInet4).Port}, nil
}

func (r *RefusePort) Addr() string { return fmt.Sprintf("127.0.0.1:%d", r.Port) }
func (r *RefusePort) Close()       { syscall.Close(r.fd) }

// Blackhole is a loopback TCP port on which connection attempts never
// complete: listen backlog 0, accept queue filled by the harness, nothing is
// ever accepted, so further SYNs are dropped.
type Blackhole struct {
	fd     int
	Port   int
	filler []net.Conn
}

func NewBlackhole() (*Blackhole, error) {
	fd, err := syscall.Socket(syscall.AF_INET, syscall.SOCK_STREAM|syscall.SOCK_CLOEXEC, 0)
	if err != nil {
		return nil, err
	}
	fail := func(err error) (*Blackhole, error) { syscall.Close(fd); return nil, err }
	if err := syscall.Bind(fd, &syscall.SockaddrInet4{Addr: [4]byte{127, 0, 0, 1}}); err != nil {
		return fail(err)
	}
	if err := syscall.Listen(fd, 0); err != nil {
		return fail(err)
	}
	sa, err := syscall.Getsockname(fd)
	if err != nil {
		return fail(err)
	}
	b := &Blackhole{fd: fd, Port: sa.(*syscall.SockaddrInet4).Port}
	// fill the accept queue until a connect attempt no longer completes
	for i := 0; i < 8; i++ {
		c, err := net.DialTimeout("tcp", b.Addr(), 150*time.Millisecond)
		if err != nil {
			return b, nil
		}
		b.filler = append(b.filler, c)
	}
	b.Close()
	return nil, errors.New("blackhole: accept queue never filled")
}

func (b *Blackhole) Addr() string { return fmt.Sprintf("127.0.0.1:%d", b.Port) }
func (b *Blackhole) Close() {
	for _, c := range b.filler {
		c.Close()
	}
	syscall.Close(b.fd)
}

// ListenTCPUDP binds a TCP listener and a UDP socket on the same loopback port.
func ListenTCPUDP() (net.Listener, *net.UDPConn, int, error) {
	var lastErr error
	for try := 0; try < 50; try++ {
		l, err := net.Listen("tcp4", "127.0.0.1:0")
		if err != nil {
			return nil, nil, 0, err
		}
		port := l.Addr().(*net.TCPAddr).Port
		u, err := net.ListenUDP("udp4", &net.UDPAddr{IP: net.IPv4(127, 0, 0, 1), Port: port})
		if err != nil {
			l.Close()
			lastErr = err
			continue
		}
		return l, u, port, nil
	}
	return nil, nil, 0, lastErr
}

// RefuseTCPWithUDP binds a UDP socket and a refusing (bound, not listening) TCP socket on one port.
func RefuseTCPWithUDP() (*RefusePort, *net.UDPConn, int, error) {
	var lastErr error
	for try := 0; try < 50; try++ {
		r, err := NewRefusePort()
		if err != nil {
			return nil, nil, 0, err
		}
		u, err := net.ListenUDP("udp4", &net.UDPAddr{IP: net.IPv4(127, 0, 0, 1), Port: r.Port})
		if err != nil {
			r.Close()
			lastErr = err
			continue
		}
		return r, u, r.Port, nil
	}
	return nil, nil, 0, lastErr
}
