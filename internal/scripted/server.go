package scripted

import (
	"bufio"
	"errors"
	"io"
	"math/rand"
	"net"
	"sync"
	"sync/atomic"
	"time"
)

// Query is one query received by a scripted server.
type Query struct {
	Seq      int    // arrival index within the server
	Conn     int    // server-side connection id (stream: accept order; packet: order of first datagram per remote address)
	ConnSeq  int    // arrival index within the connection
	Proto    string // "tcp", "udp", ...
	Remote   string
	ID       uint16 // on-wire transaction ID
	Name     string
	Type     uint16
	Class    uint16
	T        time.Duration
	Question []byte // question octets (name, type, class) as received

	// OutstandingBefore is the number of earlier queries on this connection
	// whose reply had not been completely handed to the kernel when this
	// query was read (measured online, at arrival).
	OutstandingBefore int
	PrevName          string // name of the latest such query
}

// Reply is one reply instance written (or attempted) by a scripted server.
type Reply struct {
	Seq     int
	Conn    int
	ID      uint16
	Nonce   uint64
	Query   int    // Seq of the answered query, -1 for an unsolicited reply
	Kind    string // behaviour label
	TC      bool
	Leg     byte
	T       time.Duration // just before the first octet was written
	TEnd    time.Duration // after the last write returned
	Len     int           // frame length
	Written int           // octets accepted by the kernel (Len when complete)
}

// ConnInfo describes one server-side connection.
type ConnInfo struct {
	ID      int
	Proto   string
	Remote  string
	TOpen   time.Duration
	TClose  time.Duration // 0 while open
	End     string        // "", "peer", "server-fin", "server-rst", "bad-frame", "server-close"
	Queries int
}

type EndKind int

const (
	EndNone      EndKind = iota
	EndFIN               // close the connection (FIN)
	EndRST               // SetLinger(0) + Close
	EndPoison            // keep the connection open, never write to it again
	EndHalfClose         // shutdown(SHUT_WR): the peer sees EOF, its writes still succeed; full close 500 ms later
)

type ExtraKind int

const (
	ExtraUnsolicited ExtraKind = iota // a well-formed reply nobody asked for (own nonce)
	ExtraGarbage                      // complete frame that is not a DNS message
	ExtraHalfFrame                    // prefix announces 100 octets, 10 are sent; the connection is poisoned afterwards
	ExtraSpoof                        // UDP only: a well-formed reply to the query in hand (its id, its question) that comes from another socket - another port of the server's address, or SpoofIP - and not from the server's
)

type IDMode int

const (
	IDExplicit IDMode = iota
	IDNever           // an ID far above anything this connection has seen
	IDNotYet          // highest ID seen on the connection + 1..3
	IDAnswered        // an ID whose reply has already been sent on this connection
)

// Extra is an additional frame sent before or after the reply to a query.
type Extra struct {
	Kind    ExtraKind
	IDMode  IDMode
	ID      uint16
	Delay   time.Duration
	SpoofIP string // ExtraSpoof: source address of the forged datagram ("" = the server's address, another port)
}

// Action scripts what the server does with one query. The zero value is
// "one complete reply at once".
type Action struct {
	Tag        string          // behaviour label copied into Reply.Kind
	Drop       bool            // send no reply
	Delay      time.Duration   // wait before doing anything
	WaitFor    <-chan struct{} // then wait until closed (at most MaxWait, default 2 s) ...
	MaxWait    time.Duration
	AfterWait  time.Duration // ... and this long after it
	Copies     int           // reply instances, each with its own nonce (default 1)
	CopyGap    time.Duration
	TC         bool
	Leg        byte  // overrides Server.Leg when non-zero
	Segments   []int // stream: write the frame in chunks of these sizes (rest in one chunk)
	SegPause   time.Duration
	AbortAfter int     // >0: write only the first AbortAfter octets of the frame ...
	AbortTail  int     // >0: write all but the last AbortTail octets ...
	End        EndKind // ... then End (EndNone after an aborted frame means EndPoison)
	EndDelay   time.Duration
	Before     []Extra
	After      []Extra
	PadTo      int  // >0: the reply is padded (one TXT record in the additional section) to exactly this many octets
	ShortTo    int  // 1..11: the reply is only its first ShortTo octets - a complete frame (or datagram) that is shorter than a DNS header
	LowerQ     bool // the name in the reply's question section is lower-cased (a server that normalises names; the query used mixed case)
	NoQuestion bool // the reply is a bare 12-octet header (QDCOUNT=0) with the query's id, QR and - if TC is set - TC
	Window     int  // >1: hold until Window replies are held on the connection (or WindowWait), then send them in reverse arrival order
	WindowWait time.Duration
}

func (a *Action) needsGoroutine() bool {
	if a.Delay > 0 || a.WaitFor != nil || a.SegPause > 0 || a.CopyGap > 0 || a.EndDelay > 0 {
		return true
	}
	for _, e := range a.Before {
		if e.Delay > 0 {
			return true
		}
	}
	for _, e := range a.After {
		if e.Delay > 0 {
			return true
		}
	}
	return false
}

// Server is a scripted DNS server. Set the exported fields before serving.
type Server struct {
	Script func(q *Query) Action // nil: answer every query at once
	Leg    byte
	Codec  Codec  // stream framing, nil = DNS over TCP (2-octet length prefix)
	Proto  string // label for stream connections, default "tcp"

	mu      sync.Mutex
	queries []*Query
	replies []*Reply
	conns   []*ConnInfo
	live    map[int]*SConn
	udp     map[string]*SConn
	bad     int // frames / datagrams that were not a DNS query
	partial int // streams that ended inside a frame
	closers []io.Closer
	closed  bool
	rng     *rand.Rand
	accepts atomic.Int64
}

func NewServer(script func(q *Query) Action) *Server {
	return &Server{Script: script, live: map[int]*SConn{}, udp: map[string]*SConn{}, rng: rand.New(rand.NewSource(int64(NextNonce())))}
}

// SConn is a server-side connection (or, for packet servers, one remote address).
type SConn struct {
	s     *Server
	ID    int
	info  *ConnInfo
	c     net.Conn
	pc    net.PacketConn
	raddr net.Addr

	wmu  sync.Mutex // serialises frames
	dead atomic.Bool

	mu        sync.Mutex
	nq        int
	unsettled int
	lastName  string
	maxID     int
	answered  []uint16
	held      []heldReply
	holdTimer *time.Timer
	endReason string
}

type heldReply struct {
	q   *Query
	act Action
}

func (s *Server) codec() Codec {
	if s.Codec != nil {
		return s.Codec
	}
	return DNSTCP{}
}

func (s *Server) proto() string {
	if s.Proto != "" {
		return s.Proto
	}
	return "tcp"
}

// ServeStream accepts connections from l until l is closed. Returns at once.
func (s *Server) ServeStream(l net.Listener) {
	s.mu.Lock()
	s.closers = append(s.closers, l)
	s.mu.Unlock()
	go func() {
		for {
			c, err := l.Accept()
			if err != nil {
				return
			}
			s.accepts.Add(1)
			s.ServeConn(c)
		}
	}()
}

// ServeConn serves one stream connection (e.g. one end of a net.Pipe). Returns at once.
func (s *Server) ServeConn(c net.Conn) *SConn {
	remote := ""
	if a := c.RemoteAddr(); a != nil {
		remote = a.String()
	}
	s.mu.Lock()
	if s.closed {
		s.mu.Unlock()
		c.Close()
		return nil
	}
	info := &ConnInfo{ID: len(s.conns), Proto: s.proto(), Remote: remote, TOpen: Now()}
	s.conns = append(s.conns, info)
	sc := &SConn{s: s, ID: info.ID, info: info, c: c, maxID: -1}
	s.live[sc.ID] = sc
	s.mu.Unlock()
	go sc.readLoop()
	return sc
}

// ServePacket serves datagrams from pc until it is closed. Returns at once.
func (s *Server) ServePacket(pc net.PacketConn) {
	s.mu.Lock()
	s.closers = append(s.closers, pc)
	s.mu.Unlock()
	go func() {
		buf := make([]byte, 65536)
		for {
			n, addr, err := pc.ReadFrom(buf)
			if err != nil {
				return
			}
			key := addr.String()
			s.mu.Lock()
			sc := s.udp[key]
			if sc == nil {
				info := &ConnInfo{ID: len(s.conns), Proto: "udp", Remote: key, TOpen: Now()}
				s.conns = append(s.conns, info)
				sc = &SConn{s: s, ID: info.ID, info: info, pc: pc, raddr: addr, maxID: -1}
				s.udp[key] = sc
				s.live[sc.ID] = sc
			}
			s.mu.Unlock()
			msg := make([]byte, n)
			copy(msg, buf[:n])
			sc.handle(msg)
		}
	}()
}

// Accepts is the number of stream connections accepted so far.
func (s *Server) Accepts() int { return int(s.accepts.Load()) }

// Close stops all listeners and closes all connections.
func (s *Server) Close() {
	s.mu.Lock()
	if s.closed {
		s.mu.Unlock()
		return
	}
	s.closed = true
	cl := s.closers
	var live []*SConn
	for _, sc := range s.live {
		live = append(live, sc)
	}
	s.mu.Unlock()
	for _, c := range cl {
		c.Close()
	}
	for _, sc := range live {
		sc.dead.Store(true)
		if sc.c != nil {
			sc.setEnd("server-close")
			sc.c.Close()
		}
	}
}

// Snapshot is a copy of the logs.
type Snapshot struct {
	Queries   []Query
	Replies   []Reply
	Conns     []ConnInfo
	BadFrames int // complete frames / datagrams that were not a DNS query
	Partial   int // streams that ended inside a frame
}

func (s *Server) Snapshot() *Snapshot {
	s.mu.Lock()
	defer s.mu.Unlock()
	sn := &Snapshot{BadFrames: s.bad, Partial: s.partial}
	sn.Queries = make([]Query, len(s.queries))
	for i, q := range s.queries {
		sn.Queries[i] = *q
	}
	sn.Replies = make([]Reply, len(s.replies))
	for i, r := range s.replies {
		sn.Replies[i] = *r
	}
	sn.Conns = make([]ConnInfo, len(s.conns))
	for i, c := range s.conns {
		sn.Conns[i] = *c
	}
	return sn
}

// QueryCount is the number of queries logged so far.
func (s *Server) QueryCount() int {
	s.mu.Lock()
	defer s.mu.Unlock()
	return len(s.queries)
}

// LiveConns returns the connections that are currently open (stream) or known (packet).
func (s *Server) LiveConns() []*SConn {
	s.mu.Lock()
	defer s.mu.Unlock()
	out := make([]*SConn, 0, len(s.live))
	for _, sc := range s.live {
		out = append(out, sc)
	}
	return out
}

func (sc *SConn) setEnd(r string) {
	sc.mu.Lock()
	if sc.endReason == "" {
		sc.endReason = r
	}
	sc.mu.Unlock()
}

func (sc *SConn) readLoop() {
	br := bufio.NewReaderSize(sc.c, 2048)
	cd := sc.s.codec()
	reason := "peer"
	for {
		msg, err := cd.ReadMsg(br)
		if err != nil {
			if errors.Is(err, io.ErrUnexpectedEOF) || errors.Is(err, errBadFrame) {
				sc.s.mu.Lock()
				if errors.Is(err, errBadFrame) {
					sc.s.bad++
					reason = "bad-frame"
				} else {
					sc.s.partial++
				}
				sc.s.mu.Unlock()
			}
			break
		}
		if !sc.handle(msg) {
			reason = "bad-frame"
			break
		}
	}
	sc.dead.Store(true)
	sc.c.Close()
	sc.mu.Lock()
	if sc.endReason != "" {
		reason = sc.endReason
	}
	if sc.holdTimer != nil {
		sc.holdTimer.Stop()
	}
	sc.mu.Unlock()
	s := sc.s
	s.mu.Lock()
	sc.info.TClose = Now()
	sc.info.End = reason
	delete(s.live, sc.ID)
	s.mu.Unlock()
}

// handle logs one received message and runs its script. false = not a query.
func (sc *SConn) handle(msg []byte) bool {
	s := sc.s
	id, name, qt, qc, qend, ok := ParseQuery(msg)
	if !ok {
		s.mu.Lock()
		s.bad++
		s.mu.Unlock()
		return false
	}
	q := &Query{Conn: sc.ID, Proto: sc.info.Proto, Remote: sc.info.Remote, ID: id, Name: name, Type: qt, Class: qc, Question: msg[12:qend]}
	sc.mu.Lock()
	q.ConnSeq = sc.nq
	sc.nq++
	q.OutstandingBefore = sc.unsettled
	if sc.unsettled > 0 {
		q.PrevName = sc.lastName
	}
	sc.unsettled++
	sc.lastName = name
	if int(id) > sc.maxID {
		sc.maxID = int(id)
	}
	sc.mu.Unlock()
	s.mu.Lock()
	q.T = Now()
	q.Seq = len(s.queries)
	s.queries = append(s.queries, q)
	sc.info.Queries++
	s.mu.Unlock()

	var act Action
	if s.Script != nil {
		act = s.Script(q)
	}
	if act.needsGoroutine() {
		go sc.perform(q, act)
	} else {
		sc.perform(q, act)
	}
	return true
}

func (sc *SConn) perform(q *Query, act Action) {
	if act.Delay > 0 {
		time.Sleep(act.Delay)
	}
	if act.WaitFor != nil {
		mw := act.MaxWait
		if mw <= 0 {
			mw = 2 * time.Second
		}
		tm := time.NewTimer(mw)
		select {
		case <-act.WaitFor:
		case <-tm.C:
		}
		tm.Stop()
		if act.AfterWait > 0 {
			time.Sleep(act.AfterWait)
		}
	}
	if act.Window > 1 {
		sc.hold(q, act)
		return
	}
	sc.emit(q, act)
}

func (sc *SConn) hold(q *Query, act Action) {
	sc.mu.Lock()
	sc.held = append(sc.held, heldReply{q, act})
	if len(sc.held) >= act.Window {
		list := sc.held
		sc.held = nil
		if sc.holdTimer != nil {
			sc.holdTimer.Stop()
			sc.holdTimer = nil
		}
		sc.mu.Unlock()
		sc.flush(list)
		return
	}
	if sc.holdTimer == nil {
		w := act.WindowWait
		if w <= 0 {
			w = 3 * time.Millisecond
		}
		sc.holdTimer = time.AfterFunc(w, func() {
			sc.mu.Lock()
			list := sc.held
			sc.held = nil
			sc.holdTimer = nil
			sc.mu.Unlock()
			sc.flush(list)
		})
	}
	sc.mu.Unlock()
}

func (sc *SConn) flush(list []heldReply) {
	for i := len(list) - 1; i >= 0; i-- {
		sc.emit(list[i].q, list[i].act)
	}
}

func (sc *SConn) emit(q *Query, act Action) {
	for _, e := range act.Before {
		if e.Kind == ExtraSpoof {
			sc.sendSpoof(q, e)
			continue
		}
		sc.extra(e)
	}
	aborted := false
	if !act.Drop {
		n := act.Copies
		if n < 1 {
			n = 1
		}
		for i := 0; i < n; i++ {
			if i > 0 && act.CopyGap > 0 {
				time.Sleep(act.CopyGap)
			}
			kind := act.Tag
			if kind == "" {
				kind = "answer"
			}
			if i > 0 {
				kind += "+dup"
			}
			leg := act.Leg
			if leg == 0 {
				leg = sc.s.Leg
			}
			nonce := NextNonce()
			frame := sc.frameOf(shapeReply(BuildReply(q.ID, q.Question, nonce, leg, act.TC), &act))
			cut := 0
			if act.AbortAfter > 0 && act.AbortAfter < len(frame) {
				cut = act.AbortAfter
			} else if act.AbortTail > 0 && act.AbortTail < len(frame) {
				cut = len(frame) - act.AbortTail
			}
			var settle func()
			if i == 0 && cut == 0 {
				settle = func() { sc.settle(q) }
			}
			r := &Reply{Conn: sc.ID, ID: q.ID, Nonce: nonce, Query: q.Seq, Kind: kind, TC: act.TC, Leg: leg, Len: len(frame)}
			sc.sendFrame(r, frame, act.Segments, act.SegPause, cut, settle)
			if cut > 0 {
				aborted = true
				break
			}
		}
	}
	for _, e := range act.After {
		sc.extra(e)
	}
	end := act.End
	if aborted && end == EndNone {
		end = EndPoison
	}
	if end != EndNone {
		if act.EndDelay > 0 {
			time.Sleep(act.EndDelay)
		}
		switch end {
		case EndFIN:
			sc.FIN()
		case EndRST:
			sc.RST()
		case EndPoison:
			sc.Poison()
		case EndHalfClose:
			sc.HalfClose()
		}
	}
}

func (sc *SConn) settle(q *Query) {
	sc.mu.Lock()
	if sc.unsettled > 0 {
		sc.unsettled--
	}
	sc.answered = append(sc.answered, q.ID)
	if len(sc.answered) > 64 {
		sc.answered = sc.answered[len(sc.answered)-32:]
	}
	sc.mu.Unlock()
}

func (sc *SConn) frameOf(dnsMsg []byte) []byte {
	if sc.pc != nil {
		return dnsMsg
	}
	return sc.s.codec().Frame(dnsMsg)
}

// sendFrame writes one frame and logs it. cut>0 writes only frame[:cut].
// beforeLast runs just before the write call that completes the frame.
func (sc *SConn) sendFrame(r *Reply, frame []byte, segs []int, pause time.Duration, cut int, beforeLast func()) {
	sc.wmu.Lock()
	defer sc.wmu.Unlock()
	if sc.dead.Load() {
		return
	}
	data := frame
	if cut > 0 {
		data = frame[:cut]
	}
	s := sc.s
	// logged before the first octet leaves, so that a nonce seen by a client is always in the log
	s.mu.Lock()
	r.T = Now()
	r.Seq = len(s.replies)
	s.replies = append(s.replies, r)
	s.mu.Unlock()
	written := 0
	if sc.pc != nil {
		if beforeLast != nil {
			beforeLast()
		}
		n, err := sc.pc.WriteTo(data, sc.raddr)
		if err == nil {
			written = n
		}
	} else {
		off := 0
		for i := 0; off < len(data); i++ {
			n := len(data) - off
			if i < len(segs) && segs[i] > 0 && segs[i] < n {
				n = segs[i]
			}
			if i > 0 && pause > 0 {
				time.Sleep(pause)
				if sc.dead.Load() {
					break
				}
			}
			if off+n == len(data) && beforeLast != nil {
				beforeLast()
			}
			w, err := sc.c.Write(data[off : off+n])
			written += w
			if err != nil {
				break
			}
			off += n
		}
	}
	s.mu.Lock()
	r.TEnd = Now()
	r.Written = written
	s.mu.Unlock()
}

func (sc *SConn) extra(e Extra) {
	if e.Delay > 0 {
		time.Sleep(e.Delay)
	}
	switch e.Kind {
	case ExtraUnsolicited:
		sc.SendUnsolicited(e.IDMode, e.ID)
	case ExtraGarbage:
		sc.SendGarbage()
	case ExtraHalfFrame:
		sc.SendHalfFrame()
	}
}

// sendSpoof sends a forged reply to q from a socket that is not the server's (logged as a reply
// of kind SPOOFED:..., Query -1: the server never sent it).
func (sc *SConn) sendSpoof(q *Query, e Extra) {
	if sc.pc == nil {
		return
	}
	if e.Delay > 0 {
		time.Sleep(e.Delay)
	}
	kind := "SPOOFED:other-port"
	ip := sc.pc.LocalAddr().(*net.UDPAddr).IP
	port := 0
	if e.SpoofIP != "" {
		kind = "SPOOFED:other-address"
		ip = net.ParseIP(e.SpoofIP)
		port = sc.pc.LocalAddr().(*net.UDPAddr).Port // same port number on the other address, if it is free
	}
	u, err := net.ListenUDP("udp4", &net.UDPAddr{IP: ip, Port: port})
	if err != nil && port != 0 {
		u, err = net.ListenUDP("udp4", &net.UDPAddr{IP: ip})
	}
	if err != nil {
		return
	}
	defer u.Close()
	nonce := NextNonce()
	msg := BuildReply(q.ID, q.Question, nonce, sc.s.Leg, false)
	r := &Reply{Conn: sc.ID, ID: q.ID, Nonce: nonce, Query: -1, Kind: kind, Leg: sc.s.Leg, Len: len(msg)}
	s := sc.s
	s.mu.Lock()
	r.T = Now()
	r.Seq = len(s.replies)
	s.replies = append(s.replies, r) // logged before it leaves, like every reply
	s.mu.Unlock()
	n, _ := u.WriteTo(msg, sc.raddr)
	s.mu.Lock()
	r.TEnd = Now()
	r.Written = n
	s.mu.Unlock()
}

// SendUnsolicited writes a well-formed reply nobody asked for.
func (sc *SConn) SendUnsolicited(mode IDMode, id uint16) {
	kind := "UNSOLICITED:explicit"
	sc.mu.Lock()
	sc.s.mu.Lock()
	rnd := sc.s.rng.Intn(1 << 20)
	sc.s.mu.Unlock()
	switch mode {
	case IDNever:
		kind = "UNSOLICITED:never"
		id = uint16((sc.maxID + 20000 + rnd%20000) & 0xffff)
	case IDNotYet:
		kind = "UNSOLICITED:notyet"
		id = uint16((sc.maxID + 1 + rnd%3) & 0xffff)
	case IDAnswered:
		if len(sc.answered) > 0 {
			kind = "UNSOLICITED:answered"
			id = sc.answered[rnd%len(sc.answered)]
		} else {
			kind = "UNSOLICITED:never"
			id = uint16((sc.maxID + 20000 + rnd%20000) & 0xffff)
		}
	}
	sc.mu.Unlock()
	nonce := NextNonce()
	frame := sc.frameOf(BuildReply(id, nil, nonce, sc.s.Leg, false))
	r := &Reply{Conn: sc.ID, ID: id, Nonce: nonce, Query: -1, Kind: kind, Leg: sc.s.Leg, Len: len(frame)}
	sc.sendFrame(r, frame, nil, 0, 0, nil)
}

func (sc *SConn) rawWrite(b []byte) {
	sc.wmu.Lock()
	defer sc.wmu.Unlock()
	if sc.dead.Load() {
		return
	}
	if sc.pc != nil {
		sc.pc.WriteTo(b, sc.raddr)
	} else {
		sc.c.Write(b)
	}
}

// SendGarbage writes a complete frame (datagram) that is not a DNS message.
func (sc *SConn) SendGarbage() {
	if sc.pc != nil {
		sc.rawWrite([]byte{0xde, 0xad, 0xbe, 0xef, 0x01})
		return
	}
	sc.rawWrite(sc.s.codec().Garbage())
}

// SendHalfFrame announces 100 octets, sends 10 and never writes to the connection again.
func (sc *SConn) SendHalfFrame() {
	if sc.pc != nil {
		sc.rawWrite([]byte{0, 1, 0x81, 0x80, 0, 1, 0, 1, 0, 0}) // 10 octets of a header: not a message
		return
	}
	sc.rawWrite(sc.s.codec().HalfFrame())
	sc.Poison()
}

// Poison keeps the connection open but stops all further writes.
func (sc *SConn) Poison() { sc.dead.Store(true) }

// FIN closes the connection normally.
func (sc *SConn) FIN() {
	if sc.c == nil {
		return
	}
	sc.setEnd("server-fin")
	sc.dead.Store(true)
	sc.c.Close()
}

// HalfClose shuts down the sending direction only (TCP FIN / TLS close_notify) and keeps
// reading for another 500 ms: the peer's reads see EOF while its writes keep succeeding.
func (sc *SConn) HalfClose() {
	if sc.c == nil {
		return
	}
	sc.setEnd("server-half-close")
	sc.dead.Store(true)
	if cw, ok := sc.c.(interface{ CloseWrite() error }); ok {
		cw.CloseWrite()
		c := sc.c
		time.AfterFunc(500*time.Millisecond, func() { c.Close() })
		return
	}
	sc.c.Close()
}

// RST aborts the connection (SetLinger(0) + Close on the TCP socket).
func (sc *SConn) RST() {
	if sc.c == nil {
		return
	}
	sc.setEnd("server-rst")
	sc.dead.Store(true)
	ResetConn(sc.c)
}

// ResetConn aborts c with a TCP RST when c is (or wraps) a *net.TCPConn, else just closes it.
func ResetConn(c net.Conn) {
	inner := c
	for i := 0; i < 4; i++ {
		if tc, ok := inner.(*net.TCPConn); ok {
			tc.SetLinger(0)
			tc.Close()
			return
		}
		u, ok := inner.(interface{ NetConn() net.Conn })
		if !ok {
			break
		}
		inner = u.NetConn()
	}
	c.Close()
}

// ---- building blocks for servers with their own transport (DoH over HTTP/2, DoQ) ----

// AddConn registers a connection of a foreign transport in the log.
func (s *Server) AddConn(proto, remote string) *ConnInfo {
	s.mu.Lock()
	defer s.mu.Unlock()
	info := &ConnInfo{ID: len(s.conns), Proto: proto, Remote: remote, TOpen: Now()}
	s.conns = append(s.conns, info)
	s.accepts.Add(1)
	return info
}

// EndConn marks a foreign connection as closed.
func (s *Server) EndConn(ci *ConnInfo, reason string) {
	s.mu.Lock()
	if ci.TClose == 0 {
		ci.TClose = Now()
		ci.End = reason
	}
	s.mu.Unlock()
}

// RecordQuery parses and logs a query received on a foreign connection and
// returns it with the scripted action. nil: not a DNS query.
func (s *Server) RecordQuery(ci *ConnInfo, msg []byte) (*Query, Action) {
	id, name, qt, qc, qend, ok := ParseQuery(msg)
	if !ok {
		s.mu.Lock()
		s.bad++
		s.mu.Unlock()
		return nil, Action{}
	}
	q := &Query{Conn: ci.ID, Proto: ci.Proto, Remote: ci.Remote, ID: id, Name: name, Type: qt, Class: qc, Question: msg[12:qend]}
	s.mu.Lock()
	q.T = Now()
	q.Seq = len(s.queries)
	q.ConnSeq = ci.Queries
	ci.Queries++
	s.queries = append(s.queries, q)
	s.mu.Unlock()
	var act Action
	if s.Script != nil {
		act = s.Script(q)
	}
	return q, act
}

// NewReply builds the DNS reply message for q and logs it (before it is written).
func (s *Server) NewReply(q *Query, act *Action) (msg []byte, r *Reply) {
	leg := act.Leg
	if leg == 0 {
		leg = s.Leg
	}
	kind := act.Tag
	if kind == "" {
		kind = "answer"
	}
	nonce := NextNonce()
	msg = shapeReply(BuildReply(q.ID, q.Question, nonce, leg, act.TC), act)
	r = &Reply{Conn: q.Conn, ID: q.ID, Nonce: nonce, Query: q.Seq, Kind: kind, TC: act.TC, Leg: leg, Len: len(msg)}
	s.mu.Lock()
	r.T = Now()
	r.Seq = len(s.replies)
	s.replies = append(s.replies, r)
	s.mu.Unlock()
	return msg, r
}

// DoneReply completes the log record of a reply.
func (s *Server) DoneReply(r *Reply, written int) {
	s.mu.Lock()
	r.TEnd = Now()
	r.Written = written
	s.mu.Unlock()
}

func (a *Action) hasExtra(k ExtraKind) bool {
	for _, e := range a.Before {
		if e.Kind == k {
			return true
		}
	}
	for _, e := range a.After {
		if e.Kind == k {
			return true
		}
	}
	return false
}

func (a *Action) cut(frameLen int) int {
	if a.AbortAfter > 0 && a.AbortAfter < frameLen {
		return a.AbortAfter
	}
	if a.AbortTail > 0 && a.AbortTail < frameLen {
		return frameLen - a.AbortTail
	}
	return 0
}

// shapeReply applies the size / shape wishes of an action to a built reply.
func shapeReply(msg []byte, act *Action) []byte {
	if act.ShortTo > 0 && act.ShortTo < 12 {
		return append([]byte{}, msg[:act.ShortTo]...)
	}
	if act.NoQuestion {
		h := append([]byte{}, msg[:12]...)
		h[4], h[5], h[6], h[7], h[8], h[9], h[10], h[11] = 0, 0, 0, 0, 0, 0, 0, 0
		return h
	}
	if act.LowerQ {
		msg = append([]byte{}, msg...)
		for off := 12; off < len(msg) && msg[off] != 0 && msg[off] < 64; {
			l := int(msg[off])
			for k := off + 1; k <= off+l && k < len(msg); k++ {
				if 'A' <= msg[k] && msg[k] <= 'Z' {
					msg[k] += 'a' - 'A'
				}
			}
			off += l + 1
		}
	}
	if act.PadTo > len(msg)+12 {
		rem := act.PadTo - len(msg) - 11 // root owner (1) + type, class, ttl, rdlength (10)
		rd := make([]byte, 0, rem)
		for rem > 0 {
			n := min(255, rem-1)
			rd = append(rd, byte(n))
			for k := 0; k < n; k++ {
				rd = append(rd, 'p')
			}
			rem -= n + 1
		}
		msg = append(msg, 0, 0, 16, 0, 1, 0, 0, 0, 60, byte(len(rd)>>8), byte(len(rd)))
		msg = append(msg, rd...)
		msg[11]++ // ARCOUNT
	}
	return msg
}
