package scripted

import (
	"net"
	"sync"
	"sync/atomic"
)

// HoldListener accepts TCP connections and then neither reads nor writes
// ("accept and stay silent"; for a TLS client: the handshake stalls).
type HoldListener struct {
	l       net.Listener
	mu      sync.Mutex
	conns   []net.Conn
	accepts atomic.Int64
}

func NewHoldListener() (*HoldListener, error) {
	l, err := net.Listen("tcp4", "127.0.0.1:0")
	if err != nil {
		return nil, err
	}
	h := &HoldListener{l: l}
	go func() {
		for {
			c, err := l.Accept()
			if err != nil {
				return
			}
			h.accepts.Add(1)
			h.mu.Lock()
			h.conns = append(h.conns, c)
			h.mu.Unlock()
		}
	}()
	return h, nil
}

func (h *HoldListener) Addr() string { return h.l.Addr().String() }
func (h *HoldListener) Accepts() int { return int(h.accepts.Load()) }
func (h *HoldListener) Close() {
	h.l.Close()
	h.mu.Lock()
	for _, c := range h.conns {
		c.Close()
	}
	h.mu.Unlock()
}

// UDPSink is a UDP socket that swallows every datagram (a server that never
// answers; for QUIC: the handshake never completes).
type UDPSink struct {
	c    *net.UDPConn
	pkts atomic.Int64
}

func NewUDPSink() (*UDPSink, error) {
	c, err := net.ListenUDP("udp4", &net.UDPAddr{IP: net.IPv4(127, 0, 0, 1)})
	if err != nil {
		return nil, err
	}
	s := &UDPSink{c: c}
	go func() {
		b := make([]byte, 65536)
		for {
			if _, _, err := c.ReadFrom(b); err != nil {
				return
			}
			s.pkts.Add(1)
		}
	}()
	return s, nil
}

func (s *UDPSink) Addr() string { return s.c.LocalAddr().String() }
func (s *UDPSink) Packets() int { return int(s.pkts.Load()) }
func (s *UDPSink) Close()       { s.c.Close() }

// ClosedUDPPort returns a loopback UDP address on which (most probably) nothing listens.
func ClosedUDPPort() (string, error) {
	c, err := net.ListenUDP("udp4", &net.UDPAddr{IP: net.IPv4(127, 0, 0, 1)})
	if err != nil {
		return "", err
	}
	a := c.LocalAddr().String()
	c.Close()
	return a, nil
}
