package scripted

import (
	"crypto/ecdsa"
	"crypto/elliptic"
	"crypto/rand"
	"crypto/tls"
	"crypto/x509"
	"crypto/x509/pkix"
	"math/big"
	"net"
	"sync"
	"time"
)

var (
	certOnce sync.Once
	certVal  tls.Certificate
	certErr  error
)

// SelfSignedCert returns a throw-away certificate for 127.0.0.1 / localhost (generated once per process).
func SelfSignedCert() (tls.Certificate, error) {
	certOnce.Do(func() {
		key, err := ecdsa.GenerateKey(elliptic.P256(), rand.Reader)
		if err != nil {
			certErr = err
			return
		}
		tpl := &x509.Certificate{
			SerialNumber:          big.NewInt(time.Now().UnixNano()),
			Subject:               pkix.Name{CommonName: "vharness"},
			NotBefore:             time.Now().Add(-time.Hour),
			NotAfter:              time.Now().Add(24 * time.Hour),
			KeyUsage:              x509.KeyUsageDigitalSignature | x509.KeyUsageCertSign,
			ExtKeyUsage:           []x509.ExtKeyUsage{x509.ExtKeyUsageServerAuth},
			BasicConstraintsValid: true,
			IsCA:                  true,
			DNSNames:              []string{"localhost"},
			IPAddresses:           []net.IP{net.IPv4(127, 0, 0, 1)},
		}
		der, err := x509.CreateCertificate(rand.Reader, tpl, tpl, &key.PublicKey, key)
		if err != nil {
			certErr = err
			return
		}
		certVal = tls.Certificate{Certificate: [][]byte{der}, PrivateKey: key}
	})
	return certVal, certErr
}

// ServerTLS returns a server tls.Config with the throw-away certificate and the given ALPN protocols.
func ServerTLS(nextProtos ...string) (*tls.Config, error) {
	c, err := SelfSignedCert()
	if err != nil {
		return nil, err
	}
	return &tls.Config{Certificates: []tls.Certificate{c}, NextProtos: nextProtos, MinVersion: tls.VersionTLS12}, nil
}
