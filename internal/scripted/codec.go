package scripted

import (
	"bufio"
	"encoding/base64"
	"encoding/binary"
	"errors"
	"fmt"
	"io"
	"net/http"
)

var errBadFrame = errors.New("scripted: frame is not a query")

// Codec frames DNS messages on a stream.
type Codec interface {
	// ReadMsg returns the next DNS query message. io.ErrUnexpectedEOF: the
	// stream ended inside a frame; errBadFrame: a complete but unusable frame.
	ReadMsg(br *bufio.Reader) ([]byte, error)
	Frame(dnsMsg []byte) []byte
	Garbage() []byte   // complete frame, not a DNS message
	HalfFrame() []byte // announces 100 octets of payload, carries 10
}

// DNSTCP is RFC 1035 4.2.2 framing (2-octet length prefix).
type DNSTCP struct{}

func (DNSTCP) ReadMsg(br *bufio.Reader) ([]byte, error) {
	var h [2]byte
	if _, err := io.ReadFull(br, h[:1]); err != nil {
		return nil, err // clean end between frames (or read error)
	}
	if _, err := io.ReadFull(br, h[1:]); err != nil {
		return nil, io.ErrUnexpectedEOF
	}
	n := int(binary.BigEndian.Uint16(h[:]))
	msg := make([]byte, n)
	if _, err := io.ReadFull(br, msg); err != nil {
		return nil, io.ErrUnexpectedEOF
	}
	return msg, nil
}

func (DNSTCP) Frame(m []byte) []byte {
	b := make([]byte, 2, 2+len(m))
	binary.BigEndian.PutUint16(b, uint16(len(m)))
	return append(b, m...)
}

// 7 octets: shorter than a DNS header, can never be decoded as a message.
func (DNSTCP) Garbage() []byte { return []byte{0, 7, 0xde, 0xad, 0xbe, 0xef, 0x00, 0x01, 0x02} }

func (DNSTCP) HalfFrame() []byte {
	return []byte{0, 100, 0, 1, 0x81, 0x80, 0, 1, 0, 1, 0, 0}
}

// HTTP1 is a minimal DNS-over-HTTP/1.1 framing (RFC 8484 GET and POST) on a raw stream.
type HTTP1 struct {
	// RawGarbage: Garbage() is a byte salad instead of a 200 response with an undecodable body.
	RawGarbage bool
}

func (HTTP1) ReadMsg(br *bufio.Reader) ([]byte, error) {
	if _, err := br.Peek(1); err != nil {
		return nil, err
	}
	req, err := http.ReadRequest(br)
	if err != nil {
		if errors.Is(err, io.EOF) || errors.Is(err, io.ErrUnexpectedEOF) {
			return nil, io.ErrUnexpectedEOF
		}
		return nil, errBadFrame
	}
	switch req.Method {
	case http.MethodGet:
		v := req.URL.Query().Get("dns")
		b, err := base64.RawURLEncoding.DecodeString(v)
		if err != nil {
			return nil, errBadFrame
		}
		return b, nil
	case http.MethodPost:
		b, err := io.ReadAll(io.LimitReader(req.Body, 65536))
		if err != nil {
			return nil, io.ErrUnexpectedEOF
		}
		return b, nil
	}
	return nil, errBadFrame
}

func (HTTP1) Frame(m []byte) []byte {
	h := fmt.Sprintf("HTTP/1.1 200 OK\r\nContent-Type: application/dns-message\r\nContent-Length: %d\r\n\r\n", len(m))
	return append([]byte(h), m...)
}

func (c HTTP1) Garbage() []byte {
	if c.RawGarbage {
		return []byte("\x00\x01\x02 this is not http\r\n\r\n")
	}
	return c.Frame([]byte{0xde, 0xad, 0xbe, 0xef, 0x01})
}

func (HTTP1) HalfFrame() []byte {
	return []byte("HTTP/1.1 200 OK\r\nContent-Type: application/dns-message\r\nContent-Length: 100\r\n\r\n\x00\x01\x81\x80\x00\x01\x00\x01\x00\x00")
}
