package scripted

import (
	"context"
	"crypto/tls"
	"encoding/base64"
	"io"
	"net"
	"net/http"
	"strconv"
	"sync"
	"time"
)

// DoH2 is a scripted DNS-over-HTTPS server (HTTP/2 and HTTP/1.1 over TLS) on
// a loopback port. It interprets this subset of Action: Delay, Drop,
// Before/After containing ExtraGarbage (200 with an undecodable body) or
// ExtraHalfFrame (Content-Length 100, 10 octets, then stall), AbortAfter /
// AbortTail (part of the body, then End), End (EndFIN / EndRST act on the
// underlying TCP connection).
type DoH2 struct {
	*Server
	l    *trackListener
	hs   *http.Server
	stop chan struct{}
}

type trackListener struct {
	net.Listener
	mu   sync.Mutex
	open map[net.Conn]struct{}
}

type trackedConn struct {
	net.Conn
	l *trackListener
}

func (c *trackedConn) Close() error {
	c.l.mu.Lock()
	delete(c.l.open, c.Conn)
	c.l.mu.Unlock()
	return c.Conn.Close()
}

func (l *trackListener) Accept() (net.Conn, error) {
	c, err := l.Listener.Accept()
	if err != nil {
		return nil, err
	}
	l.mu.Lock()
	l.open[c] = struct{}{}
	l.mu.Unlock()
	return &trackedConn{Conn: c, l: l}, nil
}

type doh2ConnKey struct{}

type doh2Conn struct {
	info *ConnInfo
	raw  net.Conn
}

func NewDoH2(script func(q *Query) Action) (*DoH2, error) {
	cfg, err := ServerTLS("h2", "http/1.1")
	if err != nil {
		return nil, err
	}
	base, err := net.Listen("tcp4", "127.0.0.1:0")
	if err != nil {
		return nil, err
	}
	d := &DoH2{Server: NewServer(script), l: &trackListener{Listener: base, open: map[net.Conn]struct{}{}}, stop: make(chan struct{})}
	d.Server.Proto = "https"
	d.hs = &http.Server{
		TLSConfig: cfg,
		Handler:   http.HandlerFunc(d.handle),
		ConnContext: func(ctx context.Context, c net.Conn) context.Context {
			raw := c
			if tc, ok := c.(*tls.Conn); ok {
				raw = tc.NetConn()
			}
			if t, ok := raw.(*trackedConn); ok {
				raw = t.Conn
			}
			return context.WithValue(ctx, doh2ConnKey{}, &doh2Conn{info: d.AddConn("https", c.RemoteAddr().String()), raw: raw})
		},
		ErrorLog: nil,
	}
	d.hs.ErrorLog = quietLogger()
	go d.hs.ServeTLS(d.l, "", "")
	return d, nil
}

func (d *DoH2) Addr() string { return d.l.Addr().String() }

// URL is the endpoint for upstream.NewUpstream.
func (d *DoH2) URL() string { return "https://" + d.Addr() + "/dns-query" }

func (d *DoH2) Close() {
	select {
	case <-d.stop:
		return
	default:
	}
	close(d.stop)
	d.hs.Close()
	d.l.mu.Lock()
	for c := range d.l.open {
		c.Close()
	}
	d.l.mu.Unlock()
}

// OpenRaw returns the TCP connections currently open.
func (d *DoH2) OpenRaw() []net.Conn {
	d.l.mu.Lock()
	defer d.l.mu.Unlock()
	out := make([]net.Conn, 0, len(d.l.open))
	for c := range d.l.open {
		out = append(out, c)
	}
	return out
}

// FaultAll applies a transport-level fault to every open TCP connection:
// "fin" closes, "rst" aborts, "garbage" injects octets that are not a TLS
// record, "half" injects a TLS record header announcing 100 octets followed
// by 10. Returns the number of connections touched.
func (d *DoH2) FaultAll(kind string) int {
	n := 0
	for _, c := range d.OpenRaw() {
		n++
		switch kind {
		case "fin":
			c.Close()
		case "rst":
			ResetConn(c)
		case "garbage":
			c.Write([]byte("\x00\x01\x02 this is not tls \xff\xff\xff\xff"))
		case "half":
			c.Write([]byte{23, 3, 3, 0, 100, 1, 2, 3, 4, 5, 6, 7, 8, 9, 10})
		}
	}
	return n
}

func (d *DoH2) block(r *http.Request) {
	select {
	case <-r.Context().Done():
	case <-d.stop:
	}
}

func (d *DoH2) handle(w http.ResponseWriter, r *http.Request) {
	dc, _ := r.Context().Value(doh2ConnKey{}).(*doh2Conn)
	if dc == nil {
		http.Error(w, "no conn", 500)
		return
	}
	var msg []byte
	var err error
	if r.Method == http.MethodPost {
		msg, err = io.ReadAll(io.LimitReader(r.Body, 65536))
	} else {
		msg, err = base64.RawURLEncoding.DecodeString(r.URL.Query().Get("dns"))
	}
	if err != nil {
		http.Error(w, "bad request", 400)
		return
	}
	q, act := d.RecordQuery(dc.info, msg)
	if q == nil {
		http.Error(w, "bad dns", 400)
		return
	}
	if act.Delay > 0 {
		time.Sleep(act.Delay)
	}
	end := func(k EndKind) {
		if act.EndDelay > 0 {
			time.Sleep(act.EndDelay)
		}
		switch k {
		case EndFIN:
			d.EndConn(dc.info, "server-fin")
			dc.raw.Close()
		case EndRST:
			d.EndConn(dc.info, "server-rst")
			ResetConn(dc.raw)
		case EndPoison:
			d.block(r)
		}
	}
	w.Header().Set("Content-Type", "application/dns-message")
	fl, _ := w.(http.Flusher)
	switch {
	case act.hasExtra(ExtraGarbage):
		w.Header().Set("Content-Length", "5")
		w.Write([]byte{0xde, 0xad, 0xbe, 0xef, 0x01})
		return
	case act.hasExtra(ExtraHalfFrame):
		w.Header().Set("Content-Length", "100")
		w.Write([]byte{0, 1, 0x81, 0x80, 0, 1, 0, 1, 0, 0})
		if fl != nil {
			fl.Flush()
		}
		d.block(r)
		return
	case act.Drop:
		if act.End == EndNone || act.End == EndPoison {
			d.block(r)
			return
		}
		end(act.End)
		return
	}
	body, rep := d.NewReply(q, &act)
	w.Header().Set("Content-Length", strconv.Itoa(len(body)))
	if cut := act.cut(len(body)); cut > 0 {
		n, _ := w.Write(body[:cut])
		if fl != nil {
			fl.Flush()
		}
		d.DoneReply(rep, n)
		k := act.End
		if k == EndNone {
			k = EndPoison
		}
		end(k)
		return
	}
	n, _ := w.Write(body)
	if fl != nil {
		fl.Flush()
	}
	d.DoneReply(rep, n)
	if act.End != EndNone {
		end(act.End)
	}
}
