package fakeup

import (
	"context"
	"crypto/tls"
	"encoding/base64"
	"encoding/binary"
	"errors"
	"fmt"
	"io"
	"log"
	"net"
	"net/http"
	"strings"
	"sync"
	"sync/atomic"
	"syscall"
	"time"

	"github.com/IrineSistiana/mosproxy/verif/internal/clock"
	"github.com/miekg/dns"
	"github.com/quic-go/quic-go"
	"github.com/quic-go/quic-go/http3"
)

// QueryLog is one query seen by a fake upstream (and what it did with it).
type QueryLog struct {
	Seq       int    `json:"seq"`
	Tag       string `json:"tag"`
	Transport string `json:"transport"` // udp tcp tls http https h3 quic
	Conn      int64  `json:"conn"`
	TRecv     int64  `json:"t_recv"` // clock.Now() when the query was received
	TSend     int64  `json:"t_send"` // taken just before the reply is handed to the socket: a lower bound of the send time (0 = none)
	WireID    uint16 `json:"wire_id"`
	Name      string `json:"name"` // as received
	Qtype     uint16 `json:"qtype"`
	Qclass    uint16 `json:"qclass"`
	RD        bool   `json:"rd"`
	NQ        int    `json:"nq"`
	Serial    uint32 `json:"serial"` // serial of the reply (0 = no keyed reply)
	Kind      string `json:"kind"`
	Rcode     int    `json:"rcode"`
	TC        bool   `json:"tc"`
	Raw       []byte `json:"raw,omitempty"`
	BadQuery  string `json:"bad_query,omitempty"` // undecodable / unexpected query
	SNI       string `json:"sni,omitempty"`       // TLS server name the client presented
	Host      string `json:"host,omitempty"`      // HTTP Host header
}

// Server is one fake upstream (one tag) that can listen on several transports.
type Server struct {
	RedirectTo string // Location of the 307 answer to queries of kind "redir" (DoH servers)
	Tag        string

	hook   func(q *QueryLog, d *Directives)
	mutate func(q *QueryLog, reply []byte) []byte
	// QUICMaxStreams limits the concurrent streams a DoQ client may open per connection (0 = 65536).
	QUICMaxStreams int64
	// KeepRaw stores the wire bytes of every query in the log.
	KeepRaw bool

	mu       sync.Mutex
	log      []*QueryLog
	serial   atomic.Uint32
	connSeq  atomic.Int64
	closers  []func()
	connEnd  map[int64]int64 // stream connection id -> clock.Now() when its read side ended (peer closed / error)
	open     atomic.Int64    // transport connections currently open (stream, http, quic)
	accepted atomic.Int64
	wg       sync.WaitGroup
	closed   atomic.Bool

	Addr map[string]string // transport -> host:port
}

func NewServer(tag string) *Server {
	return &Server{Tag: tag, Addr: map[string]string{}}
}

// SetHook installs a function that may change the directives for a query (scripted scenarios).
func (s *Server) SetHook(f func(q *QueryLog, d *Directives)) {
	s.mu.Lock()
	s.hook = f
	s.mu.Unlock()
}

// SetMutate installs a function that may replace the wire bytes of a reply (hostile upstream scenarios).
func (s *Server) SetMutate(f func(q *QueryLog, reply []byte) []byte) {
	s.mu.Lock()
	s.mutate = f
	s.mu.Unlock()
}

// OpenConns returns the number of transport-level connections (TCP/TLS streams, HTTP
// connections, QUIC connections) the peer currently holds open to this server.
func (s *Server) OpenConns() int64 { return s.open.Load() }

// AcceptedConns returns how many connections were accepted so far.
func (s *Server) AcceptedConns() int64 { return s.accepted.Load() }

// ConnEndedAt returns when the peer closed stream connection id (0 = still open / unknown).
func (s *Server) ConnEndedAt(id int64) int64 {
	s.mu.Lock()
	defer s.mu.Unlock()
	return s.connEnd[id]
}

// Log returns a snapshot of the query log.
func (s *Server) Log() []QueryLog {
	s.mu.Lock()
	defer s.mu.Unlock()
	out := make([]QueryLog, len(s.log))
	for i, q := range s.log {
		out[i] = *q
	}
	return out
}

func (s *Server) Close() {
	if s.closed.Swap(true) {
		return
	}
	s.mu.Lock()
	cs := s.closers
	s.closers = nil
	s.mu.Unlock()
	for _, c := range cs {
		c()
	}
}

func (s *Server) addCloser(f func()) {
	s.mu.Lock()
	s.closers = append(s.closers, f)
	s.mu.Unlock()
}

type action struct {
	reply     []byte // nil = no reply
	kind      string // ok... | silent | close | rst | half | garbage | http
	http      int
	delay     time.Duration
	ql        *QueryLog
	fin       bool // close the stream connection after the reply
	junkFirst bool // stream transports: a complete frame that does not decode travels in front of the reply, in the same write
	stream    bool // DoH: the header is flushed before the body (no Content-Length: chunked / length unknown), body in two pieces
}

// handle decodes a query, decides what to do and logs it.
func (s *Server) handle(transport string, conn int64, raw []byte) *action {
	a := s.decide(transport, conn, raw)
	s.mu.Lock()
	a.ql.Seq = len(s.log)
	s.log = append(s.log, a.ql)
	s.mu.Unlock()
	return a
}

func (s *Server) decide(transport string, conn int64, raw []byte) *action {
	ql := &QueryLog{Tag: s.Tag, Transport: transport, Conn: conn, TRecv: clock.Now()}
	if s.KeepRaw {
		ql.Raw = append([]byte{}, raw...)
	}
	q := new(dns.Msg)
	if err := q.Unpack(raw); err != nil || len(q.Question) != 1 {
		ql.BadQuery = fmt.Sprintf("undecodable or not one question: %v", err)
		return &action{kind: "silent", ql: ql}
	}
	qq := q.Question[0]
	ql.WireID, ql.Name, ql.Qtype, ql.Qclass = q.Id, qq.Name, qq.Qtype, qq.Qclass
	ql.RD, ql.NQ = q.RecursionDesired, len(q.Question)
	first := ""
	if l := dns.SplitDomainName(qq.Name); len(l) > 0 {
		first = l[0]
	}
	d := ParseDirectives(first)
	s.mu.Lock()
	hook, mutate := s.hook, s.mutate
	s.mu.Unlock()
	if hook != nil {
		hook(ql, &d)
	}
	if d.Kind == "tcs" { // truncated over UDP, silent on every other transport (the TCP retry gets nothing)
		if transport == "udp" {
			d.Kind = "tc"
		} else {
			d.Kind = "silent"
		}
	}
	ql.Kind = d.Kind
	a := &action{kind: d.Kind, http: d.HTTP, delay: time.Duration(d.Delay) * time.Millisecond, ql: ql, fin: d.Fin, stream: d.Stream, junkFirst: d.JunkFirst}
	switch d.Kind {
	case "silent", "close", "rst", "http":
		return a
	case "garbage":
		key := Key(strings.ToLower(qq.Name), qq.Qtype, qq.Qclass, s.Tag)
		g := make([]byte, 12+int(key[0])%40)
		copy(g, key[:])
		binary.BigEndian.PutUint16(g, q.Id)
		g[2] |= 0x80
		binary.BigEndian.PutUint16(g[4:], 1)  // claims one question ...
		binary.BigEndian.PutUint16(g[6:], 50) // ... and 50 answers that are not there
		if len(g) > 12 {
			g[12] = 0xC0 // pointer loop
			if len(g) > 13 {
				g[13] = 12
			}
		}
		a.reply = g
		return a
	}
	serial := s.serial.Add(1)
	m := BuildReply(qq.Name, qq.Qtype, qq.Qclass, s.Tag, serial, d)
	m.Id = q.Id
	if d.Kind == "tc" {
		m.Truncated = true
	}
	if d.Opt {
		AddOpt(m, Key(strings.ToLower(qq.Name), qq.Qtype, qq.Qclass, s.Tag))
	}
	m.Compress = true // like a real server; matters for replies that only fit with name compression
	b, err := m.Pack()
	if err != nil {
		ql.BadQuery = "pack: " + err.Error()
		a.kind = "silent"
		return a
	}
	ql.Serial, ql.Rcode, ql.TC = serial, m.Rcode, m.Truncated
	if mutate != nil {
		b = mutate(ql, b)
	}
	a.reply = b
	if d.Kind == "half" {
		a.kind = "half"
	}
	return a
}

// SetSerialBase makes the serials of this server start above n (two servers with the same tag can
// then be told apart by the serials in their replies).
func (s *Server) SetSerialBase(n uint32) { s.serial.Store(n) }

func (s *Server) sent(a *action) {
	s.mu.Lock()
	a.ql.TSend = clock.Now()
	s.mu.Unlock()
}

func (s *Server) peer(a *action, sni, host string) {
	s.mu.Lock()
	a.ql.SNI, a.ql.Host = sni, host
	s.mu.Unlock()
}

// ---------------------------------------------------------------- UDP

// ListenUDPRefuseTCP listens on a loopback UDP port whose TCP twin refuses connections for as long
// as the server lives: a TCP socket is bound to the same port number and never listens, so nobody
// else (another fake upstream, the proxy under test) can be handed that port meanwhile.
func (s *Server) ListenUDPRefuseTCP() error {
	var lastErr error
	for try := 0; try < 50; try++ {
		fd, err := syscall.Socket(syscall.AF_INET, syscall.SOCK_STREAM|syscall.SOCK_CLOEXEC, 0)
		if err != nil {
			return err
		}
		if err := syscall.Bind(fd, &syscall.SockaddrInet4{Addr: [4]byte{127, 0, 0, 1}}); err != nil {
			syscall.Close(fd)
			return err
		}
		sa, err := syscall.Getsockname(fd)
		if err != nil {
			syscall.Close(fd)
			return err
		}
		port := sa.(*syscall.SockaddrInet4).Port
		if err := s.ListenUDP(fmt.Sprintf("127.0.0.1:%d", port)); err != nil {
			syscall.Close(fd)
			lastErr = err
			continue
		}
		s.addCloser(func() { syscall.Close(fd) })
		return nil
	}
	return lastErr
}

func (s *Server) ListenUDP(addr string) error {
	pc, err := net.ListenPacket("udp", addr)
	if err != nil {
		return err
	}
	uc := pc.(*net.UDPConn)
	uc.SetReadBuffer(8 << 20)
	uc.SetWriteBuffer(8 << 20)
	s.Addr["udp"] = pc.LocalAddr().String()
	s.addCloser(func() { pc.Close() })
	go func() {
		buf := make([]byte, 65536)
		for {
			n, from, err := pc.ReadFrom(buf)
			if err != nil {
				return
			}
			raw := append([]byte{}, buf[:n]...)
			a := s.handle("udp", 0, raw)
			go func() {
				if a.delay > 0 {
					time.Sleep(a.delay)
				}
				switch a.kind {
				case "silent", "close", "rst", "http":
					return
				case "half":
					s.sent(a)
					pc.WriteTo(a.reply[:len(a.reply)/2], from)
				default:
					s.sent(a)
					pc.WriteTo(a.reply, from)
				}
			}()
		}
	}()
	return nil
}

// ---------------------------------------------------------------- stream (TCP / TLS)

func (s *Server) ListenTCP(addr string) error { return s.listenStream("tcp", addr, nil) }

func (s *Server) ListenTLS(addr string, cfg *tls.Config) error {
	return s.listenStream("tls", addr, cfg)
}

func (s *Server) listenStream(transport, addr string, cfg *tls.Config) error {
	l, err := net.Listen("tcp", addr)
	if err != nil {
		return err
	}
	s.Addr[transport] = l.Addr().String()
	var mu sync.Mutex
	conns := map[net.Conn]struct{}{}
	s.addCloser(func() {
		l.Close()
		mu.Lock()
		for c := range conns {
			c.Close()
		}
		mu.Unlock()
	})
	go func() {
		for {
			c, err := l.Accept()
			if err != nil {
				return
			}
			mu.Lock()
			conns[c] = struct{}{}
			mu.Unlock()
			go func() {
				defer func() {
					mu.Lock()
					delete(conns, c)
					mu.Unlock()
				}()
				s.serveStream(transport, c, cfg)
			}()
		}
	}()
	return nil
}

func (s *Server) serveStream(transport string, raw net.Conn, cfg *tls.Config) {
	s.open.Add(1)
	s.accepted.Add(1)
	defer s.open.Add(-1)
	defer raw.Close()
	var c net.Conn = raw
	if cfg != nil {
		tc := tls.Server(raw, cfg)
		raw.SetDeadline(time.Now().Add(10 * time.Second))
		if err := tc.Handshake(); err != nil {
			return
		}
		raw.SetDeadline(time.Time{})
		c = tc
	}
	id := s.connSeq.Add(1)
	sni := ""
	if tc, ok := c.(*tls.Conn); ok {
		sni = tc.ConnectionState().ServerName
	}
	var wm sync.Mutex
	defer func() {
		s.mu.Lock()
		if s.connEnd == nil {
			s.connEnd = map[int64]int64{}
		}
		s.connEnd[id] = clock.Now()
		s.mu.Unlock()
	}()
	for {
		var hdr [2]byte
		if _, err := io.ReadFull(c, hdr[:]); err != nil {
			return
		}
		body := make([]byte, binary.BigEndian.Uint16(hdr[:]))
		if _, err := io.ReadFull(c, body); err != nil {
			return
		}
		a := s.handle(transport, id, body)
		if sni != "" {
			s.peer(a, sni, "")
		}
		go func() {
			if a.delay > 0 {
				time.Sleep(a.delay)
			}
			switch a.kind {
			case "silent", "http":
				return
			case "close":
				c.Close()
				return
			case "rst":
				if tc, ok := raw.(*net.TCPConn); ok {
					tc.SetLinger(0)
				}
				raw.Close()
				return
			}
			frame := make([]byte, 2+len(a.reply))
			binary.BigEndian.PutUint16(frame, uint16(len(a.reply)))
			copy(frame[2:], a.reply)
			wm.Lock()
			s.sent(a) // time stamp taken before the write: a lower bound of the real send time
			if a.kind == "half" {
				c.Write(frame[:2+len(a.reply)/2])
				wm.Unlock()
				time.Sleep(50 * time.Millisecond)
				c.Close()
				return
			}
			if a.junkFirst && len(a.reply) >= 2 {
				// 12 octets: the reply's id, "response", one question announced - and no question
				junk := []byte{0, 12, a.reply[0], a.reply[1], 0x81, 0x80, 0, 1, 0, 0, 0, 0, 0, 0}
				frame = append(junk, frame...)
			}
			c.Write(frame)
			wm.Unlock()
			if a.fin {
				c.Close()
			}
		}()
	}
}

// ---------------------------------------------------------------- DoH (h1 plain, h2 over TLS, h3)

func (s *Server) httpHandler(transport string) http.Handler {
	return http.HandlerFunc(func(w http.ResponseWriter, r *http.Request) {
		var raw []byte
		var err error
		switch r.Method {
		case http.MethodGet:
			raw, err = base64.RawURLEncoding.DecodeString(r.URL.Query().Get("dns"))
		case http.MethodPost:
			raw, err = io.ReadAll(io.LimitReader(r.Body, 65536))
		default:
			err = errors.New("method")
		}
		if err != nil {
			w.WriteHeader(400)
			return
		}
		a := s.handle(transport, s.connSeq.Add(1), raw)
		sni := ""
		if r.TLS != nil {
			sni = r.TLS.ServerName
		}
		s.peer(a, sni, r.Host)
		if a.delay > 0 {
			select {
			case <-time.After(a.delay):
			case <-r.Context().Done():
				return
			}
		}
		switch a.kind {
		case "silent":
			select {
			case <-r.Context().Done():
			case <-time.After(30 * time.Second):
			}
			return
		case "close", "rst":
			panic(http.ErrAbortHandler)
		case "redir":
			// an HTTP redirect to another host:port (set by the harness): a DoH peer must not be able to
			// send the proxy elsewhere
			s.sent(a)
			w.Header().Set("Location", s.RedirectTo)
			w.WriteHeader(307)
			return
		case "http":
			s.sent(a)
			w.WriteHeader(a.http)
			w.Write([]byte("scripted status"))
			return
		case "half":
			w.Header().Set("Content-Type", "application/dns-message")
			w.Header().Set("Content-Length", fmt.Sprint(len(a.reply)))
			s.sent(a)
			w.WriteHeader(200)
			w.Write(a.reply[:len(a.reply)/2])
			panic(http.ErrAbortHandler)
		}
		w.Header().Set("Content-Type", "application/dns-message")
		s.sent(a)
		w.WriteHeader(200)
		if f, ok := w.(http.Flusher); ok && a.stream {
			f.Flush()
			half := len(a.reply) / 2
			w.Write(a.reply[:half])
			f.Flush()
			w.Write(a.reply[half:])
			return
		}
		w.Write(a.reply)
	})
}

func (s *Server) connState(c net.Conn, st http.ConnState) {
	switch st {
	case http.StateNew:
		s.open.Add(1)
		s.accepted.Add(1)
	case http.StateClosed, http.StateHijacked:
		s.open.Add(-1)
	}
}

func (s *Server) ListenHTTP(addr string) error {
	l, err := net.Listen("tcp", addr)
	if err != nil {
		return err
	}
	s.Addr["http"] = l.Addr().String()
	hs := &http.Server{Handler: s.httpHandler("http"), ConnState: s.connState, ErrorLog: log.New(io.Discard, "", 0)}
	s.addCloser(func() { hs.Close() })
	go hs.Serve(l)
	return nil
}

func (s *Server) ListenHTTPS(addr string, cfg *tls.Config) error {
	l, err := net.Listen("tcp", addr)
	if err != nil {
		return err
	}
	s.Addr["https"] = l.Addr().String()
	cfg = cfg.Clone()
	cfg.NextProtos = []string{"h2", "http/1.1"}
	hs := &http.Server{Handler: s.httpHandler("https"), TLSConfig: cfg, ConnState: s.connState, ErrorLog: log.New(io.Discard, "", 0)}
	s.addCloser(func() { hs.Close() })
	go hs.ServeTLS(l, "", "")
	return nil
}

func (s *Server) ListenH3(addr string, cfg *tls.Config) error {
	pc, err := net.ListenPacket("udp", addr)
	if err != nil {
		return err
	}
	s.Addr["h3"] = pc.LocalAddr().String()
	h3 := &http3.Server{Handler: s.httpHandler("h3"), TLSConfig: http3.ConfigureTLSConfig(cfg.Clone())}
	s.addCloser(func() { h3.Close(); pc.Close() })
	go h3.Serve(pc)
	return nil
}

// ---------------------------------------------------------------- DoQ

func (s *Server) ListenQUIC(addr string, cfg *tls.Config) error {
	pc, err := net.ListenPacket("udp", addr)
	if err != nil {
		return err
	}
	cfg = cfg.Clone()
	cfg.NextProtos = []string{"doq"}
	tr := &quic.Transport{Conn: pc}
	maxStreams := s.QUICMaxStreams
	if maxStreams <= 0 {
		maxStreams = 1 << 16
	}
	l, err := tr.Listen(cfg, &quic.Config{MaxIdleTimeout: 60 * time.Second, MaxIncomingStreams: maxStreams})
	if err != nil {
		pc.Close()
		return err
	}
	s.Addr["quic"] = pc.LocalAddr().String()
	s.addCloser(func() { l.Close(); tr.Close(); pc.Close() })
	go func() {
		for {
			c, err := l.Accept(context.Background())
			if err != nil {
				return
			}
			id := s.connSeq.Add(1)
			s.open.Add(1)
			s.accepted.Add(1)
			go func() {
				defer s.open.Add(-1)
				for {
					st, err := c.AcceptStream(context.Background())
					if err != nil {
						return
					}
					go s.serveQUICStream(id, c, st)
				}
			}()
		}
	}()
	return nil
}

func (s *Server) serveQUICStream(id int64, c quic.Connection, st quic.Stream) {
	var hdr [2]byte
	st.SetReadDeadline(time.Now().Add(10 * time.Second))
	if _, err := io.ReadFull(st, hdr[:]); err != nil {
		st.CancelRead(0)
		st.Close()
		return
	}
	body := make([]byte, binary.BigEndian.Uint16(hdr[:]))
	if _, err := io.ReadFull(st, body); err != nil {
		st.CancelRead(0)
		st.Close()
		return
	}
	a := s.handle("quic", id, body)
	s.peer(a, c.ConnectionState().TLS.ServerName, "")
	if a.delay > 0 {
		time.Sleep(a.delay)
	}
	switch a.kind {
	case "silent", "http":
		// keep the stream open; it dies with the connection
		return
	case "close":
		st.Close()
		return
	case "rst":
		st.CancelWrite(1)
		c.CloseWithError(1, "scripted reset")
		return
	}
	frame := make([]byte, 2+len(a.reply))
	binary.BigEndian.PutUint16(frame, uint16(len(a.reply)))
	copy(frame[2:], a.reply)
	s.sent(a)
	if a.kind == "half" {
		st.Write(frame[:2+len(a.reply)/2])
		st.Close()
		return
	}
	st.Write(frame)
	st.Close()
}
