// Package fakeup implements programmable fake DNS upstreams (UDP, TCP, DoT,
// DoH over h1/h2/h3, DoQ) whose answers are *keyed*: the RDATA is a
// deterministic function of (lower-cased question, upstream tag, serial,
// directives), so every client-visible response identifies the upstream
// reply it came from and the question it was produced for.
package fakeup

import (
	"crypto/sha256"
	"encoding/binary"
	"encoding/hex"
	"fmt"
	"net"
	"strconv"
	"strings"

	"github.com/miekg/dns"
)

// Directives are encoded in the first label of the query name, separated
// by '-': e.g. "ok-n5-ttl30-d20-u7f3a.udp.test."
type Directives struct {
	Kind              string // ok | nx | empty | rc | tc | silent | garbage | close | rst | half | http
	RCode             int    // for rc<N>
	HTTP              int    // for http<code>
	Delay             int    // d<ms>
	N                 int    // n<k>: number of extra records (default 2)
	Big               int    // big<N>: pad the answer to about N bytes
	ExactUncompressed bool   // uexact<N>: like exact<N>, measured on the uncompressed wire form
	Exact             int    // exact<N>: pad the answer so that its compressed wire form has exactly N octets (N >= 600)
	TTL               uint32 // ttl<N> (default 300)
	MixTTL            bool   // ttlm: record i gets TTL+i
	Opt               bool   // opt: reply carries an OPT with options
	NsTTL             int64  // nsttl<N>: TTL of the authority and additional records (-1 = same rule as the answers)
	Pad               int    // pad<N>: one extra TXT answer with exactly N octets of text (N <= 255): response sizes in 1-byte steps
	JunkFirst         bool   // junkfirst: stream servers send a complete but undecodable frame right in front of the reply
	NoQ               bool   // noq: the reply has no question section (QDCOUNT 0), as some servers and middle boxes send it
	QR0               bool   // qr0: the reply has the QR bit clear (what a gateway that echoes the request, or a captive portal, sends)
	AA, AD            bool   // aa / ad: the reply has the AA / AD flag set (an authoritative / validating upstream)
	Fat               bool   // fat (with uexact<N>): the padding goes into the first answer record itself - one TXT record with up to 64 KiB
	// of text - instead of hundreds of small records, so that name compression saves next to nothing
	Fin    bool // fin: stream transports close the connection right after the reply has been written
	Stream bool // stream: DoH servers flush the response header before the body (no Content-Length) and write the body in two pieces
	Deep   int  // deep<N>: a CNAME chain of nested names followed by N A records owned by a long label under the
	// deepest name: compresses to ~16 bytes per record with full name compression, but to ~80 bytes per
	// record for an encoder that bounds the depth of compression pointer chains
}

func ParseDirectives(firstLabel string) Directives {
	d := Directives{Kind: "ok", N: 2, TTL: 300, NsTTL: -1}
	for _, p := range strings.Split(strings.ToLower(firstLabel), "-") {
		num := func(prefix string) (int, bool) {
			if strings.HasPrefix(p, prefix) {
				if n, err := strconv.Atoi(p[len(prefix):]); err == nil {
					return n, true
				}
			}
			return 0, false
		}
		switch p {
		case "ok", "nx", "nodata", "empty", "tc", "tcs", "silent", "garbage", "close", "rst", "half", "redir":
			d.Kind = p
			continue
		case "fat":
			d.Fat = true
			continue
		case "servfail":
			d.Kind, d.RCode = "rc", 2
			continue
		case "opt":
			d.Opt = true
			continue
		case "ttlm":
			d.MixTTL = true
			continue
		case "fin":
			d.Fin = true
			continue
		case "stream":
			d.Stream = true
			continue
		case "qr0":
			d.QR0 = true
			continue
		case "noq":
			d.NoQ = true
			continue
		case "junkfirst":
			d.JunkFirst = true
			continue
		case "aa":
			d.AA = true
			continue
		case "ad":
			d.AD = true
			continue
		}
		if n, ok := num("rc"); ok {
			d.Kind, d.RCode = "rc", n&0xF
		} else if n, ok := num("http"); ok {
			d.Kind, d.HTTP = "http", n
		} else if n, ok := num("uexact"); ok {
			d.Exact, d.ExactUncompressed = n, true
		} else if n, ok := num("exact"); ok {
			d.Exact = n
		} else if n, ok := num("big"); ok {
			d.Big = n
		} else if n, ok := num("pad"); ok {
			d.Pad = min(n, 255)
		} else if n, ok := num("deep"); ok {
			d.Deep = n
		} else if n, ok := num("nsttl"); ok {
			d.NsTTL = int64(n)
		} else if n, ok := num("ttl"); ok {
			d.TTL = uint32(n)
		} else if n, ok := num("d"); ok {
			d.Delay = n
		} else if n, ok := num("n"); ok {
			d.N = n
		}
	}
	return d
}

// Key is the hash every record of an answer is derived from.
func Key(lowerName string, qtype, qclass uint16, tag string) [32]byte {
	h := sha256.New()
	h.Write([]byte(strings.ToLower(lowerName)))
	var b [4]byte
	binary.BigEndian.PutUint16(b[:2], qclass)
	binary.BigEndian.PutUint16(b[2:], qtype)
	h.Write(b[:])
	h.Write([]byte{0})
	h.Write([]byte(tag))
	var out [32]byte
	copy(out[:], h.Sum(nil))
	return out
}

func sub(key [32]byte, serial uint32, i int) []byte {
	h := sha256.New()
	h.Write(key[:])
	var b [8]byte
	binary.BigEndian.PutUint32(b[:4], serial)
	binary.BigEndian.PutUint32(b[4:], uint32(i))
	h.Write(b[:])
	return h.Sum(nil)
}

// MetaPrefix starts the TXT record that identifies a keyed answer.
const MetaPrefix = "v1 "

// Meta is what the first answer record (TXT) of a keyed reply says.
type Meta struct {
	Serial uint32
	Hash   string // first 16 bytes of Key, hex
	Tag    string
}

func (m Meta) String() string {
	return fmt.Sprintf("%ss=%d h=%s up=%s", MetaPrefix, m.Serial, m.Hash, m.Tag)
}

func ParseMeta(s string) (Meta, bool) {
	if !strings.HasPrefix(s, MetaPrefix) {
		return Meta{}, false
	}
	var m Meta
	for _, f := range strings.Fields(s[len(MetaPrefix):]) {
		k, v, _ := strings.Cut(f, "=")
		switch k {
		case "s":
			n, err := strconv.ParseUint(v, 10, 32)
			if err != nil {
				return Meta{}, false
			}
			m.Serial = uint32(n)
		case "h":
			m.Hash = v
		case "up":
			m.Tag = v
		}
	}
	return m, m.Hash != ""
}

// FindMeta returns the meta record of a response (first TXT answer with the prefix).
func FindMeta(m *dns.Msg) (Meta, bool) {
	for _, rr := range m.Answer {
		if t, ok := rr.(*dns.TXT); ok && len(t.Txt) > 0 {
			if mt, ok := ParseMeta(t.Txt[0]); ok {
				return mt, true
			}
		}
	}
	for _, rr := range m.Ns {
		if t, ok := rr.(*dns.TXT); ok && len(t.Txt) > 0 {
			if mt, ok := ParseMeta(t.Txt[0]); ok {
				return mt, true
			}
		}
	}
	return Meta{}, false
}

func hostName(b []byte, suffix string) string {
	return "h" + hex.EncodeToString(b[:5]) + "." + suffix
}

// BuildReply builds the keyed reply for a question. name is the query name
// as the upstream received it (FQDN, presentation format). The result is a
// deterministic function of its arguments. The header ID is left zero and
// no OPT is added (see AddOpt).
func BuildReply(name string, qtype, qclass uint16, tag string, serial uint32, d Directives) *dns.Msg {
	lower := strings.ToLower(name)
	key := Key(lower, qtype, qclass, tag)
	m := new(dns.Msg)
	m.Response = !d.QR0
	m.RecursionAvailable = true
	m.RecursionDesired = true
	m.Authoritative, m.AuthenticatedData = d.AA, d.AD
	m.Question = []dns.Question{{Name: name, Qtype: qtype, Qclass: qclass}}
	if d.NoQ {
		m.Question = nil
	}
	class := qclass
	if class == dns.ClassANY || class == dns.ClassNONE || class == 0 {
		class = dns.ClassINET
	}
	ttlOf := func(i int) uint32 {
		if d.MixTTL {
			return d.TTL + uint32(i)
		}
		return d.TTL
	}
	meta := Meta{Serial: serial, Hash: hex.EncodeToString(key[:16]), Tag: tag}
	metaRR := &dns.TXT{Hdr: dns.RR_Header{Name: name, Rrtype: dns.TypeTXT, Class: class, Ttl: ttlOf(0)}, Txt: []string{meta.String()}}

	switch d.Kind {
	case "nx", "nodata":
		if d.Kind == "nx" {
			m.Rcode = dns.RcodeNameError
		}
		s := sub(key, serial, 0)
		proofTTL := ttlOf(1)
		if d.NsTTL >= 0 {
			proofTTL = uint32(d.NsTTL) // the record next to the SOA (an NSEC-like proof, glue) has a life time of its own
		}
		m.Ns = append(m.Ns,
			&dns.SOA{Hdr: dns.RR_Header{Name: parentOf(name), Rrtype: dns.TypeSOA, Class: class, Ttl: ttlOf(0)},
				Ns: hostName(s, "ns.test."), Mbox: hostName(s[5:], "mbox.test."),
				Serial: binary.BigEndian.Uint32(s[10:]), Refresh: 7200, Retry: 900, Expire: 86400, Minttl: 60},
			&dns.TXT{Hdr: dns.RR_Header{Name: parentOf(name), Rrtype: dns.TypeTXT, Class: class, Ttl: proofTTL}, Txt: []string{meta.String()}})
		return m
	case "empty":
		return m
	case "rc":
		m.Rcode = d.RCode
		return m
	}
	// positive answer
	m.Answer = append(m.Answer, metaRR)
	types := []uint16{dns.TypeA, dns.TypeAAAA, dns.TypeCNAME, dns.TypeMX, dns.TypeTXT, dns.TypeSRV, dns.TypePTR, 65280}
	for i := 1; i <= d.N; i++ {
		s := sub(key, serial, i)
		t := types[(int(key[0])+i)%len(types)]
		if i == 1 {
			switch qtype {
			case dns.TypeA, dns.TypeAAAA, dns.TypeCNAME, dns.TypeMX, dns.TypeTXT, dns.TypeSRV, dns.TypePTR, dns.TypeNS:
				t = qtype
			}
		}
		hdr := dns.RR_Header{Name: name, Rrtype: t, Class: class, Ttl: ttlOf(i)}
		var rr dns.RR
		switch t {
		case dns.TypeA:
			rr = &dns.A{Hdr: hdr, A: net.IP(s[:4]).To4()}
		case dns.TypeAAAA:
			ip := make(net.IP, 16)
			copy(ip, s[:16])
			ip[0] = 0x20 // keep it a real v6 address (not v4-mapped)
			rr = &dns.AAAA{Hdr: hdr, AAAA: ip}
		case dns.TypeCNAME:
			rr = &dns.CNAME{Hdr: hdr, Target: hostName(s, name)}
		case dns.TypeNS:
			rr = &dns.NS{Hdr: hdr, Ns: hostName(s, name)}
		case dns.TypePTR:
			rr = &dns.PTR{Hdr: hdr, Ptr: hostName(s, "ptr.test.")}
		case dns.TypeMX:
			rr = &dns.MX{Hdr: hdr, Preference: binary.BigEndian.Uint16(s[6:]), Mx: hostName(s, name)}
		case dns.TypeSRV:
			rr = &dns.SRV{Hdr: hdr, Priority: binary.BigEndian.Uint16(s[6:]), Weight: binary.BigEndian.Uint16(s[8:]), Port: binary.BigEndian.Uint16(s[10:]), Target: hostName(s, "srv.test.")}
		case dns.TypeTXT:
			rr = &dns.TXT{Hdr: hdr, Txt: []string{hex.EncodeToString(s[:12]), hex.EncodeToString(s[12:20])}}
		default:
			rr = &dns.RFC3597{Hdr: hdr, Rdata: hex.EncodeToString(s[:1+int(s[31])%24])}
		}
		m.Answer = append(m.Answer, rr)
	}
	if d.N >= 3 {
		s := sub(key, serial, 1000)
		nsTTL := func(i int) uint32 {
			if d.NsTTL >= 0 {
				return uint32(d.NsTTL)
			}
			return ttlOf(i)
		}
		m.Ns = append(m.Ns, &dns.NS{Hdr: dns.RR_Header{Name: parentOf(name), Rrtype: dns.TypeNS, Class: class, Ttl: nsTTL(d.N + 1)}, Ns: hostName(s, "ns.test.")})
		if d.N >= 4 {
			m.Extra = append(m.Extra, &dns.A{Hdr: dns.RR_Header{Name: hostName(s, "ns.test."), Rrtype: dns.TypeA, Class: class, Ttl: nsTTL(d.N + 2)}, A: net.IP(s[8:12]).To4()})
		}
		if d.N >= 5 {
			m.Extra = append(m.Extra, &dns.A{Hdr: dns.RR_Header{Name: hostName(s, "ns.test."), Rrtype: dns.TypeA, Class: class, Ttl: nsTTL(d.N + 3)}, A: net.IP(s[12:16]).To4()})
		}
	}
	if d.Pad > 0 {
		m.Answer = append(m.Answer, &dns.TXT{Hdr: dns.RR_Header{Name: name, Rrtype: dns.TypeTXT, Class: class, Ttl: ttlOf(5000)}, Txt: []string{strings.Repeat("p", d.Pad)}})
	}
	if d.Deep > 0 {
		cur := name
		for k := 1; k <= 5; k++ {
			next := fmt.Sprintf("x%d.%s", k, cur)
			m.Answer = append(m.Answer, &dns.CNAME{Hdr: dns.RR_Header{Name: cur, Rrtype: dns.TypeCNAME, Class: class, Ttl: ttlOf(3000 + k)}, Target: next})
			cur = next
		}
		owner := strings.Repeat("l", 60) + "." + cur
		for i := 0; i < d.Deep; i++ {
			s := sub(key, serial, 4000+i)
			m.Answer = append(m.Answer, &dns.A{Hdr: dns.RR_Header{Name: owner, Rrtype: dns.TypeA, Class: class, Ttl: ttlOf(4000 + i)}, A: net.IP(s[:4]).To4()})
		}
	}
	if d.Big > 0 {
		i := 2000
		for m.Len() < d.Big {
			s := sub(key, serial, i)
			txt := strings.Repeat(hex.EncodeToString(s), 3)[:180]
			m.Answer = append(m.Answer, &dns.TXT{Hdr: dns.RR_Header{Name: name, Rrtype: dns.TypeTXT, Class: class, Ttl: ttlOf(i)}, Txt: []string{txt}})
			i++
		}
	}
	if d.Exact >= 600 && d.Fat && d.ExactUncompressed {
		m.Compress = false
		rem := d.Exact - m.Len()
		i := 6000
		chunk := func(n int) string {
			s := sub(key, serial, i)
			i++
			return strings.Repeat(hex.EncodeToString(s), 4)[:n]
		}
		for rem > 256 {
			metaRR.Txt = append(metaRR.Txt, chunk(255))
			rem -= 256
		}
		if rem == 1 && len(metaRR.Txt) > 1 {
			metaRR.Txt[len(metaRR.Txt)-1] = metaRR.Txt[len(metaRR.Txt)-1][:254]
			rem++
		}
		if rem >= 2 {
			metaRR.Txt = append(metaRR.Txt, chunk(rem-1))
		}
		return m
	}
	if d.Exact >= 600 {
		wireLen := func() int {
			c := m.Compress
			m.Compress = !d.ExactUncompressed
			b, err := m.Pack()
			m.Compress = c
			if err != nil {
				return 1 << 30
			}
			return len(b)
		}
		i := 3000
		filler := func(n int) *dns.TXT {
			s := sub(key, serial, i)
			i++
			txt := strings.Repeat(hex.EncodeToString(s), 5)[:n]
			return &dns.TXT{Hdr: dns.RR_Header{Name: name, Rrtype: dns.TypeTXT, Class: class, Ttl: ttlOf(i)}, Txt: []string{txt}}
		}
		for wireLen() < d.Exact-700 {
			for k := 0; k < 16 && wireLen() < d.Exact-4000; k++ {
				m.Answer = append(m.Answer, filler(250))
			}
			m.Answer = append(m.Answer, filler(250))
		}
		for tries := 0; tries < 8; tries++ {
			rem := d.Exact - wireLen()
			if rem == 0 {
				break
			}
			ovh := 13 // owner name as a pointer (2) + type/class/ttl/rdlength (10) + the text's length octet (1)
			if d.ExactUncompressed {
				ovh = 11 + len(name) + 1
			}
			if rem < ovh+1 { // too little room for one more record: shorten the last filler
				last := m.Answer[len(m.Answer)-1].(*dns.TXT)
				last.Txt[0] = last.Txt[0][:len(last.Txt[0])-(ovh+1-rem)-3]
				continue
			}
			m.Answer = append(m.Answer, filler(min(rem-ovh, 250)))
		}
	}
	return m
}

func parentOf(name string) string {
	labels := dns.SplitDomainName(name)
	if len(labels) <= 1 {
		return name
	}
	_, rest, _ := strings.Cut(name, ".")
	if rest == "" {
		return "."
	}
	return rest
}

// AddOpt appends the OPT record a hostile/ordinary upstream would send.
func AddOpt(m *dns.Msg, key [32]byte) {
	o := &dns.OPT{Hdr: dns.RR_Header{Name: ".", Rrtype: dns.TypeOPT}}
	o.SetUDPSize(4096)
	o.SetDo(key[1]&1 == 1)
	o.Option = append(o.Option,
		&dns.EDNS0_COOKIE{Code: dns.EDNS0COOKIE, Cookie: hex.EncodeToString(key[:16])},
		&dns.EDNS0_SUBNET{Code: dns.EDNS0SUBNET, Family: 1, SourceNetmask: 24, SourceScope: 16, Address: net.IPv4(9, 9, 9, 0).To4()},
		&dns.EDNS0_PADDING{Padding: make([]byte, int(key[2])%16)},
	)
	// servers differ in where they put the OPT record: last (usual), first, or between other records
	switch pos := int(key[3]) % 3; {
	case pos == 1 && len(m.Extra) > 0:
		m.Extra = append([]dns.RR{o}, m.Extra...)
	case pos == 2 && len(m.Extra) > 1:
		ex := append([]dns.RR{}, m.Extra[:1]...)
		ex = append(ex, o)
		m.Extra = append(ex, m.Extra[1:]...)
	default:
		m.Extra = append(m.Extra, o)
	}
}

// RRKey is a canonical string of a record without its TTL.
func RRKey(rr dns.RR) string {
	c := dns.Copy(rr)
	c.Header().Ttl = 0
	return c.String()
}
