// Package gen provides deterministic PRNG streams derived from VERIF_SEED.
package gen

import (
	"encoding/binary"
	"hash/fnv"
	"math/rand"
)

// R is a deterministic random source for one case.
type R struct{ *rand.Rand }

// New returns the stream for (seed, stream name, case index).
func New(seed int64, stream string, idx int) *R {
	h := fnv.New64a()
	var b [16]byte
	binary.LittleEndian.PutUint64(b[:8], uint64(seed))
	binary.LittleEndian.PutUint64(b[8:], uint64(idx))
	h.Write(b[:])
	h.Write([]byte(stream))
	return &R{rand.New(rand.NewSource(int64(h.Sum64())))}
}

func (r *R) Bool() bool { return r.Intn(2) == 0 }

// P returns true with probability p.
func (r *R) P(p float64) bool { return r.Float64() < p }

// Range returns an int in [lo, hi].
func (r *R) Range(lo, hi int) int {
	if hi <= lo {
		return lo
	}
	return lo + r.Intn(hi-lo+1)
}

func (r *R) Bytes(n int) []byte {
	b := make([]byte, n)
	r.Read(b)
	return b
}

func Pick[T any](r *R, xs []T) T { return xs[r.Intn(len(xs))] }
