// Package kf reads /verif/known_findings.json (never written at run time).
package kf

import (
	"encoding/json"
	"os"
)

type Finding struct {
	Property  string `json:"property"`
	Status    string `json:"status"` // open | fixed
	Signature string `json:"signature"`
	Commit    string `json:"commit,omitempty"`
	What      string `json:"what"`
}

type File struct {
	Findings []Finding `json:"findings"`
}

func Load(path string) (*File, error) {
	b, err := os.ReadFile(path)
	if err != nil {
		if os.IsNotExist(err) {
			return &File{}, nil
		}
		return nil, err
	}
	f := new(File)
	if err := json.Unmarshal(b, f); err != nil {
		return nil, err
	}
	return f, nil
}

// Open returns the open finding with this property and signature, or nil.
// Fixed entries suppress nothing.
func (f *File) Open(prop, sig string) *Finding {
	for i := range f.Findings {
		x := &f.Findings[i]
		if x.Status == "open" && x.Property == prop && x.Signature == sig {
			return x
		}
	}
	return nil
}
