// Package racelog parses GORACE log files / stderr captures into de-duplicated reports.
package racelog

import (
	"bufio"
	"os"
	"path/filepath"
	"regexp"
	"strings"
)

type Report struct {
	Text     string   `json:"text"`
	Frames   []string `json:"frames"`    // function names of both access stacks, in order
	Mosproxy bool     `json:"mosproxy"`  // some frame is mosproxy code
	Key      string   `json:"key"`       // dedup key: stack pair, line numbers stripped
	Entry    string   `json:"entry_key"` // outermost entry-point pair
}

var funcLine = regexp.MustCompile(`^  ([^\s].*)\(\)$`)

// ParseText extracts race reports from a text blob.
func ParseText(s string) []Report {
	var out []Report
	lines := strings.Split(s, "\n")
	for i := 0; i < len(lines); i++ {
		if !strings.Contains(lines[i], "WARNING: DATA RACE") {
			continue
		}
		j := i + 1
		for j < len(lines) && !strings.HasPrefix(lines[j], "==================") {
			j++
		}
		block := lines[i:j]
		out = append(out, parseBlock(block))
		i = j
	}
	return out
}

func parseBlock(block []string) Report {
	r := Report{Text: strings.Join(block, "\n")}
	// sections: "Write at ... by goroutine N:", "Previous read at ... by goroutine M:", then "Goroutine N (running) created at:"
	sect := 0
	var stacks [2][]string
	for _, l := range block {
		switch {
		case strings.HasPrefix(l, "Write at") || strings.HasPrefix(l, "Read at") || strings.HasPrefix(l, "Atomic"):
			sect = 1
		case strings.HasPrefix(l, "Previous "):
			sect = 2
		case strings.HasPrefix(l, "Goroutine ") || strings.HasPrefix(l, "Mutex "):
			sect = 3
		}
		if m := funcLine.FindStringSubmatch(l); m != nil {
			fn := strings.TrimSpace(m[1])
			if strings.Contains(fn, "github.com/IrineSistiana/mosproxy/") && !strings.Contains(fn, "/mosproxy/verif/") {
				r.Mosproxy = true
			}
			if sect == 1 || sect == 2 {
				stacks[sect-1] = append(stacks[sect-1], fn)
				r.Frames = append(r.Frames, fn)
			}
		}
	}
	a, b := strings.Join(stacks[0], "<"), strings.Join(stacks[1], "<")
	if a > b {
		a, b = b, a
	}
	r.Key = a + " || " + b
	last := func(s []string) string {
		if len(s) == 0 {
			return ""
		}
		return s[len(s)-1]
	}
	ea, eb := last(stacks[0]), last(stacks[1])
	if ea > eb {
		ea, eb = eb, ea
	}
	r.Entry = ea + " || " + eb
	return r
}

// ParseFiles reads every file matching glob (GORACE log_path writes <path>.<pid>).
func ParseFiles(glob string) []Report {
	var out []Report
	ms, _ := filepath.Glob(glob)
	for _, m := range ms {
		f, err := os.Open(m)
		if err != nil {
			continue
		}
		var sb strings.Builder
		sc := bufio.NewScanner(f)
		sc.Buffer(make([]byte, 1<<20), 1<<24)
		for sc.Scan() {
			sb.WriteString(sc.Text())
			sb.WriteByte('\n')
		}
		f.Close()
		out = append(out, ParseText(sb.String())...)
	}
	return out
}

// Dedup groups by Key.
func Dedup(rs []Report) map[string][]Report {
	m := map[string][]Report{}
	for _, r := range rs {
		m[r.Key] = append(m[r.Key], r)
	}
	return m
}
